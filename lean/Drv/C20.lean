/-
Driver for C20: one operation per line on stdin, one result per line on stdout.
Byte strings are lower-case hex (`-` = empty string), lists are comma separated
(`_` = empty list), route segments are joined by `.`.

  mux regs=<K>:<hex>:<tag>,... paths=<hex>,...
        K = P (Prefix) | E (Exact) | D (Dir);  answer: reg=<ok|dup>,... route=<tag|miss>,...
  seg adds=<route>:<hex>,... finds=<route>,...
        package trie; answer: add=<added|conflict|panic>,... find=<n>:<hex>:<exact hex>,...
  route <hex>
        newRoute/C.Rel/Current/RelRoute/ShiftRoute(1) walk; answer: dir=<0|1> walk=<rel>|<current>|<relroute>;...
  router idx=<tag|-> def=<tag|-> regs=<K>:<hex>:<tag>,... reqs=<method hex>:<path hex>:<pos>,...
        K = F (File) | D (Dir) | M<method hex> (MethodFile); answer: reg=<ok|dup|panicEmpty|panicTrie>,...
        serve=<i|d|n><tag>@<rel hex>@<pos> | miss | badmethod | panic
  nest mode=<dir|tier> outer=<hex> scr=<a|u|l|t> idx=.. def=.. regs=.. reqs=..   (as router)
        a handler scribbles over the slice RelRoute() gave it, then delegates to the inner router;
        answer: serve=<i|d|n><tag>@<rel hex>@<pos>@<relroute> | miss | badmethod | outer-miss
  svc mode=<serve|internal> path=<hex> user=<hex> level=<int> adm=<pred> auth=<a> setup=<s>
      res=<t> guest=<t> usr=<t> admin=<t> signin=<t>
        pred = default|true|false|lvl2|anon|usera ; a = nil|miss|ok|err ; s = keep|err|set:<hex>:<int>|seterr:<hex>:<int>
        t = nil|miss|ok|err|missset:<hex>:<int>
        answer: trace=<tier>@<user hex>@<level>,... out=<miss|ok|err|needsignin|redirect|panic>
  host sets=<hex>:<tag>,... reqs=<hex>,...
        answer: serve=<tag|miss>,...
-/
import PubModel.C20.Model
import PubModel.Common.Hex

open PubModel PubModel.C20

abbrev B := List UInt8

def slash : UInt8 := 47

def listOf (s : String) : List String :=
  if s = "_" then [] else s.splitOn ","

def showList (xs : List String) : String :=
  if xs.isEmpty then "_" else ",".intercalate xs

def parseRoute (s : String) : Option (List B) :=
  if s = "_" then some [] else (s.splitOn ".").mapM Hex.decode

def showRoute (r : List B) : String :=
  if r.isEmpty then "_" else ".".intercalate (r.map Hex.encode)

def parseInt (s : String) : Option Int :=
  if s.startsWith "-" then (String.ofList (s.toList.drop 1)).toNat?.map (fun n => - (n : Int)) else s.toNat?.map (fun n => (n : Int))

/-! ### mux -/

def muxOp (regs paths : String) : Option String := do
  let rs ← (listOf regs).mapM fun e =>
    match e.splitOn ":" with
    | [k, h, t] => do
      let b ← Hex.decode h
      let t ← t.toNat?
      pure (k, b, t)
    | _ => none
  let ps ← (listOf paths).mapM Hex.decode
  let step := fun (acc : Mux Nat UInt8 × List String) (r : String × B × Nat) =>
    let res :=
      if r.1 = "P" then acc.1.addPrefix r.2.1 r.2.2
      else if r.1 = "E" then acc.1.addExact r.2.1 r.2.2
      else acc.1.addDir slash r.2.1 r.2.2
    let s := match res.2 with
      | .ok => "ok" | .dupPrefix => "dup" | .dupExact => "dup"
    (res.1, acc.2 ++ [s])
  let fin := rs.foldl step (Mux.new, [])
  let outs := ps.map fun p =>
    match fin.1.route p with
    | some t => toString t
    | none => "miss"
  pure s!"reg={showList fin.2} route={showList outs}"

/-! ### package trie -/

def segOp (adds finds : String) : Option String := do
  let as ← (listOf adds).mapM fun e =>
    match e.splitOn ":" with
    | [r, v] => do
      let r ← parseRoute r
      let v ← Hex.decode v
      pure (r, v)
    | _ => none
  let fs ← (listOf finds).mapM parseRoute
  let step := fun (acc : SNode B UInt8 × List String) (a : List B × B) =>
    let res := trieAdd acc.1 a.1 a.2
    let s := match res.2 with
      | .added => "added" | .conflict => "conflict" | .panicEmptyValue => "panic"
    (res.1, acc.2 ++ [s])
  let fin := as.foldl step (SNode.empty, [])
  let outs := fs.map fun r =>
    let f := trieFindSeg fin.1 r
    s!"{f.1.length}:{Hex.encode f.2}:{Hex.encode (trieFindExact fin.1 r)}"
  pure s!"add={showList fin.2} find={showList outs}"

/-! ### newRoute walk -/

def walk (c : Ctx UInt8) : Nat → List String
  | 0 => []
  | fuel + 1 =>
    let here := s!"{Hex.encode c.rel}|{Hex.encode (c.route.current c.pos)}|{showRoute c.relRoute}"
    if c.rel = [] then [here] else here :: walk (c.shift 1) fuel

def routeOp (h : String) : Option String := do
  let p ← Hex.decode h
  let c := Ctx.new slash p [] []
  pure s!"dir={if c.pathIsDir then 1 else 0} walk={";".intercalate (walk c (p.length + 2))}"

/-! ### router -/

def showServed : Served Nat UInt8 → String
  | .index h c => s!"i{h}@{Hex.encode c.rel}@{c.pos}"
  | .dflt h c => s!"d{h}@{Hex.encode c.rel}@{c.pos}"
  | .node h c => s!"n{h}@{Hex.encode c.rel}@{c.pos}"
  | .miss => "miss"
  | .badMethod => "badmethod"
  | .panicNoNode => "panic"

def optTag (s : String) : Option (Option Nat) :=
  if s = "-" then some none else s.toNat?.map some

def parseRouterRegs (regs : String) : Option (List (B × RNode Nat UInt8)) :=
  (listOf regs).mapM fun e =>
    match e.splitOn ":" with
    | [k, h, t] => do
      let b ← Hex.decode h
      let t ← t.toNat?
      let n : RNode Nat UInt8 ←
        if k = "F" then some ⟨t, false, []⟩
        else if k = "D" then some ⟨t, true, []⟩
        else if k.startsWith "M" then (Hex.decode (String.ofList (k.toList.drop 1))).map (fun m => ⟨t, false, m⟩)
        else none
      pure (b, n)
    | _ => none

def parseReqs (reqs : String) : Option (List (B × B × Nat)) :=
  (listOf reqs).mapM fun e =>
    match e.splitOn ":" with
    | [m, p, pos] => do
      let m ← Hex.decode m
      let p ← Hex.decode p
      let pos ← pos.toNat?
      pure (m, p, pos)
    | _ => none

def buildRouter (idx dflt : Option Nat) (rs : List (B × RNode Nat UInt8)) : Router Nat UInt8 × List String :=
  let step := fun (acc : Router Nat UInt8 × List String) (a : B × RNode Nat UInt8) =>
    let res := acc.1.add slash a.1 a.2
    let s := match res.2 with
      | .ok => "ok" | .dup => "dup" | .panicEmpty => "panicEmpty" | .panicTrie => "panicTrie"
    (res.1, acc.2 ++ [s])
  rs.foldl step ({ index := idx, miss := dflt }, [])

def routerOp (idx dflt regs reqs : String) : Option String := do
  let idx ← optTag idx
  let dflt ← optTag dflt
  let rs ← parseRouterRegs regs
  let qs ← parseReqs reqs
  let fin := buildRouter idx dflt rs
  let outs := qs.map fun q =>
    let c := (Ctx.new slash q.2.1 q.1 []).shift q.2.2
    showServed (fin.1.serve c)
  pure s!"reg={showList fin.2} serve={showList outs}"

/-! ### nested routers behind a handler that scribbles over what `RelRoute()` returned

In the model every value is an immutable list, so whatever the intermediate
handler does to the slice it got (`scr=` is ignored here) the nested router
decides on the segments of the ORIGINAL path.  `mode=dir`: an outer router with
one directory route `outer=` whose handler delegates to the inner router;
`mode=tier`: a ServiceSet whose guest tier scribbles and misses and whose user
tier is the inner router. -/

def showServedRR : Served Nat UInt8 → String
  | .index h c => s!"i{h}@{Hex.encode c.rel}@{c.pos}@{showRoute c.relRoute}"
  | .dflt h c => s!"d{h}@{Hex.encode c.rel}@{c.pos}@{showRoute c.relRoute}"
  | .node h c => s!"n{h}@{Hex.encode c.rel}@{c.pos}@{showRoute c.relRoute}"
  | .miss => "miss"
  | .badMethod => "badmethod"
  | .panicNoNode => "panic"

def nestOp (mode outer idx dflt regs reqs : String) : Option String := do
  let outerP ← Hex.decode outer
  let idx ← optTag idx
  let dflt ← optTag dflt
  let rs ← parseRouterRegs regs
  let qs ← parseReqs reqs
  let inner := (buildRouter idx dflt rs).1
  let out : Router Nat UInt8 := (buildRouter none none [(outerP, ⟨0, true, []⟩)]).1
  let outs := qs.map fun q =>
    let c := (Ctx.new slash q.2.1 q.1 []).shift q.2.2
    if mode = "tier" then showServedRR (inner.serve c)
    else match out.serve c with
      | .node _ c' => showServedRR (inner.serve c')
      | .miss => "outer-miss"
      | _ => "outer-other"
  pure s!"serve={showList outs}"

/-! ### service set -/

def mkSvc (spec : String) : Option (Option (Svc UInt8)) :=
  if spec = "nil" then some none
  else if spec = "miss" then some (some fun c => (.miss, c))
  else if spec = "ok" then some (some fun c => (.ok, c))
  else if spec = "err" then some (some fun c => (.err 1, c))
  else match spec.splitOn ":" with
    | ["missset", u, l] => do
      let u ← Hex.decode u
      let l ← parseInt l
      pure (some fun c => (.miss, { c with user := u, level := l }))
    | _ => none

def mkSetup (spec : String) : Option (Ctx UInt8 → Option Nat × Ctx UInt8) :=
  if spec = "keep" then some fun c => (none, c)
  else if spec = "err" then some fun c => (some 2, c)
  else match spec.splitOn ":" with
    | ["set", u, l] => do
      let u ← Hex.decode u
      let l ← parseInt l
      pure fun c => (none, { c with user := u, level := l })
    | ["seterr", u, l] => do   -- applies the claims first, then fails
      let u ← Hex.decode u
      let l ← parseInt l
      pure fun c => (some 2, { c with user := u, level := l })
    | _ => none

def mkPred (spec : String) : Option (Option (Ctx UInt8 → Bool)) :=
  if spec = "default" then some none
  else if spec = "true" then some (some fun _ => true)
  else if spec = "false" then some (some fun _ => false)
  else if spec = "lvl2" then some (some fun c => decide (c.level ≥ 2))
  else if spec = "anon" then some (some fun c => decide (c.user = []))
  else if spec = "usera" then some (some fun c => decide (c.user = [97]))
  else none

def tierName : Tier → String
  | .authServe => "authServe" | .authSetup => "authSetup" | .resource => "resource"
  | .guest => "guest" | .user => "user" | .admin => "admin" | .signIn => "signin"

def showOut : SSOut → String
  | .ret .miss => "miss" | .ret .ok => "ok" | .ret (.err _) => "err"
  | .needSignIn => "needsignin" | .redirect => "redirect" | .panicNilAuth => "panic"

def svcOp (ws : List String) : Option String := do
  let mode ← kv ws "mode"
  let path ← kvHex ws "path"
  let user ← kvHex ws "user"
  let level ← (kv ws "level").bind parseInt
  let adm ← (kv ws "adm").bind mkPred
  let authS ← kv ws "auth"
  let setup ← (kv ws "setup").bind mkSetup
  let res ← (kv ws "res").bind mkSvc
  let guest ← (kv ws "guest").bind mkSvc
  let usr ← (kv ws "usr").bind mkSvc
  let admin ← (kv ws "admin").bind mkSvc
  let signin ← (kv ws "signin").bind mkSvc
  let authServe ← mkSvc authS
  let auth : Option (Auth UInt8) := authServe.map fun f => ⟨f, setup⟩
  let s : ServiceSet UInt8 :=
    { auth := auth, resource := res, guest := guest, user := usr, admin := admin,
      isAdminP := adm, internalSignIn := signin }
  let c : Ctx UInt8 := { Ctx.new slash path [] [] with user := user, level := level }
  let run := if mode = "internal" then s.serveInternal [slash] c else s.serve c
  let tr := run.trace.map fun e => s!"{tierName e.1}@{Hex.encode e.2.user}@{e.2.level}"
  pure s!"trace={showList tr} out={showOut run.out}"

/-! ### routers as the tiers of a ServiceSet (fall-through after Miss)

`chain d1=<tag|-> d2=.. d3=.. r1=<regs> r2=<regs> r3=<regs> reqs=..`: Resource, Guest and User
are three routers (default handler `d<i>`); handlers with tags 70..79 return Miss, all others
nil.  Answer per request: the handlers invoked, in order, as `<i|d|n><tag>@<rel>@<pos>@<relroute>`
joined by `|` (`-` if none), then `>` and the outcome. -/

def chainHandlers (h : Nat) : Svc UInt8 := fun c => (if 70 ≤ h ∧ h < 80 then .miss else .ok, c)

def hasHandler : Served Nat UInt8 → Bool
  | .index .. | .dflt .. | .node .. => true
  | _ => false

def chainWalk : List (Router Nat UInt8) → Ctx UInt8 → List String
  | [], _ => []
  | r :: rest, c =>
    let d := r.serve c
    let here := if hasHandler d then [showServedRR d] else []
    let o := r.svc chainHandlers c
    if o.1 ≠ .miss then here else here ++ chainWalk rest o.2

def chainOp (ws : List String) : Option String := do
  let d1 ← (kv ws "d1").bind optTag
  let d2 ← (kv ws "d2").bind optTag
  let d3 ← (kv ws "d3").bind optTag
  let r1 ← (kv ws "r1").bind parseRouterRegs
  let r2 ← (kv ws "r2").bind parseRouterRegs
  let r3 ← (kv ws "r3").bind parseRouterRegs
  let qs ← (kv ws "reqs").bind parseReqs
  let rs := [(buildRouter none d1 r1).1, (buildRouter none d2 r2).1, (buildRouter none d3 r3).1]
  let svcs := rs.map fun r => r.svc chainHandlers
  let s : ServiceSet UInt8 :=
    { auth := some ⟨fun c => (.miss, c), fun c => (none, c)⟩,
      resource := svcs[0]?, guest := svcs[1]?, user := svcs[2]? }
  let outs := qs.map fun q =>
    let c : Ctx UInt8 := { (Ctx.new slash q.2.1 q.1 []).shift q.2.2 with user := [117] }
    let inv := chainWalk rs c
    let invS := if inv.isEmpty then "-" else "|".intercalate inv
    s!"{invS}>{showOut (s.serve c).out}"
  pure s!"serve={showList outs}"

/-! ### host mux -/

def hostOp (sets reqs : String) : Option String := do
  let ss ← (listOf sets).mapM fun e =>
    match e.splitOn ":" with
    | [h, t] => do
      let h ← Hex.decode h
      let t ← t.toNat?
      pure (h, t)
    | _ => none
  let qs ← (listOf reqs).mapM Hex.decode
  let hm : HostMux Nat UInt8 := ss.foldl (fun m e => m.set e.1 e.2) HostMux.new
  let outs := qs.map fun h =>
    match hm.serve { path := [], host := h } with
    | some t => toString t
    | none => "miss"
  pure s!"serve={showList outs}"

def step (_ : Unit) (line : String) : Unit × String :=
  let ws := words line
  let out : Option String :=
    match ws with
    | "mux" :: rest => do
      let r ← kv rest "regs"
      let p ← kv rest "paths"
      muxOp r p
    | "seg" :: rest => do
      let a ← kv rest "adds"
      let f ← kv rest "finds"
      segOp a f
    | ["route", h] => routeOp h
    | "router" :: rest => do
      let i ← kv rest "idx"
      let d ← kv rest "def"
      let r ← kv rest "regs"
      let q ← kv rest "reqs"
      routerOp i d r q
    | "nest" :: rest => do
      let m ← kv rest "mode"
      let o ← kv rest "outer"
      let i ← kv rest "idx"
      let d ← kv rest "def"
      let r ← kv rest "regs"
      let q ← kv rest "reqs"
      nestOp m o i d r q
    | "chain" :: rest => chainOp rest
    | "svc" :: rest => svcOp rest
    | "host" :: rest => do
      let s ← kv rest "sets"
      let q ← kv rest "reqs"
      hostOp s q
    | _ => none
  ((), out.getD "bad-op")

def main : IO Unit := runLines step ()
