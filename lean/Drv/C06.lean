/-
Driver for C06.  The harness records a concurrent history on the real store,
finds a sequential order of the operations that took effect (per key), and
sends that order here as C05 op lines: the reference map `Spec` replays it, and
the harness compares every recorded result and the final dump with what `Spec`
says.

  reset | meta | <ord|uno> dump | <ord|uno> <op> ...      (as in Drv/C05, plus mode=inc)
  answer: `spec=<out>#<digest>`
-/
import PubModel.C05.Glue
import PubModel.C05.Lines
import PubModel.C06.Glue

open PubModel PubModel.C05 PubModel.C05.Lines PubModel.C06

structure St where
  ord : Tab := []
  uno : Tab := []
  htab : List (Key × Key) := []

def showKind : LockKind → String
  | .none => "none" | .r => "r" | .w => "w"

def step (st : St) (line : String) : St × String :=
  match words line with
  | ["reset"] => ({ st with ord := [], uno := [] }, "reset")
  | ["meta"] =>
    let ks := tableFields.map (fun f => s!"{f}:{showKind (genLocks.lockOfField f)}")
    (st, s!"exclusiveRMW={exclusiveRMW genLocks} locks=[{",".intercalate ks}] " ++
      s!"sqlMutate=[{",".intercalate Gen.PiscesLock.sqlMutateSeq}]")
  | store :: name :: ws =>
    let ordered := store = "ord"
    if store ≠ "ord" ∧ store ≠ "uno" then (st, "bad-op") else
    let htab := match kvHex ws "k", kvHex ws "hk" with
      | some k, some hk => if (st.htab.lookup k).isSome then st.htab else (k, hk) :: st.htab
      | _, _ => st.htab
    let st := { st with htab := htab }
    let cfg := genCfg ordered (hOf htab) Json.valid
    let cur := if ordered then st.ord else st.uno
    if name = "dump" then (st, s!"spec={dumpSpec cfg cur}")
    else match parseOp name ws with
      | none => (st, "bad-op")
      | some op =>
        let r := Spec.step cfg cur op
        let line := s!"spec={showOut cfg.valid r.2}#{hex64 (fnv1a (dumpSpec cfg r.1))}"
        (if ordered then { st with ord := r.1 } else { st with uno := r.1 }, line)
  | _ => (st, "bad-op")

def main : IO Unit := runLines step {}
