/-
Driver for C16: one operation per line on stdin, one result per line on stdout.
All byte strings are lower-case hex (`-` = empty); integers are decimal
nanoseconds (seconds for iat/exp/notBefore/notAfter).  The cryptographic
functions are *tables supplied on the line* by the harness, which computes
them with the real HMAC/SHA-256/RSA; the model is parametric in them:

  macs=<data>:<mac>,...             C.mac _ data      (missing = empty, never equal)
  shas=<data>:<digest>,...          C.sha data
  vs=<key>:<digest>:<sig>:<0|1>,... C.verifySig key digest sig
  kp=<key>:<0|1>,...                C.keyParses key
  hj=<bytes>:<alg>/<typ>/<kid>,...  J.header bytes    (missing = JSON error)
  cj=<bytes>:<iss>/<scope>/<aud>/<typ>/<sub>/<exp>/<iat>,...   J.claims bytes
  ct=<bytes>:<ns|nil>,...           the T field left in a decoded challenge

  hexdec s=  | b64dec s=  | hexenc b= | b64enc b=                        codecs alone
  sign k= d=                      check k= t=             checkhex k= s=
  sessnew k= max= now= ttl= d=    sesscheck k= max= now= s=
  gatelife life= ttl=             gatecheck k= max= now= s=
  ttoken k= now=                  tcheck k= w= now= s=
  rsat pub= w= now= data= hash= sig=
  chal k= now= w= t=
  jwths k= kid= now= tok=
  jwtrs now= keys=<id>/<typ>/<key>/<notAfter>/<notBefore>;... tok=
  self now= keys=... user= host= tok=
  claims c=<iss>/<scope>/<aud>/<typ>/<sub>|nil t=<...>|nil
  conc kind= n= ms= seed= k=        (executed concurrently by the harness; the model answers ok)
  pc park at=<get|set|mutate> <call> | pc release      (a call paused in front of a store operation)
  pc reset | create | remove | disable | enable | issue now= expiry= | setup now= claim=right|old|wrong|empty id=
-/
import PubModel.C16.Glue

open PubModel PubModel.C16

def splitNE (s : String) (sep : String) : List String :=
  if s = "" ∨ s = "." then [] else s.splitOn sep

def kvInt (ws : List String) (k : String) : Option Int := (kv ws k).bind String.toInt?

def pairTable (ws : List String) (k : String) : List (Bytes × Bytes) :=
  match kv ws k with
  | none => []
  | some v => (splitNE v ",").filterMap fun e =>
    match e.splitOn ":" with
    | [a, b] => do
      let a ← Hex.decode a
      let b ← Hex.decode b
      pure (a, b)
    | _ => none

def lookupB (t : List (Bytes × Bytes)) (d : Bytes) : Bytes := (t.lookup d).getD []

def vsTable (ws : List String) : List (Bytes × Bytes × Bytes × Bool) :=
  match kv ws "vs" with
  | none => []
  | some v => (splitNE v ",").filterMap fun e =>
    match e.splitOn ":" with
    | [k, d, s, b] => do
      let k ← Hex.decode k
      let d ← Hex.decode d
      let s ← Hex.decode s
      pure (k, d, s, b == "1")
    | _ => none

def kpTable (ws : List String) : List (Bytes × Bool) :=
  match kv ws "kp" with
  | none => []
  | some v => (splitNE v ",").filterMap fun e =>
    match e.splitOn ":" with
    | [k, b] => (Hex.decode k).map (fun k => (k, b == "1"))
    | _ => none

def mkCrypto (ws : List String) : Crypto :=
  let macs := pairTable ws "macs"
  let shas := pairTable ws "shas"
  let vs := vsTable ws
  let kp := kpTable ws
  { mac := fun _ d => lookupB macs d
    sha := fun d => lookupB shas d
    verifySig := fun k d s =>
      match vs.find? (fun e => e.1 == k && e.2.1 == d && e.2.2.1 == s) with
      | some e => e.2.2.2
      | none => false
    keyParses := fun k => (kp.lookup k).getD false }

def parseHeader (s : String) : Option Header :=
  match s.splitOn "/" with
  | [a, t, k] => do
    let a ← Hex.decode a
    let t ← Hex.decode t
    let k ← Hex.decode k
    pure ⟨a, t, k⟩
  | _ => none

def parseClaims (s : String) : Option Claims :=
  match s.splitOn "/" with
  | [iss, scope, aud, typ, sub, exp, iat] => do
    let iss ← Hex.decode iss
    let scope ← Hex.decode scope
    let aud ← Hex.decode aud
    let typ ← Hex.decode typ
    let sub ← Hex.decode sub
    let exp ← exp.toInt?
    let iat ← iat.toInt?
    pure ⟨iss, scope, aud, typ, sub, exp, iat⟩
  | [iss, scope, aud, typ, sub] => do
    let iss ← Hex.decode iss
    let scope ← Hex.decode scope
    let aud ← Hex.decode aud
    let typ ← Hex.decode typ
    let sub ← Hex.decode sub
    pure ⟨iss, scope, aud, typ, sub, 0, 0⟩
  | _ => none

def jsonTable {α : Type} (ws : List String) (k : String) (p : String → Option α) : List (Bytes × α) :=
  match kv ws k with
  | none => []
  | some v => (splitNE v ",").filterMap fun e =>
    match e.splitOn ":" with
    | [b, x] => do
      let b ← Hex.decode b
      let x ← p x
      pure (b, x)
    | _ => none

def mkJson (ws : List String) : Json :=
  let hj := jsonTable ws "hj" parseHeader
  let cj := jsonTable ws "cj" parseClaims
  { header := fun b => hj.lookup b, claims := fun b => cj.lookup b }

def parseKeys (s : String) : List PubKey :=
  (splitNE s ";").filterMap fun e =>
    match e.splitOn "/" with
    | [id, typ, key, na, nb] => do
      let id ← Hex.decode id
      let typ ← Hex.decode typ
      let key ← Hex.decode key
      let na ← na.toInt?
      let nb ← nb.toInt?
      pure ⟨id, typ, key, na, nb⟩
    | _ => none

def showOpt : Option Bytes → String
  | some d => "ok " ++ Hex.encode d
  | none => "fail"

def showJwt : JwtOut → String
  | .decodeErr => "decodeErr"
  | .verifyErr => "verifyErr"
  | .timeErr => "timeErr"
  | .claimErr => "claimErr"
  | .ok t => s!"ok alg={Hex.encode t.header.alg} typ={Hex.encode t.header.typ} kid={Hex.encode t.header.kid} iat={t.claims.iat} exp={t.claims.exp} payload={Hex.encode t.payload} sig={Hex.encode t.sig}"

def showPOut : POut → String
  | .ok => "ok" | .notFound => "notFound" | .exists_ => "invalidArg"
  | .invalidArg => "invalidArg" | .unauthorized => "unauthorized"

def b2s (b : Bool) : String := if b then "1" else "0"

def showBytesAsText (b : Bytes) : String := String.ofList (b.map (fun c => Char.ofNat c.toNat))

def showRole : Option Role → String
  | none => "none"
  | some r =>
    let id := match r.identity with | some n => toString n | none => "-"
    let pc := match r.passCode with
      | none => "none"
      | some p => s!"{showBytesAsText p.code}/{p.valid}/{p.expire}/{b2s p.consumed}/{p.tried}"
    s!"d={b2s r.disabled} id={id} pc={pc}"

/-- an API call that has been started and is waiting in front of `KV.Mutate` -/
inductive Pending
  | op (o : POp)
  | issue (now ex : Int)

structure DrvState where
  role : Option Role := none
  issued : Nat := 0
  parked : Option Pending := none

def codeOf (n : Nat) : Bytes := (toString n).toList.map (fun c => u8 c.toNat)

def bytesOfText (s : String) : Bytes := s.toList.map (fun c => u8 c.toNat)

def claimOf (st : DrvState) (w : String) : Bytes :=
  if w = "right" then (if st.issued = 0 then bytesOfText "x" else codeOf st.issued)
  else if w = "old" then (if st.issued < 2 then bytesOfText "y" else codeOf (st.issued - 1))
  else if w = "wrong" then bytesOfText "w"
  else []

def step (st : DrvState) (line : String) : DrvState × String :=
  let ws := words line
  let cfg := genCfg
  let C := mkCrypto ws
  let hx := fun k => kvHex ws k
  match ws with
  | "pc" :: op :: rest =>
    -- a call of the Roles API, parsed when it is started
    let parseCall := fun (op : String) (rest : List String) => (
      match op with
      | "create" => some (Pending.op .create)
      | "remove" => some (Pending.op .remove)
      | "disable" => some (Pending.op .disable)
      | "enable" => some (Pending.op .enable)
      | "issue" =>
        match kvInt rest "now", kvInt rest "expiry" with
        | some now, some ex => some (Pending.issue now ex)
        | _, _ => none
      | "setup" =>
        match kvInt rest "now", kv rest "claim", kvNat rest "id" with
        | some now, some c, some id => some (Pending.op (.setup (claimOf st c) now id))
        | _, _, _ => none
      | _ => none : Option Pending)
    -- the call takes effect atomically (`KV.Mutate`), at the moment it is executed
    let exec := fun (st : DrvState) (p : Pending) => (
      match p with
      | .op o =>
        let (r, out) := pstep cfg st.role o
        ({ st with role := r }, out)
      | .issue now ex =>
        let (r, out) := pstep cfg st.role (.issue now (codeOf (st.issued + 1)) ex)
        ({ st with role := r, issued := if out = .ok then st.issued + 1 else st.issued }, out)
      : DrvState × POut)
    match op with
    | "reset" => ({}, "ok none")
    | "park" =>
      -- `pc park at=<get|set|mutate> <call>`: the call runs until its first store operation of
      -- that kind and waits there.  Every mutation of a role record is ONE `KV.Mutate`
      -- (Gen fact `rolesMutateAtomic`), so a call never reaches a separate Get or Set: it
      -- completes; in front of `Mutate` it has not touched the record yet.
      match rest with
      | at_ :: op' :: rest' =>
        match st.parked, parseCall op' rest' with
        | none, some p =>
          let mutating := op' = "enable" || op' = "disable" || op' = "issue" || op' = "setup"
          if at_ = "at=mutate" && mutating then
            ({ st with parked := some p }, s!"parked {showRole st.role}")
          else
            let (st', out) := exec st p
            (st', s!"done {showPOut out} {showRole st'.role}")
        | _, _ => (st, "bad-op")
      | _ => (st, "bad-op")
    | "release" =>
      match st.parked with
      | none => (st, s!"none {showRole st.role}")
      | some p =>
        let (st', out) := exec { st with parked := none } p
        (st', s!"released {showPOut out} {showRole st'.role}")
    | _ =>
      match parseCall op rest with
      | some p =>
        let (st', out) := exec st p
        (st', s!"{showPOut out} {showRole st'.role}")
      | none => (st, "bad-op")
  | op :: _ =>
    let out : String :=
      match op with
      -- concurrent verification on shared objects: by the iff theorems (verification is a
      -- function of key and token) no forgery verifies and every genuine token does
      | "conc" => "ok"
      | "hexdec" => match hx "s" with
        | some s => showOpt (hexDecodeGo s)
        | none => "bad-op"
      | "b64dec" => match hx "s" with
        | some s => showOpt (b64DecodeGo s)
        | none => "bad-op"
      | "hexenc" => match hx "b" with
        | some b => Hex.encode (hexEncode b)
        | none => "bad-op"
      | "b64enc" => match hx "b" with
        | some b => Hex.encode (b64Encode b)
        | none => "bad-op"
      | "sign" => match hx "k", hx "d" with
        | some k, some d => Hex.encode (sign C k d)
        | _, _ => "bad-op"
      | "check" => match hx "k", hx "t" with
        | some k, some t => showOpt (check C cfg.macSize k t)
        | _, _ => "bad-op"
      | "signhex" => match hx "k", hx "d" with
        | some k, some d => Hex.encode (signHex C k d)
        | _, _ => "bad-op"
      | "checkhex" => match hx "k", hx "s" with
        | some k, some s => showOpt (checkHex C cfg k s)
        | _, _ => "bad-op"
      | "sessnew" => match hx "k", kvInt ws "max", kvInt ws "now", kvInt ws "ttl", hx "d" with
        | some k, some mx, some now, some ttl, some d =>
          let r := Sessions.new C ⟨k, mx⟩ now d ttl
          s!"{Hex.encode r.1} exp={r.2}"
        | _, _, _, _, _ => "bad-op"
      | "sesscheck" => match hx "k", kvInt ws "max", kvInt ws "now", hx "s" with
        | some k, some mx, some now, some s =>
          match Sessions.check C cfg ⟨k, mx⟩ now s with
          | some (d, left) => s!"ok {Hex.encode d} left={left}"
          | none => "fail"
        | _, _, _, _ => "bad-op"
      | "gatelife" => match kvInt ws "life", kvInt ws "ttl" with
        | some life, some ttl => s!"life={capTTL (gateLifetime cfg life) ttl}"
        | _, _ => "bad-op"
      | "gatecheck" => match hx "k", kvInt ws "max", kvInt ws "now", hx "s" with
        | some k, some mx, some now, some s =>
          let r := gateCheck C cfg ⟨k, mx⟩ now s
          if r.valid then s!"valid user={Hex.encode r.user} refresh={b2s r.needRefresh}" else "invalid"
        | _, _, _, _ => "bad-op"
      | "ttoken" => match hx "k", kvInt ws "now" with
        | some k, some now => Hex.encode (timeToken C k now)
        | _, _ => "bad-op"
      | "tcheck" => match hx "k", kvInt ws "w", kvInt ws "now", hx "s" with
        | some k, some w, some now, some s => if timeCheck C cfg k w now s then "ok" else "fail"
        | _, _, _, _ => "bad-op"
      | "rsat" => match hx "pub", kvInt ws "w", kvInt ws "now", hx "data", hx "hash", hx "sig" with
        | some p, some w, some now, some d, some h, some s =>
          if rsaTimeCheck C p w now ⟨d, h, s⟩ then "ok" else "fail"
        | _, _, _, _, _, _ => "bad-op"
      | "chal" => match hx "k", kvInt ws "now", kvInt ws "w", hx "t" with
        | some k, some now, some w, some t =>
          let tbl : List (Bytes × Option Int) := match kv ws "ct" with
            | none => []
            | some v => (splitNE v ",").filterMap fun e =>
              match e.splitOn ":" with
              | [b, x] => (Hex.decode b).map (fun b => (b, x.toInt?))
              | _ => none
          let chalT : Bytes → Option Int := fun d => (tbl.lookup d).bind id
          match checkChallenge C cfg chalT k t now w with
          | .ok => "ok" | .invalid => "invalid" | .future => "rejected" | .expired => "rejected"
        | _, _, _, _ => "bad-op"
      | "jwths" => match hx "k", kvInt ws "now", hx "kid", hx "tok" with
        | some k, some now, some kid, some tok =>
          showJwt (jwtHS256 C cfg (mkJson ws) k (hs256Pin cfg kid) tok now)
        | _, _, _, _ => "bad-op"
      | "jwtrs" => match kvInt ws "now", kv ws "keys", hx "tok" with
        | some now, some keys, some tok => showJwt (jwtRS256 C cfg (mkJson ws) (parseKeys keys) tok now)
        | _, _, _ => "bad-op"
      | "self" => match kvInt ws "now", kv ws "keys", hx "user", hx "host", hx "tok" with
        | some now, some keys, some u, some h, some tok =>
          showJwt (verifySelfToken C cfg (mkJson ws) (parseKeys keys) tok u h now)
        | _, _, _, _, _ => "bad-op"
      | "claims" => match kv ws "c", kv ws "t" with
        | some c, some t =>
          let pc := if c = "nil" then some none else (parseClaims c).map some
          let pt := if t = "nil" then some none else (parseClaims t).map some
          match pc, pt with
          | some c, some t => if checkClaimSet c t then "ok" else "fail"
          | _, _ => "bad-op"
        | _, _ => "bad-op"
      | _ => "bad-op"
    (st, out)
  | [] => (st, "bad-op")

def main : IO Unit := runLines step {}
