/-
Driver for C02.
  route sni=<hex> isip=<0|1> lookup=<none|fail|home|fwd|ep:<hexname>> reg=<n|none>   -> outcome
  policy sni=<hex> isip=<0|1>                                                        -> rejected | pass
  office reset | newbox id= key= | deliver id= key= conn= | remove id= key= | dump   -> result
-/
import PubModel.C02.Model
import PubModel.Gen.Routing
open PubModel PubModel.C02

def str (b : Bytes) : String := String.ofList (b.map fun x => Char.ofNat x.toNat)

def showOutcome : Outcome → String
  | .rejected => "rejected" | .lookupFailed => "lookupFailed" | .noLookup => "noLookup"
  | .home => "home" | .forward _ => "forward" | .endpoint _ e => s!"endpoint {e}" | .endpointMissing => "endpointMissing"

def showOffice (o : Office) : String :=
  let bs := o.map fun b => s!"{b.k.id}:{b.k.key}:{match b.slot with | some c => toString c | none => "-"}"
  if bs.isEmpty then "-" else ",".intercalate (bs.mergeSort (· ≤ ·))

def step (o : Office) (line : String) : Office × String :=
  let ws := words line
  match ws with
  | "route" :: rest =>
    match kvHex rest "sni", kv rest "isip", kv rest "lookup", kv rest "reg" with
    | some sni, some ip, some lk, some reg =>
      let name := str sni
      let lookup : Option (String → Option Dest) :=
        if lk = "none" then none
        else if lk = "fail" then some fun _ => none
        else if lk = "home" then some fun _ => some { name := "~", home := true }
        else if lk = "fwd" then some fun _ => some { name := "", forward := "127.0.0.1:1" }
        else match lk.splitOn ":" with
          | ["ep", h] => some fun _ => (Hex.decode h).map fun b => { name := str b }
          | _ => some fun _ => none
      let registry : String → Option Nat := fun _ => reg.toNat?
      (o, showOutcome (route Gen.Routing.rejectedSuffixes (fun _ => ip = "1") lookup registry name))
    | _, _, _, _ => (o, "bad-op")
  | "policy" :: rest =>
    match kvHex rest "sni", kv rest "isip" with
    | some sni, some ip =>
      (o, if isRejected Gen.Routing.rejectedSuffixes (fun _ => ip = "1") (str sni) then "rejected" else "pass")
    | _, _ => (o, "bad-op")
  | ["office", "reset"] => ([], "ok")
  | "office" :: "newbox" :: rest =>
    match kvNat rest "id", kvNat rest "key" with
    | some i, some k => (newBox o ⟨i, k⟩, "ok")
    | _, _ => (o, "bad-op")
  | "office" :: "deliver" :: rest =>
    match kvNat rest "id", kvNat rest "key", kvNat rest "conn" with
    | some i, some k, some c =>
      let (o', r) := deliver (!Gen.Routing.matchComparesKey) o ⟨i, k⟩ c
      (o', match r with | .ok => "ok" | .notFound => "notFound" | .keyMismatch => "keyMismatch")
    | _, _, _ => (o, "bad-op")
  | "office" :: "remove" :: rest =>
    match kvNat rest "id", kvNat rest "key" with
    | some i, some k => (remove o ⟨i, k⟩, "ok")
    | _, _ => (o, "bad-op")
  | ["office", "dump"] => (o, showOffice o)
  | _ => (o, "bad-op")

def main : IO Unit := runLines step []
