/-
Driver for C01 (stage level).
  sidewrite <hex>                          -> frame lengths "4096,4096,12"
  sideread msgs=<b:hex|t,...|-> reads=<k,...>  -> outputs "d:<hex>|eof|wait,..."
  tunnelread k=<n> reply=<hex>             -> n=<count> data=<hex> | err
  pipe writes=<hex,...|-> reads=<k,...>    -> outputs <hex,...>
-/
import PubModel.C01.Model
import PubModel.Gen.Stream
open PubModel PubModel.C01

def parseList (s : String) : List String := if s = "-" ∨ s = "" then [] else s.splitOn ","

def parseMsg (w : String) : Option WsMsg :=
  if w = "t" then some .text
  else match w.splitOn ":" with
    | ["b", h] => (Hex.decode h).map .binary
    | _ => none

def step (_ : Unit) (line : String) : Unit × String :=
  let ws := words line
  let out :=
    match ws with
    | ["sidewrite", h] =>
      match Hex.decode h with
      | some b => ",".intercalate ((sideWrite Gen.Stream.sideChunk b).map fun f => toString f.length)
      | none => "bad-op"
    | "sideread" :: rest =>
      match (parseList ((kv rest "msgs").getD "-")).mapM parseMsg,
            (parseList ((kv rest "reads").getD "-")).mapM String.toNat? with
      | some ms, some ks =>
        let (_, outs) := ks.foldl (fun (p : SideR × List String) k =>
          let (s', o) := p.1.read k
          (s', p.2 ++ [match o with
            | .data b => "d:" ++ Hex.encode b
            | .eof => "eof"
            | .wait => "wait"])) (⟨none, ms⟩, [])
        ",".intercalate outs
      | _, _ => "bad-op"
    | "tunnelread" :: rest =>
      match kvNat rest "k", kvHex rest "reply" with
      | some k, some r =>
        match tunnelRead Gen.Stream.tunnelReadChecked k r with
        | .n c d => s!"n={c} data={Hex.encode d}"
        | .err => "err"
      | _, _ => "bad-op"
    | "pipe" :: rest =>
      match (parseList ((kv rest "writes").getD "-")).mapM Hex.decode,
            (parseList ((kv rest "reads").getD "-")).mapM String.toNat? with
      | some wsb, some ks => ",".intercalate ((pipeReads wsb ks).map Hex.encode)
      | _, _ => "bad-op"
    | _ => "bad-op"
  ((), out)

def main : IO Unit := runLines step ()
