/-
Driver for C14.
  conn cap=<B|gen> chunks=<hex,hex,...|-> reads=<k,k,...|->
    -> hello=<ok:<n>|err:<class>> reads=<hex,...>
  sniff <hex of one whole record>          -> name=<hex> n=<count> first=<hex> | reject
-/
import PubModel.C14.Model
import PubModel.C14.Hello
import PubModel.Gen.Hello
open PubModel PubModel.C14

def parseList (s : String) : List String := if s = "-" ∨ s = "" then [] else s.splitOn ","

def step (_ : Unit) (line : String) : Unit × String :=
  let ws := words line
  let out :=
    match ws with
    | "conn" :: rest =>
      let cap := match kv rest "cap" with
        | some "gen" => some Gen.Hello.peekBuf
        | some x => x.toNat?
        | none => none
      let chunks := (parseList ((kv rest "chunks").getD "-")).mapM Hex.decode
      let reads := (parseList ((kv rest "reads").getD "-")).mapM String.toNat?
      match cap, chunks, reads with
      | some cap, some chunks, some reads =>
        let r0 : BR := { buf := [], src := chunks.filter (· ≠ []), cap := cap }
        let (r1, res) := helloInfo (fun b => b.length) r0
        let h := match res with
          | .ok n => s!"ok:{n}"
          | .error (.peekHeader .eof) => "err:eof"
          | .error (.peekHeader .bufferFull) => "err:bufferFull"
          | .error .notTLS => "err:notTLS"
          | .error (.peekRecord .eof) => "err:eof"
          | .error (.peekRecord .bufferFull) => "err:bufferFull"
        let (_, outs) := reads.foldl (fun (p : BR × List String) k =>
          let (r', o) := p.1.read k
          (r', p.2 ++ [Hex.encode o])) (r1, [])
        s!"hello={h} reads={",".intercalate outs}"
      | _, _, _ => "bad-op"
    | ["sniff", h] =>
      match Hex.decode h with
      | some bs =>
        match Hello.sniff bs with
        | some i => s!"name={Hex.encode i.name} n={i.protoCount} first={Hex.encode i.firstProto}"
        | none => "reject"
      | none => "bad-op"
    | _ => "bad-op"
  ((), out)

def main : IO Unit := runLines step ()
