/-
Driver for C10: one operation per line on stdin, one result per line on stdout.

  ws [reuse=1]                               fresh workspace (no sources, no rules, empty out/)
  src set <name> size=<n> mtime=<n> mode=<n> [link=<target>]
  src del <name> | src mv <a> <b>
  rules <rule> ...                           replaces every BUILD file; a rule is
        fs|<name>|<files>|<sel>|<ign>|<incs>   lists comma separated, "-" = empty,
        bu|<name>|<deps>                       a pattern is dir:suffix:deep(0/1)
  out del|obstruct|restore <o> | out corrupt <o> size=<n> | out chmod <o> mode=<n> | out link <o> <target>
  cache age                                  every cache record becomes older than the expiry
  build always=<0|1> <target> ...

answers: ok | noop | loaderr | ok exec=.. cache=<n> out=.. | builderr exec=.. cache=<n> out=..
-/
import PubModel.C10.Glue

open PubModel PubModel.C10

def csv (s : String) : List String := if s = "-" ∨ s = "" then [] else s.splitOn ","

def parsePat (s : String) : Option Pat :=
  match s.splitOn ":" with
  | [d, suf, deep] => some ⟨d, suf, deep = "1"⟩
  | _ => none

def parseRule (w : String) : Option Rule :=
  match w.splitOn "|" with
  | ["fs", name, files, sel, ign, incs] => do
    let sel ← (csv sel).mapM parsePat
    let ign ← (csv ign).mapM parsePat
    pure ⟨name, .fileSet, csv files, sel, ign, csv incs, [], false⟩
  | ["bu", name, deps] => some ⟨name, .bundle, [], [], [], [], csv deps, false⟩
  | _ => none

def showStat (e : Entry) : String :=
  let t := match e.typ with | .s => "s" | .o => "o"
  let mt := match e.typ with | .s => e.stat.mtime | .o => 0
  s!"{e.name},{t},{e.stat.size},{mt},{e.stat.mode},{e.stat.symlink}"

def showOut (out : AL Name OutFile) (o : Name) : String :=
  match out.get o with
  | none => s!"{o}=-"
  | some ⟨st, .entries l⟩ => s!"{o}={st.size}:{st.mode}:E[" ++ ";".intercalate (l.map showStat) ++ "]"
  | some ⟨_, .junk⟩ => s!"{o}=J"
  | some ⟨_, .dir⟩ => s!"{o}=D"

/-- rule names reachable from the targets (closure over the node table) -/
def reachStep (S : Static) (seen : List Name) : List Name :=
  seen.foldl (fun acc n =>
    match S.node n with
    | some nd => (nodeDeps S nd).foldl (fun a d => if a.contains d then a else a ++ [d]) acc
    | none => acc) seen

def reach (S : Static) (ts : List Name) : List Name :=
  (List.range (2 * S.rules.length + 2)).foldl (fun acc _ => reachStep S acc) ts.eraseDups

def reachOuts (S : Static) (ts : List Name) : List Name :=
  let rs := reach S ts
  sortNames ((S.rules.filter (fun r => rs.contains r.name)).flatMap outs)

def showBuild (w : World) (ts : List Name) (log : List Name) : String :=
  let ex := if log.isEmpty then "-" else ",".intercalate log
  let os := (reachOuts w.S ts).map (showOut w.out)
  s!"exec={ex} cache={w.cache.length} out=" ++ (if os.isEmpty then "-" else " ".intercalate os)

def step (w : World) (line : String) : World × String :=
  let cfg := genCfg
  match words line with
  | "ws" :: _ => (World.empty, "ok")   -- `ws reuse=1`: the harness keeps one Builder for the whole history
  | "src" :: "set" :: n :: rest =>
    match kvNat rest "size", kvNat rest "mtime", kvNat rest "mode" with
    | some sz, some mt, some md =>
      (w.apply cfg (.srcSet n ⟨sz, mt, md, (kv rest "link").getD ""⟩), "ok")
    | _, _, _ => (w, "bad-op")
  | ["src", "del", n] =>
    if (w.S.src.get n).isSome then (w.apply cfg (.srcDel n), "ok") else (w, "noop")
  | ["src", "mv", a, b] =>
    if (w.S.src.get a).isSome ∧ (w.S.src.get b).isNone then (w.apply cfg (.srcMove a b), "ok") else (w, "noop")
  | "rules" :: rs =>
    match rs.mapM parseRule with
    | some rs => (w.apply cfg (.setRules rs), "ok")
    | none => (w, "bad-op")
  | ["out", "del", o] =>
    match w.out.get o with
    | some ⟨_, .dir⟩ => (w, "noop")
    | some _ => (w.apply cfg (.outDel o), "ok")
    | none => (w, "noop")
  | ["out", "corrupt", o, sz] =>
    match w.out.get o, kvNat [sz] "size" with
    | some ⟨_, .dir⟩, _ => (w, "noop")
    | _, some n => (w.apply cfg (.outCorrupt o n), "ok")
    | _, none => (w, "bad-op")
  | ["out", "link", o, t] =>
    match w.out.get o with
    | some ⟨_, .dir⟩ => (w, "noop")
    | _ => (w.apply cfg (.outLink o t), "ok")
  | ["cache", "age"] => (w.apply cfg .cacheExpire, "ok")
  | ["out", "chmod", o, md] =>
    match w.out.get o, kvNat [md] "mode" with
    | some ⟨_, .dir⟩, _ => (w, "noop")
    | some ⟨⟨_, _, 134218239, _⟩, _⟩, _ => (w, "noop")
    | some _, some m => (w.apply cfg (.outChmod o m), "ok")
    | none, some _ => (w, "noop")
    | _, none => (w, "bad-op")
  | ["out", "obstruct", o] =>
    match w.out.get o with
    | some ⟨_, .dir⟩ => (w, "noop")
    | _ => (w.apply cfg (.outObstruct o), "ok")
  | ["out", "restore", o] =>
    match w.out.get o with
    | some ⟨_, .dir⟩ => (w.apply cfg (.outRestore o), "ok")
    | _ => (w, "noop")
  | "build" :: a :: ts =>
    match kvNat [a] "always" with
    | some al =>
      let r := w.build cfg (al = 1) ts
      match r.outcome with
      | .loadErr => (r.world, "loaderr")
      | .ok => (r.world, "ok " ++ showBuild r.world ts r.log)
      | .buildErr _ => (r.world, "builderr " ++ showBuild r.world ts r.log)
    | none => (w, "bad-op")
  | _ => (w, "bad-op")

def main : IO Unit := runLines step World.empty
