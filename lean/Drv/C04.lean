import PubModel.Sni.DriverCore
import PubModel.Sni.TeardownDriver
open PubModel PubModel.Sni
def main : IO Unit := runLines
  (fun (d : DState) l => if l.startsWith "teardown" then (d, TeardownDrv.step l) else d.step l) { st := init [] }
