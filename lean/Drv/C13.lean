/-
Driver for C13: one operation per line on stdin, one result per line on stdout.

  dec <type> cap=<n> <hex>          decode a body with <type>'s decodeFrom layout, then end()
  enc <type> <val> <val> ...        encode with <type>'s encodeTo layout (n:<dec> b:<hex> e:<code>:<hex>)
  srv <hex>                         endpointServer.startCall on a whole frame
  cli pend=<id>:<code>,... cap=<n> <hex>   transport.handleMessage on a reply frame
  readalloc v=<n>                   what handleRead allocates for maxRead bit pattern n
-/
import PubModel.C13.Glue

open PubModel PubModel.C13 PubModel.Gen

def showVal : Val → String
  | .num n => s!"n:{n}"
  | .bs b => s!"b:{Hex.encode b}"
  | .err c m => s!"e:{c}:{Hex.encode m}"

def showVals (vs : List Val) : String := " ".intercalate (vs.map showVal)

def parseVal (w : String) : Option Val :=
  match w.splitOn ":" with
  | ["n", x] => x.toNat?.map .num
  | ["b", x] => (Hex.decode x).map .bs
  | ["e", c, m] => do
    let c ← c.toNat?
    let m ← Hex.decode m
    pure (.err c m)
  | _ => none

def maxAllocDefault : Nat := 2^47

def showResult (r : Result) : String :=
  match r.outcome with
  | .ok => s!"ok consumed={r.consumed} vals=[{showVals r.vals}]"
  | .truncated => s!"truncated consumed={r.consumed}"
  | .tail k => s!"tail {k} consumed={r.consumed}"
  | .panic => "panic"

def parsePend (s : String) : List (Nat × Nat) :=
  if s = "-" then [] else
  (s.splitOn ",").filterMap fun e =>
    match e.splitOn ":" with
    | [a, b] => do
      let a ← a.toNat?
      let b ← b.toNat?
      pure (a, b)
    | _ => none

def step (_ : Unit) (line : String) : Unit × String :=
  let ws := words line
  let out :=
    match ws with
    | "dec" :: ty :: rest =>
      match decOf ty, kvNat rest "cap", rest.getLast?.bind Hex.decode with
      | some s, some cap, some bs => showResult (decodeMsg (genCfg maxAllocDefault cap) s bs)
      | _, _, _ => "bad-op"
    | "enc" :: ty :: rest =>
      match encOf ty, rest.mapM parseVal with
      | some s, some vs =>
        if s.length = vs.length then Hex.encode (encode s vs) else "bad-op"
      | _, _ => "bad-op"
    | "srv" :: rest =>
      match rest.getLast?.bind Hex.decode with
      | some bs =>
        match (serverFrame (genCfg maxAllocDefault 0) genReqs bs).1 with
        | .request id t vs => s!"request id={id} typ={t} vals=[{showVals vs}]"
        | .unknownType id t => s!"unknownType id={id} typ={t}"
        | .decodeErr => "decodeErr"
        | .panic => "panic"
      | none => "bad-op"
    | ["srvseq", hs] =>
      -- frames are decoded independently: a request holds what its own frame carried
      let outs := (hs.splitOn ",").map fun h =>
        match Hex.decode h with
        | some bs =>
          match (serverFrame (genCfg maxAllocDefault 0) genReqs bs).1 with
          | .request id t vs => s!"request id={id} typ={t} vals=[{showVals vs}]"
          | .unknownType id t => s!"unknownType id={id} typ={t}"
          | .decodeErr => "decodeErr"
          | .panic => "panic"
        | none => "bad-op"
      " ; ".intercalate outs
    | "cli" :: rest =>
      match kv rest "pend", kvNat rest "cap", rest.getLast?.bind Hex.decode with
      | some p, some cap, some bs =>
        let tbl := parsePend p
        let pend : Nat → Option (Nat × Schema) := fun id =>
          match tbl.lookup id with
          | none => none
          | some code =>
            match nameOfCode code with
            | none => some (code, [])
            | some nm => match genRespOf nm with
              | some s => some (code, s)
              | none => some (code, [])
        let hint := (codeOf "msgShutdownHint").getD 7
        match clientFrame (genCfg maxAllocDefault cap) hint pend bs with
        | .ignoredShort => "ignoredShort"
        | .fatalErrcode e => s!"fatal errcode={e}"
        | .shutdownHint => "shutdownHint"
        | .discard id => s!"discard id={id}"
        | .mistyped id => s!"mistyped id={id}"
        | .complete id vs => s!"complete id={id} vals=[{showVals vs}]"
        | .completeErr id => s!"completeErr id={id}"
        | .panic => "panic"
      | _, _, _ => "bad-op"
    | ["readalloc", v] =>
      match (kvNat [v] "v") with
      | some n =>
        match readAlloc Wire.readClamp maxAllocDefault n with
        | some a => s!"alloc {a}"
        | none => "panic"
      | none => "bad-op"
    | _ => "bad-op"
  ((), out)

def main : IO Unit := runLines step ()
