/- Driver for C07 (see PubModel/C07/Driver.lean for the op language). -/
import PubModel.C07.Driver

def main : IO Unit := PubModel.runLines PubModel.C07.step ()
