/-
Driver for C17: one operation per line on stdin, one result per line on stdout.

  clean <hex>                       filepath.Clean
  join <dirhex> <namehex>           filepath.Join(dir, name)
  islocal <hex>                     filepath.IsLocal
  cdir <hex>                        filepath.Dir(filepath.Clean(p))
  unzip dir=<hex> clear=<0|1> pre=<ents> ents=<ents>
                                    ziputil.UnzipDir into dir (an absolute path below /w); the file
                                    system starts with the parent of dir plus the `pre` entries (paths
                                    relative to that parent); answer: status and the tree below /w
  untar dir=<hex> pre=<ents> ents=<ents>      dock.writeTarToDir, same conventions
  rt dir=<hex> tree=<ents>          ziputil.ZipDir of a tree, then UnzipDir(dir, _, clear=true);
                                    answer: whether the tree is in walk order (`treeOK`), entry names, status, extracted tree relative to dir
  rthist dir=<hex> clear=<0|1> tree1=<ents> tree2=<ents> [dt=<ms>]
                                    ZipDir+UnzipDir(clear) of tree1, then ZipDir of tree2 unzipped INTO that extraction
  firstfile dir=<hex> dest=<hex> pre=<ents> ents=<ents>   dock.writeFirstFileAs(tar, dest)
  rtfile dir=<hex> base=<hex> perm=<n> content=<hex>     ziputil.ZipFile, then UnzipDir
  tarzip dir=<hex> names=<hex,...>  tarutil.TarZipFile: the tar header names

  <ents> = `-` or comma separated  <namehex>:<kind>:<perm>:<contenthex>
           kind: d|f for zip (directory bit of the header mode), r|d|o for tar
-/
import PubModel.C17.Model
import PubModel.Gen.C17Facts

open PubModel PubModel.C17 PubModel.Gen

structure RawEnt where
  name : Bytes
  kind : String
  perm : Nat
  content : Bytes

def parseEnts (s : String) : Option (List RawEnt) :=
  if s = "-" then some [] else
  (s.splitOn ",").mapM fun e =>
    match e.splitOn ":" with
    | [n, k, p, c] => do
      let n ← Hex.decode n
      let p ← p.toNat?
      let c ← Hex.decode c
      pure ⟨n, k, p, c⟩
    | _ => none

def toZ (e : RawEnt) : ZEntry := ⟨e.name, e.kind = "d", e.perm, e.content⟩
def toT (e : RawEnt) : TEntry :=
  ⟨e.name, if e.kind = "r" then .reg else if e.kind = "d" then .dir else .other, e.perm, e.content⟩

def showNode (rel : List Seg) (n : Node) : String :=
  match n with
  | .dir p => s!"{Hex.encode (joinSegs rel)}:d:{p}"
  | .file p c => s!"{Hex.encode (joinSegs rel)}:f:{p}:{Hex.encode c}"

def showTree (t : Tree) : String :=
  let xs := (t.filter (fun e => e.1 ≠ [])).map (fun e => showNode e.1 e.2)
  let xs := xs.mergeSort (fun a b => decide (a ≤ b))
  if xs.isEmpty then "-" else ",".intercalate xs

def showStatus : Option (Nat × XErr) → String
  | none => "ok"
  | some (_, .refused) => "refused"
  | some (_, .os) => "oserr"
  | some (_, .unsupported) => "unsupported"

/-- the file system before extraction: the parent of `dir` exists, plus `pre` -/
def initFS (dir : Bytes) (pre : List RawEnt) : Option FS := do
  let parent := (dirOf (clean dir)).segs
  let fs ← mkdirAll [] parent 493
  pre.foldlM (fun fs e =>
    let p := parent ++ (clean e.name).segs
    if e.kind = "d" then mkdirAll fs p e.perm
    else do
      let fs1 ← mkdirAll fs p.dropLast 493
      createChmod fs1 p e.perm e.content) fs

def wRoot : List Seg := ["w".toUTF8.toList]

def step (_ : Unit) (line : String) : Unit × String :=
  let ws := words line
  let out :=
    match ws with
    | ["clean", p] =>
      match Hex.decode p with
      | some p => Hex.encode (cleanB p)
      | none => "bad-op"
    | ["join", d, n] =>
      match Hex.decode d, Hex.decode n with
      | some d, some n => Hex.encode (join d n)
      | _, _ => "bad-op"
    | ["islocal", p] =>
      match Hex.decode p with
      | some p => toString (isLocal p)
      | none => "bad-op"
    | ["cdir", p] =>
      match Hex.decode p with
      | some p => Hex.encode (render (dirOf (clean p)))
      | none => "bad-op"
    | "unzip" :: rest =>
      match kvHex rest "dir", kvNat rest "clear", (kv rest "pre").bind parseEnts, (kv rest "ents").bind parseEnts with
      | some dir, some clear, some pre, some ents =>
        match initFS dir pre with
        | none => "bad-pre"
        | some fs =>
          let (fs', st) := unzipDir C17Facts.unzipGuard dir (clear != 0) fs (ents.map toZ)
          s!"{showStatus st} tree={showTree (subtree fs' wRoot)}"
      | _, _, _, _ => "bad-op"
    | "untar" :: rest =>
      match kvHex rest "dir", (kv rest "pre").bind parseEnts, (kv rest "ents").bind parseEnts with
      | some dir, some pre, some ents =>
        match initFS dir pre with
        | none => "bad-pre"
        | some fs =>
          let (fs', st) := untarDir C17Facts.untarGuard dir fs (ents.map toT)
          s!"{showStatus st} tree={showTree (subtree fs' wRoot)}"
      | _, _, _ => "bad-op"
    | "firstfile" :: rest =>
      match kvHex rest "dir", kvHex rest "dest", (kv rest "pre").bind parseEnts, (kv rest "ents").bind parseEnts with
      | some dir, some dest, some pre, some ents =>
        match initFS dir pre with
        | none => "bad-pre"
        | some fs =>
          match firstFileAs fs dest (ents.map toT) with
          | .ok fs' => s!"ok tree={showTree (subtree fs' wRoot)}"
          | .osErr => s!"oserr tree={showTree (subtree fs wRoot)}"
          | .notFound => s!"notfound tree={showTree (subtree fs wRoot)}"
      | _, _, _, _ => "bad-op"
    | "rthist" :: rest =>
      match kvHex rest "dir", kvNat rest "clear", (kv rest "tree1").bind parseEnts, (kv rest "tree2").bind parseEnts with
      | some dir, some clear, some t1, some t2 =>
        match initFS dir [] with
        | none => "bad-pre"
        | some fs =>
          let mk : List RawEnt → Tree := fun tree => tree.map fun e =>
            ((clean e.name).segs, if e.kind = "d" then Node.dir e.perm else Node.file e.perm e.content)
          let (fs1, st1) := unzipDir C17Facts.unzipGuard dir true fs (zipDir (mk t1))
          let (fs2, st2) := unzipDir C17Facts.unzipGuard dir (clear != 0) fs1 (zipDir (mk t2))
          s!"{showStatus st1} {showStatus st2} tree={showTree (subtree fs2 (clean dir).segs)}"
      | _, _, _, _ => "bad-op"
    | "rt" :: rest =>
      match kvHex rest "dir", (kv rest "tree").bind parseEnts with
      | some dir, some tree =>
        match initFS dir [] with
        | none => "bad-pre"
        | some fs =>
          let t : Tree := tree.map fun e =>
            ((clean e.name).segs, if e.kind = "d" then Node.dir e.perm else Node.file e.perm e.content)
          let zs := if C17Facts.zipDirKeepsMode then zipDir t else (zipDir t).map (fun z => { z with perm := 0 })
          let (fs', st) := unzipDir C17Facts.unzipGuard dir true fs zs
          let names := ",".intercalate (zs.map (fun z => Hex.encode z.name))
          s!"wf={treeOK t} names={names} {showStatus st} tree={showTree (subtree fs' (clean dir).segs)}"
      | _, _ => "bad-op"
    | "rtfile" :: rest =>
      match kvHex rest "dir", kvHex rest "base", kvNat rest "perm", kvHex rest "content" with
      | some dir, some base, some perm, some content =>
        match initFS dir [] with
        | none => "bad-pre"
        | some fs =>
          let zs := zipFile base (if C17Facts.zipFileKeepsMode then perm else 0) content
          let (fs', st) := unzipDir C17Facts.unzipGuard dir true fs zs
          let names := ",".intercalate (zs.map (fun z => Hex.encode z.name))
          s!"names={names} {showStatus st} tree={showTree (subtree fs' (clean dir).segs)}"
      | _, _, _, _ => "bad-op"
    | "tarzip" :: rest =>
      match kvHex rest "dir", kv rest "names" with
      | some dir, some ns =>
        match (if ns = "-" then some [] else (ns.splitOn ",").mapM Hex.decode) with
        | none => "bad-op"
        | some names =>
          let rec go : List Bytes → List String → String
            | [], acc => "ok " ++ (if acc.isEmpty then "-" else ",".intercalate acc.reverse)
            | n :: rest, acc =>
              match tarZipName C17Facts.tarZipGuard dir n with
              | none => "refused " ++ (if acc.isEmpty then "-" else ",".intercalate acc.reverse)
              | some t => go rest (Hex.encode t :: acc)
          go names []
      | _, _ => "bad-op"
    | _ => "bad-op"
  ((), out)

def main : IO Unit := runLines step ()
