/-
Driver for C11: one workspace + target list per line, one result per line.
Strings are lower-case hex (`-` = empty string).

  run dirs=<L> bf=<files> src=<L> t=<L> [sp=<L>] [bad=<L>] [t2=<L>] [t3=<L>] [wd=<s>] [ar=1]     (wd: work dir of the builder under <root>/src;     (ar: Config.AlwaysRebuild on the implementation side; the model has no cache)

  <L>      comma separated strings, `.` = empty list
  <files>  `;` separated `<dir>:<decls>`, `.` = no build file at all
  <decls>  `|` separated, `.` = empty file;
           b~<name>~<deps>          bundle
           f~<name>~<files>~<incs>  file_set with explicit files and includes
           d~<name>~<output>        download (a rule with one explicit output)
           s~<dirs>                 sub_builds
           x~<kind>~<n>             n statements jsonx rejects (kind: how they are malformed)
           lists inside a declaration are `+` separated, `.` = empty

  -> failed <classes>    sorted set of {noName, syntax, empty, dup, cycle, dangling}
   | built <L>           BUILD lines in order
   | execfailed ran=<L>  a rule of bad=<L> failed while executing: BUILD lines up to and including it
   | outOfFuel           the loader does not terminate
-/
import PubModel.C11.Glue
import PubModel.Common.Hex

open PubModel PubModel.C12 PubModel.C11

def toStr (bs : Bytes) : Str := bs.map (fun b => Char.ofNat b.toNat)
def ofStr (s : Str) : Bytes := s.map (fun c => c.toNat.toUInt8)
def showS (s : Str) : String := Hex.encode (ofStr s)
def parseS (w : String) : Option Str := (Hex.decode w).map toStr

def parseList (sep : String) (w : String) : Option (List Str) :=
  if w = "." then some [] else (w.splitOn sep).mapM parseS

def showL (l : List Str) : String :=
  if l.isEmpty then "." else ",".intercalate (l.map showS)

def parseDecl (w : String) : Option Decl :=
  match w.splitOn "~" with
  | ["b", n, ds] => do
    let n ← parseS n
    let ds ← parseList "+" ds
    pure (.bundle n ds)
  | ["f", n, fs, is] => do
    let n ← parseS n
    let fs ← parseList "+" fs
    let is ← parseList "+" is
    pure (.fileSet n fs is)
  | ["s", ds] => do
    let ds ← parseList "+" ds
    pure (.sub ds)
  | ["d", n, o] => do
    let n ← parseS n
    let o ← parseS o
    pure (.download n o)
  | ["x", _, n] => n.toNat?.map .garbage
  | _ => none

def parseFile (w : String) : Option (Str × List Decl) :=
  match w.splitOn ":" with
  | [d, ds] => do
    let d ← parseS d
    let ds ← if ds = "." then some [] else (ds.splitOn "|").mapM parseDecl
    pure (d, ds)
  | _ => none

def parseFiles (w : String) : Option (List (Str × List Decl)) :=
  if w = "." then some [] else (w.splitOn ";").mapM parseFile

def errClass : LErr → String
  | .noName _ => "noName"
  | .syntax _ => "syntax"
  | .emptyName => "empty"
  | .dup _ => "dup"
  | .cycle _ _ => "cycle"
  | .dangling _ => "dangling"

def classes (errs : List LErr) : String :=
  let cs := ["cycle", "dangling", "dup", "empty", "noName", "syntax"].filter (fun c => errs.any (fun e => errClass e = c))
  ",".intercalate cs

def fuelDefault : Nat := 4000

def step (_ : Unit) (line : String) : Unit × String :=
  let ws := words line
  let out :=
    match ws with
    | "run" :: rest =>
      match (kv rest "dirs").bind (parseList ","), (kv rest "bf").bind parseFiles,
            (kv rest "src").bind (parseList ","), (kv rest "t").bind (parseList ",") with
      | some dirs, some files, some srcs0, some ts =>
        -- sp=: things under src that are not regular files; only symlinks (l:) count as source files
        let sp := ((kv rest "sp").bind (parseList ",")).getD []
        let srcs := srcs0 ++ sp.filterMap (fun x => if x.take 2 = "l:".toList then some (x.drop 2) else none)
        let wd := ((kv rest "wd").bind parseS).getD []
        -- further Build calls on the same Builder (t2, t3): every call is judged on its own
        let calls := ts :: ([kv rest "t2", kv rest "t3"].filterMap (fun o => o.bind (parseList ",")))
        let bad := ((kv rest "bad").bind (parseList ",")).getD []
        let one (ts : List Str) : String :=
          match run genCfg ⟨dirs, files, srcs⟩ fuelDefault (resolveTargets wd ts) with
          | .outOfFuel => "outOfFuel"
          | .failed errs => "failed " ++ classes errs
          | .built log _ =>
            match truncateAtFailure bad log with
            | some ran => "execfailed ran=" ++ showL ran
            | none => "built " ++ showL log
        let outs := calls.map one
        if outs.contains "outOfFuel" then "outOfFuel" else " ;; ".intercalate outs
      | _, _, _, _ => "bad-op"
    | _ => "bad-op"
  ((), out)

def main : IO Unit := runLines step ()
