/-
Driver for C19 (dags): one operation per line on stdin, one result per line on stdout.
A graph is a sequence of words `<node>:<out>,<out>,...` (`<node>:-` for no outs);
nodes are decimal numbers.  A word `names=<scheme>` is ignored.

  check <graph>               CheckDAG: ok | missing | circle <len> | panic | fuel
  probe <graph>               the same (the harness runs it in a child process under a watchdog)
  member <c0,c1,..> <graph>   can minCircle report this cycle: yes | no
  map <graph>                 NewMap: ok nl= ne= nc= <node>;<layer>;<ins>;<outs>;<allIns>;<allOuts>;<critIns>;<critOuts> ...
  layout <graph>              Layout: ok w= h= <node>;<x>;<y> ...
  revlayout <graph>           RevLayout: same, after Map.Reverse / MapView.Reverse
  entries <graph>             every entry point that validates a graph (CheckDAG, NewMap, TopoSort, Layout,
                              LayoutJSON, RevLayout, RevLayoutJSON): verdicts, and TopoSort's order
  rev <graph>                 Graph.Reverse once:  <node>:<outs> ...
  rev2 <graph>                Graph.Reverse twice
-/
import PubModel.Common.Hex
import PubModel.C19.ModelLayout

open PubModel PubModel.C19

def parseList (s : String) : Option (List Nat) :=
  if s = "-" then some [] else (s.splitOn ",").mapM String.toNat?

def parseNode (w : String) : Option (Nat × List Nat) :=
  match w.splitOn ":" with
  | [a, b] => do
    let u ← a.toNat?
    let os ← parseList b
    pure (u, os)
  | _ => none

def parseGraph (ws : List String) : Option Graph := ws.mapM parseNode

def ltNat (a b : Nat) : Bool := decide (a < b)

def showList (l : List Nat) : String :=
  if l.isEmpty then "-" else ",".intercalate ((isort ltNat l).map toString)

def showRaw (l : List Nat) : String :=
  if l.isEmpty then "-" else ",".intercalate (l.map toString)

def showCheckErr : Check → String
  | .ok _ => "ok"
  | .missing => "missing"
  | .circle k => s!"circle {k}"
  | .panicNoCircle => "panic"
  | .outOfFuel => "fuel"

def showMap (m : Map) : String :=
  let hdr := s!"ok nl={m.nlayer} ne={m.nedge} nc={m.ncrit}"
  let rows := (isort ltNat m.nodes).map fun v =>
    s!"{v};{m.layer.get v};{showList (m.ins.get v)};{showList (m.outs.get v)};{showList (m.allIns.get v)};{showList (m.allOuts.get v)};{showList (m.critIns.get v)};{showList (m.critOuts.get v)}"
  " ".intercalate (hdr :: rows)

def showView (m : Map) (v : View) : String :=
  let hdr := s!"ok w={v.width} h={v.height}"
  let rows := (isort ltNat m.nodes).map fun n =>
    match v.pos.find? (fun p => p.1 == n) with
    | some (_, x, y) => s!"{n};{x};{y}"
    | none => s!"{n};?;?"
  " ".intercalate (hdr :: rows)

def showGraph (g : Graph) : String :=
  let rows := (isort ltNat (nodes g)).map fun u => s!"{u}:{showRaw (outs g u)}"
  if rows.isEmpty then "empty" else " ".intercalate rows

def newMapErr : NewMapRes → String
  | .ok _ => "ok"
  | .missing => "missing"
  | .circle k => s!"circle {k}"
  | .panicNoCircle => "panic"
  | .outOfFuel => "fuel"

def verdictWord : Check → String
  | .ok _ => "ok"
  | .missing => "missing"
  | .circle _ => "circle"
  | .panicNoCircle => "panic"
  | .outOfFuel => "fuel"

/-- verdict of `Layout` on `g`: `NewMap`, then `LayoutMap` -/
def layoutVerdict (g : Graph) : String :=
  match newMap g with
  | .ok m =>
    match layoutMap m with
    | .ok _ => "ok"
    | .panic => "panic"
    | .fuel => "fuel"
  | _ => verdictWord (checkDAG g)

def showEntries (g : Graph) : String :=
  let v := verdictWord (checkDAG g)
  let topo := match newMap g with
    | .ok m => s!"ok:{showRaw (sortedNodes m)}"
    | _ => v
  let lv := layoutVerdict g
  let rv := layoutVerdict (reverseG g)
  s!"check={v} map={v} topo={topo} layout={lv} layoutjson={lv} revlayout={rv} revlayoutjson={rv}"

def step (_ : Unit) (line : String) : Unit × String :=
  -- `names=<scheme>` only tells the harness how to spell the nodes; the model keys by identity
  let ws := (words line).filter fun w => !(w.startsWith "names=")
  let out :=
    match ws with
    | "check" :: rest =>
      match parseGraph rest with
      | some g => showCheckErr (checkDAG g)
      | none => "bad-op"
    | "probe" :: rest =>
      match parseGraph rest with
      | some g => showCheckErr (checkDAG g)
      | none => "bad-op"
    | "member" :: c :: rest =>
      match parseList c, parseGraph rest with
      | some c, some g => if reportable g c then "yes" else "no"
      | _, _ => "bad-op"
    | "map" :: rest =>
      match parseGraph rest with
      | some g =>
        match newMap g with
        | .ok m => showMap m
        | r => newMapErr r
      | none => "bad-op"
    | "layout" :: rest =>
      match parseGraph rest with
      | some g =>
        match newMap g with
        | .ok m =>
          match layoutMap m with
          | .ok (m', v) => showView m' v
          | .panic => "panic"
          | .fuel => "fuel"
        | r => newMapErr r
      | none => "bad-op"
    | "revlayout" :: rest =>
      match parseGraph rest with
      | some g =>
        match newMap (reverseG g) with
        | .ok m =>
          match layoutMap m with
          | .ok (m', v) => showView m'.reverse v.reverse
          | .panic => "panic"
          | .fuel => "fuel"
        | r => newMapErr r
      | none => "bad-op"
    | "entries" :: rest =>
      match parseGraph rest with
      | some g => showEntries g
      | none => "bad-op"
    | "rev" :: rest =>
      match parseGraph rest with
      | some g => showGraph (reverseG g)
      | none => "bad-op"
    | "rev2" :: rest =>
      match parseGraph rest with
      | some g => showGraph (reverseG (reverseG g))
      | none => "bad-op"
    | _ => "bad-op"
  ((), out)

def main : IO Unit := runLines step ()
