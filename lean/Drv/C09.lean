/- Driver for C09 (same op language as C07: PubModel/C07/Driver.lean). -/
import PubModel.C07.Driver

def main : IO Unit := PubModel.runLines PubModel.C07.step ()
