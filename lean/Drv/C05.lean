/-
Driver for C05: one operation per line on stdin, one result per line on stdout.

  <ord|uno> <op> [k=<hex>] [hk=<hex>] [c=<hex>] [v=<hex>|-|nil] [mode=put|cancel|fail]
                 [off=<n> n=<n> desc=<0|1>] [stop=-|<j>:cancel|<j>:fail]
  <ord|uno> dump            full contents of the three models
  meta                      regenerated facts the models run with

`hk` is the mapped key of an unordered store (SHA-256 in the code; a parameter of
the model).  Answer: `spec=<out>#<digest> mem=<out>#<digest> sql=<out>#<digest>`,
digest = FNV-1a/64 of the canonical dump (entries by mapped key).
-/
import PubModel.C05.Glue
import PubModel.C05.Json
import PubModel.C05.Lines

open PubModel PubModel.C05 PubModel.C05.Lines

structure Store where
  spec : Tab := []
  mem : Tab := []
  sql : Sql.Table := []

structure St where
  ord : Store := {}
  uno : Store := {}
  htab : List (Key × Key) := []

def runOp (cfg : Cfg) (s : Store) (op : Op) : Store × String :=
  let a := Spec.step cfg s.spec op
  let b := Mem.step cfg s.mem op
  let c := Sql.step cfg s.sql op
  let sh := showOut cfg.valid
  let line := s!"spec={sh a.2}#{hex64 (fnv1a (dumpSpec cfg a.1))} " ++
    s!"mem={sh b.2}#{hex64 (fnv1a (dumpTab b.1))} sql={sh c.2}#{hex64 (fnv1a (dumpSql c.1))}"
  ({ spec := a.1, mem := b.1, sql := c.1 }, line)

def step (st : St) (line : String) : St × String :=
  match words line with
  | ["reset"] => ({ st with ord := {}, uno := {} }, "reset")
  | ["meta"] =>
    (st, s!"keeps={Gen.Pisces.memReplaceKeeps} guard={Gen.Pisces.sqlNilGuard} maxKeyLen={Gen.Pisces.maxKeyLen} " ++
      s!"keyTest={Gen.Pisces.keyLenOp} changed=[{",".intercalate changedTexts}] psqlDiffers=[{",".intercalate psqlDiffers}]")
  | store :: name :: ws =>
    let ordered := store = "ord"
    if store ≠ "ord" ∧ store ≠ "uno" then (st, "bad-op") else
    let htab := match kvHex ws "k", kvHex ws "hk" with
      | some k, some hk => if (st.htab.lookup k).isSome then st.htab else (k, hk) :: st.htab
      | _, _ => st.htab
    let st := { st with htab := htab }
    let cfg := genCfg ordered (hOf htab) Json.valid
    let cur := if ordered then st.ord else st.uno
    if name = "dump" then
      (st, s!"spec={dumpSpec cfg cur.spec} mem={dumpTab cur.mem} sql={dumpSql cur.sql}")
    else match parseOp name ws with
      | none => (st, "bad-op")
      | some op =>
        let r := runOp cfg cur op
        (if ordered then { st with ord := r.1 } else { st with uno := r.1 }, r.2)
  | _ => (st, "bad-op")

def main : IO Unit := runLines step {}
