import PubModel.Sni.DriverCore
open PubModel PubModel.Sni
def main : IO Unit := runLines (fun (d : DState) l => d.step l) { st := init [] }
