/-
Driver for C08: one operation per line on stdin, one result per line on stdout.

  tojson <hex>      jsonx.ToJSON, parse phase
  unmarshal <hex>   jsonx.Unmarshal (Decoder.Decode + More), parse phase
  series <hex>      Decoder.DecodeSeries, parse phase
  strtok <hex>      strtoken.Parse
  nest <entry> <hex> <count> <hex> <count> ...   the entry point on the segments repeated and concatenated
  drift <entry> <hex> <count> ...   same as nest (the harness additionally requires jsonx.tooDeep)
  signs <entry> <hex> <count> ...   same as nest (runs of unary signs)
  blank <entry> <hex> <count> ...   same as nest (runs of blank lines)
  facts             the nesting limit the model runs with
  lex <hex>         the token stream the jsonx parser reads (types, positions) and the lexer's errors

Answers:
  ok pulled=<k> entries=<n> more=<0|1>
  errs=<n> first=<code>@<line>:<col> pulled=<k>
  toks=<type>@<line>:<col>,... eof=<line>:<col> lexerrs=<n> first=<code>@<line>:<col> after=<three more Token() calls>
  DIVERGE            the model ran out of fuel (fuel = fuelOf input length)
  panic

The facts the model is parameterised by come from the regenerated `Gen.Jsonx`.
-/
import PubModel.Common.Hex
import PubModel.Gen.Jsonx

open PubModel PubModel.C08 PubModel.Gen

def showCode (c : String) : String := if c = "" then "-" else c

def showErr (e : Err) : String := s!"{showCode e.code}@{e.line}:{e.col}"

def showOutcome : Res Outcome → String
  | .ok (.value p n m) => s!"ok pulled={p} entries={n} more={if m then 1 else 0}"
  | .ok (.errors n e p) => s!"errs={n} first={showErr e} pulled={p}"
  | .outOfFuel => "DIVERGE"
  | .panic => "panic"

def kindName : Kind → String
  | .eof => "EOF" | .comment => "Comment" | .illegal => "Illegal" | .keyword => "tokKeyword"
  | .ident => "tokIdent" | .str => "tokString" | .int => "tokInt" | .float => "tokFloat"
  | .op => "tokOperator" | .semi => "tokSemi" | .endl => "tokEndl"

def kindCode (k : Kind) : Int := (Jsonx.tokenCodes.lookup (kindName k)).getD 99

def showTok (t : Tok) : String := s!"{kindCode t.kind}@{t.line}:{t.col}"

def showAfter : Res (List Tok) → String
  | .ok ts => ",".intercalate (ts.map showTok)
  | .outOfFuel => "DIVERGE"
  | .panic => "panic"

def showLex (after : Res (List Tok)) : Res (List Tok × Nat × Nat) → String
  | .ok (toks, l, c) =>
    let le := ErrList.addAll Jsonx.errMax {} (toks.flatMap (·.lexErrs))
    let es := match le.errs with
      | [] => "lexerrs=0"
      | e :: es => s!"lexerrs={es.length + 1} first={showErr e}"
    let ts := if toks.isEmpty then "-" else ",".intercalate (toks.map showTok)
    s!"toks={ts} eof={l}:{c} {es} after={showAfter after}"
  | .outOfFuel => "DIVERGE"
  | .panic => "panic"

/-- `<hex> <count> <hex> <count> ...`: the segments repeated and concatenated -/
def segments : List String → Option C08.Bytes
  | [] => some []
  | [_] => none
  | h :: n :: rest => do
    let b ← Hex.decode h
    let k ← n.toNat?
    let r ← segments rest
    pure ((List.replicate k b).flatten ++ r)

def runOp (op : String) (bs : C08.Bytes) : String :=
        let fuel := fuelOf bs.length
        if op = "tojson" then showOutcome (toJSON Jsonx.cfg Jsonx.lexCfg fuel bs)
        else if op = "unmarshal" then showOutcome (decodeValue Jsonx.cfg Jsonx.lexCfg fuel bs)
        else if op = "series" then showOutcome (decodeSeries Jsonx.cfg Jsonx.lexCfg fuel bs)
        else if op = "strtok" then showOutcome (strtokenParse Jsonx.errMax fuel bs)
        else if op = "lex" then showLex (lexPastEof Jsonx.lexCfg fuel bs 3) (lexJsonx Jsonx.lexCfg fuel bs)
        else "bad-op"

def step (_ : Unit) (line : String) : Unit × String :=
  let out :=
    match words line with
    | ["facts"] =>
      match Jsonx.depthLimit with
      | some l => s!"depthLimit={l}"
      | none => "depthLimit=none"
    | [op, h] =>
      match Hex.decode h with
      | none => "bad-op"
      | some bs => runOp op bs
    | "nest" :: op :: segs =>
      match segments segs with
      | none => "bad-op"
      | some bs => runOp op bs
    | "blank" :: op :: segs =>
      match segments segs with
      | none => "bad-op"
      | some bs => runOp op bs
    | "signs" :: op :: segs =>
      match segments segs with
      | none => "bad-op"
      | some bs => runOp op bs
    | "drift" :: op :: segs =>
      match segments segs with
      | none => "bad-op"
      | some bs => runOp op bs
    | _ => "bad-op"
  ((), out)

def main : IO Unit := runLines step ()
