/-
Driver for C18: one operation per line on stdin, one result per line on stdout.

Byte strings are lower-case hex (`-` = empty).  A read-result list `<rr>` is
`<hex>:<f>,<hex>:<f>,...` with `f` = `n` (nil), `e` (io.EOF), `x<code>` (another
error).  Keys in requests are `k=<hex of the key string>`; keys in answers are
printed as text when they are valid keys, else as `#<hex>`.

  reset                              forget all stores and the sha table
  create <fs|mem|map> <rr>           one whole Create call                 -> ok <key> | err <code> | panic | stuck
  createw fs limit=<n> <rr>          Create while the staging file cannot grow beyond n bytes -> as create
  bigcreate <store> size= fail= code= seed= piece= key=   one large generated stream -> ok <key> | err <code>
  handles2 a=<hex> cut=<k> b=<hex>   two NewFS handles on one directory, B's Create inside A's -> a=.. b=.. listing
  hashrd <rr>                        hashutil.HashReader                   -> ok <key> | err <code>
  spawn fs <rr>                      start a Create, run it to its first Read -> id=<i> ret=- objs=[..] tmp=[..]
  step fs <i>                        deliver creator i's next read result, run it to its next Read or return
                                                                           -> ret=<-|ok:key|err:code|panic> objs=[..] tmp=[..]
  conc <fs|mem|map> <rr>;<rr>;...    concurrent Creates (final state is order independent: run in sequence)
                                                                           -> rets=[..] (fs: objs=[..] tmp=[..])
  list fs                                                                  -> objs=[key:content,..] tmp=[content,..]
  open <store> k=<hex> | has <store> k=<hex>                               -> ok <hex> | notfound ; true | false
  put <mem|map> <hex> | get <mem|map> k=<hex>                              -> ok <key> ; ok <hex> | notfound
  ck want=<hex> len=<int> bs=<n> <rr>   CheckReader over the scripted reader, consumer buffer bs
                                                                           -> <eof|invalid|err:<code>|nil> data=<hex>
  cknew h=<hex of the string>        NewCheckReader's parsing              -> ok <hex> | bad

Words `cls=<text>` (the generator's class of the input, used by the harness for
oracle keys) are ignored.  Any line may carry words `sha=<hex content>:<hex digest>`: the SHA-256 values
are computed by the harness; the model is parametric in `sha` and is run with
the table collected so far (unknown content ↦ empty digest ↦ invalid key).
-/
import PubModel.C18.Model

open PubModel PubModel.C18

structure DS where
  tbl : List (Bytes × Bytes) := []
  fs : St := ⟨[], none, []⟩
  mem : Mem := ⟨[]⟩
  map : Mem := ⟨[]⟩

def shaRaw (tbl : List (Bytes × Bytes)) (b : Bytes) : Bytes := (tbl.lookup b).getD []

def shaKey (tbl : List (Bytes × Bytes)) (b : Bytes) : Key := hexKey (shaRaw tbl b)

def parseFlag (s : String) : Option RErr :=
  if s = "n" then some .none
  else if s = "e" then some .eof
  else match s.toList with
    | 'x' :: rest => (String.ofList rest).toNat?.map .other
    | _ => none

def parseRR (s : String) : Option (List ReadRes) :=
  if s = "-" then some [] else
  (s.splitOn ",").mapM fun item =>
    match item.splitOn ":" with
    | [h, f] => do
      let d ← Hex.decode h
      let e ← parseFlag f
      pure ⟨d, e⟩
    | _ => none

def parseShas (ws : List String) : List (Bytes × Bytes) :=
  ws.filterMap fun w =>
    if w.startsWith "sha=" then
      match (String.ofList (w.toList.drop 4)).splitOn ":" with
      | [c, d] => do
        let c ← Hex.decode c
        let d ← Hex.decode d
        pure (c, d)
      | _ => none
    else none

def bytesLt : Bytes → Bytes → Bool
  | [], [] => false
  | [], _ :: _ => true
  | _ :: _, [] => false
  | a :: as, b :: bs => if a < b then true else if b < a then false else bytesLt as bs

def insertBy {α : Type} (lt : α → α → Bool) (x : α) : List α → List α
  | [] => [x]
  | y :: ys => if lt x y then x :: y :: ys else y :: insertBy lt x ys

def sortBy {α : Type} (lt : α → α → Bool) (l : List α) : List α := l.foldr (insertBy lt) []

def showKey (k : Key) : String :=
  if isValidKey k then String.ofList (k.map (fun b => Char.ofNat b.toNat)) else "#" ++ Hex.encode k

def showList (xs : List String) : String := "[" ++ ",".intercalate xs ++ "]"

def showListing (s : St) : String :=
  let objs := sortBy (fun a b => bytesLt a.1 b.1) s.objs
  let tmps := sortBy bytesLt s.tmps
  s!"objs={showList (objs.map fun o => showKey o.1 ++ ":" ++ Hex.encode o.2.1)} tmp={showList (tmps.map Hex.encode)}"

def showRes : Option Res → String
  | none => "-"
  | some (.ok k) => "ok:" ++ showKey k
  | some (.err e) => s!"err:{e}"
  | some .panic => "panic"

def showCreate : CreateRes → String
  | .ok k => "ok " ++ showKey k
  | .err e => s!"err {e}"
  | .stuck => "stuck"

/-- split every scripted read result into pieces of at most `bs` bytes; the error comes with the last piece -/
def splitRes (bs : Nat) (fuel : Nat) (d : Bytes) (e : RErr) : List ReadRes :=
  match fuel with
  | 0 => [⟨d, e⟩]
  | fuel + 1 =>
    if d.length ≤ bs ∨ bs = 0 then [⟨d, e⟩]
    else ⟨d.take bs, .none⟩ :: splitRes bs fuel (d.drop bs) e

def rechunk (bs : Nat) (rs : List ReadRes) : List ReadRes :=
  rs.flatMap fun r => splitRes bs r.data.length r.data r.err

def fsCreateRes (s : St) (i : Nat) : String :=
  match s.result i with
  | some (.ok k) => "ok " ++ showKey k
  | some (.err e) => s!"err {e}"
  | some .panic => "panic"
  | none => "stuck"

def memOf (d : DS) (store : String) : Option Mem :=
  if store = "mem" then some d.mem else if store = "map" then some d.map else none

def setMem (d : DS) (store : String) (m : Mem) : DS :=
  if store = "mem" then { d with mem := m } else { d with map := m }

/-- a write fault of the staging file reaches `Create` through the `TeeReader` as a
    failed read: the read whose bytes would make the file grow beyond `limit` fails
    (code 950), whatever error the read itself carried -/
def cutAtLimit (limit : Nat) : List ReadRes → Nat → List ReadRes
  | [], _ => []
  | r :: rs, acc =>
    if acc + r.data.length > limit then [⟨r.data, .other 950⟩]
    else r :: cutAtLimit limit rs (acc + r.data.length)

def step (d0 : DS) (line : String) : DS × String :=
  let ws := words line
  let d : DS := { d0 with tbl := parseShas ws ++ d0.tbl }
  let sha := shaKey d.tbl
  -- src= / after=: which reader kind the harness hands to Create and what it does to it afterwards;
  -- the model's Create copies its input, so these words do not change its answer
  let ws := ws.filter (fun w => !w.startsWith "sha=" && !w.startsWith "cls=" && !w.startsWith "src=" && !w.startsWith "after=" && !w.startsWith "used=" && !w.startsWith "via=")
  match ws with
  | ["reset"] => ({}, "ok")
  | ["create", "fs", rr] =>
    match parseRR rr with
    | some input =>
      let i := d.fs.crs.length
      let s := runCreate sha (input.length + 2) (d.fs.spawn input) i
      ({ d with fs := s }, fsCreateRes s i)
    | none => (d, "bad-op")
  | ["create", store, rr] =>
    match parseRR rr, memOf d store with
    | some input, some m =>
      let (m', r) := m.create sha input
      (setMem d store m', showCreate r)
    | _, _ => (d, "bad-op")
  | ["createw", "fs", lim, rr] =>
    match parseRR rr, kvNat [lim] "limit" with
    | some input0, some limit =>
      let input := cutAtLimit limit input0 0
      let i := d.fs.crs.length
      let s := runCreate sha (input.length + 2) (d.fs.spawn input) i
      ({ d with fs := s }, fsCreateRes s i)
    | _, _ => (d, "bad-op")
  | "bigcreate" :: _store :: rest =>
    -- one large stream: the model has no size bound, its answer does not depend on the size;
    -- the harness resets the stores around the op (the object is not entered into the state)
    match kv rest "fail", kvNat rest "code", kv rest "key" with
    | some f, some c, some k => (d, if f = "-1" then s!"ok {k}" else s!"err {c}")
    | _, _, _ => (d, "bad-op")
  | "handles2" :: rest =>
    -- two store handles on one directory: creator A has written its first `cut` bytes when
    -- creator B (other handle) runs a whole Create; then A finishes.  In the model both are
    -- creators of the one directory state; the result does not depend on the handle.
    match kvHex rest "a", kvNat rest "cut", kvHex rest "b" with
    | some a, some cut, some b =>
      let s0 : St := ⟨[], none, []⟩
      let inB : List ReadRes := [⟨b, .none⟩, ⟨[], .eof⟩]
      let inA : List ReadRes := [⟨a.take cut, .none⟩, ⟨a.drop cut, .none⟩, ⟨[], .eof⟩]
      let sA := settle sha 8 (s0.spawn inA) 0
      let sB := runCreate sha 8 (sA.spawn inB) 1
      let sF := runCreate sha 8 sB 0
      ({ d with fs := sF }, s!"a={fsCreateRes sF 0} b={fsCreateRes sF 1} {showListing sF}")
    | _, _, _ => (d, "bad-op")
  | ["hashrd", rr] =>
    -- hashutil.HashReader: the digest of a complete input, the input's error otherwise
    match parseRR rr with
    | some input => (d, showCreate (Mem.empty.create sha input).2)
    | none => (d, "bad-op")
  | ["spawn", "fs", rr] =>
    match parseRR rr with
    | some input =>
      let i := d.fs.crs.length
      let s := settle sha 8 (d.fs.spawn input) i
      ({ d with fs := s }, s!"id={i} ret={showRes (s.result i)} {showListing s}")
    | none => (d, "bad-op")
  | ["step", "fs", i] =>
    match i.toNat? with
    | some i =>
      match deliver sha d.fs i with
      | some s => ({ d with fs := s }, s!"ret={showRes (s.result i)} {showListing s}")
      | none => (d, "not-enabled")
    | none => (d, "bad-op")
  | ["conc", store, rrs] =>
    match (rrs.splitOn ";").mapM parseRR with
    | some inputs =>
      if store = "fs" then
        let base := d.fs.crs.length
        let s0 := inputs.foldl (fun s inp => s.spawn inp) d.fs
        let idx := List.range inputs.length
        let s := idx.foldl (fun s j => runCreate sha ((inputs.getD j []).length + 2) s (base + j)) s0
        ({ d with fs := s }, s!"rets={showList (idx.map fun j => showRes (s.result (base + j)))} {showListing s}")
      else
        match memOf d store with
        | some m =>
          let (m', rets) := inputs.foldl (fun (acc : Mem × List String) inp =>
            let (m1, r) := acc.1.create sha inp
            (m1, acc.2 ++ [match r with
              | .ok k => "ok:" ++ showKey k
              | .err e => s!"err:{e}"
              | .stuck => "stuck"])) (m, [])
          (setMem d store m', s!"rets={showList rets}")
        | none => (d, "bad-op")
    | none => (d, "bad-op")
  | ["list", "fs"] => (d, showListing d.fs)
  | ["open", store, k] =>
    match kvHex [k] "k" with
    | some k =>
      if store = "fs" then
        match fsOpen d.fs k with
        | .ok b => (d, "ok " ++ Hex.encode b)
        | .notFound => (d, "notfound")
      else match memOf d store with
        | some m => match m.get k with
          | some b => (d, "ok " ++ Hex.encode b)
          | none => (d, "notfound")
        | none => (d, "bad-op")
    | none => (d, "bad-op")
  | ["has", store, k] =>
    match kvHex [k] "k" with
    | some k =>
      if store = "fs" then (d, toString (fsHas d.fs k))
      else match memOf d store with
        | some m => (d, toString (m.has k))
        | none => (d, "bad-op")
    | none => (d, "bad-op")
  | ["put", store, h] =>
    match Hex.decode h, memOf d store with
    | some b, some m =>
      let (m', k) := m.put sha b
      (setMem d store m', "ok " ++ showKey k)
    | _, _ => (d, "bad-op")
  | ["get", store, k] =>
    match kvHex [k] "k", memOf d store with
    | some k, some m =>
      match m.get k with
      | some b => (d, "ok " ++ Hex.encode b)
      | none => (d, "notfound")
    | _, _ => (d, "bad-op")
  | ["ck", want, len, bs, rr] =>
    match kvHex [want] "want", (kv [len] "len").bind String.toInt?, kvNat [bs] "bs", parseRR rr with
    | some want, some n, some bs, some rs =>
      let (data, out) := CR.run (shaRaw d.tbl) (CR.new want n) (rechunk bs rs)
      let o := match out with
        | .nil => "nil"
        | .eof => "eof"
        | .badLen => "invalid"
        | .badHash => "invalid"
        | .other e => s!"err:{e}"
      (d, s!"{o} data={Hex.encode data}")
    | _, _, _, _ => (d, "bad-op")
  | ["cknew", h] =>
    match kvHex [h] "h" with
    | some h =>
      match parseWant (h.map (fun b => Char.ofNat b.toNat)) with
      | .ok w => (d, "ok " ++ Hex.encode w)
      | _ => (d, "bad")
    | none => (d, "bad-op")
  | _ => (d, "bad-op")

def main : IO Unit := runLines step ({} : DS)
