/-
Driver for C15 (registry trace checker).
  reset
  upgrade name=<n>            -> ep=<id> kicked=<old|->
  connect ep=<e> sess=<k>     -> ok | rejected
  disconnect ep=<e> sess=<k>  -> ok (serve end implied) | rejected | session-mismatch
  unmap ep=<e>                -> deleted=<0|1> | rejected
  lookup name=<n>             -> ep=<e> | none
-/
import PubModel.C15.Exec
import PubModel.Common.Hex
open PubModel PubModel.C15

def variantU : Bool := !Gen.Registry.unmapConditional

def step (s : St) (line : String) : St × String :=
  let ws := words line
  match ws with
  | ["reset"] => ({}, "ok")
  | "upgrade" :: rest =>
    match kvNat rest "name" with
    | some n =>
      let old := s.lookup n
      match exec variantU s (.upgrade n) with
      | some s' => (s', s!"ep={s.lives.length} kicked={match old with | some o => toString o | none => "-"}")
      | none => (s, "rejected")
    | none => (s, "bad-op")
  | "connect" :: rest =>
    match kvNat rest "ep", kvNat rest "sess" with
    | some e, some k =>
      match exec variantU s (.connect e k) with
      | some s' => (s', "ok")
      | none => (s, "rejected")
    | _, _ => (s, "bad-op")
  | "disconnect" :: rest =>
    match kvNat rest "ep", kvNat rest "sess" with
    | some e, some k =>
      match exec variantU s (.serveEnd e) with
      | none => (s, "rejected")
      | some s1 =>
        match s1.lives[e]? with
        | some l =>
          if l.session ≠ k then (s, "session-mismatch")
          else match exec variantU s1 (.disconnect e) with
            | some s2 => (s2, "ok")
            | none => (s, "rejected")
        | none => (s, "rejected")
    | _, _ => (s, "bad-op")
  | "unmap" :: rest =>
    match kvNat rest "ep" with
    | some e =>
      let before := (s.lives[e]?).bind fun l => s.lookup l.name
      match exec variantU s (.unmap e) with
      | some s' =>
        let after := (s.lives[e]?).bind fun l => s'.lookup l.name
        (s', s!"deleted={if before.isSome && after.isNone then 1 else 0}")
      | none => (s, "rejected")
    | none => (s, "bad-op")
  | "lookup" :: rest =>
    match kvNat rest "name" with
    | some n => (s, match s.lookup n with | some e => s!"ep={e}" | none => "none")
    | none => (s, "bad-op")
  | _ => (s, "bad-op")

def main : IO Unit := runLines step {}
