/-
Driver for C12: one operation per line on stdin, one result per line on stdout.
Strings are lower-case hex (`-` = empty string); lists are comma separated
(`.` = empty list).

  clean <s>                          path.Clean
  join <list>                        path.Join
  rel p=<s> f=<s>                    makeRelPath
  mk p=<s> f=<s>                     makePath
  dfp d=<s> ps=<list>                dirFilePath (env.src / env.out with d = srcDir / outDir)
  buildinc p=<s> tree=<list> sets=<files+..;..> files=<list>   a built file set including file sets -> built files=<list> | err
  dbuild p=<s> tree=<list> name=<s> df=<s>   a docker_build rule loaded -> ok deps=<list> | err
  subdirs p=<s> dirs=<list>          newSubBuilds: the directories a sub_builds statement names
  match pat=<s> name=<s>             path.Match      -> yes | no | bad
  fmatch pat=<s> name=<s>            filepath.Match  -> yes | no | bad
  glob tree=<list> pat=<s>           filepath.Glob(<srcDir>/pat), relative results -> ok <list> | bad
  walk tree=<list> d=<s>             listAllFiles(<srcDir>/d), relative, sorted -> ok <list> | err
  fset p=<s> tree=<list> name=<s> files=<list> sel=<list> ign=<list> inc=<list>
                                     newFileSet -> ok name=<s> files=<list> inc=<list> out=<s> | err
  rebuild <same fields> tree2=<list>  two Builds on one Builder, sources changed in between -> <build> ;; <build>
  build <same fields>                real Builder.Build of that one rule -> built files=<list> | err
-/
import PubModel.C12.Glue
import PubModel.Common.Hex

open PubModel PubModel.C12

def toStr (bs : Bytes) : Str := bs.map (fun b => Char.ofNat b.toNat)
def ofStr (s : Str) : Bytes := s.map (fun c => c.toNat.toUInt8)
def showS (s : Str) : String := Hex.encode (ofStr s)

def parseS (w : String) : Option Str := (Hex.decode w).map toStr

def parseL (w : String) : Option (List Str) :=
  if w = "." then some [] else (w.splitOn ",").mapM parseS

def showL (l : List Str) : String :=
  if l.isEmpty then "." else ",".intercalate (l.map showS)

def kvS (ws : List String) (k : String) : Option Str := (kv ws k).bind parseS
def kvL (ws : List String) (k : String) : Option (List Str) := (kv ws k).bind parseL

def showM : MatchRes → String
  | .yes => "yes" | .no => "no" | .bad => "bad"

def treeOf (l : List Str) : Tree := l.map segsOf

/-- one real Build of one file_set rule: readBuildFile rejects a rule named like its package;
    the loader resolves every file of the set as a regular source file -/
def buildOut (p : Str) (t : List Str) (r : FsRule) : String :=
  match newFileSet genCfg (treeOf t) p r with
  | some o =>
    if o.name = p then "err"
    else if o.files.all (fun f => isFile (treeOf t) (segsOf f)) then s!"built files={showL o.files}"
    else "err"
  | none => "err"

def step (_ : Unit) (line : String) : Unit × String :=
  let ws := words line
  let out :=
    match ws with
    | ["clean", s] => match parseS s with | some s => showS (clean s) | none => "bad-op"
    | ["join", l] => match parseL l with | some l => showS (join l) | none => "bad-op"
    | "rel" :: rest =>
      match kvS rest "p", kvS rest "f" with
      | some p, some f => showS (makeRelPath p f)
      | _, _ => "bad-op"
    | "mk" :: rest =>
      match kvS rest "p", kvS rest "f" with
      | some p, some f => showS (makePath p f)
      | _, _ => "bad-op"
    | "dfp" :: rest =>
      match kvS rest "d", kvL rest "ps" with
      | some d, some ps => showS (dirFilePath d ps)
      | _, _ => "bad-op"
    | "buildinc" :: rest =>
      -- a file set with explicit files that includes file sets i0, i1, ... of its package
      match kvS rest "p", kvL rest "tree", kv rest "sets", kvL rest "files" with
      | some p, some t, some sw, some files =>
        let sets : Option (List (List Str)) :=
          if sw = "." then some [] else (sw.splitOn ";").mapM (fun x => if x = "." then some [] else (x.splitOn "+").mapM parseS)
        match sets with
        | some sets =>
          let all := sortDedup ((files ++ sets.flatten).map (makePath p))
          if all.all (fun f => isFile (treeOf t) (segsOf f)) then s!"built files={showL all}" else "err"
        | none => "bad-op"
      | _, _, _, _ => "bad-op"
    | "dbuild" :: rest =>
      -- newDockerBuild + load: the rule's dependencies (no From / Input: the Dockerfile)
      match kvS rest "p", kvL rest "tree", kvS rest "name", kvS rest "df" with
      | some p, some t, some name, some df =>
        let nm := makeRelPath p name
        let parts := segsOf nm
        let dockers := parts.getD 2 []
        if parts.length ≠ 4 ∨ ¬ (dockers = "dockers".toList ∨ isSuffixOfStr "-dockers".toList dockers) then "err"
        else if nm = p then "err"
        else
          let f := if df = [] then join [nm, "Dockerfile".toList] else makePath p df
          if isFile (treeOf t) (segsOf f) then s!"ok deps={showL [f]}" else "err"
      | _, _, _, _ => "bad-op"
    | "subdirs" :: rest =>
      match kvS rest "p", kvL rest "dirs" with
      | some p, some dirs => showL (dirs.map (makeRelPath p))
      | _, _ => "bad-op"
    | "match" :: rest =>
      match kvS rest "pat", kvS rest "name" with
      | some p, some n => showM (pmatch p n)
      | _, _ => "bad-op"
    | "fmatch" :: rest =>
      match kvS rest "pat", kvS rest "name" with
      | some p, some n => showM (fmatch p n)
      | _, _ => "bad-op"
    | "glob" :: rest =>
      match kvL rest "tree", kvS rest "pat" with
      | some t, some p =>
        if PlainPath p then
          match glob (treeOf t) p with
          | some ms => "ok " ++ showL (ms.map relName)
          | none => "bad"
        else "bad-op"
      | _, _ => "bad-op"
    | "walk" :: rest =>
      match kvL rest "tree", kvS rest "d" with
      | some t, some d =>
        if PlainPath d then
          match listAll genCfg (treeOf t) (segsOf d) with
          | some ms => "ok " ++ showL (sortDedup (ms.map relName))
          | none => "err"
        else "bad-op"
      | _, _ => "bad-op"
    | "fset" :: rest =>
      match kvS rest "p", kvL rest "tree", kvS rest "name", kvL rest "files", kvL rest "sel",
            kvL rest "ign", kvL rest "inc" with
      | some p, some t, some name, some files, some sel, some ign, some inc =>
        if PlainPath p then
          match newFileSet genCfg (treeOf t) p ⟨name, files, sel, ign, inc⟩ with
          | some o => s!"ok name={showS o.name} files={showL o.files} inc={showL o.includes} out={showS o.out}"
          | none => "err"
        else "bad-op"
      | _, _, _, _, _, _, _ => "bad-op"
    | "build" :: rest =>
      match kvS rest "p", kvL rest "tree", kvS rest "name", kvL rest "files", kvL rest "sel",
            kvL rest "ign", kvL rest "inc" with
      | some p, some t, some name, some files, some sel, some ign, some inc =>
        if PlainPath p ∧ inc = [] then buildOut p t ⟨name, files, sel, ign, inc⟩ else "bad-op"
      | _, _, _, _, _, _, _ => "bad-op"
    | "rebuild" :: rest =>
      -- two Builds on one Builder, the source tree changed in between: each is judged on its own tree
      match kvS rest "p", kvL rest "tree", kvL rest "tree2", kvS rest "name", kvL rest "files", kvL rest "sel",
            kvL rest "ign" with
      | some p, some t, some t2, some name, some files, some sel, some ign =>
        if PlainPath p then
          buildOut p t ⟨name, files, sel, ign, []⟩ ++ " ;; " ++ buildOut p t2 ⟨name, files, sel, ign, []⟩
        else "bad-op"
      | _, _, _, _, _, _, _ => "bad-op"
    | _ => "bad-op"
  ((), out)

def main : IO Unit := runLines step ()
