/-
C11 — helper lemmas: folds over optional states, termination measures of
`collect` (directories not yet read) and `load1` (registered nodes neither on
the tracer stack nor loaded), registration.
-/
import PubModel.C11.Model

namespace PubModel.C11
open PubModel.C12

/-! ### folds that thread an optional state -/

theorem foldl_optStep_none {α σ : Type} (g : α → σ → Option σ) (l : List α) :
    l.foldl (optStep g) none = none := by
  induction l with
  | nil => rfl
  | cons a as ih => simpa [optStep] using ih

theorem foldl_opt_inv {α σ : Type} (g : α → σ → Option σ) (P : σ → Prop) (l : List α)
    (h : ∀ d ∈ l, ∀ s, P s → ∃ s', g d s = some s' ∧ P s') :
    ∀ s, P s → ∃ s', l.foldl (optStep g) (some s) = some s' ∧ P s' := by
  induction l with
  | nil => intro s hs; exact ⟨s, rfl, hs⟩
  | cons a as ih =>
    intro s hs
    obtain ⟨s1, h1, hp1⟩ := h a (by simp) s hs
    simp only [List.foldl_cons, optStep, h1]
    exact ih (fun d hd => h d (by simp [hd])) s1 hp1

/-! ### measure of `collect`: build files whose directory has not been read -/

def unread (ws : Ws) (seen : List Str) : Nat :=
  (ws.files.filter (fun f => !seen.contains f.1)).length

theorem filter_length_le_of_imp {α : Type} (p q : α → Bool) (l : List α)
    (h : ∀ x ∈ l, q x = true → p x = true) : (l.filter q).length ≤ (l.filter p).length := by
  induction l with
  | nil => simp
  | cons a as ih =>
    have ih' := ih (fun x hx => h x (by simp [hx]))
    simp only [List.filter_cons]
    by_cases hq : q a = true
    · have hp := h a (by simp) hq
      simp [hq, hp]; omega
    · by_cases hpa : p a = true <;> simp [hq, hpa] <;> omega

theorem filter_length_lt_of_imp {α : Type} (p q : α → Bool) (l : List α)
    (h : ∀ x ∈ l, q x = true → p x = true) (x : α) (hx : x ∈ l) (hpx : p x = true) (hqx : q x = false) :
    (l.filter q).length < (l.filter p).length := by
  induction l with
  | nil => simp at hx
  | cons a as ih =>
    simp only [List.filter_cons]
    have hle := filter_length_le_of_imp p q as (fun y hy => h y (by simp [hy]))
    simp at hx
    rcases hx with rfl | hx
    · simp [hpx, hqx]; omega
    · have ih' := ih (fun y hy => h y (by simp [hy])) hx
      by_cases hq : q a = true
      · have hp := h a (by simp) hq
        simp [hq, hp]; omega
      · by_cases hpa : p a = true <;> simp [hq, hpa] <;> omega

theorem unread_cons_le (ws : Ws) (p : Str) (seen : List Str) : unread ws (p :: seen) ≤ unread ws seen := by
  unfold unread
  apply filter_length_le_of_imp
  intro x _ hx
  simp at hx ⊢
  exact hx.2

theorem lookupFile_mem {ws : Ws} {p : Str} {ds : List Decl} (h : lookupFile ws p = some ds) :
    ∃ f ∈ ws.files, f.1 = p := by
  unfold lookupFile at h
  cases hf : ws.files.find? (fun f => decide (f.1 = p)) with
  | none => simp [hf] at h
  | some f =>
    refine ⟨f, List.mem_of_find?_eq_some hf, ?_⟩
    have := List.find?_some hf
    simpa using this

theorem unread_cons_lt (ws : Ws) (p : Str) (seen : List Str) (ds : List Decl)
    (h : lookupFile ws p = some ds) (hp : p ∉ seen) : unread ws (p :: seen) < unread ws seen := by
  obtain ⟨f, hf, hfp⟩ := lookupFile_mem h
  unfold unread
  apply filter_length_lt_of_imp _ _ _ _ f hf
  · simp [hfp, hp]
  · simp [hfp]
  · intro x _ hx
    simp at hx ⊢
    exact hx.2

/-- **`collect` terminates** once the loader skips directories it has read:
    fuel above the number of unread build files suffices, and reading never
    un-reads a directory. -/
theorem collect_terminates (cfg : Cfg) (hc : cfg.dedupDirs = true) (ws : Ws) :
    ∀ fuel p seen, unread ws seen < fuel →
      ∃ evs seen', collect cfg ws fuel p seen = some (evs, seen') ∧ unread ws seen' ≤ unread ws seen := by
  intro fuel
  induction fuel with
  | zero => intro p seen h; omega
  | succ n ih =>
    intro p seen h
    unfold collect
    simp only [hc, true_and]
    by_cases hp : p ∈ seen
    · simp only [hp, if_true]
      exact ⟨[], seen, rfl, Nat.le_refl _⟩
    · simp only [hp, if_false, if_true]
      cases hl : lookupFile ws p with
      | none => exact ⟨[], p :: seen, rfl, unread_cons_le ws p seen⟩
      | some decls =>
        have hlt := unread_cons_lt ws p seen decls hl hp
        simp only
        by_cases hgb : decls.any isGarbage = true
        · simp only [hgb, if_true]
          exact ⟨[.syntaxErr p], p :: seen, rfl, unread_cons_le ws p seen⟩
        simp only [hgb]
        cases hr : resolveFile cfg p decls with
        | none => exact ⟨[.fileErr p], p :: seen, rfl, unread_cons_le ws p seen⟩
        | some r =>
          obtain ⟨ns, subs⟩ := r
          simp only
          have := foldl_opt_inv (fun d (acc : List Ev × List Str) =>
              (collect cfg ws n d acc.2).map (fun r => (acc.1 ++ r.1, r.2)))
            (fun acc => unread ws acc.2 ≤ unread ws (p :: seen)) (sortDedup subs)
            (fun d _ acc hs => by
              obtain ⟨e, s', h1, h2⟩ := ih d acc.2 (by omega)
              exact ⟨(acc.1 ++ e, s'), by simp [h1], by simp; omega⟩)
            (ns.map .reg, p :: seen) (Nat.le_refl _)
          obtain ⟨⟨e', s'⟩, h1, h2⟩ := this
          exact ⟨e', s', h1, by simp at h2; omega⟩


/-! ### measure of `load1`: registered nodes neither on the stack nor loaded -/

def white (nodes : List Node) (stack loaded : List Str) : Nat :=
  (nodes.filter (fun n => !stack.contains n.name && !loaded.contains n.name)).length

theorem findNode_mem {nodes : List Node} {name : Str} {n : Node} (h : findNode nodes name = some n) :
    n ∈ nodes ∧ n.name = name := by
  unfold findNode at h
  exact ⟨List.mem_of_find?_eq_some h, by simpa using List.find?_some h⟩

theorem white_mono (nodes : List Node) (stack loaded loaded' : List Str) (h : ∀ x ∈ loaded, x ∈ loaded') :
    white nodes stack loaded' ≤ white nodes stack loaded := by
  unfold white
  apply filter_length_le_of_imp
  intro x _ hx
  simp at hx ⊢
  exact ⟨hx.1, fun hl => hx.2 (h _ hl)⟩

theorem white_push (nodes : List Node) (stack loaded : List Str) (name : Str) (n : Node)
    (hf : findNode nodes name = some n) (hs : name ∉ stack) (hl : name ∉ loaded) :
    white nodes (name :: stack) loaded < white nodes stack loaded := by
  obtain ⟨hm, hn⟩ := findNode_mem hf
  unfold white
  apply filter_length_lt_of_imp _ _ _ _ n hm
  · simp [hn, hs, hl]
  · simp [hn]
  · intro x _ hx
    simp at hx ⊢
    exact ⟨hx.1.2, hx.2⟩

/-- what `load1` never changes, and what only grows -/
structure Frame (st st' : LState) : Prop where
  nodes : st'.nodes = st.nodes
  stack : st'.stack = st.stack
  loaded : ∃ more, st'.loaded = more ++ st.loaded
  errs : ∃ more, st'.errs = st.errs ++ more

theorem Frame.refl (st : LState) : Frame st st := ⟨rfl, rfl, ⟨[], rfl⟩, ⟨[], by simp⟩⟩

theorem Frame.trans {a b c : LState} (h1 : Frame a b) (h2 : Frame b c) : Frame a c := by
  obtain ⟨n1, s1, ⟨l1, hl1⟩, ⟨e1, he1⟩⟩ := h1
  obtain ⟨n2, s2, ⟨l2, hl2⟩, ⟨e2, he2⟩⟩ := h2
  exact ⟨n2.trans n1, s2.trans s1, ⟨l2 ++ l1, by rw [hl2, hl1]; simp⟩, ⟨e1 ++ e2, by rw [he2, he1]; simp⟩⟩

theorem Frame.loaded_sub {a b : LState} (h : Frame a b) : ∀ x ∈ a.loaded, x ∈ b.loaded := by
  obtain ⟨_, _, ⟨l, hl⟩, _⟩ := h
  intro x hx
  rw [hl]; simp [hx]

/-- **`load1` terminates**: fuel above the number of white nodes suffices;
    it returns with the same registered nodes and tracer stack, `loaded` and
    the error list only extended. -/
theorem load1_terminates (srcs : List Str) :
    ∀ fuel name st, white st.nodes st.stack st.loaded < fuel →
      ∃ st', load1 srcs fuel name st = some st' ∧ Frame st st' := by
  intro fuel
  induction fuel with
  | zero => intro name st h; omega
  | succ k ih =>
    intro name st h
    unfold load1
    by_cases hs : name ∈ st.stack
    · simp only [hs, if_true]
      exact ⟨_, rfl, ⟨rfl, rfl, ⟨[], rfl⟩, ⟨_, rfl⟩⟩⟩
    · simp only [hs, if_false]
      by_cases hl : name ∈ st.loaded
      · simp only [hl, if_true]
        exact ⟨st, rfl, Frame.refl st⟩
      · simp only [hl, if_false]
        cases hf : findNode st.nodes name with
        | some n =>
          simp only
          have hw := white_push st.nodes st.stack st.loaded name n hf hs hl
          let st1 : LState := { st with stack := name :: st.stack }
          have := foldl_opt_inv (fun d s => load1 srcs k d s) (fun s => Frame st1 s) n.deps
            (fun d _ s hs' => by
              have hws : white s.nodes s.stack s.loaded < k := by
                rw [hs'.nodes, hs'.stack]
                have := white_mono st1.nodes st1.stack st1.loaded s.loaded hs'.loaded_sub
                have h1 : white st1.nodes st1.stack st1.loaded < white st.nodes st.stack st.loaded := hw
                omega
              obtain ⟨s', h1, h2⟩ := ih d s hws
              exact ⟨s', h1, hs'.trans h2⟩)
            st1 (Frame.refl st1)
          obtain ⟨st2, h1, h2⟩ := this
          dsimp only [st1] at h1
          rw [h1]
          refine ⟨_, rfl, ?_⟩
          obtain ⟨hn, _, ⟨l, hl'⟩, ⟨e, he⟩⟩ := h2
          exact ⟨hn, rfl, ⟨name :: l, by simp [hl', st1]⟩, ⟨e, he⟩⟩
        | none =>
          simp only
          by_cases hsrc : name ∈ srcs
          · simp only [hsrc, if_true]
            exact ⟨_, rfl, ⟨rfl, rfl, ⟨[name], rfl⟩, ⟨[], by simp⟩⟩⟩
          · simp only [hsrc, if_false]
            exact ⟨_, rfl, ⟨rfl, rfl, ⟨[], rfl⟩, ⟨_, rfl⟩⟩⟩

theorem loadList_terminates (srcs : List Str) (fuel : Nat) (names : List Str) (st : LState)
    (h : white st.nodes st.stack st.loaded < fuel) :
    ∃ st', loadList srcs fuel names st = some st' ∧ Frame st st' := by
  unfold loadList
  exact foldl_opt_inv (fun d s => load1 srcs fuel d s) (fun s => Frame st s) names
    (fun d _ s hs => by
      have hws : white s.nodes s.stack s.loaded < fuel := by
        rw [hs.nodes, hs.stack]
        have := white_mono st.nodes st.stack st.loaded s.loaded hs.loaded_sub
        omega
      obtain ⟨s', h1, h2⟩ := load1_terminates srcs fuel d s hws
      exact ⟨s', h1, hs.trans h2⟩)
    st (Frame.refl st)

theorem white_le_length (nodes : List Node) (stack loaded : List Str) :
    white nodes stack loaded ≤ nodes.length := by
  unfold white
  exact List.length_filter_le _ _

end PubModel.C11
