/-
C11 — glue between the regenerated facts (`Gen.Caco3Loader`, `Gen.Caco3Paths`)
and the loader model: the configuration that corresponds to the code as it is.
-/
import PubModel.C11.Model
import PubModel.Gen.Caco3Loader
import PubModel.Gen.Caco3Paths

namespace PubModel.C11
open PubModel.Gen

def genCfg : Cfg where
  dedupDirs := Caco3Loader.dedupDirs
  includeResolved := Caco3Paths.includeShape = "makePath"

end PubModel.C11
