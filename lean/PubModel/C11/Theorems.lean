/-
C11 — property theorems.  Statement file only; helper lemmas are in Lemmas*.lean.

Property: for any set of build files, loading terminates; a dependency cycle
reachable from the requested targets, a duplicated rule or output name, an
unnamed rule or a dangling dependency is reported as an error and nothing is
built.  Otherwise only rules reachable from the requested targets are
executed (all of them when nothing is cached), each at most once per build
and only after all of its dependencies, regardless of the order in which
rules and packages are declared.
-/
import PubModel.C11.Lemmas4
import PubModel.C12.Lemmas
import PubModel.C11.Obligations

namespace PubModel.C11
open PubModel.C12

/-- the loader that remembers the directories it has read -/
def fixedCfg (inc : Bool) : Cfg := ⟨true, inc⟩

/-- **Reading the build files terminates** for every finite set of build
    files and every sub-build directory graph (self references `.`, ``,
    `x/..` included): fuel above the number of build files suffices. -/
theorem read_terminates (cfg : Cfg) (hc : cfg.dedupDirs = true) (ws : Ws) (fuel : Nat)
    (h : ws.files.length < fuel) : (collectAll cfg ws fuel).isSome = true := by
  unfold collectAll
  have := foldl_opt_inv (fun d (acc : List Ev × List Str) =>
      (collect cfg ws fuel d acc.2).map (fun r => (acc.1 ++ r.1, r.2)))
    (fun _ => True) (sortDedup ws.repoDirs)
    (fun d _ acc _ => by
      have hu : unread ws acc.2 < fuel := by
        have : unread ws acc.2 ≤ ws.files.length := List.length_filter_le _ _
        omega
      obtain ⟨e, s', h1, _⟩ := collect_terminates cfg hc ws fuel d acc.2 hu
      exact ⟨(acc.1 ++ e, s'), by simp [h1], trivial⟩)
    ([], []) trivial
  obtain ⟨s', h1, _⟩ := this
  rw [h1]; rfl

/-- the code as regenerated skips repeated directories, so it terminates -/
theorem read_terminates_gen (ws : Ws) (fuel : Nat) (h : ws.files.length < fuel) :
    (collectAll genCfg ws fuel).isSome = true :=
  read_terminates genCfg gen_dedup_dirs ws fuel h

/-- a workspace whose only build file lists its own directory as a sub-build -/
def selfRefWs : Ws := ⟨["p".toList], [("p".toList, [.sub [".".toList]])], []⟩

example : collectAll (fixedCfg false) selfRefWs 3 = some [] := by decide
example : run (fixedCfg false) ⟨["p".toList], [("p".toList, [.sub ["x/..".toList, "".toList], .bundle "a".toList []])], []⟩
    5 ["p/a".toList] = .built ["p/a".toList] ["p/a".toList] := by decide

/-- **The loader that does not remember directories diverges** on
    `sub_builds { Dirs: ["."] }` (the code before the repair: the process dies
    of a stack overflow). -/
theorem read_diverges_without_memo : ∀ fuel seen,
    collect ⟨false, false⟩ selfRefWs fuel "p".toList seen = none := by
  intro fuel
  induction fuel with
  | zero => intro seen; rfl
  | succ k ih =>
    intro seen
    unfold collect
    have h1 : lookupFile selfRefWs "p".toList = some [.sub [".".toList]] := by decide
    have h2 : resolveFile ⟨false, false⟩ "p".toList [.sub [".".toList]] = some ([], ["p".toList]) := by decide
    have h3 : sortDedup ["p".toList] = ["p".toList] := by decide
    have h0 : List.any [Decl.sub [".".toList]] isGarbage = false := by decide
    simp only [h1, h0, h2, h3]
    simp only [optStep, List.foldl_cons, List.foldl_nil, if_false, Bool.false_eq_true, false_and]
    have := ih seen
    simp
    exact this

/-- **Loading terminates**: fuel above the number of registered nodes suffices
    (measure: registered nodes that are neither on the tracer stack nor loaded). -/
theorem load_terminates (srcs : List Str) (st : LState) (targets : List Str) (fuel : Nat)
    (h : st.nodes.length < fuel) : (loadList srcs fuel targets st).isSome = true := by
  have hw : white st.nodes st.stack st.loaded < fuel := by
    have := white_le_length st.nodes st.stack st.loaded
    omega
  obtain ⟨st', h1, _⟩ := loadList_terminates srcs fuel targets st hw
  rw [h1]; rfl

/-- **Loading fails exactly when a cycle or a dangling dependency is
    reachable from the targets** (after a registration pass without errors,
    i.e. no duplicate, empty or missing names). -/
theorem load_error_iff (srcs : List Str) (nodes : List Node) (fuel : Nat) (targets : List Str)
    (st' : LState) (h : loadList srcs fuel targets { nodes := nodes } = some st') :
    st'.errs ≠ [] ↔
      ∃ t ∈ targets, ∃ x, Reach nodes t x ∧ (OnCycle nodes x ∨ Dangling nodes srcs x) := by
  unfold loadList at h
  constructor
  · intro hne
    have := foldl_opt_some_inv (fun d s => load1 srcs fuel d s)
      (fun s => Frame { nodes := nodes } s ∧ ∀ e ∈ s.errs, ∃ t ∈ targets, BadFrom nodes srcs t e) targets
      (fun d hd s s' hg hp => by
        have hfr := load1_frame srcs fuel d s s' hg
        refine ⟨hp.1.trans hfr, ?_⟩
        have hs := load1_sound nodes srcs fuel d s s' (by rw [hp.1.nodes])
          (by rw [hp.1.stack]; trivial) (by rw [hp.1.stack]; intro top ht; simp at ht) hg
        intro e he
        rcases hs e he with h1 | h1
        · exact hp.2 e h1
        · exact ⟨d, hd, h1⟩)
      _ st' h ⟨Frame.refl _, by intro e he; simp at he⟩
    cases he : st'.errs with
    | nil => exact absurd he hne
    | cons e rest =>
      obtain ⟨t, ht, x, hr, hx⟩ := this.2 e (by rw [he]; simp)
      refine ⟨t, ht, x, hr, ?_⟩
      rcases hx with ⟨_, hc⟩ | ⟨_, hd⟩
      · exact Or.inl hc
      · exact Or.inr hd
  · rintro ⟨t, ht, x, hr, hx⟩ hnil
    have key := foldl_opt_some_ind (fun d s => load1 srcs fuel d s)
      (fun pre s => Frame { nodes := nodes } s ∧ (s.errs = [] →
        Good nodes srcs s.loaded ∧ ∀ d ∈ pre, d ∈ s.loaded))
      (fun pre d s s' hg hp => by
        have hfr := load1_frame srcs fuel d s s' hg
        refine ⟨hp.1.trans hfr, ?_⟩
        intro he'
        have hee := errs_eq_of_frames hp.1 hfr (by simpa using he')
        have hs0 : s.errs = [] := by simpa using hee.1
        obtain ⟨hg0, hp0⟩ := hp.2 hs0
        have := load1_complete nodes srcs fuel d s s' (by rw [hp.1.nodes]) hg hee.2 hg0
          (by rw [hp.1.stack]; intro x hx; simp at hx)
        refine ⟨this.1, ?_⟩
        intro d' hd'
        simp only [List.mem_append, List.mem_singleton] at hd'
        rcases hd' with hd' | rfl
        · exact hfr.loaded_sub _ (hp0 d' hd')
        · exact this.2.1)
      targets [] _ st' h ⟨Frame.refl _, fun _ => ⟨trivial, by simp⟩⟩
    simp only [List.nil_append] at key
    obtain ⟨hg, hts⟩ := key.2 hnil
    have hx' := good_reach nodes srcs _ hg (hts t ht) hr
    rcases hx with hc | hd
    · exact good_acyclic nodes srcs _ hg x hx' hc
    · exact good_no_dangling nodes srcs _ hg x hx' hd

/-- non-vacuity: a cycle behind a memoised node is found, a diamond loads -/
def exNodes : List Node :=
  [⟨"a".toList, .rule, ["b".toList, "c".toList]⟩, ⟨"b".toList, .rule, ["c".toList]⟩,
   ⟨"c".toList, .rule, ["b".toList]⟩]
example : (loadList [] 9 ["a".toList] { nodes := exNodes }).map (fun s => s.errs.isEmpty) = some false := by decide
example : (loadList ["s".toList] 9 ["a".toList]
    { nodes := [⟨"a".toList, .rule, ["b".toList, "c".toList]⟩, ⟨"b".toList, .rule, ["s".toList]⟩,
                ⟨"c".toList, .rule, ["s".toList, "b".toList]⟩] }).map (fun s => (s.errs, s.loaded)) =
    some ([], ["a".toList, "c".toList, "b".toList, "s".toList]) := by decide

/-- **Duplicated names, empty names, unnamed rules and build files that do not parse are
    reported and nothing is built.** -/
theorem dup_or_empty_reported (cfg : Cfg) (ws : Ws) (fuel : Nat) (targets : List Str) (evs : List Ev)
    (hev : collectAll cfg ws fuel = some evs)
    (h : ((∃ d, Ev.fileErr d ∈ evs) ∨ (∃ d, Ev.syntaxErr d ∈ evs)) ∨ (∃ n, Ev.reg n ∈ evs ∧ n.name = []) ∨
      (∃ a n b m c, evs = a ++ [Ev.reg n] ++ b ++ [Ev.reg m] ++ c ∧ n.name = m.name)) :
    ∃ errs, errs ≠ [] ∧ run cfg ws fuel targets = .failed errs := by
  have hne := registerAll_reports evs h
  refine ⟨(registerAll evs).errs, hne, ?_⟩
  unfold run
  simp only [hev]
  rw [if_pos hne]

example : run (fixedCfg false)
    ⟨["p".toList], [("p".toList, [.fileSet "x".toList [] [], .bundle "x.fileset".toList []])], []⟩ 5 ["p/x".toList] =
    .failed [.dup "p/x.fileset".toList] := by decide
example : run (fixedCfg false) ⟨["p".toList], [("p".toList, [.bundle ".".toList []])], []⟩ 5 ["p".toList] =
    .failed [.noName "p".toList] := by decide
example : run (fixedCfg false) ⟨["p".toList], [("p".toList, [.bundle "a".toList [], .garbage 25])], []⟩ 5 ["p/a".toList] =
    .failed [.syntax "p".toList] := by decide

/-- **Any error of the loading pass stops the build as well** -/
theorem load_error_nothing_built (cfg : Cfg) (ws : Ws) (fuel : Nat) (targets : List Str) (log loaded : List Str)
    (h : run cfg ws fuel targets = .built log loaded) :
    ∃ evs st', collectAll cfg ws fuel = some evs ∧ (registerAll evs).errs = [] ∧
      loadList ws.srcs fuel targets (registerAll evs) = some st' ∧ st'.errs = [] := by
  unfold run at h
  cases hev : collectAll cfg ws fuel with
  | none => simp [hev] at h
  | some evs =>
    simp only [hev] at h
    by_cases he : (registerAll evs).errs ≠ []
    · rw [if_pos he] at h; simp at h
    · rw [if_neg he] at h
      cases hl : loadList ws.srcs fuel targets (registerAll evs) with
      | none => simp [hl] at h
      | some st' =>
        simp only [hl] at h
        by_cases he' : st'.errs ≠ []
        · rw [if_pos he'] at h; simp at h
        · exact ⟨evs, st', rfl, by simpa using he, hl, by simpa using he'⟩

/-- **The order of declarations does not matter**: two registrations without
    errors that hold the same nodes in a different order give the same
    errors, the same loaded set and the same BUILD sequence. -/
theorem build_order_decl_independent (srcs : List Str) (nodes nodes' : List Node)
    (hp : nodes.Perm nodes') (hnd : (nodes.map (·.name)).Nodup) (fuel : Nat) (targets : List Str) :
    (loadList srcs fuel targets { nodes := nodes }).map (fun s => (s.errs, s.loaded)) =
      (loadList srcs fuel targets { nodes := nodes' }).map (fun s => (s.errs, s.loaded)) ∧
    ∀ loaded, buildTargets nodes loaded fuel targets = buildTargets nodes' loaded fuel targets := by
  have hfn : ∀ x, findNode nodes x = findNode nodes' x := findNode_perm nodes nodes' hp hnd
  refine ⟨?_, fun loaded => buildTargets_congr nodes nodes' hfn loaded fuel targets⟩
  have := loadList_rel srcs nodes' fuel targets { nodes := nodes } { nodes := nodes' } ⟨rfl, hfn⟩
  revert this
  generalize loadList srcs fuel targets { nodes := nodes } = r1
  generalize loadList srcs fuel targets { nodes := nodes' } = r2
  intro this
  cases r1 with
  | none => cases r2 with
    | none => rfl
    | some _ => exact absurd this (by simp [OptRel])
  | some a => cases r2 with
    | none => exact absurd this (by simp [OptRel])
    | some b =>
      obtain ⟨rfl, _⟩ := this
      simp [withNodes]


/-- **A load without errors leaves a topological order**: `loaded` (most
    recent first) contains the targets, every entry is a source file or a
    registered node all of whose dependencies were loaded before it. -/
theorem load_ok_topological (srcs : List Str) (nodes : List Node) (fuel : Nat) (targets : List Str)
    (st' : LState) (h : loadList srcs fuel targets { nodes := nodes } = some st') (he : st'.errs = []) :
    Good nodes srcs st'.loaded ∧ ∀ t ∈ targets, t ∈ st'.loaded := by
  unfold loadList at h
  have key := foldl_opt_some_ind (fun d s => load1 srcs fuel d s)
    (fun pre s => Frame { nodes := nodes } s ∧ (s.errs = [] →
      Good nodes srcs s.loaded ∧ ∀ d ∈ pre, d ∈ s.loaded))
    (fun pre d s s' hg hp => by
      have hfr := load1_frame srcs fuel d s s' hg
      refine ⟨hp.1.trans hfr, ?_⟩
      intro he'
      have hee := errs_eq_of_frames hp.1 hfr (by simpa using he')
      have hs0 : s.errs = [] := by simpa using hee.1
      obtain ⟨hg0, hp0⟩ := hp.2 hs0
      have := load1_complete nodes srcs fuel d s s' (by rw [hp.1.nodes]) hg hee.2 hg0
        (by rw [hp.1.stack]; intro x hx; simp at hx)
      refine ⟨this.1, ?_⟩
      intro d' hd'
      simp only [List.mem_append, List.mem_singleton] at hd'
      rcases hd' with hd' | rfl
      · exact hfr.loaded_sub _ (hp0 d' hd')
      · exact this.2.1)
    targets [] _ st' h ⟨Frame.refl _, fun _ => ⟨trivial, by simp⟩⟩
  simp only [List.nil_append] at key
  exact key.2 he

theorem goodB_split (nodes : List Node) : ∀ (pre : List Str) (x : Str) (post : List Str),
    GoodB nodes (pre ++ x :: post) → ∀ y, Edge nodes x y → y ∈ post := by
  intro pre
  induction pre with
  | nil => intro x post h y he; exact h.2.2 y he
  | cons a as ih => intro x post h y he; exact ih x post h.1 y he

/-- **Build order.**  On a graph that loaded without errors (`L` is the
    topological order `load_ok_topological` provides) and with an empty cache,
    the build terminates, misses no dependency, executes every rule at most
    once (`log.Nodup`), executes only nodes reachable from the targets, every
    node after all of its dependencies (the memo `built`, most recent first,
    has every dependency of an entry behind it; `log` is its sub-sequence of
    rules), and executes every rule reachable from the targets. -/
theorem build_order (nodes : List Node) (srcs L targets : List Str) (fuel : Nat)
    (hL : Good nodes srcs L) (ht : ∀ t ∈ targets, t ∈ L) (hreg : ∀ n ∈ nodes, n.typ ≠ .src)
    (hf : L.length ≤ fuel) :
    ∃ b, buildTargets nodes L fuel targets = some b ∧ b.missing = [] ∧
      b.log = b.built.filter (isRule nodes) ∧ b.built.Nodup ∧ b.log.Nodup ∧
      (∀ x ∈ b.built, ∃ t ∈ targets, Reach nodes t x) ∧
      (∀ pre x post, b.built = pre ++ x :: post → ∀ y, Edge nodes x y → y ∈ post) ∧
      (∀ t ∈ targets, ∀ x, Reach nodes t x → isRule nodes x = true → x ∈ b.log) := by
  unfold buildTargets
  have hfold := foldl_opt_ind_exists
    (fun t (s : BState) =>
      if s.missing ≠ [] then some s
      else match nodeOf nodes L t with
        | some ⟨_, .src, _⟩ => some s
        | _ => buildNode nodes L fuel t s)
    (fun done s => BInv nodes L s ∧ (∀ t ∈ done, t ∈ s.built ∨ findNode nodes t = none) ∧
      ∀ x ∈ s.built, ∃ t ∈ targets, Reach nodes t x)
    targets
    (fun done t s htm hp => by
      obtain ⟨hi, hdone, hreach⟩ := hp
      simp only [hi.missing, ne_eq, not_true_eq_false, if_false]
      obtain ⟨n, hno, _, _, hsrc⟩ := nodeOf_loaded nodes (L := L) (ht t htm)
      obtain ⟨nm, ty, ds⟩ := n
      have hbuild : ∃ s', buildNode nodes L fuel t s = some s' ∧
          (BInv nodes L s' ∧ (∀ t' ∈ done ++ [t], t' ∈ s'.built ∨ findNode nodes t' = none) ∧
            ∀ x ∈ s'.built, ∃ t ∈ targets, Reach nodes t x) := by
        obtain ⟨s', h1, hi', hin, added, hadd, hr⟩ :=
          buildNode_good nodes srcs L hL fuel L t s ⟨[], rfl⟩ (ht t htm) hf hi
        refine ⟨s', h1, hi', ?_, ?_⟩
        · intro t' ht'
          simp only [List.mem_append, List.mem_singleton] at ht'
          rcases ht' with ht' | rfl
          · rcases hdone t' ht' with h | h
            · left; rw [hadd]; simp [h]
            · right; exact h
          · left; exact hin
        · intro x hx
          rw [hadd] at hx
          simp only [List.mem_append] at hx
          rcases hx with hx | hx
          · exact ⟨t, htm, hr x hx⟩
          · exact hreach x hx
      cases ty with
      | src =>
        simp only [hno]
        refine ⟨s, rfl, hi, ?_, hreach⟩
        intro t' ht'
        simp only [List.mem_append, List.mem_singleton] at ht'
        rcases ht' with ht' | rfl
        · exact hdone t' ht'
        · right
          rcases hsrc rfl with h | ⟨m, hm, hty⟩
          · exact h
          · exact absurd hty (hreg m (findNode_mem hm).1)
      | rule => simp only [hno]; exact hbuild
      | out => simp only [hno]; exact hbuild)
    [] {} ⟨⟨rfl, trivial, rfl, by simp⟩, by simp, by simp⟩
  obtain ⟨b, h1, hi, hdone, hreach⟩ := hfold
  simp only [List.nil_append] at hdone
  refine ⟨b, h1, hi.missing, hi.log, goodB_nodup nodes _ hi.good, ?_, hreach, ?_, ?_⟩
  · rw [hi.log]; exact (goodB_nodup nodes _ hi.good).filter _
  · intro pre x post hsplit y he
    exact goodB_split nodes pre x post (hsplit ▸ hi.good) y he
  · intro t htm x hr hrule
    rw [hi.log, List.mem_filter]
    refine ⟨?_, hrule⟩
    rcases hdone t htm with h | h
    · exact goodB_reach nodes _ hi.good h hr
    · -- an unregistered target has no dependencies, so x = t, which is not a rule
      cases hr with
      | refl => simp [isRule, h] at hrule
      | step e _ => obtain ⟨m, hm, _⟩ := e; rw [h] at hm; simp at hm

/-- **Requested targets resolve against the right base**: an absolute target names the
    node from the workspace root whatever the work dir, a relative one stays under the work dir. -/
theorem targets_resolve (ws : List Seg) (hw : ∀ s ∈ ws, Plain s) (hne : ws ≠ []) (t : Str) :
    (isAbs t = true → resolveTargets (joinSegs ws) [t] = [joinSegs (cleanSegs true (split t))]) ∧
    (isAbs t = false → resolveTargets (joinSegs ws) [t] = [joinSegs (ws ++ cleanSegs true (split t))]) := by
  have hn : joinSegs ws ≠ [] := joinSegs_ne_nil ws hne hw
  unfold resolveTargets
  rw [if_neg hn]
  simp only [List.map_cons, List.map_nil, makePath_eq]
  constructor
  · intro h; rw [if_pos h]
  · intro h
    rw [h]
    simp only [Bool.false_eq_true, if_false]
    rw [makeRelPath_eq, cleanSegs_split_joinSegs true ws hw]

example : resolveTargets "a".toList ["/b/y".toList, "y".toList, "../x/y".toList] =
    ["b/y".toList, "a/y".toList, "a/x/y".toList] := by decide

/-- non-vacuity: a diamond with a file set; every rule once, dependencies first -/
example : run (fixedCfg false)
    ⟨["p".toList], [("p".toList, [.bundle "a".toList ["b".toList, "c".toList], .bundle "b".toList ["d".toList],
      .bundle "c".toList ["d".toList, "x.fileset".toList], .bundle "d".toList ["s".toList],
      .fileSet "x".toList ["s".toList] []])], ["p/s".toList]⟩ 20 ["p/a".toList] =
    .built ["p/d".toList, "p/b".toList, "p/x".toList, "p/c".toList, "p/a".toList]
      ["p/a".toList, "p/c".toList, "p/x.fileset".toList, "p/x".toList, "p/b".toList, "p/d".toList, "p/s".toList] := by
  decide

end PubModel.C11
