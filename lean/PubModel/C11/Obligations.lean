/-
C11 — obligations that connect the regenerated facts (`Gen.Caco3Loader`,
rewritten from /repo's source on every run) to the hand model: the AST shapes
the model mirrors.  All closed by `decide`.
-/
import PubModel.C11.Glue

namespace PubModel.C11
open PubModel.Gen

/-- the loader skips a directory it has already read (hypothesis of `read_terminates`) -/
theorem gen_dedup_dirs : genCfg.dedupDirs = true := by decide

/-- `load1`: push on the tracer first (a name on the stack is a cycle), pop on return,
    consult `loaded`, mark loaded only after the dependencies -/
theorem gen_load1_shape :
    Caco3Loader.pushFirst = true ∧ Caco3Loader.popDeferred = true ∧ Caco3Loader.loadedConsulted = true ∧
    Caco3Loader.loadedAfterDeps = true ∧ Caco3Loader.pushRejectsOnStack = true ∧
    Caco3Loader.popRemovesTop = true := by decide

/-- `register` rejects empty and duplicate names; errors of the reading pass and of the
    loading pass both stop the build -/
theorem gen_register_shape :
    Caco3Loader.registerRejectsEmpty = true ∧ Caco3Loader.registerRejectsDup = true ∧
    Caco3Loader.errorsStopBeforeLoad = true ∧ Caco3Loader.errorsStopAfterLoad = true := by decide

/-- directories are visited in sorted order, a file's nodes are registered before its sub-builds are read -/
theorem gen_read_shape :
    Caco3Loader.repoDirsSorted = true ∧ Caco3Loader.subDirsSorted = true ∧
    Caco3Loader.registerBeforeSubDirs = true := by decide

/-- `buildNode` consults and fills its memo and builds dependencies before the BUILD line -/
theorem gen_build_shape :
    Caco3Loader.buildMemoConsulted = true ∧ Caco3Loader.buildMemoFilled = true ∧
    Caco3Loader.depsBeforeBuild = true ∧ Caco3Loader.srcTargetContinues = true := by decide

/-- the rule kinds the model covers exist under these type names -/
theorem gen_rule_types :
    ("bundle", "Bundle") ∈ Caco3Loader.ruleTypes ∧ ("file_set", "FileSet") ∈ Caco3Loader.ruleTypes ∧
    ("sub_builds", "SubBuilds") ∈ Caco3Loader.ruleTypes := by decide

/-- the model has no cache: with nothing cached every node reached is executed, i.e. every node is its
    own cache key.  That abstraction is sound only if each rule's digest covers its package-qualified
    name, so that rules with the same local name in different packages never share an action digest. -/
theorem gen_digest_covers_qualified_name :
    Caco3Loader.digestNames ≠ [] ∧ ∀ d ∈ Caco3Loader.digestNames, d.2.2 = "qualified" := by decide

/-- reading one build file terminates (the model treats a file as a finite list of declarations):
    jsonx's recovery consumes a token for every error, also beyond the cap of the error list —
    `ErrorList.Add` goes to jail before the cap check, `parseSeries` skips the statement after a
    failed type name, `SkipErrStmt` advances -/
theorem gen_parse_recovery_consumes :
    Caco3Loader.errorJailBeforeCap = true ∧ Caco3Loader.parseSeriesSkipsBadStatement = true ∧
    Caco3Loader.skipErrStmtAdvances = true := by decide

end PubModel.C11
