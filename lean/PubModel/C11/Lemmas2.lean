/-
C11 — the DFS of `load1` is sound and complete: an error is recorded exactly
when a cycle or a dangling dependency is reachable.  Colours: white =
registered, grey = on the tracer stack, black = `loaded`.
-/
import PubModel.C11.Lemmas

namespace PubModel.C11
open PubModel.C12

/-! ### more folds -/

theorem foldl_opt_some_ind {α σ : Type} (g : α → σ → Option σ) (P : List α → σ → Prop)
    (h : ∀ pre d s s', g d s = some s' → P pre s → P (pre ++ [d]) s') :
    ∀ (l pre : List α) (s s' : σ), l.foldl (optStep g) (some s) = some s' → P pre s → P (pre ++ l) s' := by
  intro l
  induction l with
  | nil => intro pre s s' hf hp; simp at hf; subst hf; simpa using hp
  | cons a as ih =>
    intro pre s s' hf hp
    simp only [List.foldl_cons, optStep] at hf
    cases hg : g a s with
    | none => rw [hg, foldl_optStep_none] at hf; simp at hf
    | some s1 =>
      rw [hg] at hf
      have := ih (pre ++ [a]) s1 s' hf (h pre a s s1 hg hp)
      simpa using this

theorem foldl_opt_some_inv {α σ : Type} (g : α → σ → Option σ) (P : σ → Prop) (l : List α)
    (h : ∀ d ∈ l, ∀ s s', g d s = some s' → P s → P s') :
    ∀ (s s' : σ), l.foldl (optStep g) (some s) = some s' → P s → P s' := by
  induction l with
  | nil => intro s s' hf hp; simp at hf; subst hf; exact hp
  | cons a as ih =>
    intro s s' hf hp
    simp only [List.foldl_cons, optStep] at hf
    cases hg : g a s with
    | none => rw [hg, foldl_optStep_none] at hf; simp at hf
    | some s1 =>
      rw [hg] at hf
      exact ih (fun d hd => h d (by simp [hd])) s1 s' hf (h a (by simp) s s1 hg hp)

/-- whatever the fuel, a returning `load1` leaves nodes and stack alone and only extends `loaded`, `errs` -/
theorem load1_frame (srcs : List Str) :
    ∀ fuel name st st', load1 srcs fuel name st = some st' → Frame st st' := by
  intro fuel
  induction fuel with
  | zero => intro name st st' h; simp [load1] at h
  | succ k ih =>
    intro name st st' h
    unfold load1 at h
    by_cases hs : name ∈ st.stack
    · simp only [hs, if_true] at h
      injection h with h; subst h
      exact ⟨rfl, rfl, ⟨[], rfl⟩, ⟨_, rfl⟩⟩
    · simp only [hs, if_false] at h
      by_cases hl : name ∈ st.loaded
      · simp only [hl, if_true] at h
        injection h with h; subst h
        exact Frame.refl _
      · simp only [hl, if_false] at h
        cases hf : findNode st.nodes name with
        | some n =>
          simp only [hf] at h
          cases hfold : n.deps.foldl (optStep (fun d s => load1 srcs k d s))
              (some { st with stack := name :: st.stack }) with
          | none => simp [hfold] at h
          | some st2 =>
            simp only [hfold] at h
            injection h with h; subst h
            have := foldl_opt_some_inv (fun d s => load1 srcs k d s)
              (fun s => Frame { st with stack := name :: st.stack } s) n.deps
              (fun d _ s s' hg hp => hp.trans (ih d s s' hg)) _ st2 hfold (Frame.refl _)
            obtain ⟨hn, _, ⟨l, hl'⟩, ⟨e, he⟩⟩ := this
            exact ⟨hn, rfl, ⟨name :: l, by simp [hl']⟩, ⟨e, he⟩⟩
        | none =>
          simp only [hf] at h
          by_cases hsrc : name ∈ srcs
          · simp only [hsrc, if_true] at h
            injection h with h; subst h
            exact ⟨rfl, rfl, ⟨[name], rfl⟩, ⟨[], by simp⟩⟩
          · simp only [hsrc, if_false] at h
            injection h with h; subst h
            exact ⟨rfl, rfl, ⟨[], rfl⟩, ⟨_, rfl⟩⟩

/-! ### the dependency graph -/

section Graph
variable (nodes : List Node) (srcs : List Str)

/-- `b` is a dependency of the registered node `a` -/
def Edge (a b : Str) : Prop := ∃ n, findNode nodes a = some n ∧ b ∈ n.deps

inductive Reach : Str → Str → Prop where
  | refl (a : Str) : Reach a a
  | step {a b c : Str} : Edge nodes a b → Reach b c → Reach a c

/-- `x` lies on a dependency cycle -/
def OnCycle (x : Str) : Prop := ∃ y, Reach nodes x y ∧ Edge nodes y x

/-- neither a registered node nor a source file -/
def Dangling (x : Str) : Prop := findNode nodes x = none ∧ x ∉ srcs

theorem Reach.tail {a b c : Str} (h : Reach nodes a b) (e : Edge nodes b c) : Reach nodes a c := by
  induction h with
  | refl a => exact .step e (.refl _)
  | step e' _ ih => exact .step e' (ih e)

theorem Reach.trans {a b c : Str} (h : Reach nodes a b) (h2 : Reach nodes b c) : Reach nodes a c := by
  induction h with
  | refl a => exact h2
  | step e' _ ih => exact .step e' (ih h2)

/-- the tracer stack (top first) is a dependency path -/
def Chain : List Str → Prop
  | [] => True
  | [_] => True
  | x :: y :: rest => Edge nodes y x ∧ Chain (y :: rest)

theorem chain_reach : ∀ (stk : List Str) (top : Str), Chain nodes (top :: stk) →
    ∀ x ∈ top :: stk, Reach nodes x top := by
  intro stk
  induction stk with
  | nil => intro top _ x hx; simp at hx; subst hx; exact .refl _
  | cons y rest ih =>
    intro top hc x hx
    simp only [Chain] at hc
    simp only [List.mem_cons] at hx
    rcases hx with rfl | hx
    · exact .refl _
    · have := ih y hc.2 x (by simpa using hx)
      exact this.tail nodes hc.1

theorem chain_push {stk : List Str} {name : Str} (hc : Chain nodes stk)
    (he : ∀ top, stk.head? = some top → Edge nodes top name) : Chain nodes (name :: stk) := by
  cases stk with
  | nil => simp [Chain]
  | cons t rest => exact ⟨he t rfl, hc⟩

/-- an error justified by the graph: a reachable node on a cycle, or a reachable dangling name -/
def BadFrom (name : Str) (e : LErr) : Prop :=
  ∃ x, Reach nodes name x ∧
    ((∃ stk, e = .cycle x stk) ∧ OnCycle nodes x ∨ e = .dangling x ∧ Dangling nodes srcs x)

theorem BadFrom.lift {a b : Str} {e : LErr} (he : Edge nodes a b) (h : BadFrom nodes srcs b e) :
    BadFrom nodes srcs a e := by
  obtain ⟨x, hr, hx⟩ := h
  exact ⟨x, .step he hr, hx⟩

/-- **Soundness of the DFS**: every error `load1` adds is justified by the graph. -/
theorem load1_sound :
    ∀ fuel name (st st' : LState), st.nodes = nodes → Chain nodes st.stack →
      (∀ top, st.stack.head? = some top → Edge nodes top name) →
      load1 srcs fuel name st = some st' →
      ∀ e ∈ st'.errs, e ∈ st.errs ∨ BadFrom nodes srcs name e := by
  intro fuel
  induction fuel with
  | zero => intro name st st' _ _ _ h; simp [load1] at h
  | succ k ih =>
    intro name st st' hn hc htop h
    unfold load1 at h
    by_cases hs : name ∈ st.stack
    · simp only [hs, if_true] at h
      injection h with h; subst h
      intro e he
      simp only [List.mem_append, List.mem_singleton] at he
      rcases he with he | rfl
      · exact Or.inl he
      · right
        refine ⟨name, .refl _, Or.inl ⟨⟨_, rfl⟩, ?_⟩⟩
        cases hstk : st.stack with
        | nil => rw [hstk] at hs; simp at hs
        | cons top rest =>
          rw [hstk] at hc hs htop
          exact ⟨top, chain_reach nodes rest top hc name hs, htop top rfl⟩
    · simp only [hs, if_false] at h
      by_cases hl : name ∈ st.loaded
      · simp only [hl, if_true] at h
        injection h with h; subst h
        exact fun e he => Or.inl he
      · simp only [hl, if_false] at h
        cases hf : findNode st.nodes name with
        | some n =>
          simp only [hf] at h
          cases hfold : n.deps.foldl (optStep (fun d s => load1 srcs k d s))
              (some { st with stack := name :: st.stack }) with
          | none => simp [hfold] at h
          | some st2 =>
            simp only [hfold] at h
            injection h with h; subst h
            have := foldl_opt_some_inv (fun d s => load1 srcs k d s)
              (fun s => Frame { st with stack := name :: st.stack } s ∧
                ∀ e ∈ s.errs, e ∈ st.errs ∨ BadFrom nodes srcs name e) n.deps
              (fun d hd s s' hg hp => by
                have hfr := load1_frame srcs k d s s' hg
                refine ⟨hp.1.trans hfr, ?_⟩
                have hedge : Edge nodes name d := ⟨n, by rw [← hn]; exact hf, hd⟩
                have := ih d s s' (by rw [hp.1.nodes]; exact hn)
                  (by rw [hp.1.stack]; exact chain_push nodes hc htop)
                  (by rw [hp.1.stack]; intro top ht; simp at ht; subst ht; exact hedge) hg
                intro e he
                rcases this e he with h1 | h1
                · exact hp.2 e h1
                · exact Or.inr (h1.lift nodes srcs hedge))
              _ st2 hfold ⟨Frame.refl _, fun e he => Or.inl he⟩
            exact this.2
        | none =>
          simp only [hf] at h
          by_cases hsrc : name ∈ srcs
          · simp only [hsrc, if_true] at h
            injection h with h; subst h
            exact fun e he => Or.inl he
          · simp only [hsrc, if_false] at h
            injection h with h; subst h
            intro e he
            simp only [List.mem_append, List.mem_singleton] at he
            rcases he with he | rfl
            · exact Or.inl he
            · exact Or.inr ⟨name, .refl _, Or.inr ⟨rfl, by rw [← hn]; exact hf, hsrc⟩⟩

/-! ### completeness: the `loaded` list is a topological order -/

/-- most recent first: every entry is new, is a source file or a registered node whose
    dependencies were all loaded before it -/
def Good : List Str → Prop
  | [] => True
  | x :: l => Good l ∧ x ∉ l ∧
      (match findNode nodes x with
       | some n => ∀ d ∈ n.deps, d ∈ l
       | none => x ∈ srcs)

theorem good_closed : ∀ (l : List Str), Good nodes srcs l → ∀ x ∈ l, ∀ y, Edge nodes x y → y ∈ l := by
  intro l
  induction l with
  | nil => intro _ x hx; simp at hx
  | cons a as ih =>
    intro hg x hx y he
    obtain ⟨hg1, _, hg3⟩ := hg
    simp only [List.mem_cons] at hx
    rcases hx with rfl | hx
    · obtain ⟨n, hf, hy⟩ := he
      rw [hf] at hg3
      exact List.mem_cons_of_mem _ (hg3 y hy)
    · exact List.mem_cons_of_mem _ (ih hg1 x hx y he)

theorem good_reach (l : List Str) (hg : Good nodes srcs l) {x y : Str} (hx : x ∈ l) (h : Reach nodes x y) :
    y ∈ l := by
  induction h with
  | refl a => exact hx
  | step e _ ih => exact ih (good_closed nodes srcs l hg _ hx _ e)

theorem good_no_dangling : ∀ (l : List Str), Good nodes srcs l → ∀ x ∈ l, ¬ Dangling nodes srcs x := by
  intro l
  induction l with
  | nil => intro _ x hx; simp at hx
  | cons a as ih =>
    intro hg x hx hd
    obtain ⟨hg1, _, hg3⟩ := hg
    simp only [List.mem_cons] at hx
    rcases hx with rfl | hx
    · rw [hd.1] at hg3
      exact hd.2 hg3
    · exact ih hg1 x hx hd

theorem good_acyclic : ∀ (l : List Str), Good nodes srcs l → ∀ x ∈ l, ¬ OnCycle nodes x := by
  intro l
  induction l with
  | nil => intro _ x hx; simp at hx
  | cons a as ih =>
    intro hg x hx hc
    have hg' := hg
    obtain ⟨hg1, hg2, hg3⟩ := hg
    simp only [List.mem_cons] at hx
    rcases hx with rfl | hx
    · obtain ⟨y, hr, he⟩ := hc
      cases hr with
      | refl =>
        obtain ⟨n, hf, hy⟩ := he
        rw [hf] at hg3
        exact hg2 (hg3 _ hy)
      | step e1 r1 =>
        obtain ⟨n, hf, hb⟩ := e1
        rw [hf] at hg3
        have hy := good_reach nodes srcs as hg1 (hg3 _ hb) r1
        exact hg2 (good_closed nodes srcs as hg1 _ hy _ he)
    · exact ih hg1 x hx hc

theorem errs_eq_of_frames {a b c : LState} (h1 : Frame a b) (h2 : Frame b c) (h : c.errs = a.errs) :
    b.errs = a.errs ∧ c.errs = b.errs := by
  obtain ⟨_, _, _, ⟨e1, he1⟩⟩ := h1
  obtain ⟨_, _, _, ⟨e2, he2⟩⟩ := h2
  rw [he2, he1, List.append_assoc] at h
  have : e1 ++ e2 = [] := by
    have := List.append_cancel_left (as := a.errs) (bs := e1 ++ e2) (cs := []) (by simpa using h)
    exact this
  have h1' : e1 = [] := (List.append_eq_nil_iff.mp this).1
  have h2' : e2 = [] := (List.append_eq_nil_iff.mp this).2
  subst h1'; subst h2'
  simp [he1, he2]

/-- **Completeness of the DFS**: a call that records no error leaves a
    topologically ordered `loaded` containing the name. -/
theorem load1_complete :
    ∀ fuel name (st st' : LState), st.nodes = nodes →
      load1 srcs fuel name st = some st' → st'.errs = st.errs →
      Good nodes srcs st.loaded → (∀ x ∈ st.stack, x ∉ st.loaded) →
      Good nodes srcs st'.loaded ∧ name ∈ st'.loaded ∧ (∀ x ∈ st.stack, x ∉ st'.loaded) := by
  intro fuel
  induction fuel with
  | zero => intro name st st' _ h; simp [load1] at h
  | succ k ih =>
    intro name st st' hn h herr hgood hdisj
    unfold load1 at h
    by_cases hs : name ∈ st.stack
    · simp only [hs, if_true] at h
      injection h with h; subst h
      simp at herr
    · simp only [hs, if_false] at h
      by_cases hl : name ∈ st.loaded
      · simp only [hl, if_true] at h
        injection h with h; subst h
        exact ⟨hgood, hl, hdisj⟩
      · simp only [hl, if_false] at h
        cases hf : findNode st.nodes name with
        | some n =>
          simp only [hf] at h
          cases hfold : n.deps.foldl (optStep (fun d s => load1 srcs k d s))
              (some { st with stack := name :: st.stack }) with
          | none => simp [hfold] at h
          | some st2 =>
            simp only [hfold] at h
            injection h with h; subst h
            simp only at herr
            let st1 : LState := { st with stack := name :: st.stack }
            have hfr2 : Frame st1 st2 := foldl_opt_some_inv (fun d s => load1 srcs k d s)
              (fun s => Frame st1 s) n.deps
              (fun d _ s s' hg hp => hp.trans (load1_frame srcs k d s s' hg)) _ st2 hfold (Frame.refl _)
            have key := foldl_opt_some_ind (fun d s => load1 srcs k d s)
              (fun pre s => Frame st1 s ∧ (s.errs = st.errs →
                Good nodes srcs s.loaded ∧ (∀ x ∈ name :: st.stack, x ∉ s.loaded) ∧ ∀ d ∈ pre, d ∈ s.loaded))
              (fun pre d s s' hg hp => by
                have hfr := load1_frame srcs k d s s' hg
                refine ⟨hp.1.trans hfr, ?_⟩
                intro he'
                have hee := errs_eq_of_frames hp.1 hfr (by simpa [st1] using he')
                have hs0 : s.errs = st.errs := by simpa [st1] using hee.1
                obtain ⟨hg0, hd0, hp0⟩ := hp.2 hs0
                have := ih d s s' (by rw [hp.1.nodes]; exact hn) hg hee.2 hg0
                  (by rw [hp.1.stack]; exact hd0)
                refine ⟨this.1, ?_, ?_⟩
                · have h3 := this.2.2
                  rw [hp.1.stack] at h3
                  exact h3
                · intro d' hd'
                  simp only [List.mem_append, List.mem_singleton] at hd'
                  rcases hd' with hd' | rfl
                  · exact hfr.loaded_sub _ (hp0 d' hd')
                  · exact this.2.1)
              n.deps [] st1 st2 hfold
              ⟨Frame.refl _, fun _ => ⟨hgood, by
                intro x hx
                simp only [List.mem_cons] at hx
                rcases hx with rfl | hx
                · exact hl
                · exact hdisj x hx, by simp⟩⟩
            simp only [List.nil_append] at key
            obtain ⟨hg2, hd2, hp2⟩ := key.2 herr
            refine ⟨⟨hg2, hd2 name (by simp), ?_⟩, by simp, ?_⟩
            · rw [← hn, hf]
              exact hp2
            · intro x hx
              simp only [List.mem_cons, not_or]
              exact ⟨fun e => hs (e ▸ hx), hd2 x (by simp [hx])⟩
        | none =>
          simp only [hf] at h
          by_cases hsrc : name ∈ srcs
          · simp only [hsrc, if_true] at h
            injection h with h; subst h
            refine ⟨⟨hgood, hl, ?_⟩, by simp, ?_⟩
            · rw [← hn, hf]; exact hsrc
            · intro x hx
              simp only [List.mem_cons, not_or]
              exact ⟨fun e => hs (e ▸ hx), hdisj x hx⟩
          · simp only [hsrc, if_false] at h
            injection h with h; subst h
            simp at herr

end Graph

end PubModel.C11
