/-
C11 — caco3 loader and build order.

* `collect`   : `loader.readBuildFile` — recursive reading of build files over
                sub-build directories (sorted, de-duplicated per file), as the
                sequence of registration events it produces;
* `register`  : empty and duplicate names;
* `load1`     : DFS with the on-stack tracer and the `loaded` memo,
                auto-registration of source files;
* `buildNode` : dependencies first, memo per build (empty cache: every node
                reached is executed).

Non-structural Go recursion carries fuel; `none` = out of fuel, so that
termination is a theorem.  Names are resolved with the C12 path model
(`makeRelPath`, `makePath`).  Rules are bundles and file sets with explicit
files (the rule kinds that build without docker).

Go sources mirrored (hash-tracked): caco3/loader.go (loader.register, load,
load1, registerOuts, readBuildFile, loadNodes), caco3/load_tracer.go,
caco3/build_file.go (readBuildFile: "rule has no name", a file with an error
contributes nothing), caco3/sub_builds.go, caco3/builder.go (buildNodes,
buildNode: recursion and memo; digests and the cache are C10's).
-/
import PubModel.C12.Model

namespace PubModel.C11
open PubModel.C12

/-! ### declarations and nodes -/

inductive Decl where
  | bundle (name : Str) (deps : List Str)
  | fileSet (name : Str) (files : List Str) (includes : List Str)
  | sub (dirs : List Str)
  /-- a rule with one explicit output (`download`): no dependencies, `Output` resolved in the package -/
  | download (name : Str) (output : Str)
  /-- `n` statements that jsonx rejects (syntax errors, unknown rule types, unknown fields) -/
  | garbage (n : Nat)
  deriving DecidableEq, Repr

inductive NTyp where
  | rule | out | src
  deriving DecidableEq, Repr

structure Node where
  name : Str
  typ : NTyp
  deps : List Str
  deriving DecidableEq, Repr

/-- a workspace as the loader sees it -/
structure Ws where
  /-- keys of `repo_map.Src`, any order -/
  repoDirs : List Str
  /-- directory ↦ declarations of its BUILD.caco3 (first entry wins; absent = no build file) -/
  files : List (Str × List Decl)
  /-- names of the regular files under `<root>/src` -/
  srcs : List Str

structure Cfg where
  /-- the loader remembers the directories it has read and skips a repeat -/
  dedupDirs : Bool
  /-- `Include` names are resolved with `makePath` -/
  includeResolved : Bool

inductive LErr where
  | syntax (dir : Str)          -- jsonx.ReadSeriesFile: the build file does not parse (the whole file is dropped)
  | noName (dir : Str)          -- build_file.go: "rule has no name" (the whole file is dropped)
  | emptyName                   -- register: "node name is empty"
  | dup (name : Str)            -- register: "node with name … redeclared"
  | cycle (name : Str) (stack : List Str)   -- load1: "has circular dependency"
  | dangling (name : Str)       -- load1: "stat …" / "cannot resolve …"
  deriving DecidableEq, Repr

/-! ### folds that thread an optional state (`none` = out of fuel) -/

def optStep {α σ : Type} (g : α → σ → Option σ) (acc : Option σ) (d : α) : Option σ :=
  match acc with
  | none => none
  | some s => g d s

/-! ### reading build files -/

/-- one registration event of `loader.readBuildFile` -/
inductive Ev where
  | reg (n : Node)
  | fileErr (dir : Str)
  | syntaxErr (dir : Str)
  deriving DecidableEq, Repr

def isGarbage : Decl → Bool
  | .garbage n => n != 0
  | _ => false

def lookupFile (ws : Ws) (p : Str) : Option (List Decl) :=
  (ws.files.find? (fun f => f.1 = p)).map (·.2)

/-- `readBuildFile(env, p)`: the nodes of one file in declaration order (a rule
    followed by its outputs) and its sub-build directories; `none` = the file
    has an error and contributes nothing -/
def resolveFile (cfg : Cfg) (p : Str) : List Decl → Option (List Node × List Str)
  | [] => some ([], [])
  | d :: rest =>
    match resolveFile cfg p rest with
    | none =>
      none
    | some (ns, subs) =>
      match d with
      | .bundle name deps =>
        let nm := makeRelPath p name
        if nm = p ∨ nm = [] then none
        else some (⟨nm, .rule, deps.map (makePath p)⟩ :: ns, subs)
      | .fileSet name files incs =>
        let nm := makeRelPath p name
        if nm = p ∨ nm = [] then none
        else
          let incs' := if cfg.includeResolved then incs.map (makePath p) else incs
          some (⟨nm, .rule, sortDedup (files.map (makePath p)) ++ incs'⟩ ::
                ⟨nm ++ filesetSuffix, .out, [nm]⟩ :: ns, subs)
      | .download name output =>
        let nm := makeRelPath p name
        if nm = p ∨ nm = [] then none
        else some (⟨nm, .rule, []⟩ :: ⟨makeRelPath p output, .out, [nm]⟩ :: ns, subs)
      | .sub dirs => some (ns, dirs.map (makeRelPath p) ++ subs)
      | .garbage _ => some (ns, subs)

/-- `loader.readBuildFile(p)` as the list of events it produces, threading the
    set of directories already read (used only by the repaired loader) -/
def collect (cfg : Cfg) (ws : Ws) : Nat → Str → List Str → Option (List Ev × List Str)
  | 0, _, _ => none
  | fuel + 1, p, seen =>
    if cfg.dedupDirs ∧ p ∈ seen then some ([], seen)
    else
      let seen := if cfg.dedupDirs then p :: seen else seen
      match lookupFile ws p with
      | none => some ([], seen)
      | some decls =>
        -- jsonx parses the whole file first: any rejected statement drops the file
        if decls.any isGarbage then some ([.syntaxErr p], seen)
        else
        match resolveFile cfg p decls with
        | none => some ([.fileErr p], seen)
        | some (ns, subs) =>
          (sortDedup subs).foldl (optStep (fun d (acc : List Ev × List Str) =>
              (collect cfg ws fuel d acc.2).map (fun r => (acc.1 ++ r.1, r.2)))) (some (ns.map .reg, seen))

/-- all repo directories, sorted -/
def collectAll (cfg : Cfg) (ws : Ws) (fuel : Nat) : Option (List Ev) :=
  ((sortDedup ws.repoDirs).foldl (optStep (fun d (acc : List Ev × List Str) =>
      (collect cfg ws fuel d acc.2).map (fun r => (acc.1 ++ r.1, r.2)))) (some ([], []))).map (·.1)

/-! ### registration -/

structure LState where
  nodes : List Node := []
  /-- finished nodes, most recent first (a map in Go: only membership is observable) -/
  loaded : List Str := []
  /-- the tracer, top first -/
  stack : List Str := []
  errs : List LErr := []

def findNode (nodes : List Node) (name : Str) : Option Node := nodes.find? (fun n => n.name = name)

/-- `loader.register` -/
def register (st : LState) (n : Node) : LState :=
  if n.name = [] then { st with errs := st.errs ++ [.emptyName] }
  else if (findNode st.nodes n.name).isSome then { st with errs := st.errs ++ [.dup n.name] }
  else { st with nodes := st.nodes ++ [n] }

def applyEv (st : LState) : Ev → LState
  | .reg n => register st n
  | .fileErr d => { st with errs := st.errs ++ [.noName d] }
  | .syntaxErr d => { st with errs := st.errs ++ [.syntax d] }

def registerAll (evs : List Ev) : LState := evs.foldl applyEv {}

/-! ### loading -/

/-- `loader.load1(name)`.  The auto-registered source node enters `loaded`
    at once and `loaded` is consulted before `nodes`, so it is kept in `loaded`
    only (it has no dependencies). -/
def load1 (srcs : List Str) : Nat → Str → LState → Option LState
  | 0, _, _ => none
  | fuel + 1, name, st =>
    if name ∈ st.stack then
      some { st with errs := st.errs ++ [.cycle name st.stack] }
    else if name ∈ st.loaded then some st
    else
      match findNode st.nodes name with
      | some n =>
        match n.deps.foldl (optStep (fun d s => load1 srcs fuel d s)) (some { st with stack := name :: st.stack }) with
        | none => none
        | some st' => some { st' with stack := st.stack, loaded := name :: st'.loaded }
      | none =>
        if name ∈ srcs then some { st with loaded := name :: st.loaded }
        else some { st with errs := st.errs ++ [.dangling name] }

/-- `loader.load(names)` -/
def loadList (srcs : List Str) (fuel : Nat) (names : List Str) (st : LState) : Option LState :=
  names.foldl (optStep (fun d s => load1 srcs fuel d s)) (some st)

/-! ### building -/

structure BState where
  built : List Str := []     -- memo, most recently completed first
  log : List Str := []       -- `BUILD <name>` lines, most recent first
  missing : List Str := []   -- "dep … not found"
  deriving DecidableEq, Repr

/-- the node map handed to the builder: registered nodes and loaded sources -/
def nodeOf (nodes : List Node) (loaded : List Str) (name : Str) : Option Node :=
  if name ∈ loaded then
    match findNode nodes name with
    | some n => some n
    | none => some ⟨name, .src, []⟩
  else none

/-- `Builder.buildNode` with an empty cache -/
def buildNode (nodes : List Node) (loaded : List Str) : Nat → Str → BState → Option BState
  | 0, _, _ => none
  | fuel + 1, name, st =>
    if name ∈ st.built then some st
    else
      match nodeOf nodes loaded name with
      | none => some { st with missing := st.missing ++ [name] }
      | some n =>
        match n.deps.foldl (optStep (fun d (s : BState) =>
                if s.missing ≠ [] then some s else buildNode nodes loaded fuel d s)) (some st) with
        | none => none
        | some st' =>
          if st'.missing ≠ [] then some st'
          else some { st' with built := name :: st'.built,
                               log := if n.typ = .rule then name :: st'.log else st'.log }

/-- `Builder.buildNodes`: the targets in order; a source target is only logged as such -/
def buildTargets (nodes : List Node) (loaded : List Str) (fuel : Nat) (targets : List Str) : Option BState :=
  targets.foldl (optStep (fun t (s : BState) =>
      if s.missing ≠ [] then some s
      else
        match nodeOf nodes loaded t with
        | some ⟨_, .src, _⟩ => some s
        | _ => buildNode nodes loaded fuel t s)) (some {})

/-! ### `loadNodes` + `Build` -/

inductive Outcome where
  | outOfFuel
  | failed (errs : List LErr)
  | built (log : List Str) (loaded : List Str)
  deriving DecidableEq, Repr

/-- A rule whose execution fails: the BUILD line is logged, `buildNode` returns the error and every
    caller up to `Build` returns it, so the log of the build is the log of the same build without
    failures cut after the first failing rule (`none`: no rule of `bad` was executed). -/
def truncateAtFailure (bad : List Str) : List Str → Option (List Str)
  | [] => none
  | x :: rest =>
    if x ∈ bad then some [x]
    else (truncateAtFailure bad rest).map (x :: ·)

/-- `Builder.Build`: with the builder started in `<root>/src/<w>` the requested
    targets are resolved with `makePath w` (absolute: from the workspace root,
    relative: from the work dir); from the workspace root they are node names -/
def resolveTargets (w : Str) (targets : List Str) : List Str :=
  if w = [] then targets else targets.map (makePath w)

def run (cfg : Cfg) (ws : Ws) (fuel : Nat) (targets : List Str) : Outcome :=
  match collectAll cfg ws fuel with
  | none => .outOfFuel
  | some evs =>
    let st := registerAll evs
    if st.errs ≠ [] then .failed st.errs
    else
      match loadList ws.srcs fuel targets st with
      | none => .outOfFuel
      | some st' =>
        if st'.errs ≠ [] then .failed st'.errs
        else
          match buildTargets st'.nodes st'.loaded fuel targets with
          | none => .outOfFuel
          | some b => .built b.log.reverse st'.loaded

end PubModel.C11
