/-
C11 — registration (duplicates, unnamed rules) and independence of the
declaration order.
-/
import PubModel.C11.Lemmas2

namespace PubModel.C11
open PubModel.C12

/-! ### registration only ever adds errors and nodes -/

theorem applyEv_errs (st : LState) (ev : Ev) : ∃ more, (applyEv st ev).errs = st.errs ++ more := by
  cases ev with
  | reg n =>
    simp only [applyEv, register]
    split
    · exact ⟨_, rfl⟩
    · split
      · exact ⟨_, rfl⟩
      · exact ⟨[], by simp⟩
  | fileErr d => exact ⟨_, rfl⟩
  | syntaxErr d => exact ⟨_, rfl⟩

theorem foldl_applyEv_errs (evs : List Ev) : ∀ st, ∃ more, (evs.foldl applyEv st).errs = st.errs ++ more := by
  induction evs with
  | nil => intro st; exact ⟨[], by simp⟩
  | cons a as ih =>
    intro st
    obtain ⟨m1, h1⟩ := applyEv_errs st a
    obtain ⟨m2, h2⟩ := ih (applyEv st a)
    exact ⟨m1 ++ m2, by simp [h2, h1]⟩

theorem foldl_applyEv_errs_ne (evs : List Ev) (st : LState) (h : st.errs ≠ []) :
    (evs.foldl applyEv st).errs ≠ [] := by
  obtain ⟨m, hm⟩ := foldl_applyEv_errs evs st
  rw [hm]
  simp [h]

theorem findNode_append {l m : List Node} {x : Str} (h : (findNode l x).isSome) :
    (findNode (l ++ m) x).isSome := by
  unfold findNode at h ⊢
  rw [List.find?_append]
  cases hf : List.find? (fun n => decide (n.name = x)) l with
  | none => simp [hf] at h
  | some n => simp

theorem applyEv_found (st : LState) (ev : Ev) (x : Str) (h : (findNode st.nodes x).isSome) :
    (findNode (applyEv st ev).nodes x).isSome := by
  cases ev with
  | reg n =>
    simp only [applyEv, register]
    split
    · exact h
    · split
      · exact h
      · exact findNode_append h
  | fileErr d => exact h
  | syntaxErr d => exact h

theorem foldl_applyEv_found (evs : List Ev) : ∀ (st : LState) (x : Str), (findNode st.nodes x).isSome →
    (findNode (evs.foldl applyEv st).nodes x).isSome := by
  induction evs with
  | nil => intro st x h; exact h
  | cons a as ih => intro st x h; exact ih _ x (applyEv_found st a x h)

/-- registering a node leaves an error or the node findable under its name -/
theorem register_err_or_found (st : LState) (n : Node) :
    (register st n).errs ≠ [] ∨ (findNode (register st n).nodes n.name).isSome := by
  unfold register
  split
  · left; simp
  · split
    · left; simp
    · rename_i h1 h2
      right
      unfold findNode
      rw [List.find?_append]
      simp only [Bool.not_eq_true, Option.isSome_eq_false_iff, Option.isNone_iff_eq_none] at h2
      unfold findNode at h2
      simp [h2]

theorem register_found_err (st : LState) (m : Node) (h : (findNode st.nodes m.name).isSome) :
    (register st m).errs ≠ [] := by
  unfold register
  split
  · simp
  · simp

/-- **Unnamed rules, empty names and duplicated names are reported** by the registration pass. -/
theorem registerAll_reports (evs : List Ev)
    (h : ((∃ d, Ev.fileErr d ∈ evs) ∨ (∃ d, Ev.syntaxErr d ∈ evs)) ∨ (∃ n, Ev.reg n ∈ evs ∧ n.name = []) ∨
      (∃ a n b m c, evs = a ++ [Ev.reg n] ++ b ++ [Ev.reg m] ++ c ∧ n.name = m.name)) :
    (registerAll evs).errs ≠ [] := by
  unfold registerAll
  rcases h with (⟨d, hd⟩ | ⟨d, hd⟩) | ⟨n, hn, he⟩ | ⟨a, n, b, m, c, rfl, hnm⟩
  · obtain ⟨a, c, rfl⟩ := List.append_of_mem hd
    rw [List.foldl_append, List.foldl_cons]
    apply foldl_applyEv_errs_ne
    simp [applyEv]
  · obtain ⟨a, c, rfl⟩ := List.append_of_mem hd
    rw [List.foldl_append, List.foldl_cons]
    apply foldl_applyEv_errs_ne
    simp [applyEv]
  · obtain ⟨a, c, rfl⟩ := List.append_of_mem hn
    rw [List.foldl_append, List.foldl_cons]
    apply foldl_applyEv_errs_ne
    simp [applyEv, register, he]
  · simp only [List.foldl_append, List.foldl_cons, List.foldl_nil]
    apply foldl_applyEv_errs_ne
    generalize List.foldl applyEv {} a = s1
    rcases register_err_or_found s1 n with h1 | h1
    · have h2 := foldl_applyEv_errs_ne b (applyEv s1 (.reg n)) h1
      obtain ⟨more, hm⟩ := applyEv_errs (List.foldl applyEv (applyEv s1 (.reg n)) b) (.reg m)
      rw [hm]; simp [h2]
    · have h2 := foldl_applyEv_found b (applyEv s1 (.reg n)) n.name h1
      generalize List.foldl applyEv (applyEv s1 (.reg n)) b = s2 at h2 ⊢
      exact register_found_err s2 m (hnm ▸ h2)

/-! ### the order of registration does not matter -/

theorem name_inj_of_nodup : ∀ (l : List Node), (l.map (·.name)).Nodup →
    ∀ a ∈ l, ∀ b ∈ l, a.name = b.name → a = b := by
  intro l
  induction l with
  | nil => intro _ a ha; simp at ha
  | cons x xs ih =>
    intro hnd a ha b hb hab
    simp only [List.map_cons, List.nodup_cons] at hnd
    simp only [List.mem_cons] at ha hb
    rcases ha with rfl | ha <;> rcases hb with rfl | hb
    · rfl
    · exact absurd (List.mem_map.mpr ⟨b, hb, hab.symm⟩) hnd.1
    · exact absurd (List.mem_map.mpr ⟨a, ha, hab⟩) hnd.1
    · exact ih hnd.2 a ha b hb hab

theorem findNode_eq_some_iff (l : List Node) (hnd : (l.map (·.name)).Nodup) (x : Str) (n : Node) :
    findNode l x = some n ↔ n ∈ l ∧ n.name = x := by
  constructor
  · exact findNode_mem
  · rintro ⟨hm, hx⟩
    cases hf : findNode l x with
    | none =>
      unfold findNode at hf
      have := List.find?_eq_none.mp hf n hm
      simp [hx] at this
    | some n' =>
      obtain ⟨hm', hx'⟩ := findNode_mem hf
      rw [name_inj_of_nodup l hnd n' hm' n hm (by rw [hx', hx])]

/-- look-ups by name see the same node in any permutation of a duplicate-free registration -/
theorem findNode_perm (l l' : List Node) (hp : l.Perm l') (hnd : (l.map (·.name)).Nodup) (x : Str) :
    findNode l x = findNode l' x := by
  have hnd' : (l'.map (·.name)).Nodup := (hp.map _).nodup_iff.mp hnd
  cases hf : findNode l x with
  | some n =>
    have := (findNode_eq_some_iff l hnd x n).mp hf
    exact ((findNode_eq_some_iff l' hnd' x n).mpr ⟨hp.mem_iff.mp this.1, this.2⟩).symm
  | none =>
    cases hf' : findNode l' x with
    | none => rfl
    | some n =>
      have := (findNode_eq_some_iff l' hnd' x n).mp hf'
      have h2 := (findNode_eq_some_iff l hnd x n).mpr ⟨hp.mem_iff.mpr this.1, this.2⟩
      rw [hf] at h2; simp at h2

/-- replacing the registered nodes by a list with the same look-ups -/
def withNodes (nodes' : List Node) (s : LState) : LState := { s with nodes := nodes' }

def SameLookups (nodes' : List Node) (s s' : LState) : Prop :=
  s' = withNodes nodes' s ∧ ∀ x, findNode s.nodes x = findNode nodes' x

def OptRel {σ τ : Type} (R : σ → τ → Prop) : Option σ → Option τ → Prop
  | none, none => True
  | some a, some b => R a b
  | _, _ => False

theorem foldl_optStep_rel {α σ τ : Type} (R : σ → τ → Prop) (g : α → σ → Option σ) (g' : α → τ → Option τ)
    (l : List α) (h : ∀ d ∈ l, ∀ s s', R s s' → OptRel R (g d s) (g' d s')) :
    ∀ acc acc', OptRel R acc acc' → OptRel R (l.foldl (optStep g) acc) (l.foldl (optStep g') acc') := by
  induction l with
  | nil => intro acc acc' hr; exact hr
  | cons a as ih =>
    intro acc acc' hr
    simp only [List.foldl_cons]
    apply ih (fun d hd => h d (by simp [hd]))
    cases acc with
    | none => cases acc' with
      | none => exact hr
      | some _ => exact absurd hr (by simp [OptRel])
    | some s => cases acc' with
      | none => exact absurd hr (by simp [OptRel])
      | some s' => exact h a (by simp) s s' hr

theorem load1_rel (srcs : List Str) (nodes' : List Node) :
    ∀ fuel name (st st1 : LState), SameLookups nodes' st st1 →
      OptRel (SameLookups nodes') (load1 srcs fuel name st) (load1 srcs fuel name st1) := by
  intro fuel
  induction fuel with
  | zero => intro name st st1 _; simp [load1, OptRel]
  | succ k ih =>
    intro name st st1 hr
    obtain ⟨rfl, hfn⟩ := hr
    unfold load1
    simp only [withNodes]
    by_cases hs : name ∈ st.stack
    · simp only [hs, if_true, OptRel]
      exact ⟨rfl, hfn⟩
    · simp only [hs, if_false]
      by_cases hl : name ∈ st.loaded
      · simp only [hl, if_true, OptRel]
        exact ⟨rfl, hfn⟩
      · simp only [hl, if_false]
        rw [← hfn name]
        cases hf : findNode st.nodes name with
        | none =>
          simp only
          by_cases hsrc : name ∈ srcs
          · simp only [hsrc, if_true, OptRel]; exact ⟨rfl, hfn⟩
          · simp only [hsrc, if_false, OptRel]; exact ⟨rfl, hfn⟩
        | some n =>
          simp only
          have hc := foldl_optStep_rel (SameLookups nodes') (fun d s => load1 srcs k d s)
            (fun d s => load1 srcs k d s) n.deps (fun d _ s s' hss => ih d s s' hss)
            (some { st with stack := name :: st.stack })
            (some { nodes := nodes', loaded := st.loaded, stack := name :: st.stack, errs := st.errs })
            ⟨rfl, hfn⟩
          revert hc
          generalize List.foldl (optStep fun d s => load1 srcs k d s)
            (some { st with stack := name :: st.stack }) n.deps = r1
          generalize List.foldl (optStep fun d s => load1 srcs k d s)
            (some { nodes := nodes', loaded := st.loaded, stack := name :: st.stack, errs := st.errs }) n.deps = r2
          intro hc
          cases r1 with
          | none => cases r2 with
            | none => simp [OptRel]
            | some _ => exact absurd hc (by simp [OptRel])
          | some a => cases r2 with
            | none => exact absurd hc (by simp [OptRel])
            | some b =>
              obtain ⟨rfl, hb⟩ := hc
              simp only [OptRel, withNodes]
              exact ⟨rfl, hb⟩

theorem loadList_rel (srcs : List Str) (nodes' : List Node) (fuel : Nat) (names : List Str)
    (st st1 : LState) (h : SameLookups nodes' st st1) :
    OptRel (SameLookups nodes') (loadList srcs fuel names st) (loadList srcs fuel names st1) := by
  unfold loadList
  exact foldl_optStep_rel (SameLookups nodes') _ _ names
    (fun d _ s s' hss => load1_rel srcs nodes' fuel d s s' hss) (some st) (some st1) h

theorem nodeOf_congr (nodes nodes' : List Node) (h : ∀ x, findNode nodes x = findNode nodes' x)
    (loaded : List Str) (name : Str) : nodeOf nodes loaded name = nodeOf nodes' loaded name := by
  unfold nodeOf
  rw [h name]

theorem buildNode_congr (nodes nodes' : List Node) (h : ∀ x, findNode nodes x = findNode nodes' x)
    (loaded : List Str) : ∀ fuel name st, buildNode nodes loaded fuel name st = buildNode nodes' loaded fuel name st := by
  intro fuel
  induction fuel with
  | zero => intro name st; rfl
  | succ k ih =>
    intro name st
    unfold buildNode
    rw [nodeOf_congr nodes nodes' h]
    have : (fun d (s : BState) => if s.missing ≠ [] then some s else buildNode nodes loaded k d s) =
        (fun d (s : BState) => if s.missing ≠ [] then some s else buildNode nodes' loaded k d s) := by
      funext d s; rw [ih d s]
    rw [this]

theorem buildTargets_congr (nodes nodes' : List Node) (h : ∀ x, findNode nodes x = findNode nodes' x)
    (loaded : List Str) (fuel : Nat) (targets : List Str) :
    buildTargets nodes loaded fuel targets = buildTargets nodes' loaded fuel targets := by
  unfold buildTargets
  congr 2
  funext t s
  rw [nodeOf_congr nodes nodes' h, buildNode_congr nodes nodes' h loaded fuel t s]

end PubModel.C11
