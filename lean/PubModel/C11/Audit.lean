import PubModel.C11.Theorems
open PubModel.C11
#print axioms read_terminates
#print axioms read_terminates_gen
#print axioms read_diverges_without_memo
#print axioms load_terminates
#print axioms load_error_iff
#print axioms dup_or_empty_reported
#print axioms load_error_nothing_built
#print axioms build_order_decl_independent
#print axioms load_ok_topological
#print axioms build_order
#print axioms targets_resolve
#print axioms gen_dedup_dirs
#print axioms gen_load1_shape
#print axioms gen_register_shape
#print axioms gen_read_shape
#print axioms gen_build_shape
#print axioms gen_rule_types
#print axioms gen_digest_covers_qualified_name
#print axioms gen_parse_recovery_consumes
