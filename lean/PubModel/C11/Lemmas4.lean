/-
C11 — the build order: on a successfully loaded graph (`loaded` is a
topological order closed under dependencies) `buildNode` terminates, never
misses a dependency, and its memo list is again a topological order whose
rule entries are the BUILD log.
-/
import PubModel.C11.Lemmas3

namespace PubModel.C11
open PubModel.C12

theorem foldl_opt_ind_exists {α σ : Type} (g : α → σ → Option σ) (P : List α → σ → Prop) (l : List α)
    (h : ∀ pre d s, d ∈ l → P pre s → ∃ s', g d s = some s' ∧ P (pre ++ [d]) s') :
    ∀ pre s, P pre s → ∃ s', l.foldl (optStep g) (some s) = some s' ∧ P (pre ++ l) s' := by
  induction l with
  | nil => intro pre s hp; exact ⟨s, rfl, by simpa using hp⟩
  | cons a as ih =>
    intro pre s hp
    obtain ⟨s1, h1, hp1⟩ := h pre a s (by simp) hp
    simp only [List.foldl_cons, optStep, h1]
    obtain ⟨s', h2, hp2⟩ := ih (fun pre d s hd => h pre d s (by simp [hd])) (pre ++ [a]) s1 hp1
    exact ⟨s', h2, by simpa using hp2⟩

section Build
variable (nodes : List Node) (srcs : List Str)

/-- the name is a registered rule -/
def isRule (x : Str) : Bool :=
  match findNode nodes x with
  | some n => n.typ == .rule
  | none => false

/-- the memo of a build, most recent first: every entry is new and all its dependencies were built before it -/
def GoodB : List Str → Prop
  | [] => True
  | x :: l => GoodB l ∧ x ∉ l ∧ ∀ y, Edge nodes x y → y ∈ l

theorem goodB_closed : ∀ (l : List Str), GoodB nodes l → ∀ x ∈ l, ∀ y, Edge nodes x y → y ∈ l := by
  intro l
  induction l with
  | nil => intro _ x hx; simp at hx
  | cons a as ih =>
    intro hg x hx y he
    simp only [List.mem_cons] at hx
    rcases hx with rfl | hx
    · exact List.mem_cons_of_mem _ (hg.2.2 y he)
    · exact List.mem_cons_of_mem _ (ih hg.1 x hx y he)

theorem goodB_reach (l : List Str) (hg : GoodB nodes l) {x y : Str} (hx : x ∈ l) (h : Reach nodes x y) : y ∈ l := by
  induction h with
  | refl a => exact hx
  | step e _ ih => exact ih (goodB_closed nodes l hg _ hx _ e)

theorem goodB_nodup : ∀ (l : List Str), GoodB nodes l → l.Nodup := by
  intro l
  induction l with
  | nil => intro _; exact List.nodup_nil
  | cons a as ih => intro hg; exact List.nodup_cons.mpr ⟨hg.2.1, ih hg.1⟩

theorem good_suffix : ∀ (pre l : List Str), Good nodes srcs (pre ++ l) → Good nodes srcs l := by
  intro pre
  induction pre with
  | nil => intro l h; exact h
  | cons a as ih => intro l h; exact ih l h.1

/-- state of a build that is going well -/
structure BInv (L : List Str) (s : BState) : Prop where
  missing : s.missing = []
  good : GoodB nodes s.built
  log : s.log = s.built.filter (isRule nodes)
  sub : ∀ x ∈ s.built, x ∈ L

theorem nodeOf_loaded {L : List Str} {name : Str} (h : name ∈ L) :
    ∃ n, nodeOf nodes L name = some n ∧ (n.typ = .rule ↔ isRule nodes name = true) ∧
      (∀ d, d ∈ n.deps ↔ Edge nodes name d) ∧ (n.typ = .src → findNode nodes name = none ∨ ∃ m, findNode nodes name = some m ∧ m.typ = .src) := by
  unfold nodeOf isRule Edge
  rw [if_pos h]
  cases hf : findNode nodes name with
  | some n =>
    refine ⟨n, rfl, by simp, ?_, fun ht => Or.inr ⟨n, rfl, ht⟩⟩
    intro d
    constructor
    · intro hd; exact ⟨n, rfl, hd⟩
    · rintro ⟨m, hm, hd⟩; injection hm with hm; subst hm; exact hd
  | none =>
    refine ⟨⟨name, .src, []⟩, rfl, by simp, ?_, fun _ => Or.inl rfl⟩
    intro d
    simp

/-- **`buildNode` on a loaded graph**: it terminates with fuel at least the
    position of the node in the topological order, misses nothing, keeps the
    memo a topological order, and adds only nodes reachable from the name. -/
theorem buildNode_good (L : List Str) (hL : Good nodes srcs L) :
    ∀ fuel (l' : List Str) name (st : BState), (∃ pre, L = pre ++ l') → name ∈ l' → l'.length ≤ fuel →
      BInv nodes L st →
      ∃ st', buildNode nodes L fuel name st = some st' ∧ BInv nodes L st' ∧ name ∈ st'.built ∧
        ∃ added, st'.built = added ++ st.built ∧ ∀ y ∈ added, Reach nodes name y := by
  intro fuel
  induction fuel with
  | zero =>
    intro l' name st _ hm hlen _
    have : l' = [] := List.eq_nil_of_length_eq_zero (by omega)
    subst this; simp at hm
  | succ k ih =>
    intro l' name st hsuf hm hlen hinv
    obtain ⟨pre, hpre⟩ := hsuf
    have hnameL : name ∈ L := by rw [hpre]; simp [hm]
    unfold buildNode
    by_cases hb : name ∈ st.built
    · simp only [hb, if_true]
      exact ⟨st, rfl, hinv, hb, [], rfl, by simp⟩
    · simp only [hb, if_false]
      obtain ⟨n, hno, hrule, hdeps, _⟩ := nodeOf_loaded nodes (L := L) hnameL
      simp only [hno]
      -- split l' at the name
      obtain ⟨a, l'', hsplit⟩ := List.append_of_mem hm
      have hgl : Good nodes srcs (name :: l'') := by
        have : L = (pre ++ a) ++ (name :: l'') := by rw [hpre, hsplit]; simp
        exact good_suffix nodes srcs _ _ (this ▸ hL)
      have hdl : ∀ d ∈ n.deps, d ∈ l'' := by
        intro d hd
        obtain ⟨m, hfm, hdm⟩ := (hdeps d).mp hd
        have h3 := hgl.2.2
        rw [hfm] at h3
        exact h3 d hdm
      have hlen'' : l''.length ≤ k := by
        have : l'.length = a.length + (l''.length + 1) := by rw [hsplit]; simp
        omega
      have hsuf'' : ∃ pre', L = pre' ++ l'' := ⟨pre ++ a ++ [name], by rw [hpre, hsplit]; simp⟩
      have hfold := foldl_opt_ind_exists
        (fun d (s : BState) => if s.missing ≠ [] then some s else buildNode nodes L k d s)
        (fun done s => BInv nodes L s ∧ (∀ d ∈ done, d ∈ s.built) ∧
          ∃ added, s.built = added ++ st.built ∧ ∀ y ∈ added, ∃ d ∈ n.deps, Reach nodes d y)
        n.deps
        (fun done d s hd hp => by
          obtain ⟨hi, hdone, added, hadd, hreach⟩ := hp
          simp only [hi.missing, ne_eq, not_true_eq_false, if_false]
          obtain ⟨s', h1, hi', hd', added', hadd', hreach'⟩ := ih l'' d s hsuf'' (hdl d hd) hlen'' hi
          refine ⟨s', h1, hi', ?_, added' ++ added, by rw [hadd', hadd]; simp, ?_⟩
          · intro x hx
            simp only [List.mem_append, List.mem_singleton] at hx
            rcases hx with hx | rfl
            · rw [hadd']; simp [hdone x hx]
            · exact hd'
          · intro y hy
            simp only [List.mem_append] at hy
            rcases hy with hy | hy
            · exact ⟨d, hd, hreach' y hy⟩
            · exact hreach y hy)
        [] st ⟨hinv, by simp, [], rfl, by simp⟩
      obtain ⟨st2, h2, hi2, hdone2, added2, hadd2, hreach2⟩ := hfold
      simp only [List.nil_append] at hdone2
      rw [h2]
      simp only [hi2.missing, ne_eq, not_true_eq_false, if_false]
      have hnot : name ∉ st2.built := by
        rw [hadd2]
        simp only [List.mem_append, not_or]
        refine ⟨?_, hb⟩
        intro hin
        obtain ⟨d, hd, hr⟩ := hreach2 name hin
        have hcyc : OnCycle nodes name := by
          -- name -> d ->* name
          have he : Edge nodes name d := (hdeps d).mp hd
          cases hr with
          | refl => exact ⟨name, .refl _, he⟩
          | step e1 r1 =>
            -- name -> d -> b ->* name : find the last edge
            have hrn : Reach nodes name name := .step he (.step e1 r1)
            -- peel the last edge of d ->* name
            have : ∀ {a b : Str}, Reach nodes a b → a = b ∨ ∃ c, Reach nodes a c ∧ Edge nodes c b := by
              intro a b h
              induction h with
              | refl a => exact Or.inl rfl
              | step e _ ih =>
                rcases ih with rfl | ⟨c, hc, hec⟩
                · exact Or.inr ⟨_, .refl _, e⟩
                · exact Or.inr ⟨c, .step e hc, hec⟩
            rcases this (Reach.step e1 r1) with heq | ⟨c, hc, hec⟩
            · exact ⟨name, .refl _, heq ▸ he⟩
            · exact ⟨c, .step he hc, hec⟩
        exact good_acyclic nodes srcs L hL name hnameL hcyc
      refine ⟨_, rfl, ⟨rfl, ⟨hi2.good, hnot, ?_⟩, ?_, ?_⟩, by simp, name :: added2, by simp [hadd2], ?_⟩
      · intro y he
        exact hdone2 y ((hdeps y).mpr he)
      · simp only [List.filter_cons]
        by_cases hr : n.typ = .rule
        · simp [hr, hrule.mp hr, hi2.log]
        · have : isRule nodes name = false := by
            cases hq : isRule nodes name with
            | false => rfl
            | true => exact absurd (hrule.mpr hq) hr
          simp [hr, this, hi2.log]
      · intro x hx
        simp only [List.mem_cons] at hx
        rcases hx with rfl | hx
        · exact hnameL
        · exact hi2.sub x hx
      · intro y hy
        simp only [List.mem_cons] at hy
        rcases hy with rfl | hy
        · exact .refl _
        · obtain ⟨d, hd, hr⟩ := hreach2 y hy
          exact .step ((hdeps d).mp hd) hr

end Build

end PubModel.C11
