import PubModel.C04.Theorems
import PubModel.C04.Measure
import PubModel.Sni.Exec
open PubModel.C04 PubModel.Sni
#print axioms transport_no_stranded
#print axioms no_caller_in_limbo
#print axioms strandedA_reachable
#print axioms strandedA_quiescent
#print axioms strandedC_reachable
#print axioms strandedC_quiescent
#print axioms strandedD_reader_blocked
#print axioms PubModel.C04.gen_transport_repaired
#print axioms gen_queue_cap_pos
#print axioms transport_no_stranded_gen
#print axioms step_decreases
#print axioms conn_stays_dead
#print axioms teardown_bounded
#print axioms measure_bound
#print axioms apply_sound
