/-
C04, second layer — the tie to the source.  `Gen.Teardown` is rewritten from the Go
AST on every run; the obligations below say that the facts found there are the ones
the teardown theorems assume, and restate the theorems for the facts of the current
source, so that a changed fact breaks exactly the statement that depended on it.
-/
import PubModel.Gen.Teardown
import PubModel.C04.ProxyTheorems
import PubModel.C04.EpTheorems

namespace PubModel.C04
open PubModel.Sni

/-- the proxy-side facts read from the current source are all present -/
theorem gen_proxy_facts_good : Gen.Teardown.facts = Teardown.Facts.good := by decide

/-- tunnel operations are transport calls and serving the endpoint client is the transport's
    serve loop: the second layer stands on the first layer's contract -/
theorem gen_tunnel_ops_use_call : Gen.Teardown.tunnelOpsUseCall = true ∧ Gen.Teardown.serveIsTransport = true := by
  decide

/-- the endpoint-side facts read from the current source are all present -/
theorem gen_ep_facts_good : Gen.Teardown.epFacts = EpTeardown.Facts.good := by decide

/-- proxy side, for the current source -/
theorem proxy_no_stranded_gen (fs : List (Nat × Nat)) (s : Teardown.St)
    (hr : Teardown.Reach Gen.Teardown.facts (Teardown.init fs) s)
    (hc : s.ctl = false ∨ s.kicked = true) (hq : Teardown.Quiescent Gen.Teardown.facts s) : Proxy.Clean s := by
  rw [gen_proxy_facts_good] at hr hq
  rcases hc with hc | hc
  · exact Proxy.proxy_no_stranded fs s hr hc hq
  · exact Proxy.kicked_torn_down fs s hr hc hq

/-- endpoint side, for the current source -/
theorem ep_no_stranded_gen (s : EpTeardown.St) (hr : EpTeardown.Reach Gen.Teardown.epFacts EpTeardown.init s)
    (hc : s.ctl = false ∨ s.cl ≠ .notCalled) (hq : EpTeardown.Quiescent Gen.Teardown.epFacts s) : Ep.Clean s := by
  rw [gen_ep_facts_good] at hr hq
  rcases hc with hc | hc
  · exact Ep.ep_no_stranded_reach s hr hc hq
  · exact (Ep.close_returns s hr hc hq).2.2

end PubModel.C04
