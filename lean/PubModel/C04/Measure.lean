/-
C04 — bounded teardown: once the control connection is gone every step of the
transport strictly decreases a natural-number measure, so quiescence is reached
after at most `measure s ≤ 7 * callers + queue + 6` steps, whatever the interleaving.
-/
import PubModel.Sni.Transport

namespace PubModel.C04
open PubModel.Sni

def wCS : CS → Nat
  | .idle => 7 | .checked => 6 | .queued => 4 | .pending _ => 3 | .fetched _ => 2 | .done _ => 0

def wCallers (cs : List Caller) : Nat := (cs.map (fun c => wCS c.st)).sum

def wRS : RS → Nat
  | .idle => 1 | .wantFetch _ => 3 | .holding _ _ => 2 | .dead => 0

def wSS : SS → Nat
  | .running => 2 | .exiting => 1 | .done => 0

def measure (s : St) : Nat :=
  wCallers s.callers + s.queue.length + wRS s.reader + wSS s.serve + (if s.connAlive then 1 else 0)

theorem wCallers_modify_le (cs : List Caller) (i : Nat) (g : Caller → Caller)
    (hg : ∀ c, wCS (g c).st ≤ wCS c.st) : wCallers (cs.modify i g) ≤ wCallers cs := by
  induction cs generalizing i with
  | nil => simp [wCallers]
  | cons c cs ih =>
    cases i with
    | zero => simp [wCallers, List.modify]; have := hg c; omega
    | succ i =>
      have := ih i
      simp [wCallers, List.modify] at this ⊢
      omega

theorem wCallers_modify_lt (cs : List Caller) (i : Nat) (g : Caller → Caller) (c : Caller)
    (hi : cs[i]? = some c) (hg : wCS (g c).st < wCS c.st) :
    wCallers (cs.modify i g) < wCallers cs := by
  induction cs generalizing i with
  | nil => simp at hi
  | cons d cs ih =>
    cases i with
    | zero =>
      simp at hi; subst hi
      simp [wCallers, List.modify]; omega
    | succ i =>
      have := ih i (by simpa using hi)
      simp [wCallers, List.modify] at this ⊢
      omega

theorem wCallers_modify_exact (cs : List Caller) (i : Nat) (g : Caller → Caller) (c : Caller)
    (hi : cs[i]? = some c) :
    wCallers (cs.modify i g) + wCS c.st = wCallers cs + wCS (g c).st := by
  induction cs generalizing i with
  | nil => simp at hi
  | cons d cs ih =>
    cases i with
    | zero =>
      simp at hi; subst hi
      simp [wCallers, List.modify]; omega
    | succ i =>
      have := ih i (by simpa using hi)
      simp [wCallers, List.modify] at this ⊢
      omega

theorem whenSt_le (p : CS → Bool) (g : Caller → Caller) (hg : ∀ c, p c.st = true → wCS (g c).st ≤ wCS c.st)
    (c : Caller) : wCS (whenSt p g c).st ≤ wCS c.st := by
  unfold whenSt
  split
  · rename_i h; exact hg c h
  · exact Nat.le_refl _

theorem sweep_le (pend : List (Nat × Nat)) (cs : List Caller) : wCallers (sweep pend cs) ≤ wCallers cs := by
  unfold sweep
  induction pend generalizing cs with
  | nil => simp
  | cons p ps ih =>
    simp only [List.foldl_cons]
    refine Nat.le_trans (ih _) ?_
    apply wCallers_modify_le
    intro c
    apply whenSt_le
    intro c _
    simp [wCS]

theorem modify_whenSt_le (cs : List Caller) (i : Nat) (p : CS → Bool) (g : Caller → Caller)
    (hg : ∀ c, p c.st = true → wCS (g c).st ≤ wCS c.st) :
    wCallers (cs.modify i (whenSt p g)) ≤ wCallers cs :=
  wCallers_modify_le cs i _ (whenSt_le p g hg)

/-- **Every step taken while the connection is gone strictly decreases the measure**
    (both variants of the code, every queue capacity). -/
theorem step_decreases (fx : Bool) (cap : Nat) (s s' : St) (h : Step fx cap s s')
    (hc : s.connAlive = false) : measure s' < measure s := by
  cases h with
  | check i c hi hs =>
    split
    · have := wCallers_modify_lt s.callers i (fun c => { c with st := .done (.err 1) }) c hi (by simp [hs, wCS])
      simp [measure, St.setSt, hc] at this ⊢; omega
    · have := wCallers_modify_lt s.callers i (fun c => { c with st := .checked }) c hi (by simp [hs, wCS])
      simp [measure, St.setSt, hc] at this ⊢; omega
  | enqueue i c hi hs hq =>
    have := wCallers_modify_lt s.callers i (fun c => { c with st := .queued }) c hi (by simp [hs, wCS])
    simp [measure, St.setSt, hc] at this ⊢
    have hexact := wCallers_modify_exact s.callers i (fun c => { c with st := .queued }) c hi
    simp [hs, wCS] at hexact
    omega
  | enqueueAbort i c hi hs hfx hd =>
    have := wCallers_modify_lt s.callers i (fun c => { c with st := .done (.err 1) }) c hi (by simp [hs, wCS])
    simp [measure, St.setSt, hc] at this ⊢; omega
  | take i q hr hq =>
    split
    · have := modify_whenSt_le s.callers i (· == .queued)
        (fun c => { c with st := .done (.err 1), assigned := some s.nextId }) (by intro c _; simp [wCS])
      simp [measure, St.setSt, hc, hq] at this ⊢; omega
    · have := modify_whenSt_le s.callers i (· == .queued)
        (fun c => { c with st := .pending s.nextId, assigned := some s.nextId })
        (by intro c h; simp at h; simp [wCS, h])
      simp [measure, St.setSt, hc, hq] at this ⊢; omega
  | takeSendFail i q hr hq hn =>
    have := modify_whenSt_le s.callers i (· == .queued)
      (fun c => { c with st := .done (if fx then .err 2 else .okNoReply), assigned := some s.nextId })
      (by intro c _; simp [wCS])
    simp [measure, St.setSt, hc, hq, hr, wSS] at this ⊢; omega
  | frameArrive id typ ok hr ha => simp [hc] at ha
  | fetchServe f hr hw =>
    unfold St.afterFetch
    split
    · rename_i i _
      have := modify_whenSt_le s.callers i (· == .pending f.id) (fun c => { c with st := .fetched f.id })
        (by intro c h; simp at h; simp [wCS, h])
      simp [measure, St.setSt, hc, hw, wRS] at this ⊢; omega
    · simp [measure, hc, hw, wRS]
  | fetchAbort f hfx hd hw => simp [measure, hc, hw, wRS]
  | complete i f hh =>
    unfold St.afterComplete
    simp only
    have h1 := modify_whenSt_le s.callers i (· == .fetched f.id) (fun c => { c with st := .done (.err 5) })
      (by intro c _; simp [wCS])
    have h2 := modify_whenSt_le s.callers i (· == .fetched f.id) (fun c => { c with st := .done (.ok f.seq) })
      (by intro c _; simp [wCS])
    have h3 := modify_whenSt_le s.callers i (· == .fetched f.id) (fun c => { c with st := .done (.err 4) })
      (by intro c _; simp [wCS])
    repeat' split
    all_goals (simp [measure, St.setSt, hc, hh, wRS] at h1 h2 h3 ⊢ <;> omega)
  | readerDie hr hc' => simp [measure, hc, hr, wRS]
  | readerFatal hr => simp [measure, hc, hr, wRS]
  | serveReadErr hr hd => simp [measure, hc, hr, wSS]
  | serveExit he =>
    have := sweep_le s.pending s.callers
    simp [measure, hc, he, wSS] at this ⊢; omega
  | callAbort i c hi hw hfx hd =>
    have := wCallers_modify_lt s.callers i (fun c => { c with st := .done (.err 1) }) c hi
      (by cases hst : c.st <;> simp [hst, isWaiting, wCS] at hw ⊢)
    simp [measure, St.setSt, hc] at this ⊢; omega
  | giveUp i c hi hw hctx =>
    have := wCallers_modify_lt s.callers i (fun c => { c with st := .done (.err 6) }) c hi
      (by rcases hw with hw | hw
          · simp [hw, wCS]
          · cases hst : c.st <;> simp [hst, isWaiting, wCS] at hw ⊢)
    simp [measure, St.setSt, hc] at this ⊢; omega
  | sever h => simp [hc] at h

/-- the connection stays gone -/
theorem conn_stays_dead (fx : Bool) (cap : Nat) (s s' : St) (h : Step fx cap s s')
    (hc : s.connAlive = false) : s'.connAlive = false := by
  cases h with
  | fetchServe f hr hw => unfold St.afterFetch; split <;> simp [St.setSt, hc]
  | complete i f hh => unfold St.afterComplete; simp only; (repeat' split) <;> simp [St.setSt, hc]
  | check i c hi hs => split <;> simp [St.setSt, hc]
  | take i q hr hq => split <;> simp [St.setSt, hc]
  | sever h => simp [hc] at h
  | _ => simp_all [St.setSt]

/-- a run of `n` steps -/
inductive Run (fx : Bool) (cap : Nat) : Nat → St → St → Prop
  | zero (s : St) : Run fx cap 0 s s
  | succ {n : Nat} {s t u : St} : Step fx cap s t → Run fx cap n t u → Run fx cap (n + 1) s u

/-- **Bounded teardown**: after the connection is lost no execution, under any
    interleaving, takes more than `measure s` further steps. -/
theorem teardown_bounded (fx : Bool) (cap : Nat) (n : Nat) (s u : St) (hr : Run fx cap n s u)
    (hc : s.connAlive = false) : n ≤ measure s := by
  induction hr with
  | zero s => exact Nat.zero_le _
  | succ hst _ ih =>
    have h1 := step_decreases fx cap _ _ hst hc
    have h2 := ih (conn_stays_dead fx cap _ _ hst hc)
    omega

theorem measure_bound (s : St) : measure s ≤ 7 * s.callers.length + s.queue.length + 6 := by
  have hcs : wCallers s.callers ≤ 7 * s.callers.length := by
    generalize s.callers = cs
    induction cs with
    | nil => simp [wCallers]
    | cons c cs ih =>
      simp [wCallers] at ih ⊢
      have : wCS c.st ≤ 7 := by cases c.st <;> simp [wCS]
      omega
  have hr : wRS s.reader ≤ 3 := by cases s.reader <;> simp [wRS]
  have hs : wSS s.serve ≤ 2 := by cases s.serve <;> simp [wSS]
  unfold measure
  split <;> omega

end PubModel.C04
