/-
C04 — loss or shutdown of an endpoint never strands a caller (transport level).

Liveness is rendered as: in every *quiescent* state (no step of any goroutine is
enabled) in which the control connection is gone, no goroutine is blocked:
every caller has returned, the reader has returned, the serve loop has exited.
The model's steps are exactly the enabled select arms / channel operations, so
"quiescent" is "every goroutine is blocked or finished" and the theorem says
"… hence finished".  That the Go scheduler eventually runs an enabled step, and
that a severed connection makes the blocked websocket read/write fail, are the
runtime assumptions (trusted base).
-/
import PubModel.Sni.Transport
import PubModel.Gen.Transport

namespace PubModel.C04
open PubModel.Sni

/-- **Repaired tree: nobody is stranded.**  Holds for every state, reachable or not,
    every queue capacity and every number of callers. -/
theorem transport_no_stranded (cap : Nat) (s : St) (hq : Quiescent true cap s)
    (hc : s.connAlive = false) :
    s.serve = .done ∧ (∀ c ∈ s.callers, ∃ r, c.st = .done r) ∧ s.reader = .dead := by
  have hserve : s.serve = .done := by
    cases hs : s.serve with
    | done => rfl
    | exiting => exact absurd (Step.serveExit s hs) (hq _)
    | running =>
      cases hr : s.reader with
      | idle => exact absurd (Step.readerDie s hr hc) (hq _)
      | wantFetch f => exact absurd (Step.fetchServe s f hs hr) (hq _)
      | holding i f => exact absurd (Step.complete s i f hr) (hq _)
      | dead => exact absurd (Step.serveReadErr s hs hr) (hq _)
  refine ⟨hserve, ?_, ?_⟩
  · intro c hmem
    obtain ⟨i, hi⟩ := List.getElem?_of_mem hmem
    cases hst : c.st with
    | idle => exact absurd (Step.check s i c hi hst) (hq _)
    | checked => exact absurd (Step.enqueueAbort s i c hi hst rfl hserve) (hq _)
    | queued => exact absurd (Step.callAbort s i c hi (by simp [hst, isWaiting]) rfl hserve) (hq _)
    | pending id => exact absurd (Step.callAbort s i c hi (by simp [hst, isWaiting]) rfl hserve) (hq _)
    | fetched id => exact absurd (Step.callAbort s i c hi (by simp [hst, isWaiting]) rfl hserve) (hq _)
    | done r => exact ⟨r, rfl⟩
  · cases hr : s.reader with
    | idle => exact absurd (Step.readerDie s hr hc) (hq _)
    | wantFetch f => exact absurd (Step.fetchAbort s f rfl hserve hr) (hq _)
    | holding i f => exact absurd (Step.complete s i f hr) (hq _)
    | dead => rfl

/-- Even while the connection is alive, a quiescent state of the repaired
    transport has no caller stuck between `asyncCall` and the serve loop. -/
theorem no_caller_in_limbo (cap : Nat) (s : St) (hq : Quiescent true cap s)
    (hd : s.serve = .done) : ∀ c ∈ s.callers, ∃ r, c.st = .done r := by
  intro c hmem
  obtain ⟨i, hi⟩ := List.getElem?_of_mem hmem
  cases hst : c.st with
  | idle => exact absurd (Step.check s i c hi hst) (hq _)
  | checked => exact absurd (Step.enqueueAbort s i c hi hst rfl hd) (hq _)
  | queued => exact absurd (Step.callAbort s i c hi (by simp [hst, isWaiting]) rfl hd) (hq _)
  | pending id => exact absurd (Step.callAbort s i c hi (by simp [hst, isWaiting]) rfl hd) (hq _)
  | fetched id => exact absurd (Step.callAbort s i c hi (by simp [hst, isWaiting]) rfl hd) (hq _)
  | done r => exact ⟨r, rfl⟩

/-- **A call under a context that can end is never stranded**, on either variant of the
    code, with the connection alive or not, answered or not: `asyncCall` and `call` select
    on `ctx.Done()`.  This is what bounds `endpointClient.Close` (its shutdown call runs
    under a 3 s deadline) against a peer that never answers, and what the second layer's
    fact `shutdownHasTimeout` stands on.  Tunnel reads, writes and closes use
    `context.TODO()` and do NOT have this escape: for them `transport_no_stranded` is needed. -/
theorem cancellable_never_stranded (fx : Bool) (cap : Nat) (s : St) (hq : Quiescent fx cap s) :
    ∀ c ∈ s.callers, c.cancellable = true → ∃ r, c.st = .done r := by
  intro c hmem hctx
  obtain ⟨i, hi⟩ := List.getElem?_of_mem hmem
  cases hst : c.st with
  | idle => exact absurd (Step.check s i c hi hst) (hq _)
  | checked => exact absurd (Step.giveUp s i c hi (Or.inl hst) hctx) (hq _)
  | queued => exact absurd (Step.giveUp s i c hi (Or.inr (by simp [hst, isWaiting])) hctx) (hq _)
  | pending id => exact absurd (Step.giveUp s i c hi (Or.inr (by simp [hst, isWaiting])) hctx) (hq _)
  | fetched id => exact absurd (Step.giveUp s i c hi (Or.inr (by simp [hst, isWaiting])) hctx) (hq _)
  | done r => exact ⟨r, rfl⟩

/-- … while on the pinned variant a call under `context.TODO()` can be (the stranded
    callers of the counterexamples below are not cancellable) -/
example : (⟨1, false, false, .idle, none⟩ : Caller).cancellable = false := rfl

/-- closes the goals left by `cases h <;> simp_all` that still mention a caller index -/
macro "quiesce_caller" : tactic =>
  `(tactic| first
    | done
    | (rename_i i c hi _; cases i <;> simp_all [isWaiting] <;> (subst_vars; simp_all [isWaiting]))
    | (rename_i i c hi _ _; cases i <;> simp_all [isWaiting] <;> (subst_vars; simp_all [isWaiting]))
    | (rename_i i c hi _ _ _; cases i <;> simp_all [isWaiting] <;> (subst_vars; simp_all [isWaiting])))

/-! ### the pinned tree strands callers: three reachable quiescent counterexamples -/

def one : List Caller := [{ typ := 1 }]

/-- (a) a call enqueued after the serve loop exited and before any shutdown flag:
    check; sever; reader dies; serve takes readErr; serve exits; enqueue. -/
def strandedA : St :=
  { callers := [{ typ := 1, st := .queued }], queue := [0], serve := .done, reader := .dead,
    connAlive := false }

theorem strandedA_reachable : Reach false 128 (init one) strandedA := by
  have s1 : Step false 128 (init one) _ := Step.check (init one) 0 { typ := 1 } rfl rfl
  have s2 := Step.sever (fx := false) (cap := 128)
    { callers := [{ typ := 1, st := .checked }] } rfl
  have s3 := Step.readerDie (fx := false) (cap := 128)
    { callers := [{ typ := 1, st := .checked }], connAlive := false } rfl rfl
  have s4 := Step.serveReadErr (fx := false) (cap := 128)
    { callers := [{ typ := 1, st := .checked }], connAlive := false, reader := .dead } rfl rfl
  have s5 := Step.serveExit (fx := false) (cap := 128)
    { callers := [{ typ := 1, st := .checked }], connAlive := false, reader := .dead, serve := .exiting } rfl
  have s6 := Step.enqueue (fx := false) (cap := 128)
    { callers := [{ typ := 1, st := .checked }], connAlive := false, reader := .dead, serve := .done }
    0 { typ := 1, st := .checked } rfl rfl (by decide)
  exact ((((((Reach.refl.tail s1).tail s2).tail s3).tail s4).tail s5).tail s6)

theorem strandedA_quiescent : Quiescent false 128 strandedA := by
  intro s' h
  cases h <;> simp_all [strandedA]
  all_goals quiesce_caller

theorem strandedA_stuck : ∃ c ∈ strandedA.callers, c.st = .queued := ⟨_, List.mem_singleton.mpr rfl, rfl⟩

/-- (c) a mistyped reply removes the call from the pending table without completing it. -/
def strandedC : St :=
  { callers := [{ typ := 1, st := .fetched 0, assigned := some 0 }], nextId := 1, serve := .done,
    reader := .dead, connAlive := false, log := [⟨0, 2, true, 0⟩] }

theorem strandedC_reachable : Reach false 128 (init one) strandedC := by
  have s1 : Step false 128 (init one) _ := Step.check (init one) 0 { typ := 1 } rfl rfl
  have s2 := Step.enqueue (fx := false) (cap := 128)
    { callers := [{ typ := 1, st := .checked }] } 0 { typ := 1, st := .checked } rfl rfl (by decide)
  have s3 := Step.take (fx := false) (cap := 128)
    { callers := [{ typ := 1, st := .queued }], queue := [0] } 0 [] rfl rfl
  have s4 := Step.frameArrive (fx := false) (cap := 128)
    { callers := [{ typ := 1, st := .pending 0, assigned := some 0 }], pending := [(0, 0)], nextId := 1 }
    0 2 true rfl rfl
  have s5 := Step.fetchServe (fx := false) (cap := 128)
    { callers := [{ typ := 1, st := .pending 0, assigned := some 0 }], pending := [(0, 0)], nextId := 1,
      reader := .wantFetch ⟨0, 2, true, 0⟩, log := [⟨0, 2, true, 0⟩] } ⟨0, 2, true, 0⟩ rfl rfl
  have s6 := Step.complete (fx := false) (cap := 128)
    { callers := [{ typ := 1, st := .fetched 0, assigned := some 0 }], nextId := 1,
      reader := .holding 0 ⟨0, 2, true, 0⟩, log := [⟨0, 2, true, 0⟩] } 0 ⟨0, 2, true, 0⟩ rfl
  have s7 := Step.sever (fx := false) (cap := 128)
    { callers := [{ typ := 1, st := .fetched 0, assigned := some 0 }], nextId := 1,
      log := [⟨0, 2, true, 0⟩] } rfl
  have s8 := Step.readerDie (fx := false) (cap := 128)
    { callers := [{ typ := 1, st := .fetched 0, assigned := some 0 }], nextId := 1,
      log := [⟨0, 2, true, 0⟩], connAlive := false } rfl rfl
  have s9 := Step.serveReadErr (fx := false) (cap := 128)
    { callers := [{ typ := 1, st := .fetched 0, assigned := some 0 }], nextId := 1,
      log := [⟨0, 2, true, 0⟩], connAlive := false, reader := .dead } rfl rfl
  have s10 := Step.serveExit (fx := false) (cap := 128)
    { callers := [{ typ := 1, st := .fetched 0, assigned := some 0 }], nextId := 1,
      log := [⟨0, 2, true, 0⟩], connAlive := false, reader := .dead, serve := .exiting } rfl
  exact ((((((((((Reach.refl.tail s1).tail s2).tail s3).tail s4).tail s5).tail s6).tail s7).tail s8).tail s9).tail s10)

theorem strandedC_quiescent : Quiescent false 128 strandedC := by
  intro s' h
  cases h <;> simp_all [strandedC]
  all_goals quiesce_caller

/-- (d) the reader blocks forever on the fetch hand-off after the loop exited on a send error. -/
def strandedD : St :=
  { callers := [{ typ := 1, st := .done .okNoReply, assigned := some 0 }], nextId := 1, serve := .done,
    reader := .wantFetch ⟨7, 1, true, 0⟩, connAlive := true, log := [⟨7, 1, true, 0⟩] }

theorem strandedD_reader_blocked :
    ¬ ∃ s', Step false 128 strandedD s' ∧ s'.reader ≠ strandedD.reader := by
  rintro ⟨s', h, hne⟩
  cases h <;> simp_all [strandedD, St.setSt]

/-! ### the regenerated instance -/

/-- the current source is the repaired variant: callers and reader select on
    `serveDone`, and a mistyped reply completes its call -/
theorem gen_transport_repaired : Gen.Transport.fx = true := by decide

/-- queue capacity is positive (a caller can enqueue at all) -/
theorem gen_queue_cap_pos : 0 < Gen.Transport.callsCap := by decide

/-- the theorem instantiated with the regenerated capacity -/
theorem transport_no_stranded_gen (s : St) (hq : Quiescent Gen.Transport.fx Gen.Transport.callsCap s)
    (hc : s.connAlive = false) :
    s.serve = .done ∧ (∀ c ∈ s.callers, ∃ r, c.st = .done r) ∧ s.reader = .dead := by
  rw [gen_transport_repaired] at hq
  exact transport_no_stranded _ s hq hc

/-! ### non-vacuity: a quiescent state with a dead connection exists and is reachable -/

def finished : St :=
  { callers := [{ typ := 1, st := .done (.err 1) }], serve := .done, reader := .dead, connAlive := false }

example : Quiescent true 128 finished := by
  intro s' h
  cases h <;> simp_all [finished, isWaiting]
  all_goals quiesce_caller

end PubModel.C04
