/-
C04, proxy layer — bounded teardown: once the control connection is gone every step
of the proxy-side system (`PubModel.Sni.Teardown`) strictly decreases a measure,
whatever the facts about the code are; so no execution is infinite and the length of
every execution after the cut is bounded by the measure of the state at the cut.
-/
import PubModel.Sni.Teardown

namespace PubModel.C04.Proxy
open PubModel.Sni.Teardown

def wHS : HS → Nat
  | .notYet => 6 | .arriving => 5 | .dialing => 4 | .joined => 3 | .closingTunnel => 1
  | .done => 0 | .elsewhere => 0 | .sideWait => 3

def wUp : Up → Nat
  | .readFront => 3 | .writeTunnel => 2 | .closing => 1 | .exited => 0

def wDown : Down → Nat
  | .readTunnel => 2 | .writeFront => 3 | .closing => 1 | .exited => 0

def wCA : CA → Nat
  | .notStarted => 2 | .inTunnelClose => 1 | .done => 0

def fm (f : Front) : Nat := wHS f.hs + wUp f.up + wDown f.down + wCA f.ca + f.sends + 2 * f.oks

def wSB : SB → Nat
  | .serving => 4 | .unmapping => 3 | .closingEp => 2 | .disconnecting => 1 | .returned => 0

def wKC : KC → Nat
  | .none => 2 | .closing => 1 | .done => 0

def wSF : SF → Nat
  | .accepting => 2 | .draining => 1 | .returned => 0

def fsum (fs : List Front) : Nat := (fs.map fm).sum

def measure (s : St) : Nat :=
  fsum s.fronts + (if s.trDone then 0 else 1) + wSB s.sb + wKC s.kc + (if s.cancelled then 0 else 1) + wSF s.sf

theorem fsum_set (fs : List Front) (i : Nat) (f f' : Front) (h : fs[i]? = some f) :
    fsum (fs.set i f') + fm f = fsum fs + fm f' := by
  induction fs generalizing i with
  | nil => simp at h
  | cons g fs ih =>
    cases i with
    | zero => simp at h; subst h; simp [fsum]; omega
    | succ i =>
      have := ih i (by simpa using h)
      simp [fsum] at this ⊢
      omega

/-- every step of a front connection's goroutines decreases its measure once the
    control connection is gone (for every combination of facts) -/
theorem front_decreases (F : Facts) (c : Ctx) (f f' : Front) (e : FEv) (hc : c.ctl = false)
    (h : frontStep F c f e = some f') : fm f' < fm f := by
  have hok : ∀ g : Front, okPossible c g = true → 0 < g.oks := by
    intro g hg; simpa [okPossible, hc] using hg
  have huse : ∀ g : Front, useOk c g = { g with oks := g.oks - 1 } := by
    intro g; simp [useOk, hc]
  cases e <;> simp only [frontStep] at h <;> split at h <;> try (simp at h)
  all_goals (subst h)
  all_goals (rename_i hg)
  · simp [fm, wHS, hg.1]
  · obtain hg := hg
    split
    · simp [fm, wHS, hg]
    · split <;> simp [fm, wHS, hg, hostReturn]
  · have := hok f hg.2
    simp [fm, wHS, hg.1, huse]; omega
  · simp [fm, wHS, hg.1, hostReturn]
  · simp [fm, wHS, hg.1, hostReturn]
  · simp [fm, wUp, hg.2.1]; omega
  · cases hj : F.joinDefersCloseAll <;> simp [fm, upLeave, hj, hg.2.1, wUp]
  · cases hj : F.joinDefersCloseAll <;> simp [fm, upLeave, hj, hg.2.1, wUp]
  · have := hok f hg.2.2
    simp [fm, wUp, hg.2.1, huse]; omega
  · cases hj : F.joinDefersCloseAll <;> simp [fm, upLeave, hj, hg.2.1, wUp]
  · have := hok f hg.2.2
    simp [fm, wDown, hg.2.1, huse]; omega
  · have := hok f hg.2.2
    cases hj : F.joinDefersCloseAll <;> simp [fm, downLeave, huse, hj, hg.2.1, wDown] <;> omega
  · cases hj : F.joinDefersCloseAll <;> simp [fm, downLeave, hj, hg.2.1, wDown]
  · split
    · cases hj : F.joinDefersCloseAll <;> simp [fm, downLeave, hj, hg.2, wDown]
    · simp [fm, wDown, hg.2]
  · simp [fm, wCA, hg.2.1]
  · simp [fm, wCA, hg.2.1]
  · have := hok f hg.2.2
    simp [fm, wCA, hg.2.1, huse, closeAllDone]; omega
  · simp [fm, wCA, hg.2.1, closeAllDone]
  · simp [fm, wUp, hg.2.1]
  · simp [fm, wDown, hg.2.1]
  · simp [fm, wHS, hg.1]
  · have := hok f hg.2
    simp [fm, wHS, hg.1, huse, hostReturn]; omega
  · simp [fm, wHS, hg.1, hostReturn]
  · have := hok f hg.2
    simp [fm, wHS, hg.1, huse]; omega
  · simp [fm, wHS, hg]
  · simp [fm, wHS, hg.1, hostReturn]
  · simp [fm, wHS, hg.1, hostReturn]

/-- **Every step taken after the control connection is gone strictly decreases the measure.** -/
theorem step_decreases (F : Facts) (s s' : St) (e : Ev) (hc : s.ctl = false)
    (h : apply F s e = some s') : measure s' < measure s := by
  cases e with
  | front i e =>
    simp only [apply] at h
    split at h
    · rename_i f hf
      cases hfs : frontStep F s.ctx f e with
      | none => simp [hfs] at h
      | some f' =>
        simp [hfs] at h; subst h
        have h1 := front_decreases F s.ctx f f' e (by simp [St.ctx, hc]) hfs
        have h2 := fsum_set s.fronts i f f' hf
        simp only [measure]
        omega
    · simp at h
  | sever => simp [apply, hc] at h
  | trExit =>
    simp only [apply] at h; split at h <;> simp at h; subst h
    rename_i hg; simp [measure, hg.2]
  | hint =>
    simp only [apply] at h; split at h <;> simp at h; subst h
    rename_i hg; simp [measure, hg.1]
  | kick =>
    simp only [apply] at h; split at h <;> simp at h; subst h
    rename_i hg; simp [measure, hg.2, wKC]
  | kcClose =>
    simp only [apply] at h; split at h <;> simp at h; subst h
    rename_i hg; simp [measure, hg.1, wKC]
  | cancel =>
    simp only [apply] at h; split at h <;> simp at h; subst h
    rename_i hg; simp [measure, hg]
  | sfStop =>
    simp only [apply] at h; split at h <;> simp at h; subst h
    rename_i hg; simp [measure, hg.2, wSF]
  | sfReturn =>
    simp only [apply] at h; split at h <;> simp at h; subst h
    rename_i hg; simp [measure, hg.1, wSF]
  | sbServeReturn =>
    simp only [apply] at h; split at h <;> simp at h; subst h
    rename_i hg; simp [measure, hg.1, wSB]
  | sbUnmap =>
    simp only [apply] at h; split at h <;> simp at h; subst h
    rename_i hg; simp [measure, hg, wSB]
  | sbClose =>
    simp only [apply] at h; split at h <;> simp at h; subst h
    rename_i hg; simp [measure, hg, wSB]
  | sbDisconnect =>
    simp only [apply] at h; split at h <;> simp at h; subst h
    rename_i hg; simp [measure, hg, wSB]

/-- the control connection stays gone -/
theorem ctl_stays_dead (F : Facts) (s s' : St) (e : Ev) (hc : s.ctl = false)
    (h : apply F s e = some s') : s'.ctl = false := by
  cases e with
  | front i e =>
    simp only [apply] at h
    split at h
    · simp only [Option.map_eq_some_iff] at h
      obtain ⟨f', _, h⟩ := h
      subst h; exact hc
    · simp at h
  | sever => simp [apply, hc] at h
  | _ => simp only [apply] at h; split at h <;> simp at h; subst h; simp [hc]

inductive Run (F : Facts) : Nat → St → St → Prop
  | zero (s : St) : Run F 0 s s
  | succ {n : Nat} {s t u : St} : Step F s t → Run F n t u → Run F (n + 1) s u

/-- **Bounded teardown of the proxy side**: after the control connection is lost no
    execution of the goroutines that depended on it — under any interleaving, any client
    behaviour, any order of kick, cancel and arrivals — takes more than `measure s` steps. -/
theorem teardown_bounded (F : Facts) (n : Nat) (s u : St) (hr : Run F n s u) (hc : s.ctl = false) :
    n ≤ measure s := by
  induction hr with
  | zero s => exact Nat.zero_le _
  | succ hst _ ih =>
    obtain ⟨e, he⟩ := hst
    have h1 := step_decreases F _ _ e hc he
    have h2 := ih (ctl_stays_dead F _ _ e hc he)
    omega

theorem fm_bound (f : Front) : fm f ≤ 14 + f.sends + 2 * f.oks := by
  have h1 : wHS f.hs ≤ 6 := by cases f.hs <;> simp [wHS]
  have h2 : wUp f.up ≤ 3 := by cases f.up <;> simp [wUp]
  have h3 : wDown f.down ≤ 3 := by cases f.down <;> simp [wDown]
  have h4 : wCA f.ca ≤ 2 := by cases f.ca <;> simp [wCA]
  unfold fm; omega

end PubModel.C04.Proxy
