/-
C04, proxy layer — nothing is stranded.  With the facts read from the current source
(`Facts.good`), in every state the proxy-side system can reach, if the control
connection is gone and no goroutine can take another step, then: the transport has
exited, `ServeBackName` has returned after unmapping the name and reporting the
disconnect exactly once, the kick helper is not stuck, every front connection that was
multiplexed over the endpoint has been closed by the proxy and its `hostConn` has
returned, and a cancelled `ServeFront` has returned.  Together with
`ProxyMeasure.teardown_bounded` (that state is reached after a bounded number of steps,
under every interleaving) this is the proxy-side half of the property.

For each fact the same statement fails when the fact is false: the `without_*` theorems
exhibit a reachable stuck state, so no fact is there for decoration.
-/
import PubModel.C04.ProxyMeasure

set_option linter.unusedSimpArgs false

namespace PubModel.C04.Proxy
open PubModel.Sni.Teardown

/-- invariant of one front connection -/
structure FInv (f : Front) : Prop where
  exitedClosedAll : (f.up = .exited ∨ f.down = .exited) → f.ca = .done
  closedAllFront : f.ca = .done → f.frontClosed = true
  returnedFront : f.hs = .done → f.frontClosed = true

structure Inv (s : St) : Prop where
  sbAfterTr : s.sb ≠ .serving → s.trDone = true
  unmapped : (s.sb = .closingEp ∨ s.sb = .disconnecting ∨ s.sb = .returned) → s.registered = false
  disc : s.disconnects = if s.sb = .returned then 1 else 0
  fronts : ∀ f ∈ s.fronts, FInv f

theorem finv_step (c : Ctx) (f f' : Front) (e : FEv) (hi : FInv f)
    (h : frontStep Facts.good c f e = some f') : FInv f' := by
  obtain ⟨i1, i2, i3⟩ := hi
  cases e <;> simp only [frontStep] at h <;> split at h <;> try (simp at h)
  all_goals (subst h)
  all_goals (rename_i hg)
  all_goals first
    | (constructor <;> simp_all [Facts.good, upLeave, downLeave, closeAllDone, hostReturn, useOk] <;> done)
    | (split <;> constructor <;> simp_all [Facts.good, upLeave, downLeave, closeAllDone, hostReturn, useOk] <;> done)
    | (split <;> (try split) <;> constructor <;>
        simp_all [Facts.good, upLeave, downLeave, closeAllDone, hostReturn, useOk] <;> done)
    | (unfold useOk; split <;> constructor <;>
        simp_all [Facts.good, upLeave, downLeave, closeAllDone, hostReturn] <;> done)

theorem inv_init (fs : List (Nat × Nat)) : Inv (init fs) := by
  refine ⟨by simp [init], by simp [init], by simp [init], ?_⟩
  intro f hf
  simp only [init, List.mem_map] at hf
  obtain ⟨p, _, rfl⟩ := hf
  constructor <;> simp

theorem mem_set_cases {α : Type} (l : List α) (i : Nat) (a b : α) (h : b ∈ l.set i a) : b = a ∨ b ∈ l := by
  induction l generalizing i with
  | nil => simp at h
  | cons x l ih =>
    cases i with
    | zero => simp at h; rcases h with h | h <;> simp [h]
    | succ i =>
      simp at h
      rcases h with h | h
      · simp [h]
      · rcases ih i h with h | h <;> simp [h]

theorem inv_step (s s' : St) (e : Ev) (hi : Inv s) (h : apply Facts.good s e = some s') : Inv s' := by
  obtain ⟨g1, g2, g3, g4⟩ := hi
  cases e with
  | front i e =>
    simp only [apply] at h
    split at h
    · rename_i f hf
      simp only [Option.map_eq_some_iff] at h
      obtain ⟨f', hfs, h⟩ := h
      subst h
      refine ⟨g1, g2, g3, ?_⟩
      intro x hx
      rcases mem_set_cases _ _ _ _ hx with hx | hx
      · subst hx
        exact finv_step _ f _ e (g4 f (List.mem_of_getElem? hf)) hfs
      · exact g4 x hx
    · simp at h
  | sever => simp only [apply] at h; split at h <;> simp at h; subst h; exact ⟨g1, g2, g3, g4⟩
  | trExit =>
    simp only [apply] at h; split at h <;> simp at h; subst h
    exact ⟨fun _ => rfl, g2, g3, g4⟩
  | hint =>
    simp only [apply] at h; split at h <;> simp at h; subst h
    exact ⟨fun _ => rfl, g2, g3, g4⟩
  | kick =>
    simp only [apply] at h; split at h <;> simp at h; subst h
    exact ⟨g1, fun _ => rfl, g3, g4⟩
  | kcClose => simp only [apply] at h; split at h <;> simp at h; subst h; exact ⟨g1, g2, g3, g4⟩
  | cancel => simp only [apply] at h; split at h <;> simp at h; subst h; exact ⟨g1, g2, g3, g4⟩
  | sfStop => simp only [apply] at h; split at h <;> simp at h; subst h; exact ⟨g1, g2, g3, g4⟩
  | sfReturn => simp only [apply] at h; split at h <;> simp at h; subst h; exact ⟨g1, g2, g3, g4⟩
  | sbServeReturn =>
    simp only [apply] at h; split at h <;> simp at h; subst h
    rename_i hg
    refine ⟨fun _ => hg.2, by simp, ?_, g4⟩
    simp [g3, hg.1]
  | sbUnmap =>
    simp only [apply] at h; split at h <;> simp at h; subst h
    rename_i hg
    refine ⟨fun _ => g1 (by simp [hg]), by simp [Facts.good], ?_, g4⟩
    simp [g3, hg]
  | sbClose =>
    simp only [apply] at h; split at h <;> simp at h; subst h
    rename_i hg
    refine ⟨fun _ => g1 (by simp [hg]), fun _ => g2 (Or.inl hg), ?_, g4⟩
    simp [g3, hg]
  | sbDisconnect =>
    simp only [apply] at h; split at h <;> simp at h; subst h
    rename_i hg
    refine ⟨fun _ => g1 (by simp [hg]), fun _ => g2 (Or.inr (Or.inl hg)), ?_, g4⟩
    simp [g3, hg, Facts.good]

theorem inv_reach (s0 s : St) (h0 : Inv s0) (hr : Reach Facts.good s0 s) : Inv s := by
  induction hr with
  | refl => exact h0
  | tail _ hst ih => obtain ⟨e, he⟩ := hst; exact inv_step _ _ e ih he

/-- what "torn down" means for one front connection -/
def FrontClean (f : Front) : Prop :=
  (f.hs = .done ∧ f.frontClosed = true) ∨ f.hs = .elsewhere ∨ f.hs = .notYet

/-- a front connection none of whose goroutines can move, after the transport has exited -/
theorem front_quiescent (c : Ctx) (f : Front) (ht : c.trDone = true) (hi : FInv f)
    (hq : ∀ e, e ≠ .arrive → e ≠ .clientData → e ≠ .clientClose → e ≠ .sideArrive →
      frontStep Facts.good c f e = none) :
    FrontClean f := by
  obtain ⟨i1, i2, i3⟩ := hi
  have q2 := hq .lookup (by simp) (by simp) (by simp) (by simp)
  have q3 := hq .dialErr (by simp) (by simp) (by simp) (by simp)
  have q4 := hq .frontGone (by simp) (by simp) (by simp) (by simp)
  have q5 := hq .upWriteErr (by simp) (by simp) (by simp) (by simp)
  have q6 := hq .downReadErr (by simp) (by simp) (by simp) (by simp)
  have q7 := hq .downWriteDone (by simp) (by simp) (by simp) (by simp)
  have q8 := hq .caStart (by simp) (by simp) (by simp) (by simp)
  have q9 := hq .caTunnelErr (by simp) (by simp) (by simp) (by simp)
  have q10 := hq .upExit (by simp) (by simp) (by simp) (by simp)
  have q11 := hq .downExit (by simp) (by simp) (by simp) (by simp)
  have q12 := hq .joinReturn (by simp) (by simp) (by simp) (by simp)
  have q13 := hq .finishErr (by simp) (by simp) (by simp) (by simp)
  have q14 := hq .sideGone (by simp) (by simp) (by simp) (by simp)
  simp only [frontStep, ht, Facts.good] at q2 q3 q4 q5 q6 q7 q8 q9 q10 q11 q12 q13 q14
  obtain ⟨hs, up, down, ca, fc, sends, oks⟩ := f
  simp only at *
  unfold FrontClean
  cases hs
  case notYet => simp
  case arriving => simp at q2
  case dialing => simp at q3
  case closingTunnel => simp at q13
  case done => simp_all
  case elsewhere => simp
  case sideWait => simp at q14
  case joined =>
    exfalso
    cases down
    case readTunnel => simp at q6
    case writeFront => simp at q7
    case closing =>
      cases ca
      case notStarted => simp at q8
      case inTunnelClose => simp at q9
      case done => simp at q11
    case exited =>
      have hca : ca = .done := i1 (Or.inr rfl)
      subst hca
      have hfc : fc = true := i2 rfl
      subst hfc
      cases up
      case readFront => simp at q4
      case writeTunnel => simp at q5
      case closing => simp at q10
      case exited => simp at q12

structure Clean (s : St) : Prop where
  trDone : s.trDone = true
  served : s.sb = .returned
  unregistered : s.registered = false
  disconnectOnce : s.disconnects = 1
  kickHelper : s.kc ≠ .closing
  fronts : ∀ f ∈ s.fronts, FrontClean f
  serveFront : s.cancelled = true → s.sf = .returned

theorem all_settled (s : St) (h : ∀ f ∈ s.fronts, FrontClean f) :
    s.fronts.all settled = true := by
  simp only [List.all_eq_true]
  intro f hf
  rcases h f hf with h | h | h <;> simp [settled, h]

/-- **No caller, front connection or serving goroutine of the proxy is stranded.**
    In every reachable state in which the control connection is gone and nothing can
    move any more, everything that depended on the endpoint has been torn down. -/
theorem proxy_no_stranded (fs : List (Nat × Nat)) (s : St) (hr : Reach Facts.good (init fs) s)
    (hc : s.ctl = false) (hq : Quiescent Facts.good s) : Clean s := by
  have hi := inv_reach _ _ (inv_init fs) hr
  obtain ⟨g1, g2, g3, g4⟩ := hi
  have ht : s.trDone = true := by
    have := hq .trExit rfl
    simp only [apply, hc] at this
    cases h : s.trDone <;> simp_all
  have hsb : s.sb = .returned := by
    have a1 := hq .sbServeReturn rfl
    have a2 := hq .sbUnmap rfl
    have a3 := hq .sbClose rfl
    have a4 := hq .sbDisconnect rfl
    simp only [apply, ht] at a1 a2 a3 a4
    cases h : s.sb <;> simp_all
  have hfr : ∀ f ∈ s.fronts, FrontClean f := by
    intro f hf
    obtain ⟨i, hi, hfi⟩ := List.getElem_of_mem hf
    have hget : s.fronts[i]? = some f := by simp [List.getElem?_eq_getElem hi, hfi]
    have : ∀ e, e ≠ .arrive → e ≠ .clientData → e ≠ .clientClose → e ≠ .sideArrive →
        frontStep Facts.good s.ctx f e = none := by
      intro e e1 e2 e3 e4
      have := hq (.front i e) (by cases e <;> simp_all [Ev.isEnv])
      simp only [apply, hget] at this
      simpa using this
    exact front_quiescent s.ctx f (by simp [St.ctx, ht]) (g4 f hf) this
  refine ⟨ht, hsb, g2 (by simp [hsb]), by simp [g3, hsb], ?_, hfr, ?_⟩
  · have := hq .kcClose rfl
    simp only [apply, Facts.good] at this
    intro hk
    simp [hk] at this
  · intro hcan
    have b1 := hq .sfStop rfl
    have b2 := hq .sfReturn rfl
    simp only [apply, hcan, all_settled s hfr] at b1 b2
    cases h : s.sf <;> simp_all

end PubModel.C04.Proxy

namespace PubModel.C04.Proxy
open PubModel.Sni.Teardown

/-! ### Kick: the old endpoint's connection is closed -/

structure KInv (s : St) : Prop where
  kickedHelper : s.kicked = true → s.kc ≠ .none
  helperClosed : s.kc = .done → s.ctl = false
  servedClosed : (s.sb = .disconnecting ∨ s.sb = .returned) → s.ctl = false

theorem kinv_step (s s' : St) (e : Ev) (hi : KInv s) (h : apply Facts.good s e = some s') : KInv s' := by
  obtain ⟨k1, k2, k3⟩ := hi
  cases e with
  | front i e =>
    simp only [apply] at h
    split at h
    · simp only [Option.map_eq_some_iff] at h
      obtain ⟨f', _, h⟩ := h
      subst h; exact ⟨k1, k2, k3⟩
    · simp at h
  | _ =>
    simp only [apply] at h; split at h <;> simp at h; subst h
    constructor <;> simp_all [Facts.good]

theorem kinv_reach (fs : List (Nat × Nat)) (s : St) (hr : Reach Facts.good (init fs) s) : KInv s := by
  induction hr with
  | refl => constructor <;> simp [init]
  | tail _ hst ih => obtain ⟨e, he⟩ := hst; exact kinv_step _ _ e ih he

/-- **A kicked endpoint loses its control connection**: whenever a newer endpoint has
    taken the name and nothing can move any more, the old websocket has been closed —
    whether or not the old endpoint answered the shutdown request. -/
theorem kick_severs (fs : List (Nat × Nat)) (s : St) (hr : Reach Facts.good (init fs) s)
    (hk : s.kicked = true) (hq : Quiescent Facts.good s) : s.ctl = false := by
  obtain ⟨k1, k2, _⟩ := kinv_reach fs s hr
  have := hq .kcClose rfl
  simp only [apply, Facts.good] at this
  cases h : s.kc
  · exact absurd h (k1 hk)
  · simp [h] at this
  · exact k2 h

/-- … and therefore everything of the kicked endpoint is torn down. -/
theorem kicked_torn_down (fs : List (Nat × Nat)) (s : St) (hr : Reach Facts.good (init fs) s)
    (hk : s.kicked = true) (hq : Quiescent Facts.good s) : Clean s :=
  proxy_no_stranded fs s hr (kick_severs fs s hr hk hq) hq

/-- **A graceful end is an end**: when the endpoint itself asked to stop (or the serve loop
    ended for any other reason) and nothing can move, `ServeBackName` has closed the
    websocket and everything is torn down. -/
theorem ended_torn_down (fs : List (Nat × Nat)) (s : St) (hr : Reach Facts.good (init fs) s)
    (ht : s.trDone = true) (hq : Quiescent Facts.good s) : Clean s := by
  have hk := kinv_reach fs s hr
  have a1 := hq .sbServeReturn rfl
  have a2 := hq .sbUnmap rfl
  have a3 := hq .sbClose rfl
  have a4 := hq .sbDisconnect rfl
  simp only [apply, ht] at a1 a2 a3 a4
  have hsb : s.sb = .returned := by cases h : s.sb <;> simp_all
  exact proxy_no_stranded fs s hr (hk.servedClosed (Or.inr hsb)) hq

/-! ### Executable runs, used for the witnesses below -/

def runEvs (F : Facts) (s : St) : List Ev → Option St
  | [] => some s
  | e :: es => match apply F s e with
    | some s' => runEvs F s' es
    | none => none

theorem reach_of_run (F : Facts) (s0 s u : St) (es : List Ev) (h0 : Reach F s0 s)
    (h : runEvs F s es = some u) : Reach F s0 u := by
  induction es generalizing s with
  | nil => simp [runEvs] at h; subst h; exact h0
  | cons e es ih =>
    simp only [runEvs] at h
    split at h
    · rename_i s' hs'
      exact ih s' (Reach.tail h0 ⟨e, hs'⟩) h
    · simp at h

def sysFEv : List FEv :=
  [.lookup, .dialOk, .dialErr, .dialCancel, .frontGone, .upWriteOk, .upWriteErr, .downReadOk, .downReadEof,
   .downReadErr, .downWriteDone, .cancelSeen, .caStart, .caTunnelOk, .caTunnelErr, .upExit, .downExit,
   .joinReturn, .finishOk, .finishErr, .dialSideOk, .sideGone, .sideCancel]

def sysEv : List Ev :=
  [.trExit, .kcClose, .sfStop, .sfReturn, .sbServeReturn, .sbUnmap, .sbClose, .sbDisconnect]

/-- decidable form of `Quiescent` -/
def quiescentB (F : Facts) (s : St) : Bool :=
  sysEv.all (fun e => apply F s e == none) &&
  (List.range s.fronts.length).all fun i => sysFEv.all fun e => apply F s (.front i e) == none

theorem quiescentB_sound (F : Facts) (s : St) (h : quiescentB F s = true) : Quiescent F s := by
  simp only [quiescentB, Bool.and_eq_true, List.all_eq_true, beq_iff_eq] at h
  obtain ⟨h1, h2⟩ := h
  intro e he
  cases e with
  | front i e =>
    by_cases hi : i < s.fronts.length
    · have hm : e ∈ sysFEv := by cases e <;> simp_all [Ev.isEnv, sysFEv]
      exact h2 i (List.mem_range.mpr hi) e hm
    · simp [apply, List.getElem?_eq_none (Nat.le_of_not_lt hi)]
  | _ => first
    | (simp [Ev.isEnv] at he; done)
    | (apply h1; simp [sysEv])

/-! ### The statement is not vacuous -/

/-- two front connections (one joined and mid-write, one still dialling), the network
    fails, everything is torn down: a reachable quiescent state with the connection gone -/
def demoRun : List Ev :=
  [.front 0 .arrive, .front 0 .lookup, .front 0 .dialOk, .front 0 .clientData,
   .front 1 .arrive, .front 1 .lookup, .sever, .trExit,
   .front 0 .upWriteErr, .front 0 .caStart, .front 0 .caTunnelErr, .front 0 .upExit,
   .front 0 .downReadErr, .front 0 .downExit, .front 0 .joinReturn, .front 0 .finishErr,
   .front 1 .dialErr, .sbServeReturn, .sbUnmap, .sbClose, .sbDisconnect]

example : ∃ s, Reach Facts.good (init [(1, 0), (0, 0)]) s ∧ s.ctl = false ∧ Quiescent Facts.good s ∧
    s.fronts.all (fun f => f.hs == .done && f.frontClosed) = true := by
  have hrun : ∃ s, runEvs Facts.good (init [(1, 0), (0, 0)]) demoRun = some s := by
    cases h : runEvs Facts.good (init [(1, 0), (0, 0)]) demoRun with
    | none => exact absurd h (by decide)
    | some s => exact ⟨s, rfl⟩
  obtain ⟨s, hs⟩ := hrun
  have hd : (runEvs Facts.good (init [(1, 0), (0, 0)]) demoRun).all
      (fun s => s.ctl == false && quiescentB Facts.good s &&
        s.fronts.all (fun f => f.hs == .done && f.frontClosed)) = true := by decide
  rw [hs] at hd
  simp only [Option.all_some, Bool.and_eq_true, beq_iff_eq] at hd
  exact ⟨s, reach_of_run _ _ _ _ _ Reach.refl hs, hd.1.1, quiescentB_sound _ _ hd.1.2, hd.2⟩

/-! ### Each fact is needed -/

/-- a stuck state for the facts `F`: reachable, control connection gone (or the name
    taken by a newer endpoint), no system step possible, and not torn down -/
def Stuck (F : Facts) (fs : List (Nat × Nat)) : Prop :=
  ∃ s, Reach F (init fs) s ∧ (s.ctl = false ∨ s.kicked = true) ∧ Quiescent F s ∧ ¬ Clean s

/-- decidable certificate for `Stuck` -/
def stuckB (F : Facts) (fs : List (Nat × Nat)) (es : List Ev) (bad : St → Bool) : Bool :=
  (runEvs F (init fs) es).any fun s => (s.ctl == false || s.kicked) && quiescentB F s && bad s

theorem stuck_of_cert (F : Facts) (fs : List (Nat × Nat)) (es : List Ev) (bad : St → Bool)
    (hbad : ∀ s, bad s = true → ¬ Clean s) (h : stuckB F fs es bad = true) : Stuck F fs := by
  unfold stuckB at h
  cases hr : runEvs F (init fs) es with
  | none => simp [hr] at h
  | some s =>
    simp only [hr, Option.any_some, Bool.and_eq_true, Bool.or_eq_true, beq_iff_eq] at h
    exact ⟨s, reach_of_run _ _ _ _ _ Reach.refl hr, h.1.1, quiescentB_sound _ _ h.1.2, hbad s h.2⟩

def frontOpen (s : St) : Bool := s.fronts.any fun f => f.hs != .notYet && f.hs != .elsewhere && !f.frontClosed

theorem frontOpen_bad (s : St) (h : frontOpen s = true) : ¬ Clean s := by
  intro hc
  simp only [frontOpen, List.any_eq_true, Bool.and_eq_true, bne_iff_ne, Bool.not_eq_true'] at h
  obtain ⟨f, hf, ⟨h1, h2⟩, h3⟩ := h
  rcases hc.fronts f hf with h | h | h
  · simp [h.2] at h3
  · exact h2 h
  · exact h1 h

/-- without the deferred `closeAll` in the copy goroutines: the tunnel→front copier ends
    on the dead tunnel, the front→tunnel copier waits for the client for ever -/
theorem without_joinDefersCloseAll : Stuck { Facts.good with joinDefersCloseAll := false } [(0, 0)] :=
  stuck_of_cert _ _ [.front 0 .arrive, .front 0 .lookup, .front 0 .dialOk, .sever, .trExit,
    .front 0 .downReadErr, .sbServeReturn, .sbUnmap, .sbClose, .sbDisconnect] frontOpen frontOpen_bad (by decide)

/-- if `closeAll` closed only the tunnel: the front connection stays open and its reader blocked -/
theorem without_closeAllClosesBoth : Stuck { Facts.good with closeAllClosesBoth := false } [(0, 0)] :=
  stuck_of_cert _ _ [.front 0 .arrive, .front 0 .lookup, .front 0 .dialOk, .sever, .trExit,
    .front 0 .downReadErr, .front 0 .caStart, .front 0 .caTunnelErr, .front 0 .downExit,
    .sbServeReturn, .sbUnmap, .sbClose, .sbDisconnect] frontOpen frontOpen_bad (by decide)

/-- without `defer conn.Close()` in `hostConn`: a dial that fails on the dead endpoint
    leaves the client's connection open -/
theorem without_hostDefersFrontClose : Stuck { Facts.good with hostDefersFrontClose := false } [(0, 0)] :=
  stuck_of_cert _ _ [.front 0 .arrive, .front 0 .lookup, .sever, .trExit, .front 0 .dialErr,
    .sbServeReturn, .sbUnmap, .sbClose, .sbDisconnect] frontOpen frontOpen_bad (by decide)

/-- without the unmap in `ServeBackName`: the name stays registered to a dead endpoint -/
theorem without_serveBackUnmaps : Stuck { Facts.good with serveBackUnmaps := false } [] :=
  stuck_of_cert _ _ [.sever, .trExit, .sbServeReturn, .sbUnmap, .sbClose, .sbDisconnect]
    (fun s => s.registered) (fun s h hc => by simp [hc.unregistered] at h) (by decide)

/-- without the disconnect report -/
theorem without_reportsDisconnect : Stuck { Facts.good with reportsDisconnect := false } [] :=
  stuck_of_cert _ _ [.sever, .trExit, .sbServeReturn, .sbUnmap, .sbClose, .sbDisconnect]
    (fun s => s.disconnects != 1) (fun s h hc => by simp [hc.disconnectOnce] at h) (by decide)

/-- if `endpointClient.Close` did not always close the websocket: a kicked endpoint
    that does not answer the shutdown request keeps its connection, its serve loop and
    its front connections for ever -/
theorem without_closeClosesConn : Stuck { Facts.good with closeClosesConn := false } [] :=
  stuck_of_cert _ _ [.kick, .kcClose] (fun s => !s.trDone) (fun s h hc => by simp [hc.trDone] at h) (by decide)

/-- if the shutdown call had no timeout: the kick helper waits for ever on an endpoint that does not answer -/
theorem without_shutdownHasTimeout : Stuck { Facts.good with shutdownHasTimeout := false } [] :=
  stuck_of_cert _ _ [.kick] (fun s => s.kc == .closing) (fun s h hc => by simp at h; exact hc.kickHelper h) (by decide)

/-- side mode, if the wait for the side websocket did not watch the endpoint's transport:
    a dial that the endpoint answered, and whose side connection never arrives because the
    endpoint went away, waits for ever and keeps the client's connection open (the defect
    repaired by 74c0210) -/
theorem without_sideDialSelectsGone : Stuck { Facts.good with sideDialSelectsGone := false } [(0, 0)] :=
  stuck_of_cert _ _ [.front 0 .arrive, .front 0 .lookup, .front 0 .dialSideOk, .sever, .trExit,
    .sbServeReturn, .sbUnmap, .sbClose, .sbDisconnect] frontOpen frontOpen_bad (by decide)

/-- … and with it, a side dial in flight when the endpoint goes away ends: a reachable
    quiescent state in which the waiting `hostConn` has returned and closed the client's connection -/
example : ∃ s, Reach Facts.good (init [(0, 0)]) s ∧ s.ctl = false ∧ Quiescent Facts.good s ∧
    s.fronts.all (fun f => f.hs == .done && f.frontClosed) = true := by
  let run : List Ev := [.front 0 .arrive, .front 0 .lookup, .front 0 .dialSideOk, .sever, .trExit,
    .front 0 .sideGone, .sbServeReturn, .sbUnmap, .sbClose, .sbDisconnect]
  cases h : runEvs Facts.good (init [(0, 0)]) run with
  | none => exact absurd h (by decide)
  | some s =>
    have hd : (runEvs Facts.good (init [(0, 0)]) run).all
        (fun s => s.ctl == false && quiescentB Facts.good s &&
          s.fronts.all (fun f => f.hs == .done && f.frontClosed)) = true := by decide
    rw [h] at hd
    simp only [Option.all_some, Bool.and_eq_true, beq_iff_eq] at hd
    exact ⟨s, reach_of_run _ _ _ _ _ Reach.refl h, hd.1.1, quiescentB_sound _ _ hd.1.2, hd.2⟩

end PubModel.C04.Proxy
