/-
C04, endpoint side — `Accept` and `Close` return after the tunnel is gone, the serve
loop ends, every handler goroutine finishes and every multiplexed session is closed
(so the application's connections see EOF), within a bounded number of steps.

`ep_no_stranded` holds for every well-formed state (`WF` is an invariant of the
system: `wf_init`, `wf_step`), not only for particular scenarios.  For each fact read
from the source a `without_*` theorem exhibits a reachable stuck state when it is false.
-/
import PubModel.Sni.EpTeardown

set_option linter.unusedSimpArgs false

namespace PubModel.C04.Ep
open PubModel.Sni.EpTeardown

/-! ### Bounded teardown -/

def wH : H → Nat
  | .readWait _ => 2 | .writeWait _ => 2 | .closeReq _ => 2 | .dialSend => 3 | .dialAdd => 2
  | .respond => 1 | .finished => 0 | .finishedLeaked => 0

def wLoop : Loop → Nat
  | .reading => 4 | .cleaning => 3 | .waiting => 2 | .signalling => 1 | .returned => 0

def wAS : AS → Nat
  | .waiting => 1 | .returned => 0

def wCL : CL → Nat
  | .notCalled => 4 | .hinting => 3 | .waiting => 2 | .closing => 1 | .returned => 0

def measure (s : St) : Nat :=
  (s.handlers.map wH).sum + wLoop s.loop + (s.accepts.map wAS).sum + wCL s.cl

theorem sum_map_set {α : Type} (w : α → Nat) (l : List α) (i : Nat) (a a' : α) (h : l[i]? = some a) :
    ((l.set i a').map w).sum + w a = (l.map w).sum + w a' := by
  induction l generalizing i with
  | nil => simp at h
  | cons x l ih =>
    cases i with
    | zero => simp at h; subst h; simp; omega
    | succ i =>
      have := ih i (by simpa using h)
      simp at this ⊢
      omega

/-- every step other than a new `Accept` call strictly decreases the measure once the websocket is gone -/
theorem step_decreases (F : Facts) (s s' : St) (e : Ev) (hc : s.ctl = false) (hne : e ≠ .acceptCall)
    (h : apply F s e = some s') : measure s' < measure s := by
  have hset : ∀ (i : Nat) (x y : H), s.handlers[i]? = some x → wH y < wH x →
      ((s.handlers.set i y).map wH).sum < (s.handlers.map wH).sum := by
    intro i x y hx hlt
    have := sum_map_set wH s.handlers i x y hx
    omega
  have haset : ∀ (i : Nat), s.accepts[i]? = some .waiting →
      ((s.accepts.set i .returned).map wAS).sum < (s.accepts.map wAS).sum := by
    intro i hx
    have := sum_map_set wAS s.accepts i .waiting .returned hx
    simp only [wAS] at this
    omega
  cases e with
  | acceptCall => exact absurd rfl hne
  | sever => simp [apply, hc] at h
  | shutdownMsg => simp [apply, hc] at h
  | spawnRead sid => simp [apply, hc] at h
  | spawnWrite sid => simp [apply, hc] at h
  | spawnClose sid => simp [apply, hc] at h
  | spawnDial => simp [apply, hc] at h
  | appWrites i =>
    simp only [apply] at h
    split at h
    · rename_i sid hx
      split at h <;> simp at h
      subst h
      have := hset i _ .respond hx (by simp [wH])
      simp only [measure, setH]; omega
    · simp at h
  | appReads i =>
    simp only [apply] at h
    split at h
    · rename_i sid hx
      split at h <;> simp at h
      subst h
      have := hset i _ .respond hx (by simp [wH])
      simp only [measure, setH]; omega
    · simp at h
  | closeCall =>
    simp only [apply] at h; split at h <;> simp at h; subst h
    rename_i hg; simp [measure, hg, wCL]
  | readFail =>
    simp only [apply] at h; split at h <;> simp at h; subst h
    rename_i hg
    cases hf : F.serveDefersCleanup <;> simp [measure, leaveReading, hg.2, hf, wLoop]
  | cleanup =>
    simp only [apply] at h; split at h <;> simp at h; subst h
    rename_i hg; simp [measure, hg, wLoop]
  | waitDone =>
    simp only [apply] at h; split at h <;> simp at h; subst h
    rename_i hg; simp [measure, hg.1, wLoop]
  | signal =>
    simp only [apply] at h; split at h <;> simp at h; subst h
    rename_i hg; simp [measure, hg, wLoop]
  | pipeClosed i =>
    simp only [apply] at h
    split at h
    · rename_i sid hx
      split at h <;> simp at h
      subst h
      have := hset i _ .respond hx (by simp [wH])
      simp only [measure, setH]; omega
    · rename_i sid hx
      split at h <;> simp at h
      subst h
      have := hset i _ .respond hx (by simp [wH])
      simp only [measure, setH]; omega
    · simp at h
  | closeSession i =>
    simp only [apply] at h
    split at h
    · rename_i sid hx
      simp at h; subst h
      have := hset i _ .respond hx (by simp [wH])
      simp only [measure, setH]; omega
    · simp at h
  | deliver i =>
    simp only [apply] at h
    split at h
    · rename_i hx
      split at h <;> simp at h
      subst h
      have := hset i _ .dialAdd hx (by simp [wH])
      simp only [measure, setH]; omega
    · simp at h
  | dialTimeout i =>
    simp only [apply] at h
    split at h
    · rename_i hx
      split at h <;> simp at h
      subst h
      have := hset i _ .respond hx (by simp [wH])
      simp only [measure, setH]; omega
    · simp at h
  | dialClosedSeen i =>
    simp only [apply] at h
    split at h
    · rename_i hx
      split at h <;> simp at h
      subst h
      have := hset i _ .respond hx (by simp [wH])
      simp only [measure, setH]; omega
    · simp at h
  | add i =>
    simp only [apply] at h
    split at h
    · rename_i hx
      split at h
      · simp at h; subst h
        have h1 := hset i _ .respond hx (by simp [wH])
        have h2 := hset i _ .finishedLeaked hx (by simp [wH])
        cases hf : F.dialCleansUnlessAdded <;> simp only [measure, setH, hf, if_true, if_false, Bool.false_eq_true] <;> omega
      · simp at h; subst h
        have := hset i _ .respond hx (by simp [wH])
        simp only [measure, setH]; omega
    · simp at h
  | respond i =>
    simp only [apply] at h
    split at h
    · rename_i hx
      simp at h; subst h
      have := hset i _ .finished hx (by simp [wH])
      simp only [measure, setH]; omega
    · simp at h
  | acceptTake a =>
    simp only [apply] at h
    split at h
    · rename_i hx
      split at h <;> simp at h
      subst h
      have := haset a hx
      simp only [measure]; omega
    · simp at h
  | acceptDone a =>
    simp only [apply] at h
    split at h
    · rename_i hx
      split at h <;> simp at h
      subst h
      have := haset a hx
      simp only [measure]; omega
    · simp at h
  | closeHint =>
    simp only [apply] at h; split at h <;> simp at h; subst h
    rename_i hg; simp [measure, hg, wCL]
  | closeWake =>
    simp only [apply] at h; split at h <;> simp at h; subst h
    rename_i hg; simp [measure, hg.1, wCL]
  | closeFinish =>
    simp only [apply] at h; split at h <;> simp at h; subst h
    rename_i hg; simp [measure, hg, wCL]

/-- a new `Accept` call costs one -/
theorem acceptCall_measure (F : Facts) (s s' : St) (h : apply F s .acceptCall = some s') :
    measure s' = measure s + 1 := by
  simp [apply] at h; subst h; simp [measure, wAS]; omega

theorem ctl_stays_dead (F : Facts) (s s' : St) (e : Ev) (hc : s.ctl = false)
    (h : apply F s e = some s') : s'.ctl = false := by
  cases e <;> simp only [apply] at h <;> (try split at h) <;> (try split at h) <;> (try split at h) <;>
    (try simp at h) <;> (try subst h) <;> simp_all [setH, leaveReading]

def runEvs (F : Facts) (s : St) : List Ev → Option St
  | [] => some s
  | e :: es => match apply F s e with
    | some s' => runEvs F s' es
    | none => none

/-- **Bounded teardown of the endpoint side**: after the websocket is gone, an execution
    of `n` steps — any interleaving, any application behaviour — in which the
    application makes `k` new `Accept` calls has `n ≤ measure s + 2k`. -/
theorem teardown_bounded (F : Facts) (es : List Ev) (s u : St) (hr : runEvs F s es = some u)
    (hc : s.ctl = false) : es.length ≤ measure s + 2 * es.count .acceptCall := by
  induction es generalizing s with
  | nil => simp
  | cons e es ih =>
    simp only [runEvs] at hr
    split at hr
    · rename_i s' hs'
      have h2 := ih s' hr (ctl_stays_dead F _ _ e hc hs')
      by_cases he : e = .acceptCall
      · subst he
        have := acceptCall_measure F _ _ hs'
        simp [List.count_cons]; omega
      · have := step_decreases F _ _ e hc he hs'
        have hcnt : (e :: es).count .acceptCall = es.count .acceptCall := by
          simp [List.count_cons, he]
        rw [hcnt]; simp; omega
    · simp at hr

/-! ### Nothing is stranded -/

structure WF (s : St) : Prop where
  closedAll : s.connsClosed = true → ∀ b ∈ s.sessions, b = false
  pastCleanup : (s.loop = .waiting ∨ s.loop = .signalling ∨ s.loop = .returned) → s.connsClosed = true
  signalled : s.loop = .returned → s.serveDone = true
  noLeak : ∀ h ∈ s.handlers, h ≠ .finishedLeaked

structure Clean (s : St) : Prop where
  loopReturned : s.loop = .returned
  serveDone : s.serveDone = true
  handlers : ∀ h ∈ s.handlers, h = .finished
  sessions : ∀ b ∈ s.sessions, b = false
  accepts : ∀ a ∈ s.accepts, a = .returned
  close : s.cl = .notCalled ∨ s.cl = .returned

theorem wf_init : WF init := by constructor <;> simp [init]

theorem mem_set_cases {α : Type} (l : List α) (i : Nat) (a b : α) (h : b ∈ l.set i a) : b = a ∨ b ∈ l := by
  induction l generalizing i with
  | nil => simp at h
  | cons x l ih =>
    cases i with
    | zero => simp at h; rcases h with h | h <;> simp [h]
    | succ i =>
      simp at h
      rcases h with h | h
      · simp [h]
      · rcases ih i h with h | h <;> simp [h]

theorem wf_setH (s : St) (i : Nat) (x : H) (hx : x ≠ .finishedLeaked) (hw : WF s) : WF (setH s i x) := by
  obtain ⟨w1, w2, w3, w4⟩ := hw
  refine ⟨w1, w2, w3, ?_⟩
  intro h hh
  rcases mem_set_cases _ _ _ _ hh with hh | hh
  · subst hh; exact hx
  · exact w4 h hh

theorem wf_step (s s' : St) (e : Ev) (hw : WF s) (h : apply Facts.good s e = some s') : WF s' := by
  have hw' := hw
  obtain ⟨w1, w2, w3, w4⟩ := hw
  cases e with
  | sever => simp only [apply] at h; split at h <;> simp at h; subst h; exact ⟨w1, w2, w3, w4⟩
  | shutdownMsg =>
    simp only [apply] at h; split at h <;> simp at h; subst h
    rename_i hg
    refine ⟨w1, ?_, ?_, w4⟩ <;> simp [leaveReading, Facts.good]
  | spawnRead sid =>
    simp only [apply] at h; split at h <;> simp at h; subst h
    refine ⟨w1, w2, w3, ?_⟩
    intro x hx; simp at hx; rcases hx with hx | hx
    · exact w4 x hx
    · simp [hx]
  | spawnWrite sid =>
    simp only [apply] at h; split at h <;> simp at h; subst h
    refine ⟨w1, w2, w3, ?_⟩
    intro x hx; simp at hx; rcases hx with hx | hx
    · exact w4 x hx
    · simp [hx]
  | spawnClose sid =>
    simp only [apply] at h; split at h <;> simp at h; subst h
    refine ⟨w1, w2, w3, ?_⟩
    intro x hx; simp at hx; rcases hx with hx | hx
    · exact w4 x hx
    · simp [hx]
  | spawnDial =>
    simp only [apply] at h; split at h <;> simp at h; subst h
    refine ⟨w1, w2, w3, ?_⟩
    intro x hx; simp at hx; rcases hx with hx | hx
    · exact w4 x hx
    · simp [hx]
  | appWrites i =>
    simp only [apply] at h
    split at h
    · split at h <;> simp at h
      subst h; exact wf_setH _ _ _ (by simp) hw'
    · simp at h
  | appReads i =>
    simp only [apply] at h
    split at h
    · split at h <;> simp at h
      subst h; exact wf_setH _ _ _ (by simp) hw'
    · simp at h
  | acceptCall => simp [apply] at h; subst h; exact ⟨w1, w2, w3, w4⟩
  | closeCall => simp only [apply] at h; split at h <;> simp at h; subst h; exact ⟨w1, w2, w3, w4⟩
  | readFail =>
    simp only [apply] at h; split at h <;> simp at h; subst h
    refine ⟨w1, ?_, ?_, w4⟩ <;> simp [leaveReading, Facts.good]
  | cleanup =>
    simp only [apply] at h; split at h <;> simp at h; subst h
    refine ⟨?_, ?_, ?_, w4⟩ <;> simp [Facts.good]
  | waitDone =>
    simp only [apply] at h; split at h <;> simp at h; subst h
    rename_i hg
    exact ⟨w1, fun _ => w2 (Or.inl hg.1), by simp, w4⟩
  | signal =>
    simp only [apply] at h; split at h <;> simp at h; subst h
    rename_i hg
    exact ⟨w1, fun _ => w2 (Or.inr (Or.inl hg)), by simp [Facts.good], w4⟩
  | pipeClosed i =>
    simp only [apply] at h
    split at h
    · split at h <;> simp at h
      subst h; exact wf_setH _ _ _ (by simp) hw'
    · split at h <;> simp at h
      subst h; exact wf_setH _ _ _ (by simp) hw'
    · simp at h
  | closeSession i =>
    simp only [apply] at h
    split at h
    · simp at h; subst h
      have := wf_setH s i .respond (by simp) hw'
      obtain ⟨v1, v2, v3, v4⟩ := this
      refine ⟨?_, v2, v3, v4⟩
      intro hcl b hb
      simp only [setH] at hcl hb
      simp [hcl] at hb
      exact w1 hcl b hb
    · simp at h
  | deliver i =>
    simp only [apply] at h
    split at h
    · split at h <;> simp at h
      subst h
      have := wf_setH s i .dialAdd (by simp) hw'
      exact ⟨this.1, this.2, this.3, this.4⟩
    · simp at h
  | dialTimeout i =>
    simp only [apply] at h
    split at h
    · split at h <;> simp at h
      subst h; exact wf_setH _ _ _ (by simp) hw'
    · simp at h
  | dialClosedSeen i =>
    simp only [apply] at h
    split at h
    · split at h <;> simp at h
      subst h; exact wf_setH _ _ _ (by simp) hw'
    · simp at h
  | add i =>
    simp only [apply] at h
    split at h
    · split at h
      · simp at h; subst h
        simp only [Facts.good, if_true]
        exact wf_setH _ _ _ (by simp) hw'
      · rename_i hn
        simp at h; subst h
        have hncl : s.connsClosed = false := by
          cases hcc : s.connsClosed <;> simp_all [Facts.good]
        have := wf_setH s i .respond (by simp) hw'
        obtain ⟨v1, v2, v3, v4⟩ := this
        refine ⟨?_, v2, v3, v4⟩
        intro hcl
        simp [setH, hncl] at hcl
    · simp at h
  | respond i =>
    simp only [apply] at h
    split at h
    · simp at h; subst h; exact wf_setH _ _ _ (by simp) hw'
    · simp at h
  | acceptTake a =>
    simp only [apply] at h
    split at h
    · split at h <;> simp at h
      subst h; exact ⟨w1, w2, w3, w4⟩
    · simp at h
  | acceptDone a =>
    simp only [apply] at h
    split at h
    · split at h <;> simp at h
      subst h; exact ⟨w1, w2, w3, w4⟩
    · simp at h
  | closeHint => simp only [apply] at h; split at h <;> simp at h; subst h; exact ⟨w1, w2, w3, w4⟩
  | closeWake => simp only [apply] at h; split at h <;> simp at h; subst h; exact ⟨w1, w2, w3, w4⟩
  | closeFinish => simp only [apply] at h; split at h <;> simp at h; subst h; exact ⟨w1, w2, w3, w4⟩

theorem wf_reach (s : St) (hr : Reach Facts.good init s) : WF s := by
  induction hr with
  | refl => exact wf_init
  | tail _ hst ih => obtain ⟨e, he⟩ := hst; exact wf_step _ _ e ih he

theorem getD_all_false (l : List Bool) (i : Nat) (h : ∀ b ∈ l, b = false) : l[i]?.getD false = false := by
  by_cases hi : i < l.length
  · have : l[i]? = some l[i] := List.getElem?_eq_getElem hi
    simp [this, h _ (List.getElem_mem hi)]
  · simp [List.getElem?_eq_none (Nat.le_of_not_lt hi)]

/-- **Nothing on the endpoint side is stranded.**  In every well-formed state (hence in
    every reachable one) in which the websocket is gone and no goroutine can move: the
    serve loop has returned and signalled it, every handler has finished, every session
    is closed, every `Accept` call and the `Close` call have returned. -/
theorem ep_no_stranded (s : St) (hw : WF s) (hc : s.ctl = false) (hq : Quiescent Facts.good s) : Clean s := by
  obtain ⟨w1, w2, w3, w4⟩ := hw
  have l1 := hq .readFail rfl
  have l2 := hq .cleanup rfl
  have l3 := hq .signal rfl
  have l4 := hq .waitDone rfl
  simp only [apply, hc] at l1 l2 l3 l4
  have hloop : s.loop = .waiting ∨ s.loop = .returned := by
    cases h : s.loop <;> simp_all
  have hcc : s.connsClosed = true := w2 (by rcases hloop with h | h <;> simp [h])
  have hsess := w1 hcc
  have hh : ∀ h ∈ s.handlers, h = .finished := by
    intro h hm
    obtain ⟨i, hi, hget⟩ := List.getElem_of_mem hm
    have hg : s.handlers[i]? = some h := by simp [List.getElem?_eq_getElem hi, hget]
    have a1 := hq (.pipeClosed i) rfl
    have a2 := hq (.closeSession i) rfl
    have a3 := hq (.dialTimeout i) rfl
    have a4 := hq (.add i) rfl
    have a5 := hq (.respond i) rfl
    simp only [apply, hg] at a1 a2 a3 a4 a5
    cases h with
    | readWait sid => simp [sessOpen, getD_all_false _ sid hsess] at a1
    | writeWait sid => simp [sessOpen, getD_all_false _ sid hsess] at a1
    | closeReq sid => simp at a2
    | dialSend => simp [Facts.good] at a3
    | dialAdd => simp at a4; split at a4 <;> simp at a4
    | respond => simp at a5
    | finished => rfl
    | finishedLeaked => exact absurd rfl (w4 _ hm)
  have hall : s.handlers.all (fun h => h == .finished || h == .finishedLeaked) = true := by
    simp only [List.all_eq_true]
    intro h hm; simp [hh h hm]
  have hret : s.loop = .returned := by
    rcases hloop with h | h
    · simp [h, hall] at l4
    · exact h
  have hsd := w3 hret
  refine ⟨hret, hsd, hh, hsess, ?_, ?_⟩
  · intro a ha
    obtain ⟨i, hi, hget⟩ := List.getElem_of_mem ha
    have hg : s.accepts[i]? = some a := by simp [List.getElem?_eq_getElem hi, hget]
    have := hq (.acceptDone i) rfl
    simp only [apply, hg] at this
    cases a with
    | waiting => simp [Facts.good, hsd] at this
    | returned => rfl
  · have c1 := hq .closeHint rfl
    have c2 := hq .closeWake rfl
    have c3 := hq .closeFinish rfl
    simp only [apply, Facts.good] at c1 c2 c3
    cases h : s.cl <;> simp_all

theorem ep_no_stranded_reach (s : St) (hr : Reach Facts.good init s) (hc : s.ctl = false)
    (hq : Quiescent Facts.good s) : Clean s :=
  ep_no_stranded s (wf_reach s hr) hc hq

end PubModel.C04.Ep

namespace PubModel.C04.Ep
open PubModel.Sni.EpTeardown

/-! ### `Close` ends the tunnel -/

structure CInv (s : St) : Prop where
  closedConn : s.cl = .returned → s.ctl = false

theorem cinv_step (s s' : St) (e : Ev) (hi : CInv s) (h : apply Facts.good s e = some s') : CInv s' := by
  obtain ⟨c1⟩ := hi
  constructor
  cases e <;> simp only [apply] at h <;> (try split at h) <;> (try split at h) <;> (try split at h) <;>
    (try simp at h) <;> (try subst h) <;> simp_all [setH, leaveReading, Facts.good]

theorem cinv_reach (s : St) (hr : Reach Facts.good init s) : CInv s := by
  induction hr with
  | refl => constructor; simp [init]
  | tail _ hst ih => obtain ⟨e, he⟩ := hst; exact cinv_step _ _ e ih he

/-- **`Close` returns and takes the tunnel down**, whether or not the proxy reacts: once
    `Close` has been called and nothing can move, it has returned and the websocket is closed;
    hence (`ep_no_stranded`) everything else has ended too. -/
theorem close_returns (s : St) (hr : Reach Facts.good init s) (hcl : s.cl ≠ .notCalled)
    (hq : Quiescent Facts.good s) : s.cl = .returned ∧ s.ctl = false ∧ Clean s := by
  have c1 := hq .closeHint rfl
  have c2 := hq .closeWake rfl
  have c3 := hq .closeFinish rfl
  simp only [apply, Facts.good] at c1 c2 c3
  have hret : s.cl = .returned := by cases h : s.cl <;> simp_all
  have hctl := (cinv_reach s hr).closedConn hret
  exact ⟨hret, hctl, ep_no_stranded s (wf_reach s hr) hctl hq⟩

/-! ### Executable certificates -/

theorem reach_of_run (F : Facts) (s0 s u : St) (es : List Ev) (h0 : Reach F s0 s)
    (h : runEvs F s es = some u) : Reach F s0 u := by
  induction es generalizing s with
  | nil => simp [runEvs] at h; subst h; exact h0
  | cons e es ih =>
    simp only [runEvs] at h
    split at h
    · rename_i s' hs'
      exact ih s' (Reach.tail h0 ⟨e, hs'⟩) h
    · simp at h

def sysEv : List Ev := [.readFail, .cleanup, .waitDone, .signal, .closeHint, .closeWake, .closeFinish]

def sysHEv (h : Nat) : List Ev :=
  [.pipeClosed h, .closeSession h, .deliver h, .dialTimeout h, .dialClosedSeen h, .add h, .respond h]

def sysAEv (a : Nat) : List Ev := [.acceptTake a, .acceptDone a]

def quiescentB (F : Facts) (s : St) : Bool :=
  sysEv.all (fun e => apply F s e == none) &&
  ((List.range s.handlers.length).all fun h => (sysHEv h).all fun e => apply F s e == none) &&
  ((List.range s.accepts.length).all fun a => (sysAEv a).all fun e => apply F s e == none)

theorem quiescentB_sound (F : Facts) (s : St) (h : quiescentB F s = true) : Quiescent F s := by
  simp only [quiescentB, Bool.and_eq_true, List.all_eq_true, beq_iff_eq] at h
  obtain ⟨⟨h1, h2⟩, h3⟩ := h
  have hh : ∀ (i : Nat) (e : Ev), e ∈ sysHEv i → (s.handlers[i]? = none → apply F s e = none) →
      apply F s e = none := by
    intro i e he hnone
    by_cases hi : i < s.handlers.length
    · exact h2 i (List.mem_range.mpr hi) e he
    · exact hnone (List.getElem?_eq_none (Nat.le_of_not_lt hi))
  have ha : ∀ (i : Nat) (e : Ev), e ∈ sysAEv i → (s.accepts[i]? = none → apply F s e = none) →
      apply F s e = none := by
    intro i e he hnone
    by_cases hi : i < s.accepts.length
    · exact h3 i (List.mem_range.mpr hi) e he
    · exact hnone (List.getElem?_eq_none (Nat.le_of_not_lt hi))
  intro e he
  cases e with
  | pipeClosed i => exact hh i _ (by simp [sysHEv]) (fun hn => by simp [apply, hn])
  | closeSession i => exact hh i _ (by simp [sysHEv]) (fun hn => by simp [apply, hn])
  | deliver i => exact hh i _ (by simp [sysHEv]) (fun hn => by simp [apply, hn])
  | dialTimeout i => exact hh i _ (by simp [sysHEv]) (fun hn => by simp [apply, hn])
  | dialClosedSeen i => exact hh i _ (by simp [sysHEv]) (fun hn => by simp [apply, hn])
  | add i => exact hh i _ (by simp [sysHEv]) (fun hn => by simp [apply, hn])
  | respond i => exact hh i _ (by simp [sysHEv]) (fun hn => by simp [apply, hn])
  | acceptTake a => exact ha a _ (by simp [sysAEv]) (fun hn => by simp [apply, hn])
  | acceptDone a => exact ha a _ (by simp [sysAEv]) (fun hn => by simp [apply, hn])
  | _ => first
    | (simp [Ev.isEnv] at he; done)
    | (apply h1; simp [sysEv])

/-! ### The statement is not vacuous -/

/-- a session being read, a dial whose connection is waiting to be accepted, a second
    dial still offering its connection, an `Accept` call and a `Close` call in flight,
    then the websocket is lost: everything ends -/
def demoRun : List Ev :=
  [.spawnDial, .deliver 0, .add 0, .respond 0, .spawnRead 0, .spawnDial, .deliver 2, .spawnDial,
   .acceptCall, .closeCall, .closeHint, .sever, .readFail, .cleanup, .pipeClosed 1, .respond 1,
   .add 2, .respond 2, .dialTimeout 3, .respond 3, .waitDone, .signal, .acceptTake 0, .closeWake, .closeFinish]

example : ∃ s, Reach Facts.good init s ∧ s.ctl = false ∧ Quiescent Facts.good s ∧ s.handlers.length = 4 ∧
    s.sessions = [false] := by
  have hd : (runEvs Facts.good init demoRun).any
      (fun s => s.ctl == false && quiescentB Facts.good s && s.handlers.length == 4 && s.sessions == [false]) = true := by
    decide
  cases hs : runEvs Facts.good init demoRun with
  | none => simp [hs] at hd
  | some s =>
    simp only [hs, Option.any_some, Bool.and_eq_true, beq_iff_eq] at hd
    exact ⟨s, reach_of_run _ _ _ _ _ Reach.refl hs, hd.1.1.1, quiescentB_sound _ _ hd.1.1.2, hd.1.2, hd.2⟩

/-! ### Each fact is needed -/

/-- a stuck state: reachable, the websocket gone or `Close` called, no system step possible, not torn down -/
def Stuck (F : Facts) : Prop :=
  ∃ s, Reach F init s ∧ (s.ctl = false ∨ s.cl ≠ .notCalled) ∧ Quiescent F s ∧ ¬ Clean s

def stuckB (F : Facts) (es : List Ev) (bad : St → Bool) : Bool :=
  (runEvs F init es).any fun s => (s.ctl == false || s.cl != .notCalled) && quiescentB F s && bad s

theorem stuck_of_cert (F : Facts) (es : List Ev) (bad : St → Bool)
    (hbad : ∀ s, bad s = true → ¬ Clean s) (h : stuckB F es bad = true) : Stuck F := by
  unfold stuckB at h
  cases hr : runEvs F init es with
  | none => simp [hr] at h
  | some s =>
    simp only [hr, Option.any_some, Bool.and_eq_true, Bool.or_eq_true, beq_iff_eq, bne_iff_ne] at h
    exact ⟨s, reach_of_run _ _ _ _ _ Reach.refl hr, h.1.1, quiescentB_sound _ _ h.1.2, hbad s h.2⟩

def sessionOpen (s : St) : Bool := s.sessions.any id

theorem sessionOpen_bad (s : St) (h : sessionOpen s = true) : ¬ Clean s := by
  intro hc
  simp only [sessionOpen, List.any_eq_true, id] at h
  obtain ⟨b, hb, hbt⟩ := h
  have := hc.sessions b hb
  simp [this] at hbt

def handlerLeft (s : St) : Bool := s.handlers.any (· != .finished)

theorem handlerLeft_bad (s : St) (h : handlerLeft s = true) : ¬ Clean s := by
  intro hc
  simp only [handlerLeft, List.any_eq_true, bne_iff_ne] at h
  obtain ⟨x, hx, hne⟩ := h
  exact hne (hc.handlers x hx)

def acceptLeft (s : St) : Bool := s.accepts.any (· != .returned)

theorem acceptLeft_bad (s : St) (h : acceptLeft s = true) : ¬ Clean s := by
  intro hc
  simp only [acceptLeft, List.any_eq_true, bne_iff_ne] at h
  obtain ⟨x, hx, hne⟩ := h
  exact hne (hc.accepts x hx)

/-- without the deferred clean-up: the sessions stay open, the application's
    connections never see EOF -/
theorem without_serveDefersCleanup : Stuck { Facts.good with serveDefersCleanup := false } :=
  stuck_of_cert _ [.spawnDial, .deliver 0, .add 0, .respond 0, .sever, .readFail, .signal]
    sessionOpen sessionOpen_bad (by decide)

/-- if `cleanup` did not close the sessions -/
theorem without_cleanupClosesAll : Stuck { Facts.good with cleanupClosesAll := false } :=
  stuck_of_cert _ [.spawnDial, .deliver 0, .add 0, .respond 0, .sever, .readFail, .cleanup, .waitDone, .signal]
    sessionOpen sessionOpen_bad (by decide)

/-- if `connections.add` accepted after shutdown: a dial racing with the clean-up leaves
    an open session nobody will ever close -/
theorem without_addRefusesAfterShutdown : Stuck { Facts.good with addRefusesAfterShutdown := false } :=
  stuck_of_cert _ [.spawnDial, .deliver 0, .sever, .readFail, .cleanup, .add 0, .respond 0, .waitDone, .signal]
    sessionOpen sessionOpen_bad (by decide)

/-- without the deferred `conn.cleanup()` in `handleDial`: the same race leaves the
    application holding a connection that is in no table and never closed -/
theorem without_dialCleansUnlessAdded : Stuck { Facts.good with dialCleansUnlessAdded := false } :=
  stuck_of_cert _ [.spawnDial, .deliver 0, .sever, .readFail, .cleanup, .add 0, .waitDone, .signal]
    handlerLeft handlerLeft_bad (by decide)

/-- if `Accept` only waited for connections -/
theorem without_acceptSelectsDone : Stuck { Facts.good with acceptSelectsDone := false } :=
  stuck_of_cert _ [.acceptCall, .sever, .readFail, .cleanup, .waitDone, .signal]
    acceptLeft acceptLeft_bad (by decide)

/-- if `sendAccept` only offered the connection: with a full queue and nobody accepting
    the handler, hence the serve loop, hence `Accept`, never return -/
theorem without_sendAcceptBounded : Stuck { Facts.good with sendAcceptBounded := false } :=
  stuck_of_cert _ ((List.range 10).flatMap (fun i => [.spawnDial, .deliver i]) ++
      [.spawnDial, .sever, .readFail, .cleanup] ++ (List.range 10).flatMap (fun i => [.add i, .respond i]))
    handlerLeft handlerLeft_bad (by decide)

/-- if `Close` had no timer and did not end by closing the websocket: with a proxy that
    does not react to the shutdown hint it never returns -/
theorem without_closeBounded : Stuck { Facts.good with closeBounded := false } :=
  stuck_of_cert _ [.closeCall, .closeHint]
    (fun s => s.cl == .waiting) (fun s h hc => by
      simp at h; rcases hc.close with h' | h' <;> simp [h] at h') (by decide)

/-- if `Endpoint.serve` did not close `serveDone` -/
theorem without_serveSignalsDone : Stuck { Facts.good with serveSignalsDone := false } :=
  stuck_of_cert _ [.sever, .readFail, .cleanup, .waitDone, .signal]
    (fun s => !s.serveDone) (fun s h hc => by simp [hc.serveDone] at h) (by decide)

end PubModel.C04.Ep
