/-
Shared helpers for the line-protocol drivers: lower-case hex of byte lists,
decimal parsing, and the read-eval-print loop.  Core Lean only.
-/
namespace PubModel

abbrev Bytes := List UInt8

namespace Hex

def digit (n : Nat) : Char :=
  if n < 10 then Char.ofNat (48 + n) else Char.ofNat (87 + n)

def ofByte (b : UInt8) : List Char :=
  [digit (b.toNat / 16), digit (b.toNat % 16)]

/-- lower-case hex; the empty list is printed as `-` on the wire of the line protocol -/
def encode (bs : Bytes) : String :=
  if bs.isEmpty then "-" else String.ofList (bs.flatMap ofByte)

def nibble (c : Char) : Option Nat :=
  if '0' ≤ c ∧ c ≤ '9' then some (c.toNat - 48)
  else if 'a' ≤ c ∧ c ≤ 'f' then some (c.toNat - 87)
  else if 'A' ≤ c ∧ c ≤ 'F' then some (c.toNat - 55)
  else none

def decodeChars : List Char → Option Bytes
  | [] => some []
  | [_] => none
  | a :: b :: rest => do
    let x ← nibble a
    let y ← nibble b
    let r ← decodeChars rest
    pure (UInt8.ofNat (x * 16 + y) :: r)

def decode (s : String) : Option Bytes :=
  if s = "-" then some [] else decodeChars s.toList

end Hex

/-- Split a line into space separated words (no empty words). -/
def words (s : String) : List String :=
  (s.splitOn " ").filter (· ≠ "")

def strip (s : String) : String :=
  let cs := s.toList.reverse.dropWhile (fun c => c = '\n' ∨ c = '\r' ∨ c = ' ')
  String.ofList cs.reverse

/-- key=value lookup in a word list -/
def kv (ws : List String) (k : String) : Option String :=
  ws.findSome? fun w =>
    match w.splitOn "=" with
    | [a, b] => if a = k then some b else none
    | _ => none

def kvNat (ws : List String) (k : String) : Option Nat := (kv ws k).bind String.toNat?
def kvHex (ws : List String) (k : String) : Option Bytes := (kv ws k).bind Hex.decode

/-- Stateful line loop: one input line, one output line. -/
partial def lineLoop {σ : Type} (h : IO.FS.Stream) (out : IO.FS.Stream)
    (step : σ → String → σ × String) (s : σ) : IO Unit := do
  let line ← h.getLine
  if line.isEmpty then
    out.flush
    return ()
  let (s', o) := step s (strip line)
  out.putStrLn o
  lineLoop h out step s'

def runLines {σ : Type} (step : σ → String → σ × String) (init : σ) : IO Unit := do
  let i ← IO.getStdin
  let o ← IO.getStdout
  lineLoop i o step init

end PubModel
