/-
C10 — histories: worlds reachable by any sequence of operations, and the
invariants every reachable world satisfies.
-/
import PubModel.C10.Kinv
import PubModel.C10.Valid

namespace PubModel.C10

/-- every world some history of operations leads to (histories are unbounded) -/
inductive Reach (cfg : Cfg) : World → Prop
  | empty : Reach cfg World.empty
  | step {w : World} (op : Op) : Reach cfg w → Reach cfg (w.apply cfg op)

def World.st0 (w : World) : BState := ⟨w.out, w.cache, w.tick, [], []⟩

def World.after (w : World) (st : BState) : World := { w with out := st.out, cache := st.cache, tick := st.tick }

theorem build_loaded (w : World) (cfg : Cfg) (always : Bool) (ts : List Name) (hl : loadOK w.S ts = true) :
    ∃ e st, buildNodes w.S cfg always (fuelFor w.S) ts w.st0 = (e, st) ∧
      (w.build cfg always ts).log = st.log ∧ (w.build cfg always ts).world = w.after st ∧
      (w.build cfg always ts).visited = st.memo.keys ∧
      (w.build cfg always ts).outcome = (match e with | none => .ok | some e => .buildErr e) := by
  unfold World.build
  simp only [hl, if_true]
  cases hb : buildNodes w.S cfg always (fuelFor w.S) ts ⟨w.out, w.cache, w.tick, [], []⟩ with
  | mk e st =>
    refine ⟨e, st, hb, ?_⟩
    cases e <;> simp [World.after]

theorem build_not_loaded (w : World) (cfg : Cfg) (always : Bool) (ts : List Name) (hl : ¬ loadOK w.S ts = true) :
    (w.build cfg always ts).log = [] ∧ (w.build cfg always ts).world = w ∧
      (w.build cfg always ts).outcome = .loadErr := by
  unfold World.build
  simp [hl]

theorem build_ok_loaded {w : World} {cfg : Cfg} {always : Bool} {ts : List Name}
    (h : (w.build cfg always ts).outcome = .ok) : loadOK w.S ts = true := by
  apply Classical.byContradiction
  intro hl
  rw [(build_not_loaded w cfg always ts hl).2.2] at h
  cases h

theorem build_static (w : World) (cfg : Cfg) (always : Bool) (ts : List Name) :
    (w.build cfg always ts).world.S = w.S ∧ (w.build cfg always ts).world.saved = w.saved := by
  by_cases hl : loadOK w.S ts = true
  · obtain ⟨e, st, _, _, hw, _⟩ := build_loaded w cfg always ts hl
    rw [hw]; exact ⟨rfl, rfl⟩
  · rw [(build_not_loaded w cfg always ts hl).2.1]; exact ⟨rfl, rfl⟩

theorem build_kinv (w : World) (cfg : Cfg) (hr : cfg.removeFirst = true) (hp : cfg.putFirst = false)
    (always : Bool) (ts : List Name) (hk : KInv w.cache) : KInv (w.build cfg always ts).world.cache := by
  by_cases hl : loadOK w.S ts = true
  · obtain ⟨e, st, hb, _, hw, _⟩ := build_loaded w cfg always ts hl
    rw [hw]
    exact buildNodes_kinv w.S cfg hr hp always _ ts _ e st hb hk
  · rw [(build_not_loaded w cfg always ts hl).2.1]; exact hk

theorem apply_cache_of_not_build (w : World) (cfg : Cfg) (op : Op) (h : ∀ a ts, op ≠ .build a ts)
    (h' : op ≠ .cacheExpire) : (w.apply cfg op).cache = w.cache := by
  cases op with
  | build a ts => exact absurd rfl (h a ts)
  | cacheExpire => exact absurd rfl h'
  | outLink o t => simp only [World.apply]; split <;> rfl
  | srcSet n st => rfl
  | srcDel n => rfl
  | srcMove a b => simp only [World.apply]; split <;> rfl
  | setRules rs => rfl
  | outDel o => simp only [World.apply]; split <;> rfl
  | outCorrupt o size => simp only [World.apply]; split <;> rfl
  | outChmod o mode => simp only [World.apply]; split <;> rfl
  | outObstruct o => simp only [World.apply]; split <;> rfl
  | outRestore o =>
    simp only [World.apply]
    split
    · split <;> rfl
    · rfl

/-- in every reachable world the cache entries name the outputs of their digest's rule -/
theorem reach_kinv {cfg : Cfg} (hr : cfg.removeFirst = true) (hp : cfg.putFirst = false) {w : World}
    (h : Reach cfg w) : KInv w.cache := by
  induction h with
  | empty => intro d b hb; simp [World.empty, AL.get] at hb
  | step op _ ih =>
    cases op with
    | build a ts => exact build_kinv _ cfg hr hp a ts ih
    | srcSet n st => rw [apply_cache_of_not_build _ _ _ (by intro a ts h; cases h) (by intro h; cases h)]; exact ih
    | srcDel n => rw [apply_cache_of_not_build _ _ _ (by intro a ts h; cases h) (by intro h; cases h)]; exact ih
    | srcMove a b => rw [apply_cache_of_not_build _ _ _ (by intro a ts h; cases h) (by intro h; cases h)]; exact ih
    | setRules rs => rw [apply_cache_of_not_build _ _ _ (by intro a ts h; cases h) (by intro h; cases h)]; exact ih
    | outDel o => rw [apply_cache_of_not_build _ _ _ (by intro a ts h; cases h) (by intro h; cases h)]; exact ih
    | outCorrupt o size => rw [apply_cache_of_not_build _ _ _ (by intro a ts h; cases h) (by intro h; cases h)]; exact ih
    | outChmod o mode => rw [apply_cache_of_not_build _ _ _ (by intro a ts h; cases h) (by intro h; cases h)]; exact ih
    | outObstruct o => rw [apply_cache_of_not_build _ _ _ (by intro a ts h; cases h) (by intro h; cases h)]; exact ih
    | outRestore o => rw [apply_cache_of_not_build _ _ _ (by intro a ts h; cases h) (by intro h; cases h)]; exact ih
    | outLink o t => rw [apply_cache_of_not_build _ _ _ (by intro a ts h; cases h) (by intro h; cases h)]; exact ih
    | cacheExpire => intro d b hb; simp [World.apply, AL.get] at hb

end PubModel.C10
