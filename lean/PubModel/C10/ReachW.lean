/-
C10 — the cache invariant holds in every world reachable by a history whose
builds run on graphs the loader accepts.
-/
import PubModel.C10.Good
import PubModel.C10.Reach

namespace PubModel.C10

/-- histories in which every build that gets past loading runs on a well-formed
    graph (acyclic, unique names, file sets and bundles only) -/
inductive ReachW (cfg : Cfg) : World → Prop
  | empty : ReachW cfg World.empty
  | step {w : World} (op : Op) : ReachW cfg w →
      (∀ a ts, op = .build a ts → loadOK w.S ts = true → ∃ rank, WF w.S rank) →
      ReachW cfg (w.apply cfg op)

theorem ReachW.reach {cfg : Cfg} {w : World} (h : ReachW cfg w) : Reach cfg w := by
  induction h with
  | empty => exact Reach.empty
  | step op _ _ ih => exact Reach.step op ih

/-- files may move between `out/` and the shelf, or disappear -/
theorem CInv.rearrange {out saved out' saved' : AL Name OutFile} {cache : AL Dg Built} {tick : Nat}
    (h : CInv out saved cache tick)
    (hsub : ∀ o f, (out'.get o = some f ∨ saved'.get o = some f) → (out.get o = some f ∨ saved.get o = some f)) :
    CInv out' saved' cache tick where
  fresh := fun o f hf => h.fresh o f (hsub o f hf)
  recs := h.recs
  content := fun d b hb hd rec hrec f hf hm => h.content d b hb hd rec hrec f (hsub _ f hf) hm

/-- chmod: same mtime, same bytes -/
theorem CInv.restat {out saved : AL Name OutFile} {cache : AL Dg Built} {tick : Nat}
    (h : CInv out saved cache tick) {o : Name} {f f' : OutFile} (hf : out.get o = some f)
    (hm : f'.stat.mtime = f.stat.mtime) (hb : f'.body = f.body) : CInv (out.put o f') saved cache tick where
  fresh := by
    intro o' g hg
    rcases hg with hg | hg
    · by_cases ho : o' = o
      · subst ho
        simp only [AL.get_put_same, Option.some.injEq] at hg
        subst hg; rw [hm]; exact h.fresh _ f (Or.inl hf)
      · rw [AL.get_put_ne _ _ ho] at hg; exact h.fresh o' g (Or.inl hg)
    · exact h.fresh o' g (Or.inr hg)
  recs := h.recs
  content := by
    intro d b hb' hd rec hrec g hg hmt
    rcases hg with hg | hg
    · by_cases ho : rec.name = o
      · rw [ho] at hg
        simp only [AL.get_put_same, Option.some.injEq] at hg
        subst hg
        obtain ⟨l, hl, rest⟩ := h.content d b hb' hd rec hrec f (Or.inl (by rw [ho]; exact hf)) (by rw [← hm]; exact hmt)
        exact ⟨l, by rw [hb]; exact hl, rest⟩
      · rw [AL.get_put_ne _ _ ho] at hg
        exact h.content d b hb' hd rec hrec g (Or.inl hg) hmt
    · exact h.content d b hb' hd rec hrec g (Or.inr hg) hmt

theorem CInv.empty (tick : Nat) : CInv [] [] [] tick where
  fresh := by intro o f hf; rcases hf with hf | hf <;> simp [AL.get] at hf
  recs := by intro d b hb; simp [AL.get] at hb
  content := by intro d b hb; simp [AL.get] at hb

theorem GPre.init {saved out : AL Name OutFile} {cache : AL Dg Built} {tick : Nat}
    (h : CInv out saved cache tick) : GPre saved ⟨out, cache, tick, [], []⟩ where
  cinv := h
  mgood := by intro m dm hm; simp [AL.get] at hm

theorem build_cinv {cfg : Cfg} (hrf : cfg.removeFirst = true) (hpf : cfg.putFirst = false)
    (hco : cfg.clearOuts = true) (w : World) (always : Bool) (ts : List Name)
    (hwf : loadOK w.S ts = true → ∃ rank, WF w.S rank) (hk : KInv w.cache)
    (h : CInv w.out w.saved w.cache w.tick) :
    let w' := (w.build cfg always ts).world
    CInv w'.out w'.saved w'.cache w'.tick := by
  intro w'
  by_cases hl : loadOK w.S ts = true
  · obtain ⟨rank, wf⟩ := hwf hl
    obtain ⟨e, st, hb, _, hw, _⟩ := build_loaded w cfg always ts hl
    have hg := G_targets hrf hpf hco wf w.saved _ ts _ e st hb (VPre.init hk) (GPre.init h)
    show CInv (w.build cfg always ts).world.out (w.build cfg always ts).world.saved
      (w.build cfg always ts).world.cache (w.build cfg always ts).world.tick
    rw [hw]; exact hg.cinv
  · show CInv (w.build cfg always ts).world.out (w.build cfg always ts).world.saved
      (w.build cfg always ts).world.cache (w.build cfg always ts).world.tick
    rw [(build_not_loaded w cfg always ts hl).2.1]; exact h

theorem get_put_cases {α β : Type} [DecidableEq α] (l : AL α β) (k k' : α) (v v' : β)
    (h : (l.put k v).get k' = some v') : (k' = k ∧ v' = v) ∨ (k' ≠ k ∧ l.get k' = some v') := by
  by_cases hk : k' = k
  · subst hk; simp only [AL.get_put_same, Option.some.injEq] at h; exact Or.inl ⟨rfl, h.symm⟩
  · rw [AL.get_put_ne _ _ hk] at h; exact Or.inr ⟨hk, h⟩

theorem get_del_some {α β : Type} [DecidableEq α] (l : AL α β) (k k' : α) (v' : β)
    (h : (l.del k).get k' = some v') : l.get k' = some v' := by
  by_cases hk : k' = k
  · subst hk; simp [AL.get_del_same] at h
  · rw [AL.get_del_ne _ hk] at h; exact h

/-- **every reachable world satisfies the cache invariant** -/
theorem reachW_cinv {cfg : Cfg} (hrf : cfg.removeFirst = true) (hpf : cfg.putFirst = false)
    (hco : cfg.clearOuts = true) {w : World} (h : ReachW cfg w) : CInv w.out w.saved w.cache w.tick := by
  induction h with
  | empty => exact CInv.empty _
  | @step w op hre hwf ih =>
    cases op with
    | build a ts =>
      exact build_cinv hrf hpf hco w a ts (hwf a ts rfl) (reach_kinv hrf hpf hre.reach) ih
    | srcSet n st => exact ih
    | srcDel n => exact ih
    | srcMove a b => simp only [World.apply]; split <;> exact ih
    | setRules rs => exact ih
    | outDel o =>
      simp only [World.apply]
      split
      · exact ih
      · exact ih.rearrange (fun o' f hf => by
          rcases hf with hf | hf
          · exact Or.inl (get_del_some _ _ _ _ hf)
          · exact Or.inr hf)
    | outCorrupt o size =>
      simp only [World.apply]
      split
      · exact ih
      · exact ih.write o _ rfl
      · exact ih.write o _ rfl
    | outChmod o mode =>
      simp only [World.apply]
      split
      · exact ih
      · rename_i st b hg
        exact ih.restat hg rfl rfl
      · exact ih
    | outObstruct o =>
      simp only [World.apply]
      split
      · exact ih
      · rename_i f hnd hg
        refine (ih.rearrange (out' := w.out) (saved' := w.saved.put o f) ?_).write o _ rfl
        intro o' g hg'
        rcases hg' with hg' | hg'
        · exact Or.inl hg'
        · rcases get_put_cases _ _ _ _ _ hg' with ⟨rfl, rfl⟩ | ⟨_, hg''⟩
          · exact Or.inl hg
          · exact Or.inr hg''
      · refine (ih.rearrange (out' := w.out) (saved' := w.saved.del o) ?_).write o _ rfl
        intro o' g hg'
        rcases hg' with hg' | hg'
        · exact Or.inl hg'
        · exact Or.inr (get_del_some _ _ _ _ hg')
    | outLink o t =>
      simp only [World.apply]
      split
      · exact ih
      · exact ih.write o _ rfl
    | cacheExpire =>
      exact {
        fresh := ih.fresh
        recs := by intro d b hb; simp [World.apply, AL.get] at hb
        content := by intro d b hb; simp [World.apply, AL.get] at hb }
    | outRestore o =>
      simp only [World.apply]
      split
      · split
        · rename_i f hs
          refine ih.rearrange ?_
          intro o' g hg'
          rcases hg' with hg' | hg'
          · rcases get_put_cases _ _ _ _ _ hg' with ⟨rfl, rfl⟩ | ⟨_, hg''⟩
            · exact Or.inr hs
            · exact Or.inl hg''
          · exact Or.inr (get_del_some _ _ _ _ hg')
        · refine ih.rearrange ?_
          intro o' g hg'
          rcases hg' with hg' | hg'
          · exact Or.inl (get_del_some _ _ _ _ hg')
          · exact Or.inr hg'
      · exact ih

end PubModel.C10
