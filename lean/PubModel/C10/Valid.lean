/-
C10 — the traversal invariant about cache validity: what a build executes,
what it leaves valid (null build, rebuilds only dependants).
-/
import PubModel.C10.Frames

namespace PubModel.C10

/-- `x` is reachable from `n` along dependencies -/
inductive Reaches (S : Static) : Name → Name → Prop
  | refl (n : Name) : Reaches S n n
  | step {n m x : Name} (nd : Node) : S.node n = some nd → m ∈ nodeDeps S nd → Reaches S m x → Reaches S n x

/-! ### digests never are `always` when no rule is volatile -/

theorem digL_some {f : Name → Option Dg} (hf : ∀ n d, f n = some d → d ≠ .always) :
    ∀ (ns : List Name) (r : Option DgList), digL f ns = some r → ∃ ds, r = some ds := by
  intro ns
  induction ns with
  | nil => intro r h; simp [digL] at h; exact ⟨_, h.symm⟩
  | cons n ns ih =>
    intro r h
    unfold digL at h
    cases hn : f n with
    | none => simp [hn] at h
    | some d =>
      cases hl : digL f ns with
      | none => simp [hn, hl] at h
      | some rest =>
        obtain ⟨ds, rfl⟩ := ih rest hl
        simp only [hn, hl, Option.some.injEq] at h
        subst h
        simp [DgList.ofOpt, hf n d hn]

theorem digN_ne_always {S : Static} {rank : Name → Nat} (wf : WF S rank) :
    ∀ (k : Nat) (n : Name) (d : Dg), digN S k n = some d → d ≠ .always := by
  intro k
  induction k with
  | zero => intro n d h; simp [digN] at h
  | succ k ih =>
    intro n d h
    unfold digN at h
    cases hn : S.node n with
    | none => simp [hn] at h
    | some nd =>
      cases nd with
      | src st => simp [hn] at h; subst h; simp
      | out r =>
        simp only [hn] at h
        cases hr : digN S k r.name with
        | none => simp [hr] at h
        | some dr =>
          simp only [hr, Option.map_some, Option.some.injEq] at h
          subst h
          simp [outDigest, ih r.name dr hr]
      | rule r =>
        simp only [hn] at h
        cases h1 : digL (digN S k) (fileDeps S r) with
        | none => simp [h1] at h
        | some fd =>
          cases h2 : digL (digN S k) (incDeps r) with
          | none => simp [h1, h2] at h
          | some idp =>
            obtain ⟨a, rfl⟩ := digL_some ih _ _ h1
            obtain ⟨b, rfl⟩ := digL_some ih _ _ h2
            simp only [h1, h2, Option.some.injEq] at h
            subst h
            have hv := wf.noVolatile r (findRule_some (node_rule hn)).1
            simp [actDigest, hv]

/-- the digest of a rule node is an action digest that carries the rule -/
theorem IsD_rule {S : Static} {rank : Name → Nat} (wf : WF S rank) {n : Name} {r : Rule} {d : Dg}
    (hr : S.findRule n = some r) (h : IsD S n d) : ∃ fd idp, d = .act r fd idp := by
  obtain ⟨k, hk⟩ := h
  cases k with
  | zero => simp [digN] at hk
  | succ k =>
    unfold digN at hk
    simp only [node_of_findRule hr] at hk
    cases h1 : digL (digN S k) (fileDeps S r) with
    | none => simp [h1] at hk
    | some fd =>
      cases h2 : digL (digN S k) (incDeps r) with
      | none => simp [h1, h2] at hk
      | some idp =>
        obtain ⟨a, rfl⟩ := digL_some (digN_ne_always wf k) _ _ h1
        obtain ⟨b, rfl⟩ := digL_some (digN_ne_always wf k) _ _ h2
        simp only [h1, h2, Option.some.injEq] at hk
        subst hk
        have hv := wf.noVolatile r (findRule_some hr).1
        exact ⟨a, b, by simp [actDigest, hv]⟩

theorem IsD_ne_always {S : Static} {rank : Name → Nat} (wf : WF S rank) {n : Name} {d : Dg}
    (h : IsD S n d) : d ≠ .always := by
  obtain ⟨k, hk⟩ := h
  exact digN_ne_always wf k n d hk

/-! ### the invariant of one traversal -/

structure VPre (S : Static) (st : BState) : Prop where
  kinv : KInv st.cache
  mdig : ∀ m dm, st.memo.get m = some dm → IsD S m dm
  mvalid : ∀ m dm r, st.memo.get m = some dm → S.findRule m = some r → Valid st r dm
  mclosed : ∀ m dm nd, st.memo.get m = some dm → S.node m = some nd →
    ∀ x ∈ nodeDeps S nd, ∃ dx, st.memo.get x = some dx

/-- how a (partial) traversal relates its start and end states; `B` bounds the nodes it touches -/
structure VRel (S : Static) (always : Bool) (B : Name → Prop) (st st' : BState) (new : List Name) : Prop where
  pre' : VPre S st'
  log : st'.log = st.log ++ new
  exec : ∀ x ∈ new, B x ∧ ∃ r, S.findRule x = some r ∧ ∀ d, IsD S x d → always = false → ¬ Valid st r d
  frame : ∀ r d, r ∈ S.rules → IsD S r.name d → r.name ∉ new → Valid st r d → Valid st' r d
  memoNew : ∀ m, st'.memo.get m ≠ st.memo.get m → B m
  memoMono : ∀ m d, st.memo.get m = some d → st'.memo.get m = some d
  /-- validity of a rule that was not executed is not changed either way -/
  frameRev : ∀ r d, r ∈ S.rules → IsD S r.name d → r.name ∉ new → Valid st' r d → Valid st r d
  /-- a rule that was finished without being executed was valid from the start -/
  hitValid : ∀ m d r, st.memo.get m = none → st'.memo.get m = some d → S.findRule m = some r →
    m ∉ new → Valid st r d

theorem Valid_congr {st st' : BState} (hc : st'.cache = st.cache) (ho : st'.out = st.out) (r : Rule) (d : Dg) :
    Valid st' r d ↔ Valid st r d := by
  simp [Valid, hc, ho]

theorem VRel.refl {S : Static} {always : Bool} {B : Name → Prop} {st : BState} (h : VPre S st) : VRel S always B st st [] where
  pre' := h
  log := by simp
  exec := by intro x hx; cases hx
  frame := by intro r d _ _ _ hv; exact hv
  memoNew := by intro m hm; exact absurd rfl hm
  memoMono := by intro m d hm; exact hm
  frameRev := by intro r d _ _ _ hv; exact hv
  hitValid := by intro m d r h0 h1; rw [h0] at h1; cases h1

theorem VRel.mono {S : Static} {always : Bool} {B B' : Name → Prop} {st st' : BState} {new : List Name}
    (hB : ∀ x, B x → B' x) (h : VRel S always B st st' new) : VRel S always B' st st' new where
  pre' := h.pre'
  log := h.log
  exec := by
    intro x hx
    obtain ⟨hb, rest⟩ := h.exec x hx
    exact ⟨hB x hb, rest⟩
  frame := h.frame
  memoNew := fun m hm => hB m (h.memoNew m hm)
  memoMono := h.memoMono
  frameRev := h.frameRev
  hitValid := h.hitValid

theorem VRel.trans {S : Static} {always : Bool} {rank : Name → Nat} (wf : WF S rank) {B : Name → Prop} {st st1 st2 : BState}
    {new1 new2 : List Name} (h1 : VRel S always B st st1 new1) (h2 : VRel S always B st1 st2 new2) :
    VRel S always B st st2 (new1 ++ new2) where
  pre' := h2.pre'
  log := by rw [h2.log, h1.log, List.append_assoc]
  exec := by
    intro x hx
    rcases List.mem_append.mp hx with hx1 | hx2
    · exact h1.exec x hx1
    · obtain ⟨hb, r, hr, hnv⟩ := h2.exec x hx2
      refine ⟨hb, r, hr, ?_⟩
      intro d hd ha hv
      by_cases hx1 : x ∈ new1
      · obtain ⟨_, r', hr', hnv'⟩ := h1.exec x hx1
        rw [hr] at hr'
        cases hr'
        exact hnv' d hd ha hv
      · have hrm := findRule_some hr
        refine hnv d hd ha (h1.frame r d hrm.1 ?_ ?_ hv)
        · rw [hrm.2]; exact hd
        · rw [hrm.2]; exact hx1
  frame := by
    intro r d hr hd hn hv
    have hn1 : r.name ∉ new1 := fun h => hn (List.mem_append.mpr (Or.inl h))
    have hn2 : r.name ∉ new2 := fun h => hn (List.mem_append.mpr (Or.inr h))
    exact h2.frame r d hr hd hn2 (h1.frame r d hr hd hn1 hv)
  memoNew := by
    intro m hm
    by_cases h : st1.memo.get m = st.memo.get m
    · exact h2.memoNew m (by rw [h]; exact hm)
    · exact h1.memoNew m h
  memoMono := fun m d hm => h2.memoMono m d (h1.memoMono m d hm)
  frameRev := by
    intro r d hr hd hn hv
    have hn1 : r.name ∉ new1 := fun h => hn (List.mem_append.mpr (Or.inl h))
    have hn2 : r.name ∉ new2 := fun h => hn (List.mem_append.mpr (Or.inr h))
    exact h1.frameRev r d hr hd hn1 (h2.frameRev r d hr hd hn2 hv)
  hitValid := by
    intro m d r h0 h2m hr hn
    have hn1 : m ∉ new1 := fun h => hn (List.mem_append.mpr (Or.inl h))
    have hn2 : m ∉ new2 := fun h => hn (List.mem_append.mpr (Or.inr h))
    cases h1m : st1.memo.get m with
    | some d1 =>
      have := h2.memoMono m d1 h1m
      rw [h2m] at this
      cases this
      exact h1.hitValid m d r h0 h1m hr hn1
    | none =>
      have hv1 := h2.hitValid m d r h1m h2m hr hn2
      have hrm := findRule_some hr
      refine h1.frameRev r d hrm.1 ?_ ?_ hv1
      · rw [hrm.2]; exact h2.pre'.mdig m d h2m
      · rw [hrm.2]; exact hn1

/-- recording a finished node in the memo -/
theorem VRel.ofMemoize {S : Static} {always : Bool} {B : Name → Prop} {st : BState} (h : VPre S st) {n : Name} {d : Dg}
    (hB : B n) (hnone : st.memo.get n = none) (hd : IsD S n d)
    (hv : ∀ r, S.findRule n = some r → Valid st r d)
    (hc : ∀ nd, S.node n = some nd → ∀ x ∈ nodeDeps S nd, ∃ dx, st.memo.get x = some dx) :
    VRel S always B st (st.memoize n d) [] where
  pre' := {
    kinv := h.kinv
    mdig := by
      intro m dm hm
      by_cases hmn : m = n
      · subst hmn
        simp only [BState.memoize, AL.get_put_same, Option.some.injEq] at hm
        subst hm; exact hd
      · simp only [BState.memoize, AL.get_put_ne _ _ hmn] at hm
        exact h.mdig m dm hm
    mvalid := by
      intro m dm r hm hr
      refine (Valid_congr (st := st) (st' := st.memoize n d) rfl rfl _ _).mpr ?_
      by_cases hmn : m = n
      · subst hmn
        simp only [BState.memoize, AL.get_put_same, Option.some.injEq] at hm
        subst hm; exact hv r hr
      · simp only [BState.memoize, AL.get_put_ne _ _ hmn] at hm
        exact h.mvalid m dm r hm hr
    mclosed := by
      intro m dm nd hm hnd x hx
      have : ∃ dx, st.memo.get x = some dx := by
        by_cases hmn : m = n
        · subst hmn; exact hc nd hnd x hx
        · simp only [BState.memoize, AL.get_put_ne _ _ hmn] at hm
          exact h.mclosed m dm nd hm hnd x hx
      obtain ⟨dx, hdx⟩ := this
      by_cases hxn : x = n
      · subst hxn; rw [hnone] at hdx; cases hdx
      · exact ⟨dx, by simp only [BState.memoize, AL.get_put_ne _ _ hxn]; exact hdx⟩ }
  log := by simp [BState.memoize]
  exec := by intro x hx; cases hx
  frame := by
    intro r d' _ _ _ hv'
    exact (Valid_congr (st := st) (st' := st.memoize n d) rfl rfl _ _).mpr hv'
  memoNew := by
    intro m hm
    by_cases hmn : m = n
    · subst hmn; exact hB
    · exact absurd (by simp only [BState.memoize, AL.get_put_ne _ _ hmn]) hm
  memoMono := by
    intro m d' hm
    by_cases hmn : m = n
    · subst hmn; rw [hnone] at hm; cases hm
    · simp only [BState.memoize, AL.get_put_ne _ _ hmn]; exact hm
  frameRev := by
    intro r d' _ _ _ hv'
    exact (Valid_congr (st := st) (st' := st.memoize n d) rfl rfl _ _).mp hv'
  hitValid := by
    intro m d' r h0 h1 hr _
    by_cases hmn : m = n
    · subst hmn
      simp only [BState.memoize, AL.get_put_same, Option.some.injEq] at h1
      subst h1; exact hv r hr
    · simp only [BState.memoize, AL.get_put_ne _ _ hmn] at h1
      rw [h0] at h1; cases h1

end PubModel.C10

namespace PubModel.C10

theorem Valid_frame {S : Static} {rank : Name → Nat} (wf : WF S rank) {st st' : BState} {r r' : Rule} {dg d' : Dg}
    (hr : r ∈ S.rules) (hr' : r' ∈ S.rules) (hne : r'.name ≠ r.name)
    (hdg : ∃ fd idp, dg = .act r fd idp) (hd' : ∃ fd idp, d' = .act r' fd idp)
    (hcache : ∀ x, x ≠ dg → st'.cache.get x = st.cache.get x)
    (hout : ∀ o, o ∉ outs r → st'.out.get o = st.out.get o) (hv : Valid st r' d') : Valid st' r' d' := by
  obtain ⟨b, hb, hn, hs⟩ := hv
  obtain ⟨fd, idp, rfl⟩ := hdg
  obtain ⟨fd', idp', rfl⟩ := hd'
  have hdne : Dg.act r' fd' idp' ≠ Dg.act r fd idp := by
    intro e; injection e with e1; exact hne (by rw [e1])
  refine ⟨b, by rw [hcache _ hdne]; exact hb, hn, ?_⟩
  rw [sameBuilt_congr (out := st.out)]
  · exact hs
  · intro rec hrec
    apply hout
    intro ho
    have : rec.name ∈ outs r' := by rw [← hn]; exact List.mem_map_of_mem hrec
    exact hne (by rw [wf.outsUniq r' r hr' hr _ this ho])

/-- the state after rule `r` (node `n`, digest `dg`) was executed (or failed), before it is memoized -/
theorem VRel.ofExec {S : Static} {always : Bool} {rank : Name → Nat} (wf : WF S rank) {B : Name → Prop} {st st' : BState}
    (h : VPre S st) {n : Name} {r : Rule} {dg : Dg}
    (hr : S.findRule n = some r) (hB : B n) (hnone : st.memo.get n = none) (hd : IsD S n dg)
    (hnv : always = false → ¬ Valid st r dg)
    (hmemo : st'.memo = st.memo) (hlog : st'.log = st.log ++ [n])
    (hcache : ∀ x, x ≠ dg → st'.cache.get x = st.cache.get x)
    (hk : ∀ b, st'.cache.get dg = some b → b.map (·.name) = outs r)
    (hout : ∀ o, o ∉ outs r → st'.out.get o = st.out.get o) :
    VRel S always B st st' [n] := by
  have hrm := findRule_some hr
  have hdg := IsD_rule wf hr hd
  have hframe : ∀ r' d', r' ∈ S.rules → IsD S r'.name d' → r'.name ≠ n → Valid st r' d' → Valid st' r' d' := by
    intro r' d' hr' hd' hne hv
    exact Valid_frame wf hrm.1 hr' (by rw [hrm.2]; exact hne) hdg
      (IsD_rule wf (findRule_of_mem wf hr') hd') hcache hout hv
  have hframeRev : ∀ r' d', r' ∈ S.rules → IsD S r'.name d' → r'.name ≠ n → Valid st' r' d' → Valid st r' d' := by
    intro r' d' hr' hd' hne hv
    exact Valid_frame wf hrm.1 hr' (by rw [hrm.2]; exact hne) hdg
      (IsD_rule wf (findRule_of_mem wf hr') hd') (fun x hx => (hcache x hx).symm) (fun o ho => (hout o ho).symm) hv
  exact {
    pre' := {
      kinv := by
        intro d b hb hda
        by_cases hdd : d = dg
        · subst hdd
          obtain ⟨fd, idp, rfl⟩ := hdg
          simpa [outsOfDg] using hk b hb
        · rw [hcache d hdd] at hb; exact h.kinv d b hb hda
      mdig := by intro m dm hm; rw [hmemo] at hm; exact h.mdig m dm hm
      mvalid := by
        intro m dm r' hm hr'
        rw [hmemo] at hm
        have hr'm := findRule_some hr'
        have hmn : m ≠ n := by intro e; subst e; rw [hnone] at hm; cases hm
        refine hframe r' dm hr'm.1 (by rw [hr'm.2]; exact h.mdig m dm hm) (by rw [hr'm.2]; exact hmn)
          (h.mvalid m dm r' hm hr')
      mclosed := by
        intro m dm nd hm hnd x hx
        rw [hmemo] at hm ⊢
        exact h.mclosed m dm nd hm hnd x hx }
    log := hlog
    exec := by
      intro x hx
      simp only [List.mem_singleton] at hx
      subst hx
      refine ⟨hB, r, hr, ?_⟩
      intro d hd' ha hv
      rw [IsD.unique hd' hd] at hv
      exact hnv ha hv
    frame := by
      intro r' d' hr' hd' hn hv
      exact hframe r' d' hr' hd' (by simpa using hn) hv
    memoNew := by intro m hm; rw [hmemo] at hm; exact absurd rfl hm
    memoMono := by intro m d hm; rw [hmemo]; exact hm
    frameRev := by
      intro r' d' hr' hd' hn hv
      exact hframeRev r' d' hr' hd' (by simpa using hn) hv
    hitValid := by
      intro m d r' h0 h1; rw [hmemo, h0] at h1; cases h1 }

end PubModel.C10

namespace PubModel.C10

def Below (S : Static) (rank : Name → Nat) (n x : Name) : Prop := rank x ≤ rank n ∧ Reaches S n x
def BelowL (S : Static) (rank : Name → Nat) (ns : List Name) (x : Name) : Prop := ∃ n ∈ ns, Below S rank n x
def StrictBelow (S : Static) (rank : Name → Nat) (n x : Name) : Prop := rank x < rank n ∧ Reaches S n x

theorem belowL_strict {S : Static} {rank : Name → Nat} (wf : WF S rank) {n : Name} {nd : Node}
    (hn : S.node n = some nd) {ns : List Name} (hsub : ∀ m ∈ ns, m ∈ nodeDeps S nd) :
    ∀ x, BelowL S rank ns x → StrictBelow S rank n x := by
  intro x ⟨m, hm, hle, hre⟩
  have := wf.ranked n nd hn m (hsub m hm)
  exact ⟨Nat.lt_of_le_of_lt hle this, Reaches.step nd hn (hsub m hm) hre⟩

theorem strict_below {S : Static} {rank : Name → Nat} {n : Name} :
    ∀ x, StrictBelow S rank n x → Below S rank n x := fun _ h => ⟨Nat.le_of_lt h.1, h.2⟩

theorem cacheHit_iff {st : BState} (hk : KInv st.cache) {r : Rule} {fd idp : DgList} :
    cacheHit st (.act r fd idp) = true ↔ Valid st r (.act r fd idp) := by
  unfold cacheHit Valid
  constructor
  · intro h
    simp only [Bool.and_eq_true] at h
    cases hg : st.cache.get (.act r fd idp) with
    | none => simp [hg] at h
    | some b =>
      simp only [hg] at h
      exact ⟨b, rfl, by simpa [outsOfDg] using hk _ b hg (by simp), h.2⟩
  · intro ⟨b, hb, _, hs⟩
    simp [hb, hs]

def VNode (S : Static) (cfg : Cfg) (always : Bool) (rank : Name → Nat) (fuel : Nat) : Prop :=
  ∀ n st res st', buildNode S cfg always fuel n st = (res, st') → VPre S st →
    ∃ new, VRel S always (Below S rank n) st st' new ∧ ∀ d, res = .ok d → IsD S n d ∧ st'.memo.get n = some d

theorem V_list {S : Static} {cfg : Cfg} {always : Bool} {rank : Name → Nat} (wf : WF S rank) (fuel : Nat)
    (ih : VNode S cfg always rank fuel) : ∀ (ns : List Name) (st : BState) (res : DepRes) (st' : BState),
    depsLoop (buildNode S cfg always fuel) ns st = (res, st') → VPre S st →
    ∃ new, VRel S always (BelowL S rank ns) st st' new ∧
      ∀ ds, res = .ok ds → (∃ k, digL (digN S k) ns = some ds) ∧ ∀ x ∈ ns, ∃ dx, st'.memo.get x = some dx := by
  intro ns
  induction ns with
  | nil =>
    intro st res st' h hp
    simp only [depsLoop, Prod.mk.injEq] at h
    obtain ⟨rfl, rfl⟩ := h
    refine ⟨[], VRel.refl hp, ?_⟩
    intro ds hds
    cases hds
    exact ⟨⟨0, rfl⟩, by intro x hx; cases hx⟩
  | cons n ns ihl =>
    intro st res st' h hp
    unfold depsLoop at h
    cases hfn : buildNode S cfg always fuel n st with
    | mk r1 st1 =>
      rw [hfn] at h
      obtain ⟨new1, hrel1, hok1⟩ := ih n st r1 st1 hfn hp
      have hrel1' : VRel S always (BelowL S rank (n :: ns)) st st1 new1 :=
        hrel1.mono (fun x hx => ⟨n, List.mem_cons_self .., hx⟩)
      cases r1 with
      | err e =>
        simp only [Prod.mk.injEq] at h
        obtain ⟨rfl, rfl⟩ := h
        exact ⟨new1, hrel1', by intro ds hds; cases hds⟩
      | ok d1 =>
        simp only at h
        cases hl : depsLoop (buildNode S cfg always fuel) ns st1 with
        | mk r2 st2 =>
          rw [hl] at h
          obtain ⟨new2, hrel2, hok2⟩ := ihl st1 r2 st2 hl hrel1.pre'
          have hrel2' : VRel S always (BelowL S rank (n :: ns)) st1 st2 new2 :=
            hrel2.mono (fun x ⟨m, hm, hb⟩ => ⟨m, List.mem_cons_of_mem _ hm, hb⟩)
          cases r2 with
          | err e =>
            simp only [Prod.mk.injEq] at h
            obtain ⟨rfl, rfl⟩ := h
            exact ⟨new1 ++ new2, hrel1'.trans wf hrel2', by intro ds hds; cases hds⟩
          | ok rest =>
            simp only [Prod.mk.injEq] at h
            obtain ⟨rfl, rfl⟩ := h
            refine ⟨new1 ++ new2, hrel1'.trans wf hrel2', ?_⟩
            intro ds hds
            cases hds
            obtain ⟨⟨k1, hk1⟩, hm1⟩ := hok1 d1 rfl
            obtain ⟨⟨k2, hk2⟩, hm2⟩ := hok2 rest rfl
            constructor
            · refine ⟨max k1 k2, ?_⟩
              unfold digL
              rw [digN_le S (Nat.le_max_left k1 k2) hk1,
                digL_mono (fun m d hd => digN_le S (Nat.le_max_right k1 k2) hd) ns rest hk2]
            · intro x hx
              rcases List.mem_cons.mp hx with rfl | hx
              · exact ⟨d1, hrel2.memoMono _ _ hm1⟩
              · exact hm2 x hx

end PubModel.C10

namespace PubModel.C10

/-- the rule case of `buildNode` once the dependencies are done -/
theorem V_finish {S : Static} {cfg : Cfg} {always : Bool} (hrf : cfg.removeFirst = true) (hpf : cfg.putFirst = false)
    {rank : Name → Nat} (wf : WF S rank) {B : Name → Prop} {st2 : BState} (hp : VPre S st2)
    {n : Name} {r : Rule} {dg : Dg} (hr : S.findRule n = some r) (hB : B n) (hnone : st2.memo.get n = none)
    (hd : IsD S n dg)
    (hc : ∀ nd, S.node n = some nd → ∀ x ∈ nodeDeps S nd, ∃ dx, st2.memo.get x = some dx)
    {res : Res} {st' : BState} (h : finishRule S cfg always r dg st2 = (res, st')) :
    ∃ new, VRel S always B st2 st' new ∧ ∀ d, res = .ok d → d = dg ∧ st'.memo.get n = some d := by
  have hrm := findRule_some hr
  obtain ⟨fd, idp, hdg⟩ := IsD_rule wf hr hd
  rw [finishRule_good S cfg hrf hpf] at h
  by_cases hhit : (cacheHit st2 dg && !always) = true
  · -- cache hit
    simp only [hhit, if_true, Prod.mk.injEq] at h
    obtain ⟨rfl, rfl⟩ := h
    have hhit' : cacheHit st2 dg = true := by
      simp only [Bool.and_eq_true] at hhit; exact hhit.1
    have hv : Valid st2 r dg := by subst hdg; exact cacheHit_iff hp.kinv |>.mp hhit'
    rw [hrm.2]
    refine ⟨[], VRel.ofMemoize hp hB hnone hd ?_ hc, ?_⟩
    · intro r' hr'; rw [hr] at hr'; cases hr'; exact hv
    · intro d hd'; cases hd'; exact ⟨rfl, by simp [BState.memoize, AL.get_put_same]⟩
  · -- executed
    have hnv : always = false → ¬ Valid st2 r dg := by
      intro ha hv
      subst hdg
      apply hhit
      simp [ha, cacheHit_iff hp.kinv |>.mpr hv]
    simp only [hhit, Bool.false_eq_true, if_false] at h
    unfold runRule at h
    generalize hs2 : ({ st2 with cache := st2.cache.del dg, log := st2.log ++ [r.name] } : BState) = s2 at h
    have hc2 := execRule_cache S cfg r s2
    have hm2 := execRule_memo S cfg r s2
    have hl2 := execRule_log S cfg r s2
    have ho2 : ∀ o, o ∉ outs r → (execRule S cfg r s2).2.out.get o = st2.out.get o := by
      intro o ho; rw [execRule_out_ne S cfg r s2 ho, ← hs2]
    cases hx : execRule S cfg r s2 with
    | mk okx st3 =>
      rw [hx] at h hc2 hm2 hl2 ho2
      simp only at hc2 hm2 hl2 ho2
      have hcache3 : ∀ x, x ≠ dg → st3.cache.get x = st2.cache.get x := by
        intro x hx'; rw [hc2, ← hs2]; exact AL.get_del_ne _ hx'
      have hk3 : ∀ b, st3.cache.get dg = some b → b.map (·.name) = outs r := by
        intro b hb; rw [hc2, ← hs2] at hb; simp [AL.get_del_same] at hb
      have hmemo3 : st3.memo = st2.memo := by rw [hm2, ← hs2]
      have hlog3 : st3.log = st2.log ++ [n] := by rw [hl2, ← hs2, hrm.2]
      have hrel3 : VRel S always B st2 st3 [n] :=
        VRel.ofExec wf hp hr hB hnone hd hnv hmemo3 hlog3 hcache3 hk3 ho2
      cases okx with
      | false =>
        simp only [Prod.mk.injEq] at h
        obtain ⟨rfl, rfl⟩ := h
        exact ⟨[n], hrel3, by intro d hd'; cases hd'⟩
      | true =>
        simp only at h
        cases hb : newBuilt st3.out (outs r) with
        | none =>
          rw [hb] at h
          simp only [Prod.mk.injEq] at h
          obtain ⟨rfl, rfl⟩ := h
          exact ⟨[n], hrel3, by intro d hd'; cases hd'⟩
        | some b =>
          rw [hb] at h
          simp only [Prod.mk.injEq] at h
          obtain ⟨rfl, rfl⟩ := h
          generalize hs4 : ({ st3 with cache := st3.cache.put dg b } : BState) = st4
          have hrel4 : VRel S always B st2 st4 [n] := by
            refine VRel.ofExec wf hp hr hB hnone hd hnv ?_ ?_ ?_ ?_ ?_
            · rw [← hs4]; exact hmemo3
            · rw [← hs4]; exact hlog3
            · intro x hx'; rw [← hs4]; simp only; rw [AL.get_put_ne _ _ hx']; exact hcache3 x hx'
            · intro b' hb'
              rw [← hs4] at hb'
              simp only [AL.get_put_same, Option.some.injEq] at hb'
              subst hb'; exact newBuilt_names _ _ _ hb
            · intro o ho; rw [← hs4]; exact ho2 o ho
          have hv4 : Valid st4 r dg := by
            refine ⟨b, ?_, newBuilt_names _ _ _ hb, ?_⟩
            · rw [← hs4]; simp [AL.get_put_same]
            · rw [← hs4]; exact newBuilt_same _ _ _ hb
          have hnone4 : st4.memo.get n = none := by rw [← hs4]; simp only; rw [hmemo3]; exact hnone
          have hrel5 := VRel.ofMemoize (always := always) (B := B) hrel4.pre' hB hnone4 hd
            (by intro r' hr'; rw [hr] at hr'; cases hr'; exact hv4)
            (by intro nd hnd x hx'
                obtain ⟨dx, hdx⟩ := hc nd hnd x hx'
                exact ⟨dx, by rw [← hs4]; simp only; rw [hmemo3]; exact hdx⟩)
          rw [hrm.2]
          refine ⟨[n] ++ [], hrel4.trans wf hrel5, ?_⟩
          intro d hd'; cases hd'
          exact ⟨rfl, by simp [BState.memoize, AL.get_put_same]⟩

end PubModel.C10

namespace PubModel.C10

theorem V_node {S : Static} {cfg : Cfg} {always : Bool} (hrf : cfg.removeFirst = true) (hpf : cfg.putFirst = false)
    {rank : Name → Nat} (wf : WF S rank) : ∀ fuel, VNode S cfg always rank fuel := by
  intro fuel
  induction fuel with
  | zero =>
    intro n st res st' h hp
    simp only [buildNode, Prod.mk.injEq] at h
    obtain ⟨rfl, rfl⟩ := h
    exact ⟨[], VRel.refl hp, by intro d hd; cases hd⟩
  | succ fuel ih =>
    intro n st res st' h hp
    have hBn : Below S rank n n := ⟨Nat.le_refl _, Reaches.refl n⟩
    unfold buildNode at h
    cases hmem : st.memo.get n with
    | some d0 =>
      simp only [hmem, Prod.mk.injEq] at h
      obtain ⟨rfl, rfl⟩ := h
      refine ⟨[], VRel.refl hp, ?_⟩
      intro d hd; cases hd
      exact ⟨hp.mdig n d0 hmem, hmem⟩
    | none =>
      simp only [hmem] at h
      cases hnode : S.node n with
      | none =>
        simp only [hnode, Prod.mk.injEq] at h
        obtain ⟨rfl, rfl⟩ := h
        exact ⟨[], VRel.refl hp, by intro d hd; cases hd⟩
      | some nd =>
        cases nd with
        | src stt =>
          simp only [hnode, Prod.mk.injEq] at h
          obtain ⟨rfl, rfl⟩ := h
          have hd : IsD S n (.src n stt) := ⟨1, by simp [digN, hnode]⟩
          refine ⟨[], VRel.ofMemoize hp hBn hmem hd ?_ ?_, ?_⟩
          · intro r hr; rw [node_of_findRule hr] at hnode; cases hnode
          · intro nd hnd x hx; rw [hnode] at hnd; cases hnd; simp [nodeDeps] at hx
          · intro d hd'; cases hd'
            exact ⟨hd, by simp [BState.memoize, AL.get_put_same]⟩
        | out r =>
          simp only [hnode] at h
          cases hb : buildNode S cfg always fuel r.name st with
          | mk r1 st1 =>
            rw [hb] at h
            obtain ⟨new1, hrel1, hok1⟩ := ih r.name st r1 st1 hb hp
            have hsub : ∀ x, Below S rank r.name x → StrictBelow S rank n x := by
              intro x ⟨hle, hre⟩
              have hmd : r.name ∈ nodeDeps S (.out r) := by simp [nodeDeps]
              exact ⟨Nat.lt_of_le_of_lt hle (wf.ranked n _ hnode _ hmd), Reaches.step _ hnode hmd hre⟩
            have hrel1s := hrel1.mono hsub
            have hrel1' := hrel1s.mono strict_below
            cases r1 with
            | err e =>
              simp only [Prod.mk.injEq] at h
              obtain ⟨rfl, rfl⟩ := h
              exact ⟨new1, hrel1', by intro d hd; cases hd⟩
            | ok d1 =>
              simp only [Prod.mk.injEq] at h
              obtain ⟨rfl, rfl⟩ := h
              obtain ⟨⟨k, hk⟩, hm1⟩ := hok1 d1 rfl
              have hnone1 : st1.memo.get n = none := by
                apply Classical.byContradiction
                intro hne
                have := hrel1s.memoNew n (by rw [hmem]; exact hne)
                exact Nat.lt_irrefl _ this.1
              have hd : IsD S n (outDigest n r.name d1) := ⟨k + 1, by simp [digN, hnode, hk]⟩
              have hrel2 := VRel.ofMemoize (always := always) (B := Below S rank n) hrel1.pre' hBn hnone1 hd
                (by intro r' hr'; rw [node_of_findRule hr'] at hnode; cases hnode)
                (by intro nd hnd x hx
                    rw [hnode] at hnd; cases hnd
                    simp only [nodeDeps, List.mem_singleton] at hx
                    subst hx; exact ⟨d1, hm1⟩)
              refine ⟨new1 ++ [], hrel1'.trans wf hrel2, ?_⟩
              intro d hd'; cases hd'
              exact ⟨hd, by simp [BState.memoize, AL.get_put_same]⟩
        | rule r =>
          simp only [hnode] at h
          have hr := node_rule hnode
          cases h1 : depsLoop (buildNode S cfg always fuel) (fileDeps S r) st with
          | mk r1 st1 =>
            rw [h1] at h
            obtain ⟨new1, hrel1, hok1⟩ := V_list wf fuel ih _ st r1 st1 h1 hp
            have hrel1s := hrel1.mono (belowL_strict wf hnode (ns := fileDeps S r)
              (by intro m hm; simp [nodeDeps, hm]))
            cases r1 with
            | err e =>
              simp only [Prod.mk.injEq] at h
              obtain ⟨rfl, rfl⟩ := h
              exact ⟨new1, hrel1s.mono strict_below, by intro d hd; cases hd⟩
            | ok fd =>
              simp only at h
              cases h2 : depsLoop (buildNode S cfg always fuel) (incDeps r) st1 with
              | mk r2 st2 =>
                rw [h2] at h
                obtain ⟨new2, hrel2, hok2⟩ := V_list wf fuel ih _ st1 r2 st2 h2 hrel1.pre'
                have hrel2s := hrel2.mono (belowL_strict wf hnode (ns := incDeps r)
                  (by intro m hm; simp [nodeDeps, hm]))
                have hrel12s := hrel1s.trans wf hrel2s
                cases r2 with
                | err e =>
                  simp only [Prod.mk.injEq] at h
                  obtain ⟨rfl, rfl⟩ := h
                  exact ⟨new1 ++ new2, hrel12s.mono strict_below, by intro d hd; cases hd⟩
                | ok idp =>
                  simp only at h
                  obtain ⟨⟨k1, hk1⟩, hm1⟩ := hok1 fd rfl
                  obtain ⟨⟨k2, hk2⟩, hm2⟩ := hok2 idp rfl
                  have hnone2 : st2.memo.get n = none := by
                    apply Classical.byContradiction
                    intro hne
                    have := hrel12s.memoNew n (by rw [hmem]; exact hne)
                    exact Nat.lt_irrefl _ this.1
                  have hd : IsD S n (actDigest r fd idp) := by
                    refine ⟨max k1 k2 + 1, ?_⟩
                    unfold digN
                    simp only [hnode]
                    rw [digL_mono (fun m d hd => digN_le S (Nat.le_max_left k1 k2) hd) _ _ hk1,
                      digL_mono (fun m d hd => digN_le S (Nat.le_max_right k1 k2) hd) _ _ hk2]
                  have hc : ∀ nd, S.node n = some nd → ∀ x ∈ nodeDeps S nd, ∃ dx, st2.memo.get x = some dx := by
                    intro nd hnd x hx
                    rw [hnode] at hnd; cases hnd
                    simp only [nodeDeps, List.mem_append] at hx
                    rcases hx with hx | hx
                    · obtain ⟨dx, hdx⟩ := hm1 x hx
                      exact ⟨dx, hrel2.memoMono _ _ hdx⟩
                    · exact hm2 x hx
                  obtain ⟨new3, hrel3, hok3⟩ := V_finish hrf hpf wf (B := Below S rank n) hrel2.pre' hr hBn hnone2 hd hc h
                  refine ⟨(new1 ++ new2) ++ new3, (hrel12s.mono strict_below).trans wf hrel3, ?_⟩
                  intro d hd'
                  obtain ⟨rfl, hm⟩ := hok3 d hd'
                  exact ⟨hd, hm⟩

end PubModel.C10

namespace PubModel.C10

/-- `buildNodes`: the targets one after the other -/
theorem V_targets {S : Static} {cfg : Cfg} {always : Bool} (hrf : cfg.removeFirst = true) (hpf : cfg.putFirst = false)
    {rank : Name → Nat} (wf : WF S rank) (fuel : Nat) : ∀ (ts : List Name) (st : BState) (e : Option Err) (st' : BState),
    buildNodes S cfg always fuel ts st = (e, st') → VPre S st →
    ∃ new, VRel S always (BelowL S rank ts) st st' new ∧
      (e = none → ∀ t ∈ ts, (∃ stt, S.node t = some (.src stt)) ∨ ∃ d, st'.memo.get t = some d) := by
  intro ts
  induction ts with
  | nil =>
    intro st e st' h hp
    simp only [buildNodes, Prod.mk.injEq] at h
    obtain ⟨rfl, rfl⟩ := h
    exact ⟨[], VRel.refl hp, by intro _ t ht; cases ht⟩
  | cons t ts ih =>
    intro st e st' h hp
    unfold buildNodes at h
    split at h
    · rename_i stt hs
      obtain ⟨new, hrel, hok⟩ := ih st e st' h hp
      refine ⟨new, hrel.mono (fun x ⟨m, hm, hb⟩ => ⟨m, List.mem_cons_of_mem _ hm, hb⟩), ?_⟩
      intro he t' ht'
      rcases List.mem_cons.mp ht' with rfl | ht'
      · exact Or.inl ⟨stt, hs⟩
      · exact hok he t' ht'
    · cases hb : buildNode S cfg always fuel t st with
      | mk r1 st1 =>
        rw [hb] at h
        obtain ⟨new1, hrel1, hok1⟩ := V_node hrf hpf wf fuel t st r1 st1 hb hp
        have hrel1' : VRel S always (BelowL S rank (t :: ts)) st st1 new1 :=
          hrel1.mono (fun x hx => ⟨t, List.mem_cons_self .., hx⟩)
        cases r1 with
        | err e1 =>
          simp only [Prod.mk.injEq] at h
          obtain ⟨rfl, rfl⟩ := h
          exact ⟨new1, hrel1', by intro he; cases he⟩
        | ok d1 =>
          simp only at h
          obtain ⟨new2, hrel2, hok2⟩ := ih st1 e st' h hrel1.pre'
          have hrel2' : VRel S always (BelowL S rank (t :: ts)) st1 st' new2 :=
            hrel2.mono (fun x ⟨m, hm, hb⟩ => ⟨m, List.mem_cons_of_mem _ hm, hb⟩)
          refine ⟨new1 ++ new2, hrel1'.trans wf hrel2', ?_⟩
          intro he t' ht'
          rcases List.mem_cons.mp ht' with rfl | ht'
          · exact Or.inr ⟨d1, hrel2.memoMono _ _ (hok1 d1 rfl).2⟩
          · exact hok2 he t' ht'

theorem reach_closed {S : Static} {st : BState} (hp : VPre S st) {n x : Name} (hr : Reaches S n x) :
    ∀ d, st.memo.get n = some d → ∃ dx, st.memo.get x = some dx := by
  induction hr with
  | refl n => intro d hd; exact ⟨d, hd⟩
  | step nd hnd hm _ ih =>
    intro d hd
    obtain ⟨dm, hdm⟩ := hp.mclosed _ d nd hd hnd _ hm
    exact ih dm hdm

theorem VPre.init {S : Static} {out : AL Name OutFile} {cache : AL Dg Built} {tick : Nat} (hk : KInv cache) :
    VPre S ⟨out, cache, tick, [], []⟩ where
  kinv := hk
  mdig := by intro m dm h; simp [AL.get] at h
  mvalid := by intro m dm r h; simp [AL.get] at h
  mclosed := by intro m dm nd h; simp [AL.get] at h

theorem IsD_act_inv {S : Static} {n : Name} {r : Rule} {fd idp : DgList} (h : IsD S n (.act r fd idp)) :
    S.findRule n = some r := by
  obtain ⟨k, hk⟩ := h
  cases k with
  | zero => simp [digN] at hk
  | succ k =>
    unfold digN at hk
    cases hn : S.node n with
    | none => simp [hn] at hk
    | some nd =>
      cases nd with
      | src st => simp [hn] at hk
      | out q =>
        simp only [hn] at hk
        cases hq : digN S k q.name with
        | none => simp [hq] at hk
        | some dq =>
          simp only [hq, Option.map_some, Option.some.injEq, outDigest] at hk
          split at hk <;> cases hk
      | rule q =>
        simp only [hn] at hk
        have hq := node_rule hn
        cases h1 : digL (digN S k) (fileDeps S q) with
        | none => simp [h1] at hk
        | some a =>
          cases h2 : digL (digN S k) (incDeps q) with
          | none => simp [h1, h2] at hk
          | some b =>
            simp only [h1, h2, Option.some.injEq, actDigest] at hk
            split at hk
            · cases hk
            · split at hk
              · injection hk with e1 _ _
                rw [← e1]; exact hq
              · cases hk

end PubModel.C10
