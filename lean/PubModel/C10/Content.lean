/-
C10 — contents: what a rule's output holds is a function `F` of its action
digest (the digest covers every input the executor reads); the cache invariant.
-/
import PubModel.C10.Valid

namespace PubModel.C10

/-! ### the content of an output as a function of the action digest -/

mutual
/-- the canonical content (`canon`) of the file set written by a rule with this action digest -/
def F : Dg → Option (List Entry)
  | .act r fd idp =>
    match r.kind with
    | .fileSet =>
      match fEnts fd, iEnts idp with
      | some a, some b => some (mergeEntries (a ++ b))
      | _, _ => none
    | .bundle => none
  | .src _ _ => none
  | .out _ _ _ => none
  | .always => none
/-- entries for the file dependencies, read off their digests -/
def fEnts : DgList → Option (List Entry)
  | .nil => some []
  | .cons _ (.src nm st) t =>
    match fEnts t with
    | some rest => some (⟨nm, .s, st⟩ :: rest)
    | none => none
  | .cons _ (.out nm _ dx) t =>
    match F dx, fEnts t with
    | some l, some rest => some (⟨nm, .o, ⟨sizeOf l, 0, regularMode, ""⟩⟩ :: rest)
    | _, _ => none
  | .cons _ (.act _ _ _) _ => none
  | .cons _ .always _ => none
/-- entries merged in from included file sets -/
def iEnts : DgList → Option (List Entry)
  | .nil => some []
  | .cons _ d t =>
    match F d, iEnts t with
    | some l, some rest => some (l ++ rest)
    | _, _ => none
end

/-! ### canonical form commutes with merging; sizes ignore output mtimes -/

theorem canonE_name (e : Entry) : (canonE e).name = e.name := by
  unfold canonE; split <;> rfl

theorem insertEntry_canon (e : Entry) : ∀ l : List Entry,
    insertEntry (canonE e) (canon l) = canon (insertEntry e l) := by
  intro l
  induction l with
  | nil => rfl
  | cons a t ih =>
    simp only [canon, List.map_cons, insertEntry, canonE_name]
    split
    · rfl
    · split
      · rfl
      · simp only [List.map_cons, List.cons.injEq, true_and]
        exact ih

theorem foldl_insert_canon : ∀ (l acc : List Entry),
    (canon l).foldl (fun acc e => insertEntry e acc) (canon acc) =
      canon (l.foldl (fun acc e => insertEntry e acc) acc) := by
  intro l
  induction l with
  | nil => intro acc; rfl
  | cons e t ih =>
    intro acc
    simp only [canon, List.map_cons, List.foldl_cons]
    have := insertEntry_canon e acc
    simp only [canon] at this ih
    rw [this]
    exact ih (insertEntry e acc)

theorem mergeEntries_canon (l : List Entry) : mergeEntries (canon l) = canon (mergeEntries l) := by
  have := foldl_insert_canon l []
  simpa [mergeEntries, canon] using this

theorem canon_append (a b : List Entry) : canon (a ++ b) = canon a ++ canon b := by
  simp [canon]

theorem entrySize_canonE (e : Entry) : entrySize (canonE e) = entrySize e := by
  unfold canonE
  split
  · rename_i h; simp [entrySize, h]
  · rfl

theorem sizeOf_canon (l : List Entry) : sizeOf (canon l) = sizeOf l := by
  cases l with
  | nil => rfl
  | cons a t =>
    simp only [canon, List.map_cons, sizeOf, List.length_cons, List.length_map, List.map_map, List.sum_cons]
    rw [entrySize_canonE]
    congr 2
    congr 1
    apply congrArg
    apply List.map_congr_left
    intro e _
    exact entrySize_canonE e

end PubModel.C10

namespace PubModel.C10

/-- the file holds what a rule with action digest `d` writes -/
def GoodFile (f : OutFile) (d : Dg) : Prop :=
  ∃ l, f.body = .entries l ∧ F d = some (canon l) ∧ f.stat.size = sizeOf l ∧
    f.stat.mode = regularMode ∧ f.stat.symlink = ""

/-- the outputs that a memoized digest speaks about are on disk with the right contents -/
def NodeGood (out : AL Name OutFile) : Dg → Prop
  | .act r fd idp => ∀ o ∈ outs r, ∃ f, out.get o = some f ∧ GoodFile f (.act r fd idp)
  | .out n _ dx => ∃ f, out.get n = some f ∧ GoodFile f dx
  | .src _ _ => True
  | .always => True

/-- **The cache invariant** (with the freshness bookkeeping it needs).  `saved`
    holds output files moved aside by an obstruction, to be put back unchanged. -/
structure CInv (out saved : AL Name OutFile) (cache : AL Dg Built) (tick : Nat) : Prop where
  /-- every mtime on disk is older than the next write -/
  fresh : ∀ o f, (out.get o = some f ∨ saved.get o = some f) → f.stat.mtime < tick
  /-- recorded stats were taken from regular files written earlier -/
  recs : ∀ d b, cache.get d = some b → ∀ rec ∈ b,
    rec.stat.mtime < tick ∧ rec.stat.mode = regularMode ∧ rec.stat.symlink = ""
  /-- a file that still carries the recorded mtime is the very write that was recorded -/
  content : ∀ d b, cache.get d = some b → d ≠ .always → ∀ rec ∈ b, ∀ f,
    (out.get rec.name = some f ∨ saved.get rec.name = some f) → f.stat.mtime = rec.stat.mtime →
    ∃ l, f.body = .entries l ∧ F d = some (canon l) ∧ rec.stat.size = sizeOf l

/-! ### shape of `digN` results by node kind -/

theorem digN_src {S : Static} {k : Nat} {n : Name} {d : Dg} {stt : Stat}
    (h : digN S k n = some d) (hn : S.node n = some (.src stt)) : d = .src n stt := by
  cases k with
  | zero => simp [digN] at h
  | succ k => simp [digN, hn] at h; exact h.symm

theorem digN_out {S : Static} {rank : Name → Nat} (wf : WF S rank) {k : Nat} {n : Name} {d : Dg} {q : Rule}
    (h : digN S k n = some d) (hn : S.node n = some (.out q)) :
    ∃ dq, d = .out n q.name dq ∧ IsD S q.name dq := by
  cases k with
  | zero => simp [digN] at h
  | succ k =>
    simp only [digN, hn] at h
    cases hq : digN S k q.name with
    | none => simp [hq] at h
    | some dq =>
      simp only [hq, Option.map_some, Option.some.injEq] at h
      refine ⟨dq, ?_, ⟨k, hq⟩⟩
      rw [← h]
      simp [outDigest, digN_ne_always wf k _ _ hq]

/-! ### the executor reads exactly what the digests say -/

theorem fileEnts_good {S : Static} {rank : Name → Nat} (wf : WF S rank) (out : AL Name OutFile) (k : Nat) :
    ∀ (ns : List Name) (fd : DgList) (a : List Entry),
      digL (digN S k) ns = some (some fd) →
      (∀ x ∈ ns, ∀ dx, digN S k x = some dx → NodeGood out dx) →
      fileEntries S out ns = some a → fEnts fd = some (canon a) := by
  intro ns
  induction ns with
  | nil =>
    intro fd a hd _ ha
    simp only [digL, Option.some.injEq] at hd
    simp only [fileEntries, Option.some.injEq] at ha
    subst hd; subst ha; rfl
  | cons n ns ih =>
    intro fd a hd hg ha
    unfold digL at hd
    cases hn : digN S k n with
    | none => simp [hn] at hd
    | some d =>
      cases hl : digL (digN S k) ns with
      | none => simp [hn, hl] at hd
      | some rest =>
        obtain ⟨rest', rfl⟩ := digL_some (digN_ne_always wf k) _ _ hl
        simp only [hn, hl, Option.some.injEq, DgList.ofOpt, digN_ne_always wf k _ _ hn, if_false,
          Option.map_some] at hd
        subst hd
        unfold fileEntries at ha
        cases he : fileEntry S out n with
        | none => simp [he] at ha
        | some e =>
          cases ht : fileEntries S out ns with
          | none => simp [he, ht] at ha
          | some t =>
            simp only [he, ht, Option.some.injEq] at ha
            subst ha
            have iht := ih rest' t hl (fun x hx => hg x (List.mem_cons_of_mem _ hx)) ht
            have hgn := hg n (List.mem_cons_self ..) d hn
            unfold fileEntry at he
            cases hnode : S.node n with
            | none => simp [hnode] at he
            | some nd =>
              cases nd with
              | src stt =>
                simp only [hnode, Option.some.injEq] at he
                subst he
                rw [digN_src hn hnode]
                simp [fEnts, iht, canon, canonE]
              | out q =>
                simp only [hnode] at he
                cases hof : out.get n with
                | none => simp [hof] at he
                | some f =>
                  simp only [hof, Option.some.injEq] at he
                  subst he
                  obtain ⟨dq, rfl, _⟩ := digN_out wf hn hnode
                  obtain ⟨f', hf', l, _, hF, hsz, hmode, hsym⟩ := hgn
                  rw [hof] at hf'; cases hf'
                  simp only [fEnts, hF, iht, canon, List.map_cons, canonE, Option.some.injEq, List.cons.injEq,
                    and_true]
                  have hsc := sizeOf_canon l
                  simp only [canon] at hsc
                  rw [hsc, ← hsz, ← hmode, ← hsym]
              | rule q => simp [hnode] at he

theorem incEnts_good {S : Static} {rank : Name → Nat} (wf : WF S rank) (out : AL Name OutFile) (k : Nat) :
    ∀ (ns : List Name) (idp : DgList) (b : List Entry),
      digL (digN S k) ns = some (some idp) →
      (∀ x ∈ ns, ∀ dx, digN S k x = some dx → NodeGood out dx) →
      incEntries S out ns = some b → iEnts idp = some (canon b) := by
  intro ns
  induction ns with
  | nil =>
    intro idp b hd _ hb
    simp only [digL, Option.some.injEq] at hd
    simp only [incEntries, Option.some.injEq] at hb
    subst hd; subst hb; rfl
  | cons n ns ih =>
    intro idp b hd hg hb
    unfold digL at hd
    cases hn : digN S k n with
    | none => simp [hn] at hd
    | some d =>
      cases hl : digL (digN S k) ns with
      | none => simp [hn, hl] at hd
      | some rest =>
        obtain ⟨rest', rfl⟩ := digL_some (digN_ne_always wf k) _ _ hl
        simp only [hn, hl, Option.some.injEq, DgList.ofOpt, digN_ne_always wf k _ _ hn, if_false,
          Option.map_some] at hd
        subst hd
        unfold incEntries at hb
        cases he : incEntry S out n with
        | none => simp [he] at hb
        | some l =>
          cases ht : incEntries S out ns with
          | none => simp [he, ht] at hb
          | some t =>
            simp only [he, ht, Option.some.injEq] at hb
            subst hb
            have iht := ih rest' t hl (fun x hx => hg x (List.mem_cons_of_mem _ hx)) ht
            have hgn := hg n (List.mem_cons_self ..) d hn
            unfold incEntry at he
            cases hnode : S.node n with
            | none => simp [hnode] at he
            | some nd =>
              cases nd with
              | src stt => simp [hnode] at he
              | out q => simp [hnode] at he
              | rule q =>
                simp only [hnode] at he
                have hq := node_rule hnode
                have hqn := (findRule_some hq).2
                obtain ⟨fa, fb, rfl⟩ := IsD_rule wf hq ⟨k, hn⟩
                cases hk : q.kind with
                | bundle => simp [hk] at he
                | fileSet =>
                  simp only [hk] at he
                  have hmem : fileSetOut n ∈ outs q := by simp [outs, hk, hqn]
                  obtain ⟨f, hf, l', hbody, hF, _⟩ := hgn _ hmem
                  rw [hf] at he
                  cases f with
                  | mk fst fbody =>
                    simp only at hbody
                    subst hbody
                    simp only [Option.some.injEq] at he
                    subst he
                    simp [iEnts, hF, iht, canon_append]

end PubModel.C10
