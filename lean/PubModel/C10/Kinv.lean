/-
C10 — cache entries record exactly the outputs named by their digest (holds for
every graph, well-formed or not): preserved by `buildNode`.
-/
import PubModel.C10.Frames

namespace PubModel.C10

theorem KInv.del {c : AL Dg Built} (h : KInv c) (d : Dg) : KInv (c.del d) := by
  intro d' b hb hne
  by_cases hd : d' = d
  · subst hd; simp [AL.get_del_same] at hb
  · rw [AL.get_del_ne _ hd] at hb; exact h d' b hb hne

theorem KInv.put {c : AL Dg Built} (h : KInv c) {d : Dg} {b : Built}
    (hb : d ≠ .always → b.map (·.name) = outsOfDg d) : KInv (c.put d b) := by
  intro d' b' hb' hne
  by_cases hd : d' = d
  · subst hd
    simp only [AL.get_put_same, Option.some.injEq] at hb'
    subst hb'; exact hb hne
  · rw [AL.get_put_ne _ _ hd] at hb'; exact h d' b' hb' hne

theorem actDigest_outs (r : Rule) (fd idp : Option DgList) (h : actDigest r fd idp ≠ .always) :
    outsOfDg (actDigest r fd idp) = outs r := by
  unfold actDigest at h ⊢
  split
  · rename_i hv; simp [hv] at h
  · split
    · rfl
    · rename_i hv _ _ hx
      simp only [hv] at h
      split at h <;> simp_all

theorem runRule_kinv (S : Static) (cfg : Cfg) (r : Rule) (fd idp : Option DgList) (st : BState) (res : Res) (st' : BState)
    (h : runRule S cfg r (actDigest r fd idp) st = (res, st')) (hk : KInv st.cache) : KInv st'.cache := by
  have hc := execRule_cache S cfg r st
  unfold runRule at h
  cases hx : execRule S cfg r st with
  | mk ok st3 =>
    rw [hx] at h hc
    simp only at hc
    cases ok with
    | false =>
      simp only [Prod.mk.injEq] at h
      obtain ⟨_, rfl⟩ := h
      rw [hc]; exact hk
    | true =>
      simp only at h
      cases hb : newBuilt st3.out (outs r) with
      | none =>
        rw [hb] at h
        simp only [Prod.mk.injEq] at h
        obtain ⟨_, rfl⟩ := h
        rw [hc]; exact hk
      | some b =>
        rw [hb] at h
        simp only [Prod.mk.injEq] at h
        obtain ⟨_, rfl⟩ := h
        simp only [BState.memoize]
        rw [hc]
        refine hk.put ?_
        intro hne
        rw [actDigest_outs r fd idp hne]
        exact newBuilt_names _ _ _ hb

theorem depsLoop_kinv (f : Name → BState → Res × BState)
    (hf : ∀ n st res st', f n st = (res, st') → KInv st.cache → KInv st'.cache) :
    ∀ (ns : List Name) (st : BState) (res : DepRes) (st' : BState),
      depsLoop f ns st = (res, st') → KInv st.cache → KInv st'.cache := by
  intro ns
  induction ns with
  | nil => intro st res st' h hk; simp only [depsLoop, Prod.mk.injEq] at h; obtain ⟨_, rfl⟩ := h; exact hk
  | cons n ns ih =>
    intro st res st' h hk
    unfold depsLoop at h
    cases hfn : f n st with
    | mk r1 st1 =>
      rw [hfn] at h
      have hk1 := hf n st r1 st1 hfn hk
      cases r1 with
      | err e =>
        simp only [Prod.mk.injEq] at h
        obtain ⟨_, rfl⟩ := h; exact hk1
      | ok d1 =>
        simp only at h
        cases hl : depsLoop f ns st1 with
        | mk r2 st2 =>
          rw [hl] at h
          have hk2 := ih st1 r2 st2 hl hk1
          cases r2 with
          | err e => simp only [Prod.mk.injEq] at h; obtain ⟨_, rfl⟩ := h; exact hk2
          | ok rest => simp only [Prod.mk.injEq] at h; obtain ⟨_, rfl⟩ := h; exact hk2

theorem buildNode_kinv (S : Static) (cfg : Cfg) (hr : cfg.removeFirst = true) (hp : cfg.putFirst = false)
    (always : Bool) : ∀ (fuel : Nat) (n : Name) (st : BState) (res : Res) (st' : BState),
      buildNode S cfg always fuel n st = (res, st') → KInv st.cache → KInv st'.cache := by
  intro fuel
  induction fuel with
  | zero => intro n st res st' h hk; simp only [buildNode, Prod.mk.injEq] at h; obtain ⟨_, rfl⟩ := h; exact hk
  | succ fuel ih =>
    intro n st res st' h hk
    unfold buildNode at h
    split at h
    · simp only [Prod.mk.injEq] at h; obtain ⟨_, rfl⟩ := h; exact hk
    · split at h
      · simp only [Prod.mk.injEq] at h; obtain ⟨_, rfl⟩ := h; exact hk
      · simp only [Prod.mk.injEq] at h; obtain ⟨_, rfl⟩ := h; exact hk
      · rename_i r hnode
        cases hb : buildNode S cfg always fuel r.name st with
        | mk r1 st1 =>
          rw [hb] at h
          have hk1 := ih r.name st r1 st1 hb hk
          cases r1 with
          | err e => simp only [Prod.mk.injEq] at h; obtain ⟨_, rfl⟩ := h; exact hk1
          | ok d1 => simp only [Prod.mk.injEq] at h; obtain ⟨_, rfl⟩ := h; exact hk1
      · rename_i r hnode
        cases h1 : depsLoop (buildNode S cfg always fuel) (fileDeps S r) st with
        | mk r1 st1 =>
          rw [h1] at h
          have hk1 := depsLoop_kinv _ ih _ _ _ _ h1 hk
          cases r1 with
          | err e => simp only [Prod.mk.injEq] at h; obtain ⟨_, rfl⟩ := h; exact hk1
          | ok fd =>
            simp only at h
            cases h2 : depsLoop (buildNode S cfg always fuel) (incDeps r) st1 with
            | mk r2 st2 =>
              rw [h2] at h
              have hk2 := depsLoop_kinv _ ih _ _ _ _ h2 hk1
              cases r2 with
              | err e => simp only [Prod.mk.injEq] at h; obtain ⟨_, rfl⟩ := h; exact hk2
              | ok idp =>
                simp only at h
                rw [finishRule_good S cfg hr hp] at h
                split at h
                · simp only [Prod.mk.injEq] at h; obtain ⟨_, rfl⟩ := h; exact hk2
                · exact runRule_kinv S cfg r fd idp _ res st' h (hk2.del _)

theorem buildNodes_kinv (S : Static) (cfg : Cfg) (hr : cfg.removeFirst = true) (hp : cfg.putFirst = false)
    (always : Bool) (fuel : Nat) : ∀ (ts : List Name) (st : BState) (e : Option Err) (st' : BState),
      buildNodes S cfg always fuel ts st = (e, st') → KInv st.cache → KInv st'.cache := by
  intro ts
  induction ts with
  | nil => intro st e st' h hk; simp only [buildNodes, Prod.mk.injEq] at h; obtain ⟨_, rfl⟩ := h; exact hk
  | cons t ts ih =>
    intro st e st' h hk
    unfold buildNodes at h
    split at h
    · exact ih _ _ _ h hk
    · cases hb : buildNode S cfg always fuel t st with
      | mk r1 st1 =>
        rw [hb] at h
        have hk1 := buildNode_kinv S cfg hr hp always fuel t st r1 st1 hb hk
        cases r1 with
        | err e1 => simp only [Prod.mk.injEq] at h; obtain ⟨_, rfl⟩ := h; exact hk1
        | ok d1 => exact ih _ _ _ h hk1

end PubModel.C10
