/-
C10 — when the incremental build succeeds, so does the build from an empty
output directory: the two traversals run in lock step (same memo), and a rule
that the incremental build found up to date or executed successfully cannot
fail in the clean one (its digest prescribes a content, `F d`, so every input
the executor needs is of the right kind and on disk).
-/
import PubModel.C10.Good

namespace PubModel.C10

/-! ### converse of `fileEnts_good` / `incEnts_good` -/

theorem IsD_src_inv {S : Static} {rank : Name → Nat} (wf : WF S rank) {n nm : Name} {st : Stat}
    (h : IsD S n (.src nm st)) : S.node n = some (.src st) ∧ nm = n := by
  obtain ⟨k, hk⟩ := h
  cases hn : S.node n with
  | none => cases k <;> simp [digN, hn] at hk
  | some nd =>
    cases nd with
    | src stt =>
      have := digN_src hk hn
      injection this with e1 e2
      exact ⟨by rw [e2], e1⟩
    | out q => obtain ⟨dq, he, _⟩ := digN_out wf hk hn; cases he
    | rule q => obtain ⟨a, b, he⟩ := IsD_rule wf (node_rule hn) ⟨k, hk⟩; cases he

theorem fileEnts_conv {S : Static} {rank : Name → Nat} (wf : WF S rank) (out : AL Name OutFile) (k : Nat) :
    ∀ (ns : List Name) (fd : DgList) (ea : List Entry),
      digL (digN S k) ns = some (some fd) → fEnts fd = some ea →
      (∀ x ∈ ns, ∀ dx, digN S k x = some dx → NodeGood out dx) →
      ∃ a, fileEntries S out ns = some a := by
  intro ns
  induction ns with
  | nil => intro fd ea _ _ _; exact ⟨[], rfl⟩
  | cons n ns ih =>
    intro fd ea hd hfe hg
    unfold digL at hd
    cases hn : digN S k n with
    | none => simp [hn] at hd
    | some d =>
      cases hl : digL (digN S k) ns with
      | none => simp [hn, hl] at hd
      | some rest =>
        obtain ⟨rest', rfl⟩ := digL_some (digN_ne_always wf k) _ _ hl
        simp only [hn, hl, Option.some.injEq, DgList.ofOpt, digN_ne_always wf k _ _ hn, if_false,
          Option.map_some] at hd
        subst hd
        have hgn := hg n (List.mem_cons_self ..) d hn
        have hrest : ∀ ea', fEnts rest' = some ea' → ∃ t, fileEntries S out ns = some t :=
          fun ea' h' => ih rest' ea' hl h' (fun x hx => hg x (List.mem_cons_of_mem _ hx))
        cases d with
        | src nm st =>
          obtain ⟨hnode, _⟩ := IsD_src_inv wf ⟨k, hn⟩
          simp only [fEnts] at hfe
          cases ht : fEnts rest' with
          | none => simp [ht] at hfe
          | some ea' =>
            obtain ⟨t, ht'⟩ := hrest ea' ht
            exact ⟨⟨n, .s, st⟩ :: t, by simp [fileEntries, fileEntry, hnode, ht']⟩
        | out nm rn dx =>
          obtain ⟨q, hnode, rfl, _⟩ := IsD_out_inv wf ⟨k, hn⟩
          simp only [fEnts] at hfe
          cases hF : F dx with
          | none => simp [hF] at hfe
          | some l =>
            cases ht : fEnts rest' with
            | none => simp [hF, ht] at hfe
            | some ea' =>
              obtain ⟨t, ht'⟩ := hrest ea' ht
              obtain ⟨f, hf, _⟩ := hgn
              exact ⟨⟨nm, .o, f.stat⟩ :: t, by simp [fileEntries, fileEntry, hnode, hf, ht']⟩
        | act _ _ _ => simp [fEnts] at hfe
        | always => simp [fEnts] at hfe

theorem F_some_inv {d : Dg} {l : List Entry} (h : F d = some l) :
    ∃ r fd idp, d = .act r fd idp ∧ r.kind = .fileSet := by
  cases d with
  | act r fd idp =>
    cases hk : r.kind with
    | fileSet => exact ⟨r, fd, idp, rfl, hk⟩
    | bundle => simp [F, hk] at h
  | src _ _ => simp [F] at h
  | out _ _ _ => simp [F] at h
  | always => simp [F] at h

theorem incEnts_conv {S : Static} {rank : Name → Nat} (wf : WF S rank) (out : AL Name OutFile) (k : Nat) :
    ∀ (ns : List Name) (idp : DgList) (eb : List Entry),
      digL (digN S k) ns = some (some idp) → iEnts idp = some eb →
      (∀ x ∈ ns, ∀ dx, digN S k x = some dx → NodeGood out dx) →
      ∃ b, incEntries S out ns = some b := by
  intro ns
  induction ns with
  | nil => intro idp eb _ _ _; exact ⟨[], rfl⟩
  | cons n ns ih =>
    intro idp eb hd hie hg
    unfold digL at hd
    cases hn : digN S k n with
    | none => simp [hn] at hd
    | some d =>
      cases hl : digL (digN S k) ns with
      | none => simp [hn, hl] at hd
      | some rest =>
        obtain ⟨rest', rfl⟩ := digL_some (digN_ne_always wf k) _ _ hl
        simp only [hn, hl, Option.some.injEq, DgList.ofOpt, digN_ne_always wf k _ _ hn, if_false,
          Option.map_some] at hd
        subst hd
        have hgn := hg n (List.mem_cons_self ..) d hn
        simp only [iEnts] at hie
        cases hF : F d with
        | none => simp [hF] at hie
        | some l =>
          cases ht : iEnts rest' with
          | none => simp [hF, ht] at hie
          | some eb' =>
            obtain ⟨t, ht'⟩ := ih rest' eb' hl ht (fun x hx => hg x (List.mem_cons_of_mem _ hx))
            obtain ⟨q, a, b, rfl, hk⟩ := F_some_inv hF
            have hq := IsD_act_inv (S := S) ⟨k, hn⟩
            have hqn := (findRule_some hq).2
            have hmem : fileSetOut n ∈ outs q := by simp [outs, hk, hqn]
            obtain ⟨f, hf, l', hbody, _⟩ := hgn _ hmem
            obtain ⟨fst, fbody⟩ := f
            simp only at hbody
            subst hbody
            exact ⟨l' ++ t, by simp [incEntries, incEntry, node_of_findRule hq, hk, hf, ht']⟩

/-! ### no directory sits on an output path -/

def NoDir (out : AL Name OutFile) : Prop := ∀ o s, out.get o ≠ some ⟨s, .dir⟩

theorem NoDir.clear {out : AL Name OutFile} (h : NoDir out) (o : Name) : NoDir (clearOut out o) :=
  fun o' s hg => h o' s (clearOut_sub out o o' _ hg)

theorem NoDir.put_entries {out : AL Name OutFile} (h : NoDir out) (o : Name) (s : Stat) (l : List Entry) :
    NoDir (out.put o ⟨s, .entries l⟩) := by
  intro o' s' hg
  by_cases ho : o' = o
  · subst ho; simp [AL.get_put_same] at hg
  · rw [AL.get_put_ne _ _ ho] at hg; exact h o' s' hg

theorem execRule_fileSet_ok (S : Static) (cfg : Cfg) (hco : cfg.clearOuts = true) (r : Rule) (st : BState)
    (hk : r.kind = .fileSet) {a b : List Entry}
    (ha : fileEntries S (clearOut st.out (fileSetOut r.name)) (resolveFiles S r) = some a)
    (hb : incEntries S (clearOut st.out (fileSetOut r.name)) r.incs = some b)
    (hnd : NoDir (clearOut st.out (fileSetOut r.name))) : ∃ st3, execRule S cfg r st = (true, st3) := by
  unfold execRule
  simp only [hk, hco, if_true, ha, hb]
  unfold writeOut
  cases hg : (clearOut st.out (fileSetOut r.name)).get (fileSetOut r.name) with
  | none => exact ⟨_, rfl⟩
  | some f =>
    obtain ⟨fst, fbody⟩ := f
    cases fbody with
    | dir => exact absurd hg (hnd _ _)
    | junk => exact ⟨_, rfl⟩
    | entries l0 => exact ⟨_, rfl⟩

end PubModel.C10

namespace PubModel.C10

theorem finishRule_ok_memo {S : Static} {cfg : Cfg} (hrf : cfg.removeFirst = true) (hpf : cfg.putFirst = false)
    {always : Bool} {r : Rule} {dg d : Dg} {st st' : BState}
    (h : finishRule S cfg always r dg st = (.ok d, st')) : d = dg ∧ st'.memo = st.memo.put r.name dg := by
  rw [finishRule_good S cfg hrf hpf] at h
  split at h
  · simp only [Prod.mk.injEq, Res.ok.injEq] at h
    obtain ⟨rfl, rfl⟩ := h
    exact ⟨rfl, rfl⟩
  · unfold runRule at h
    generalize hs2 : ({ st with cache := st.cache.del dg, log := st.log ++ [r.name] } : BState) = s2 at h
    have hm2 := execRule_memo S cfg r s2
    cases hx : execRule S cfg r s2 with
    | mk okx st3 =>
      rw [hx] at h hm2
      cases okx with
      | false => simp at h
      | true =>
        simp only at h hm2
        cases hb : newBuilt st3.out (outs r) with
        | none => rw [hb] at h; simp at h
        | some b =>
          rw [hb] at h
          simp only [Prod.mk.injEq, Res.ok.injEq] at h
          obtain ⟨rfl, rfl⟩ := h
          refine ⟨rfl, ?_⟩
          simp only [BState.memoize]
          rw [hm2, ← hs2]

/-- in a state without obstructing directories, a rule whose digest prescribes a content and whose
    dependencies are in place is found up to date or executes successfully -/
theorem finishRule_succeeds {S : Static} {cfg : Cfg} (hrf : cfg.removeFirst = true) (hpf : cfg.putFirst = false)
    (hco : cfg.clearOuts = true) {rank : Name → Nat} (wf : WF S rank) {saved : AL Name OutFile}
    {st2 : BState} (hp : VPre S st2) (hg : GPre saved st2) (hnd : NoDir st2.out)
    {n : Name} {r : Rule} {fd idp : DgList} (hr : S.findRule n = some r) (hnone : st2.memo.get n = none)
    {k : Nat}
    (hfd : digL (digN S k) (fileDeps S r) = some (some fd)) (hidp : digL (digN S k) (incDeps r) = some (some idp))
    (hc : ∀ x ∈ fileDeps S r ++ incDeps r, ∃ dx, st2.memo.get x = some dx)
    (hF : r.kind = .fileSet → ∃ l, F (.act r fd idp) = some l) :
    ∃ st', finishRule S cfg false r (.act r fd idp) st2 = (.ok (.act r fd idp), st') ∧
      st'.memo = st2.memo.put r.name (.act r fd idp) ∧ NoDir st'.out := by
  rw [finishRule_good S cfg hrf hpf]
  by_cases hhit : (cacheHit st2 (.act r fd idp) && !false) = true
  · simp only [hhit, if_true]
    exact ⟨_, rfl, rfl, hnd⟩
  · simp only [hhit, Bool.false_eq_true, if_false]
    unfold runRule
    generalize hs2 : ({ st2 with cache := st2.cache.del (.act r fd idp), log := st2.log ++ [r.name] } : BState) = s2
    have hs2out : s2.out = st2.out := by rw [← hs2]
    have hs2memo : s2.memo = st2.memo := by rw [← hs2]
    cases hk : r.kind with
    | bundle =>
      rw [execRule_bundle S cfg r s2 hk]
      have houts : outs r = [] := by simp [outs, hk]
      simp only [houts, newBuilt]
      exact ⟨_, rfl, by simp only [BState.memoize]; rw [hs2memo], by simp only [BState.memoize]; rw [hs2out]; exact hnd⟩
    | fileSet =>
      have houts : outs r = [fileSetOut r.name] := by simp [outs, hk]
      have hframe1 : ∀ o', o' ∉ outs r → (clearOut st2.out (fileSetOut r.name)).get o' = st2.out.get o' := by
        intro o' ho'
        apply clearOut_get_ne
        intro e; apply ho'; rw [houts, e]; exact List.mem_singleton.mpr rfl
      have hdepgood : ∀ x ∈ fileDeps S r ++ incDeps r, ∀ dx, digN S k x = some dx →
          NodeGood (clearOut st2.out (fileSetOut r.name)) dx := by
        intro x hx' dx hdx
        obtain ⟨dx', hdx'⟩ := hc x hx'
        have : dx' = dx := IsD.unique (hp.mdig x dx' hdx') ⟨k, hdx⟩
        subst this
        exact NodeGood_frame wf hp hr hnone hframe1 hdx' (hg.mgood x dx' hdx')
      obtain ⟨l, hFl⟩ := hF hk
      simp only [F, hk] at hFl
      cases hfe : fEnts fd with
      | none => simp [hfe] at hFl
      | some ea =>
        cases hie : iEnts idp with
        | none => simp [hfe, hie] at hFl
        | some eb =>
          have hfd' : digL (digN S k) (resolveFiles S r) = some (some fd) := by
            simpa [fileDeps, hk] using hfd
          have hidp' : digL (digN S k) r.incs = some (some idp) := by
            simpa [incDeps, hk] using hidp
          obtain ⟨a, ha⟩ := fileEnts_conv wf (clearOut st2.out (fileSetOut r.name)) k _ fd ea hfd' hfe
            (fun x hx' => hdepgood x (List.mem_append.mpr (Or.inl (by simpa [fileDeps, hk] using hx'))))
          obtain ⟨b, hb⟩ := incEnts_conv wf (clearOut st2.out (fileSetOut r.name)) k _ idp eb hidp' hie
            (fun x hx' => hdepgood x (List.mem_append.mpr (Or.inr (by simpa [incDeps, hk] using hx'))))
          have hnd1 : NoDir (clearOut s2.out (fileSetOut r.name)) := by rw [hs2out]; exact hnd.clear _
          obtain ⟨st3, hx⟩ := execRule_fileSet_ok S cfg hco r s2 hk (by rw [hs2out]; exact ha)
            (by rw [hs2out]; exact hb) hnd1
          have hm2 := execRule_memo S cfg r s2
          obtain ⟨_, hsucc⟩ := execRule_fileSet S cfg hco r s2 hk true st3 hx
          obtain ⟨a', b', _, _, _, ho⟩ := hsucc rfl
          rw [hx] at hm2 ⊢
          simp only at hm2 ⊢
          have hnb : ∃ bb, newBuilt st3.out (outs r) = some bb := by
            rw [houts, ho]
            simp [newBuilt, AL.get_put_same]
          obtain ⟨bb, hbb⟩ := hnb
          simp only [hbb]
          refine ⟨_, rfl, ?_, ?_⟩
          · simp only [BState.memoize]; rw [hm2, hs2memo]
          · simp only [BState.memoize]
            rw [ho]
            exact hnd1.put_entries _ _ _

end PubModel.C10

namespace PubModel.C10

/-- lock-step: run A (any state, possibly AlwaysRebuild) succeeds on `n`; run B (no obstructing
    directories) starts with the same memo; then B succeeds with the same digest and memo -/
def SimNode (S : Static) (cfg : Cfg) (aA : Bool) (sv : AL Name OutFile) (fuel : Nat) : Prop :=
  ∀ n stA stB d stA', buildNode S cfg aA fuel n stA = (.ok d, stA') → stA.memo = stB.memo →
    VPre S stA → GPre sv stA → VPre S stB → GPre [] stB → NoDir stB.out →
    ∃ stB', buildNode S cfg false fuel n stB = (.ok d, stB') ∧ stA'.memo = stB'.memo ∧ NoDir stB'.out

theorem Sim_list {S : Static} {cfg : Cfg} {aA : Bool} (hrf : cfg.removeFirst = true) (hpf : cfg.putFirst = false)
    (hco : cfg.clearOuts = true) {rank : Name → Nat} (wf : WF S rank) {sv : AL Name OutFile} (fuel : Nat)
    (ih : SimNode S cfg aA sv fuel) : ∀ (ns : List Name) (stA stB : BState) (ds : Option DgList) (stA' : BState),
    depsLoop (buildNode S cfg aA fuel) ns stA = (.ok ds, stA') → stA.memo = stB.memo →
    VPre S stA → GPre sv stA → VPre S stB → GPre [] stB → NoDir stB.out →
    ∃ stB', depsLoop (buildNode S cfg false fuel) ns stB = (.ok ds, stB') ∧ stA'.memo = stB'.memo ∧
      NoDir stB'.out := by
  intro ns
  induction ns with
  | nil =>
    intro stA stB ds stA' h hm _ _ _ _ hnd
    simp only [depsLoop, Prod.mk.injEq, DepRes.ok.injEq] at h
    obtain ⟨rfl, rfl⟩ := h
    exact ⟨stB, rfl, hm, hnd⟩
  | cons n ns ihl =>
    intro stA stB ds stA' h hm hpA hgA hpB hgB hnd
    unfold depsLoop at h
    cases hfn : buildNode S cfg aA fuel n stA with
    | mk r1 stA1 =>
      rw [hfn] at h
      cases r1 with
      | err e => simp at h
      | ok d1 =>
        simp only at h
        cases hl : depsLoop (buildNode S cfg aA fuel) ns stA1 with
        | mk r2 stA2 =>
          rw [hl] at h
          cases r2 with
          | err e => simp at h
          | ok rest =>
            simp only [Prod.mk.injEq, DepRes.ok.injEq] at h
            obtain ⟨rfl, rfl⟩ := h
            obtain ⟨stB1, hB1, hm1, hnd1⟩ := ih n stA stB d1 stA1 hfn hm hpA hgA hpB hgB hnd
            obtain ⟨_, hrelA, _⟩ := V_node (always := aA) hrf hpf wf fuel n stA _ stA1 hfn hpA
            have hgA1 := G_node (always := aA) hrf hpf hco wf sv fuel n stA _ stA1 hfn hpA hgA
            obtain ⟨_, hrelB, _⟩ := V_node (always := false) hrf hpf wf fuel n stB _ stB1 hB1 hpB
            have hgB1 := G_node (always := false) hrf hpf hco wf [] fuel n stB _ stB1 hB1 hpB hgB
            obtain ⟨stB2, hB2, hm2, hnd2⟩ := ihl stA1 stB1 rest stA2 hl hm1 hrelA.pre' hgA1 hrelB.pre' hgB1 hnd1
            refine ⟨stB2, ?_, hm2, hnd2⟩
            unfold depsLoop
            simp only [hB1, hB2]

theorem Sim_node {S : Static} {cfg : Cfg} {aA : Bool} (hrf : cfg.removeFirst = true) (hpf : cfg.putFirst = false)
    (hco : cfg.clearOuts = true) {rank : Name → Nat} (wf : WF S rank) (sv : AL Name OutFile) :
    ∀ fuel, SimNode S cfg aA sv fuel := by
  intro fuel
  induction fuel with
  | zero => intro n stA stB d stA' h; simp [buildNode] at h
  | succ fuel ih =>
    intro n stA stB d stA' h hm hpA hgA hpB hgB hnd
    have hwhole := h
    unfold buildNode at h ⊢
    rw [← hm]
    cases hmem : stA.memo.get n with
    | some d0 =>
      simp only [hmem, Prod.mk.injEq, Res.ok.injEq] at h ⊢
      obtain ⟨rfl, rfl⟩ := h
      exact ⟨stB, ⟨rfl, rfl⟩, hm, hnd⟩
    | none =>
      simp only [hmem] at h ⊢
      cases hnode : S.node n with
      | none => simp [hnode] at h
      | some nd =>
        cases nd with
        | src stt =>
          simp only [hnode, Prod.mk.injEq, Res.ok.injEq] at h ⊢
          obtain ⟨rfl, rfl⟩ := h
          exact ⟨_, ⟨rfl, rfl⟩, by simp only [BState.memoize]; rw [hm], hnd⟩
        | out q =>
          simp only [hnode] at h ⊢
          cases hb : buildNode S cfg aA fuel q.name stA with
          | mk r1 stA1 =>
            rw [hb] at h
            cases r1 with
            | err e => simp at h
            | ok d1 =>
              simp only [Prod.mk.injEq, Res.ok.injEq] at h
              obtain ⟨rfl, rfl⟩ := h
              obtain ⟨stB1, hB1, hm1, hnd1⟩ := ih q.name stA stB d1 stA1 hb hm hpA hgA hpB hgB hnd
              rw [hB1]
              exact ⟨_, rfl, by simp only [BState.memoize]; rw [hm1], hnd1⟩
        | rule r =>
          simp only [hnode] at h ⊢
          have hr := node_rule hnode
          have hrm := findRule_some hr
          cases h1 : depsLoop (buildNode S cfg aA fuel) (fileDeps S r) stA with
          | mk r1 stA1 =>
            rw [h1] at h
            cases r1 with
            | err e => simp at h
            | ok fd =>
              simp only at h
              cases h2 : depsLoop (buildNode S cfg aA fuel) (incDeps r) stA1 with
              | mk r2 stA2 =>
                rw [h2] at h
                cases r2 with
                | err e => simp at h
                | ok idp =>
                  simp only at h
                  have ihvA := V_node (always := aA) hrf hpf wf fuel
                  have ihvB := V_node (always := false) hrf hpf wf fuel
                  -- run A: invariants after the two loops
                  obtain ⟨_, hrelA1, hokA1⟩ := V_list wf fuel ihvA _ stA _ stA1 h1 hpA
                  have hgA1 := G_list wf fuel ihvA (G_node hrf hpf hco wf sv fuel) _ stA _ stA1 h1 hpA hgA
                  obtain ⟨_, hrelA2, hokA2⟩ := V_list wf fuel ihvA _ stA1 _ stA2 h2 hrelA1.pre'
                  -- run B in lock step
                  obtain ⟨stB1, hB1, hm1, hnd1⟩ :=
                    Sim_list hrf hpf hco wf fuel ih _ stA stB fd stA1 h1 hm hpA hgA hpB hgB hnd
                  obtain ⟨_, hrelB1, _⟩ := V_list wf fuel ihvB _ stB _ stB1 hB1 hpB
                  have hgB1 := G_list wf fuel ihvB (G_node hrf hpf hco wf [] fuel) _ stB _ stB1 hB1 hpB hgB
                  obtain ⟨stB2, hB2, hm2, hnd2⟩ :=
                    Sim_list hrf hpf hco wf fuel ih _ stA1 stB1 idp stA2 h2 hm1 hrelA1.pre' hgA1 hrelB1.pre' hgB1 hnd1
                  obtain ⟨_, hrelB2, hokB2⟩ := V_list wf fuel ihvB _ stB1 _ stB2 hB2 hrelB1.pre'
                  have hgB2 := G_list wf fuel ihvB (G_node hrf hpf hco wf [] fuel) _ stB1 _ stB2 hB2 hrelB1.pre' hgB1
                  rw [hB1]
                  simp only
                  rw [hB2]
                  simp only
                  -- the digest
                  obtain ⟨⟨k1, hk1⟩, hmA1⟩ := hokA1 fd rfl
                  obtain ⟨⟨k2, hk2⟩, hmA2⟩ := hokA2 idp rfl
                  have hk1' := digL_mono (fun m d hd => digN_le S (Nat.le_max_left k1 k2) hd) _ _ hk1
                  have hk2' := digL_mono (fun m d hd => digN_le S (Nat.le_max_right k1 k2) hd) _ _ hk2
                  obtain ⟨fd', rfl⟩ := digL_some (digN_ne_always wf _) _ _ hk1'
                  obtain ⟨idp', rfl⟩ := digL_some (digN_ne_always wf _) _ _ hk2'
                  have hv := wf.noVolatile r hrm.1
                  have hact : actDigest r (some fd') (some idp') = .act r fd' idp' := by simp [actDigest, hv]
                  rw [hact] at h ⊢
                  obtain ⟨rfl, hmemoA⟩ := finishRule_ok_memo hrf hpf h
                  -- A finished `n`: its outputs hold what the digest prescribes, so `F` is defined
                  obtain ⟨_, hrelW, hokW⟩ := V_node (always := aA) hrf hpf wf (fuel + 1) n stA _ stA' hwhole hpA
                  have hgW := G_node (always := aA) hrf hpf hco wf sv (fuel + 1) n stA _ stA' hwhole hpA hgA
                  have hF : r.kind = .fileSet → ∃ l, F (.act r fd' idp') = some l := by
                    intro hk
                    have hmem : fileSetOut r.name ∈ outs r := by simp [outs, hk]
                    obtain ⟨f, _, l, _, hFl, _⟩ := hgW.mgood n _ (hokW _ rfl).2 _ hmem
                    exact ⟨_, hFl⟩
                  -- B has not finished `n` yet, and all its dependencies are in B's memo
                  have hnoneB : stB2.memo.get n = none := by
                    rw [← hm2]
                    cases hx : stA2.memo.get n with
                    | none => rfl
                    | some dx =>
                      exfalso
                      have hs1 := (hrelA1.mono (belowL_strict wf hnode (ns := fileDeps S r)
                        (by intro m hm'; simp [nodeDeps, hm']))).trans wf
                        (hrelA2.mono (belowL_strict wf hnode (ns := incDeps r)
                        (by intro m hm'; simp [nodeDeps, hm'])))
                      have := hs1.memoNew n (by rw [hmem, hx]; simp)
                      exact Nat.lt_irrefl _ this.1
                  have hcB : ∀ x ∈ fileDeps S r ++ incDeps r, ∃ dx, stB2.memo.get x = some dx := by
                    intro x hx
                    rw [← hm2]
                    rcases List.mem_append.mp hx with hx | hx
                    · obtain ⟨dx, hdx⟩ := hmA1 x hx
                      exact ⟨dx, hrelA2.memoMono _ _ hdx⟩
                    · exact hmA2 x hx
                  obtain ⟨stB', hfin, hmemoB, hndB⟩ :=
                    finishRule_succeeds hrf hpf hco wf hrelB2.pre' hgB2 hnd2 hr hnoneB hk1' hk2' hcB hF
                  exact ⟨stB', hfin, by rw [hmemoA, hmemoB, hm2], hndB⟩

theorem Sim_targets {S : Static} {cfg : Cfg} {aA : Bool} (hrf : cfg.removeFirst = true) (hpf : cfg.putFirst = false)
    (hco : cfg.clearOuts = true) {rank : Name → Nat} (wf : WF S rank) (sv : AL Name OutFile) (fuel : Nat) :
    ∀ (ts : List Name) (stA stB stA' : BState),
    buildNodes S cfg aA fuel ts stA = (none, stA') → stA.memo = stB.memo →
    VPre S stA → GPre sv stA → VPre S stB → GPre [] stB → NoDir stB.out →
    ∃ stB', buildNodes S cfg false fuel ts stB = (none, stB') := by
  intro ts
  induction ts with
  | nil => intro stA stB stA' _ _ _ _ _ _ _; exact ⟨stB, rfl⟩
  | cons t ts ih =>
    intro stA stB stA' h hm hpA hgA hpB hgB hnd
    unfold buildNodes at h ⊢
    split at h
    · exact ih stA stB stA' h hm hpA hgA hpB hgB hnd
    · cases hb : buildNode S cfg aA fuel t stA with
      | mk r1 stA1 =>
        rw [hb] at h
        cases r1 with
        | err e => simp at h
        | ok d1 =>
          simp only at h
          obtain ⟨stB1, hB1, hm1, hnd1⟩ := Sim_node hrf hpf hco wf sv fuel t stA stB d1 stA1 hb hm hpA hgA hpB hgB hnd
          obtain ⟨_, hrelA, _⟩ := V_node (always := aA) hrf hpf wf fuel t stA _ stA1 hb hpA
          have hgA1 := G_node (always := aA) hrf hpf hco wf sv fuel t stA _ stA1 hb hpA hgA
          obtain ⟨_, hrelB, _⟩ := V_node (always := false) hrf hpf wf fuel t stB _ stB1 hB1 hpB
          have hgB1 := G_node (always := false) hrf hpf hco wf [] fuel t stB _ stB1 hB1 hpB hgB
          rw [hB1]
          exact ih stA1 stB1 stA' h hm1 hrelA.pre' hgA1 hrelB.pre' hgB1 hnd1

end PubModel.C10
