/-
C10 — glue between the regenerated facts (`Gen.Caco3Cache`) and the model: the
variant of `buildNode` that the source tree currently implements.  Imported by
the obligations and by the driver.
-/
import PubModel.C10.Model
import PubModel.Common.Hex
import PubModel.Gen.Caco3Cache

namespace PubModel.C10
open PubModel.Gen

/-- the order of `remove` / `build` / `put` and the stale-output removal as read from the AST -/
def genCfg : Cfg := ⟨Caco3Cache.removeBeforeBuild, Caco3Cache.putBeforeBuild, Caco3Cache.clearsStaleOuts⟩

end PubModel.C10
