/-
C10 — helper lemmas: node table, `newBuilt`/`sameBuilt`, what executing a rule changes.
-/
import PubModel.C10.Spec

namespace PubModel.C10

/-! ### node table -/

theorem findRule_some {S : Static} {n : Name} {r : Rule} (h : S.findRule n = some r) :
    r ∈ S.rules ∧ r.name = n := by
  unfold Static.findRule at h
  exact ⟨List.mem_of_find?_eq_some h, by simpa using List.find?_some h⟩

theorem findOut_some {S : Static} {n : Name} {r : Rule} (h : S.findOut n = some r) :
    r ∈ S.rules ∧ n ∈ outs r := by
  unfold Static.findOut at h
  exact ⟨List.mem_of_find?_eq_some h, by simpa using List.find?_some h⟩

theorem node_rule {S : Static} {n : Name} {r : Rule} (h : S.node n = some (.rule r)) :
    S.findRule n = some r := by
  unfold Static.node at h
  cases hf : S.findRule n with
  | some r' => simp [hf] at h; rw [h]
  | none =>
    simp only [hf] at h
    cases ho : S.findOut n with
    | some r' => simp [ho] at h
    | none =>
      simp only [ho] at h
      cases hs : S.src.get n <;> simp [hs] at h

theorem node_out {S : Static} {n : Name} {r : Rule} (h : S.node n = some (.out r)) :
    S.findRule n = none ∧ S.findOut n = some r := by
  unfold Static.node at h
  cases hf : S.findRule n with
  | some r' => simp [hf] at h
  | none =>
    simp only [hf] at h
    cases ho : S.findOut n with
    | some r' => simp [ho] at h; simp [h]
    | none =>
      simp only [ho] at h
      cases hs : S.src.get n <;> simp [hs] at h

theorem node_of_findRule {S : Static} {n : Name} {r : Rule} (h : S.findRule n = some r) :
    S.node n = some (.rule r) := by
  simp [Static.node, h]

theorem findRule_of_mem {S : Static} {rank : Name → Nat} (wf : WF S rank) {r : Rule} (hr : r ∈ S.rules) :
    S.findRule r.name = some r := by
  unfold Static.findRule
  cases hf : S.rules.find? (fun q => q.name = r.name) with
  | none =>
    have := List.find?_eq_none.mp hf r hr
    simp at this
  | some q =>
    have hq := List.mem_of_find?_eq_some hf
    have hn : q.name = r.name := by simpa using List.find?_some hf
    rw [wf.namesUniq q r hq hr hn]

/-! ### `newBuilt`, `sameBuilt` -/

theorem newBuilt_names (out : AL Name OutFile) : ∀ (os : List Name) (b : Built),
    newBuilt out os = some b → b.map (·.name) = os := by
  intro os
  induction os with
  | nil => intro b h; simp [newBuilt] at h; simp [← h]
  | cons o t ih =>
    intro b h
    unfold newBuilt at h
    cases ho : out.get o with
    | none => simp [ho] at h
    | some f =>
      cases ht : newBuilt out t with
      | none => simp [ho, ht] at h
      | some b' =>
        simp only [ho, ht, Option.some.injEq] at h
        subst h
        simp [ih b' ht]

theorem newBuilt_same (out : AL Name OutFile) : ∀ (os : List Name) (b : Built),
    newBuilt out os = some b → sameBuilt out b = true := by
  intro os
  induction os with
  | nil => intro b h; simp [newBuilt] at h; subst h; simp [sameBuilt]
  | cons o t ih =>
    intro b h
    unfold newBuilt at h
    cases ho : out.get o with
    | none => simp [ho] at h
    | some f =>
      cases ht : newBuilt out t with
      | none => simp [ho, ht] at h
      | some b' =>
        simp only [ho, ht, Option.some.injEq] at h
        subst h
        have := ih b' ht
        simp only [sameBuilt] at this ⊢
        simp [List.all_cons, sameStat, ho, this]

theorem sameBuilt_congr {out out' : AL Name OutFile} {b : Built}
    (h : ∀ rec ∈ b, out'.get rec.name = out.get rec.name) : sameBuilt out' b = sameBuilt out b := by
  unfold sameBuilt
  induction b with
  | nil => rfl
  | cons rec t ih =>
    simp only [List.all_cons]
    rw [ih (fun x hx => h x (List.mem_cons_of_mem _ hx))]
    simp [sameStat, h rec (List.mem_cons_self ..)]

/-! ### what executing a rule changes -/

theorem clearOut_get_ne (out : AL Name OutFile) {o o' : Name} (h : o' ≠ o) :
    (clearOut out o).get o' = out.get o' := by
  unfold clearOut
  split
  · rfl
  · exact AL.get_del_ne _ h

theorem writeOut_get_ne {cfg : Cfg} {out out' : AL Name OutFile} {tick : Nat} {o o' : Name} {l : List Entry}
    (hw : writeOut cfg out tick o l = some out') (h : o' ≠ o) : out'.get o' = out.get o' := by
  unfold writeOut at hw
  split at hw
  · simp at hw
  · simp only [Option.some.injEq] at hw; subst hw; exact AL.get_put_ne _ _ h
  · simp only [Option.some.injEq] at hw; subst hw; exact AL.get_put_ne _ _ h

/-- executing `r` touches only `r`'s outputs -/
theorem execRule_out_ne (S : Static) (cfg : Cfg) (r : Rule) (st : BState) {o' : Name}
    (h : o' ∉ outs r) : (execRule S cfg r st).2.out.get o' = st.out.get o' := by
  unfold execRule
  cases hk : r.kind with
  | bundle => rfl
  | fileSet =>
    have hne : o' ≠ fileSetOut r.name := by
      intro e; apply h; simp [outs, hk, e]
    simp only
    have hclear : (if cfg.clearOuts = true then { st with out := clearOut st.out (fileSetOut r.name) } else st).out.get o'
        = st.out.get o' := by
      split
      · exact clearOut_get_ne _ hne
      · rfl
    generalize hst1 : (if cfg.clearOuts = true then { st with out := clearOut st.out (fileSetOut r.name) } else st) = st1 at hclear
    cases ha : fileEntries S st1.out (resolveFiles S r) with
    | none => simpa using hclear
    | some a =>
      cases hb : incEntries S st1.out r.incs with
      | none => simpa using hclear
      | some b =>
        simp only
        cases hw : writeOut cfg st1.out st1.tick (fileSetOut r.name) (mergeEntries (a ++ b)) with
        | none => simpa using hclear
        | some out' =>
          simp only
          rw [writeOut_get_ne hw hne]
          exact hclear

end PubModel.C10
