/-
C10 — caco3: an incremental build equals a clean build.  Executable model.

Mirrors `caco3/builder.go` (`Build`, `buildNodes`, `buildNode`), `build_cache.go`
(`get`/`put`/`remove` on a map; the 7-day expiry is a premise),
`build_node_digest.go` + `digests.go` (digests as *structured values*: SHA-256 is
taken to be injective on the JSON text it hashes, so a digest is the value
hashed), `built.go` (`newBuilt`, `checkSameBuilt`), `file_stat.go`
(`newFileStat`, `sameFileStat`), `file_set.go` (`meta`, `build`) and
`bundle.go`.  Docker rules are outside the property's quantifier; what the
generic `buildNode` does for a rule whose meta digest is empty ("always
rebuild", with propagation to dependants) is kept through the `volatile` flag.

Core Lean only; imported by the driver.
-/
namespace PubModel.C10

abbrev Name := String

/-! ### association lists (finite maps) -/

abbrev AL (α β : Type) := List (α × β)

namespace AL
variable {α β : Type} [DecidableEq α]

def get (l : AL α β) (k : α) : Option β :=
  match l with
  | [] => none
  | (a, b) :: t => if a = k then some b else get t k

def del (l : AL α β) (k : α) : AL α β := l.filter (fun p => !(decide (p.1 = k)))

def put (l : AL α β) (k : α) (v : β) : AL α β := (k, v) :: del l k

def keys (l : AL α β) : List α := l.map (·.1)

end AL

/-! ### files -/

/-- the `lstat` fields that `newFileStat` reads -/
structure Stat where
  size : Nat
  mtime : Nat
  mode : Nat
  symlink : String
deriving DecidableEq, Repr, Inhabited

inductive ETyp where
  | s | o
deriving DecidableEq, Repr

/-- one `fileStat` record as written into a `.fileset` output -/
structure Entry where
  name : Name
  typ : ETyp
  stat : Stat
deriving DecidableEq, Repr

/-- what an output path holds: a file-set list written by the builder, bytes
    that are not such a list (tampered), or a directory put in the way -/
inductive Body where
  | entries (l : List Entry)
  | junk
  | dir
deriving DecidableEq, Repr

structure OutFile where
  stat : Stat
  body : Body
deriving DecidableEq, Repr

/-- `built.Outs`: the stats recorded for a rule's outputs right after it ran -/
structure Rec where
  name : Name
  stat : Stat
deriving DecidableEq, Repr

abbrev Built := List Rec

/-! ### rules -/

inductive Kind where
  | fileSet | bundle
deriving DecidableEq, Repr

/-- a `Select`/`Ignore` pattern: `dir/*suffix` (one level) or `dir/**` -/
structure Pat where
  dir : String
  suffix : String
  deep : Bool
deriving DecidableEq, Repr

/-- a rule as loaded from a BUILD file (names already resolved by `makePath`) -/
structure Rule where
  name : Name
  kind : Kind
  files : List Name      -- `Files`
  sel : List Pat         -- `Select`
  ign : List Pat         -- `Ignore`
  incs : List Name       -- `Include`
  bdeps : List Name      -- bundle `Deps`
  volatile : Bool        -- meta digest "" (always rebuild); never set for file sets and bundles
deriving DecidableEq, Repr

def fileSetOut (n : Name) : Name := n ++ ".fileset"

/-- `buildRuleMeta.outs` -/
def outs (r : Rule) : List Name :=
  match r.kind with
  | .fileSet => [fileSetOut r.name]
  | .bundle => []

/-- sources and rule definitions: everything a build reads except `out/` -/
structure Static where
  src : AL Name Stat
  rules : List Rule

/-! ### digests (identity on the value hashed) -/

mutual
/-- `makeDigest` results; `always` is the empty digest -/
inductive Dg where
  | src (name : Name) (st : Stat)                       -- makeDigest("src", "", fileStat)
  | out (name : Name) (rule : Name) (d : Dg)            -- makeDigest("out", "", {Deps:{rule:d}, OutputOf:name})
  | act (r : Rule) (fdeps : DgList) (ideps : DgList)    -- makeDigest("build_action", "", {Rule, RuleType, Deps, Outs})
  | always
deriving DecidableEq
inductive DgList where
  | nil
  | cons (n : Name) (d : Dg) (t : DgList)
deriving DecidableEq
end

instance : Inhabited Dg := ⟨.always⟩

/-! ### name selection (`newFileSet`) -/

def Pat.matchesL (p : Pat) (n : List Char) : Bool :=
  let pre := p.dir.toList ++ ['/']
  if pre.isPrefixOf n then
    let rest := n.drop pre.length
    if p.deep then true
    else (!rest.contains '/') && p.suffix.toList.isSuffixOf rest
  else false

def Pat.matches (p : Pat) (n : Name) : Bool := p.matchesL n.toList

def insertName (n : Name) : List Name → List Name
  | [] => [n]
  | a :: t => if n = a then a :: t else if n < a then n :: a :: t else a :: insertName n t

/-- `strutil.SortedList` of a set -/
def sortNames (l : List Name) : List Name := l.foldr insertName []

def selected (S : Static) (r : Rule) : List Name :=
  (S.src.map (·.1)).filter fun n => r.sel.any (·.matches n) && !(r.ign.any (·.matches n))

/-- `fileSet.files` -/
def resolveFiles (S : Static) (r : Rule) : List Name := sortNames (r.files ++ selected S r)

/-- first group of `n.deps`: the file list of a file set, the deps of a bundle -/
def fileDeps (S : Static) (r : Rule) : List Name :=
  match r.kind with
  | .fileSet => resolveFiles S r
  | .bundle => r.bdeps

/-- second group of `n.deps`: the includes of a file set -/
def incDeps (r : Rule) : List Name :=
  match r.kind with
  | .fileSet => r.incs
  | .bundle => []

/-! ### node table (`loader.nodes`) -/

inductive Node where
  | src (st : Stat)
  | out (r : Rule)
  | rule (r : Rule)

def Static.findRule (S : Static) (n : Name) : Option Rule := S.rules.find? (fun r => r.name = n)
def Static.findOut (S : Static) (n : Name) : Option Rule := S.rules.find? (fun r => (outs r).contains n)

/-- registered nodes win over source files (`loader.load1`) -/
def Static.node (S : Static) (n : Name) : Option Node :=
  match S.findRule n with
  | some r => some (.rule r)
  | none =>
    match S.findOut n with
    | some r => some (.out r)
    | none =>
      match S.src.get n with
      | some st => some (.src st)
      | none => none

/-! ### output contents -/

def digits (n : Nat) : Nat := (toString n).length

/-- byte length of one JSON `fileStat`; the `ModTimestamp` of an output-typed
    entry is a wall-clock `UnixNano` (19 digits until the year 2286) -/
def entrySize (e : Entry) : Nat :=
  9 + e.name.length + 10 + 1 + 9 + digits e.stat.size + 16 +
    (match e.typ with | .o => 19 | .s => digits e.stat.mtime) +
    8 + digits e.stat.mode + (if e.stat.symlink = "" then 0 else 12 + e.stat.symlink.length + 1) + 1

/-- byte length of the JSON list (`null` for a nil slice) -/
def sizeOf (l : List Entry) : Nat :=
  match l with
  | [] => 4
  | _ => 2 + (l.map entrySize).sum + (l.length - 1)

/-- equality of outputs is modulo the mtimes recorded for output-typed entries -/
def canonE (e : Entry) : Entry :=
  match e.typ with
  | .o => { e with stat := { e.stat with mtime := 0 } }
  | .s => e

def canon (l : List Entry) : List Entry := l.map canonE

/-- insert by name, first one wins (the `add` closure of `fileSet.build` + final sort) -/
def insertEntry (e : Entry) : List Entry → List Entry
  | [] => [e]
  | a :: t => if e.name = a.name then a :: t else if e.name < a.name then e :: a :: t else a :: insertEntry e t

def mergeEntries (l : List Entry) : List Entry := l.foldl (fun acc e => insertEntry e acc) []

/-! ### build state -/

structure Cfg where
  /-- `ctx.cache.remove(digest)` precedes `n.rule.build` -/
  removeFirst : Bool
  /-- mutant order: `put` precedes `n.rule.build` -/
  putFirst : Bool
  /-- stale outputs of the rule are removed before it runs -/
  clearOuts : Bool
deriving DecidableEq, Repr

def Cfg.good : Cfg := ⟨true, false, true⟩

structure BState where
  out : AL Name OutFile
  cache : AL Dg Built
  tick : Nat
  memo : AL Name Dg          -- `buildContext.built`
  log : List Name            -- `BUILD <name>` lines

inductive Err where
  | fuel
  | missing (n : Name)                -- "dep not found"
  | exec (rule : Name) (d : Dg)       -- the rule's execution (or `newBuilt`) failed
deriving DecidableEq

inductive Res where
  | ok (d : Dg)
  | err (e : Err)

def BState.memoize (st : BState) (n : Name) (d : Dg) : BState := { st with memo := st.memo.put n d }

/-- `sameFileStat` -/
def sameStat (out : AL Name OutFile) (r : Rec) : Bool :=
  match out.get r.name with
  | none => false
  | some f => decide (f.stat = r.stat)

/-- `checkSameBuilt` -/
def sameBuilt (out : AL Name OutFile) (b : Built) : Bool := b.all (sameStat out)

/-- `newBuilt` -/
def newBuilt (out : AL Name OutFile) : List Name → Option Built
  | [] => some []
  | o :: t =>
    match out.get o, newBuilt out t with
    | some f, some b => some (⟨o, f.stat⟩ :: b)
    | _, _ => none

/-! ### executing a rule (`fileSet.build`, `bundle.build`) -/

def fileEntry (S : Static) (out : AL Name OutFile) (f : Name) : Option Entry :=
  match S.node f with
  | some (.src st) => some ⟨f, .s, st⟩
  | some (.out _) =>
    match out.get f with
    | some of => some ⟨f, .o, of.stat⟩
    | none => none
  | _ => none

def fileEntries (S : Static) (out : AL Name OutFile) : List Name → Option (List Entry)
  | [] => some []
  | f :: t =>
    match fileEntry S out f, fileEntries S out t with
    | some e, some l => some (e :: l)
    | _, _ => none

def incEntry (S : Static) (out : AL Name OutFile) (i : Name) : Option (List Entry) :=
  match S.node i with
  | some (.rule q) =>
    match q.kind with
    | .fileSet =>
      match out.get (fileSetOut i) with
      | some ⟨_, .entries l⟩ => some l
      | _ => none
    | .bundle => none
  | _ => none

def incEntries (S : Static) (out : AL Name OutFile) : List Name → Option (List Entry)
  | [] => some []
  | i :: t =>
    match incEntry S out i, incEntries S out t with
    | some l, some r => some (l ++ r)
    | _, _ => none

def regularMode : Nat := 420   -- 0644 under umask 022
def symlinkMode : Nat := 134218239   -- uint32(fs.ModeSymlink | 0777)

/-- remove stale outputs (a non-empty directory stays) -/
def clearOut (out : AL Name OutFile) (o : Name) : AL Name OutFile :=
  match out.get o with
  | some ⟨_, .dir⟩ => out
  | _ => out.del o

/-- `os.WriteFile(out, json, 0644)` at time `tick` -/
def writeOut (cfg : Cfg) (out : AL Name OutFile) (tick : Nat) (o : Name) (l : List Entry) :
    Option (AL Name OutFile) :=
  match out.get o with
  | some ⟨_, .dir⟩ => none
  | some ⟨st, _⟩ =>
    some (out.put o ⟨⟨sizeOf l, tick, if cfg.clearOuts then regularMode else st.mode, ""⟩, .entries l⟩)
  | none => some (out.put o ⟨⟨sizeOf l, tick, regularMode, ""⟩, .entries l⟩)

/-- run the rule; `false` = the execution failed -/
def execRule (S : Static) (cfg : Cfg) (r : Rule) (st : BState) : Bool × BState :=
  match r.kind with
  | .bundle => (true, st)
  | .fileSet =>
    let o := fileSetOut r.name
    let st1 := if cfg.clearOuts then { st with out := clearOut st.out o } else st
    match fileEntries S st1.out (resolveFiles S r), incEntries S st1.out r.incs with
    | some a, some b =>
      match writeOut cfg st1.out st1.tick o (mergeEntries (a ++ b)) with
      | some out' => (true, { st1 with out := out', tick := st1.tick + 1 })
      | none => (false, st1)
    | _, _ => (false, st1)

/-! ### `buildNode` -/

def DgList.ofOpt (n : Name) (d : Dg) (rest : Option DgList) : Option DgList :=
  if d = .always then none else rest.map (DgList.cons n d)

inductive DepRes where
  | ok (ds : Option DgList)      -- `none`: some dep is always rebuilding
  | err (e : Err)

/-- the loop over `n.deps` -/
def depsLoop (f : Name → BState → Res × BState) : List Name → BState → DepRes × BState
  | [], st => (.ok (some .nil), st)
  | n :: ns, st =>
    match f n st with
    | (.err e, st1) => (.err e, st1)
    | (.ok d, st1) =>
      match depsLoop f ns st1 with
      | (.err e, st2) => (.err e, st2)
      | (.ok rest, st2) => (.ok (DgList.ofOpt n d rest), st2)

/-- `buildNodeDigest` for a rule node -/
def actDigest (r : Rule) (fd idp : Option DgList) : Dg :=
  if r.volatile then .always
  else
    match fd, idp with
    | some a, some b => .act r a b
    | _, _ => .always

def outDigest (n : Name) (rule : Name) (d : Dg) : Dg :=
  if d = .always then .always else .out n rule d

/-- `cache.get` + `checkSameBuilt`: the recorded outputs are unchanged on disk -/
def cacheHit (st : BState) (dg : Dg) : Bool :=
  !(decide (dg = .always)) &&
    (match st.cache.get dg with
     | some b => sameBuilt st.out b
     | none => false)

/-- `n.rule.build`, then `newBuilt` and `cache.put` (the order in the source) -/
def runRule (S : Static) (cfg : Cfg) (r : Rule) (dg : Dg) (st : BState) : Res × BState :=
  match execRule S cfg r st with
  | (false, st3) => (.err (.exec r.name dg), st3)
  | (true, st3) =>
    match newBuilt st3.out (outs r) with
    | none => (.err (.exec r.name dg), st3)
    | some b => (.ok dg, ({ st3 with cache := st3.cache.put dg b } : BState).memoize r.name dg)

/-- mutant order: `newBuilt` and `cache.put` before `n.rule.build` -/
def runRulePutFirst (S : Static) (cfg : Cfg) (r : Rule) (dg : Dg) (st : BState) : Res × BState :=
  match newBuilt st.out (outs r) with
  | none => (.err (.exec r.name dg), st)
  | some b =>
    match execRule S cfg r { st with cache := st.cache.put dg b } with
    | (false, st4) => (.err (.exec r.name dg), st4)
    | (true, st4) => (.ok dg, st4.memoize r.name dg)

/-- the part of `buildNode` after the digest is known (rule nodes) -/
def finishRule (S : Static) (cfg : Cfg) (always : Bool) (r : Rule) (dg : Dg) (st : BState) : Res × BState :=
  if cacheHit st dg && !always then (.ok dg, st.memoize r.name dg)
  else
    let st1 : BState := if cfg.removeFirst then { st with cache := st.cache.del dg } else st
    let st2 : BState := { st1 with log := st1.log ++ [r.name] }
    if cfg.putFirst then runRulePutFirst S cfg r dg st2 else runRule S cfg r dg st2

/-- `Builder.buildNode`; the recursion of the Go code is bounded by `fuel`
    (`build_fuel_enough` in the theorem file: acyclic graphs never run out) -/
def buildNode (S : Static) (cfg : Cfg) (always : Bool) : Nat → Name → BState → Res × BState
  | 0, _, st => (.err .fuel, st)
  | fuel + 1, n, st =>
    match st.memo.get n with
    | some d => (.ok d, st)
    | none =>
      match S.node n with
      | none => (.err (.missing n), st)
      | some (.src stt) =>
        -- get: never stored (only rule nodes are `put`); remove: no-op
        (.ok (.src n stt), st.memoize n (.src n stt))
      | some (.out r) =>
        match buildNode S cfg always fuel r.name st with
        | (.err e, st1) => (.err e, st1)
        | (.ok d, st1) => (.ok (outDigest n r.name d), st1.memoize n (outDigest n r.name d))
      | some (.rule r) =>
        match depsLoop (buildNode S cfg always fuel) (fileDeps S r) st with
        | (.err e, st1) => (.err e, st1)
        | (.ok fd, st1) =>
          match depsLoop (buildNode S cfg always fuel) (incDeps r) st1 with
          | (.err e, st2) => (.err e, st2)
          | (.ok idp, st2) => finishRule S cfg always r (actDigest r fd idp) st2

/-- `Builder.buildNodes`: targets in order, source targets are skipped, stop at the first error -/
def buildNodes (S : Static) (cfg : Cfg) (always : Bool) (fuel : Nat) : List Name → BState → Option Err × BState
  | [], st => (none, st)
  | t :: ts, st =>
    match S.node t with
    | some (.src _) => buildNodes S cfg always fuel ts st
    | _ =>
      match buildNode S cfg always fuel t st with
      | (.err e, st1) => (some e, st1)
      | (.ok _, st1) => buildNodes S cfg always fuel ts st1

/-! ### loading (`loadNodes`), as far as the build outcome depends on it -/

def allNames (S : Static) : List Name := S.rules.map (·.name) ++ S.rules.flatMap outs

def hasDup : List Name → Bool
  | [] => false
  | a :: t => t.contains a || hasDup t

/-- every `Select` pattern of every file set matches something ("select no files") -/
def selectsOK (S : Static) : Bool :=
  S.rules.all fun r =>
    match r.kind with
    | .fileSet => r.sel.all fun p => (S.src.map (·.1)).any p.matches
    | .bundle => true

def nodeDeps (S : Static) (nd : Node) : List Name :=
  match nd with
  | .src _ => []
  | .out r => [r.name]
  | .rule r => fileDeps S r ++ incDeps r

/-- `loader.load1`: every reachable name resolves; a cycle exhausts the fuel -/
def loadNode (S : Static) : Nat → Name → Bool
  | 0, _ => false
  | fuel + 1, n =>
    match S.node n with
    | none => false
    | some nd => (nodeDeps S nd).all (loadNode S fuel)

def fuelFor (S : Static) : Nat := 2 * S.rules.length + 2

def loadOK (S : Static) (ts : List Name) : Bool :=
  !(hasDup (allNames S)) && !((allNames S).contains "") && selectsOK S && ts.all (loadNode S (fuelFor S))

/-! ### the world and its operations -/

structure World where
  S : Static
  out : AL Name OutFile
  saved : AL Name OutFile      -- outputs moved aside by `obstruct`
  cache : AL Dg Built
  tick : Nat

def World.empty : World := ⟨⟨[], []⟩, [], [], [], 1⟩

inductive Outcome where
  | ok
  | loadErr
  | buildErr (e : Err)
deriving DecidableEq

structure BuildResult where
  outcome : Outcome
  log : List Name          -- rules executed, in order (`BUILD` lines)
  visited : List Name      -- nodes that were built or found up to date
  world : World

/-- `Builder.Build` -/
def World.build (w : World) (cfg : Cfg) (always : Bool) (ts : List Name) : BuildResult :=
  if loadOK w.S ts then
    match buildNodes w.S cfg always (fuelFor w.S) ts ⟨w.out, w.cache, w.tick, [], []⟩ with
    | (none, st) => ⟨.ok, st.log, st.memo.keys, { w with out := st.out, cache := st.cache, tick := st.tick }⟩
    | (some e, st) => ⟨.buildErr e, st.log, st.memo.keys, { w with out := st.out, cache := st.cache, tick := st.tick }⟩
  else ⟨.loadErr, [], [], w⟩

/-- a build from an empty output directory (no outputs, no cache) -/
def World.clean (w : World) : World := { w with out := [], saved := [], cache := [] }

inductive Op where
  | srcSet (n : Name) (st : Stat)          -- add / edit / touch / chmod / symlink: the new lstat fields
  | srcDel (n : Name)
  | srcMove (a b : Name)
  | setRules (rs : List Rule)              -- edit BUILD files
  | outDel (o : Name)
  | outCorrupt (o : Name) (size : Nat)     -- overwrite with other bytes (fresh mtime)
  | outChmod (o : Name) (mode : Nat)
  | outObstruct (o : Name)                 -- a non-empty directory in its place; the file is kept aside
  | outRestore (o : Name)                  -- put the kept file back, byte for byte with its lstat fields
  | outLink (o : Name) (target : String)   -- a (dangling) symlink at the output path (fresh mtime)
  | cacheExpire                            -- the clock passes the expiry: every record is expired
  | build (always : Bool) (ts : List Name)

def World.apply (w : World) (cfg : Cfg) : Op → World
  | .srcSet n st => { w with S := { w.S with src := w.S.src.put n st } }
  | .srcDel n => { w with S := { w.S with src := w.S.src.del n } }
  | .srcMove a b =>
    match w.S.src.get a with
    | some st => { w with S := { w.S with src := (w.S.src.del a).put b st } }
    | none => w
  | .setRules rs => { w with S := { w.S with rules := rs } }
  | .outDel o =>
    match w.out.get o with
    | some ⟨_, .dir⟩ => w
    | _ => { w with out := w.out.del o }
  | .outCorrupt o size =>
    match w.out.get o with
    | some ⟨_, .dir⟩ => w
    | some ⟨st, _⟩ =>
      -- a symlink is replaced by a regular file, otherwise the permission bits stay
      { w with out := w.out.put o ⟨⟨size, w.tick, if st.mode = symlinkMode then regularMode else st.mode, ""⟩, .junk⟩,
               tick := w.tick + 1 }
    | none => { w with out := w.out.put o ⟨⟨size, w.tick, regularMode, ""⟩, .junk⟩, tick := w.tick + 1 }
  | .outChmod o mode =>
    match w.out.get o with
    | some ⟨_, .dir⟩ => w
    | some ⟨st, b⟩ => { w with out := w.out.put o ⟨{ st with mode := mode }, b⟩ }
    | none => w
  | .outObstruct o =>
    match w.out.get o with
    | some ⟨_, .dir⟩ => w
    | some f => { w with out := w.out.put o ⟨⟨0, w.tick, 0, ""⟩, .dir⟩, saved := w.saved.put o f, tick := w.tick + 1 }
    | none => { w with out := w.out.put o ⟨⟨0, w.tick, 0, ""⟩, .dir⟩, saved := w.saved.del o, tick := w.tick + 1 }
  | .outRestore o =>
    match w.out.get o with
    | some ⟨_, .dir⟩ =>
      match w.saved.get o with
      | some f => { w with out := w.out.put o f, saved := w.saved.del o }
      | none => { w with out := w.out.del o }
    | _ => w
  | .outLink o target =>
    match w.out.get o with
    | some ⟨_, .dir⟩ => w
    | _ => { w with out := w.out.put o ⟨⟨target.length, w.tick, symlinkMode, target⟩, .junk⟩, tick := w.tick + 1 }
  | .cacheExpire =>
    -- `get` answers "not found" for an expired record, `remove` deletes it and `put` replaces it
    -- (obligations gen_put_replaces / gen_remove_unconditional), so an expired record is an absent one
    { w with cache := [] }
  | .build always ts => (w.build cfg always ts).world

end PubModel.C10
