/-
C10 — specification layer: digests as a pure function of the sources and rule
definitions (`digN`), validity of a cache entry, well-formedness of a rule graph.
-/
import PubModel.C10.Lemmas

namespace PubModel.C10

/-! ### digests as a function of `Static` alone -/

def digL (f : Name → Option Dg) : List Name → Option (Option DgList)
  | [] => some (some .nil)
  | n :: ns =>
    match f n, digL f ns with
    | some d, some rest => some (DgList.ofOpt n d rest)
    | _, _ => none

/-- the digest `buildNode` computes for a node, without any build state -/
def digN (S : Static) : Nat → Name → Option Dg
  | 0, _ => none
  | fuel + 1, n =>
    match S.node n with
    | none => none
    | some (.src st) => some (.src n st)
    | some (.out r) => (digN S fuel r.name).map (outDigest n r.name)
    | some (.rule r) =>
      match digL (digN S fuel) (fileDeps S r), digL (digN S fuel) (incDeps r) with
      | some fd, some idp => some (actDigest r fd idp)
      | _, _ => none

/-- `d` is the digest of node `n` -/
def IsD (S : Static) (n : Name) (d : Dg) : Prop := ∃ k, digN S k n = some d

theorem digL_mono {f g : Name → Option Dg} (h : ∀ n d, f n = some d → g n = some d) :
    ∀ (ns : List Name) (r : Option DgList), digL f ns = some r → digL g ns = some r := by
  intro ns
  induction ns with
  | nil => intro r hr; simpa [digL] using hr
  | cons n ns ih =>
    intro r hr
    unfold digL at hr ⊢
    cases hf : f n with
    | none => simp [hf] at hr
    | some d =>
      cases hl : digL f ns with
      | none => simp [hf, hl] at hr
      | some rest =>
        simp only [hf, hl] at hr
        simp only [h n d hf, ih rest hl]
        exact hr

theorem digN_succ (S : Static) : ∀ (k : Nat) (n : Name) (d : Dg), digN S k n = some d → digN S (k + 1) n = some d := by
  intro k
  induction k with
  | zero => intro n d h; simp [digN] at h
  | succ k ih =>
    intro n d h
    unfold digN at h ⊢
    cases hn : S.node n with
    | none => simp [hn] at h
    | some nd =>
      cases nd with
      | src st => simpa [hn] using h
      | out r =>
        simp only [hn] at h ⊢
        cases hr : digN S k r.name with
        | none => simp [hr] at h
        | some dr =>
          rw [ih r.name dr hr]
          simpa [hr] using h
      | rule r =>
        simp only [hn] at h ⊢
        cases h1 : digL (digN S k) (fileDeps S r) with
        | none => simp [h1] at h
        | some fd =>
          cases h2 : digL (digN S k) (incDeps r) with
          | none => simp [h1, h2] at h
          | some idp =>
            rw [digL_mono ih _ _ h1, digL_mono ih _ _ h2]
            simpa [h1, h2] using h

theorem digN_le (S : Static) {k k' : Nat} (hk : k ≤ k') {n : Name} {d : Dg} (h : digN S k n = some d) :
    digN S k' n = some d := by
  induction hk with
  | refl => exact h
  | step _ ih => exact digN_succ S _ n d ih

/-- a node has at most one digest -/
theorem IsD.unique {S : Static} {n : Name} {d d' : Dg} (h : IsD S n d) (h' : IsD S n d') : d = d' := by
  obtain ⟨k, hk⟩ := h
  obtain ⟨k', hk'⟩ := h'
  have a := digN_le S (Nat.le_max_left k k') hk
  have b := digN_le S (Nat.le_max_right k k') hk'
  rw [a] at b
  exact Option.some.inj b

/-! ### well-formed rule graphs (what the loader guarantees before anything is built) -/

structure WF (S : Static) (rank : Name → Nat) : Prop where
  /-- the graph is acyclic: every dependency has a smaller rank (C11: the loader rejects cycles) -/
  ranked : ∀ n nd, S.node n = some nd → ∀ m ∈ nodeDeps S nd, rank m < rank n
  /-- an output belongs to one rule ("node redeclared") -/
  outsUniq : ∀ r q, r ∈ S.rules → q ∈ S.rules → ∀ o, o ∈ outs r → o ∈ outs q → r = q
  /-- rule names are unique -/
  namesUniq : ∀ r q, r ∈ S.rules → q ∈ S.rules → r.name = q.name → r = q
  /-- file sets and bundles always have a digest (docker rules are outside the quantifier) -/
  noVolatile : ∀ r ∈ S.rules, r.volatile = false

/-- a cache entry for digest `d` that describes the current outputs of rule `r` -/
def Valid (st : BState) (r : Rule) (d : Dg) : Prop :=
  ∃ b, st.cache.get d = some b ∧ b.map (·.name) = outs r ∧ sameBuilt st.out b = true

/-- cache entries record exactly the outputs named in their digest -/
def outsOfDg : Dg → List Name
  | .act r _ _ => outs r
  | _ => []

def KInv (cache : AL Dg Built) : Prop :=
  ∀ d b, cache.get d = some b → d ≠ .always → b.map (·.name) = outsOfDg d

end PubModel.C10
