/-
C10 — the traversal preserves the cache invariant and leaves every node it
finished with the contents its digest prescribes.
-/
import PubModel.C10.Content

namespace PubModel.C10

structure GPre (saved : AL Name OutFile) (st : BState) : Prop where
  cinv : CInv st.out saved st.cache st.tick
  mgood : ∀ m dm, st.memo.get m = some dm → NodeGood st.out dm

/-! ### the cache invariant under the elementary state changes -/

theorem CInv.mono_out {out out' saved : AL Name OutFile} {cache : AL Dg Built} {tick : Nat}
    (hsub : ∀ o f, out'.get o = some f → out.get o = some f) (h : CInv out saved cache tick) :
    CInv out' saved cache tick where
  fresh := by
    intro o f hf
    rcases hf with hf | hf
    · exact h.fresh o f (Or.inl (hsub o f hf))
    · exact h.fresh o f (Or.inr hf)
  recs := h.recs
  content := by
    intro d b hb hd rec hrec f hf hm
    rcases hf with hf | hf
    · exact h.content d b hb hd rec hrec f (Or.inl (hsub _ f hf)) hm
    · exact h.content d b hb hd rec hrec f (Or.inr hf) hm

theorem CInv.del_cache {out saved : AL Name OutFile} {cache : AL Dg Built} {tick : Nat}
    (h : CInv out saved cache tick) (d0 : Dg) : CInv out saved (cache.del d0) tick where
  fresh := h.fresh
  recs := by
    intro d b hb
    by_cases hd : d = d0
    · subst hd; simp [AL.get_del_same] at hb
    · rw [AL.get_del_ne _ hd] at hb; exact h.recs d b hb
  content := by
    intro d b hb
    by_cases hd : d = d0
    · subst hd; simp [AL.get_del_same] at hb
    · rw [AL.get_del_ne _ hd] at hb; exact h.content d b hb

/-- a write at the current tick -/
theorem CInv.write {out saved : AL Name OutFile} {cache : AL Dg Built} {tick : Nat}
    (h : CInv out saved cache tick) (o : Name) (f : OutFile) (hf : f.stat.mtime = tick) :
    CInv (out.put o f) saved cache (tick + 1) where
  fresh := by
    intro o' f' hf'
    rcases hf' with hf' | hf'
    · by_cases ho : o' = o
      · subst ho
        simp only [AL.get_put_same, Option.some.injEq] at hf'
        subst hf'; omega
      · rw [AL.get_put_ne _ _ ho] at hf'
        exact Nat.lt_succ_of_lt (h.fresh o' f' (Or.inl hf'))
    · exact Nat.lt_succ_of_lt (h.fresh o' f' (Or.inr hf'))
  recs := by
    intro d b hb rec hrec
    obtain ⟨h1, h2⟩ := h.recs d b hb rec hrec
    exact ⟨Nat.lt_succ_of_lt h1, h2⟩
  content := by
    intro d b hb hd rec hrec f' hf' hm
    rcases hf' with hf' | hf'
    · by_cases ho : rec.name = o
      · rw [ho] at hf'
        simp only [AL.get_put_same, Option.some.injEq] at hf'
        subst hf'
        have := (h.recs d b hb rec hrec).1
        omega
      · rw [AL.get_put_ne _ _ ho] at hf'
        exact h.content d b hb hd rec hrec f' (Or.inl hf') hm
    · exact h.content d b hb hd rec hrec f' (Or.inr hf') hm

/-- a write at the current tick, recorded under the digest that produced it -/
theorem CInv.write_put {out saved : AL Name OutFile} {cache : AL Dg Built} {tick : Nat}
    (h : CInv out saved cache tick) (o : Name) (l : List Entry) (dg : Dg) (hF : F dg = some (canon l)) :
    CInv (out.put o ⟨⟨sizeOf l, tick, regularMode, ""⟩, .entries l⟩) saved
      (cache.put dg [⟨o, ⟨sizeOf l, tick, regularMode, ""⟩⟩]) (tick + 1) := by
  have hw := h.write o ⟨⟨sizeOf l, tick, regularMode, ""⟩, .entries l⟩ rfl
  exact {
    fresh := hw.fresh
    recs := by
      intro d b hb
      by_cases hd : d = dg
      · subst hd
        simp only [AL.get_put_same, Option.some.injEq] at hb
        subst hb
        intro rec hrec
        simp only [List.mem_singleton] at hrec
        subst hrec
        exact ⟨Nat.lt_succ_self _, rfl, rfl⟩
      · rw [AL.get_put_ne _ _ hd] at hb; exact hw.recs d b hb
    content := by
      intro d b hb hda
      by_cases hd : d = dg
      · subst hd
        simp only [AL.get_put_same, Option.some.injEq] at hb
        subst hb
        intro rec hrec f hf hm
        simp only [List.mem_singleton] at hrec
        subst hrec
        rcases hf with hf | hf
        · simp only [AL.get_put_same, Option.some.injEq] at hf
          subst hf
          exact ⟨l, rfl, hF, rfl⟩
        · have := h.fresh o f (Or.inr hf)
          simp only at hm
          omega
      · rw [AL.get_put_ne _ _ hd] at hb; exact hw.content d b hb hda }

theorem CInv.put_nil {out saved : AL Name OutFile} {cache : AL Dg Built} {tick : Nat}
    (h : CInv out saved cache tick) (dg : Dg) : CInv out saved (cache.put dg []) tick where
  fresh := h.fresh
  recs := by
    intro d b hb
    by_cases hd : d = dg
    · subst hd
      simp only [AL.get_put_same, Option.some.injEq] at hb
      subst hb; intro rec hrec; cases hrec
    · rw [AL.get_put_ne _ _ hd] at hb; exact h.recs d b hb
  content := by
    intro d b hb
    by_cases hd : d = dg
    · subst hd
      simp only [AL.get_put_same, Option.some.injEq] at hb
      subst hb; intro _ rec hrec; cases hrec
    · rw [AL.get_put_ne _ _ hd] at hb; exact h.content d b hb

end PubModel.C10

namespace PubModel.C10

/-! ### what `execRule` does, case by case -/

theorem clearOut_sub (out : AL Name OutFile) (o : Name) :
    ∀ o' f, (clearOut out o).get o' = some f → out.get o' = some f := by
  intro o' f h
  unfold clearOut at h
  split at h
  · exact h
  · by_cases ho : o' = o
    · subst ho; simp [AL.get_del_same] at h
    · rw [AL.get_del_ne _ ho] at h; exact h

theorem execRule_bundle (S : Static) (cfg : Cfg) (r : Rule) (st : BState) (hk : r.kind = .bundle) :
    execRule S cfg r st = (true, st) := by
  simp [execRule, hk]

theorem execRule_fileSet (S : Static) (cfg : Cfg) (hco : cfg.clearOuts = true) (r : Rule) (st : BState)
    (hk : r.kind = .fileSet) (ok : Bool) (st3 : BState) (h : execRule S cfg r st = (ok, st3)) :
    (ok = false → st3.tick = st.tick ∧ st3.out = clearOut st.out (fileSetOut r.name)) ∧
    (ok = true → ∃ a b, fileEntries S (clearOut st.out (fileSetOut r.name)) (resolveFiles S r) = some a ∧
      incEntries S (clearOut st.out (fileSetOut r.name)) r.incs = some b ∧ st3.tick = st.tick + 1 ∧
      st3.out = (clearOut st.out (fileSetOut r.name)).put (fileSetOut r.name)
        ⟨⟨sizeOf (mergeEntries (a ++ b)), st.tick, regularMode, ""⟩, .entries (mergeEntries (a ++ b))⟩) := by
  unfold execRule at h
  simp only [hk, hco, if_true] at h
  generalize clearOut st.out (fileSetOut r.name) = out1 at h ⊢
  cases ha : fileEntries S out1 (resolveFiles S r) with
  | none =>
    simp only [ha, Prod.mk.injEq] at h
    obtain ⟨rfl, rfl⟩ := h
    exact ⟨fun _ => ⟨rfl, rfl⟩, fun h => by cases h⟩
  | some a =>
    cases hb : incEntries S out1 r.incs with
    | none =>
      simp only [ha, hb, Prod.mk.injEq] at h
      obtain ⟨rfl, rfl⟩ := h
      exact ⟨fun _ => ⟨rfl, rfl⟩, fun h => by cases h⟩
    | some b =>
      simp only [ha, hb] at h
      unfold writeOut at h
      simp only [hco, if_true] at h
      cases hg : out1.get (fileSetOut r.name) with
      | none =>
        simp only [hg, Prod.mk.injEq] at h
        obtain ⟨rfl, rfl⟩ := h
        exact ⟨(fun h => by cases h), fun _ => ⟨a, b, rfl, rfl, rfl, rfl⟩⟩
      | some f =>
        obtain ⟨fst, fbody⟩ := f
        cases fbody with
        | dir =>
          simp only [hg, Prod.mk.injEq] at h
          obtain ⟨rfl, rfl⟩ := h
          exact ⟨fun _ => ⟨rfl, rfl⟩, fun h => by cases h⟩
        | junk =>
          simp only [hg, Prod.mk.injEq] at h
          obtain ⟨rfl, rfl⟩ := h
          exact ⟨(fun h => by cases h), fun _ => ⟨a, b, rfl, rfl, rfl, rfl⟩⟩
        | entries l0 =>
          simp only [hg, Prod.mk.injEq] at h
          obtain ⟨rfl, rfl⟩ := h
          exact ⟨(fun h => by cases h), fun _ => ⟨a, b, rfl, rfl, rfl, rfl⟩⟩

/-! ### outputs of finished nodes are not touched when another rule runs -/

theorem IsD_out_inv {S : Static} {rank : Name → Nat} (wf : WF S rank) {m m' rn : Name} {dx : Dg}
    (h : IsD S m (.out m' rn dx)) : ∃ q, S.node m = some (.out q) ∧ m' = m ∧ rn = q.name := by
  obtain ⟨k, hk⟩ := h
  cases hn : S.node m with
  | none => cases k <;> simp [digN, hn] at hk
  | some nd =>
    cases nd with
    | src stt => have := digN_src hk hn; cases this
    | out q =>
      obtain ⟨dq, he, _⟩ := digN_out wf hk hn
      injection he with e1 e2 e3
      exact ⟨q, rfl, e1, e2⟩
    | rule q =>
      obtain ⟨a, b, he⟩ := IsD_rule wf (node_rule hn) ⟨k, hk⟩
      cases he

theorem NodeGood_frame {S : Static} {rank : Name → Nat} (wf : WF S rank) {st2 : BState} (hp : VPre S st2)
    {n : Name} {r : Rule} (hr : S.findRule n = some r) (hnone : st2.memo.get n = none)
    {out' : AL Name OutFile} (hout : ∀ o', o' ∉ outs r → out'.get o' = st2.out.get o')
    {m : Name} {dm : Dg} (hm : st2.memo.get m = some dm) (hg : NodeGood st2.out dm) : NodeGood out' dm := by
  have hrm := findRule_some hr
  have hD := hp.mdig m dm hm
  have hmn : m ≠ n := by intro e; subst e; rw [hnone] at hm; cases hm
  cases dm with
  | src _ _ => trivial
  | always => trivial
  | act r' a b =>
    have hr' := IsD_act_inv hD
    have hr'm := findRule_some hr'
    intro o ho
    obtain ⟨f, hf, hgf⟩ := hg o ho
    refine ⟨f, ?_, hgf⟩
    rw [hout o]
    · exact hf
    · intro ho'
      have := wf.outsUniq r' r hr'm.1 hrm.1 o ho ho'
      apply hmn
      rw [← hr'm.2, this, hrm.2]
  | out m' rn dx =>
    obtain ⟨q, hq, rfl, rfl⟩ := IsD_out_inv wf hD
    obtain ⟨f, hf, hgf⟩ := hg
    refine ⟨f, ?_, hgf⟩
    rw [hout m']
    · exact hf
    · intro ho'
      have hqo := node_out hq
      have hqm := findOut_some hqo.2
      have := wf.outsUniq q r hqm.1 hrm.1 m' hqm.2 ho'
      obtain ⟨dn, hdn⟩ := hp.mclosed m' _ _ hm hq q.name (by simp [nodeDeps])
      rw [this, hrm.2, hnone] at hdn
      cases hdn

end PubModel.C10

namespace PubModel.C10

theorem mem_names {b : Built} {o : Name} (h : o ∈ b.map (·.name)) : ∃ rec ∈ b, rec.name = o := by
  obtain ⟨rec, hrec, he⟩ := List.mem_map.mp h
  exact ⟨rec, hrec, he⟩

theorem sameBuilt_mem {out : AL Name OutFile} {b : Built} (h : sameBuilt out b = true) {rec : Rec} (hr : rec ∈ b) :
    ∃ f, out.get rec.name = some f ∧ f.stat = rec.stat := by
  unfold sameBuilt at h
  have := List.all_eq_true.mp h rec hr
  unfold sameStat at this
  cases hg : out.get rec.name with
  | none => simp [hg] at this
  | some f => exact ⟨f, rfl, by simpa [hg] using this⟩

/-- a cache hit: the recorded outputs are unchanged on disk, hence hold what the digest prescribes -/
theorem hit_good {out saved : AL Name OutFile} {cache : AL Dg Built} {tick : Nat} (hc : CInv out saved cache tick)
    {d : Dg} (hd : d ≠ .always) {b : Built} (hb : cache.get d = some b) (hs : sameBuilt out b = true) :
    ∀ rec ∈ b, ∃ f, out.get rec.name = some f ∧ GoodFile f d := by
  intro rec hrec
  obtain ⟨f, hf, hst⟩ := sameBuilt_mem hs hrec
  obtain ⟨l, hl, hF, hsz⟩ := hc.content d b hb hd rec hrec f (Or.inl hf) (by rw [hst])
  obtain ⟨_, hmode, hsym⟩ := hc.recs d b hb rec hrec
  exact ⟨f, hf, l, hl, hF, by rw [hst]; exact hsz, by rw [hst]; exact hmode, by rw [hst]; exact hsym⟩

theorem G_finish {S : Static} {cfg : Cfg} {always : Bool} (hrf : cfg.removeFirst = true) (hpf : cfg.putFirst = false)
    (hco : cfg.clearOuts = true) {rank : Name → Nat} (wf : WF S rank) {saved : AL Name OutFile}
    {st2 : BState} (hp : VPre S st2) (hg : GPre saved st2)
    {n : Name} {r : Rule} {fd idp : DgList} (hr : S.findRule n = some r) (hnone : st2.memo.get n = none)
    (hd : IsD S n (.act r fd idp)) {k : Nat}
    (hfd : digL (digN S k) (fileDeps S r) = some (some fd)) (hidp : digL (digN S k) (incDeps r) = some (some idp))
    (hc : ∀ x ∈ fileDeps S r ++ incDeps r, ∃ dx, st2.memo.get x = some dx)
    {res : Res} {st' : BState} (h : finishRule S cfg always r (.act r fd idp) st2 = (res, st')) :
    GPre saved st' := by
  have hrm := findRule_some hr
  rw [finishRule_good S cfg hrf hpf] at h
  by_cases hhit : (cacheHit st2 (.act r fd idp) && !always) = true
  · -- cache hit
    simp only [hhit, if_true, Prod.mk.injEq] at h
    obtain ⟨_, rfl⟩ := h
    have hhit' : cacheHit st2 (.act r fd idp) = true := by
      simp only [Bool.and_eq_true] at hhit; exact hhit.1
    obtain ⟨b, hb, hn, hs⟩ := cacheHit_iff hp.kinv |>.mp hhit'
    refine ⟨hg.cinv, ?_⟩
    intro m dm hm
    by_cases hmn : m = r.name
    · subst hmn
      simp only [BState.memoize, AL.get_put_same, Option.some.injEq] at hm
      subst hm
      intro o ho
      rw [← hn] at ho
      obtain ⟨rec, hrec, rfl⟩ := mem_names ho
      exact hit_good hg.cinv (by simp) hb hs rec hrec
    · simp only [BState.memoize, AL.get_put_ne _ _ hmn] at hm
      exact hg.mgood m dm hm
  · -- executed
    simp only [hhit, Bool.false_eq_true, if_false] at h
    unfold runRule at h
    generalize hs2 : ({ st2 with cache := st2.cache.del (.act r fd idp), log := st2.log ++ [r.name] } : BState) = s2 at h
    have hs2out : s2.out = st2.out := by rw [← hs2]
    have hs2tick : s2.tick = st2.tick := by rw [← hs2]
    have hs2memo : s2.memo = st2.memo := by rw [← hs2]
    have hs2cache : s2.cache = st2.cache.del (.act r fd idp) := by rw [← hs2]
    have hc2 := execRule_cache S cfg r s2
    have hm2 := execRule_memo S cfg r s2
    cases hk : r.kind with
    | bundle =>
      rw [execRule_bundle S cfg r s2 hk] at h
      have houts : outs r = [] := by simp [outs, hk]
      simp only [houts, newBuilt, Prod.mk.injEq] at h
      obtain ⟨_, rfl⟩ := h
      refine ⟨?_, ?_⟩
      · simp only [BState.memoize]
        rw [hs2out, hs2cache, hs2tick]
        exact (hg.cinv.del_cache _).put_nil _
      · intro m dm hm
        simp only [BState.memoize] at hm ⊢
        rw [hs2memo] at hm
        rw [hs2out]
        by_cases hmn : m = r.name
        · subst hmn
          simp only [AL.get_put_same, Option.some.injEq] at hm
          subst hm
          intro o ho; rw [houts] at ho; cases ho
        · rw [AL.get_put_ne _ _ hmn] at hm
          exact hg.mgood m dm hm
    | fileSet =>
      have houts : outs r = [fileSetOut r.name] := by simp [outs, hk]
      have hframe1 : ∀ o', o' ∉ outs r → (clearOut st2.out (fileSetOut r.name)).get o' = st2.out.get o' := by
        intro o' ho'
        apply clearOut_get_ne
        intro e; apply ho'; rw [houts, e]; exact List.mem_singleton.mpr rfl
      cases hx : execRule S cfg r s2 with
      | mk okx st3 =>
        rw [hx] at h hc2 hm2
        simp only at hc2 hm2
        obtain ⟨hfail, hsucc⟩ := execRule_fileSet S cfg hco r s2 hk okx st3 hx
        rw [hs2out, hs2tick] at hfail hsucc
        cases okx with
        | false =>
          simp only [Prod.mk.injEq] at h
          obtain ⟨_, rfl⟩ := h
          obtain ⟨ht, ho⟩ := hfail rfl
          refine ⟨?_, ?_⟩
          · rw [ho, ht, hc2, hs2cache]
            exact (hg.cinv.mono_out (clearOut_sub _ _)).del_cache _
          · intro m dm hm
            rw [hm2, hs2memo] at hm
            rw [ho]
            exact NodeGood_frame wf hp hr hnone hframe1 hm (hg.mgood m dm hm)
        | true =>
          obtain ⟨a, b, ha, hb, ht, ho⟩ := hsucc rfl
          -- the digests of the dependencies describe what was read
          have hdepgood : ∀ x ∈ fileDeps S r ++ incDeps r, ∀ dx, digN S k x = some dx →
              NodeGood (clearOut st2.out (fileSetOut r.name)) dx := by
            intro x hx' dx hdx
            obtain ⟨dx', hdx'⟩ := hc x hx'
            have : dx' = dx := IsD.unique (hp.mdig x dx' hdx') ⟨k, hdx⟩
            subst this
            exact NodeGood_frame wf hp hr hnone hframe1 hdx' (hg.mgood x dx' hdx')
          have hfd' : digL (digN S k) (resolveFiles S r) = some (some fd) := by
            simpa [fileDeps, hk] using hfd
          have hidp' : digL (digN S k) r.incs = some (some idp) := by
            simpa [incDeps, hk] using hidp
          have hfE := fileEnts_good wf _ k _ fd a hfd'
            (fun x hx' => hdepgood x (List.mem_append.mpr (Or.inl (by simpa [fileDeps, hk] using hx')))) ha
          have hiE := incEnts_good wf _ k _ idp b hidp'
            (fun x hx' => hdepgood x (List.mem_append.mpr (Or.inr (by simpa [incDeps, hk] using hx')))) hb
          have hF : F (.act r fd idp) = some (canon (mergeEntries (a ++ b))) := by
            simp only [F, hk, hfE, hiE]
            rw [← canon_append, mergeEntries_canon]
          have hnb : newBuilt st3.out (outs r) =
              some [⟨fileSetOut r.name, ⟨sizeOf (mergeEntries (a ++ b)), st2.tick, regularMode, ""⟩⟩] := by
            rw [houts, ho]
            simp [newBuilt, AL.get_put_same]
          simp only [hnb, Prod.mk.injEq] at h
          obtain ⟨_, rfl⟩ := h
          refine ⟨?_, ?_⟩
          · simp only [BState.memoize]
            rw [ho, ht, hc2, hs2cache]
            exact ((hg.cinv.mono_out (clearOut_sub _ _)).del_cache _).write_put _ _ _ hF
          · intro m dm hm
            simp only [BState.memoize] at hm ⊢
            rw [hm2, hs2memo] at hm
            have hframe2 : ∀ o', o' ∉ outs r → st3.out.get o' = st2.out.get o' := by
              intro o' ho'
              rw [ho, AL.get_put_ne]
              · exact hframe1 o' ho'
              · intro e; apply ho'; rw [houts, e]; exact List.mem_singleton.mpr rfl
            by_cases hmn : m = r.name
            · subst hmn
              simp only [AL.get_put_same, Option.some.injEq] at hm
              subst hm
              intro o hoo
              rw [houts] at hoo
              simp only [List.mem_singleton] at hoo
              subst hoo
              refine ⟨_, by rw [ho]; exact AL.get_put_same _ _ _, _, rfl, hF, rfl, rfl, rfl⟩
            · rw [AL.get_put_ne _ _ hmn] at hm
              exact NodeGood_frame wf hp hr hnone hframe2 hm (hg.mgood m dm hm)

end PubModel.C10

namespace PubModel.C10

def GNode (S : Static) (cfg : Cfg) (always : Bool) (saved : AL Name OutFile) (fuel : Nat) : Prop :=
  ∀ n st res st', buildNode S cfg always fuel n st = (res, st') → VPre S st → GPre saved st → GPre saved st'

theorem GPre.memoize {saved : AL Name OutFile} {st : BState} (hg : GPre saved st) {n : Name} {d : Dg}
    (hd : NodeGood st.out d) : GPre saved (st.memoize n d) where
  cinv := hg.cinv
  mgood := by
    intro m dm hm
    by_cases hmn : m = n
    · subst hmn
      simp only [BState.memoize, AL.get_put_same, Option.some.injEq] at hm
      subst hm; exact hd
    · simp only [BState.memoize, AL.get_put_ne _ _ hmn] at hm
      exact hg.mgood m dm hm

theorem G_list {S : Static} {cfg : Cfg} {always : Bool} {rank : Name → Nat} (_wf : WF S rank)
    {saved : AL Name OutFile} (fuel : Nat) (ihv : VNode S cfg always rank fuel) (ihg : GNode S cfg always saved fuel) :
    ∀ (ns : List Name) (st : BState) (res : DepRes) (st' : BState),
      depsLoop (buildNode S cfg always fuel) ns st = (res, st') → VPre S st → GPre saved st → GPre saved st' := by
  intro ns
  induction ns with
  | nil =>
    intro st res st' h _ hg
    simp only [depsLoop, Prod.mk.injEq] at h
    obtain ⟨_, rfl⟩ := h; exact hg
  | cons n ns ih =>
    intro st res st' h hp hg
    unfold depsLoop at h
    cases hfn : buildNode S cfg always fuel n st with
    | mk r1 st1 =>
      rw [hfn] at h
      have hg1 := ihg n st r1 st1 hfn hp hg
      obtain ⟨_, hrel1, _⟩ := ihv n st r1 st1 hfn hp
      cases r1 with
      | err e => simp only [Prod.mk.injEq] at h; obtain ⟨_, rfl⟩ := h; exact hg1
      | ok d1 =>
        simp only at h
        cases hl : depsLoop (buildNode S cfg always fuel) ns st1 with
        | mk r2 st2 =>
          rw [hl] at h
          have hg2 := ih st1 r2 st2 hl hrel1.pre' hg1
          cases r2 with
          | err e => simp only [Prod.mk.injEq] at h; obtain ⟨_, rfl⟩ := h; exact hg2
          | ok rest => simp only [Prod.mk.injEq] at h; obtain ⟨_, rfl⟩ := h; exact hg2

theorem G_node {S : Static} {cfg : Cfg} {always : Bool} (hrf : cfg.removeFirst = true) (hpf : cfg.putFirst = false)
    (hco : cfg.clearOuts = true) {rank : Name → Nat} (wf : WF S rank) (saved : AL Name OutFile) :
    ∀ fuel, GNode S cfg always saved fuel := by
  intro fuel
  induction fuel with
  | zero =>
    intro n st res st' h _ hg
    simp only [buildNode, Prod.mk.injEq] at h
    obtain ⟨_, rfl⟩ := h; exact hg
  | succ fuel ih =>
    intro n st res st' h hp hg
    have ihv := V_node (always := always) hrf hpf wf fuel
    unfold buildNode at h
    cases hmem : st.memo.get n with
    | some d0 => simp only [hmem, Prod.mk.injEq] at h; obtain ⟨_, rfl⟩ := h; exact hg
    | none =>
      simp only [hmem] at h
      cases hnode : S.node n with
      | none => simp only [hnode, Prod.mk.injEq] at h; obtain ⟨_, rfl⟩ := h; exact hg
      | some nd =>
        cases nd with
        | src stt =>
          simp only [hnode, Prod.mk.injEq] at h
          obtain ⟨_, rfl⟩ := h
          exact hg.memoize trivial
        | out q =>
          simp only [hnode] at h
          cases hb : buildNode S cfg always fuel q.name st with
          | mk r1 st1 =>
            rw [hb] at h
            have hg1 := ih q.name st r1 st1 hb hp hg
            obtain ⟨_, hrel1, hok1⟩ := ihv q.name st r1 st1 hb hp
            cases r1 with
            | err e => simp only [Prod.mk.injEq] at h; obtain ⟨_, rfl⟩ := h; exact hg1
            | ok d1 =>
              simp only [Prod.mk.injEq] at h
              obtain ⟨_, rfl⟩ := h
              obtain ⟨hD1, hm1⟩ := hok1 d1 rfl
              have hqo := node_out hnode
              have hqm := findOut_some hqo.2
              obtain ⟨a, b, rfl⟩ := IsD_rule wf (findRule_of_mem wf hqm.1) hD1
              apply hg1.memoize
              have hne : Dg.act q a b ≠ .always := by simp
              simp only [outDigest, hne, if_false]
              exact hg1.mgood q.name _ hm1 n hqm.2
        | rule r =>
          simp only [hnode] at h
          have hr := node_rule hnode
          cases h1 : depsLoop (buildNode S cfg always fuel) (fileDeps S r) st with
          | mk r1 st1 =>
            rw [h1] at h
            have hg1 := G_list wf fuel ihv ih _ st r1 st1 h1 hp hg
            obtain ⟨new1, hrel1, hok1⟩ := V_list wf fuel ihv _ st r1 st1 h1 hp
            have hrel1s := hrel1.mono (belowL_strict wf hnode (ns := fileDeps S r)
              (by intro m hm; simp [nodeDeps, hm]))
            cases r1 with
            | err e => simp only [Prod.mk.injEq] at h; obtain ⟨_, rfl⟩ := h; exact hg1
            | ok fd =>
              simp only at h
              cases h2 : depsLoop (buildNode S cfg always fuel) (incDeps r) st1 with
              | mk r2 st2 =>
                rw [h2] at h
                have hg2 := G_list wf fuel ihv ih _ st1 r2 st2 h2 hrel1.pre' hg1
                obtain ⟨new2, hrel2, hok2⟩ := V_list wf fuel ihv _ st1 r2 st2 h2 hrel1.pre'
                have hrel2s := hrel2.mono (belowL_strict wf hnode (ns := incDeps r)
                  (by intro m hm; simp [nodeDeps, hm]))
                have hrel12s := hrel1s.trans wf hrel2s
                cases r2 with
                | err e => simp only [Prod.mk.injEq] at h; obtain ⟨_, rfl⟩ := h; exact hg2
                | ok idp =>
                  simp only at h
                  obtain ⟨⟨k1, hk1⟩, hm1⟩ := hok1 fd rfl
                  obtain ⟨⟨k2, hk2⟩, hm2⟩ := hok2 idp rfl
                  have hnone2 : st2.memo.get n = none := by
                    apply Classical.byContradiction
                    intro hne
                    have := hrel12s.memoNew n (by rw [hmem]; exact hne)
                    exact Nat.lt_irrefl _ this.1
                  have hk1' := digL_mono (fun m d hd => digN_le S (Nat.le_max_left k1 k2) hd) _ _ hk1
                  have hk2' := digL_mono (fun m d hd => digN_le S (Nat.le_max_right k1 k2) hd) _ _ hk2
                  obtain ⟨fd', rfl⟩ := digL_some (digN_ne_always wf _) _ _ hk1'
                  obtain ⟨idp', rfl⟩ := digL_some (digN_ne_always wf _) _ _ hk2'
                  have hv := wf.noVolatile r (findRule_some hr).1
                  have hact : actDigest r (some fd') (some idp') = .act r fd' idp' := by simp [actDigest, hv]
                  rw [hact] at h
                  have hd : IsD S n (.act r fd' idp') := by
                    refine ⟨max k1 k2 + 1, ?_⟩
                    unfold digN
                    simp only [hnode, hk1', hk2', hact]
                  have hc : ∀ x ∈ fileDeps S r ++ incDeps r, ∃ dx, st2.memo.get x = some dx := by
                    intro x hx
                    rcases List.mem_append.mp hx with hx | hx
                    · obtain ⟨dx, hdx⟩ := hm1 x hx
                      exact ⟨dx, hrel2.memoMono _ _ hdx⟩
                    · exact hm2 x hx
                  exact G_finish hrf hpf hco wf hrel2.pre' hg2 hr hnone2 hd hk1' hk2' hc h

theorem G_targets {S : Static} {cfg : Cfg} {always : Bool} (hrf : cfg.removeFirst = true) (hpf : cfg.putFirst = false)
    (hco : cfg.clearOuts = true) {rank : Name → Nat} (wf : WF S rank) (saved : AL Name OutFile) (fuel : Nat) :
    ∀ (ts : List Name) (st : BState) (e : Option Err) (st' : BState),
      buildNodes S cfg always fuel ts st = (e, st') → VPre S st → GPre saved st → GPre saved st' := by
  intro ts
  induction ts with
  | nil =>
    intro st e st' h _ hg
    simp only [buildNodes, Prod.mk.injEq] at h
    obtain ⟨_, rfl⟩ := h; exact hg
  | cons t ts ih =>
    intro st e st' h hp hg
    unfold buildNodes at h
    split at h
    · exact ih st e st' h hp hg
    · cases hb : buildNode S cfg always fuel t st with
      | mk r1 st1 =>
        rw [hb] at h
        have hg1 := G_node hrf hpf hco wf saved fuel t st r1 st1 hb hp hg
        obtain ⟨_, hrel1, _⟩ := V_node (always := always) hrf hpf wf fuel t st r1 st1 hb hp
        cases r1 with
        | err e1 => simp only [Prod.mk.injEq] at h; obtain ⟨_, rfl⟩ := h; exact hg1
        | ok d1 => exact ih st1 e st' h hrel1.pre' hg1

end PubModel.C10
