import PubModel.C10.Theorems
open PubModel.C10
#print axioms cache_inv
#print axioms exec_matches_digest
#print axioms reachW_cinv
#print axioms incremental_eq_clean
#print axioms clean_succeeds_of_incremental
#print axioms clean_fails_incremental_fails
#print axioms incremental_eq_clean_partial
#print axioms incremental_eq_clean_current_tree
#print axioms null_build_executes_nothing
#print axioms rebuilds_exactly_dependents
#print axioms executed_iff_invalid
#print axioms digest_eq_cone_eq
#print axioms digest_changed_of_cone_changed
#print axioms rebuilds_only_dependents
#print axioms digest_unchanged
#print axioms failed_never_cached
#print axioms reach_kinv
#print axioms cache_inv_current_tree
#print axioms failed_never_cached_current_tree
#print axioms gen_src_digest_covers_stat
#print axioms gen_action_covers_inputs
#print axioms gen_out_digest_covers
#print axioms gen_same_stat_compares_all
#print axioms gen_cfg_good
#print axioms gen_buildNode_shape
#print axioms gen_expiry_long
