/-
C10 — exactness of re-execution: a finished rule was executed iff it was not
valid when the build started; equal digests mean equal cones.
-/
import PubModel.C10.Reach
import PubModel.C10.Content

namespace PubModel.C10

theorem keys_get {α β : Type} [DecidableEq α] (l : AL α β) (k : α) (h : k ∈ l.keys) : ∃ v, l.get k = some v := by
  induction l with
  | nil => simp [AL.keys] at h
  | cons p t ih =>
    obtain ⟨a, b⟩ := p
    by_cases ha : a = k
    · exact ⟨b, by simp [AL.get_cons, ha]⟩
    · simp only [AL.keys, List.map_cons, List.mem_cons] at h
      rcases h with h | h
      · exact absurd h.symm ha
      · obtain ⟨v, hv⟩ := ih h
        exact ⟨v, by simp [AL.get_cons, ha, hv]⟩

theorem src_reaches {S : Static} {t x : Name} {stt : Stat} (hs : S.node t = some (.src stt))
    (h : Reaches S t x) : x = t := by
  cases h with
  | refl => rfl
  | step nd hnd hm _ =>
    rw [hs] at hnd; cases hnd
    simp [nodeDeps] at hm

/-- **Executed iff invalid**: a rule that a build (without AlwaysRebuild) finished was executed
    exactly when the cache had no entry for its digest that matched the outputs on disk. -/
theorem executed_iff_invalid {cfg : Cfg} (hr : cfg.removeFirst = true) (hp : cfg.putFirst = false)
    {w : World} (hk : KInv w.cache) {rank : Name → Nat} (wf : WF w.S rank) (ts : List Name)
    {x : Name} {r : Rule} {d : Dg} (hfr : w.S.findRule x = some r) (hd : IsD w.S x d)
    (hvis : x ∈ (w.build cfg false ts).visited) :
    x ∈ (w.build cfg false ts).log ↔ ¬ Valid w.st0 r d := by
  by_cases hl : loadOK w.S ts = true
  · obtain ⟨e, st, hb, hlog, _, hv, _⟩ := build_loaded w cfg false ts hl
    obtain ⟨new, hrel, _⟩ := V_targets hr hp wf _ ts _ e st hb (VPre.init hk)
    rw [hlog, hrel.log]
    rw [hv] at hvis
    simp only [World.st0, List.nil_append]
    constructor
    · intro hx
      obtain ⟨_, r', hr', hnv⟩ := hrel.exec x hx
      rw [hfr] at hr'; cases hr'
      exact hnv d hd rfl
    · intro hnv
      apply Classical.byContradiction
      intro hx
      obtain ⟨d', hd'⟩ := keys_get _ _ hvis
      have hv' := hrel.hitValid x d' r (by simp [World.st0, AL.get]) hd' hfr hx
      rw [IsD.unique (hrel.pre'.mdig x d' hd') hd] at hv'
      exact hnv hv'
  · have := (build_not_loaded w cfg false ts hl)
    unfold World.build at hvis
    simp [hl] at hvis

/-! ### equal digests mean equal cones (digests are injective) -/

def DgList.toList : DgList → List (Name × Dg)
  | .nil => []
  | .cons n d t => (n, d) :: t.toList

theorem digL_toList {f : Name → Option Dg} (hf : ∀ n d, f n = some d → d ≠ .always) :
    ∀ (ns : List Name) (fd : DgList), digL f ns = some (some fd) →
      fd.toList.map (·.1) = ns ∧ ∀ p ∈ fd.toList, f p.1 = some p.2 := by
  intro ns
  induction ns with
  | nil =>
    intro fd h
    simp only [digL, Option.some.injEq] at h
    subst h; simp [DgList.toList]
  | cons n ns ih =>
    intro fd h
    unfold digL at h
    cases hn : f n with
    | none => simp [hn] at h
    | some d =>
      cases hl : digL f ns with
      | none => simp [hn, hl] at h
      | some rest =>
        obtain ⟨rest', rfl⟩ := digL_some hf _ _ hl
        simp only [hn, hl, Option.some.injEq, DgList.ofOpt, hf n d hn, if_false, Option.map_some] at h
        subst h
        obtain ⟨h1, h2⟩ := ih rest' hl
        refine ⟨by simp [DgList.toList, h1], ?_⟩
        intro p hp
        simp only [DgList.toList, List.mem_cons] at hp
        rcases hp with rfl | hp
        · exact hn
        · exact h2 p hp

theorem digN_rule {S : Static} {rank : Name → Nat} (wf : WF S rank) {k : Nat} {n : Name} {d : Dg} {r : Rule}
    (h : digN S (k + 1) n = some d) (hn : S.node n = some (.rule r)) :
    ∃ a b, d = .act r a b ∧ digL (digN S k) (fileDeps S r) = some (some a) ∧
      digL (digN S k) (incDeps r) = some (some b) := by
  unfold digN at h
  simp only [hn] at h
  cases h1 : digL (digN S k) (fileDeps S r) with
  | none => simp [h1] at h
  | some fd =>
    cases h2 : digL (digN S k) (incDeps r) with
    | none => simp [h1, h2] at h
    | some idp =>
      obtain ⟨a, rfl⟩ := digL_some (digN_ne_always wf k) _ _ h1
      obtain ⟨b, rfl⟩ := digL_some (digN_ne_always wf k) _ _ h2
      simp only [h1, h2, Option.some.injEq] at h
      have hv := wf.noVolatile r (findRule_some (node_rule hn)).1
      exact ⟨a, b, by rw [← h]; simp [actDigest, hv], rfl, rfl⟩

theorem IsD_pos {S : Static} {n : Name} {d : Dg} (h : IsD S n d) : ∃ k, digN S (k + 1) n = some d := by
  obtain ⟨k, hk⟩ := h
  cases k with
  | zero => simp [digN] at hk
  | succ k => exact ⟨k, hk⟩

/-- one step: the same digest in two trees means the same node and the same dependencies,
    each again with a common digest -/
theorem cone_step {S1 S2 : Static} {rank1 rank2 : Name → Nat} (wf1 : WF S1 rank1) (wf2 : WF S2 rank2)
    {x : Name} {d : Dg} (h1 : IsD S1 x d) (h2 : IsD S2 x d) :
    S2.node x = S1.node x ∧
    (∀ r, S1.node x = some (.rule r) → fileDeps S2 r = fileDeps S1 r) ∧
    ∀ nd, S1.node x = some nd → ∀ m ∈ nodeDeps S1 nd, ∃ dm, IsD S1 m dm ∧ IsD S2 m dm := by
  obtain ⟨k1, hk1⟩ := IsD_pos h1
  obtain ⟨k2, hk2⟩ := IsD_pos h2
  cases hn1 : S1.node x with
  | none => simp [digN, hn1] at hk1
  | some nd1 =>
    cases hn2 : S2.node x with
    | none => simp [digN, hn2] at hk2
    | some nd2 =>
      cases nd1 with
      | src st1 =>
        have e1 := digN_src hk1 hn1
        cases nd2 with
        | src st2 =>
          have e2 := digN_src hk2 hn2
          rw [e1] at e2; injection e2 with _ e
          subst e
          exact ⟨rfl, (by intro r hr; cases hr), (by intro nd hnd m hm; cases hnd; simp [nodeDeps] at hm)⟩
        | out q2 => obtain ⟨dq, e2, _⟩ := digN_out wf2 hk2 hn2; rw [e1] at e2; cases e2
        | rule r2 => obtain ⟨a, b, e2, _⟩ := digN_rule wf2 hk2 hn2; rw [e1] at e2; cases e2
      | out q1 =>
        obtain ⟨dq1, e1, hq1⟩ := digN_out wf1 hk1 hn1
        cases nd2 with
        | src st2 => have e2 := digN_src hk2 hn2; rw [e1] at e2; cases e2
        | rule r2 => obtain ⟨a, b, e2, _⟩ := digN_rule wf2 hk2 hn2; rw [e1] at e2; cases e2
        | out q2 =>
          obtain ⟨dq2, e2, hq2⟩ := digN_out wf2 hk2 hn2
          rw [e1] at e2
          injection e2 with _ en ed
          subst ed
          have hm1 := (findOut_some (node_out hn1).2).1
          have hm2 := (findOut_some (node_out hn2).2).1
          obtain ⟨a1, b1, ea⟩ := IsD_rule wf1 (findRule_of_mem wf1 hm1) hq1
          obtain ⟨a2, b2, eb⟩ := IsD_rule wf2 (findRule_of_mem wf2 hm2) hq2
          rw [ea] at eb
          injection eb with eq _ _
          subst eq
          refine ⟨rfl, (by intro r hr; cases hr), ?_⟩
          intro nd hnd m hm
          cases hnd
          simp only [nodeDeps, List.mem_singleton] at hm
          subst hm
          exact ⟨dq1, hq1, hq2⟩
      | rule r1 =>
        obtain ⟨a1, b1, e1, hf1, hi1⟩ := digN_rule wf1 hk1 hn1
        cases nd2 with
        | src st2 => have e2 := digN_src hk2 hn2; rw [e1] at e2; cases e2
        | out q2 => obtain ⟨dq, e2, _⟩ := digN_out wf2 hk2 hn2; rw [e1] at e2; cases e2
        | rule r2 =>
          obtain ⟨a2, b2, e2, hf2, hi2⟩ := digN_rule wf2 hk2 hn2
          rw [e1] at e2
          injection e2 with er ea eb
          subst er; subst ea; subst eb
          obtain ⟨hfn1, hfp1⟩ := digL_toList (digN_ne_always wf1 k1) _ _ hf1
          obtain ⟨hfn2, hfp2⟩ := digL_toList (digN_ne_always wf2 k2) _ _ hf2
          obtain ⟨hin1, hip1⟩ := digL_toList (digN_ne_always wf1 k1) _ _ hi1
          obtain ⟨_, hip2⟩ := digL_toList (digN_ne_always wf2 k2) _ _ hi2
          refine ⟨rfl, ?_, ?_⟩
          · intro r hr; cases hr; rw [← hfn2, hfn1]
          · intro nd hnd m hm
            cases hnd
            simp only [nodeDeps, List.mem_append] at hm
            rcases hm with hm | hm
            · rw [← hfn1] at hm
              obtain ⟨p, hp, rfl⟩ := List.mem_map.mp hm
              exact ⟨p.2, ⟨k1, hfp1 p hp⟩, ⟨k2, hfp2 p hp⟩⟩
            · rw [← hin1] at hm
              obtain ⟨p, hp, rfl⟩ := List.mem_map.mp hm
              exact ⟨p.2, ⟨k1, hip1 p hp⟩, ⟨k2, hip2 p hp⟩⟩

/-- **Digests are injective on cones**: if a node has the same digest in two trees, every node
    it transitively depends on is the same node (same kind, same lstat fields, same rule
    definition) with the same digest in both. -/
theorem digest_eq_cone_eq {S1 S2 : Static} {rank1 rank2 : Name → Nat} (wf1 : WF S1 rank1) (wf2 : WF S2 rank2)
    {x m : Name} (hre : Reaches S1 x m) : ∀ d, IsD S1 x d → IsD S2 x d →
    S2.node m = S1.node m ∧ ∃ dm, IsD S1 m dm ∧ IsD S2 m dm := by
  induction hre with
  | refl n => intro d h1 h2; exact ⟨(cone_step wf1 wf2 h1 h2).1, d, h1, h2⟩
  | step nd hnd hm _ ih =>
    intro d h1 h2
    obtain ⟨dm, hm1, hm2⟩ := (cone_step wf1 wf2 h1 h2).2.2 nd hnd _ hm
    exact ih dm hm1 hm2

/-- a change anywhere in the cone changes the digest -/
theorem digest_changed_of_cone_changed {S1 S2 : Static} {rank1 rank2 : Name → Nat} (wf1 : WF S1 rank1)
    (wf2 : WF S2 rank2) {x m : Name} (hre : Reaches S1 x m) (hne : S2.node m ≠ S1.node m) :
    ¬ ∃ d, IsD S1 x d ∧ IsD S2 x d := by
  intro ⟨d, h1, h2⟩
  exact hne (digest_eq_cone_eq wf1 wf2 hre d h1 h2).1

end PubModel.C10
