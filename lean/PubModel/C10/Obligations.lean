/-
C10 — obligations that connect the *regenerated* facts (`Gen.Caco3Cache`,
rewritten from /repo's source on every run) to the model: the digests cover
every input the model's executor reads, `checkSameBuilt` compares every lstat
field, and `buildNode` touches the cache in the order the theorems assume.
All closed by `decide`.
-/
import PubModel.C10.Glue

namespace PubModel.C10
open PubModel.Gen

/-- the `fileStat` fields the executor copies into a `.fileset` (`Entry`: name, type, `Stat`) -/
def statFieldsRead : List String := ["Name", "Type", "Size", "ModTimestamp", "Mode", "Symlink"]

/-- what `Dg.act` is made of: rule digest, rule type, dependency digests, output names -/
def actionInputs : List String := ["Rule", "RuleType", "Deps", "Outs"]

/-- `Dg.src` covers every field the executor reads from a source: all of them reach the hashed
    JSON, all are filled from `lstat`, and nothing edits the stat between `lstat` and `makeDigest` -/
theorem gen_src_digest_covers_stat :
    (∀ f ∈ statFieldsRead, f ∈ Caco3Cache.fileStatFields ∧ f ∈ Caco3Cache.statFilled) ∧
    Caco3Cache.srcDigestDirect = true ∧ Caco3Cache.usesLstat = true := by decide

/-- `Dg.act` covers the rule digest, the rule type, the dependency digests and the outputs -/
theorem gen_action_covers_inputs :
    ∀ f ∈ actionInputs, f ∈ Caco3Cache.actionFields ∧ f ∈ Caco3Cache.actionSetForRule := by decide

/-- `Dg.out` covers the producing rule's digest and the output name -/
theorem gen_out_digest_covers :
    ∀ f ∈ ["Deps", "OutputOf"], f ∈ Caco3Cache.actionFields ∧ f ∈ Caco3Cache.actionSetForOut := by decide

/-- `sameStat` compares the whole `Stat`: size, mtime, mode, symlink, for every recorded output -/
theorem gen_same_stat_compares_all :
    (∀ f ∈ ["Size", "ModTimestamp", "Mode", "Symlink"], f ∈ Caco3Cache.sameStatFields) ∧
    Caco3Cache.checkSameBuiltWalksOuts = true := by decide

/-- `buildNode`: memo first; a hit needs `get` and `checkSameBuilt`; `remove` precedes the execution,
    `put` follows it and is reached only for rule nodes; stale outputs are cleared first -/
theorem gen_cfg_good : genCfg = Cfg.good := by decide

theorem gen_buildNode_shape :
    Caco3Cache.memoCheckedFirst = true ∧ Caco3Cache.hitNeedsSameBuilt = true ∧
    Caco3Cache.hasPut = true ∧ Caco3Cache.putOnlyForRules = true := by decide

/-- an expired record behaves like an absent one (`Op.cacheExpire` empties the model's cache):
    `get` does not return it, `remove` is reached on every miss — live record or not — and `put`
    overwrites whatever is stored under the digest -/
theorem gen_expired_record_is_absent :
    Caco3Cache.getChecksExpiry = true ∧ Caco3Cache.removeUnconditional = true ∧
    Caco3Cache.putMethod = "Replace" := by decide

/-- premise "the expiry does not elapse within a history": the cache keeps entries for at least a day -/
theorem gen_expiry_long : 24 ≤ Caco3Cache.expireHours := by decide

end PubModel.C10
