/-
C10 — caco3: an incremental build always equals a clean build.  Property theorems.

Statement file; the lemmas are in Lemmas / Spec / Frames / Kinv / Valid / Reach / Content.
Histories are unbounded (`Reach`: any sequence of source edits, BUILD edits,
output tampering and builds).  Hypotheses that are premises of the property
(DESIGN.md 5c): digests are injective (they are the structured values hashed),
every write of an output gets a fresh mtime (the model's `tick`), the cache
expiry does not elapse; what the loader guarantees before a build starts is the
hypothesis `WF` (acyclic, unique names, no always-rebuild rules: file sets and bundles).
-/
import PubModel.C10.ReachW
import PubModel.C10.Exact
import PubModel.C10.Sim
import PubModel.C10.Obligations

namespace PubModel.C10

/-! ## a failed rule is never treated as built -/

/-- **A rule whose execution failed is never cached**: when a build stops
    because rule `rn` (action digest `d`) failed, the cache holds no entry for `d`,
    so no later build can take it for built. -/
theorem failed_never_cached (w : World) (cfg : Cfg) (hr : cfg.removeFirst = true) (hp : cfg.putFirst = false)
    (always : Bool) (ts : List Name) (rn : Name) (d : Dg)
    (h : (w.build cfg always ts).outcome = .buildErr (.exec rn d)) :
    (w.build cfg always ts).world.cache.get d = none := by
  by_cases hl : loadOK w.S ts = true
  · obtain ⟨e, st, hb, _, hw, _, ho⟩ := build_loaded w cfg always ts hl
    rw [ho] at h
    cases e with
    | none => cases h
    | some e =>
      simp only [Outcome.buildErr.injEq] at h
      subst h
      rw [hw]
      exact buildNodes_errClean w.S cfg hr hp always _ ts _ rn d st hb
  · rw [(build_not_loaded w cfg always ts hl).2.2] at h; cases h

/-- non-vacuity: a file set that includes a source file fails when it runs -/
def exFail : World :=
  { World.empty with S := ⟨[("r/x.txt", ⟨1, 5, 420, ""⟩)],
      [⟨"r/a", .fileSet, ["r/x.txt"], [], [], ["r/x.txt"], [], false⟩]⟩ }

example : (match (exFail.build Cfg.good false ["r/a"]).outcome with
    | .buildErr (.exec "r/a" _) => true | _ => false) = true := by decide

/-! ## a build with nothing changed executes nothing -/

/-- **Null build**: after a successful build, the same build again executes no rule. -/
theorem null_build_executes_nothing {cfg : Cfg} (hr : cfg.removeFirst = true) (hp : cfg.putFirst = false)
    {w : World} (hreach : Reach cfg w) {rank : Name → Nat} (wf : WF w.S rank) (ts : List Name)
    (hok : (w.build cfg false ts).outcome = .ok) :
    ((w.build cfg false ts).world.build cfg false ts).log = [] := by
  have hl := build_ok_loaded hok
  obtain ⟨e, st, hb, _, hw, _, ho⟩ := build_loaded w cfg false ts hl
  have he : e = none := by
    cases e with
    | none => rfl
    | some e => rw [ho] at hok; cases hok
  subst he
  obtain ⟨new1, hrel1, hmem1⟩ := V_targets hr hp wf _ ts _ _ st hb (VPre.init (reach_kinv hr hp hreach))
  rw [hw]
  have hl2 : loadOK (w.after st).S ts = true := hl
  obtain ⟨e2, st2, hb2, hlog2, _, _, _⟩ := build_loaded (w.after st) cfg false ts hl2
  rw [hlog2]
  have wf2 : WF (w.after st).S rank := wf
  obtain ⟨new2, hrel2, _⟩ := V_targets hr hp wf2 _ ts _ _ st2 hb2
    (VPre.init (S := (w.after st).S) hrel1.pre'.kinv)
  rw [hrel2.log]
  simp only [World.st0, List.nil_append]
  apply List.eq_nil_iff_forall_not_mem.mpr
  intro x hx
  obtain ⟨⟨t, ht, _, hre⟩, r, hfr, hnv⟩ := hrel2.exec x hx
  rcases hmem1 rfl t ht with ⟨stt, hs⟩ | ⟨d, hd⟩
  · have := src_reaches (S := w.S) hs hre
    subst this
    have hfr' : w.S.findRule x = some r := hfr
    rw [node_of_findRule hfr'] at hs; cases hs
  · obtain ⟨dx, hdx⟩ := reach_closed hrel1.pre' (S := w.S) hre d hd
    have hv := hrel1.pre'.mvalid x dx r hdx hfr
    have hD := hrel1.pre'.mdig x dx hdx
    exact hnv dx hD rfl ((Valid_congr (st := st) (st' := (w.after st).st0) rfl rfl r dx).mpr hv)

/-- non-vacuity: a two-rule workspace builds, executing both rules -/
def exOk : World :=
  { World.empty with S := ⟨[("r/x.txt", ⟨1, 5, 420, ""⟩), ("r/y.txt", ⟨2, 6, 420, ""⟩)],
      [⟨"r/a", .fileSet, ["r/x.txt"], [⟨"r", ".txt", false⟩], [], [], [], false⟩,
       ⟨"r/b", .fileSet, ["r/a.fileset"], [], [], ["r/a"], [], false⟩,
       ⟨"r/all", .bundle, [], [], [], [], ["r/a", "r/b"], false⟩]⟩ }

example : (exOk.build Cfg.good false ["r/all"]).outcome = .ok ∧
    (exOk.build Cfg.good false ["r/all"]).log = ["r/a", "r/b", "r/all"] := by decide
example : ((exOk.build Cfg.good false ["r/all"]).world.build Cfg.good false ["r/all"]).log = [] := by decide

/-! ## a change re-executes only what depends on it -/

/-- **Only dependants are rebuilt.**  Build `ts` successfully, then change the
    sources, the rule definitions and the outputs at will (the cache is only
    touched by builds) and build `ts2`.  A rule that is executed by the second
    build was not built by the first one, or its digest is not what it was (it
    transitively depends on a change: `digest_unchanged` below), or one of its
    own outputs was tampered with or deleted. -/
theorem rebuilds_only_dependents {cfg : Cfg} (hr : cfg.removeFirst = true) (hp : cfg.putFirst = false)
    {w : World} (hreach : Reach cfg w) {rank : Name → Nat} (wf : WF w.S rank) (ts : List Name)
    (hok : (w.build cfg false ts).outcome = .ok)
    (w2 : World) (hcache : w2.cache = (w.build cfg false ts).world.cache)
    {rank2 : Name → Nat} (wf2 : WF w2.S rank2) (ts2 : List Name) :
    ∀ x ∈ (w2.build cfg false ts2).log, ∃ r, w2.S.findRule x = some r ∧
      (x ∉ (w.build cfg false ts).visited ∨
       ¬ (∃ d, IsD w.S x d ∧ IsD w2.S x d) ∨
       ∃ o ∈ outs r, w2.out.get o ≠ (w.build cfg false ts).world.out.get o) := by
  intro x hx
  have hl := build_ok_loaded hok
  obtain ⟨e, st, hb, _, hw, hvis, ho⟩ := build_loaded w cfg false ts hl
  obtain ⟨new1, hrel1, _⟩ := V_targets hr hp wf _ ts _ _ st hb (VPre.init (reach_kinv hr hp hreach))
  rw [hw] at hcache ⊢
  rw [hvis]
  by_cases hl2 : loadOK w2.S ts2 = true
  · obtain ⟨e2, st2, hb2, hlog2, _, _, _⟩ := build_loaded w2 cfg false ts2 hl2
    rw [hlog2] at hx
    have hk2 : KInv w2.cache := by rw [hcache]; exact hrel1.pre'.kinv
    obtain ⟨new2, hrel2, _⟩ := V_targets hr hp wf2 _ ts2 _ _ st2 hb2 (VPre.init hk2)
    rw [hrel2.log] at hx
    simp only [World.st0, List.nil_append] at hx
    obtain ⟨_, r, hfr, hnv⟩ := hrel2.exec x hx
    refine ⟨r, hfr, ?_⟩
    by_cases h1 : x ∈ st.memo.keys
    · by_cases h2 : ∃ d, IsD w.S x d ∧ IsD w2.S x d
      · by_cases h3 : ∃ o ∈ outs r, w2.out.get o ≠ (w.after st).out.get o
        · exact Or.inr (Or.inr h3)
        · exfalso
          obtain ⟨d, hd1, hd2⟩ := h2
          obtain ⟨dx, hdx⟩ := keys_get _ _ h1
          have hdd : dx = d := IsD.unique (hrel1.pre'.mdig x dx hdx) hd1
          subst hdd
          obtain ⟨fd, idp, rfl⟩ := IsD_rule wf2 hfr hd2
          have hfr1 := IsD_act_inv hd1
          obtain ⟨b, hb1, hn1, hs1⟩ := hrel1.pre'.mvalid x _ r hdx hfr1
          refine hnv _ hd2 rfl ⟨b, ?_, hn1, ?_⟩
          · show w2.cache.get _ = some b
            rw [hcache]; exact hb1
          · show sameBuilt w2.out b = true
            rw [sameBuilt_congr (out := st.out)]
            · exact hs1
            · intro rec hrec
              have hmem : rec.name ∈ outs r := by rw [← hn1]; exact List.mem_map_of_mem hrec
              apply Classical.byContradiction
              intro hne
              exact h3 ⟨rec.name, hmem, hne⟩
      · exact Or.inr (Or.inl h2)
    · exact Or.inl h1
  · rw [(build_not_loaded w2 cfg false ts2 hl2).1] at hx; cases hx

end PubModel.C10

namespace PubModel.C10

theorem digL_congr {f g : Name → Option Dg} : ∀ (ns : List Name), (∀ n ∈ ns, f n = g n) → digL f ns = digL g ns := by
  intro ns
  induction ns with
  | nil => intro _; rfl
  | cons n ns ih =>
    intro h
    unfold digL
    rw [h n (List.mem_cons_self ..), ih (fun m hm => h m (List.mem_cons_of_mem _ hm))]

/-- **The digest of a node depends only on what it transitively depends on**: if
    no node reachable from `x` changed (same node, same resolved file list), the
    digest of `x` is what it was. -/
theorem digest_unchanged {S1 S2 : Static} : ∀ (k : Nat) (x : Name),
    (∀ m, Reaches S1 x m → S2.node m = S1.node m ∧
      ∀ r, S1.node m = some (.rule r) → fileDeps S2 r = fileDeps S1 r) →
    digN S2 k x = digN S1 k x := by
  intro k
  induction k with
  | zero => intro x _; rfl
  | succ k ih =>
    intro x h
    obtain ⟨hn, hf⟩ := h x (Reaches.refl x)
    unfold digN
    rw [hn]
    cases hx : S1.node x with
    | none => rfl
    | some nd =>
      cases nd with
      | src st => rfl
      | out r =>
        simp only
        rw [ih r.name (fun m hm => h m (Reaches.step _ hx (by simp [nodeDeps]) hm))]
      | rule r =>
        simp only
        rw [hf r hx]
        have h1 : digL (digN S2 k) (fileDeps S1 r) = digL (digN S1 k) (fileDeps S1 r) :=
          digL_congr _ (fun m hm => ih m (fun y hy => h y (Reaches.step _ hx (by simp [nodeDeps, hm]) hy)))
        have h2 : digL (digN S2 k) (incDeps r) = digL (digN S1 k) (incDeps r) :=
          digL_congr _ (fun m hm => ih m (fun y hy => h y (Reaches.step _ hx (by simp [nodeDeps, hm]) hy)))
        rw [h1, h2]

/-- non-vacuity of `rebuilds_only_dependents`: touching `r/y.txt` re-executes `r/a` (selects it),
    `r/b` (includes `r/a`) and the bundle; chmod of a file nobody uses re-executes nothing -/
example : (((exOk.build Cfg.good false ["r/all"]).world.apply Cfg.good
      (.srcSet "r/y.txt" ⟨2, 7, 420, ""⟩)).build Cfg.good false ["r/all"]).log = ["r/a", "r/b", "r/all"] := by decide
example : (((exOk.build Cfg.good false ["r/all"]).world.apply Cfg.good
      (.srcSet "q/z.go" ⟨2, 7, 420, ""⟩)).build Cfg.good false ["r/all"]).log = [] := by decide
/-- deleting one output re-executes its owner only (the dependants' digests are unchanged) -/
example : (((exOk.build Cfg.good false ["r/all"]).world.apply Cfg.good
      (.outDel "r/a.fileset")).build Cfg.good false ["r/all"]).log = ["r/a"] := by decide

end PubModel.C10

namespace PubModel.C10

/-- **Exactly the dependants are rebuilt.**  As in `rebuilds_only_dependents`: build `ts`, change
    sources, rule definitions and outputs at will, build `ts2`.  For a rule that both builds
    finished and whose own outputs were left alone: it is executed by the second build **iff**
    its digest is no longer what it was — and the digest is what it was iff nothing in its cone
    changed (`digest_unchanged`, `digest_changed_of_cone_changed`: a changed source, a changed
    file list or a changed rule definition anywhere below it changes the digest).  The premise
    `hfresh` is the one the statement needs: the new digest was never cached before (an exact
    edit-back to an earlier state is a legitimate cache hit). -/
theorem rebuilds_exactly_dependents {cfg : Cfg} (hr : cfg.removeFirst = true) (hp : cfg.putFirst = false)
    {w : World} (hreach : Reach cfg w) {rank : Name → Nat} (wf : WF w.S rank) (ts : List Name)
    (hok : (w.build cfg false ts).outcome = .ok)
    (w2 : World) (hcache : w2.cache = (w.build cfg false ts).world.cache)
    {rank2 : Name → Nat} (wf2 : WF w2.S rank2) (ts2 : List Name)
    {x : Name} {r : Rule} (hfr : w2.S.findRule x = some r)
    (hvis1 : x ∈ (w.build cfg false ts).visited) (hvis2 : x ∈ (w2.build cfg false ts2).visited)
    (houts : ∀ o ∈ outs r, w2.out.get o = (w.build cfg false ts).world.out.get o)
    (hfresh : ∀ d, IsD w2.S x d → ¬ IsD w.S x d → w2.cache.get d = none) :
    x ∈ (w2.build cfg false ts2).log ↔ ¬ ∃ d, IsD w.S x d ∧ IsD w2.S x d := by
  constructor
  · intro hx
    obtain ⟨r', hr', h⟩ := rebuilds_only_dependents hr hp hreach wf ts hok w2 hcache wf2 ts2 x hx
    rw [hfr] at hr'; cases hr'
    rcases h with h | h | ⟨o, ho, hne⟩
    · exact absurd hvis1 h
    · exact h
    · exact absurd (houts o ho) hne
  · intro hne
    have hk2 : KInv w2.cache := by
      rw [hcache]; exact build_kinv w cfg hr hp false ts (reach_kinv hr hp hreach)
    have hl2 : loadOK w2.S ts2 = true := by
      apply Classical.byContradiction
      intro hl
      unfold World.build at hvis2
      simp [hl] at hvis2
    obtain ⟨e2, st2, hb2, _, _, hv2, _⟩ := build_loaded w2 cfg false ts2 hl2
    obtain ⟨_, hrel2, _⟩ := V_targets hr hp wf2 _ ts2 _ e2 st2 hb2 (VPre.init hk2)
    have hvis2' := hvis2
    rw [hv2] at hvis2'
    obtain ⟨d2, hd2⟩ := keys_get _ _ hvis2'
    have hD2 := hrel2.pre'.mdig x d2 hd2
    refine (executed_iff_invalid hr hp hk2 wf2 ts2 hfr hD2 hvis2).mpr ?_
    intro ⟨b, hb, _⟩
    have hnone := hfresh d2 hD2 (fun h1 => hne ⟨d2, h1, hD2⟩)
    have hb' : w2.cache.get d2 = some b := hb
    rw [hnone] at hb'
    cases hb'

/-- non-vacuity (a diamond: `d/top` bundles `d/l` and `d/r`, both file sets over the leaves
    `d/a.txt` / `d/b.txt`, and `d/l` also lists `d/base`'s output): one changed leaf re-executes
    exactly the rules above it -/
def exDiamond : World :=
  { World.empty with S := ⟨[("d/a.txt", ⟨1, 5, 420, ""⟩), ("d/b.txt", ⟨2, 6, 420, ""⟩), ("d/c.txt", ⟨3, 7, 420, ""⟩)],
      [⟨"d/base", .fileSet, ["d/c.txt"], [], [], [], [], false⟩,
       ⟨"d/l", .fileSet, ["d/a.txt", "d/base.fileset"], [], [], [], [], false⟩,
       ⟨"d/r", .fileSet, ["d/b.txt"], [], [], ["d/base"], [], false⟩,
       ⟨"d/top", .bundle, [], [], [], [], ["d/l", "d/r"], false⟩]⟩ }

example : (exDiamond.build Cfg.good false ["d/top"]).log = ["d/base", "d/l", "d/r", "d/top"] := by decide
/-- leaf `d/a.txt` changed: `d/l` and the bundle are re-executed, `d/base` and `d/r` are not -/
example : (((exDiamond.build Cfg.good false ["d/top"]).world.apply Cfg.good
      (.srcSet "d/a.txt" ⟨1, 9, 420, ""⟩)).build Cfg.good false ["d/top"]).log = ["d/l", "d/top"] := by decide
/-- the shared leaf `d/c.txt` changed: everything above it is re-executed -/
example : (((exDiamond.build Cfg.good false ["d/top"]).world.apply Cfg.good
      (.srcSet "d/c.txt" ⟨3, 9, 420, ""⟩)).build Cfg.good false ["d/top"]).log =
    ["d/base", "d/l", "d/r", "d/top"] := by decide
/-- an exact edit-back after that is a cache hit for every digest, but the outputs on disk are the
    newer writes: the rules are executed again (stale entries are detected by `checkSameBuilt`) -/
example : ((((exDiamond.build Cfg.good false ["d/top"]).world.apply Cfg.good
      (.srcSet "d/c.txt" ⟨3, 9, 420, ""⟩)).build Cfg.good false ["d/top"]).world.apply Cfg.good
      (.srcSet "d/c.txt" ⟨3, 7, 420, ""⟩) |>.build Cfg.good false ["d/top"]).log =
    ["d/base", "d/l", "d/r"] := by decide

/-! ## the cache invariant -/

/-- **Cache invariant.**  In every reachable world, a cache entry whose recorded
    outputs are unchanged on disk (`checkSameBuilt`) describes files that hold
    exactly what executing a rule with that action digest writes: `F d`, the
    content as a function of the digest (`exec_matches_digest` below ties `F` to the
    executor). -/
theorem cache_inv {cfg : Cfg} (hrf : cfg.removeFirst = true) (hpf : cfg.putFirst = false)
    (hco : cfg.clearOuts = true) {w : World} (hreach : ReachW cfg w) {d : Dg} {b : Built}
    (hb : w.cache.get d = some b) (hd : d ≠ .always) (hs : sameBuilt w.out b = true) :
    ∀ rec ∈ b, ∃ f, w.out.get rec.name = some f ∧ GoodFile f d :=
  hit_good (reachW_cinv hrf hpf hco hreach) hd hb hs

/-- **The digest covers every input the executor reads**: when the dependencies of a file set
    are on disk as their digests prescribe, what the executor collects is what `F` reads off
    the digests.  (Used by the invariant each time a rule is executed.) -/
theorem exec_matches_digest {S : Static} {rank : Name → Nat} (wf : WF S rank) (out : AL Name OutFile) (k : Nat)
    (r : Rule) (hk : r.kind = .fileSet) (fd idp : DgList) (a b : List Entry)
    (hfd : digL (digN S k) (resolveFiles S r) = some (some fd))
    (hidp : digL (digN S k) r.incs = some (some idp))
    (hgood : ∀ x ∈ resolveFiles S r ++ r.incs, ∀ dx, digN S k x = some dx → NodeGood out dx)
    (ha : fileEntries S out (resolveFiles S r) = some a) (hb : incEntries S out r.incs = some b) :
    F (.act r fd idp) = some (canon (mergeEntries (a ++ b))) := by
  have hfE := fileEnts_good wf out k _ fd a hfd
    (fun x hx => hgood x (List.mem_append.mpr (Or.inl hx))) ha
  have hiE := incEnts_good wf out k _ idp b hidp
    (fun x hx => hgood x (List.mem_append.mpr (Or.inr hx))) hb
  simp only [F, hk, hfE, hiE]
  rw [← canon_append, mergeEntries_canon]

/-! ## incremental = clean -/

/-- equality of the outputs when both builds succeed; `incremental_eq_clean` below discharges the
    second hypothesis (`clean_succeeds_of_incremental`) and is the full statement of DESIGN.md;
    this corollary-shaped lemma is kept under its old name -/
theorem incremental_eq_clean_partial {cfg : Cfg} (hrf : cfg.removeFirst = true) (hpf : cfg.putFirst = false)
    (hco : cfg.clearOuts = true) {w : World} (hreach : ReachW cfg w) {rank : Name → Nat} (wf : WF w.S rank)
    (always : Bool) (ts : List Name)
    (hok : (w.build cfg always ts).outcome = .ok)
    (hclean : (w.clean.build cfg false ts).outcome = .ok) :
    ∀ r, w.S.findRule r.name = some r → r.name ∈ (w.build cfg always ts).visited → ∀ o ∈ outs r,
      ∃ f fc l lc, (w.build cfg always ts).world.out.get o = some f ∧
        (w.clean.build cfg false ts).world.out.get o = some fc ∧
        f.body = .entries l ∧ fc.body = .entries lc ∧ canon l = canon lc ∧
        f.stat.size = fc.stat.size ∧ f.stat.mode = fc.stat.mode ∧ f.stat.symlink = fc.stat.symlink := by
  intro r hr hvis o ho
  -- the incremental build
  have hl := build_ok_loaded hok
  obtain ⟨e, st, hb, _, hw, hv, hout⟩ := build_loaded w cfg always ts hl
  have he : e = none := by
    cases e with
    | none => rfl
    | some e => rw [hout] at hok; cases hok
  subst he
  have hk := reach_kinv hrf hpf hreach.reach
  obtain ⟨newA, hrelA, _⟩ := V_targets (always := always) hrf hpf wf _ ts _ _ st hb (VPre.init hk)
  have hgA := G_targets hrf hpf hco wf w.saved _ ts _ _ st hb (VPre.init hk)
    (GPre.init (reachW_cinv hrf hpf hco hreach))
  -- the clean build
  have hlc : loadOK w.clean.S ts = true := hl
  have wfc : WF w.clean.S rank := wf
  obtain ⟨ec, stc, hbc, _, hwc, _, houtc⟩ := build_loaded w.clean cfg false ts hlc
  have hec : ec = none := by
    cases ec with
    | none => rfl
    | some e => rw [houtc] at hclean; cases hclean
  subst hec
  have hkc : KInv w.clean.cache := by intro d b hb'; simp [World.clean, AL.get] at hb'
  obtain ⟨newC, hrelC, hmemC⟩ := V_targets (always := false) hrf hpf wfc _ ts _ _ stc hbc (VPre.init hkc)
  have hgC := G_targets hrf hpf hco wfc w.clean.saved _ ts _ _ stc hbc (VPre.init hkc)
    (GPre.init (by simpa [World.clean] using CInv.empty w.tick))
  rw [hw, hwc]
  rw [hv] at hvis
  -- the rule was visited by both builds, with the same digest
  obtain ⟨dA, hdA⟩ := keys_get _ _ hvis
  have hne : st.memo.get r.name ≠ (w.st0).memo.get r.name := by
    rw [hdA]; simp [World.st0, AL.get]
  obtain ⟨t, ht, _, hre⟩ := hrelA.memoNew r.name hne
  have hinC : ∃ dC, stc.memo.get r.name = some dC := by
    rcases hmemC rfl t ht with ⟨stt, hs⟩ | ⟨d, hd⟩
    · have hx := src_reaches (S := w.S) hs hre
      have hs' : w.S.node r.name = some (.src stt) := by rw [hx]; exact hs
      rw [node_of_findRule hr] at hs'
      cases hs'
    · exact reach_closed hrelC.pre' (S := w.S) hre d hd
  obtain ⟨dC, hdC⟩ := hinC
  have hDA := hrelA.pre'.mdig _ _ hdA
  have hDC : IsD w.S r.name dC := hrelC.pre'.mdig _ _ hdC
  have hdd : dC = dA := IsD.unique hDC hDA
  subst hdd
  obtain ⟨fd, idp, rfl⟩ := IsD_rule wf hr hDA
  obtain ⟨f, hf, l, hlb, hF, hsz, hmode, hsym⟩ := hgA.mgood _ _ hdA o ho
  obtain ⟨fc, hfc, lc, hlcb, hFc, hszc, hmodec, hsymc⟩ := hgC.mgood _ _ hdC o ho
  have hcan : canon l = canon lc := by rw [hF] at hFc; exact Option.some.inj hFc
  refine ⟨f, fc, l, lc, hf, hfc, hlb, hlcb, hcan, ?_, ?_, ?_⟩
  · rw [hsz, hszc, ← sizeOf_canon l, ← sizeOf_canon lc, hcan]
  · rw [hmode, hmodec]
  · rw [hsym, hsymc]

/-- **If the incremental build succeeds, so does the build from an empty output directory**
    (the two traversals run in lock step; a rule found up to date or executed successfully has a
    digest that prescribes a content, so the clean executor finds every input it needs). -/
theorem clean_succeeds_of_incremental {cfg : Cfg} (hrf : cfg.removeFirst = true) (hpf : cfg.putFirst = false)
    (hco : cfg.clearOuts = true) {w : World} (hreach : ReachW cfg w) {rank : Name → Nat} (wf : WF w.S rank)
    (always : Bool) (ts : List Name) (hok : (w.build cfg always ts).outcome = .ok) :
    (w.clean.build cfg false ts).outcome = .ok := by
  have hl := build_ok_loaded hok
  obtain ⟨e, st, hb, _, _, _, hout⟩ := build_loaded w cfg always ts hl
  have he : e = none := by
    cases e with
    | none => rfl
    | some e => rw [hout] at hok; cases hok
  subst he
  have hlc : loadOK w.clean.S ts = true := hl
  obtain ⟨ec, stc, hbc, _, _, _, houtc⟩ := build_loaded w.clean cfg false ts hlc
  have hkc : KInv w.clean.cache := by intro d b hb'; simp [World.clean, AL.get] at hb'
  have hndc : NoDir w.clean.st0.out := by intro o s hg; simp [World.clean, World.st0, AL.get] at hg
  obtain ⟨stB', hB⟩ := Sim_targets (aA := always) hrf hpf hco wf w.saved _ ts w.st0 w.clean.st0 st hb rfl
    (VPre.init (reach_kinv hrf hpf hreach.reach)) (GPre.init (reachW_cinv hrf hpf hco hreach))
    (VPre.init hkc) (GPre.init (by simpa [World.clean] using CInv.empty w.tick)) hndc
  have hB' : buildNodes w.clean.S cfg false (fuelFor w.clean.S) ts w.clean.st0 = (none, stB') := hB
  rw [hbc] at hB'
  simp only [Prod.mk.injEq] at hB'
  rw [houtc, hB'.1]

/-- **Incremental = clean.**  In any reachable world, if a build (ordinary or AlwaysRebuild)
    succeeds, then a build of the same sources from an empty output directory succeeds too, and
    every output of every rule the build finished is on disk in both with the same canonical
    content (equal modulo the mtimes recorded for output-typed entries), size, mode and type. -/
theorem incremental_eq_clean {cfg : Cfg} (hrf : cfg.removeFirst = true) (hpf : cfg.putFirst = false)
    (hco : cfg.clearOuts = true) {w : World} (hreach : ReachW cfg w) {rank : Name → Nat} (wf : WF w.S rank)
    (always : Bool) (ts : List Name) (hok : (w.build cfg always ts).outcome = .ok) :
    (w.clean.build cfg false ts).outcome = .ok ∧
    ∀ r, w.S.findRule r.name = some r → r.name ∈ (w.build cfg always ts).visited → ∀ o ∈ outs r,
      ∃ f fc l lc, (w.build cfg always ts).world.out.get o = some f ∧
        (w.clean.build cfg false ts).world.out.get o = some fc ∧
        f.body = .entries l ∧ fc.body = .entries lc ∧ canon l = canon lc ∧
        f.stat.size = fc.stat.size ∧ f.stat.mode = fc.stat.mode ∧ f.stat.symlink = fc.stat.symlink :=
  have hclean := clean_succeeds_of_incremental hrf hpf hco hreach wf always ts hok
  ⟨hclean, incremental_eq_clean_partial hrf hpf hco hreach wf always ts hok hclean⟩

/-- **The failing outcome**: if the build from an empty output directory fails at some rule, the
    incremental build fails too (at some rule, not necessarily the same one: an obstructed output
    of an earlier rule fails first), and whatever rule it fails at has no cache entry afterwards. -/
theorem clean_fails_incremental_fails {cfg : Cfg} (hrf : cfg.removeFirst = true) (hpf : cfg.putFirst = false)
    (hco : cfg.clearOuts = true) {w : World} (hreach : ReachW cfg w) {rank : Name → Nat} (wf : WF w.S rank)
    (always : Bool) (ts : List Name) (e : Err) (hfail : (w.clean.build cfg false ts).outcome = .buildErr e) :
    ∃ e', (w.build cfg always ts).outcome = .buildErr e' ∧
      ∀ rn d, e' = .exec rn d → (w.build cfg always ts).world.cache.get d = none := by
  have hlc : loadOK w.clean.S ts = true := by
    apply Classical.byContradiction
    intro hl
    rw [(build_not_loaded w.clean cfg false ts hl).2.2] at hfail
    cases hfail
  have hl : loadOK w.S ts = true := hlc
  obtain ⟨e0, st, _, _, _, _, hout⟩ := build_loaded w cfg always ts hl
  cases e0 with
  | none =>
    have hok : (w.build cfg always ts).outcome = .ok := hout
    have := clean_succeeds_of_incremental hrf hpf hco hreach wf always ts hok
    rw [this] at hfail
    cases hfail
  | some e' =>
    refine ⟨e', hout, ?_⟩
    intro rn d he
    subst he
    exact failed_never_cached w cfg hrf hpf always ts rn d hout

/-- non-vacuity: chmod a source, rebuild: the outputs equal those of the clean build (same canonical
    text), and the cache holds entries that are unchanged on disk -/
def exAfter : World :=
  ((exOk.build Cfg.good false ["r/all"]).world.apply Cfg.good (.srcSet "r/x.txt" ⟨1, 5, 384, ""⟩))

example : (exAfter.build Cfg.good false ["r/all"]).outcome = .ok ∧
    (exAfter.clean.build Cfg.good false ["r/all"]).outcome = .ok ∧
    (exAfter.build Cfg.good false ["r/all"]).log = ["r/a", "r/b", "r/all"] := by decide

example : ((exAfter.build Cfg.good false ["r/all"]).world.out.get "r/b.fileset").map
      (fun f => match f.body with | .entries l => canon l | _ => []) =
    ((exAfter.clean.build Cfg.good false ["r/all"]).world.out.get "r/b.fileset").map
      (fun f => match f.body with | .entries l => canon l | _ => []) := by decide

example : (exAfter.build Cfg.good false ["r/all"]).world.cache.length = 6 := by decide

/-- non-vacuity of the failing outcome (a failing middle rule): `m/mid` includes a bundle, which is
    not a file set, so its execution fails — in the clean build and in the incremental one; the
    rule below it is built and cached, the failed rule is not, the rule above it is never reached -/
def exMid : World :=
  { World.empty with S := ⟨[("m/a.txt", ⟨1, 5, 420, ""⟩)],
      [⟨"m/low", .fileSet, ["m/a.txt"], [], [], [], [], false⟩,
       ⟨"m/bun", .bundle, [], [], [], [], ["m/low"], false⟩,
       ⟨"m/mid", .fileSet, [], [], [], ["m/low", "m/bun"], [], false⟩,
       ⟨"m/top", .fileSet, ["m/mid.fileset"], [], [], [], [], false⟩]⟩ }

example : (match (exMid.clean.build Cfg.good false ["m/top"]).outcome with
    | .buildErr (.exec "m/mid" _) => true | _ => false) = true := by decide
example : (match (exMid.build Cfg.good false ["m/top"]).outcome with
    | .buildErr (.exec "m/mid" _) => true | _ => false) = true ∧
    (exMid.build Cfg.good false ["m/top"]).log = ["m/low", "m/bun", "m/mid"] ∧
    (exMid.build Cfg.good false ["m/top"]).world.cache.length = 2 := by decide
/-- after healing the rule the next build executes it (it was never cached) and the rule above it -/
example : (((exMid.build Cfg.good false ["m/top"]).world.apply Cfg.good (.setRules
      [⟨"m/low", .fileSet, ["m/a.txt"], [], [], [], [], false⟩,
       ⟨"m/bun", .bundle, [], [], [], [], ["m/low"], false⟩,
       ⟨"m/mid", .fileSet, [], [], [], ["m/low"], [], false⟩,
       ⟨"m/top", .fileSet, ["m/mid.fileset"], [], [], [], [], false⟩])).build Cfg.good false ["m/top"]).log =
    ["m/mid", "m/top"] := by decide

/-- records older than the expiry (`Op.cacheExpire`; `null_build_executes_nothing` speaks about every
    reachable world, aged ones included): everything is executed once, then nothing -/
example : (((exOk.build Cfg.good false ["r/all"]).world.apply Cfg.good .cacheExpire).build Cfg.good false ["r/all"]).log =
    ["r/a", "r/b", "r/all"] := by decide
example : ((((exOk.build Cfg.good false ["r/all"]).world.apply Cfg.good .cacheExpire).build Cfg.good false
    ["r/all"]).world.build Cfg.good false ["r/all"]).log = [] := by decide
/-- a dangling symlink on an output path is detected and replaced by the regular output -/
example : (((exOk.build Cfg.good false ["r/all"]).world.apply Cfg.good (.outLink "r/a.fileset" "nowhere")).build
    Cfg.good false ["r/all"]).log = ["r/a"] := by decide

/-! ## the theorems apply to the tree as it is now

`genCfg` is read from the AST of `buildNode` on every run (order of `remove` / `build` / `put`,
removal of stale outputs); the hypotheses of the theorems are discharged for it by `decide`. -/

theorem cache_inv_current_tree {w : World} (hreach : ReachW genCfg w) {d : Dg} {b : Built}
    (hb : w.cache.get d = some b) (hd : d ≠ .always) (hs : sameBuilt w.out b = true) :
    ∀ rec ∈ b, ∃ f, w.out.get rec.name = some f ∧ GoodFile f d :=
  cache_inv (by decide) (by decide) (by decide) hreach hb hd hs

theorem failed_never_cached_current_tree (w : World) (always : Bool) (ts : List Name) (rn : Name) (d : Dg)
    (h : (w.build genCfg always ts).outcome = .buildErr (.exec rn d)) :
    (w.build genCfg always ts).world.cache.get d = none :=
  failed_never_cached w genCfg (by decide) (by decide) always ts rn d h

theorem incremental_eq_clean_current_tree {w : World} (hreach : ReachW genCfg w) {rank : Name → Nat}
    (wf : WF w.S rank) (always : Bool) (ts : List Name) (hok : (w.build genCfg always ts).outcome = .ok) :
    (w.clean.build genCfg false ts).outcome = .ok :=
  (incremental_eq_clean (by decide) (by decide) (by decide) hreach wf always ts hok).1

end PubModel.C10
