/-
C10 — basic lemmas: association lists, frame properties of `execRule`,
error propagation through `buildNode` (`failed_never_cached`).
-/
import PubModel.C10.Model

namespace PubModel.C10

namespace AL
variable {α β : Type} [DecidableEq α]

@[simp] theorem get_nil (k : α) : get ([] : AL α β) k = none := rfl

theorem get_cons (a : α) (b : β) (t : AL α β) (k : α) :
    get ((a, b) :: t) k = if a = k then some b else get t k := rfl

theorem del_cons (a : α) (b : β) (t : AL α β) (k : α) :
    del ((a, b) :: t) k = if a = k then del t k else (a, b) :: del t k := by
  by_cases h : a = k <;> simp [del, h]

theorem get_del_same (l : AL α β) (k : α) : get (del l k) k = none := by
  induction l with
  | nil => rfl
  | cons p t ih =>
    obtain ⟨a, b⟩ := p
    by_cases h : a = k <;> simp [del_cons, get_cons, h, ih]

theorem get_del_ne (l : AL α β) {k k' : α} (h : k' ≠ k) : get (del l k) k' = get l k' := by
  induction l with
  | nil => rfl
  | cons p t ih =>
    obtain ⟨a, b⟩ := p
    by_cases ha : a = k
    · subst ha
      have hne : ¬ a = k' := fun e => h e.symm
      simp [del_cons, get_cons, hne, ih]
    · by_cases hk : a = k'
      · subst hk; simp [del_cons, get_cons, ha]
      · simp [del_cons, get_cons, ha, hk, ih]

theorem get_put_same (l : AL α β) (k : α) (v : β) : get (put l k v) k = some v := by
  simp [put, get_cons]

theorem get_put_ne (l : AL α β) {k k' : α} (v : β) (h : k' ≠ k) : get (put l k v) k' = get l k' := by
  have hne : ¬ k = k' := fun e => h e.symm
  simp [put, get_cons, hne, get_del_ne l h]

end AL

/-! ### frame properties of executing a rule -/

theorem execRule_cache (S : Static) (cfg : Cfg) (r : Rule) (st : BState) :
    (execRule S cfg r st).2.cache = st.cache := by
  unfold execRule
  split
  · rfl
  · dsimp only
    split
    · split <;> (split <;> rfl)
    · split <;> rfl

theorem execRule_log (S : Static) (cfg : Cfg) (r : Rule) (st : BState) :
    (execRule S cfg r st).2.log = st.log := by
  unfold execRule
  split
  · rfl
  · dsimp only
    split
    · split <;> (split <;> rfl)
    · split <;> rfl

theorem execRule_memo (S : Static) (cfg : Cfg) (r : Rule) (st : BState) :
    (execRule S cfg r st).2.memo = st.memo := by
  unfold execRule
  split
  · rfl
  · dsimp only
    split
    · split <;> (split <;> rfl)
    · split <;> rfl

/-! ### a failed execution leaves no cache entry for its digest -/

/-- if the result is the failure of rule `rn` with action digest `d`, the cache has no entry for `d` -/
def ErrClean (p : Res × BState) : Prop :=
  ∀ rn d st', p = (.err (.exec rn d), st') → st'.cache.get d = none

theorem finishRule_good (S : Static) (cfg : Cfg) (hr : cfg.removeFirst = true) (hp : cfg.putFirst = false)
    (always : Bool) (r : Rule) (dg : Dg) (st : BState) :
    finishRule S cfg always r dg st =
      if cacheHit st dg && !always then (.ok dg, st.memoize r.name dg)
      else runRule S cfg r dg { st with cache := st.cache.del dg, log := st.log ++ [r.name] } := by
  simp [finishRule, hr, hp]

theorem runRule_errClean (S : Static) (cfg : Cfg) (r : Rule) (dg : Dg) (st : BState)
    (h : st.cache.get dg = none) : ErrClean (runRule S cfg r dg st) := by
  intro rn d st' he
  have hc := execRule_cache S cfg r st
  unfold runRule at he
  cases hx : execRule S cfg r st with
  | mk ok st3 =>
    rw [hx] at he hc
    cases ok with
    | false =>
      simp only [Prod.mk.injEq, Res.err.injEq, Err.exec.injEq] at he
      obtain ⟨⟨_, rfl⟩, rfl⟩ := he
      simp only at hc
      rw [hc, h]
    | true =>
      simp only at he hc
      cases hb : newBuilt st3.out (outs r) with
      | none =>
        rw [hb] at he
        simp only [Prod.mk.injEq, Res.err.injEq, Err.exec.injEq] at he
        obtain ⟨⟨_, rfl⟩, rfl⟩ := he
        rw [hc, h]
      | some b => rw [hb] at he; simp at he

theorem finishRule_errClean (S : Static) (cfg : Cfg) (hr : cfg.removeFirst = true) (hp : cfg.putFirst = false)
    (always : Bool) (r : Rule) (dg : Dg) (st : BState) :
    ErrClean (finishRule S cfg always r dg st) := by
  rw [finishRule_good S cfg hr hp]
  split
  · intro rn d st' he; simp at he
  · exact runRule_errClean S cfg r dg _ (AL.get_del_same _ _)

theorem depsLoop_errClean (f : Name → BState → Res × BState) (hf : ∀ n st, ErrClean (f n st)) :
    ∀ (ns : List Name) (st : BState) (rn : Name) (d : Dg) (st' : BState),
      depsLoop f ns st = (.err (.exec rn d), st') → st'.cache.get d = none := by
  intro ns
  induction ns with
  | nil => intro st rn d st' h; simp [depsLoop] at h
  | cons n ns ih =>
    intro st rn d st' h
    unfold depsLoop at h
    cases hfn : f n st with
    | mk res st1 =>
      rw [hfn] at h
      cases res with
      | err e1 =>
        simp only [Prod.mk.injEq, DepRes.err.injEq] at h
        obtain ⟨rfl, rfl⟩ := h
        exact hf n st rn d _ hfn
      | ok d1 =>
        simp only at h
        cases hl : depsLoop f ns st1 with
        | mk res2 st2 =>
          rw [hl] at h
          cases res2 with
          | err e2 =>
            simp only [Prod.mk.injEq, DepRes.err.injEq] at h
            obtain ⟨rfl, rfl⟩ := h
            exact ih st1 rn d st2 hl
          | ok rest => simp at h

theorem buildNode_errClean (S : Static) (cfg : Cfg) (hr : cfg.removeFirst = true) (hp : cfg.putFirst = false)
    (always : Bool) : ∀ (fuel : Nat) (n : Name) (st : BState), ErrClean (buildNode S cfg always fuel n st) := by
  intro fuel
  induction fuel with
  | zero => intro n st rn d st' he; simp [buildNode] at he
  | succ fuel ih =>
    intro n st rn d st' he
    unfold buildNode at he
    split at he
    · simp at he
    · split at he
      · simp at he
      · simp at he
      · -- output node
        rename_i r hnode
        cases hb : buildNode S cfg always fuel r.name st with
        | mk res st1 =>
          rw [hb] at he
          cases res with
          | err e =>
            simp only [Prod.mk.injEq, Res.err.injEq] at he
            obtain ⟨rfl, rfl⟩ := he
            exact ih r.name st rn d _ hb
          | ok d1 => simp at he
      · -- rule node
        rename_i r hnode
        cases h1 : depsLoop (buildNode S cfg always fuel) (fileDeps S r) st with
        | mk res1 st1 =>
          rw [h1] at he
          cases res1 with
          | err e =>
            simp only [Prod.mk.injEq, Res.err.injEq] at he
            obtain ⟨rfl, rfl⟩ := he
            exact depsLoop_errClean _ ih _ _ _ _ _ h1
          | ok fd =>
            simp only at he
            cases h2 : depsLoop (buildNode S cfg always fuel) (incDeps r) st1 with
            | mk res2 st2 =>
              rw [h2] at he
              cases res2 with
              | err e =>
                simp only [Prod.mk.injEq, Res.err.injEq] at he
                obtain ⟨rfl, rfl⟩ := he
                exact depsLoop_errClean _ ih _ _ _ _ _ h2
              | ok idp => exact finishRule_errClean S cfg hr hp always r _ st2 rn d st' he

theorem buildNodes_errClean (S : Static) (cfg : Cfg) (hr : cfg.removeFirst = true) (hp : cfg.putFirst = false)
    (always : Bool) (fuel : Nat) : ∀ (ts : List Name) (st : BState) (rn : Name) (d : Dg) (st' : BState),
      buildNodes S cfg always fuel ts st = (some (.exec rn d), st') → st'.cache.get d = none := by
  intro ts
  induction ts with
  | nil => intro st rn d st' h; simp [buildNodes] at h
  | cons t ts ih =>
    intro st rn d st' h
    unfold buildNodes at h
    split at h
    · exact ih _ _ _ _ h
    · cases hb : buildNode S cfg always fuel t st with
      | mk res st1 =>
        rw [hb] at h
        cases res with
        | err e =>
          simp only [Prod.mk.injEq, Option.some.injEq] at h
          obtain ⟨rfl, rfl⟩ := h
          exact buildNode_errClean S cfg hr hp always fuel t st rn d _ hb
        | ok d1 => exact ih _ _ _ _ h

end PubModel.C10
