/-
C12 — Go `path.Match` / `filepath.Match` (identical for the `/` separator):
`*`, `?`, character classes with ranges and negation, `\` escapes, and the
exact places at which a malformed pattern is reported (`ErrBadPattern` is
only noticed in chunks that are actually scanned).  Literal transcription of
scanChunk / matchChunk / getEsc / Match of Go 1.23; ASCII (one byte = one
rune).  Library code: modelled, validated by the harness (`match` op lines).
-/
import PubModel.C12.Path

namespace PubModel.C12

inductive MatchRes where
  | yes | no | bad
  deriving DecidableEq, Repr

/-- scanChunk's scan loop: the chunk ends at the first `*` outside `[...]`;
    the byte after a `\` is skipped. -/
def scanAux (inrange skip : Bool) : Str → Str × Str
  | [] => ([], [])
  | c :: cs =>
    if skip then
      let r := scanAux inrange false cs
      (c :: r.1, r.2)
    else if c = '\\' then
      let r := scanAux inrange (!cs.isEmpty) cs
      (c :: r.1, r.2)
    else if c = '[' then
      let r := scanAux true false cs
      (c :: r.1, r.2)
    else if c = ']' then
      let r := scanAux false false cs
      (c :: r.1, r.2)
    else if c = '*' then
      if inrange then
        let r := scanAux inrange false cs
        (c :: r.1, r.2)
      else ([], c :: cs)
    else
      let r := scanAux inrange false cs
      (c :: r.1, r.2)

/-- `scanChunk`: (star, chunk, rest) -/
def scanChunk (pattern : Str) : Bool × Str × Str :=
  let p := pattern.dropWhile (fun c => c = '*')
  let star := pattern.head? = some '*'
  let r := scanAux false false p
  (star, r.1, r.2)

/-- `getEsc`: a class member, possibly escaped; `none` = ErrBadPattern.
    Returns the character and the remaining chunk (never empty on success). -/
def getEsc (chunk : Str) : Option (Char × Str) :=
  match chunk with
  | [] => none
  | c :: cs =>
    if c = '-' then none
    else if c = ']' then none
    else if c = '\\' then
      match cs with
      | [] => none
      | d :: ds => if ds = [] then none else some (d, ds)
    else if cs = [] then none else some (c, cs)

/-- the range loop of a character class; `r` is the rune under test (NUL
    once the match has failed), `nrange` counts the ranges seen so far.
    Result: (matched, remaining chunk) or `none` = ErrBadPattern. -/
def classLoop : Nat → Char → Bool → Nat → Str → Option (Bool × Str)
  | 0, _, _, _, _ => none
  | fuel + 1, r, m, nrange, chunk =>
    if chunk.head? = some ']' ∧ nrange > 0 then some (m, chunk.tail)
    else
      match getEsc chunk with
      | none => none
      | some (lo, c1) =>
        if c1.head? = some '-' then
          match getEsc c1.tail with
          | none => none
          | some (hi, c2) =>
            classLoop fuel r (m || (lo.toNat ≤ r.toNat && r.toNat ≤ hi.toNat)) (nrange + 1) c2
        else
          classLoop fuel r (m || (lo.toNat ≤ r.toNat && r.toNat ≤ lo.toNat)) (nrange + 1) c1

/-- `matchChunk`: after the match has failed the loop goes on checking that
    the chunk is well formed.  `none` = ErrBadPattern; `some none` = no
    match; `some (some rest)` = matched, `rest` of the name left. -/
def matchChunk : Nat → Bool → Str → Str → Option (Option Str)
  | 0, _, _, _ => none
  | fuel + 1, failed, chunk, s =>
    match chunk with
    | [] => if failed then some none else some (some s)
    | c :: cs =>
      let failed := failed || s.isEmpty
      if c = '[' then
        let r : Char := if failed then Char.ofNat 0 else s.headD (Char.ofNat 0)
        let s1 := if failed then s else s.tail
        let negated := cs.head? = some '^'
        let cs1 := if negated then cs.tail else cs
        match classLoop (cs1.length + 1) r false 0 cs1 with
        | none => none
        | some (m, rest) =>
          matchChunk fuel (failed || (m == negated)) rest s1
      else if c = '?' then
        let failed1 := failed || s.head? = some '/'
        let s1 := if failed then s else s.tail
        matchChunk fuel failed1 cs s1
      else if c = '\\' then
        match cs with
        | [] => none
        | d :: ds =>
          let failed1 := failed || s.head? ≠ some d
          let s1 := if failed then s else s.tail
          matchChunk fuel failed1 ds s1
      else
        let failed1 := failed || s.head? ≠ some c
        let s1 := if failed then s else s.tail
        matchChunk fuel failed1 cs s1

def mChunk (chunk s : Str) : Option (Option Str) := matchChunk (chunk.length + 1) false chunk s

/-- the star loop of `Match`: try the chunk after skipping `i+1` bytes of the
    name, never across a `/`.  `last` says that no pattern is left after
    this chunk (then the name must be exhausted).
    Result: `none` = bad pattern, `some none` = no position works,
    `some (some rest)` = matched. -/
def starLoop (chunk : Str) (last : Bool) : Str → Option (Option Str)
  | [] => some none
  | c :: cs =>
    if c = '/' then some none
    else
      match mChunk chunk cs with
      | none => none
      | some (some t) =>
        if last ∧ t ≠ [] then starLoop chunk last cs else some (some t)
      | some none => starLoop chunk last cs

/-- `path.Match` only: before answering "no match" the remainder of the
    pattern is checked for syntax errors -/
def restBad : Nat → Str → Bool
  | 0, _ => false
  | fuel + 1, pattern =>
    if pattern = [] then false
    else
      let sc := scanChunk pattern
      match mChunk sc.2.1 [] with
      | none => true
      | some _ => restBad fuel sc.2.2

def noMatch (strict : Bool) (rest : Str) : MatchRes :=
  if strict && restBad (rest.length + 1) rest then .bad else .no

/-- `Match`'s outer loop over the chunks of the pattern; `strict` = the
    remainder check of package `path` (absent in `path/filepath`) -/
def matchLoop (strict : Bool) : Nat → Str → Str → MatchRes
  | 0, _, _ => .bad
  | fuel + 1, pattern, name =>
    if pattern = [] then (if name = [] then .yes else .no)
    else
      let sc := scanChunk pattern
      let star := sc.1
      let chunk := sc.2.1
      let rest := sc.2.2
      if star ∧ chunk = [] then (if name.contains '/' then .no else .yes)
      else
        let viaStar : MatchRes :=
          if star then
            match starLoop chunk (rest = []) name with
            | none => .bad
            | some none => noMatch strict rest
            | some (some t') => matchLoop strict fuel rest t'
          else noMatch strict rest
        match mChunk chunk name with
        | some (some t) =>
          if t = [] ∨ rest ≠ [] then matchLoop strict fuel rest t else viaStar
        | none => .bad
        | some none => viaStar

/-- `path.Match(pattern, name)` -/
def pmatch (pattern name : Str) : MatchRes := matchLoop true (pattern.length + 1) pattern name

/-- `filepath.Match(pattern, name)` -/
def fmatch (pattern name : Str) : MatchRes := matchLoop false (pattern.length + 1) pattern name

/-- `hasMeta` of path/filepath (non-Windows) -/
def hasMeta (s : Str) : Bool := s.any (fun c => c = '*' || c = '?' || c = '[' || c = '\\')

end PubModel.C12
