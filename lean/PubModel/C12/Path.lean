/-
C12 — Go `path.Clean / Join / IsAbs` on `/`-separated strings, through a
segment-stack fold, and caco3's `makeRelPath`, `makePath`, `dirFilePath`
(`env.src`, `env.out`) on top of them.  Core Lean only.

Strings are `List Char`; the harness restricts itself to ASCII, where Go's
bytes, runes and Lean's `Char` coincide.

Go sources mirrored (hash-tracked): caco3/build_path.go (makeRelPath,
makePath), caco3/env.go (dirFilePath, env.src, env.out).  `path.Clean`,
`path.Join` are library code: modelled here, validated by the harness against
the real functions on every run (`clean`, `join` op lines).
-/
namespace PubModel.C12

abbrev Str := List Char
abbrev Seg := List Char

def slash : Str := ['/']
def dot : Seg := ['.']
def dotdot : Seg := ['.', '.']

/-- put `c` in front of the first segment -/
def consHead (c : Char) : List Seg → List Seg
  | [] => [[c]]
  | s :: ss => (c :: s) :: ss

/-- `strings.Split(s, "/")`: always at least one segment -/
def split : Str → List Seg
  | [] => [[]]
  | c :: cs => if c = '/' then [] :: split cs else consHead c (split cs)

/-- `strings.Join(ss, "/")` -/
def joinSegs : List Seg → Str
  | [] => []
  | [s] => s
  | s :: t => s ++ '/' :: joinSegs t

/-- `path.IsAbs` -/
def isAbs (s : Str) : Bool := s.head? = some '/'

/-- One path element of `path.Clean`'s loop.  `st` is the output written so
    far as a stack of segments, top first.  Rooted: `..` pops when there is
    something to pop.  Not rooted: `..` pops a proper segment and is kept
    otherwise (Go's `dotdot` mark is exactly "the top is a kept `..`"). -/
def step (rooted : Bool) (st : List Seg) (s : Seg) : List Seg :=
  if s = [] then st
  else if s = dot then st
  else if s = dotdot then
    if rooted then st.tail
    else match st with
      | [] => [dotdot]
      | top :: rest => if top = dotdot then dotdot :: st else rest
  else s :: st

/-- the segments `path.Clean` keeps, in order -/
def cleanSegs (rooted : Bool) (segs : List Seg) : List Seg :=
  (segs.foldl (step rooted) []).reverse

/-- `path.Clean` -/
def clean (s : Str) : Str :=
  if s = [] then dot
  else if isAbs s then '/' :: joinSegs (cleanSegs true (split s))
  else
    let r := cleanSegs false (split s)
    if r = [] then dot else joinSegs r

/-- `path.Join`: leading empty elements are skipped, the rest is joined with
    `/` and cleaned; all empty gives the empty string. -/
def join (elems : List Str) : Str :=
  let es := elems.dropWhile (fun e => e = [])
  if es = [] then [] else clean (joinSegs es)

/-- `strings.TrimPrefix(s, "/")` -/
def trimSlash (s : Str) : Str :=
  if s.head? = some '/' then s.tail else s

/-- caco3 `makeRelPath(p, f)` -/
def makeRelPath (p f : Str) : Str :=
  let f1 := clean (join [slash, f])
  trimSlash (join [slash, p, f1])

/-- caco3 `makePath(p, f)` -/
def makePath (p f : Str) : Str :=
  if isAbs f then trimSlash (clean f) else makeRelPath p f

/-- caco3 `dirFilePath(dir, ps...)`; `filepath.Join`/`FromSlash` are
    `path.Join`/identity on the platforms the builder runs on (`/` separator) -/
def dirFilePath (dir : Str) (ps : List Str) : Str :=
  if ps = [] then dir else join [dir, join ps]

/-- segments of a relative name; the empty name has none -/
def segsOf (x : Str) : List Seg := if x = [] then [] else split x

/-- a proper path segment: not empty, not `.`, not `..`, no `/` inside -/
def Plain (s : Seg) : Prop := s ≠ [] ∧ s ≠ dot ∧ s ≠ dotdot ∧ '/' ∉ s

instance (s : Seg) : Decidable (Plain s) := by unfold Plain; exact inferInstance

/-- a clean, slash separated, relative path without `.`/`..` segments
    (the empty string is the workspace root itself) -/
def PlainPath (x : Str) : Prop := ∀ s ∈ segsOf x, Plain s

instance (x : Str) : Decidable (PlainPath x) := by unfold PlainPath; exact inferInstance

end PubModel.C12
