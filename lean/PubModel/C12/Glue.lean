/-
C12 — glue between the regenerated facts (`Gen.Caco3Paths`, rewritten from
/repo's source on every run) and the model: the configuration of
`newFileSet` that corresponds to the code as it is.  Imported by the
obligations and by the driver.
-/
import PubModel.C12.Model
import PubModel.Gen.Caco3Paths

namespace PubModel.C12
open PubModel.Gen

/-- the model configuration read off the source -/
def genCfg : Cfg where
  exclNames := Caco3Paths.exclNames.map String.toList
  exclSuffixes := Caco3Paths.exclSuffixes.map String.toList
  skipDirs := Caco3Paths.skipDirs.map String.toList
  dirSlash := Caco3Paths.dirIgnoreShape = "prefix-slash-root"
  includeResolved := Caco3Paths.includeShape = "makePath"

end PubModel.C12
