/-
C12 — property theorems.  Statement file only; helper lemmas are in Lemmas*.lean.

Property: relative names resolve inside the declaring package directory and
absolute names inside the workspace, so a build never reads a source or
writes an output outside the workspace's source and output trees; resolved
names are clean slash-separated relative paths without `.` or `..` segments.
A file set lists exactly the files matched by its selection patterns or named
explicitly, minus those matched by an ignore pattern, and a directory ignore
pattern covers only the files beneath that directory.

Reading decisions (DESIGN.md 5c): the built-in exclusions of recursive selects
are part of what `**` means; ignore patterns apply to selected files
("Ignores a set of source input files after selection", rules.go), explicitly
named files are kept.
-/
import PubModel.C12.Lemmas2
import PubModel.C12.Obligations

namespace PubModel.C12

/-- **`makeRelPath` cannot leave the package.**  For a clean package path
    (segments `ps`) and *any* string `f`, the result is the package segments
    followed by proper segments only. -/
theorem makeRelPath_under_clean (ps : List Seg) (hp : ∀ s ∈ ps, Plain s) (f : Str) :
    let tail := cleanSegs true (split f)
    makeRelPath (joinSegs ps) f = joinSegs (ps ++ tail) ∧
    segsOf (makeRelPath (joinSegs ps) f) = ps ++ tail ∧
    ps <+: segsOf (makeRelPath (joinSegs ps) f) ∧
    (∀ s ∈ tail, Plain s) := by
  intro tail
  have ht : ∀ s ∈ tail, Plain s := cleanSegs_true_plain f
  have h1 : makeRelPath (joinSegs ps) f = joinSegs (ps ++ tail) := by
    rw [makeRelPath_eq, cleanSegs_split_joinSegs true ps hp]
  have h2 : segsOf (makeRelPath (joinSegs ps) f) = ps ++ tail := by
    rw [h1, segsOf_joinSegs _ (mem_append_plain hp ht)]
  exact ⟨h1, h2, by rw [h2]; exact List.prefix_append _ _, ht⟩

example : makeRelPath "p/q".toList "../../a/./b//".toList = "p/q/a/b".toList := by decide
example : makeRelPath "p".toList "/..".toList = "p".toList := by decide

/-- **Whatever the package path and the name, `makeRelPath` yields a clean relative path.** -/
theorem makeRelPath_plain (p f : Str) : PlainPath (makeRelPath p f) := by
  rw [makeRelPath_eq]
  exact plainPath_joinSegs _ (mem_append_plain (cleanSegs_true_plain p) (cleanSegs_true_plain f))

/-- **`makePath` stays in the workspace root**: no empty, `.` or `..` segment
    in the result, for every package path and every name, relative or absolute. -/
theorem makePath_in_root (p f : Str) : PlainPath (makePath p f) := by
  rw [makePath_eq]
  split
  · exact plainPath_joinSegs _ (cleanSegs_true_plain f)
  · exact makeRelPath_plain p f

example : makePath "p".toList "/../../x/../y".toList = "y".toList := by decide
example : makePath "p".toList "../../x".toList = "p/x".toList := by decide
example : ¬ PlainPath "../x".toList := by decide

/-- relative names stay inside the declaring package (clean package path) -/
theorem makePath_relative_in_package (ps : List Seg) (hp : ∀ s ∈ ps, Plain s) (f : Str)
    (hf : isAbs f = false) : ps <+: segsOf (makePath (joinSegs ps) f) := by
  rw [makePath_eq, hf]
  exact (makeRelPath_under_clean ps hp f).2.2.1

/-- **`env.src n` is under `srcDir` and `env.out n` under `outDir`** for every
    plain name `n` (`dirFilePath` with a clean absolute directory). -/
theorem src_out_contained (srcDir outDir ns : List Seg)
    (hs : ∀ s ∈ srcDir, Plain s) (ho : ∀ s ∈ outDir, Plain s) (hn : ∀ s ∈ ns, Plain s) :
    dirFilePath ('/' :: joinSegs srcDir) [joinSegs ns] = '/' :: joinSegs (srcDir ++ ns) ∧
    dirFilePath ('/' :: joinSegs outDir) [joinSegs ns] = '/' :: joinSegs (outDir ++ ns) :=
  ⟨dirFilePath_plain srcDir ns hs hn, dirFilePath_plain outDir ns ho hn⟩

example : dirFilePath "/r/src".toList ["p/a".toList] = "/r/src/p/a".toList := by decide
/-- the hypothesis is needed: a name that is not plain leaves the tree -/
example : dirFilePath "/r/src".toList ["../../etc/passwd".toList] = "/etc/passwd".toList := by decide

/-- every resolved name is placed inside the source / output tree -/
theorem resolved_name_contained (srcDir : List Seg) (hs : ∀ s ∈ srcDir, Plain s) (p f : Str) :
    ∃ ns, (∀ s ∈ ns, Plain s) ∧
      dirFilePath ('/' :: joinSegs srcDir) [makePath p f] = '/' :: joinSegs (srcDir ++ ns) := by
  have h := makePath_in_root p f
  refine ⟨segsOf (makePath p f), h, ?_⟩
  have e : makePath p f = joinSegs (segsOf (makePath p f)) := by
    rw [makePath_eq]
    split
    · rw [segsOf_joinSegs _ (cleanSegs_true_plain f)]
    · rw [makeRelPath_eq, segsOf_joinSegs _
        (mem_append_plain (cleanSegs_true_plain p) (cleanSegs_true_plain f))]
  rw [e, segsOf_joinSegs _ h]
  exact dirFilePath_plain srcDir _ hs h

/-- **A directory ignore covers exactly the files beneath the directory**
    (the test the repaired code performs, `gen_dir_ignore_exact`): for a clean
    directory name `d` and a clean file name `f`,
    `ignoredByDir d f ↔ d.segs <+: f.segs ∧ d ≠ f`. -/
theorem dir_ignore_exact (cfg : Cfg) (hc : cfg.dirSlash = true) (ds fs : List Seg)
    (hd : ∀ s ∈ ds, Plain s) (hf : ∀ s ∈ fs, Plain s) (hfile : fs ≠ []) :
    ignoredByDir cfg (joinSegs ds) (joinSegs fs) = true ↔ ds <+: fs ∧ ds ≠ fs := by
  unfold ignoredByDir
  rw [if_pos hc]
  cases ds with
  | nil =>
    simp [joinSegs]
    exact fun e => hfile e
  | cons a as =>
    have hne := joinSegs_ne_nil (a :: as) (by simp) hd
    simp only [Bool.or_eq_true, decide_eq_true_eq, hne, false_or, isPrefixOfStr]
    rw [List.isPrefixOf_iff_prefix]
    exact slash_prefix_iff (a :: as) fs (by simp) hd hf

/-- the code as regenerated performs that test -/
theorem dir_ignore_exact_gen (ds fs : List Seg)
    (hd : ∀ s ∈ ds, Plain s) (hf : ∀ s ∈ fs, Plain s) (hfile : fs ≠ []) :
    ignoredByDir genCfg (joinSegs ds) (joinSegs fs) = true ↔ ds <+: fs ∧ ds ≠ fs :=
  dir_ignore_exact genCfg gen_dir_ignore_exact ds fs hd hf hfile

example : ignoredByDir genCfg "p/foo".toList "p/foo/b.txt".toList = true := by decide
example : ignoredByDir genCfg "p/foo".toList "p/foobar/x".toList = false := by decide
example : ignoredByDir genCfg "p/foo".toList "p/foo.txt".toList = false := by decide

/-- **The bare string-prefix test (the code before the repair) is not exact**:
    ignoring `foo/` also drops a sibling whose name merely starts with `foo`. -/
theorem dir_ignore_bare_prefix_overreaches :
    ∃ (cfg : Cfg) (ds fs : List Seg), cfg.dirSlash = false ∧ (∀ s ∈ ds, Plain s) ∧ (∀ s ∈ fs, Plain s) ∧
      ignoredByDir cfg (joinSegs ds) (joinSegs fs) = true ∧ ¬ ds <+: fs :=
  ⟨⟨[], [], [], false, false⟩, ["p".toList, "foo".toList], ["p".toList, "foobar".toList, "x".toList],
    rfl, by decide, by decide, by decide, by decide⟩

/-- **A file set lists exactly the named files and the selected, not ignored
    files**, sorted and without duplicates; its name and output are resolved
    inside the package. -/
theorem fileset_exact (cfg : Cfg) (t : Tree) (p : Str) (r : FsRule) (o : FsOut)
    (h : newFileSet cfg t p r = some o) :
    (∀ x, x ∈ o.files ↔
      (∃ f ∈ r.files, x = makePath p f) ∨
      (∃ sel ∈ r.select, ∃ ms, selectOne cfg t p sel = some ms ∧ x ∈ ms ∧
        ignored cfg p r.ignore x = false)) ∧
    StrictSorted o.files ∧
    o.name = makeRelPath p r.name ∧ o.out = makeRelPath p r.name ++ filesetSuffix := by
  unfold newFileSet at h
  split at h
  · simp at h
  · rename_i sel hsel
    simp at h
    subst h
    refine ⟨?_, sortDedup_sorted _, rfl, rfl⟩
    intro x
    simp only
    rw [mem_sortDedup, List.mem_append, mem_selectAll cfg t p r.ignore r.select sel hsel x]
    constructor
    · rintro (h | h)
      · left
        simp at h
        obtain ⟨f, hf, rfl⟩ := h
        exact ⟨f, hf, rfl⟩
      · right; exact h
    · rintro (⟨f, hf, rfl⟩ | h)
      · left; simp; exact ⟨f, hf, rfl⟩
      · right; exact h

/-- what "ignored" means: beneath an ignored directory or matched by an ignore pattern -/
theorem ignored_iff (cfg : Cfg) (p : Str) (ign : List Str) (name : Str) :
    ignored cfg p ign name = true ↔
      (∃ i ∈ ign, isSuffixOfStr slash i = true ∧ ignoredByDir cfg (makeRelPath p i) name = true) ∨
      (∃ i ∈ ign, isSuffixOfStr slash i = false ∧ pmatch (makeRelPath p i) name = .yes) := by
  unfold ignored ignoreDirs ignorePats
  simp only [Bool.or_eq_true, List.any_eq_true, List.mem_map, List.mem_filter, decide_eq_true_eq]
  constructor
  · rintro (⟨d, ⟨i, ⟨hi, hs⟩, rfl⟩, h⟩ | ⟨d, ⟨i, ⟨hi, hs⟩, rfl⟩, h⟩)
    · left; exact ⟨i, hi, hs, h⟩
    · right; exact ⟨i, hi, by simpa using hs, h⟩
  · rintro (⟨i, hi, hs, h⟩ | ⟨i, hi, hs, h⟩)
    · left; exact ⟨_, ⟨i, ⟨hi, hs⟩, rfl⟩, h⟩
    · right; exact ⟨_, ⟨i, ⟨hi, by simpa using hs⟩, rfl⟩, h⟩

/-- non-vacuity: a tree in which one name is a prefix of its siblings' names -/
def exTree : Tree := ["p/foo/b.txt", "p/foo.txt", "p/foobar/x", "p/BUILD.caco3"].map (fun s => segsOf s.toList)
def exRule : FsRule := ⟨"s".toList, ["../x".toList], ["**".toList], ["foo/".toList], []⟩

example : (newFileSet genCfg exTree "p".toList exRule).map (·.files) =
    some ["p/foo.txt".toList, "p/foobar/x".toList, "p/x".toList] := by decide

/-- explicitly named files resolve to clean names inside the workspace -/
theorem fileset_explicit_plain (cfg : Cfg) (t : Tree) (p : Str) (r : FsRule) (o : FsOut)
    (h : newFileSet cfg t p r = some o) : ∀ f ∈ r.files, makePath p f ∈ o.files ∧ PlainPath (makePath p f) := by
  intro f hf
  exact ⟨((fileset_exact cfg t p r o h).1 _).mpr (Or.inl ⟨f, hf, rfl⟩), makePath_in_root p f⟩

/-- **`Include` names that are resolved with `makePath` are clean names** … -/
theorem include_resolved_plain (cfg : Cfg) (hc : cfg.includeResolved = true) (t : Tree) (p : Str)
    (r : FsRule) (o : FsOut) (h : newFileSet cfg t p r = some o) : ∀ i ∈ o.includes, PlainPath i := by
  unfold newFileSet at h
  split at h
  · simp at h
  · simp at h
    subst h
    simp only [hc, if_true]
    intro i hi
    simp at hi
    obtain ⟨f, _, rfl⟩ := hi
    exact makePath_in_root p f

/-- … **but the current code uses them as written** (known finding
    `include-name-unresolved`): an `Include` string becomes a dependency and
    reaches `env.src` unresolved, outside the source tree. -/
theorem include_unresolved_current :
    ∃ (cfg : Cfg) (r : FsRule) (o : FsOut) (i : Str), cfg.includeResolved = false ∧
      newFileSet cfg [] "p".toList r = some o ∧ i ∈ o.deps ∧ ¬ PlainPath i ∧
      dirFilePath "/r/src".toList [i] = "/outside.txt".toList :=
  ⟨⟨[], [], [], true, false⟩, ⟨"s".toList, [], [], [], ["../../outside.txt".toList]⟩,
    ⟨"p/s".toList, [], ["../../outside.txt".toList], "p/s.fileset".toList⟩, "../../outside.txt".toList,
    rfl, by decide, by decide, by decide, by decide⟩

end PubModel.C12
