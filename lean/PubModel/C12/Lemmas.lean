/-
C12 — helper lemmas about `split`, `joinSegs`, the `path.Clean` fold, and the
closed forms of `path.Join`, `makeRelPath`, `makePath`, `dirFilePath`.
-/
import PubModel.C12.Model

namespace PubModel.C12

/-! ### split / joinSegs -/

theorem split_nil : split [] = [[]] := rfl
theorem split_cons (c : Char) (cs : Str) :
    split (c :: cs) = if c = '/' then [] :: split cs else consHead c (split cs) := rfl

theorem split_ne_nil (s : Str) : split s ≠ [] := by
  induction s with
  | nil => simp [split]
  | cons c cs ih =>
    rw [split_cons]
    split
    · simp
    · cases h : split cs with
      | nil => exact absurd h ih
      | cons a as => simp [consHead]

theorem consHead_append (c : Char) (l r : List Seg) (h : l ≠ []) :
    consHead c (l ++ r) = consHead c l ++ r := by
  cases l with
  | nil => exact absurd rfl h
  | cons a as => simp [consHead]

theorem split_append_slash (a b : Str) : split (a ++ '/' :: b) = split a ++ split b := by
  induction a with
  | nil => simp [split]
  | cons c cs ih =>
    simp only [List.cons_append]
    rw [split_cons, split_cons]
    split
    · simp [ih]
    · rw [ih, consHead_append _ _ _ (split_ne_nil cs)]

theorem mem_consHead {c : Char} {l : List Seg} {s : Seg} (h : s ∈ consHead c l) :
    (∃ t, s = c :: t ∧ (t ∈ l ∨ (l = [] ∧ t = []))) ∨ s ∈ l := by
  cases l with
  | nil => simp [consHead] at h; left; exact ⟨[], by simp [h]⟩
  | cons a as =>
    simp [consHead] at h
    rcases h with h | h
    · left; exact ⟨a, by simp [h]⟩
    · right; simp [h]

theorem split_noSlash (s : Str) : ∀ seg ∈ split s, '/' ∉ seg := by
  induction s with
  | nil => simp [split]
  | cons c cs ih =>
    intro seg hseg
    rw [split_cons] at hseg
    split at hseg
    · simp at hseg
      rcases hseg with h | h
      · simp [h]
      · exact ih seg h
    · rename_i hc
      rcases mem_consHead hseg with ⟨t, rfl, ht⟩ | h
      · rcases ht with ht | ⟨_, rfl⟩
        · have := ih t ht
          simp [this]; exact fun h => hc h.symm
        · simp; exact fun h => hc h.symm
      · exact ih seg h

theorem split_of_noSlash (s : Str) (h : '/' ∉ s) : split s = [s] := by
  induction s with
  | nil => simp [split]
  | cons c cs ih =>
    simp at h
    rw [split_cons]
    have hc : c ≠ '/' := fun e => h.1 e.symm
    simp [hc, ih h.2, consHead]

theorem joinSegs_cons (s : Seg) (t : List Seg) (h : t ≠ []) :
    joinSegs (s :: t) = s ++ '/' :: joinSegs t := by
  cases t with
  | nil => exact absurd rfl h
  | cons a as => simp [joinSegs]

theorem split_joinSegs (ss : List Seg) (hne : ss ≠ []) (h : ∀ s ∈ ss, '/' ∉ s) :
    split (joinSegs ss) = ss := by
  induction ss with
  | nil => exact absurd rfl hne
  | cons s t ih =>
    cases t with
    | nil => simp [joinSegs]; exact split_of_noSlash s (h s (by simp))
    | cons a as =>
      rw [joinSegs_cons _ _ (by simp), split_append_slash,
        split_of_noSlash s (h s (by simp)), ih (by simp) (fun x hx => h x (by simp [hx]))]
      simp

/-- `strings.Join` then `strings.Split` of arbitrary strings: the segments of all of them -/
theorem split_joinSegs_flat (es : List Str) (hne : es ≠ []) :
    split (joinSegs es) = es.flatMap split := by
  induction es with
  | nil => exact absurd rfl hne
  | cons s t ih =>
    cases t with
    | nil => simp [joinSegs]
    | cons a as =>
      rw [joinSegs_cons _ _ (by simp), split_append_slash, ih (by simp)]
      simp


/-! ### the `path.Clean` fold -/

theorem step_plain (rooted : Bool) (st : List Seg) (s : Seg) (h : Plain s) :
    step rooted st s = s :: st := by
  obtain ⟨h1, h2, h3, _⟩ := h
  simp [step, h1, h2, h3]

theorem step_nil (rooted : Bool) (st : List Seg) : step rooted st [] = st := by
  simp [step]

theorem foldl_step_plain (rooted : Bool) (segs : List Seg) :
    ∀ st, (∀ s ∈ segs, Plain s) → segs.foldl (step rooted) st = segs.reverse ++ st := by
  induction segs with
  | nil => simp
  | cons a as ih =>
    intro st h
    simp only [List.foldl_cons]
    rw [step_plain _ _ _ (h a (by simp)), ih _ (fun s hs => h s (by simp [hs]))]
    simp

theorem step_true_keeps_plain (st : List Seg) (seg : Seg) (hs : '/' ∉ seg)
    (h : ∀ s ∈ st, Plain s) : ∀ s ∈ step true st seg, Plain s := by
  unfold step
  split
  · exact h
  · split
    · exact h
    · split
      · intro s hs'
        exact h s (List.mem_of_mem_tail hs')
      · rename_i h1 h2 h3
        intro s hs'
        simp at hs'
        rcases hs' with rfl | hs'
        · exact ⟨h1, h2, h3, hs⟩
        · exact h s hs'

theorem foldl_step_true_plain (segs : List Seg) :
    ∀ st, (∀ s ∈ segs, '/' ∉ s) → (∀ s ∈ st, Plain s) →
      ∀ s ∈ segs.foldl (step true) st, Plain s := by
  induction segs with
  | nil => intro st _ h; simpa using h
  | cons a as ih =>
    intro st hs h
    simp only [List.foldl_cons]
    exact ih _ (fun s hs' => hs s (by simp [hs']))
      (step_true_keeps_plain st a (hs a (by simp)) h)

/-- whatever the string, the rooted clean keeps only proper segments -/
theorem cleanSegs_true_plain (x : Str) : ∀ s ∈ cleanSegs true (split x), Plain s := by
  intro s hs
  unfold cleanSegs at hs
  rw [List.mem_reverse] at hs
  exact foldl_step_true_plain _ [] (split_noSlash x) (by simp) s hs

theorem plain_noSlash {s : Seg} (h : Plain s) : '/' ∉ s := h.2.2.2

/-- folding over the segments of a joined list of proper segments pushes exactly them -/
theorem foldl_split_joinSegs (rooted : Bool) (ss : List Seg) (h : ∀ s ∈ ss, Plain s) (st : List Seg) :
    (split (joinSegs ss)).foldl (step rooted) st = ss.reverse ++ st := by
  cases ss with
  | nil => simp [joinSegs, split, step_nil]
  | cons a as =>
    rw [split_joinSegs _ (by simp) (fun s hs => plain_noSlash (h s hs))]
    exact foldl_step_plain rooted _ st h

theorem cleanSegs_split_joinSegs (rooted : Bool) (ss : List Seg) (h : ∀ s ∈ ss, Plain s) :
    cleanSegs rooted (split (joinSegs ss)) = ss := by
  unfold cleanSegs
  rw [foldl_split_joinSegs rooted ss h]
  simp

theorem joinSegs_ne_nil (ss : List Seg) (hne : ss ≠ []) (h : ∀ s ∈ ss, Plain s) : joinSegs ss ≠ [] := by
  cases ss with
  | nil => exact absurd rfl hne
  | cons a as =>
    have ha := (h a (by simp)).1
    cases as with
    | nil => simpa [joinSegs] using ha
    | cons b bs => rw [joinSegs_cons _ _ (by simp)]; simp [ha]

theorem joinSegs_head (ss : List Seg) (h : ∀ s ∈ ss, Plain s) : (joinSegs ss).head? ≠ some '/' := by
  cases ss with
  | nil => simp [joinSegs]
  | cons a as =>
    have ha := h a (by simp)
    have hne := ha.1
    have hs := plain_noSlash ha
    cases a with
    | nil => exact absurd rfl hne
    | cons c cs =>
      have hc : c ≠ '/' := by
        intro e; apply hs; simp [e]
      cases as with
      | nil => simp [joinSegs, hc]
      | cons b bs => rw [joinSegs_cons _ _ (by simp)]; simp [hc]

theorem segsOf_joinSegs (ss : List Seg) (h : ∀ s ∈ ss, Plain s) : segsOf (joinSegs ss) = ss := by
  unfold segsOf
  cases ss with
  | nil => simp [joinSegs]
  | cons a as =>
    rw [if_neg (joinSegs_ne_nil _ (by simp) h)]
    exact split_joinSegs _ (by simp) (fun s hs => plain_noSlash (h s hs))

theorem plainPath_joinSegs (ss : List Seg) (h : ∀ s ∈ ss, Plain s) : PlainPath (joinSegs ss) := by
  unfold PlainPath
  rw [segsOf_joinSegs ss h]
  exact h

/-! ### closed forms -/

/-- `path.Clean` of a rooted string -/
theorem clean_rooted (x : Str) : clean ('/' :: x) = '/' :: joinSegs (cleanSegs true (split x)) := by
  unfold clean
  simp [isAbs, split_cons, cleanSegs, step_nil]

/-- `path.Join("/", e1, e2, ...)` -/
theorem join_slash (es : List Str) :
    join (slash :: es) = '/' :: joinSegs (cleanSegs true (es.flatMap split)) := by
  have hd : (slash :: es).dropWhile (fun e => decide (e = [])) = slash :: es := by
    simp [List.dropWhile, slash]
  unfold join
  simp only [hd]
  rw [if_neg (by simp)]
  cases es with
  | nil =>
    simp only [joinSegs, slash]
    rw [clean_rooted]
    simp [split, cleanSegs, step_nil]
  | cons a as =>
    rw [joinSegs_cons _ _ (by simp)]
    simp only [slash, List.cons_append, List.nil_append]
    rw [clean_rooted, split_cons, if_pos rfl, split_joinSegs_flat _ (by simp)]
    simp [cleanSegs, step_nil]

theorem trimSlash_cons (x : Str) : trimSlash ('/' :: x) = x := by
  simp [trimSlash]

/-- `makeRelPath(p, f)`: the rooted clean of `p`, then the rooted clean of `f` -/
theorem makeRelPath_eq (p f : Str) :
    makeRelPath p f = joinSegs (cleanSegs true (split p) ++ cleanSegs true (split f)) := by
  have hcf := cleanSegs_true_plain f
  unfold makeRelPath
  simp only [join_slash, List.flatMap_cons, List.flatMap_nil, List.append_nil]
  rw [clean_rooted, cleanSegs_split_joinSegs true _ hcf]
  rw [trimSlash_cons]
  congr 1
  rw [split_cons, if_pos rfl]
  generalize cleanSegs true (split f) = cf at hcf ⊢
  unfold cleanSegs
  rw [List.foldl_append, List.foldl_cons, step_nil, foldl_split_joinSegs true _ hcf]
  simp

/-- `makePath(p, f)` -/
theorem makePath_eq (p f : Str) :
    makePath p f =
      if isAbs f then joinSegs (cleanSegs true (split f)) else makeRelPath p f := by
  unfold makePath
  split
  · rename_i h
    cases f with
    | nil => simp [isAbs] at h
    | cons c cs =>
      have hc : c = '/' := by simpa [isAbs] using h
      subst hc
      rw [clean_rooted, trimSlash_cons, split_cons, if_pos rfl]
      simp [cleanSegs, step_nil]
  · rfl

theorem mem_append_plain {a b : List Seg} (ha : ∀ s ∈ a, Plain s) (hb : ∀ s ∈ b, Plain s) :
    ∀ s ∈ a ++ b, Plain s := by
  intro s hs
  rcases List.mem_append.mp hs with h | h
  · exact ha s h
  · exact hb s h

/-- `path.Join(n)` of a plain relative name is the name -/
theorem join_single_plain (ns : List Seg) (h : ∀ s ∈ ns, Plain s) : join [joinSegs ns] = joinSegs ns := by
  unfold join
  cases ns with
  | nil => simp [joinSegs]
  | cons a as =>
    have hne := joinSegs_ne_nil (a :: as) (by simp) h
    have hd : [joinSegs (a :: as)].dropWhile (fun e => decide (e = [])) = [joinSegs (a :: as)] := by
      simp [List.dropWhile, hne]
    simp only [hd]
    rw [if_neg (by simp)]
    simp only [joinSegs]
    unfold clean
    rw [if_neg hne]
    have hab : isAbs (joinSegs (a :: as)) = false := by
      have := joinSegs_head (a :: as) h
      simpa [isAbs] using this
    rw [hab]
    simp only [Bool.false_eq_true, if_false]
    rw [cleanSegs_split_joinSegs false _ h]
    simp

/-- `dirFilePath(dir, n)` for a clean absolute directory and a plain name -/
theorem dirFilePath_plain (ds ns : List Seg) (hd : ∀ s ∈ ds, Plain s) (hn : ∀ s ∈ ns, Plain s) :
    dirFilePath ('/' :: joinSegs ds) [joinSegs ns] = '/' :: joinSegs (ds ++ ns) := by
  unfold dirFilePath
  rw [if_neg (by simp), join_single_plain ns hn]
  unfold join
  have hd' : ['/' :: joinSegs ds, joinSegs ns].dropWhile (fun e => decide (e = [])) =
      ['/' :: joinSegs ds, joinSegs ns] := by simp [List.dropWhile]
  simp only [hd']
  rw [if_neg (by simp), joinSegs_cons _ _ (by simp)]
  simp only [joinSegs, List.cons_append]
  rw [clean_rooted, split_append_slash]
  congr 2
  unfold cleanSegs
  rw [List.foldl_append, foldl_split_joinSegs true ds hd, foldl_split_joinSegs true ns hn]
  simp

end PubModel.C12
