/-
C12 — obligations that connect the regenerated facts (`Gen.Caco3Paths`,
rewritten from /repo's source on every run) to the hypotheses of the
theorems.  All closed by `decide`.
-/
import PubModel.C12.Golden
import PubModel.C12.Glue

namespace PubModel.C12
open PubModel.Gen

def okClass (c : String) : Bool := c = "lit" || c = "resolved" || c = "forward"

/-- every argument that reaches `env.src` / `env.out` / `env.prepareOut` is a literal, flows from
    `makePath` / `makeRelPath`, or is a reviewed site (package path, node name, workspace key);
    the `Include` site is the known finding -/
theorem gen_call_sites_reviewed : ∀ s ∈ Caco3Paths.callSites,
    okClass s.2.2.2.2 = true ∨ s ∈ Golden.reviewedSites ∨ s ∈ Golden.knownRawSites := by decide

/-- name, dependencies and outputs of every rule (the node names) flow from
    `makePath` / `makeRelPath`; the file set's `Include` list is the known finding -/
theorem gen_rule_meta_resolved : ∀ m ∈ Caco3Paths.ruleMeta,
    m.2.2 = "resolved" ∨ m ∈ Golden.knownRawMeta ∨ m ∈ Golden.resolvedMeta := by decide

/-- the directory-ignore test compares with `dir + "/"` (hypothesis of `dir_ignore_exact`) -/
theorem gen_dir_ignore_exact : genCfg.dirSlash = true := by decide

/-- the built-in exclusions of `**` are the ones the property was read with -/
theorem gen_exclusions_as_read :
    Caco3Paths.exclNames = Golden.exclNames ∧ Caco3Paths.exclSuffixes = Golden.exclSuffixes ∧
    Caco3Paths.skipDirs = Golden.skipDirs := by decide

/-- a select is recursive exactly when it is `**` or ends in `/**` (what `selectOne` models);
    `x**`, `**x`, `a/**/b` are ordinary globs -/
theorem gen_recursive_select_test :
    Caco3Paths.recursiveSelectTest = "strings.HasSuffix(sel, \"/**\") || sel == \"**\"" := by decide

/-- `Builder.Build` resolves the requested targets with `makePath` (absolute targets from the
    workspace root, relative ones from the work dir), not with `makeRelPath` -/
theorem gen_targets_resolved_with_makePath : Caco3Paths.targetResolver = "makePath" := by decide

end PubModel.C12
