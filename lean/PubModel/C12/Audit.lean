import PubModel.C12.Theorems
open PubModel.C12
#print axioms makeRelPath_under_clean
#print axioms makeRelPath_plain
#print axioms makePath_in_root
#print axioms makePath_relative_in_package
#print axioms src_out_contained
#print axioms resolved_name_contained
#print axioms dir_ignore_exact
#print axioms dir_ignore_exact_gen
#print axioms dir_ignore_bare_prefix_overreaches
#print axioms fileset_exact
#print axioms ignored_iff
#print axioms fileset_explicit_plain
#print axioms include_resolved_plain
#print axioms include_unresolved_current
#print axioms gen_call_sites_reviewed
#print axioms gen_rule_meta_resolved
#print axioms gen_dir_ignore_exact
#print axioms gen_exclusions_as_read
#print axioms gen_recursive_select_test
#print axioms gen_targets_resolved_with_makePath
