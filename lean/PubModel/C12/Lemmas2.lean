/-
C12 — helper lemmas for the file-set theorems: directory prefixes on strings
versus segments, the byte-wise order, sorted duplicate-free lists, membership
in the selection.
-/
import PubModel.C12.Lemmas

namespace PubModel.C12

/-! ### string prefix with a slash = proper segment prefix -/

theorem joinSegs_append (a b : List Seg) (ha : a ≠ []) (hb : b ≠ []) :
    joinSegs (a ++ b) = joinSegs a ++ '/' :: joinSegs b := by
  induction a with
  | nil => exact absurd rfl ha
  | cons x xs ih =>
    cases xs with
    | nil =>
      simp only [List.singleton_append]
      rw [joinSegs_cons _ _ hb]
      simp [joinSegs]
    | cons y ys =>
      have e1 : joinSegs (x :: (y :: ys ++ b)) = x ++ '/' :: joinSegs (y :: ys ++ b) :=
        joinSegs_cons _ _ (by simp)
      have e2 : joinSegs (x :: y :: ys) = x ++ '/' :: joinSegs (y :: ys) := joinSegs_cons _ _ (by simp)
      rw [List.cons_append, e1, ih (by simp), e2]
      simp

theorem slash_prefix_iff (ds fs : List Seg) (hds : ds ≠ []) (hd : ∀ s ∈ ds, Plain s)
    (hf : ∀ s ∈ fs, Plain s) :
    (joinSegs ds ++ slash) <+: joinSegs fs ↔ ds <+: fs ∧ ds ≠ fs := by
  constructor
  · rintro ⟨t, ht⟩
    have hfs : fs ≠ [] := by
      intro e
      subst e
      simp [joinSegs, slash] at ht
    have h1 : split (joinSegs fs) = fs :=
      split_joinSegs fs hfs (fun s hs => plain_noSlash (hf s hs))
    have h2 : split (joinSegs ds ++ slash ++ t) = ds ++ split t := by
      have : joinSegs ds ++ slash ++ t = joinSegs ds ++ '/' :: t := by simp [slash]
      rw [this, split_append_slash, split_joinSegs ds hds (fun s hs => plain_noSlash (hd s hs))]
    rw [ht, h1] at h2
    refine ⟨⟨split t, h2.symm⟩, ?_⟩
    intro e
    have : ds ++ split t = ds ++ [] := by rw [← h2, List.append_nil, e]
    exact split_ne_nil t (List.append_cancel_left this)
  · rintro ⟨⟨rest, hr⟩, hne⟩
    have hrest : rest ≠ [] := by
      intro e
      subst e
      simp at hr
      exact hne hr
    rw [← hr, joinSegs_append ds rest hds hrest]
    exact ⟨joinSegs rest, by simp [slash]⟩

/-! ### byte-wise order -/

theorem ltStr_trans : ∀ (a b c : Str), ltStr a b = true → ltStr b c = true → ltStr a c = true := by
  intro a
  induction a with
  | nil =>
    intro b c h1 h2
    cases b with
    | nil => simp [ltStr] at h1
    | cons y ys =>
      cases c with
      | nil => simp [ltStr] at h2
      | cons z zs => simp [ltStr]
  | cons x xs ih =>
    intro b c h1 h2
    cases b with
    | nil => simp [ltStr] at h1
    | cons y ys =>
      cases c with
      | nil => simp [ltStr] at h2
      | cons z zs =>
        simp only [ltStr] at h1 h2 ⊢
        by_cases hxy : x.toNat < y.toNat
        · by_cases hyz : y.toNat < z.toNat
          · have : x.toNat < z.toNat := by omega
            simp [this]
          · simp only [hyz, if_false] at h2
            by_cases hzy : z.toNat < y.toNat
            · simp [hzy] at h2
            · have : x.toNat < z.toNat := by omega
              simp [this]
        · simp only [hxy, if_false] at h1
          by_cases hyx : y.toNat < x.toNat
          · simp [hyx] at h1
          · simp only [hyx, if_false] at h1
            have hxe : x.toNat = y.toNat := by omega
            by_cases hyz : y.toNat < z.toNat
            · have : x.toNat < z.toNat := by omega
              simp [this]
            · simp only [hyz, if_false] at h2
              by_cases hzy : z.toNat < y.toNat
              · simp [hzy] at h2
              · simp only [hzy, if_false] at h2
                have h3 : ¬ x.toNat < z.toNat := by omega
                have h4 : ¬ z.toNat < x.toNat := by omega
                simp only [h3, h4, if_false]
                exact ih ys zs h1 h2

theorem ltStr_total : ∀ (a b : Str), ltStr a b = false → a ≠ b → ltStr b a = true := by
  intro a
  induction a with
  | nil =>
    intro b h hne
    cases b with
    | nil => exact absurd rfl hne
    | cons y ys => simp [ltStr] at h
  | cons x xs ih =>
    intro b h hne
    cases b with
    | nil => simp [ltStr]
    | cons y ys =>
      simp only [ltStr] at h ⊢
      by_cases hxy : x.toNat < y.toNat
      · simp [hxy] at h
      · simp only [hxy, if_false] at h
        by_cases hyx : y.toNat < x.toNat
        · simp [hyx]
        · simp only [hyx, if_false] at h ⊢
          have hxe : x = y := Char.toNat_inj.mp (by omega)
          subst hxe
          simp only [Nat.lt_irrefl, if_false]
          exact ih ys h (fun e => hne (by rw [e]))

/-! ### sorted duplicate-free lists -/

/-- strictly increasing in the byte-wise order (hence duplicate free) -/
def StrictSorted (l : List Str) : Prop := l.Pairwise (fun a b => ltStr a b = true)

theorem mem_insertUniq (x : Str) (l : List Str) (z : Str) :
    z ∈ insertUniq x l ↔ z = x ∨ z ∈ l := by
  induction l with
  | nil => simp [insertUniq]
  | cons y ys ih =>
    unfold insertUniq
    split
    · simp
    · split
      · rename_i _ hxy
        subst hxy
        simp
      · simp [ih]
        constructor
        · rintro (h | h | h) <;> simp [h]
        · rintro (h | h | h) <;> simp [h]

theorem insertUniq_sorted (x : Str) (l : List Str) (h : StrictSorted l) :
    StrictSorted (insertUniq x l) := by
  induction l with
  | nil => simp [insertUniq, StrictSorted]
  | cons y ys ih =>
    unfold StrictSorted at h ⊢
    rw [List.pairwise_cons] at h
    unfold insertUniq
    split
    · rename_i hxy
      rw [List.pairwise_cons]
      refine ⟨?_, List.pairwise_cons.mpr h⟩
      intro z hz
      simp at hz
      rcases hz with rfl | hz
      · exact hxy
      · exact ltStr_trans _ _ _ hxy (h.1 z hz)
    · rename_i hxy
      split
      · exact List.pairwise_cons.mpr h
      · rename_i hne
        rw [List.pairwise_cons]
        refine ⟨?_, ih h.2⟩
        intro z hz
        rcases (mem_insertUniq x ys z).mp hz with rfl | hz
        · exact ltStr_total _ _ (by simpa using hxy) hne
        · exact h.1 z hz

theorem mem_sortDedup (l : List Str) (z : Str) : z ∈ sortDedup l ↔ z ∈ l := by
  induction l with
  | nil => simp [sortDedup]
  | cons a as ih =>
    unfold sortDedup at ih ⊢
    simp only [List.foldr_cons]
    rw [mem_insertUniq, ih]
    simp

theorem sortDedup_sorted (l : List Str) : StrictSorted (sortDedup l) := by
  induction l with
  | nil => simp [sortDedup, StrictSorted]
  | cons a as ih =>
    unfold sortDedup at ih ⊢
    simp only [List.foldr_cons]
    exact insertUniq_sorted _ _ ih

/-! ### membership in the selection -/

theorem mem_selectAll (cfg : Cfg) (t : Tree) (p : Str) (ign : List Str) :
    ∀ (sels : List Str) (l : List Str), selectAll cfg t p ign sels = some l →
      ∀ x, x ∈ l ↔ ∃ sel ∈ sels, ∃ ms, selectOne cfg t p sel = some ms ∧ x ∈ ms ∧
        ignored cfg p ign x = false := by
  intro sels
  induction sels with
  | nil =>
    intro l h x
    simp [selectAll] at h
    subst h
    simp
  | cons s rest ih =>
    intro l h x
    unfold selectAll at h
    split at h
    · simp at h
    · rename_i ms hms
      split at h
      · simp at h
      · rename_i more hmore
        simp at h
        subst h
        rw [List.mem_append, ih more hmore x]
        constructor
        · rintro (h | ⟨sel, hsel, ms', h1, h2, h3⟩)
          · simp at h
            exact ⟨s, by simp, ms, hms, h.1, by simpa using h.2⟩
          · exact ⟨sel, by simp [hsel], ms', h1, h2, h3⟩
        · rintro ⟨sel, hsel, ms', h1, h2, h3⟩
          simp at hsel
          rcases hsel with rfl | hsel
          · left
            rw [hms] at h1
            simp at h1
            subst h1
            simp [h2, h3]
          · right
            exact ⟨sel, hsel, ms', h1, h2, h3⟩

end PubModel.C12
