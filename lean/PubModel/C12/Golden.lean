/-
C12 — committed review of the call sites of `env.src` / `env.out` /
`env.prepareOut` whose argument the extractor's data flow cannot trace back
to `makePath` / `makeRelPath` by itself.  A site that is neither classified
`lit` / `resolved` / `forward` by the extractor nor listed here (with exactly
the class the extractor computes today) fails `gen_call_sites_reviewed`.
-/
namespace PubModel.C12.Golden

/-- file, function, callee, arguments, class — reviewed by hand -/
def reviewedSites : List (String × String × String × String × String) := [
  -- the package path: a key of `repo_map.Src` in WORKSPACE.caco3 (workspace configuration, not a
  -- string of a build file) or a sub-build directory, which is `makeRelPath p d` (ruleMeta: subBuilds.dirs)
  ("build_file.go", "readBuildFile", "src", "p, buildFileName", "unresolved:parameter p"),
  ("file_set.go", "newFileSet", "src", "p", "unresolved:parameter p"),
  -- exported accessors of the Builder: the caller's own string
  ("builder.go", "Builder.Src", "src", "f", "unresolved:parameter f"),
  ("builder.go", "Builder.Out", "out", "f", "unresolved:parameter f"),
  -- names read back from a `.fileset` written by `fileSet.build`: node names (ruleMeta) and
  -- entries of included file sets, which are node names again
  ("docker_build.go", "dockerBuild.build", "src", "f.Name", "unresolved:f.Name"),
  ("docker_build.go", "dockerBuild.build", "out", "f.Name", "unresolved:f.Name"),
  -- node names: entries of `fileSet.files` / `buildRuleMeta.outs` (ruleMeta: resolved)
  ("file_stat.go", "newFileStat", "out", "p", "unresolved:parameter p"),
  ("file_stat.go", "newFileStat", "src", "p", "unresolved:parameter p"),
  -- a node name: a requested target (command line) or a dependency of a registered node (ruleMeta)
  ("loader.go", "loader.load1", "src", "name", "unresolved:parameter name"),
  -- keys of `repo_map.Src` (workspace configuration)
  ("sync.go", "syncRepos", "src", "dir", "unresolved:ws.RepoMap.Src")
]

/-- known finding `include-name-unresolved`: `Include` strings are used as written -/
def knownRawSites : List (String × String × String × String × String) := [
  ("file_set.go", "fileSet.build", "out", "fileSet", "unresolved:decoded field FileSet.Include")
]

/-- rule type, field, class: the one dependency list that is not resolved (same finding);
    `parameter p` is the package path under which selected files are listed -/
def knownRawMeta : List (String × String × String) := [
  ("fileSet", "deps", "unresolved:decoded field FileSet.Include; parameter p")
]

/-- `fileSet.deps` once `Include` is resolved -/
def resolvedMeta : List (String × String × String) := [
  ("fileSet", "deps", "unresolved:parameter p")
]

/-- the built-in exclusions of recursive selects, as read in DESIGN.md 5c -/
def exclNames : List String := [".gitignore", "COPYING", "tags", ".DS_Store"]
def exclSuffixes : List String := [".caco3"]
def skipDirs : List String := [".git"]

end PubModel.C12.Golden
