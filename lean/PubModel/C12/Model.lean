/-
C12 — caco3 `newFileSet` over an abstract source tree: explicit files, select
globs (`filepath.Glob`), recursive `**` selects (`listAllFiles` with its
built-in exclusions), file ignores (`path.Match`) and directory ignores.

The source tree is the list of its regular files, each a list of segments
relative to `<root>/src`; directories are the proper prefixes of files (the
harness creates no empty directories and no symlinks).

Go sources mirrored (hash-tracked): caco3/file_set.go (newFileSet,
listAllFiles).  `filepath.Glob`, `filepath.WalkDir`, `filepath.Rel` are
library code: modelled here, validated by the harness on every run.
-/
import PubModel.C12.Match

namespace PubModel.C12

abbrev Path := List Seg
abbrev Tree := List Path

/-! ### byte-wise string order (`sort.Strings`) and sorted duplicate-free lists -/

def ltStr : Str → Str → Bool
  | [], [] => false
  | [], _ :: _ => true
  | _ :: _, [] => false
  | a :: as, b :: bs => if a.toNat < b.toNat then true else if b.toNat < a.toNat then false else ltStr as bs

/-- insert into a strictly sorted list, dropping a duplicate -/
def insertUniq (x : Str) : List Str → List Str
  | [] => [x]
  | y :: ys => if ltStr x y then x :: y :: ys else if x = y then y :: ys else y :: insertUniq x ys

/-- `strutil.SortedList` of the key set of a map: sorted, no duplicates -/
def sortDedup (l : List Str) : List Str := l.foldr insertUniq []

/-! ### the file system seen through the tree -/

def isFile (t : Tree) (x : Path) : Bool := t.contains x
def isDir (t : Tree) (x : Path) : Bool := x = [] || t.any (fun f => x.isPrefixOf f && x != f)
def pathExists (t : Tree) (x : Path) : Bool := isFile t x || isDir t x

/-- `Readdirnames` + sort -/
def readdir (t : Tree) (d : Path) : List Seg :=
  sortDedup (t.filterMap (fun f => if d.isPrefixOf f then (f.drop d.length).head? else none))

def relName (x : Path) : Str := if x = [] then dot else joinSegs x

/-! ### filepath.Glob -/

/-- `glob(dir, pattern, matches)`; `none` = ErrBadPattern -/
def globDir (t : Tree) (d : Path) (file : Seg) (acc : List Path) : Option (List Path) :=
  if isDir t d then
    (readdir t d).foldl (fun (r : Option (List Path)) n =>
      match r with
      | none => none
      | some acc =>
        match fmatch file n with
        | .bad => none
        | .yes => some (acc ++ [d ++ [n]])
        | .no => some acc) (some acc)
  else some acc

/-- `filepath.Glob(<srcDir>/<pattern>)` for a clean relative pattern given by
    its segments in reverse order; results relative to `<srcDir>`.
    `<srcDir>` itself contains no pattern characters (harness invariant). -/
def globRev (t : Tree) : List Seg → Option (List Path)
  | [] => some [[]]
  | file :: rdir =>
    let ps := (file :: rdir).reverse
    if fmatch (joinSegs ps) [] = .bad then none
    else if !hasMeta (joinSegs ps) then (if pathExists t ps then some [ps] else some [])
    else if !hasMeta (joinSegs rdir.reverse) then globDir t rdir.reverse file []
    else
      match globRev t rdir with
      | none => none
      | some ds =>
        ds.foldl (fun (r : Option (List Path)) d =>
          match r with
          | none => none
          | some acc => globDir t d file acc) (some [])

def glob (t : Tree) (pattern : Str) : Option (List Path) := globRev t (segsOf pattern).reverse

/-! ### listAllFiles -/

structure Cfg where
  /-- file names a recursive select never lists -/
  exclNames : List Str
  /-- file name suffixes a recursive select never lists -/
  exclSuffixes : List Str
  /-- directory names a recursive select does not enter -/
  skipDirs : List Str
  /-- the directory-ignore test compares with `dir + "/"` (false: bare string prefix) -/
  dirSlash : Bool
  /-- `Include` names are resolved with `makePath` (false: used as written) -/
  includeResolved : Bool

def isSuffixOfStr (suf s : Str) : Bool := suf.reverse.isPrefixOf s.reverse

def excludedName (cfg : Cfg) (name : Seg) : Bool :=
  cfg.exclNames.contains name || cfg.exclSuffixes.any (fun suf => isSuffixOfStr suf name)

/-- `listAllFiles(<srcDir>/<d>)`; `none` = error (the directory does not exist) -/
def listAll (cfg : Cfg) (t : Tree) (d : Path) : Option (List Path) :=
  if isFile t d then
    (if excludedName cfg (d.getLast?.getD []) then some [] else some [d])
  else if isDir t d then
    if d ≠ [] ∧ cfg.skipDirs.contains (d.getLast?.getD []) then some []
    else some (t.filter (fun f =>
      d.isPrefixOf f &&
      let below := f.drop d.length
      !(below.dropLast.any (fun s => cfg.skipDirs.contains s)) &&
      !excludedName cfg (below.getLast?.getD [])))
  else none

/-! ### newFileSet -/

structure FsRule where
  name : Str
  files : List Str
  select : List Str
  ignore : List Str
  includes : List Str

structure FsOut where
  name : Str
  files : List Str
  includes : List Str
  out : Str
  deriving DecidableEq, Repr

def isPrefixOfStr (a b : Str) : Bool := a.isPrefixOf b

/-- the directory-ignore test on a relative name -/
def ignoredByDir (cfg : Cfg) (d name : Str) : Bool :=
  if cfg.dirSlash then d = [] || isPrefixOfStr (d ++ slash) name
  else isPrefixOfStr d name

def ignoreDirs (p : Str) (ignore : List Str) : List Str :=
  (ignore.filter (fun i => isSuffixOfStr slash i)).map (makeRelPath p)

def ignorePats (p : Str) (ignore : List Str) : List Str :=
  (ignore.filter (fun i => !isSuffixOfStr slash i)).map (makeRelPath p)

/-- the closure `ignore(name)` of newFileSet: a malformed pattern is skipped -/
def ignored (cfg : Cfg) (p : Str) (ignore : List Str) (name : Str) : Bool :=
  (ignoreDirs p ignore).any (fun d => ignoredByDir cfg d name) ||
  (ignorePats p ignore).any (fun i => pmatch i name = .yes)

def trimSuffixStr (suf s : Str) : Str :=
  if isSuffixOfStr suf s then s.take (s.length - suf.length) else s

def starstar : Str := ['*', '*']
def slashStarstar : Str := ['/', '*', '*']

/-- the matches of one select, relative to `<srcDir>`; `none` = error
    (listing failed, malformed glob, or nothing selected) -/
def selectOne (cfg : Cfg) (t : Tree) (p : Str) (sel : Str) : Option (List Str) :=
  let ms : Option (List Path) :=
    if isSuffixOfStr slashStarstar sel ∨ sel = starstar then
      let dir : Str := if sel = starstar then join [p] else makeRelPath p (trimSuffixStr slashStarstar sel)
      listAll cfg t (segsOf dir)
    else glob t (makeRelPath p sel)
  match ms with
  | none => none
  | some [] => none
  | some l => some (l.map relName)

/-- selected and not ignored names of all selects, in order; `none` = error -/
def selectAll (cfg : Cfg) (t : Tree) (p : Str) (ignore : List Str) : List Str → Option (List Str)
  | [] => some []
  | sel :: rest =>
    match selectOne cfg t p sel with
    | none => none
    | some ms =>
      match selectAll cfg t p ignore rest with
      | none => none
      | some more => some (ms.filter (fun n => !ignored cfg p ignore n) ++ more)

def filesetSuffix : Str := ".fileset".toList

/-- `newFileSet(env, p, r)`; `none` = error -/
def newFileSet (cfg : Cfg) (t : Tree) (p : Str) (r : FsRule) : Option FsOut :=
  match selectAll cfg t p r.ignore r.select with
  | none => none
  | some sel =>
    let name := makeRelPath p r.name
    some {
      name := name
      files := sortDedup (r.files.map (makePath p) ++ sel)
      includes := if cfg.includeResolved then r.includes.map (makePath p) else r.includes
      out := name ++ filesetSuffix }

/-- dependencies of the rule node (`fileSet.meta`) -/
def FsOut.deps (o : FsOut) : List Str := o.files ++ o.includes

end PubModel.C12
