/-
Endpoint-side teardown (C04, second layer): `endpointServer.serve`/`cleanup`/`handleDial`
/`handleRead`/`handleWrite`/`handleClose` (endpoint_server.go), `connections`
(connections.go), `Endpoint.Accept`/`Close`/`sendAccept`/`serve` (endpoint.go) as a
transition system over the blocking points of:

* the read loop of `endpointServer.serve` and its deferred clean-up (`Loop`),
* one handler goroutine per call being served (`H`),
* any number of application goroutines in `Endpoint.Accept` (`AS`),
* an application goroutine in `Endpoint.Close` (`CL`).

A session is a `net.Pipe` pair held in `connections`; `sessions[i]` says whether pair
`i` is still open.  A connection created by `handleDial` belongs to the handler until
`connections.add` succeeds.

`Facts` are read from the Go source on every run (`Gen.Teardown.epFacts`); a `false`
fact changes the step the way the code would behave without that statement.
-/
namespace PubModel.Sni.EpTeardown

structure Facts where
  /-- `serve` defers `cleanup()` followed by `callWait.Wait()` -/
  serveDefersCleanup : Bool
  /-- `cleanup` marks the table closed and closes both ends of every session -/
  cleanupClosesAll : Bool
  /-- `connections.add` refuses once the table is closed -/
  addRefusesAfterShutdown : Bool
  /-- `handleDial` closes the connection it created unless the table took it -/
  dialCleansUnlessAdded : Bool
  /-- `Accept` also selects on `serveDone` and `closed` -/
  acceptSelectsDone : Bool
  /-- `sendAccept` also selects on a timer and on `closed` -/
  sendAcceptBounded : Bool
  /-- `Close` waits for `serveDone` or a timer, then closes `closed` and the websocket -/
  closeBounded : Bool
  /-- `Endpoint.serve` closes `serveDone` when the server's serve returns -/
  serveSignalsDone : Bool
  deriving DecidableEq, Repr

def Facts.good : Facts := ⟨true, true, true, true, true, true, true, true⟩

inductive Loop
  | reading | cleaning | waiting | signalling | returned
  deriving DecidableEq, Repr

inductive H
  | readWait (sid : Nat)    -- handleRead, blocked in the pipe's Read
  | writeWait (sid : Nat)   -- handleWrite, blocked in the pipe's Write
  | closeReq (sid : Nat)    -- handleClose, about to close the session
  | dialSend                -- handleDial, in `sendAccept`'s select
  | dialAdd                 -- handleDial, the application has the connection; about to `conns.add`
  | respond                 -- writing the response frame
  | finished
  | finishedLeaked          -- handleDial returned and left an open connection in nobody's table
  deriving DecidableEq, Repr

inductive AS
  | waiting | returned
  deriving DecidableEq, Repr

inductive CL
  | notCalled | hinting | waiting | closing | returned
  deriving DecidableEq, Repr

structure St where
  ctl : Bool := true
  loop : Loop := .reading
  connsClosed : Bool := false
  sessions : List Bool := []      -- open?
  handlers : List H := []
  incoming : Nat := 0             -- connections queued for Accept
  accepts : List AS := []
  cl : CL := .notCalled
  epClosed : Bool := false        -- `p.closed`
  serveDone : Bool := false
  deriving DecidableEq, Repr

def incomingCap : Nat := 10

inductive Ev
  | sever                    -- the websocket is lost
  | shutdownMsg              -- the proxy sends msgShutdown (graceful end of the read loop)
  | spawnRead (sid : Nat) | spawnWrite (sid : Nat) | spawnClose (sid : Nat) | spawnDial
  | appWrites (h : Nat)      -- the application writes: a blocked handleRead gets data
  | appReads (h : Nat)       -- the application reads: a blocked handleWrite completes
  | acceptCall               -- an application goroutine calls Accept
  | closeCall                -- an application goroutine calls Close
  | readFail                 -- NextReader fails
  | cleanup
  | waitDone
  | signal
  | pipeClosed (h : Nat)     -- Read/Write on a closed (or unknown) session returns
  | closeSession (h : Nat)
  | deliver (h : Nat)        -- `p.incoming <- conn`
  | dialTimeout (h : Nat)
  | dialClosedSeen (h : Nat)
  | add (h : Nat)
  | respond (h : Nat)
  | acceptTake (a : Nat)
  | acceptDone (a : Nat)
  | closeHint | closeWake | closeFinish
  deriving DecidableEq, Repr

def Ev.isEnv : Ev → Bool
  | .sever | .shutdownMsg | .spawnRead _ | .spawnWrite _ | .spawnClose _ | .spawnDial
  | .appWrites _ | .appReads _ | .acceptCall | .closeCall => true
  | _ => false

def sessOpen (s : St) (sid : Nat) : Bool := s.sessions.getD sid false

def setH (s : St) (h : Nat) (x : H) : St := { s with handlers := s.handlers.set h x }

def leaveReading (F : Facts) (s : St) : St :=
  { s with loop := if F.serveDefersCleanup then .cleaning else .signalling }

def apply (F : Facts) (s : St) : Ev → Option St
  | .sever => if s.ctl then some { s with ctl := false } else none
  | .shutdownMsg => if s.ctl ∧ s.loop = .reading then some (leaveReading F s) else none
  | .spawnRead sid =>
    if s.ctl ∧ s.loop = .reading then some { s with handlers := s.handlers ++ [.readWait sid] } else none
  | .spawnWrite sid =>
    if s.ctl ∧ s.loop = .reading then some { s with handlers := s.handlers ++ [.writeWait sid] } else none
  | .spawnClose sid =>
    if s.ctl ∧ s.loop = .reading then some { s with handlers := s.handlers ++ [.closeReq sid] } else none
  | .spawnDial =>
    if s.ctl ∧ s.loop = .reading then some { s with handlers := s.handlers ++ [.dialSend] } else none
  | .appWrites h =>
    match s.handlers[h]? with
    | some (.readWait sid) => if sessOpen s sid then some (setH s h .respond) else none
    | _ => none
  | .appReads h =>
    match s.handlers[h]? with
    | some (.writeWait sid) => if sessOpen s sid then some (setH s h .respond) else none
    | _ => none
  | .acceptCall => some { s with accepts := s.accepts ++ [.waiting] }
  | .closeCall => if s.cl = .notCalled then some { s with cl := .hinting } else none
  | .readFail => if s.ctl = false ∧ s.loop = .reading then some (leaveReading F s) else none
  | .cleanup =>
    if s.loop = .cleaning then
      some { s with loop := .waiting,
                    connsClosed := s.connsClosed || F.cleanupClosesAll,
                    sessions := if F.cleanupClosesAll then s.sessions.map (fun _ => false) else s.sessions }
    else none
  | .waitDone =>
    if s.loop = .waiting ∧ s.handlers.all (fun h => h == .finished || h == .finishedLeaked) then
      some { s with loop := .signalling }
    else none
  | .signal =>
    if s.loop = .signalling then some { s with loop := .returned, serveDone := s.serveDone || F.serveSignalsDone }
    else none
  | .pipeClosed h =>
    match s.handlers[h]? with
    | some (.readWait sid) => if sessOpen s sid = false then some (setH s h .respond) else none
    | some (.writeWait sid) => if sessOpen s sid = false then some (setH s h .respond) else none
    | _ => none
  | .closeSession h =>
    match s.handlers[h]? with
    | some (.closeReq sid) =>
      some { setH s h .respond with
             sessions := if s.connsClosed then s.sessions else s.sessions.set sid false }
    | _ => none
  | .deliver h =>
    match s.handlers[h]? with
    | some .dialSend =>
      if s.incoming < incomingCap then some { setH s h .dialAdd with incoming := s.incoming + 1 } else none
    | _ => none
  | .dialTimeout h =>
    match s.handlers[h]? with
    | some .dialSend => if F.sendAcceptBounded then some (setH s h .respond) else none
    | _ => none
  | .dialClosedSeen h =>
    match s.handlers[h]? with
    | some .dialSend => if F.sendAcceptBounded ∧ s.epClosed then some (setH s h .respond) else none
    | _ => none
  | .add h =>
    match s.handlers[h]? with
    | some .dialAdd =>
      if s.connsClosed ∧ F.addRefusesAfterShutdown then
        some (setH s h (if F.dialCleansUnlessAdded then .respond else .finishedLeaked))
      else some { setH s h .respond with sessions := s.sessions ++ [true] }
    | _ => none
  | .respond h =>
    match s.handlers[h]? with
    | some .respond => some (setH s h .finished)
    | _ => none
  | .acceptTake a =>
    match s.accepts[a]? with
    | some .waiting =>
      if 0 < s.incoming then some { s with accepts := s.accepts.set a .returned, incoming := s.incoming - 1 } else none
    | _ => none
  | .acceptDone a =>
    match s.accepts[a]? with
    | some .waiting =>
      if F.acceptSelectsDone ∧ (s.serveDone ∨ s.epClosed) then some { s with accepts := s.accepts.set a .returned }
      else none
    | _ => none
  | .closeHint => if s.cl = .hinting then some { s with cl := .waiting } else none
  | .closeWake => if s.cl = .waiting ∧ (s.serveDone ∨ F.closeBounded) then some { s with cl := .closing } else none
  | .closeFinish =>
    if s.cl = .closing then
      some { s with cl := .returned, epClosed := s.epClosed || F.closeBounded, ctl := s.ctl && !F.closeBounded }
    else none

def Step (F : Facts) (s s' : St) : Prop := ∃ e, apply F s e = some s'

inductive Reach (F : Facts) (s0 : St) : St → Prop
  | refl : Reach F s0 s0
  | tail {s s' : St} : Reach F s0 s → Step F s s' → Reach F s0 s'

/-- no goroutine of the endpoint can take a step (the environment still may) -/
def Quiescent (F : Facts) (s : St) : Prop := ∀ e, e.isEnv = false → apply F s e = none

/-- a freshly connected endpoint -/
def init : St := {}

end PubModel.Sni.EpTeardown
