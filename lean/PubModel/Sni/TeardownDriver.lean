/-
Line-protocol execution of the two teardown models (C04, second layer) for the
whole-proxy scenarios of the harness: the scenario is set up event by event, the fault
is injected, and the system steps are then run to quiescence under a pseudo-random
scheduler derived from the seed.  The facts are the ones regenerated from the source
(`Gen.Teardown`).  The output is the list of things left undone, in the vocabulary the
harness uses for what it observes on the real proxy.
-/
import PubModel.Sni.Teardown
import PubModel.Sni.EpTeardown
import PubModel.Gen.Teardown
import PubModel.Common.Hex

namespace PubModel.Sni.TeardownDrv
open PubModel

def lcg (x : Nat) : Nat := (x * 6364136223846793005 + 1442695040888963407) % 18446744073709551616

/-! ### proxy side -/

section proxy
open Teardown

def sysFEv : List FEv :=
  [.lookup, .dialOk, .dialErr, .dialCancel, .frontGone, .upWriteOk, .upWriteErr, .downReadOk, .downReadEof,
   .downReadErr, .downWriteDone, .cancelSeen, .caStart, .caTunnelOk, .caTunnelErr, .upExit, .downExit,
   .joinReturn, .finishOk, .finishErr, .sideGone, .sideCancel]

/-- data only moves on replies that had arrived; closing calls are answered while the endpoint lives -/
def schedulable (s : St) : Ev → Bool
  | .front i .downReadOk => ((s.fronts[i]?).map (fun f => decide (0 < f.oks))).getD false
  | .front i .upWriteOk => ((s.fronts[i]?).map (fun f => decide (0 < f.oks))).getD false
  | .front i .downReadEof => ((s.fronts[i]?).map (fun f => f.ca == .done || decide (0 < f.oks))).getD false
  | _ => true

def pCandidates (s : St) : List Ev :=
  [.trExit, .kcClose, .sfStop, .sfReturn, .sbServeReturn, .sbUnmap, .sbClose, .sbDisconnect] ++
  (List.range s.fronts.length).flatMap fun i => sysFEv.map (Ev.front i ·)

def pEnabled (F : Facts) (s : St) : List Ev :=
  (pCandidates s).filter fun e => schedulable s e && (apply F s e).isSome

def pQuiesce (F : Facts) (s : St) (rng steps : Nat) : Nat → St × Nat
  | 0 => (s, steps)
  | fuel + 1 =>
    match pEnabled F s with
    | [] => (s, steps)
    | es =>
      let rng' := lcg rng
      match es[(rng' / 65536) % es.length]? with
      | some e =>
        match apply F s e with
        | some s' => pQuiesce F s' rng' (steps + 1) fuel
        | none => (s, steps)
      | none => (s, steps)

def pRun (F : Facts) (s : St) : List Ev → Option St
  | [] => some s
  | e :: es => match apply F s e with
    | some s' => pRun F s' es
    | none => none

/-- one echoed hello per tunnel: dial, client sends, endpoint echoes -/
def pSetup (n : Nat) : List Ev :=
  (List.range n).flatMap fun i =>
    [.front i .arrive, .front i .lookup, .front i .dialOk, .front i .clientData, .front i .upWriteOk,
     .front i .downReadOk, .front i .downWriteDone]

def pProblems (fault : String) (checkSF : Bool) (s : St) : List String :=
  let frontOpen := s.fronts.any fun f => f.hs != .notYet && f.hs != .elsewhere && !f.frontClosed
  let goroutines := s.fronts.any (fun f => f.hs != .notYet && f.hs != .elsewhere && f.hs != .done) ||
    (fault != "cancel" && s.sb != .returned) || s.kc == .closing
  (if frontOpen then ["front-open"] else []) ++
  (if (fault == "sever" || fault == "endpoint-close") && s.registered then ["registered"] else []) ++
  (if fault != "cancel" && s.disconnects != 1 then ["disconnect-count"] else []) ++
  (if (fault == "kick" || fault == "kick-hung" || fault == "kick-hung-hinted") && s.ctl then ["ctl-open"] else []) ++
  (if checkSF && s.cancelled && s.sf != .returned then ["servefront-not-returned"] else []) ++
  (if goroutines then ["goroutines-left"] else [])

/-- side mode: `tunnels + 1` dials that the endpoint answered and whose side connections never
    arrive; the control connection is lost; the serving context is not cancelled.  What is
    left is reported in the harness's vocabulary (`dial-blocked`). -/
def sideOrphanScenario (tunnels seed : Nat) : String :=
  let F := Gen.Teardown.facts
  let n := tunnels + 1
  let s0 : St := init ((List.range n).map fun _ => (0, 0))
  let setup := (List.range n).flatMap fun i => [Ev.front i .arrive, .front i .lookup, .front i .dialSideOk]
  match pRun F s0 (setup ++ [.sever]) with
  | none => "setup-rejected"
  | some s1 =>
    let (s2, k) := pQuiesce F s1 (seed + 1) 0 100000
    let blocked := s2.fronts.any fun f => f.hs == .sideWait || f.hs == .dialing
    s!"after-fault= final={if blocked then "dial-blocked" else ""} steps={k}"

def proxyScenario (fault : String) (tunnels seed : Nat) : String :=
  if fault == "side-dial-orphaned" then sideOrphanScenario tunnels seed else
  if fault == "sever-backlog" || fault.startsWith "epfault-" || fault.startsWith "side-" then "n/a" else
  let F := Gen.Teardown.facts
  let hung := fault == "kick-hung" || fault == "kick-hung-hinted" || fault == "graceful-silent" || fault == "fatal-frame"
  let n := if hung then tunnels + 1 else tunnels
  let s0 : St := { init ((List.range n).map fun _ => (2, 0)) with hung := hung }
  let setup := if hung then (List.range n).flatMap (fun i => [Ev.front i .arrive, .front i .lookup]) else pSetup n
  let faultEvs : List Ev :=
    if fault == "sever" then [.sever]
    else if fault == "graceful-silent" || fault == "fatal-frame" then [.sever]  -- (the proxy's own close ends it; the model has no silent-after-ack peer)
    else if fault == "kick" || hung then [.kick]
    else if fault == "endpoint-close" then [.hint]
    else if fault == "cancel" then [.cancel]
    else []
  match pRun F s0 (setup ++ faultEvs) with
  | none => "setup-rejected"
  | some s1 =>
    let (s2, k1) := pQuiesce F s1 (seed + 1) 0 100000
    -- the harness then closes the endpoint (the websocket goes away) and cancels ServeFront
    let s3 := ((apply F s2 .sever).getD s2)
    let s3 := ((apply F s3 .cancel).getD s3)
    let (s4, k2) := pQuiesce F s3 (seed + 7) 0 100000
    let mid := pProblems fault (fault == "cancel") s2
    let fin := pProblems "final" true s4
    s!"after-fault={",".intercalate mid} final={",".intercalate fin} steps={k1 + k2}"

end proxy

/-! ### endpoint side -/

section endpoint
open EpTeardown

def eCandidates (s : St) : List Ev :=
  [.readFail, .cleanup, .waitDone, .signal, .closeHint, .closeWake, .closeFinish] ++
  ((List.range s.handlers.length).flatMap fun h =>
    [Ev.pipeClosed h, .closeSession h, .deliver h, .dialTimeout h, .dialClosedSeen h, .add h, .respond h]) ++
  ((List.range s.accepts.length).flatMap fun a => [Ev.acceptTake a, .acceptDone a])

def eEnabled (F : Facts) (s : St) : List Ev := (eCandidates s).filter fun e => (apply F s e).isSome

def eQuiesce (F : Facts) (s : St) (rng steps : Nat) : Nat → St × Nat
  | 0 => (s, steps)
  | fuel + 1 =>
    match eEnabled F s with
    | [] => (s, steps)
    | es =>
      let rng' := lcg rng
      match es[(rng' / 65536) % es.length]? with
      | some e =>
        match apply F s e with
        | some s' => eQuiesce F s' rng' (steps + 1) fuel
        | none => (s, steps)
      | none => (s, steps)

def eRun (F : Facts) (s : St) : List Ev → Option St
  | [] => some s
  | e :: es => match apply F s e with
    | some s' => eRun F s' es
    | none => none

def eProblems (s : St) : List String :=
  (if s.accepts.any (· != .returned) then ["accept-blocked"] else []) ++
  (if s.cl != .notCalled && s.cl != .returned then ["close-blocked"] else []) ++
  (if s.sessions.any id || s.handlers.any (· == .finishedLeaked) then ["session-open"] else []) ++
  (if s.handlers.any (fun h => h != .finished && h != .finishedLeaked) || s.loop != .returned then ["goroutines-left"] else [])

/-- `n` tunnels accepted by an application that echoes (so a Read is outstanding on each),
    the application back in `Accept` -/
def eSetup (n : Nat) : List Ev :=
  (List.range n).flatMap (fun i =>
    [Ev.spawnDial, .deliver (2 * i), .acceptCall, .acceptTake i, .add (2 * i), .respond (2 * i), .spawnRead i]) ++
  [.acceptCall]

/-- the application is slow to accept: `10 + extra` dials, ten queued (and added), the rest
    parked in `sendAccept`; the tunnel is lost; then the application accepts what it is offered -/
def backlogScenario (extra seed : Nat) : String :=
  let F := Gen.Teardown.epFacts
  let n := 10 + extra
  let setup : List Ev := (List.range n).map (fun _ => Ev.spawnDial) ++
    (List.range 10).flatMap (fun i => [Ev.deliver i, .add i, .respond i]) ++ [.sever]
  match eRun F init setup with
  | none => "setup-rejected"
  | some s1 =>
    let rec accepts (s : St) (rng k steps : Nat) : St × Nat :=
      match k with
      | 0 => (s, steps)
      | k + 1 =>
        let (s', st) := eQuiesce F s rng steps 100000
        accepts ((apply F s' .acceptCall).getD s') (lcg rng) k st
    let (s2, k1) := accepts s1 (seed + 5) (n + 3) 0
    let s3 := (apply F s2 .closeCall).getD s2
    let (s4, k2) := eQuiesce F s3 (seed + 13) k1 100000
    s!"after-fault= final={",".intercalate (eProblems s4)} steps={k2}"

def endpointScenario (fault : String) (tunnels seed : Nat) : String :=
  if fault == "sever-backlog" then backlogScenario (2 + tunnels) seed else
  if fault == "kick-hung" || fault == "kick-hung-hinted" || fault == "graceful-silent" || fault == "fatal-frame" ||
     fault.startsWith "side-" then "n/a" else
  let F := Gen.Teardown.epFacts
  let faultEvs : List Ev :=
    if fault == "sever" || fault == "kick" || fault == "epfault-cut" then [.sever]
    else if fault == "epfault-text" || fault == "epfault-short" then [.shutdownMsg]  -- the read loop ends on a frame it cannot serve
    else if fault == "endpoint-close" || fault == "epfault-silent" then [.closeCall]
    else []
  match eRun F init (eSetup tunnels ++ faultEvs) with
  | none => "setup-rejected"
  | some s1 =>
    let (s2, k1) := eQuiesce F s1 (seed + 3) 0 100000
    let mid := eProblems s2
    -- the harness finally calls Close
    let s3 := (apply F s2 .closeCall).getD s2
    let (s4, k2) := eQuiesce F s3 (seed + 11) 0 100000
    s!"after-fault={",".intercalate (if fault == "cancel" then [] else mid)} final={",".intercalate (eProblems s4)} steps={k1 + k2}"

end endpoint

def step (line : String) : String :=
  let ws := words line
  match ws with
  | "teardown" :: rest =>
    match kv rest "fault", kvNat rest "tunnels", kvNat rest "seed" with
    | some f, some n, some sd => s!"proxy[{proxyScenario f n sd}] endpoint[{endpointScenario f n sd}]"
    | _, _, _ => "bad-op"
  | _ => "bad-op"

end PubModel.Sni.TeardownDrv
