/-
Proxy-side teardown of one endpoint (C04, second layer): `Server.ServeBackName`
(server.go), `endpointClient.Close` (endpoint_client.go), `proxy.hostConn` /
`proxy.serve` (proxy.go), `netutil.JoinConn` (join_conn.go) and the `tunnel`
operations (tunnel.go) as a transition system whose steps are the blocking points
of every goroutine involved:

* the `ServeBackName` goroutine of the endpoint (`SB`),
* the `go old.Close()` goroutine started when a newer endpoint kicks this one (`KC`),
* `ServeFront` with its wait group (`SF`),
* per front connection: the `hostConn` goroutine (`HS`; in side mode including the wait
  of `endpointClient.Dial` for the side websocket, `connMailBox.receive`), the two copy goroutines of
  `JoinConn` (`Up`: front → tunnel, `Down`: tunnel → front), and the `closeAll`
  once (`CA`), which first closes the tunnel (an RPC with a context that is never
  cancelled) and then the front connection.

The RPC transport below (transport.go) is the first layer, `PubModel.Sni.Transport`;
what this layer uses of it is its proved contract (`C04.transport_no_stranded`,
`C04.teardown_bounded`): once the control connection is lost the serve loop exits
(`trExit`) and from then on every call returns an error (`…Err` events).  Before that a
call can also succeed: without bound while the connection is up, and after the cut
only with replies that had already arrived (`oks`, an arbitrary number per front).

`Facts` are read from the Go source on every run (`Gen.Teardown`); a `false` fact
changes the corresponding step the way the code would behave without that statement.
-/
namespace PubModel.Sni.Teardown

structure Facts where
  /-- `JoinConn`'s copy goroutines run `closeAll` when they finish (deferred) -/
  joinDefersCloseAll : Bool
  /-- `closeAll` closes both connections -/
  closeAllClosesBoth : Bool
  /-- `hostConn` defers `conn.Close()` -/
  hostDefersFrontClose : Bool
  /-- `ServeBackName` unmaps the name when serving ends -/
  serveBackUnmaps : Bool
  /-- `ServeBackName` closes the endpoint client when serving ends, and
      `endpointClient.Close` always closes the websocket -/
  closeClosesConn : Bool
  /-- the shutdown call of `endpointClient.Close` runs under a context with a timeout -/
  shutdownHasTimeout : Bool
  /-- `ServeBackName` reports the disconnect (deferred) -/
  reportsDisconnect : Bool
  /-- side mode: `endpointClient.Dial` waits for the side connection in
      `connMailBox.receive`, which also selects on the transport's `serveDone` -/
  sideDialSelectsGone : Bool
  deriving DecidableEq, Repr

def Facts.good : Facts := ⟨true, true, true, true, true, true, true, true⟩

inductive HS
  | notYet          -- the client has not connected yet
  | arriving        -- accepted by ServeFront; hello sniffed; about to look the endpoint up
  | dialing         -- in `ep.Dial` (an RPC)
  | joined          -- in `JoinConn`
  | closingTunnel   -- `JoinConn` returned; deferred `closer.Close()` (an RPC), then `conn.Close()`
  | done            -- `hostConn` returned
  | elsewhere       -- routed to the newer endpoint that took the name (outside this model)
  | sideWait        -- side mode: the endpoint answered the dial call; `ep.Dial` waits in
                    -- `connMailBox.receive` for the side websocket to be delivered
  deriving DecidableEq, Repr

inductive Up
  | readFront | writeTunnel | closing | exited
  deriving DecidableEq, Repr

inductive Down
  | readTunnel | writeFront | closing | exited
  deriving DecidableEq, Repr

inductive CA
  | notStarted | inTunnelClose | done
  deriving DecidableEq, Repr

structure Front where
  hs : HS := .notYet
  up : Up := .readFront
  down : Down := .readTunnel
  ca : CA := .notStarted
  frontClosed : Bool := false
  sends : Nat := 0      -- segments the client will still send (environment)
  oks : Nat := 0        -- calls of this connection that can still succeed after the cut
  deriving DecidableEq, Repr

inductive SB
  | serving | unmapping | closingEp | disconnecting | returned
  deriving DecidableEq, Repr

inductive KC
  | none | closing | done
  deriving DecidableEq, Repr

inductive SF
  | accepting | draining | returned
  deriving DecidableEq, Repr

structure St where
  ctl : Bool := true          -- the control websocket is usable
  hung : Bool := false        -- the endpoint never answers (a peer that only reads)
  trDone : Bool := false      -- the transport's serve loop has exited
  registered : Bool := true   -- `Server.endpoints[name]` is this endpoint client
  kicked : Bool := false      -- a newer endpoint has taken the name
  sb : SB := .serving
  kc : KC := .none
  cancelled : Bool := false   -- ServeFront's context
  sf : SF := .accepting
  disconnects : Nat := 0      -- `OnDisconnect` calls made
  fronts : List Front := []
  deriving DecidableEq, Repr

/-- what a front connection's goroutines can see of the rest -/
structure Ctx where
  ctl : Bool
  hung : Bool
  trDone : Bool
  registered : Bool
  kicked : Bool
  cancelled : Bool
  accepting : Bool

def St.ctx (s : St) : Ctx := ⟨s.ctl, s.hung, s.trDone, s.registered, s.kicked, s.cancelled, s.sf == .accepting⟩

/-- a tunnel call can complete successfully -/
def okPossible (c : Ctx) (f : Front) : Bool := (c.ctl && !c.trDone && !c.hung) || decide (0 < f.oks)

/-- successful completion: free while the connection is up, otherwise one of the replies already received -/
def useOk (c : Ctx) (f : Front) : Front := if c.ctl && !c.trDone && !c.hung then f else { f with oks := f.oks - 1 }

inductive FEv
  | arrive | lookup | dialOk | dialErr | dialCancel
  | clientData | clientClose | frontGone
  | upWriteOk | upWriteErr
  | downReadOk | downReadEof | downReadErr | downWriteDone
  | cancelSeen | caStart | caTunnelOk | caTunnelErr
  | upExit | downExit | joinReturn | finishOk | finishErr
  | dialSideOk | sideArrive | sideGone | sideCancel
  deriving DecidableEq, Repr

/-- a copy goroutine leaves its loop -/
def upLeave (F : Facts) (f : Front) : Front := { f with up := if F.joinDefersCloseAll then .closing else .exited }
def downLeave (F : Facts) (f : Front) : Front := { f with down := if F.joinDefersCloseAll then .closing else .exited }

def closeAllDone (F : Facts) (f : Front) : Front :=
  { f with ca := .done, frontClosed := f.frontClosed || F.closeAllClosesBoth }

def hostReturn (F : Facts) (f : Front) : Front :=
  { f with hs := .done, frontClosed := f.frontClosed || F.hostDefersFrontClose }

def frontStep (F : Facts) (c : Ctx) (f : Front) : FEv → Option Front
  | .arrive => if f.hs = .notYet ∧ c.accepting then some { f with hs := .arriving } else none
  | .lookup =>
    if f.hs = .arriving then
      some (if c.registered then { f with hs := .dialing }
            else if c.kicked then { f with hs := .elsewhere }
            else hostReturn F f)
    else none
  | .dialOk => if f.hs = .dialing ∧ okPossible c f then some { useOk c f with hs := .joined } else none
  | .dialErr => if f.hs = .dialing ∧ c.trDone then some (hostReturn F f) else none
  | .dialCancel => if f.hs = .dialing ∧ c.cancelled then some (hostReturn F f) else none
  | .clientData =>
    if f.hs = .joined ∧ f.up = .readFront ∧ f.frontClosed = false ∧ 0 < f.sends then
      some { f with up := .writeTunnel, sends := f.sends - 1 }
    else none
  | .clientClose =>
    if f.hs = .joined ∧ f.up = .readFront ∧ f.frontClosed = false then some (upLeave F f) else none
  | .frontGone =>
    if f.hs = .joined ∧ f.up = .readFront ∧ f.frontClosed = true then some (upLeave F f) else none
  | .upWriteOk =>
    if f.hs = .joined ∧ f.up = .writeTunnel ∧ okPossible c f then some { useOk c f with up := .readFront } else none
  | .upWriteErr =>
    if f.hs = .joined ∧ f.up = .writeTunnel ∧ c.trDone then some (upLeave F f) else none
  | .downReadOk =>
    if f.hs = .joined ∧ f.down = .readTunnel ∧ okPossible c f then some { useOk c f with down := .writeFront } else none
  | .downReadEof =>
    if f.hs = .joined ∧ f.down = .readTunnel ∧ okPossible c f then some (downLeave F (useOk c f)) else none
  | .downReadErr =>
    if f.hs = .joined ∧ f.down = .readTunnel ∧ c.trDone then some (downLeave F f) else none
  | .downWriteDone =>
    if f.hs = .joined ∧ f.down = .writeFront then
      some (if f.frontClosed then downLeave F f else { f with down := .readTunnel })
    else none
  | .cancelSeen =>
    if f.hs = .joined ∧ f.ca = .notStarted ∧ c.cancelled then
      some { f with ca := .inTunnelClose }
    else none
  | .caStart =>
    if f.hs = .joined ∧ f.ca = .notStarted ∧ (f.up = .closing ∨ f.down = .closing) then
      some { f with ca := .inTunnelClose }
    else none
  | .caTunnelOk =>
    if f.hs = .joined ∧ f.ca = .inTunnelClose ∧ okPossible c f then some (closeAllDone F (useOk c f)) else none
  | .caTunnelErr =>
    if f.hs = .joined ∧ f.ca = .inTunnelClose ∧ c.trDone then some (closeAllDone F f) else none
  | .upExit => if f.hs = .joined ∧ f.up = .closing ∧ f.ca = .done then some { f with up := .exited } else none
  | .downExit => if f.hs = .joined ∧ f.down = .closing ∧ f.ca = .done then some { f with down := .exited } else none
  | .joinReturn =>
    if f.hs = .joined ∧ f.up = .exited ∧ f.down = .exited then some { f with hs := .closingTunnel } else none
  | .finishOk => if f.hs = .closingTunnel ∧ okPossible c f then some (hostReturn F (useOk c f)) else none
  | .finishErr => if f.hs = .closingTunnel ∧ c.trDone then some (hostReturn F f) else none
  -- side mode.  The dial call is answered ("the side connection is on its way") …
  | .dialSideOk => if f.hs = .dialing ∧ okPossible c f then some { useOk c f with hs := .sideWait } else none
  -- … the side websocket arrives: the connection is joined to it, a websocket of its own that
  -- does not depend on the control connection (outside this model) …
  | .sideArrive => if f.hs = .sideWait then some { f with hs := .elsewhere } else none
  -- … or the endpoint's transport ends first (`gone`), or the dialler's context does
  | .sideGone => if f.hs = .sideWait ∧ F.sideDialSelectsGone ∧ c.trDone then some (hostReturn F f) else none
  | .sideCancel => if f.hs = .sideWait ∧ c.cancelled then some (hostReturn F f) else none

inductive Ev
  | front (i : Nat) (e : FEv)
  | sever           -- the control connection is lost (network, or the endpoint goes away)
  | trExit          -- the transport's serve loop exits (first layer: happens once the connection is gone)
  | hint            -- the endpoint asks for a graceful end and answers the shutdown call: the serve loop exits
  | kick            -- a newer endpoint registers under the name
  | kcClose         -- `old.Close()`: shutdown call, then the websocket is closed
  | cancel          -- ServeFront's context is cancelled
  | sfStop          -- the listener is closed, `Accept` fails
  | sfReturn        -- `wg.Wait()` is over
  | sbServeReturn   -- `ep.serve()` returns
  | sbUnmap | sbClose | sbDisconnect
  deriving DecidableEq, Repr

def settled (f : Front) : Bool := f.hs == .notYet || f.hs == .done || f.hs == .elsewhere

def apply (F : Facts) (s : St) : Ev → Option St
  | .front i e =>
    match s.fronts[i]? with
    | some f => (frontStep F s.ctx f e).map fun f' => { s with fronts := s.fronts.set i f' }
    | none => none
  | .sever => if s.ctl then some { s with ctl := false } else none
  | .trExit => if s.ctl = false ∧ s.trDone = false then some { s with trDone := true } else none
  | .hint => if s.trDone = false ∧ s.hung = false then some { s with trDone := true } else none
  | .kick =>
    if s.registered ∧ s.kc = .none then some { s with registered := false, kicked := true, kc := .closing } else none
  | .kcClose =>
    if s.kc = .closing ∧ (F.shutdownHasTimeout ∨ s.trDone) then
      some { s with kc := .done, ctl := s.ctl && !F.closeClosesConn }
    else none
  | .cancel => if s.cancelled = false then some { s with cancelled := true } else none
  | .sfStop => if s.cancelled ∧ s.sf = .accepting then some { s with sf := .draining } else none
  | .sfReturn => if s.sf = .draining ∧ s.fronts.all settled then some { s with sf := .returned } else none
  | .sbServeReturn => if s.sb = .serving ∧ s.trDone then some { s with sb := .unmapping } else none
  | .sbUnmap =>
    if s.sb = .unmapping then some { s with sb := .closingEp, registered := s.registered && !F.serveBackUnmaps }
    else none
  | .sbClose =>
    if s.sb = .closingEp then some { s with sb := .disconnecting, ctl := s.ctl && !F.closeClosesConn } else none
  | .sbDisconnect =>
    if s.sb = .disconnecting then
      some { s with sb := .returned, disconnects := s.disconnects + (if F.reportsDisconnect then 1 else 0) }
    else none

def Step (F : Facts) (s s' : St) : Prop := ∃ e, apply F s e = some s'

inductive Reach (F : Facts) (s0 : St) : St → Prop
  | refl : Reach F s0 s0
  | tail {s s' : St} : Reach F s0 s → Step F s s' → Reach F s0 s'

/-- steps of the environment, which nothing obliges to happen: the network failing, a
    newer endpoint, a cancellation, clients connecting, sending or hanging up -/
def Ev.isEnv : Ev → Bool
  | .sever | .kick | .cancel | .hint => true
  | .front _ .arrive | .front _ .clientData | .front _ .clientClose | .front _ .sideArrive => true
  | _ => false

/-- no goroutine of the system can take a step (the environment still may) -/
def Quiescent (F : Facts) (s : St) : Prop := ∀ e, e.isEnv = false → apply F s e = none

/-- an endpoint that has just registered, with the front connections that will ever arrive -/
def init (fronts : List (Nat × Nat)) : St :=
  { fronts := fronts.map fun p => { sends := p.1, oks := p.2 } }

end PubModel.Sni.Teardown
