/-
Line-protocol execution of the transport model, shared by the C03 and C04 drivers.
-/
import PubModel.Sni.Exec
import PubModel.C13.Glue
import PubModel.Gen.Transport

namespace PubModel.Sni
open PubModel PubModel.C13

structure DState where
  st : St
  bodies : List (List Val) := []     -- decoded reply bodies by frame seq
  fx : Bool := Gen.Transport.fx
  cap : Nat := Gen.Transport.callsCap

def showCS : CS → String
  | .idle => "idle" | .checked => "checked" | .queued => "queued"
  | .pending id => s!"pending:{id}" | .fetched id => s!"fetched:{id}"
  | .done (.ok k) => s!"ok:{k}" | .done .okNoReply => "ghost" | .done (.err e) => s!"err:{e}"

def showRS : RS → String
  | .idle => "idle" | .wantFetch f => s!"wantFetch:{f.id}" | .holding i f => s!"holding:{i}:{f.id}" | .dead => "dead"

def showSS : SS → String
  | .running => "running" | .exiting => "exiting" | .done => "done"

def showVal' : Val → String
  | .num n => s!"n:{n}"
  | .bs b => s!"b:{Hex.encode b}"
  | .err c m => s!"e:{c}:{Hex.encode m}"

def DState.results (d : DState) : String :=
  ",".intercalate (d.st.callers.map fun c =>
    match c.st with
    | .done (.ok k) =>
      let vs := (d.bodies[k]?).getD []
      "ok:" ++ "+".intercalate (vs.map showVal')
    | st => showCS st)

def DState.summary (d : DState) : String :=
  let stuck := (List.range d.st.callers.length).filter fun i =>
    match d.st.callers[i]? with
    | some c => match c.st with
      | .done _ => false
      | _ => true
    | none => false
  s!"serve={showSS d.st.serve} reader={showRS d.st.reader} stuck={stuck} queue={d.st.queue.length} pending={d.st.pending.length}"

def parseEv (ws : List String) : Option Ev :=
  match ws with
  | ["check", i] => i.toNat?.map .check
  | ["enqueue", i] => i.toNat?.map .enqueue
  | ["enqabort", i] => i.toNat?.map .enqueueAbort
  | ["take"] => some .take
  | ["sendfail"] => some .takeSendFail
  | ["frame", id, typ, ok] => do
    let id ← id.toNat?
    let typ ← typ.toNat?
    pure (.frameArrive id typ (ok = "1"))
  | ["fetch"] => some .fetchServe
  | ["fetchabort"] => some .fetchAbort
  | ["complete"] => some .complete
  | ["readerdie"] => some .readerDie
  | ["readerfatal"] => some .readerFatal
  | ["readerr"] => some .serveReadErr
  | ["exit"] => some .serveExit
  | ["abort", i] => i.toNat?.map .callAbort
  | ["giveup", i] => i.toNat?.map .giveUp
  | ["sever"] => some .sever
  | _ => none

def DState.ev (d : DState) (e : Ev) : Option DState :=
  (apply d.fx d.cap d.st e).map fun s => { d with st := s }

/-- run internal steps until none is enabled (first enabled first); fuel bounds the run -/
def DState.quiesce (d : DState) : Nat → DState
  | 0 => d
  | n + 1 =>
    match enabled d.fx d.cap d.st with
    | [] => d
    | e :: _ =>
      match d.ev e with
      | some d' => d'.quiesce n
      | none => d

/-- reply layout expected for a pending call of type code `t` -/
def respSchemaOf (t : Nat) : Schema :=
  match nameOfCode t with
  | some nm => (genRespOf nm).getD []
  | none => []

/-- process one raw reply frame the way the reader and serve loop do, sequentially -/
def DState.reply (d : DState) (bs : Bytes) (cap : Nat) : DState × String :=
  let d0 : DS := { inp := bs }
  let (d1, id) := decU64 d0
  let (d2, t) := decU8 d1
  let (d3, e) := decU8 d2
  if d3.failed then (d, "short")
  else if e ≠ 0 then
    match d.ev .readerFatal with
    | some d' => (d', s!"fatal errcode={e}")
    | none => (d, "rejected readerfatal")
  else if some t = codeOf "msgShutdownHint" then (d, "hint")
  else
    -- would the body decode into the reply struct of the call that owns this id?
    let owner := d.st.pending.lookup id
    let ownerTyp := (owner.bind fun i => d.st.callers[i]?.map (·.typ))
    let (dd, vs) := run (genCfg (2^47) cap) (respSchemaOf (ownerTyp.getD t)) d3
    let ok := !dd.failed
    match d.ev (.frameArrive id t ok) with
    | none => (d, "rejected frame")
    | some da =>
      let seq := da.st.log.length - 1
      let da := { da with bodies := da.bodies ++ [vs] }
      let _ := seq
      match da.ev .fetchServe with
      | none => (da, "fetch-not-served")
      | some df =>
        match df.st.reader with
        | .holding i _ =>
          match df.ev .complete with
          | some dc => (dc, s!"handled caller={i} now={showCS ((dc.st.callers[i]?.map (·.st)).getD .idle)}")
          | none => (df, "rejected complete")
        | _ => (df, s!"discard id={id}")

def DState.step (d : DState) (line : String) : DState × String :=
  let ws := words line
  match ws with
  | "init" :: rest =>
    let typs := ((kv rest "typ").getD "").splitOn ","
    let sd := ((kv rest "shutdown").getD "").splitOn ","
    let cs := typs.filterMap fun t => t.toNat?.map fun n => ({ typ := n } : Caller)
    let cs := cs.zipIdx.map fun (c, i) => if sd.contains (toString i) then { c with isShutdown := true } else c
    let cn := ((kv rest "ctx").getD "").splitOn ","
    let cs := cs.zipIdx.map fun (c, i) => if cn.contains (toString i) then { c with cancellable := true } else c
    let fx := match kv rest "fx" with
      | some "0" => false
      | some "1" => true
      | _ => Gen.Transport.fx
    ({ st := init cs, fx := fx }, s!"ok callers={cs.length} fx={fx}")
  | "ev" :: rest =>
    match parseEv rest with
    | none => (d, "bad-op")
    | some e =>
      match d.ev e with
      | some d' => (d', "ok")
      | none => (d, s!"rejected {d.summary}")
  | "reply" :: rest =>
    match kvNat rest "cap", rest.getLast?.bind Hex.decode with
    | some cap, some bs => d.reply bs cap
    | _, _ => (d, "bad-op")
  | ["results"] => (d, d.results)
  | ["quiesce"] =>
    let d' := d.quiesce 100000
    (d', d'.summary)
  | ["summary"] => (d, d.summary)
  | ["enabled"] => (d, toString (repr (enabled d.fx d.cap d.st)))
  | _ => (d, "bad-op")

end PubModel.Sni
