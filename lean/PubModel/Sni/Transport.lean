/-
Model of sniproxy's RPC client transport (transport.go, call_exchange.go,
transport_call.go) as a transition system of atomic steps, shared by C03 and C04.

Goroutines: any number of callers (`tr.call` → `asyncCall` → wait), the serve
loop (owns the pending table and the id counter), the reader (`serveRead` /
`handleMessage`).  Every blocking point of every goroutine is a state; every
`select` arm is a step constructor, so all interleavings the Go runtime can
produce at the granularity of channel operations are paths of `Step`.

`fx` selects the variant: `true` is the repaired tree (callers and reader also
select on `serveDone`, a send error is reported, a mistyped reply fails its
call); `false` is the pinned tree.  Which variant the current source is, is a
regenerated fact (`Gen.Transport`).
-/
namespace PubModel.Sni

/-- result of a call as its caller sees it -/
inductive Res
  | ok (frame : Nat)      -- completed with the decoded body of frame number `frame`
  | okNoReply             -- completed "successfully" without any reply (pinned-tree defect)
  | err (kind : Nat)      -- 1 already-shutdown, 2 send error, 3 EOF sweep, 4 body decode error, 5 mistyped reply, 6 context done
  deriving DecidableEq, Repr

/-- where a caller goroutine is -/
inductive CS
  | idle                  -- has not called yet
  | checked               -- passed the shutdown check in asyncCall, about to enqueue
  | queued                -- its exchange is in `tr.calls`; waiting in `call`
  | pending (id : Nat)    -- sent; in the pending table
  | fetched (id : Nat)    -- the reader took it out of the table and is decoding
  | done (r : Res)        -- `call` returned
  deriving DecidableEq, Repr

structure Caller where
  typ : Nat
  isShutdown : Bool := false
  cancellable : Bool := false     -- the call's context can end (deadline or cancellation); tunnel operations use context.TODO
  st : CS := .idle
  assigned : Option Nat := none   -- call id given by the serve loop (history variable)
  deriving DecidableEq, Repr

/-- a reply frame with a parseable header, errcode 0, not a shutdown hint -/
structure Frame where
  id : Nat
  typ : Nat
  bodyOk : Bool
  seq : Nat               -- arrival number (history variable)
  deriving DecidableEq, Repr

inductive RS
  | idle                              -- in NextReader
  | wantFetch (f : Frame)             -- fetch request sent, waiting for the answer
  | holding (i : Nat) (f : Frame)     -- got exchange of caller i, decoding
  | dead                              -- serveRead returned
  deriving DecidableEq, Repr

inductive SS
  | running | exiting | done
  deriving DecidableEq, Repr

structure St where
  callers : List Caller
  queue : List Nat := []
  pending : List (Nat × Nat) := []    -- (call id, caller index)
  nextId : Nat := 0
  shutdownSignal : Bool := false
  shutdownCalled : Bool := false
  serve : SS := .running
  reader : RS := .idle
  connAlive : Bool := true
  log : List Frame := []              -- every frame that reached the fetch (history variable)
  deriving Repr

def St.setSt (s : St) (i : Nat) (f : Caller → Caller) : St :=
  { s with callers := s.callers.modify i f }

/-- update a caller only if it is still waiting where the code expects it -/
def whenSt (p : CS → Bool) (g : Caller → Caller) (c : Caller) : Caller :=
  if p c.st then g c else c

def isWaiting : CS → Bool
  | .queued | .pending _ | .fetched _ => true
  | _ => false

def sweep (pend : List (Nat × Nat)) (cs : List Caller) : List Caller :=
  pend.foldl (fun cs p => cs.modify p.2
    (whenSt (fun st => st == .pending p.1) (fun c => { c with st := .done (.err 3) }))) cs

/-- serve loop answers a fetch for frame `f`: look-up, removal, hand-off -/
def St.afterFetch (s : St) (f : Frame) : St :=
  match s.pending.lookup f.id with
  | some i =>
    { s.setSt i (whenSt (· == .pending f.id) fun c => { c with st := .fetched f.id })
      with pending := s.pending.filter (fun p => p.1 != f.id), reader := .holding i f }
  | none => { s with reader := .idle }

/-- reader finishes frame `f` for the exchange of caller `i`: type check, body decode, `done()` -/
def St.afterComplete (s : St) (fx : Bool) (i : Nat) (f : Frame) : St :=
  let c? := s.callers[i]?
  let typ := (c?.map (·.typ)).getD 0
  let isSd := (c?.map (·.isShutdown)).getD false
  if f.typ ≠ typ then
    (if fx then { s.setSt i (whenSt (· == .fetched f.id) fun c => { c with st := .done (.err 5) })
                  with reader := .idle }
     else { s with reader := .idle })
  else if f.bodyOk then
    { s.setSt i (whenSt (· == .fetched f.id) fun c => { c with st := .done (.ok f.seq) })
      with reader := if isSd then .dead else .idle }
  else
    { s.setSt i (whenSt (· == .fetched f.id) fun c => { c with st := .done (.err 4) })
      with reader := .idle }

/-- One atomic step.  `cap` is the capacity of `tr.calls`. -/
inductive Step (fx : Bool) (cap : Nat) : St → St → Prop
  /-- asyncCall: shutdown check (a shutdown call raises the signal, once) -/
  | check (s : St) (i : Nat) (c : Caller) (h : s.callers[i]? = some c) (hs : c.st = .idle) :
      Step fx cap s
        (if s.shutdownSignal then s.setSt i (fun c => { c with st := .done (.err 1) })
         else { s.setSt i (fun c => { c with st := .checked }) with
                shutdownSignal := s.shutdownSignal || c.isShutdown })
  /-- asyncCall: `tr.calls <- ex` -/
  | enqueue (s : St) (i : Nat) (c : Caller) (h : s.callers[i]? = some c) (hs : c.st = .checked)
      (hq : s.queue.length < cap) :
      Step fx cap s { s.setSt i (fun c => { c with st := .queued }) with queue := s.queue ++ [i] }
  /-- asyncCall (repaired): `<-tr.serveDone` -/
  | enqueueAbort (s : St) (i : Nat) (c : Caller) (h : s.callers[i]? = some c) (hs : c.st = .checked)
      (hfx : fx = true) (hd : s.serve = .done) :
      Step fx cap s (s.setSt i (fun c => { c with st := .done (.err 1) }))
  /-- serve: `c := <-tr.calls`, id assigned, request written -/
  | take (s : St) (i : Nat) (q : List Nat) (hr : s.serve = .running) (hq : s.queue = i :: q) :
      Step fx cap s
        (if s.shutdownCalled then
          { s.setSt i (whenSt (· == .queued) fun c => { c with st := .done (.err 1), assigned := some s.nextId })
            with queue := q, nextId := s.nextId + 1 }
         else
          { s.setSt i (whenSt (· == .queued) fun c => { c with st := .pending s.nextId, assigned := some s.nextId })
            with queue := q, nextId := s.nextId + 1, pending := (s.nextId, i) :: s.pending,
                 shutdownCalled := (s.callers[i]?.map (·.isShutdown)).getD false })
  /-- serve: the write fails; the loop exits -/
  | takeSendFail (s : St) (i : Nat) (q : List Nat) (hr : s.serve = .running) (hq : s.queue = i :: q)
      (hn : s.shutdownCalled = false) :
      Step fx cap s
        { s.setSt i (whenSt (· == .queued) fun c =>
            { c with st := .done (if fx then .err 2 else .okNoReply), assigned := some s.nextId })
          with queue := q, nextId := s.nextId + 1, serve := .exiting }
  /-- reader: a reply frame arrived; fetch request handed to the serve loop -/
  | frameArrive (s : St) (id typ : Nat) (ok : Bool) (hr : s.reader = .idle) (ha : s.connAlive = true) :
      Step fx cap s { s with reader := .wantFetch ⟨id, typ, ok, s.log.length⟩,
                             log := s.log ++ [⟨id, typ, ok, s.log.length⟩] }
  /-- serve: `fetch := <-tr.pendingFetch`, look-up, hand-off -/
  | fetchServe (s : St) (f : Frame) (hr : s.serve = .running) (hw : s.reader = .wantFetch f) :
      Step fx cap s (s.afterFetch f)
  /-- reader (repaired): gives up the fetch when the serve loop is gone -/
  | fetchAbort (s : St) (f : Frame) (hfx : fx = true) (hd : s.serve = .done) (hw : s.reader = .wantFetch f) :
      Step fx cap s { s with reader := .dead }
  /-- reader: type check, body decode, `ex.done()` -/
  | complete (s : St) (i : Nat) (f : Frame) (hh : s.reader = .holding i f) :
      Step fx cap s (s.afterComplete fx i f)
  /-- reader: NextReader fails once the connection is gone -/
  | readerDie (s : St) (hr : s.reader = .idle) (hc : s.connAlive = false) :
      Step fx cap s { s with reader := .dead }
  /-- reader: a frame with a non-zero errcode or an unknown websocket message type is fatal -/
  | readerFatal (s : St) (hr : s.reader = .idle) :
      Step fx cap s { s with reader := .dead }
  /-- serve: `<-readErr` -/
  | serveReadErr (s : St) (hr : s.serve = .running) (hd : s.reader = .dead) :
      Step fx cap s { s with serve := .exiting }
  /-- serve: deferred sweep of the pending table, then `close(serveDone)` -/
  | serveExit (s : St) (he : s.serve = .exiting) :
      Step fx cap s { s with callers := sweep s.pending s.callers, pending := [], serve := .done }
  /-- call (repaired): `<-tr.serveDone` while waiting -/
  | callAbort (s : St) (i : Nat) (c : Caller) (h : s.callers[i]? = some c) (hw : isWaiting c.st = true)
      (hfx : fx = true) (hd : s.serve = .done) :
      Step fx cap s (s.setSt i (fun c => { c with st := .done (.err 1) }))
  /-- asyncCall / call: `<-ctx.Done()` — a caller whose context ends stops waiting (before the enqueue or after it);
      whatever the serve loop and the reader still hold for it is dealt with by their guards -/
  | giveUp (s : St) (i : Nat) (c : Caller) (h : s.callers[i]? = some c)
      (hw : c.st = .checked ∨ isWaiting c.st = true) (hctx : c.cancellable = true) :
      Step fx cap s (s.setSt i (fun c => { c with st := .done (.err 6) }))
  /-- the control connection is lost -/
  | sever (s : St) (h : s.connAlive = true) :
      Step fx cap s { s with connAlive := false }

inductive Reach (fx : Bool) (cap : Nat) (s0 : St) : St → Prop
  | refl : Reach fx cap s0 s0
  | tail {s s' : St} : Reach fx cap s0 s → Step fx cap s s' → Reach fx cap s0 s'

def Quiescent (fx : Bool) (cap : Nat) (s : St) : Prop := ∀ s', ¬ Step fx cap s s'

/-- fresh transport with the given callers, all idle -/
def init (cs : List Caller) : St := { callers := cs }

end PubModel.Sni
