/-
Executable form of the transport model: `apply ev s` performs the step named by
`ev` if it is enabled.  `apply_sound` shows that whatever the driver executes is
a `Step` of the relation the theorems are about.
-/
import PubModel.Sni.Transport

namespace PubModel.Sni

inductive Ev
  | check (i : Nat)
  | enqueue (i : Nat)
  | enqueueAbort (i : Nat)
  | take
  | takeSendFail
  | frameArrive (id typ : Nat) (ok : Bool)
  | fetchServe
  | fetchAbort
  | complete
  | readerDie
  | readerFatal
  | serveReadErr
  | serveExit
  | callAbort (i : Nat)
  | giveUp (i : Nat)
  | sever
  deriving Repr, DecidableEq

def apply (fx : Bool) (cap : Nat) (s : St) : Ev → Option St
  | .check i =>
    match s.callers[i]? with
    | some c =>
      if c.st = .idle then
        some (if s.shutdownSignal then s.setSt i (fun c => { c with st := .done (.err 1) })
              else { s.setSt i (fun c => { c with st := .checked }) with
                     shutdownSignal := s.shutdownSignal || c.isShutdown })
      else none
    | none => none
  | .enqueue i =>
    match s.callers[i]? with
    | some c =>
      if c.st = .checked ∧ s.queue.length < cap then
        some { s.setSt i (fun c => { c with st := .queued }) with queue := s.queue ++ [i] }
      else none
    | none => none
  | .enqueueAbort i =>
    match s.callers[i]? with
    | some c =>
      if c.st = .checked ∧ fx = true ∧ s.serve = .done then
        some (s.setSt i (fun c => { c with st := .done (.err 1) }))
      else none
    | none => none
  | .take =>
    match s.queue with
    | i :: q =>
      if s.serve = .running then
        some (if s.shutdownCalled then
          { s.setSt i (whenSt (· == .queued) fun c => { c with st := .done (.err 1), assigned := some s.nextId })
            with queue := q, nextId := s.nextId + 1 }
         else
          { s.setSt i (whenSt (· == .queued) fun c => { c with st := .pending s.nextId, assigned := some s.nextId })
            with queue := q, nextId := s.nextId + 1, pending := (s.nextId, i) :: s.pending,
                 shutdownCalled := (s.callers[i]?.map (·.isShutdown)).getD false })
      else none
    | [] => none
  | .takeSendFail =>
    match s.queue with
    | i :: q =>
      if s.serve = .running ∧ s.shutdownCalled = false then
        some { s.setSt i (whenSt (· == .queued) fun c =>
                 { c with st := .done (if fx then .err 2 else .okNoReply), assigned := some s.nextId })
               with queue := q, nextId := s.nextId + 1, serve := .exiting }
      else none
    | [] => none
  | .frameArrive id typ ok =>
    if s.reader = .idle ∧ s.connAlive = true then
      some { s with reader := .wantFetch ⟨id, typ, ok, s.log.length⟩,
                    log := s.log ++ [⟨id, typ, ok, s.log.length⟩] }
    else none
  | .fetchServe =>
    match s.reader with
    | .wantFetch f => if s.serve = .running then some (s.afterFetch f) else none
    | _ => none
  | .fetchAbort =>
    match s.reader with
    | .wantFetch _ => if fx = true ∧ s.serve = .done then some { s with reader := .dead } else none
    | _ => none
  | .complete =>
    match s.reader with
    | .holding i f => some (s.afterComplete fx i f)
    | _ => none
  | .readerDie => if s.reader = .idle ∧ s.connAlive = false then some { s with reader := .dead } else none
  | .readerFatal => if s.reader = .idle then some { s with reader := .dead } else none
  | .serveReadErr =>
    if s.serve = .running ∧ s.reader = .dead then some { s with serve := .exiting } else none
  | .serveExit =>
    if s.serve = .exiting then
      some { s with callers := sweep s.pending s.callers, pending := [], serve := .done }
    else none
  | .callAbort i =>
    match s.callers[i]? with
    | some c =>
      if isWaiting c.st = true ∧ fx = true ∧ s.serve = .done then
        some (s.setSt i (fun c => { c with st := .done (.err 1) }))
      else none
    | none => none
  | .giveUp i =>
    match s.callers[i]? with
    | some c =>
      if (c.st = .checked ∨ isWaiting c.st = true) ∧ c.cancellable = true then
        some (s.setSt i (fun c => { c with st := .done (.err 6) }))
      else none
    | none => none
  | .sever => if s.connAlive = true then some { s with connAlive := false } else none

theorem apply_sound (fx : Bool) (cap : Nat) (s s' : St) (ev : Ev) (h : apply fx cap s ev = some s') :
    Step fx cap s s' := by
  cases ev with
  | check i =>
    simp only [apply] at h
    split at h
    · rename_i c hc
      split at h
      · rename_i hs; injection h with h; subst h; exact Step.check s i c hc hs
      · cases h
    · cases h
  | enqueue i =>
    simp only [apply] at h
    split at h
    · rename_i c hc
      split at h
      · rename_i hs; injection h with h; subst h; exact Step.enqueue s i c hc hs.1 hs.2
      · cases h
    · cases h
  | enqueueAbort i =>
    simp only [apply] at h
    split at h
    · rename_i c hc
      split at h
      · rename_i hs; injection h with h; subst h; exact Step.enqueueAbort s i c hc hs.1 hs.2.1 hs.2.2
      · cases h
    · cases h
  | take =>
    simp only [apply] at h
    split at h
    · rename_i i q hq
      split at h
      · rename_i hr; injection h with h; subst h; exact Step.take s i q hr hq
      · cases h
    · cases h
  | takeSendFail =>
    simp only [apply] at h
    split at h
    · rename_i i q hq
      split at h
      · rename_i hr; injection h with h; subst h; exact Step.takeSendFail s i q hr.1 hq hr.2
      · cases h
    · cases h
  | frameArrive id typ ok =>
    simp only [apply] at h
    split at h
    · rename_i hr; injection h with h; subst h; exact Step.frameArrive s id typ ok hr.1 hr.2
    · cases h
  | fetchServe =>
    simp only [apply] at h
    split at h
    · rename_i f hw
      split at h
      · rename_i hr; injection h with h; subst h; exact Step.fetchServe s f hr hw
      · cases h
    · cases h
  | fetchAbort =>
    simp only [apply] at h
    split at h
    · rename_i f hw
      split at h
      · rename_i hr; injection h with h; subst h; exact Step.fetchAbort s f hr.1 hr.2 hw
      · cases h
    · cases h
  | complete =>
    simp only [apply] at h
    split at h
    · rename_i i f hh; injection h with h; subst h; exact Step.complete s i f hh
    · cases h
  | readerDie =>
    simp only [apply] at h
    split at h
    · rename_i hr; injection h with h; subst h; exact Step.readerDie s hr.1 hr.2
    · cases h
  | readerFatal =>
    simp only [apply] at h
    split at h
    · rename_i hr; injection h with h; subst h; exact Step.readerFatal s hr
    · cases h
  | serveReadErr =>
    simp only [apply] at h
    split at h
    · rename_i hr; injection h with h; subst h; exact Step.serveReadErr s hr.1 hr.2
    · cases h
  | serveExit =>
    simp only [apply] at h
    split at h
    · rename_i hr; injection h with h; subst h; exact Step.serveExit s hr
    · cases h
  | callAbort i =>
    simp only [apply] at h
    split at h
    · rename_i c hc
      split at h
      · rename_i hs; injection h with h; subst h; exact Step.callAbort s i c hc hs.1 hs.2.1 hs.2.2
      · cases h
    · cases h
  | giveUp i =>
    simp only [apply] at h
    split at h
    · rename_i c hc
      split at h
      · rename_i hs; injection h with h; subst h; exact Step.giveUp s i c hc hs.1 hs.2
      · cases h
    · cases h
  | sever =>
    simp only [apply] at h
    split at h
    · rename_i hr; injection h with h; subst h; exact Step.sever s hr
    · cases h

/-- all events that could possibly be enabled in `s` (for the quiescence test of the driver) -/
def candidates (s : St) : List Ev :=
  (List.range s.callers.length).flatMap (fun i => [.check i, .enqueue i, .enqueueAbort i, .callAbort i]) ++
  [.take, .takeSendFail, .fetchServe, .fetchAbort, .complete, .readerDie, .serveReadErr, .serveExit]

/-- enabled internal events (peer/fault events `frameArrive`, `readerFatal`, `sever` excluded) -/
def enabled (fx : Bool) (cap : Nat) (s : St) : List Ev :=
  (candidates s).filter (fun ev => (apply fx cap s ev).isSome)

end PubModel.Sni
