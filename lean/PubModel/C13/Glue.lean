/-
C13 — glue between the regenerated tables (`Gen.Wire`) and the generic model:
look-ups by name, the dispatch table as a function, the configuration.
Imported by the obligations and by the driver.
-/
import PubModel.C13.Model
import PubModel.Gen.Wire

namespace PubModel.C13
open PubModel.Gen

/-- two field kinds with the same wire bits -/
def wire : Fld → Fld
  | .int => .u64
  | .bytesInto => .bytes
  | .str => .bytes
  | f => f

def wireS (s : Schema) : Schema := s.map wire

def encOf (t : String) : Option Schema :=
  if t = "" then some [] else (Wire.types.lookup t).map (fun p => wireS p.1)
def decOf (t : String) : Option Schema :=
  if t = "" then some [] else (Wire.types.lookup t).map (fun p => wireS p.2)

/-- the request dispatch table as a function for `serverFrame` -/
def genReqs (t : Nat) : Option Schema :=
  match Wire.msgCodes.find? (fun p => p.2 = t) with
  | none => none
  | some (name, _) =>
    match Wire.serverReq.lookup name with
    | none => none
    | some ty => decOf ty

/-- configuration of the model that corresponds to the regenerated facts -/
def genCfg (maxAlloc intoCap : Nat) : Cfg := ⟨Wire.decoderPrealloc, maxAlloc, intoCap⟩


/-- reply layout and type code for a pending call of type `code` issued by the client -/
def genRespOf (codeName : String) : Option Schema :=
  match Wire.clientCalls.find? (fun c => c.1 = codeName) with
  | none => none
  | some (_, _, resp) => decOf resp

def codeOf (name : String) : Option Nat := Wire.msgCodes.lookup name
def nameOfCode (c : Nat) : Option String := (Wire.msgCodes.find? (fun p => p.2 = c)).map (·.1)

end PubModel.C13
