import PubModel.C13.Lemmas2

namespace PubModel.C13

/-! ### arbitrary input: no panic, bounded allocation, sticky failure -/

/-- the quantity that never grows: bytes allocated so far plus bytes still unread -/
def DS.budget (d : DS) : Nat := d.alloc + d.inp.length

structure Safe (d d' : DS) : Prop where
  panicked : d'.panicked = d.panicked
  budget : d'.budget ≤ d.budget
  sticky : d.failed = true → d'.failed = true
  /-- consumed bytes and remaining bytes always add up -/
  count : d'.n + d'.inp.length = d.n + d.inp.length

theorem Safe.refl (d : DS) : Safe d d := ⟨rfl, Nat.le_refl _, id, rfl⟩

theorem Safe.trans {a b c : DS} (h1 : Safe a b) (h2 : Safe b c) : Safe a c :=
  ⟨h2.panicked.trans h1.panicked, Nat.le_trans h2.budget h1.budget,
   fun h => h2.sticky (h1.sticky h), h2.count.trans h1.count⟩

theorem read_safe (d : DS) (k : Nat) : Safe d (d.read k).1 := by
  unfold DS.read
  split
  · exact Safe.refl d
  · split
    · refine ⟨rfl, ?_, ?_, ?_⟩ <;> simp [DS.budget] <;> omega
    · refine ⟨rfl, ?_, ?_, ?_⟩ <;> simp [DS.budget]

theorem decU8_safe (d : DS) : Safe d (decU8 d).1 := by
  simpa [decU8] using read_safe d 1

theorem decU64_safe (d : DS) : Safe d (decU64 d).1 := by
  unfold decU64
  split
  · exact Safe.refl d
  · simpa using read_safe d 8

/-- reading `v` bytes after charging `min v remaining` keeps the budget -/
theorem read_charged_safe (d : DS) (v : Nat) (hf : d.failed = false) :
    Safe d ({ d with alloc := d.alloc + min v d.inp.length }.read v).1 := by
  unfold DS.read
  simp only [hf, Bool.false_eq_true, if_false]
  split
  · rename_i h
    refine ⟨rfl, ?_, ?_, ?_⟩ <;> simp [DS.budget, hf] <;> omega
  · rename_i h
    refine ⟨rfl, ?_, ?_, ?_⟩ <;> simp [DS.budget, hf] <;> omega

theorem decBytes_safe (cfg : Cfg) (hc : cfg.prealloc = false) (cap : Nat) (d : DS) :
    Safe d (decBytes cfg cap d).1 := by
  unfold decBytes
  have h1 := decU64_safe d
  generalize decU64 d = r at h1
  obtain ⟨d1, v⟩ := r
  simp only
  split
  · exact h1
  · split
    · exact h1
    · rename_i hf
      split
      · exact h1.trans (read_safe d1 v)
      · simp only [hc, Bool.false_eq_true, if_false]
        exact h1.trans (read_charged_safe d1 v (by simpa using hf))

theorem decFld_safe (cfg : Cfg) (hc : cfg.prealloc = false) (f : Fld) (d : DS) :
    Safe d (decFld cfg f d).1 := by
  cases f <;> simp only [decFld]
  · exact decU8_safe d
  · exact decU64_safe d
  · exact decU64_safe d
  · exact decBytes_safe cfg hc 0 d
  · exact decBytes_safe cfg hc _ d
  · exact decBytes_safe cfg hc 0 d
  · unfold decErr
    have h1 := decU64_safe d
    generalize decU64 d = r at h1
    obtain ⟨d1, c⟩ := r
    simp only
    split
    · exact h1
    · exact h1.trans (decBytes_safe cfg hc 0 d1)

theorem run_safe (cfg : Cfg) (hc : cfg.prealloc = false) (s : Schema) (d : DS) :
    Safe d (run cfg s d).1 := by
  induction s generalizing d with
  | nil => exact Safe.refl d
  | cons f fs ih =>
    simp only [run]
    split
    · exact Safe.refl d
    · exact (decFld_safe cfg hc f d).trans (ih _)

/-! ### a frame cut short is reported as truncated -/

theorem read_short (d : DS) (k : Nat) (h : d.inp.length < k) : (d.read k).1.failed = true := by
  unfold DS.read
  split
  · rename_i hf; simpa using hf
  · split
    · omega
    · rfl

theorem decU64_short (d : DS) (h : d.inp.length < 8) : (decU64 d).1.failed = true := by
  unfold decU64
  split
  · rename_i hf; simpa using hf
  · exact read_short d 8 h

theorem decBytes_failed (cfg : Cfg) (hc : cfg.prealloc = false) (cap : Nat) (d : DS)
    (h : d.failed = true) : (decBytes cfg cap d).1.failed = true :=
  (decBytes_safe cfg hc cap d).sticky h

/-- `p` is a proper prefix of the encoding of a byte string: decoding fails -/
theorem decBytes_short (cfg : Cfg) (hc : cfg.prealloc = false) (cap : Nat) (b : Bytes)
    (hb : b.length < 2 ^ 63) (k : Nat) (hk : k < (encBytes b).length) (n : Nat) (pn : Bool) (al : Nat) :
    (decBytes cfg cap (DS.mk ((encBytes b).take k) n false pn al)).1.failed = true := by
  by_cases h8 : k < 8
  · -- the length prefix itself is cut
    have hlen : ((encBytes b).take k).length < 8 := by
      simp [List.length_take]; omega
    have h1 := decU64_short (DS.mk ((encBytes b).take k) n false pn al) hlen
    unfold decBytes
    generalize decU64 (DS.mk ((encBytes b).take k) n false pn al) = r at h1
    obtain ⟨d1, v⟩ := r
    simp only at h1 ⊢
    split
    · exact h1
    · simp [h1]
  · -- the body is cut
    have hk' : k - 8 < b.length := by
      simp [encBytes, leBytes_length] at hk; omega
    have htake : (encBytes b).take k = leBytes 8 b.length ++ b.take (k - 8) := by
      simp [encBytes, List.take_append, leBytes_length]
      have : List.take k (leBytes 8 b.length) = leBytes 8 b.length := by
        apply List.take_of_length_le; simp [leBytes_length]; omega
      rw [this]
    rw [htake]
    unfold decBytes
    rw [decU64_append b.length (by omega)]
    have h0 : ¬ (b.length = 0 ∨ 2 ^ 63 ≤ b.length) := by omega
    simp only [h0, if_false, Bool.false_eq_true]
    split
    · apply read_short; simp [List.length_take]; omega
    · simp only [hc, Bool.false_eq_true, if_false]
      apply read_short; simp [List.length_take]; omega

theorem decFld_short (cfg : Cfg) (hc : cfg.prealloc = false) (f : Fld) (v : Val) (h : WFv f v)
    (k : Nat) (hk : k < (encFld f v).length) (n : Nat) (pn : Bool) (al : Nat) :
    (decFld cfg f (DS.mk ((encFld f v).take k) n false pn al)).1.failed = true := by
  cases f <;> cases v <;> simp only [WFv] at h <;> try contradiction
  case u8.num x =>
    simp only [encFld, List.length_singleton] at hk
    have : k = 0 := by omega
    subst this
    simp [decFld, decU8, DS.read, encFld]
  case u64.num x =>
    simp only [decFld, encFld]
    apply decU64_short
    simp [encFld, leBytes_length] at hk
    simp [List.length_take, leBytes_length]; omega
  case int.num x =>
    simp only [decFld, encFld]
    apply decU64_short
    simp [encFld, leBytes_length] at hk
    simp [List.length_take, leBytes_length]; omega
  case bytes.bs b => exact decBytes_short cfg hc 0 b h k hk n pn al
  case bytesInto.bs b => exact decBytes_short cfg hc _ b h k hk n pn al
  case str.bs b => exact decBytes_short cfg hc 0 b h k hk n pn al
  case rerr.err c m =>
    obtain ⟨h1, h2, h3⟩ := h
    simp only [decFld, decErr]
    by_cases hc0 : c = 0
    · subst hc0
      simp only [encFld, if_true] at hk ⊢
      have hs := decU64_short (DS.mk ((leBytes 8 0).take k) n false pn al)
        (by simp [leBytes_length] at hk; simp [List.length_take, leBytes_length]; omega)
      generalize decU64 (DS.mk ((leBytes 8 0).take k) n false pn al) = r at hs
      obtain ⟨d1, c'⟩ := r
      simp only at hs ⊢
      split
      · exact hs
      · exact decBytes_failed cfg hc 0 d1 hs
    · simp only [encFld, hc0, if_false] at hk ⊢
      by_cases h8 : k < 8
      · have hs := decU64_short (DS.mk ((leBytes 8 c ++ encBytes m).take k) n false pn al)
          (by simp [List.length_take]; omega)
        generalize decU64 (DS.mk ((leBytes 8 c ++ encBytes m).take k) n false pn al) = r at hs
        obtain ⟨d1, c'⟩ := r
        simp only at hs ⊢
        split
        · exact hs
        · exact decBytes_failed cfg hc 0 d1 hs
      · have htake : (leBytes 8 c ++ encBytes m).take k = leBytes 8 c ++ (encBytes m).take (k - 8) := by
          simp [List.take_append, leBytes_length]
          have : List.take k (leBytes 8 c) = leBytes 8 c := by
            apply List.take_of_length_le; simp [leBytes_length]; omega
          rw [this]
        rw [htake, decU64_append c h1]
        simp only [hc0, if_false]
        apply decBytes_short cfg hc 0 m h2
        simp [leBytes_length] at hk
        omega

theorem run_failed (cfg : Cfg) (hc : cfg.prealloc = false) (s : Schema) (d : DS)
    (h : d.failed = true) : (run cfg s d).1.failed = true :=
  (run_safe cfg hc s d).sticky h

theorem run_short (cfg : Cfg) (hc : cfg.prealloc = false) (s : Schema) (vs : List Val)
    (h : WF s vs) (k : Nat) (hk : k < (encode s vs).length) (n : Nat) (al : Nat) :
    (run cfg s (DS.mk ((encode s vs).take k) n false false al)).1.failed = true := by
  induction s generalizing vs k n al with
  | nil =>
    cases vs <;> simp [encode] at hk
  | cons f fs ih =>
    cases vs with
    | nil => simp [WF] at h
    | cons v vs =>
      obtain ⟨hv, hvs⟩ := h
      simp only [encode, List.length_append] at hk
      simp only [run, encode, Bool.false_eq_true, if_false]
      by_cases hlt : k < (encFld f v).length
      · have htake : (encFld f v ++ encode fs vs).take k = (encFld f v).take k := by
          rw [List.take_append_of_le_length (by omega)]
        rw [htake]
        have hf := decFld_short cfg hc f v hv k hlt n false al
        generalize decFld cfg f (DS.mk ((encFld f v).take k) n false false al) = r at hf
        obtain ⟨d1, v1⟩ := r
        simp only at hf ⊢
        exact run_failed cfg hc fs d1 hf
      · have htake : (encFld f v ++ encode fs vs).take k =
            encFld f v ++ (encode fs vs).take (k - (encFld f v).length) := by
          rw [List.take_append]
          have : List.take k (encFld f v) = encFld f v := List.take_of_length_le (by omega)
          rw [this]
        rw [htake, decFld_append cfg hc f v hv]
        simp only
        exact ih vs hvs _ (by omega) _ _

end PubModel.C13
