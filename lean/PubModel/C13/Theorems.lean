/-
C13 — property theorems.  Statement file only; helper lemmas are in Lemmas*.lean.

Property: every message decodes to exactly what was encoded and consumes
exactly the bytes produced; layouts and type codes stay as deployed; decoding
any byte sequence never panics, never allocates out of proportion to the
bytes received, and reports truncation or trailing bytes as an error.
-/
import PubModel.C13.Lemmas3
import PubModel.C13.Obligations

namespace PubModel.C13

/-- **Round trip, with arbitrary bytes following**: the decoder returns the
    encoded values, consumes exactly the encoding, and leaves the rest. -/
theorem decode_encode (cfg : Cfg) (hc : cfg.prealloc = false) (s : Schema) (vs : List Val)
    (h : WF s vs) (tail : Bytes) :
    run cfg s { inp := encode s vs ++ tail } =
      ({ inp := tail, n := (encode s vs).length, alloc := msgAlloc cfg s vs }, vs) := by
  have := run_append cfg hc s vs h tail 0 0
  simpa using this

/-- **Exact frames decode exactly.** -/
theorem decodeMsg_exact (cfg : Cfg) (hc : cfg.prealloc = false) (s : Schema) (vs : List Val)
    (h : WF s vs) :
    decodeMsg cfg s (encode s vs) = ⟨.ok, vs, (encode s vs).length, msgAlloc cfg s vs⟩ := by
  have := decode_encode cfg hc s vs h []
  simp only [List.append_nil] at this
  simp [decodeMsg, this]

/-- **Trailing bytes are an error** that counts them. -/
theorem decodeMsg_tail (cfg : Cfg) (hc : cfg.prealloc = false) (s : Schema) (vs : List Val)
    (h : WF s vs) (tail : Bytes) (ht : tail ≠ []) :
    (decodeMsg cfg s (encode s vs ++ tail)).outcome = .tail tail.length := by
  have := decode_encode cfg hc s vs h tail
  simp [decodeMsg, this, ht]

/-- **Every proper prefix of a frame is reported as truncated.** -/
theorem decodeMsg_prefix (cfg : Cfg) (hc : cfg.prealloc = false) (s : Schema) (vs : List Val)
    (h : WF s vs) (k : Nat) (hk : k < (encode s vs).length) :
    (decodeMsg cfg s ((encode s vs).take k)).outcome = .truncated := by
  have hf := run_short cfg hc s vs h k hk 0 0
  have hs := run_safe cfg hc s (DS.mk ((encode s vs).take k) 0 false false 0)
  have hp := hs.panicked
  unfold decodeMsg
  generalize run cfg s { inp := (encode s vs).take k } = r at hf hp
  obtain ⟨d, vs'⟩ := r
  simp only at hf hp ⊢
  simp [hf, hp]

/-- **No byte sequence makes the decoder panic**, whatever lengths it announces. -/
theorem run_no_panic (cfg : Cfg) (hc : cfg.prealloc = false) (s : Schema) (bs : Bytes) :
    (decodeMsg cfg s bs).outcome ≠ .panic := by
  have hs := run_safe cfg hc s { inp := bs }
  have hp := hs.panicked
  unfold decodeMsg
  generalize run cfg s { inp := bs } = r at hp
  obtain ⟨d, vs'⟩ := r
  simp only at hp ⊢
  simp only [hp, Bool.false_eq_true, if_false]
  repeat' split
  all_goals simp

/-- **Allocation is bounded by the bytes actually received**, for every schema
    and every input (the model charges each byte materialised by the decoder). -/
theorem run_alloc_bound (cfg : Cfg) (hc : cfg.prealloc = false) (s : Schema) (bs : Bytes) :
    (decodeMsg cfg s bs).alloc ≤ bs.length := by
  have hs := run_safe cfg hc s { inp := bs }
  have hb := hs.budget
  unfold decodeMsg
  generalize run cfg s { inp := bs } = r at hb
  obtain ⟨d, vs'⟩ := r
  simp only [DS.budget] at hb
  simp only at ⊢
  repeat' split
  all_goals (simp at hb ⊢; omega)

/-- consumed + unread = frame length: the decoder's byte count is exact on every input -/
theorem run_count_exact (cfg : Cfg) (hc : cfg.prealloc = false) (s : Schema) (bs : Bytes) :
    (run cfg s { inp := bs }).1.n + (run cfg s { inp := bs }).1.inp.length = bs.length := by
  have := (run_safe cfg hc s { inp := bs }).count
  simpa using this

/-- **Server frame entry (`startCall`) is total and bounded** for every dispatch table. -/
theorem server_frame_total (cfg : Cfg) (hc : cfg.prealloc = false) (reqs : Nat → Option Schema)
    (bs : Bytes) :
    (serverFrame cfg reqs bs).1 ≠ .panic ∧ (serverFrame cfg reqs bs).2 ≤ bs.length := by
  unfold serverFrame
  simp only
  have h1 := decU64_safe { inp := bs }
  generalize decU64 { inp := bs } = r1 at h1
  obtain ⟨d1, id⟩ := r1
  have h2 := decU8_safe d1
  generalize decU8 d1 = r2 at h2
  obtain ⟨d2, t⟩ := r2
  simp only at h1 h2 ⊢
  have hlen : d2.inp.length ≤ bs.length := by
    have a := h1.count; have b := h2.count
    simp at a b
    omega
  split
  · simp
  · split
    · simp
    · rename_i s _
      have hp := run_no_panic cfg hc s d2.inp
      have ha := run_alloc_bound cfg hc s d2.inp
      split <;> simp_all <;> omega

/-- **`handleRead` with the clamp never panics and allocates at most the clamp.** -/
theorem read_alloc_bounded (c maxAlloc v : Nat) :
    ∃ a, readAlloc (some c) maxAlloc v = some a ∧ a ≤ c := by
  unfold readAlloc
  simp only
  split
  · exact ⟨0, rfl, Nat.zero_le _⟩
  · exact ⟨min v c, rfl, Nat.min_le_right _ _⟩

/-- **Client frame entry (`handleMessage`) never panics**, whatever the pending table. -/
theorem client_frame_total (cfg : Cfg) (hc : cfg.prealloc = false) (hint : Nat)
    (pend : Nat → Option (Nat × Schema)) (bs : Bytes) :
    clientFrame cfg hint pend bs ≠ .panic := by
  unfold clientFrame
  simp only
  have h1 := decU64_safe { inp := bs }
  generalize decU64 { inp := bs } = r1 at h1
  obtain ⟨d1, id⟩ := r1
  have h2 := decU8_safe d1
  generalize decU8 d1 = r2 at h2
  obtain ⟨d2, t⟩ := r2
  have h3 := decU8_safe d2
  generalize decU8 d2 = r3 at h3
  obtain ⟨d3, e⟩ := r3
  simp only at h1 h2 h3 ⊢
  have hp3 : d3.panicked = false := by
    have a := h1.panicked; have b := h2.panicked; have c := h3.panicked
    simp at a; simp [a] at b; simp [b] at c; exact c
  split
  · simp
  split
  · simp
  split
  · simp
  split
  · simp
  · rename_i typ s hp
    split
    · simp
    · have hpan := (run_safe cfg hc s d3).panicked
      generalize run cfg s d3 = r at hpan
      obtain ⟨d, vs⟩ := r
      simp only at hpan ⊢
      simp only [hpan, hp3, Bool.false_eq_true, if_false]
      split <;> simp

/-- a reply frame can only complete the call whose id and type it carries -/
theorem client_frame_completes_own (cfg : Cfg) (hint : Nat)
    (pend : Nat → Option (Nat × Schema)) (bs : Bytes) (id : Nat) (vs : List Val)
    (h : clientFrame cfg hint pend bs = .complete id vs) :
    ∃ typ s, pend id = some (typ, s) ∧
      (decU64 { inp := bs }).2 = id ∧ (decU8 (decU64 { inp := bs }).1).2 = typ := by
  unfold clientFrame at h
  simp only at h
  split at h
  · contradiction
  split at h
  · contradiction
  split at h
  · contradiction
  split at h
  · contradiction
  · rename_i typ s hpend
    split at h
    · contradiction
    · rename_i hty
      generalize run cfg s (decU8 (decU8 (decU64 { inp := bs }).1).1).1 = r at h
      obtain ⟨d, vs'⟩ := r
      simp only at h
      split at h
      · contradiction
      split at h
      · contradiction
      · injection h with h1 h2
        subst h1
        refine ⟨typ, s, hpend, rfl, ?_⟩
        simp at hty
        exact hty.symm

/-! ### the pinned tree's allocation strategy violates the property (kept as a theorem) -/

/-- With `make([]byte, n)` before reading (`prealloc = true`), an 8-byte body
    announcing 2^62 bytes panics (`makeslice: len out of range`). -/
theorem prealloc_panics :
    (decodeMsg ⟨true, 2^47, 0⟩ [.bytes] (leBytes 8 (2^62))).outcome = .panic := by
  decide

/-- … and an announced length below the limit allocates it all for 8 received bytes. -/
theorem prealloc_unbounded (n : Nat) (h0 : 0 < n) (h1 : n < 2^40) :
    (decodeMsg ⟨true, 2^47, 0⟩ [.bytes] (leBytes 8 n)).alloc = n := by
  have hd := decU64_append n (by omega) [] 0 false 0
  simp only [List.append_nil] at hd
  have h63 : ¬ (2^63 ≤ n) := by omega
  have h47 : ¬ (2^47 < n) := by omega
  have hn0 : n ≠ 0 := by omega
  simp [decodeMsg, run, decFld, decBytes, hd, h63, h47, hn0, DS.read]
  repeat' split
  all_goals simp_all

/-- without the clamp, a negative read size panics in `handleRead` -/
theorem read_unclamped_panics : readAlloc none (2^47) (2^64 - 1) = none := by decide

/-! ### the regenerated instance meets the hypotheses -/

/-- The configuration read from the current source is the incremental one, so
    the generic theorems apply to the code as it is now. -/
theorem gen_cfg_ok (maxAlloc intoCap : Nat) : (genCfg maxAlloc intoCap).prealloc = false :=
  gen_decoder_incremental

/-- Round trip for every struct of the current source, through its own
    encode layout and its own decode layout. -/
theorem gen_roundtrip (maxAlloc intoCap : Nat) :
    ∀ t ∈ Gen.Wire.types, ∀ vs, WF (wireS t.2.1) vs →
      decodeMsg (genCfg maxAlloc intoCap) (wireS t.2.2) (encode (wireS t.2.1) vs)
        = ⟨.ok, vs, (encode (wireS t.2.1) vs).length, msgAlloc (genCfg maxAlloc intoCap) (wireS t.2.1) vs⟩ := by
  intro t ht vs hwf
  rw [← gen_enc_eq_dec t ht]
  exact decodeMsg_exact _ (gen_cfg_ok _ _) _ _ hwf

/-! ### non-vacuity: concrete frames -/

/-- golden bytes: dialSide2Request{session 7, key 9, token "t", addr "1.2.3.4:5"} -/
example : encode [.u64, .u64, .bytes, .bytes]
    [.num 7, .num 9, .bs [0x74], .bs [0x31,0x2e,0x32,0x2e,0x33,0x2e,0x34,0x3a,0x35]] =
    [7,0,0,0,0,0,0,0, 9,0,0,0,0,0,0,0, 1,0,0,0,0,0,0,0, 0x74,
     9,0,0,0,0,0,0,0, 0x31,0x2e,0x32,0x2e,0x33,0x2e,0x34,0x3a,0x35] := by decide

example : WF [.u64, .rerr] [.num 3, .err 4 [0x6e, 0x6f]] := by
  simp [WF, WFv]

example : (decodeMsg ⟨false, 2^47, 0⟩ [.u64, .rerr] (encode [.u64, .rerr] [.num 3, .err 4 [0x6e, 0x6f]])).outcome = .ok := by
  decide

example : (decodeMsg ⟨false, 2^47, 0⟩ [.bytes] (leBytes 8 (2^62))).outcome = .truncated := by decide

end PubModel.C13
