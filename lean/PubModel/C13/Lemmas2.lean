import PubModel.C13.Lemmas

namespace PubModel.C13

/-! ### whole fields and whole messages -/

/-- allocation for one well-formed field under the incremental reader -/
def fldAlloc (cfg : Cfg) : Fld → Val → Nat
  | .bytes, .bs b => bytesAlloc 0 b
  | .str, .bs b => bytesAlloc 0 b
  | .bytesInto, .bs b => bytesAlloc cfg.intoCap b
  | .rerr, .err c m => if c = 0 then 0 else bytesAlloc 0 m
  | _, _ => 0

theorem decFld_append (cfg : Cfg) (hc : cfg.prealloc = false) (f : Fld) (v : Val) (h : WFv f v)
    (rest : Bytes) (n : Nat) (p : Bool) (al : Nat) :
    decFld cfg f (DS.mk (encFld f v ++ rest) n false p al) =
      (DS.mk rest (n + (encFld f v).length) false p (al + fldAlloc cfg f v), v) := by
  cases f <;> cases v <;> simp only [WFv] at h <;> try contradiction
  case u8.num k =>
    simp [decFld, encFld, fldAlloc, decU8_append k h]
  case u64.num k =>
    simp [decFld, encFld, fldAlloc, decU64_append k h, leBytes_length]
  case int.num k =>
    simp [decFld, encFld, fldAlloc, decU64_append k h, leBytes_length]
  case bytes.bs b =>
    simp only [decFld, encFld, fldAlloc]
    rw [decBytes_append cfg hc _ b h]
    simp [encBytes, leBytes_length, Nat.add_assoc]
  case bytesInto.bs b =>
    simp only [decFld, encFld, fldAlloc]
    rw [decBytes_append cfg hc _ b h]
    simp [encBytes, leBytes_length, Nat.add_assoc]
  case str.bs b =>
    simp only [decFld, encFld, fldAlloc]
    rw [decBytes_append cfg hc _ b h]
    simp [encBytes, leBytes_length, Nat.add_assoc]
  case rerr.err c m =>
    obtain ⟨h1, h2, h3⟩ := h
    by_cases hc0 : c = 0
    · subst hc0
      simp [decFld, decErr, encFld, fldAlloc, decU64_append 0 (by omega), leBytes_length, h3]
    · simp only [decFld, decErr, encFld, hc0, if_false, fldAlloc, List.append_assoc]
      rw [decU64_append c h1]
      simp only [hc0, if_false]
      rw [decBytes_append cfg hc 0 m h2]
      simp [encBytes, leBytes_length, Nat.add_assoc]
      omega

theorem fldAlloc_le (cfg : Cfg) (f : Fld) (v : Val) : fldAlloc cfg f v ≤ (encFld f v).length := by
  cases f <;> cases v <;> simp [fldAlloc, encFld, bytesAlloc, encBytes] <;> (repeat' split) <;> simp <;> omega

/-- total allocation for a well-formed message -/
def msgAlloc (cfg : Cfg) : Schema → List Val → Nat
  | f :: fs, v :: vs => fldAlloc cfg f v + msgAlloc cfg fs vs
  | _, _ => 0

theorem msgAlloc_le (cfg : Cfg) (s : Schema) (vs : List Val) :
    msgAlloc cfg s vs ≤ (encode s vs).length := by
  induction s generalizing vs with
  | nil => simp [msgAlloc]
  | cons f fs ih =>
    cases vs with
    | nil => simp [msgAlloc]
    | cons v vs =>
      simp only [msgAlloc, encode, List.length_append]
      have := fldAlloc_le cfg f v
      have := ih vs
      omega

theorem run_append (cfg : Cfg) (hc : cfg.prealloc = false) (s : Schema) (vs : List Val)
    (h : WF s vs) (rest : Bytes) (n : Nat) (al : Nat) :
    run cfg s (DS.mk (encode s vs ++ rest) n false false al) =
      (DS.mk rest (n + (encode s vs).length) false false (al + msgAlloc cfg s vs), vs) := by
  induction s generalizing vs n al with
  | nil =>
    cases vs with
    | nil => simp [run, encode, msgAlloc]
    | cons v vs => simp [WF] at h
  | cons f fs ih =>
    cases vs with
    | nil => simp [WF] at h
    | cons v vs =>
      obtain ⟨hv, hvs⟩ := h
      simp only [run, encode, List.append_assoc, Bool.false_eq_true, if_false]
      rw [decFld_append cfg hc f v hv]
      simp only []
      rw [ih vs hvs]
      simp [msgAlloc, Nat.add_assoc]

end PubModel.C13
