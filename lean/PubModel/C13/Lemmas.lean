import PubModel.C13.Model

namespace PubModel.C13

theorem leBytes_length (k n : Nat) : (leBytes k n).length = k := by
  induction k generalizing n with
  | zero => rfl
  | succ k ih => simp [leBytes, ih]

theorem leVal_leBytes (k n : Nat) (h : n < 256 ^ k) : leVal (leBytes k n) = n := by
  induction k generalizing n with
  | zero => simp [leBytes, leVal]; omega
  | succ k ih =>
    have h2 : n / 256 < 256 ^ k := by
      rw [Nat.pow_succ] at h
      exact Nat.div_lt_of_lt_mul (by omega)
    have hb : (UInt8.ofNat (n % 256)).toNat = n % 256 := by
      simp [UInt8.toNat_ofNat']
    simp [leBytes, leVal, ih _ h2, hb]
    omega

theorem leVal_leBytes8 (n : Nat) (h : n < 2 ^ 64) : leVal (leBytes 8 n) = n :=
  leVal_leBytes 8 n (by simpa using h)


/-! ### reading from a state whose input starts with known bytes -/

theorem read_append (a rest : Bytes) (n : Nat) (p : Bool) (al : Nat) :
    (DS.mk (a ++ rest) n false p al).read a.length = (DS.mk rest (n + a.length) false p al, a) := by
  simp [DS.read]

theorem decU64_append (v : Nat) (hv : v < 2 ^ 64) (rest : Bytes) (n : Nat) (p : Bool) (al : Nat) :
    decU64 (DS.mk (leBytes 8 v ++ rest) n false p al) = (DS.mk rest (n + 8) false p al, v) := by
  have := read_append (leBytes 8 v) rest n p al
  rw [leBytes_length] at this
  simp [decU64, this, leVal_leBytes8 v hv]

theorem decU8_append (v : Nat) (hv : v < 256) (rest : Bytes) (n : Nat) (p : Bool) (al : Nat) :
    decU8 (DS.mk (UInt8.ofNat v :: rest) n false p al) = (DS.mk rest (n + 1) false p al, v) := by
  have := read_append [UInt8.ofNat v] rest n p al
  simp at this
  simp [decU8, this, UInt8.toNat_ofNat']
  omega

/-- allocation charged by `decBytes` for a well-formed field under the incremental reader -/
def bytesAlloc (cap : Nat) (b : Bytes) : Nat := if b.length ≤ cap then 0 else b.length

theorem decBytes_append (cfg : Cfg) (hc : cfg.prealloc = false) (cap : Nat)
    (b : Bytes) (hb : b.length < 2 ^ 63) (rest : Bytes) (n : Nat) (p : Bool) (al : Nat) :
    decBytes cfg cap (DS.mk (encBytes b ++ rest) n false p al) =
      (DS.mk rest (n + 8 + b.length) false p (al + bytesAlloc cap b), b) := by
  have h1 := decU64_append b.length (by omega) (b ++ rest) n p al
  unfold decBytes
  simp only [encBytes, List.append_assoc]
  rw [h1]
  by_cases h0 : b.length = 0
  · have : b = [] := List.eq_nil_of_length_eq_zero h0
    subst this
    simp [bytesAlloc]
  · have hlt : ¬ (2 ^ 63 ≤ b.length) := by omega
    simp only [h0, hlt, or_self, if_false]
    by_cases hcap : b.length ≤ cap
    · simp [hcap, bytesAlloc, read_append]
    · simp [hcap, bytesAlloc, hc, read_append]

end PubModel.C13
