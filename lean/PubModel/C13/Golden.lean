/-
C13 — what deployed peers expect: type codes and layouts of the message kinds
that exist at the pinned commit.  Committed by hand; the regenerated
`Gen.Wire` must extend it (new kinds only appended), see `Obligations`.
-/
import PubModel.C13.Model
namespace PubModel.C13.Golden
open PubModel.C13

def msgCodes : List (String × Nat) :=
  [("msgShutdown", 0), ("msgHello", 1), ("msgDial", 2), ("msgWrite", 3), ("msgRead", 4),
   ("msgStatus", 5), ("msgClose", 6), ("msgShutdownHint", 7), ("msgDialSide", 8), ("msgDialSide2", 9)]

def errCodes : List (String × Nat) :=
  [("errUnknown", 1), ("errUnknownType", 2), ("errBug", 3), ("errAccept", 4),
   ("errSessionNotFound", 5), ("errRead", 6), ("errWrite", 7), ("errClose", 8),
   ("errInternal", 9), ("errEOF", 10), ("errSiding", 11)]

/-- wire layouts (after `wire` normalisation) -/
def types : List (String × Schema) := [
  ("closeRequest", [.u64]),
  ("closeResponse", [.rerr]),
  ("dialRequest", []),
  ("dialResponse", [.u64, .rerr]),
  ("dialSide2Request", [.u64, .u64, .bytes, .bytes]),
  ("dialSideRequest", [.u64, .u64, .bytes]),
  ("helloRequest", [.bytes]),
  ("helloResponse", [.bytes]),
  ("readRequest", [.u64, .u64]),
  ("readResponse", [.bytes, .rerr]),
  ("statusRequest", [.u64]),
  ("statusResponse", [.u64, .u64, .u64]),
  ("writeRequest", [.u64, .bytes]),
  ("writeResponse", [.u64, .rerr])
]

/-- type code -> request struct, reply struct, as served by a deployed endpoint -/
def served : List (String × String × String) := [
  ("msgShutdown", "", ""),
  ("msgHello", "helloRequest", "helloResponse"),
  ("msgDial", "dialRequest", "dialResponse"),
  ("msgDialSide", "dialSideRequest", "dialResponse"),
  ("msgDialSide2", "dialSide2Request", "dialResponse"),
  ("msgRead", "readRequest", "readResponse"),
  ("msgWrite", "writeRequest", "writeResponse"),
  ("msgClose", "closeRequest", "closeResponse")
]

end PubModel.C13.Golden
