/-
C13 — obligations that connect the *regenerated* facts (`Gen.Wire`, rewritten
from /repo's source on every run) to the hypotheses of the generic theorems
and to the golden layouts deployed peers expect.  All closed by `decide`.
-/
import PubModel.C13.Golden
import PubModel.C13.Glue

namespace PubModel.C13
open PubModel.Gen

/-- every struct is decoded field by field as it is encoded -/
theorem gen_enc_eq_dec : ∀ t ∈ Wire.types, wireS t.2.1 = wireS t.2.2 := by decide

/-- existing message and error codes keep their values; new ones are only appended -/
theorem gen_msgCodes_append_only : Golden.msgCodes.isPrefixOf Wire.msgCodes = true := by decide
theorem gen_errCodes_append_only : Golden.errCodes.isPrefixOf Wire.errCodes = true := by decide

/-- every existing struct keeps its layout -/
theorem gen_layouts_kept : ∀ g ∈ Golden.types, encOf g.1 = some g.2 ∧ decOf g.1 = some g.2 := by decide

/-- the endpoint still accepts every deployed request kind with the deployed
    request layout and answers with the deployed reply layout -/
theorem gen_served_kept : ∀ g ∈ Golden.served,
    Wire.serverReq.lookup g.1 = some g.2.1 ∧ Wire.serverResp.lookup g.1 = some g.2.2 := by decide

/-- two cooperating sites: what a client call site encodes is what the server
    decodes for that code, and what the handler encodes is what the call site decodes -/
theorem gen_client_server_agree : ∀ c ∈ Wire.clientCalls,
    (∃ sreq, Wire.serverReq.lookup c.1 = some sreq ∧ encOf c.2.1 = decOf sreq ∧ (encOf c.2.1).isSome) ∧
    (∃ sresp, Wire.serverResp.lookup c.1 = some sresp ∧ encOf sresp = decOf c.2.2 ∧ (encOf sresp).isSome) := by
  decide

/-- the decoder does not allocate the announced length -/
theorem gen_decoder_incremental : Wire.decoderPrealloc = false := by decide

/-- `handleRead` refuses negative sizes and clamps the buffer -/
theorem gen_read_clamped : Wire.readClamp.isSome = true := by decide

end PubModel.C13
