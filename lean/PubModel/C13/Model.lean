/-
C13 — model of sniproxy's wire codec (encoder.go, decoder.go, remote_err.go,
endpoint_server.go startCall, transport.go handleMessage).

A message layout is a `Schema` (list of field kinds).  The schemas of the
real messages are *regenerated* from the Go source on every run into
`PubModel/Gen/Wire.lean`; everything here is generic in the schema.

The decoder follows decoder.go statement by statement: sticky error, the
`u64` short-cut once an error is set, `bytes`: `n := int(u64)`, `n <= 0 -> nil`,
`hasErr -> nil`, reuse of the caller's buffer when it is large enough,
otherwise allocation.  How it allocates is a regenerated fact
(`Cfg.prealloc`): `true` is `make([]byte, n)` with the announced length
(the pinned tree), `false` is reading through a limited reader so that only
bytes that actually arrived are materialised (the repaired tree).  A Go panic
is an explicit flag, never a totalised default.
-/
import PubModel.Common.Hex

namespace PubModel.C13

/-- field kinds as they appear in `encodeTo` / `decodeFrom` bodies -/
inductive Fld
  | u8        -- enc.u8 / dec.u8
  | u64       -- enc.u64 / dec.u64
  | int       -- enc.u64(uint64(x)) / int(dec.u64())   (same wire bits)
  | bytes     -- enc.bytes / dec.bytes(nil)
  | bytesInto -- enc.bytes / dec.bytes(m.field)   (decodes into the caller's buffer)
  | str       -- enc.str / dec.str
  | rerr      -- encodeRemoteErr / decodeRemoteErr
  deriving DecidableEq, Repr, Inhabited

abbrev Schema := List Fld

/-- field values; integers are their 64-bit patterns -/
inductive Val
  | num (n : Nat)
  | bs (b : Bytes)
  | err (code : Nat) (msg : Bytes)
  deriving DecidableEq, Repr, Inhabited

/-- little endian, `k` bytes -/
def leBytes : Nat → Nat → Bytes
  | 0, _ => []
  | k+1, n => UInt8.ofNat (n % 256) :: leBytes k (n / 256)

def leVal : Bytes → Nat
  | [] => 0
  | b :: bs => b.toNat + 256 * leVal bs

/-! ### encoder -/

def encBytes (b : Bytes) : Bytes := leBytes 8 b.length ++ b

def encFld : Fld → Val → Bytes
  | .u8, .num n => [UInt8.ofNat n]
  | .u64, .num n => leBytes 8 n
  | .int, .num n => leBytes 8 n
  | .bytes, .bs b => encBytes b
  | .bytesInto, .bs b => encBytes b
  | .str, .bs b => encBytes b
  | .rerr, .err c m => if c = 0 then leBytes 8 0 else leBytes 8 c ++ encBytes m
  | _, _ => []

def encode : Schema → List Val → Bytes
  | f :: fs, v :: vs => encFld f v ++ encode fs vs
  | _, _ => []

/-- values the Go types can hold and the encoder writes faithfully -/
def WFv : Fld → Val → Prop
  | .u8, .num n => n < 256
  | .u64, .num n => n < 2^64
  | .int, .num n => n < 2^64
  | .bytes, .bs b => b.length < 2^63
  | .bytesInto, .bs b => b.length < 2^63
  | .str, .bs b => b.length < 2^63
  | .rerr, .err c m => c < 2^64 ∧ m.length < 2^63 ∧ (c = 0 → m = [])
  | _, _ => False

def WF : Schema → List Val → Prop
  | [], [] => True
  | f :: fs, v :: vs => WFv f v ∧ WF fs vs
  | _, _ => False

/-! ### decoder -/

structure Cfg where
  /-- `decoder.bytes` allocates the announced length before reading -/
  prealloc : Bool
  /-- largest slice `make` accepts before panicking -/
  maxAlloc : Nat
  /-- capacity of the caller's buffer for `bytesInto` fields -/
  intoCap : Nat
  deriving Repr

structure DS where
  inp : Bytes
  n : Nat := 0
  failed : Bool := false
  panicked : Bool := false
  alloc : Nat := 0
  deriving Repr

/-- `decoder.read`: `io.ReadFull` into a buffer of `k` bytes -/
def DS.read (d : DS) (k : Nat) : DS × Bytes :=
  if d.failed then (d, [])
  else if k ≤ d.inp.length then
    ({ d with inp := d.inp.drop k, n := d.n + k }, d.inp.take k)
  else
    ({ d with inp := [], n := d.n + d.inp.length, failed := true }, d.inp)

def decU8 (d : DS) : DS × Nat :=
  let (d', b) := d.read 1
  (d', (b.headD 0).toNat)

def decU64 (d : DS) : DS × Nat :=
  if d.failed then (d, 0)
  else
    let (d', b) := d.read 8
    (d', leVal b)

/-- `decoder.bytes(buf)` with `len(buf) = cap` -/
def decBytes (cfg : Cfg) (cap : Nat) (d : DS) : DS × Bytes :=
  let (d1, v) := decU64 d
  if v = 0 ∨ 2^63 ≤ v then (d1, [])          -- int(v) <= 0
  else if d1.failed then (d1, [])
  else if v ≤ cap then d1.read v              -- buf[:n]
  else if cfg.prealloc then
    if cfg.maxAlloc < v then ({ d1 with panicked := true }, [])
    else ({ d1 with alloc := d1.alloc + v }).read v
  else
    ({ d1 with alloc := d1.alloc + min v d1.inp.length }).read v

def decErr (cfg : Cfg) (d : DS) : DS × Val :=
  let (d1, c) := decU64 d
  if c = 0 then (d1, .err 0 [])
  else
    let (d2, m) := decBytes cfg 0 d1
    (d2, .err c m)

def decFld (cfg : Cfg) : Fld → DS → DS × Val
  | .u8, d => let (d', n) := decU8 d; (d', .num n)
  | .u64, d => let (d', n) := decU64 d; (d', .num n)
  | .int, d => let (d', n) := decU64 d; (d', .num n)
  | .bytes, d => let (d', b) := decBytes cfg 0 d; (d', .bs b)
  | .bytesInto, d => let (d', b) := decBytes cfg cfg.intoCap d; (d', .bs b)
  | .str, d => let (d', b) := decBytes cfg 0 d; (d', .bs b)
  | .rerr, d => decErr cfg d

/-- run a `decodeFrom` body; a panic stops everything -/
def run (cfg : Cfg) : Schema → DS → DS × List Val
  | [], d => (d, [])
  | f :: fs, d =>
    if d.panicked then (d, [])
    else
      let (d1, v) := decFld cfg f d
      let (d2, vs) := run cfg fs d1
      (d2, v :: vs)

inductive Outcome
  | ok
  | truncated
  | tail (k : Nat)
  | panic
  deriving DecidableEq, Repr

structure Result where
  outcome : Outcome
  vals : List Val
  consumed : Nat
  alloc : Nat
  deriving Repr

/-- `decodeFrom` followed by `dec.end()` on a whole frame body -/
def decodeMsg (cfg : Cfg) (s : Schema) (bs : Bytes) : Result :=
  let (d, vs) := run cfg s { inp := bs }
  if d.panicked then ⟨.panic, [], d.n, d.alloc⟩
  else if d.failed then ⟨.truncated, [], d.n, d.alloc⟩
  else if d.inp.isEmpty then ⟨.ok, vs, d.n, d.alloc⟩
  else ⟨.tail d.inp.length, [], d.n, d.alloc⟩

/-! ### frame entry points -/

/-- a message kind: name, type code, request and reply layouts
    (encode side and decode side kept apart so that `enc = dec` is an obligation) -/
structure Msg where
  name : String
  code : Nat
  reqEnc : Schema
  reqDec : Schema
  respEnc : Schema
  respDec : Schema
  deriving DecidableEq, Repr

inductive SrvOut
  | request (id typ : Nat) (vals : List Val)
  | unknownType (id typ : Nat)
  | decodeErr
  | panic
  deriving DecidableEq, Repr

/-- `endpointServer.startCall` on one binary websocket message.  `reqs` maps a
    type code to the request layout (`some []` for shutdown, `none` = default arm). -/
def serverFrame (cfg : Cfg) (reqs : Nat → Option Schema) (bs : Bytes) : SrvOut × Nat :=
  let d0 : DS := { inp := bs }
  let (d1, id) := decU64 d0
  let (d2, t) := decU8 d1
  if d2.failed then (.decodeErr, 0)
  else match reqs t with
    | none => (.unknownType id t, 0)
    | some s =>
      let r := decodeMsg cfg s d2.inp
      match r.outcome with
      | .ok => (.request id t r.vals, r.alloc)
      | .panic => (.panic, r.alloc)
      | _ => (.decodeErr, r.alloc)

/-- what `handleRead` allocates for a decoded `maxRead` field (64-bit pattern):
    `none` = the Go code panics.  `clamp = none` is the pinned tree
    (`make([]byte, req.maxRead)` unguarded). -/
def readAlloc (clamp : Option Nat) (maxAlloc : Nat) (v : Nat) : Option Nat :=
  match clamp with
  | some c => if 2^63 ≤ v then some 0 else some (min v c)
  | none => if 2^63 ≤ v then none else if maxAlloc < v then none else some v

inductive CliOut
  | ignoredShort                     -- fewer than 10 header bytes: logged, dropped
  | fatalErrcode (e : Nat)
  | shutdownHint
  | discard (id : Nat)               -- no pending call with this id
  | mistyped (id : Nat)              -- pending call removed, type differs
  | complete (id : Nat) (vals : List Val)
  | completeErr (id : Nat)           -- body failed to decode: call completes with error
  | panic
  deriving DecidableEq, Repr

/-- `transport.handleMessage` on one reply frame, given the pending table
    (id -> (type code, reply layout)).  The model returns what happens; the
    transport model (C03) applies it to the table. -/
def clientFrame (cfg : Cfg) (hintCode : Nat) (pend : Nat → Option (Nat × Schema))
    (bs : Bytes) : CliOut :=
  let d0 : DS := { inp := bs }
  let (d1, id) := decU64 d0
  let (d2, t) := decU8 d1
  let (d3, e) := decU8 d2
  if d3.failed then .ignoredShort
  else if e ≠ 0 then .fatalErrcode e
  else if t = hintCode then .shutdownHint
  else match pend id with
    | none => .discard id
    | some (typ, s) =>
      if typ ≠ t then .mistyped id
      else
        let (d, vs) := run cfg s d3
        if d.panicked then .panic
        else if d.failed then .completeErr id
        else .complete id vs   -- trailing bytes are discarded (io.Copy to Discard)

end PubModel.C13
