import PubModel.C13.Theorems
open PubModel.C13
#print axioms decode_encode
#print axioms decodeMsg_exact
#print axioms decodeMsg_tail
#print axioms decodeMsg_prefix
#print axioms run_no_panic
#print axioms run_alloc_bound
#print axioms run_count_exact
#print axioms server_frame_total
#print axioms read_alloc_bounded
#print axioms client_frame_total
#print axioms client_frame_completes_own
#print axioms prealloc_panics
#print axioms prealloc_unbounded
#print axioms read_unclamped_panics
#print axioms gen_enc_eq_dec
#print axioms gen_msgCodes_append_only
#print axioms gen_errCodes_append_only
#print axioms gen_layouts_kept
#print axioms gen_served_kept
#print axioms gen_client_server_agree
#print axioms gen_decoder_incremental
#print axioms gen_read_clamped
#print axioms gen_cfg_ok
#print axioms gen_roundtrip
