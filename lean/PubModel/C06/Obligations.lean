/-
C06 — obligations on the regenerated lock facts, closed by `decide`.
-/
import PubModel.C06.Glue

namespace PubModel.C06

/-- the lock table read from `mem_kv.go` satisfies `ExclusiveRMW` -/
theorem gen_memLocking_exclusiveRMW : exclusiveRMW genLocks = true := by decide

/-- `sqlite3KV.mutate` is `begin; defer rollback; select; f; update; rows-affected; commit`,
    the sequence the SQL transition system models -/
theorem gen_sqlMutateSeq : Gen.PiscesLock.sqlMutateSeq = goldenSqlMutateSeq := by decide

end PubModel.C06
