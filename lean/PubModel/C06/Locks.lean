/-
C06 — the lock discipline of `memKV` as data: what the extractor reads from the
AST (`Gen.PiscesLock`) and the decidable condition `exclusiveRMW` under which a
concurrent run of the memory backend is a sequence of atomic bodies.
-/
import PubModel.C05.Model

namespace PubModel.C06
open PubModel PubModel.C05

inductive LockKind | none | r | w
deriving DecidableEq, Repr

/-- one row of the regenerated table -/
structure MethodFacts where
  name : String
  lock : String          -- "Lock" | "RLock" | "none": the first statement of the body
  deferred : Bool        -- the matching unlock is deferred as the second statement
  otherMu : Nat          -- further uses of the lock in the body
  writes : Bool          -- assigns to / deletes from the table, or mutates an entry
  reads : Bool
  calls : List String    -- memKV methods it calls
  callsUser : Bool       -- calls a caller-supplied function (mutate / walk callback)
deriving Repr

def MethodFacts.ofTuple (t : String × String × Bool × Nat × Bool × Bool × List String × Bool) : MethodFacts :=
  ⟨t.1, t.2.1, t.2.2.1, t.2.2.2.1, t.2.2.2.2.1, t.2.2.2.2.2.1, t.2.2.2.2.2.2.1, t.2.2.2.2.2.2.2⟩

structure LockFacts where
  table : List MethodFacts
  touchTable : List String
  touchLock : List String
  opsTable : List (String × String)    -- KVOps field, memKV method
  bytesCopies : Bool

def LockFacts.find (f : LockFacts) (m : String) : Option MethodFacts := f.table.find? (fun r => r.name = m)

def kindOf (s : String) : LockKind := if s = "Lock" then .w else if s = "RLock" then .r else .none

/-- the lock a KVOps field's method holds around its body -/
def LockFacts.lockOfField (f : LockFacts) (field : String) : LockKind :=
  match f.opsTable.lookup field with
  | none => .none
  | some m => match f.find m with
    | none => .none
    | some r => if r.deferred && r.otherMu = 0 then kindOf r.lock else .none

def LockFacts.writesField (f : LockFacts) (field : String) : Bool :=
  match f.opsTable.lookup field with
  | none => true
  | some m => match f.find m with
    | none => true
    | some r => r.writes

/-- the KVOps fields that operate on the table (Create/CreateMissing/Destroy are no-ops in memory) -/
def tableFields : List String :=
  ["Clear", "Add", "Get", "Has", "Set", "SetClass", "Mutate", "Remove", "Emplace", "Replace", "Append",
   "Walk", "WalkClass", "WalkPartial", "WalkPartialClass", "Count"]

/-- fields whose body only reads in the model (`Mem.step` leaves the table unchanged) -/
def readOnlyFields : List String := ["Get", "Has", "Walk", "WalkClass", "WalkPartial", "WalkPartialClass", "Count"]

/--
`ExclusiveRMW`: every body runs entirely inside `Lock`/`RLock` … `defer Unlock`;
a body that writes holds the exclusive lock; no locked method calls a locked
method (the RWMutex is not reentrant); the unlocked helpers neither write nor
lock and are not installed in the function table; the table and the lock are
touched nowhere else; entries never alias out of the lock.
-/
def exclusiveRMW (f : LockFacts) : Bool :=
  let lockedNames := (f.table.filter (fun r => r.lock ≠ "none")).map (·.name)
  let helperNames := (f.table.filter (fun r => r.lock = "none")).map (·.name)
  let served := f.opsTable.map (·.2)
  -- every field that works on the table is served by a method that holds a lock for its whole body
  tableFields.all (fun fld => f.lockOfField fld ≠ .none) &&
  -- writers hold the exclusive lock; what the AST says writes is what the model says writes
  tableFields.all (fun fld => (f.writesField fld → f.lockOfField fld = .w) &&
    (f.writesField fld = !readOnlyFields.contains fld)) &&
  -- locked methods: unlock deferred, lock not touched again, calls go to unlocked helpers only
  f.table.all (fun r => r.lock = "none" ||
    (r.deferred && r.otherMu = 0 && r.calls.all (fun c => helperNames.contains c))) &&
  -- helpers: no lock, no write, call only helpers, not installed in the function table
  f.table.all (fun r => r.lock ≠ "none" ||
    (r.otherMu = 0 && !r.writes && r.calls.all (fun c => helperNames.contains c) &&
      (!(r.reads || r.callsUser) || !served.contains r.name))) &&
  -- the fields are private to these methods (and the constructor)
  f.touchTable.all (fun n => n = "newMemKV" || (f.table.map (fun r => "memKV." ++ r.name)).contains n) &&
  f.touchLock.all (fun n => (lockedNames.map (fun m => "memKV." ++ m)).contains n) &&
  f.bytesCopies

/-- KVOps field behind each operation of `pisces.KV` -/
def opField : Op → String
  | .add _ _ | .addClass _ _ _ => "Add"
  | .setClass _ _ => "SetClass"
  | .remove _ => "Remove"
  | .get _ => "Get"
  | .has _ => "Has"
  | .emplace _ _ => "Emplace"
  | .replace _ _ => "Replace"
  | .appendBytes _ _ => "Append"
  | .setBytes _ _ | .set _ _ => "Set"
  | .mutate _ _ => "Mutate"
  | .count => "Count"
  | .clear => "Clear"
  | .walk _ => "Walk"
  | .walkClass _ _ => "WalkClass"
  | .walkPartial _ _ => "WalkPartial"
  | .walkPartialClass _ _ _ => "WalkPartialClass"

def _root_.PubModel.C05.Op.readOnly (op : Op) : Bool := readOnlyFields.contains (opField op)

end PubModel.C06
