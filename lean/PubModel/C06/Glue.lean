/-
C06 — glue between the regenerated lock facts and the model.
-/
import PubModel.C06.Locks
import PubModel.Gen.PiscesLock

namespace PubModel.C06
open PubModel.Gen

def genLocks : LockFacts :=
  { table := PiscesLock.table.map MethodFacts.ofTuple, touchTable := PiscesLock.touchTable,
    touchLock := PiscesLock.touchLock, opsTable := PiscesLock.opsTable, bytesCopies := PiscesLock.bytesCopies }

/-- the shape of `sqlite3KV.mutate` the SQL model was written against -/
def goldenSqlMutateSeq : List String :=
  ["b.db.Begin", "defer tx.Rollback", "tx.Q1", "f", "tx.X", "sqlResError", "tx.Commit"]

end PubModel.C06
