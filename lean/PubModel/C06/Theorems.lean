/-
C06 — property theorems.  Statement file; the invariants are in Lemmas*.lean.

Property: when many goroutines operate on the same KV concurrently, every
successful Mutate, AppendBytes, Emplace and Add takes effect atomically: no
successful update is lost or half-applied, concurrent Adds of one key succeed at
most once (and the key then holds that value), Emplace keeps the first value,
and the final contents equal some sequential ordering of the operations that
reported success.  Operations that cannot be applied report an error rather
than silently doing nothing.
-/
import PubModel.C06.LemmasSql
import PubModel.C06.LemmasRun
import PubModel.C06.Obligations
import PubModel.C05.Theorems

namespace PubModel.C06
open PubModel PubModel.C05

/-! ## memory -/

/-- **Memory runs are linearizable.**  If the lock table satisfies `ExclusiveRMW`,
    then in every state reachable by any interleaving of the goroutines' steps:
    the operations, in the order of their linearization points, replay on the
    reference map with exactly the results the goroutines got; the table is the
    one that represents the reference map's contents after that replay; and every
    goroutine's events are sequenced invocation, linearization point, response
    with the linearized result — so the sequential order is consistent with each
    operation's interval. -/
theorem mem_linearizable (cfg : Cfg) (hfix : cfg.memReplaceKeeps = true) (f : LockFacts)
    (hex : exclusiveRMW f = true) (K : List Key) (hK : InjOn (ordKey cfg) K)
    (st : MSt) (hr : Reach (MStep cfg (lockOfOp f) K) {} st) :
    (Spec.run cfg [] (linOps st.hist)).2 = linOuts st.hist ∧
    st.tab = repMem cfg (Spec.run cfg [] (linOps st.hist)).1 ∧
    (∀ u, ThreadHist u st.hist (st.pc u).phase) := by
  have hi := minv_reach cfg hfix (lockOfOp f) (exclusive_of_table f hex).1 K hK st hr
  exact ⟨hi.outs, hi.tab, mhist_reach cfg (lockOfOp f) K st hr⟩

/-- … for the lock table and the configuration regenerated from the source -/
theorem gen_mem_linearizable (ordered : Bool) (h : Key → Key) (valid : Bytes → Bool) (K : List Key)
    (hK : InjOn (ordKey (genCfg ordered h valid)) K) (st : MSt)
    (hr : Reach (MStep (genCfg ordered h valid) (lockOfOp genLocks) K) {} st) :
    (Spec.run (genCfg ordered h valid) [] (linOps st.hist)).2 = linOuts st.hist ∧
    st.tab = repMem (genCfg ordered h valid) (Spec.run (genCfg ordered h valid) [] (linOps st.hist)).1 ∧
    (∀ u, ThreadHist u st.hist (st.pc u).phase) :=
  mem_linearizable _ (gen_cfg_ok ordered h valid).1 genLocks gen_memLocking_exclusiveRMW K hK st hr

/-- while a writer is between its read and its write phase nobody else is inside a
    writing body: the exclusive lock is what makes the two phases one atomic step -/
theorem mem_writer_alone (cfg : Cfg) (hfix : cfg.memReplaceKeeps = true) (f : LockFacts)
    (hex : exclusiveRMW f = true) (K : List Key) (hK : InjOn (ordKey cfg) K)
    (st : MSt) (hr : Reach (MStep cfg (lockOfOp f) K) {} st)
    (t u : Tid) (op op' : Op) (r r' : Tab × Out)
    (ht : st.pc t = .computed op r) (hu : st.pc u = .computed op' r') : t = u ∧ r = Mem.step cfg st.tab op := by
  have hx := exclusive_of_table f hex
  have hi := minv_reach cfg hfix (lockOfOp f) hx.1 K hK st hr
  obtain ⟨h1, ro1⟩ := hi.snap t op r ht
  obtain ⟨_, ro2⟩ := hi.snap u op' r' hu
  have w1 := hi.holdW t op (by simp [ht, PC.op]) (by simp [ht, PC.holds]) (hx.1 op ro1)
  have w2 := hi.holdW u op' (by simp [hu, PC.op]) (by simp [hu, PC.holds]) (hx.1 op' ro2)
  rw [w1] at w2
  exact ⟨Option.some.inj w2, h1⟩

/-! ## SQLite -/

/-- **Committed SQLite operations are serial.**  In every reachable state of the
    lock-protocol model: the operations that took effect (autocommit statements
    that got their locks, transactions that reached COMMIT or were refused by
    their own callback), in the order of those points, replay on the reference
    map with the results the goroutines got — in particular every committed
    Mutate's callback saw the value the replay holds at that position, so no
    update is lost; the database is the table representing the replay's
    contents; histories are well sequenced, a busy call having no
    linearization point. -/
theorem sql_mutate_serializable (cfg : Cfg) (hfix : cfg.sqlNilGuard = true) (K : List Key)
    (hK : InjOn (ordKey cfg) K) (st : QSt) (hr : Reach (QStep cfg K) {} st) :
    (Spec.run cfg [] (linOps st.hist)).2 = linOuts st.hist ∧
    st.db = repSql cfg (Spec.run cfg [] (linOps st.hist)).1 ∧
    (∀ u, ThreadHist u st.hist (st.conn u).phase) := by
  have hi := qinv_reach cfg hfix K hK st hr
  exact ⟨hi.outs, hi.db, qhist_reach cfg K st hr⟩

/-- **operations that returned busy changed nothing**: a step that changes the
    database is a linearization point, and the busy step is none -/
theorem sql_busy_changes_nothing (cfg : Cfg) (K : List Key) (st st' : QSt) (hs : QStep cfg K st st') :
    (st'.db ≠ st.db → ∃ t op out, st'.hist = st.hist ++ [.lin t op out]) ∧
    (∀ t op, st'.conn t = .done op none → st.conn t ≠ .done op none → st'.db = st.db ∧ st'.hist = st.hist) := by
  cases hs with
  | invoke t op h ha =>
    refine ⟨fun hne => absurd rfl hne, ?_⟩
    intro u o hd hnd
    dsimp only at hd
    by_cases hu : u = t
    · subst hu; rw [upd_same] at hd
      rcases invokeConn_cases cfg op with hc | ⟨k, f, mk, _, _, hc⟩ <;> rw [hc] at hd <;> simp at hd
    · rw [upd_other _ _ _ _ hu] at hd; exact absurd hd hnd
  | auto t op h hg =>
    refine ⟨fun _ => ⟨t, op, _, rfl⟩, ?_⟩
    intro u o hd hnd
    dsimp only at hd
    by_cases hu : u = t
    · subst hu; rw [upd_same] at hd; simp at hd
    · rw [upd_other _ _ _ _ hu] at hd; exact absurd hd hnd
  | busy t op h hn => exact ⟨fun hne => absurd rfl hne, fun _ _ _ _ => ⟨rfl, rfl⟩⟩
  | txSelectMiss t k f mk h hm =>
    refine ⟨fun hne => absurd rfl hne, ?_⟩
    intro u o hd hnd
    dsimp only at hd
    by_cases hu : u = t
    · subst hu; rw [upd_same] at hd; simp at hd
    · rw [upd_other _ _ _ _ hu] at hd; exact absurd hd hnd
  | txSelect t k f mk bs h hm =>
    refine ⟨fun hne => absurd rfl hne, ?_⟩
    intro u o hd hnd
    dsimp only at hd
    by_cases hu : u = t
    · subst hu; rw [upd_same] at hd; simp at hd
    · rw [upd_other _ _ _ _ hu] at hd; exact absurd hd hnd
  | txRefuse t k f mk bs r h hf =>
    refine ⟨fun hne => absurd rfl hne, ?_⟩
    intro u o hd hnd
    dsimp only at hd
    by_cases hu : u = t
    · subst hu; rw [upd_same] at hd; simp at hd
    · rw [upd_other _ _ _ _ hu] at hd; exact absurd hd hnd
  | txUpdate t k f mk bs nb h hf hg =>
    refine ⟨fun hne => absurd rfl hne, ?_⟩
    intro u o hd hnd
    dsimp only at hd
    by_cases hu : u = t
    · subst hu; rw [upd_same] at hd; simp at hd
    · rw [upd_other _ _ _ _ hu] at hd; exact absurd hd hnd
  | txCommit t k f mk bs nb h hg =>
    refine ⟨fun _ => ⟨t, _, _, rfl⟩, ?_⟩
    intro u o hd hnd
    dsimp only at hd
    by_cases hu : u = t
    · subst hu; rw [upd_same] at hd; simp at hd
    · rw [upd_other _ _ _ _ hu] at hd; exact absurd hd hnd
  | ret t op out h =>
    refine ⟨fun hne => absurd rfl hne, ?_⟩
    intro u o hd hnd
    dsimp only at hd
    by_cases hu : u = t
    · subst hu; rw [upd_same] at hd; simp at hd
    · rw [upd_other _ _ _ _ hu] at hd; exact absurd hd hnd

/-- two transactions that have both read cannot both commit: the second upgrade is
    refused (only the busy step is enabled for it), so committed read-modify-writes
    never interleave -/
theorem sql_one_reserved (cfg : Cfg) (K : List Key) (st st' : QSt) (t u : Tid) (hne : t ≠ u)
    (k f mk bs nb) (hu : st.conn u = .txWrote k f mk bs nb)
    (k' f' mk' bs' nb') (hs : QStep cfg K st st') (ht' : st'.conn t = .txWrote k' f' mk' bs' nb') :
    st.conn t = .txWrote k' f' mk' bs' nb' := by
  cases hs with
  | txUpdate t2 k2 f2 mk2 bs2 nb2 h hf hg =>
    dsimp only at ht'
    by_cases h2 : t = t2
    · subst h2
      have := hg u (fun e => hne e.symm)
      rw [hu] at this; simp [Conn.reserved] at this
    · rw [upd_other _ _ _ _ h2] at ht'; exact ht'
  | invoke t2 op h ha =>
    dsimp only at ht'
    by_cases h2 : t = t2
    · subst h2; rw [upd_same] at ht'
      rcases invokeConn_cases cfg op with hc | ⟨_, _, _, _, _, hc⟩ <;> rw [hc] at ht' <;> simp at ht'
    · rw [upd_other _ _ _ _ h2] at ht'; exact ht'
  | auto t2 op h hg =>
    dsimp only at ht'
    by_cases h2 : t = t2
    · subst h2; rw [upd_same] at ht'; simp at ht'
    · rw [upd_other _ _ _ _ h2] at ht'; exact ht'
  | busy t2 op h hn =>
    dsimp only at ht'
    by_cases h2 : t = t2
    · subst h2; rw [upd_same] at ht'; simp at ht'
    · rw [upd_other _ _ _ _ h2] at ht'; exact ht'
  | txSelectMiss t2 _ _ _ h hm =>
    dsimp only at ht'
    by_cases h2 : t = t2
    · subst h2; rw [upd_same] at ht'; simp at ht'
    · rw [upd_other _ _ _ _ h2] at ht'; exact ht'
  | txSelect t2 _ _ _ _ h hm =>
    dsimp only at ht'
    by_cases h2 : t = t2
    · subst h2; rw [upd_same] at ht'; simp at ht'
    · rw [upd_other _ _ _ _ h2] at ht'; exact ht'
  | txRefuse t2 _ _ _ _ _ h hf =>
    dsimp only at ht'
    by_cases h2 : t = t2
    · subst h2; rw [upd_same] at ht'; simp at ht'
    · rw [upd_other _ _ _ _ h2] at ht'; exact ht'
  | txCommit t2 _ _ _ _ _ h hg =>
    dsimp only at ht'
    by_cases h2 : t = t2
    · subst h2; rw [upd_same] at ht'; simp at ht'
    · rw [upd_other _ _ _ _ h2] at ht'; exact ht'
  | ret t2 op out h =>
    dsimp only at ht'
    by_cases h2 : t = t2
    · subst h2; rw [upd_same] at ht'; simp at ht'
    · rw [upd_other _ _ _ _ h2] at ht'; exact ht'

/-! ## corollaries: what a sequential order of the successful operations implies -/

/-- **no lost increment**: in any sequential order, the counter ends at `g` applied as
    many times as increments reported success (other operations address other keys) -/
theorem no_lost_increment (cfg : Cfg) (g : Bytes → Bytes) (k : Key) (hk : keyOk cfg k = true)
    (tops : List (Bool × Op))
    (h : ∀ p ∈ tops, (p.1 = true → p.2 = .mutate k (incF g)) ∧ (p.1 = false → touches k p.2 = false))
    (s : Tab) (e : Entry) (hs : s.get k = some e) :
    ((Spec.run cfg s (tops.map (·.2))).1.get k).map (·.val) =
      some (iter g (incOk tops (Spec.run cfg s (tops.map (·.2))).2) e.val) :=
  (incs_add_up cfg g k hk tops h s e hs).1

/-- **concurrent Adds of one key succeed at most once, and the key then holds that
    value**: an Add that reports success found the key absent; every later Add of the
    key reports `exists`; the key still holds the first value at the end (later
    operations being Adds/Emplaces of it or operations on other keys) -/
theorem add_succeeds_at_most_once_and_holds_value (cfg : Cfg) (k : Key) (hk : keyOk cfg k = true)
    (s : Tab) (c : Class) (v : Bytes) (post : List Op)
    (hpost : ∀ op ∈ post, touches k op = false ∨ isAddOrEmplace k op)
    (hok : (Spec.step cfg s (.addClass k c v)).2 = .res .ok) :
    s.get k = none ∧
    (Spec.run cfg (Spec.step cfg s (.addClass k c v)).1 post).1.get k = some ⟨c, v⟩ ∧
    ∀ p ∈ post.zip (Spec.run cfg (Spec.step cfg s (.addClass k c v)).1 post).2,
      ((∃ v', p.1 = .add k v') ∨ (∃ c' v', p.1 = .addClass k c' v')) → p.2 = .res .exists := by
  have hn : s.get k = none := by
    cases hg : s.get k with
    | none => rfl
    | some e => simp [Spec.step, Spec.addClass, hk, hg] at hok
  have h1 : (Spec.step cfg s (.addClass k c v)).1.get k = some ⟨c, v⟩ := by
    simp [Spec.step, Spec.addClass, hk, hn, get_append_new]
  have := present_stays_run cfg k hk post hpost _ _ h1
  exact ⟨hn, this.1, this.2⟩

/-- **Emplace keeps the first value** -/
theorem emplace_keeps_first (cfg : Cfg) (k : Key) (hk : keyOk cfg k = true) (s : Tab) (v : Bytes)
    (post : List Op) (hpost : ∀ op ∈ post, touches k op = false ∨ isAddOrEmplace k op) :
    (s.get k = none →
      (Spec.run cfg (Spec.step cfg s (.emplace k v)).1 post).1.get k = some ⟨[], v⟩) ∧
    (∀ e, s.get k = some e →
      (Spec.run cfg (Spec.step cfg s (.emplace k v)).1 post).1.get k = some e) := by
  constructor
  · intro hn
    have h1 : (Spec.step cfg s (.emplace k v)).1.get k = some ⟨[], v⟩ := by
      simp [Spec.step, Spec.upsert, hk, hn, get_append_new]
    exact (present_stays_run cfg k hk post hpost _ _ h1).1
  · intro e he
    have h1 := (present_stays_step cfg s k hk e he (.emplace k v) (Or.inr (Or.inr (Or.inr ⟨v, rfl⟩)))).1
    exact (present_stays_run cfg k hk post hpost _ _ h1).1

/-- **failure is reported**: an operation whose result is an error class left the map
    as it was; hence (by the two theorems above) an operation that left no trace in a
    concurrent run either reported an error or, like a Get, had nothing to change -/
theorem failure_is_reported (cfg : Cfg) (s : Tab) (op : Op) :
    (∀ r, (Spec.step cfg s op).2 = .res r → r ≠ .ok → (Spec.step cfg s op).1 = s) ∧
    (∀ saw r, (Spec.step cfg s op).2 = .mutated saw r → r ≠ .ok → (Spec.step cfg s op).1 = s) :=
  step_error_unchanged cfg s op

/-! ## non-vacuity, and why the exclusive lock is needed -/

def kx : Key := [107]
def cfgT : Cfg := C05.cfgEx true true true
def appendOp (b : UInt8) : Op := .appendBytes kx (some [b])

theorem admissible_append (b : UInt8) : Admissible [kx] (appendOp b) := by
  constructor
  · intro k hk; simp [appendOp, Op.key] at hk; subst hk; simp
  · simp [appendOp, Op.InRange]

/-- a lock table in which `appendBytes` takes only the read lock -/
def badLocks (op : Op) : LockKind := if opField op = "Append" then .r else .w

/-- **with AppendBytes under RLock an update is lost**: two goroutines both run their
    read phase on the empty table, then both write; both calls are linearized with
    result ok, but the table holds only the second chunk -/
theorem mem_append_under_rlock_loses_update :
    ∃ st, Reach (MStep cfgT badLocks [kx]) {} st ∧
      linOuts st.hist = [.res .ok, .res .ok] ∧
      st.tab = [(kx, ⟨[], [2]⟩)] ∧
      (Spec.run cfgT [] (linOps st.hist)).1 = [(kx, ⟨[], [1, 2]⟩)] := by
  have r1 := Reach.tail (step := MStep cfgT badLocks [kx]) .refl (.invoke {} 0 (appendOp 1) rfl (admissible_append 1))
  have r2 := Reach.tail r1 (.invoke _ 1 (appendOp 2) (by simp [upd]) (admissible_append 2))
  have r3 := Reach.tail r2 (.acquireR _ 0 (appendOp 1) (by simp [upd]) (by simp [badLocks, appendOp, opField]) rfl)
  have r4 := Reach.tail r3 (.acquireR _ 1 (appendOp 2) (by simp [upd]) (by simp [badLocks, appendOp, opField]) rfl)
  have r5 := Reach.tail r4 (.readPhase _ 0 (appendOp 1) (by simp [upd]) (by decide))
  have r6 := Reach.tail r5 (.readPhase _ 1 (appendOp 2) (by simp [upd]) (by decide))
  have r7 := Reach.tail r6 (.writePhase _ 0 (appendOp 1) _ (by simp [upd]; rfl))
  have r8 := Reach.tail r7 (.writePhase _ 1 (appendOp 2) _ (by simp [upd]; rfl))
  refine ⟨_, r8, ?_, ?_, ?_⟩
  · decide
  · decide
  · decide

/-- the regenerated table gives every writing method the exclusive lock and every other one the read lock -/
example : lockOfOp genLocks (appendOp 1) = .w ∧ lockOfOp genLocks (.get kx) = .r ∧
    lockOfOp genLocks (.mutate kx (incF id)) = .w ∧ lockOfOp genLocks .count = .w := by decide

/-- the SQLite model has runs in which a transaction commits and another is refused -/
example : ∃ st, Reach (QStep cfgT [kx]) {} st ∧ st.db = [⟨kx, [], [2]⟩] ∧
    linOuts st.hist = [.res .ok, .mutated (some [1]) .ok] := by
  let f : Bytes → MutRes := fun _ => .put [2]
  have hadm : Admissible [kx] (.add kx [1]) := ⟨by intro k hk; simp [Op.key] at hk; subst hk; simp, trivial⟩
  have hadm2 : Admissible [kx] (.mutate kx f) := ⟨by intro k hk; simp [Op.key] at hk; subst hk; simp, trivial⟩
  have r1 := Reach.tail (step := QStep cfgT [kx]) .refl (.invoke {} 0 (.add kx [1]) rfl hadm)
  have r2 := Reach.tail r1 (.auto _ 0 (.add kx [1]) (by simp [upd, invokeConn])
    (Or.inr (by intro u hu; simp [upd, hu, Conn.shared])))
  have r3 := Reach.tail r2 (.ret _ 0 (.add kx [1]) (some (Sql.step cfgT [] (.add kx [1])).2) (by simp [upd]))
  have r4 := Reach.tail r3 (.invoke _ 1 (.mutate kx f) (by simp [upd]) hadm2)
  have r5 := Reach.tail r4 (.txSelect _ 1 kx f kx [1] (by simp [upd, invokeConn, mapKey, cfgT, C05.cfgEx, kx]) (by decide))
  have r6 := Reach.tail r5 (.txUpdate _ 1 kx f kx [1] [2] (by simp [upd]) (by simp [KV.mutFn, cfgT, C05.cfgEx, f])
    (by intro u hu; by_cases h0 : u = 0 <;> simp [upd, hu, h0, Conn.reserved, invokeConn]))
  have r7 := Reach.tail r6 (.txCommit _ 1 kx f kx [1] [2] (by simp [upd])
    (by intro u hu; by_cases h0 : u = 0 <;> simp [upd, hu, h0, Conn.shared, invokeConn]))
  refine ⟨_, r7, ?_, ?_⟩
  · decide
  · decide

end PubModel.C06
