/-
C06 — histories: every goroutine's events come as invocation, linearization
point, response (or invocation, busy response), and the regenerated lock table
gives the exclusive lock to every writing body.
-/
import PubModel.C06.LemmasMem

namespace PubModel.C06
open PubModel PubModel.C05

inductive Phase
  | idle
  | pending (op : Op)
  | lined (op : Op) (out : Out)

/-- `ThreadHist t h p`: in history `h`, goroutine `t`'s events form complete calls
    `inv op, lin op out, ret op (some out)` or `inv op, ret op none`, followed by the
    unfinished call described by `p` -/
inductive ThreadHist (t : Tid) : List Ev → Phase → Prop
  | nil : ThreadHist t [] .idle
  | inv (h : List Ev) (op : Op) : ThreadHist t h .idle → ThreadHist t (h ++ [.inv t op]) (.pending op)
  | lin (h : List Ev) (op : Op) (out : Out) :
      ThreadHist t h (.pending op) → ThreadHist t (h ++ [.lin t op out]) (.lined op out)
  | ret (h : List Ev) (op : Op) (out : Out) :
      ThreadHist t h (.lined op out) → ThreadHist t (h ++ [.ret t op (some out)]) .idle
  | retBusy (h : List Ev) (op : Op) :
      ThreadHist t h (.pending op) → ThreadHist t (h ++ [.ret t op none]) .idle
  | other (h : List Ev) (e : Ev) (p : Phase) : ThreadHist t h p → e.tid ≠ t → ThreadHist t (h ++ [e]) p

def PC.phase : PC → Phase
  | .idle => .idle
  | .waiting op | .locked op | .computed op _ => .pending op
  | .finished op out => .lined op out

theorem mhist_step (cfg : Cfg) (lk : Op → LockKind) (K : List Key) (st st' : MSt)
    (hi : ∀ u, ThreadHist u st.hist (st.pc u).phase) (hs : MStep cfg lk K st st') :
    ∀ u, ThreadHist u st'.hist (st'.pc u).phase := by
  intro u
  cases hs with
  | invoke t op h ha =>
    dsimp only
    by_cases hu : u = t
    · subst hu; rw [upd_same]; have := hi u; rw [h] at this; exact .inv _ _ this
    · rw [upd_other _ _ _ _ hu]; exact .other _ _ _ (hi u) (fun e => hu e.symm)
  | acquireW t op h hl hw hr =>
    dsimp only
    by_cases hu : u = t
    · subst hu; rw [upd_same]; have := hi u; rw [h] at this; exact this
    · rw [upd_other _ _ _ _ hu]; exact hi u
  | acquireR t op h hl hw =>
    dsimp only
    by_cases hu : u = t
    · subst hu; rw [upd_same]; have := hi u; rw [h] at this; exact this
    · rw [upd_other _ _ _ _ hu]; exact hi u
  | noLock t op h hl =>
    dsimp only
    by_cases hu : u = t
    · subst hu; rw [upd_same]; have := hi u; rw [h] at this; exact this
    · rw [upd_other _ _ _ _ hu]; exact hi u
  | readBody t op h hro =>
    dsimp only
    by_cases hu : u = t
    · subst hu; rw [upd_same]; have := hi u; rw [h] at this; exact .lin _ _ _ this
    · rw [upd_other _ _ _ _ hu]; exact .other _ _ _ (hi u) (fun e => hu e.symm)
  | readPhase t op h hro =>
    dsimp only
    by_cases hu : u = t
    · subst hu; rw [upd_same]; have := hi u; rw [h] at this; exact this
    · rw [upd_other _ _ _ _ hu]; exact hi u
  | writePhase t op r h =>
    dsimp only
    by_cases hu : u = t
    · subst hu; rw [upd_same]; have := hi u; rw [h] at this; exact .lin _ _ _ this
    · rw [upd_other _ _ _ _ hu]; exact .other _ _ _ (hi u) (fun e => hu e.symm)
  | release t op out h =>
    dsimp only
    by_cases hu : u = t
    · subst hu; rw [upd_same]; have := hi u; rw [h] at this; exact .ret _ _ _ this
    · rw [upd_other _ _ _ _ hu]; exact .other _ _ _ (hi u) (fun e => hu e.symm)

theorem mhist_reach (cfg : Cfg) (lk : Op → LockKind) (K : List Key) (st : MSt)
    (hr : Reach (MStep cfg lk K) {} st) : ∀ u, ThreadHist u st.hist (st.pc u).phase := by
  induction hr with
  | refl => intro u; exact .nil
  | tail _ hs ih => exact mhist_step cfg lk K _ _ ih hs

/-! ### from the lock table to the hypothesis of the theorem -/

def lockOfOp (f : LockFacts) (op : Op) : LockKind := f.lockOfField (opField op)

theorem opField_mem (op : Op) : opField op ∈ tableFields := by
  cases op <;> simp [opField, tableFields]

theorem exclusive_of_table (f : LockFacts) (h : exclusiveRMW f = true) :
    (∀ op, op.readOnly = false → lockOfOp f op = .w) ∧ (∀ op, lockOfOp f op ≠ .none) := by
  simp only [exclusiveRMW, Bool.and_eq_true, List.all_eq_true] at h
  obtain ⟨⟨⟨⟨⟨⟨h1, h2⟩, _⟩, _⟩, _⟩, _⟩, _⟩ := h
  constructor
  · intro op hro
    have := h2 (opField op) (opField_mem op)
    simp only [decide_eq_true_eq] at this
    apply this.1
    rw [this.2]
    simpa [Op.readOnly] using hro
  · intro op
    have := h1 (opField op) (opField_mem op)
    simpa [lockOfOp] using this

end PubModel.C06
