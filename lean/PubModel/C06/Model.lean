/-
C06 — pisces: read-modify-write operations are atomic under concurrency.

Two transition systems over the C05 models of the operation bodies.

* `MStep` (memory): goroutines invoke operations; each acquires the lock its
  method takes (`lk op`: none / RLock / Lock, regenerated from the AST), runs its
  body, releases, returns.  A read-only body is one step.  A writing body is two:
  a read phase that computes the result from the table as it is then, and a write
  phase that installs it — so a writer that does not hold the lock exclusively can
  lose updates in this model, exactly as in the code.
* `QStep` (SQLite): one connection per goroutine; SHARED/RESERVED/EXCLUSIVE as
  states of the connections.  A single statement is atomic when it can have its
  locks (a write needs every other connection lock-free), otherwise it answers
  busy; `mutate` is `begin; select; f; update; commit`, where the update needs
  RESERVED (no other connection has it), the commit needs EXCLUSIVE (no other
  connection holds SHARED), and a refused step answers busy and rolls back.
  Busy may also strike spuriously: the theorems hold for every such run.

Both record a history of invocation, linearization and response events.
-/
import PubModel.C06.Locks

namespace PubModel.C06
open PubModel PubModel.C05

abbrev Tid := Nat

/-- history events; a busy response carries no result -/
inductive Ev
  | inv (t : Tid) (op : Op)
  | lin (t : Tid) (op : Op) (out : Out)
  | ret (t : Tid) (op : Op) (out : Option Out)

def Ev.tid : Ev → Tid
  | .inv t _ | .lin t _ _ | .ret t _ _ => t

/-- operations that took effect, in the order of their linearization points -/
def linOps : List Ev → List Op
  | [] => []
  | .lin _ op _ :: h => op :: linOps h
  | _ :: h => linOps h

def linOuts : List Ev → List Out
  | [] => []
  | .lin _ _ out :: h => out :: linOuts h
  | _ :: h => linOuts h

def upd {α : Type} (f : Tid → α) (t : Tid) (a : α) : Tid → α := fun u => if u = t then a else f u

/-- what a caller may invoke: keys from `K`, windows below 2^63 -/
def Admissible (K : List Key) (op : Op) : Prop := (∀ k, op.key = some k → k ∈ K) ∧ op.InRange

/-! ## memory -/

inductive PC
  | idle
  | waiting (op : Op)
  | locked (op : Op)
  | computed (op : Op) (r : Tab × Out)   -- read phase done
  | finished (op : Op) (out : Out)       -- body done, lock still held

structure MSt where
  tab : Tab := []
  writer : Option Tid := none
  readers : List Tid := []
  pc : Tid → PC := fun _ => .idle
  hist : List Ev := []

inductive MStep (cfg : Cfg) (lk : Op → LockKind) (K : List Key) : MSt → MSt → Prop
  | invoke (st : MSt) (t : Tid) (op : Op) (h : st.pc t = .idle) (ha : Admissible K op) :
      MStep cfg lk K st { st with pc := upd st.pc t (.waiting op), hist := st.hist ++ [.inv t op] }
  | acquireW (st : MSt) (t : Tid) (op : Op) (h : st.pc t = .waiting op) (hl : lk op = .w)
      (hw : st.writer = none) (hr : st.readers = []) :
      MStep cfg lk K st { st with pc := upd st.pc t (.locked op), writer := some t }
  | acquireR (st : MSt) (t : Tid) (op : Op) (h : st.pc t = .waiting op) (hl : lk op = .r)
      (hw : st.writer = none) :
      MStep cfg lk K st { st with pc := upd st.pc t (.locked op), readers := t :: st.readers }
  | noLock (st : MSt) (t : Tid) (op : Op) (h : st.pc t = .waiting op) (hl : lk op = .none) :
      MStep cfg lk K st { st with pc := upd st.pc t (.locked op) }
  | readBody (st : MSt) (t : Tid) (op : Op) (h : st.pc t = .locked op) (hro : op.readOnly = true) :
      MStep cfg lk K st { st with
        pc := upd st.pc t (.finished op (Mem.step cfg st.tab op).2),
        hist := st.hist ++ [.lin t op (Mem.step cfg st.tab op).2] }
  | readPhase (st : MSt) (t : Tid) (op : Op) (h : st.pc t = .locked op) (hro : op.readOnly = false) :
      MStep cfg lk K st { st with pc := upd st.pc t (.computed op (Mem.step cfg st.tab op)) }
  | writePhase (st : MSt) (t : Tid) (op : Op) (r : Tab × Out) (h : st.pc t = .computed op r) :
      MStep cfg lk K st { st with
        tab := r.1, pc := upd st.pc t (.finished op r.2), hist := st.hist ++ [.lin t op r.2] }
  | release (st : MSt) (t : Tid) (op : Op) (out : Out) (h : st.pc t = .finished op out) :
      MStep cfg lk K st { st with
        pc := upd st.pc t .idle,
        writer := if lk op = .w then none else st.writer,
        readers := if lk op = .r then st.readers.erase t else st.readers,
        hist := st.hist ++ [.ret t op (some out)] }

inductive Reach {σ : Type} (step : σ → σ → Prop) (init : σ) : σ → Prop
  | refl : Reach step init init
  | tail {a b : σ} : Reach step init a → step a b → Reach step init b

/-! ## SQLite -/

inductive Conn
  | idle
  | auto (op : Op)                                              -- a single statement, not yet run
  | txBegun (k : Key) (f : Bytes → MutRes) (mk : Key)           -- BEGIN (deferred: no lock yet)
  | txRead (k : Key) (f : Bytes → MutRes) (mk : Key) (bs : Bytes)             -- SELECT done: SHARED
  | txWrote (k : Key) (f : Bytes → MutRes) (mk : Key) (bs nb : Bytes)         -- UPDATE done: RESERVED
  | done (op : Op) (out : Option Out)                           -- response ready, locks released

def Conn.shared : Conn → Bool
  | .txRead .. | .txWrote .. => true
  | _ => false

def Conn.reserved : Conn → Bool
  | .txWrote .. => true
  | _ => false

structure QSt where
  db : Sql.Table := []
  conn : Tid → Conn := fun _ => .idle
  hist : List Ev := []

/-- the operation a connection is serving -/
def Conn.op : Conn → Option Op
  | .idle => none
  | .auto op | .done op _ => some op
  | .txBegun k f _ | .txRead k f _ _ | .txWrote k f _ _ _ => some (.mutate k f)

/-- what `KV.Mutate` returns when the callback refuses -/
def refusedOut (cfg : Cfg) (bs : Bytes) (r : Res) : Out :=
  .mutated (if cfg.valid bs then some bs else none) (if r = .cancelled then .ok else r)

/-- `KV.Mutate` with a key the store accepts opens a transaction; everything else is one statement
    (a key that is too long is refused before the backend is reached, which `Sql.step` covers) -/
def invokeConn (cfg : Cfg) (op : Op) : Conn :=
  match op with
  | .mutate k f =>
    match mapKey cfg k with
    | some mk => .txBegun k f mk
    | none => .auto op
  | _ => .auto op

inductive QStep (cfg : Cfg) (K : List Key) : QSt → QSt → Prop
  | invoke (st : QSt) (t : Tid) (op : Op) (h : st.conn t = .idle) (ha : Admissible K op) :
      QStep cfg K st { st with
        conn := upd st.conn t (invokeConn cfg op),
        hist := st.hist ++ [.inv t op] }
  /-- an autocommit statement that gets its locks: a write needs EXCLUSIVE, i.e. no other
      connection holding SHARED or RESERVED -/
  | auto (st : QSt) (t : Tid) (op : Op) (h : st.conn t = .auto op)
      (hg : op.readOnly = true ∨ ∀ u, u ≠ t → (st.conn u).shared = false) :
      QStep cfg K st { st with
        db := (Sql.step cfg st.db op).1,
        conn := upd st.conn t (.done op (some (Sql.step cfg st.db op).2)),
        hist := st.hist ++ [.lin t op (Sql.step cfg st.db op).2] }
  /-- any pending step may be refused: error result, rollback, nothing written -/
  | busy (st : QSt) (t : Tid) (op : Op) (h : (st.conn t).op = some op) (hn : ∀ o, st.conn t ≠ .done op o) :
      QStep cfg K st { st with conn := upd st.conn t (.done op none) }
  | txSelectMiss (st : QSt) (t : Tid) (k : Key) (f : Bytes → MutRes) (mk : Key)
      (h : st.conn t = .txBegun k f mk) (hm : Sql.selectV st.db mk = none) :
      QStep cfg K st { st with
        conn := upd st.conn t (.done (.mutate k f) (some (.res .notFound))),
        hist := st.hist ++ [.lin t (.mutate k f) (.res .notFound)] }
  | txSelect (st : QSt) (t : Tid) (k : Key) (f : Bytes → MutRes) (mk : Key) (bs : Bytes)
      (h : st.conn t = .txBegun k f mk) (hm : Sql.selectV st.db mk = some bs) :
      QStep cfg K st { st with conn := upd st.conn t (.txRead k f mk bs) }
  | txRefuse (st : QSt) (t : Tid) (k : Key) (f : Bytes → MutRes) (mk : Key) (bs : Bytes) (r : Res)
      (h : st.conn t = .txRead k f mk bs) (hf : KV.mutFn cfg f bs = .error r) :
      QStep cfg K st { st with
        conn := upd st.conn t (.done (.mutate k f) (some (refusedOut cfg bs r))),
        hist := st.hist ++ [.lin t (.mutate k f) (refusedOut cfg bs r)] }
  /-- the UPDATE: needs RESERVED, which at most one connection holds -/
  | txUpdate (st : QSt) (t : Tid) (k : Key) (f : Bytes → MutRes) (mk : Key) (bs nb : Bytes)
      (h : st.conn t = .txRead k f mk bs) (hf : KV.mutFn cfg f bs = .ok nb)
      (hg : ∀ u, u ≠ t → (st.conn u).reserved = false) :
      QStep cfg K st { st with conn := upd st.conn t (.txWrote k f mk bs nb) }
  /-- the COMMIT: needs EXCLUSIVE, i.e. no other connection still holding SHARED -/
  | txCommit (st : QSt) (t : Tid) (k : Key) (f : Bytes → MutRes) (mk : Key) (bs nb : Bytes)
      (h : st.conn t = .txWrote k f mk bs nb) (hg : ∀ u, u ≠ t → (st.conn u).shared = false) :
      QStep cfg K st { st with
        db := Sql.setV mk (fun _ => nb) st.db,
        conn := upd st.conn t (.done (.mutate k f) (some (.mutated (some bs) .ok))),
        hist := st.hist ++ [.lin t (.mutate k f) (.mutated (some bs) .ok)] }
  | ret (st : QSt) (t : Tid) (op : Op) (out : Option Out) (h : st.conn t = .done op out) :
      QStep cfg K st { st with conn := upd st.conn t .idle, hist := st.hist ++ [.ret t op out] }

end PubModel.C06
