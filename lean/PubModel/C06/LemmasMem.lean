/-
C06 — the memory transition system: invariant and its preservation.
-/
import PubModel.C06.Model
import PubModel.C05.LemmasSql

namespace PubModel.C06
open PubModel PubModel.C05

/-! ### sequential runs and histories -/

theorem run_append (cfg : Cfg) (s : Tab) (l : List Op) (op : Op) :
    Spec.run cfg s (l ++ [op]) =
      ((Spec.step cfg (Spec.run cfg s l).1 op).1, (Spec.run cfg s l).2 ++ [(Spec.step cfg (Spec.run cfg s l).1 op).2]) := by
  induction l generalizing s with
  | nil => simp [Spec.run]
  | cons a l ih => simp [Spec.run, ih]

theorem linOps_append (h : List Ev) (e : Ev) :
    linOps (h ++ [e]) = linOps h ++ (match e with | .lin _ op _ => [op] | _ => []) := by
  induction h with
  | nil => cases e <;> rfl
  | cons a h ih => cases a <;> simp [linOps, ih]

theorem linOuts_append (h : List Ev) (e : Ev) :
    linOuts (h ++ [e]) = linOuts h ++ (match e with | .lin _ _ out => [out] | _ => []) := by
  induction h with
  | nil => cases e <;> rfl
  | cons a h ih => cases a <;> simp [linOuts, ih]

/-- a read-only body leaves the memory table as it is -/
theorem readOnly_mem (cfg : Cfg) (m : Tab) (op : Op) (h : op.readOnly = true) : (Mem.step cfg m op).1 = m := by
  cases op <;> simp [Op.readOnly, readOnlyFields, opField] at h <;>
    simp only [Mem.step, KV.step, KV.onKey, KV.walkOut]
  all_goals (repeat' split) <;> rfl

/-- … and so does a read-only statement on the SQL table -/
theorem readOnly_sql (cfg : Cfg) (t : Sql.Table) (op : Op) (h : op.readOnly = true) : (Sql.step cfg t op).1 = t := by
  cases op <;> simp [Op.readOnly, readOnlyFields, opField] at h <;>
    simp only [Sql.step, KV.step, KV.onKey, KV.walkOut]
  all_goals (repeat' split) <;> rfl

/-! ### the invariant -/

def PC.op : PC → Option Op
  | .idle => none
  | .waiting op | .locked op | .computed op _ | .finished op _ => some op

def PC.holds : PC → Bool
  | .locked _ | .computed _ _ | .finished _ _ => true
  | _ => false

/-- the state of the reference map after the operations linearized so far -/
def specOf (cfg : Cfg) (h : List Ev) : Tab × List Out := Spec.run cfg [] (linOps h)

structure MInv (cfg : Cfg) (lk : Op → LockKind) (K : List Key) (st : MSt) : Prop where
  /-- whoever is inside a body that takes the exclusive lock is the registered writer -/
  holdW : ∀ t op, (st.pc t).op = some op → (st.pc t).holds = true → lk op = .w → st.writer = some t
  /-- a result computed in a read phase is still the result on the current table -/
  snap : ∀ t op r, st.pc t = .computed op r → r = Mem.step cfg st.tab op ∧ op.readOnly = false
  adm : ∀ t op, (st.pc t).op = some op → Admissible K op
  outs : (specOf cfg st.hist).2 = linOuts st.hist
  tab : st.tab = repMem cfg (specOf cfg st.hist).1
  good : Good K (specOf cfg st.hist).1

theorem minv_init (cfg : Cfg) (lk : Op → LockKind) (K : List Key) : MInv cfg lk K {} := by
  refine ⟨?_, ?_, ?_, rfl, rfl, Good.nil⟩ <;> intro t <;> simp [PC.op]

theorem upd_same {α : Type} (f : Tid → α) (t : Tid) (a : α) : upd f t a t = a := by simp [upd]
theorem upd_other {α : Type} (f : Tid → α) (t u : Tid) (a : α) (h : u ≠ t) : upd f t a u = f u := by simp [upd, h]

/-- the log part of the invariant after a linearization point -/
theorem log_step (cfg : Cfg) (hfix : cfg.memReplaceKeeps = true) (K : List Key) (hK : InjOn (ordKey cfg) K)
    (hist : List Ev) (tab : Tab) (t : Tid) (op : Op) (ha : Admissible K op)
    (houts : (specOf cfg hist).2 = linOuts hist) (htab : tab = repMem cfg (specOf cfg hist).1)
    (hgood : Good K (specOf cfg hist).1) :
    (specOf cfg (hist ++ [.lin t op (Mem.step cfg tab op).2])).2 = linOuts (hist ++ [.lin t op (Mem.step cfg tab op).2]) ∧
    (Mem.step cfg tab op).1 = repMem cfg (specOf cfg (hist ++ [.lin t op (Mem.step cfg tab op).2])).1 ∧
    Good K (specOf cfg (hist ++ [.lin t op (Mem.step cfg tab op).2])).1 := by
  have href := mem_step_refines hfix hK hgood op ha.1 ha.2
  simp only [specOf, linOps_append, linOuts_append, run_append] at *
  rw [htab, href]
  refine ⟨by rw [houts], rfl, spec_step_good hgood op ha.1⟩

theorem minv_step (cfg : Cfg) (hfix : cfg.memReplaceKeeps = true) (lk : Op → LockKind)
    (hex : ∀ op, op.readOnly = false → lk op = .w) (K : List Key) (hK : InjOn (ordKey cfg) K)
    (st st' : MSt) (hi : MInv cfg lk K st) (hs : MStep cfg lk K st st') : MInv cfg lk K st' := by
  cases hs with
  | invoke t op h ha =>
    refine ⟨?_, ?_, ?_, ?_, hi.tab.trans (by simp [specOf, linOps_append]), by simpa [specOf, linOps_append] using hi.good⟩
    · intro u o ho hh hl
      try dsimp only at *
      by_cases hu : u = t
      · subst hu; simp [upd_same, PC.holds] at hh
      · rw [upd_other _ _ _ _ hu] at ho hh; exact hi.holdW u o ho hh hl
    · intro u o r hc
      try dsimp only at *
      by_cases hu : u = t
      · subst hu; simp [upd_same] at hc
      · rw [upd_other _ _ _ _ hu] at hc; exact hi.snap u o r hc
    · intro u o ho
      try dsimp only at *
      by_cases hu : u = t
      · subst hu; simp [upd_same, PC.op] at ho; subst ho; exact ha
      · rw [upd_other _ _ _ _ hu] at ho; exact hi.adm u o ho
    · simpa [specOf, linOps_append, linOuts_append] using hi.outs
  | acquireW t op h hl hw hr =>
    refine ⟨?_, ?_, ?_, hi.outs, hi.tab, hi.good⟩
    · intro u o ho hh hlo
      try dsimp only at *
      by_cases hu : u = t
      · subst hu; rfl
      · rw [upd_other _ _ _ _ hu] at ho hh
        have := hi.holdW u o ho hh hlo
        rw [hw] at this; cases this
    · intro u o r hc
      try dsimp only at *
      by_cases hu : u = t
      · subst hu; simp [upd_same] at hc
      · rw [upd_other _ _ _ _ hu] at hc; exact hi.snap u o r hc
    · intro u o ho
      try dsimp only at *
      by_cases hu : u = t
      · subst hu; simp [upd_same, PC.op] at ho; subst ho; exact hi.adm u op (by simp [h, PC.op])
      · rw [upd_other _ _ _ _ hu] at ho; exact hi.adm u o ho
  | acquireR t op h hl hw =>
    refine ⟨?_, ?_, ?_, hi.outs, hi.tab, hi.good⟩
    · intro u o ho hh hlo
      try dsimp only at *
      by_cases hu : u = t
      · subst hu; simp [upd_same, PC.op] at ho; subst ho; rw [hl] at hlo; cases hlo
      · rw [upd_other _ _ _ _ hu] at ho hh; exact hi.holdW u o ho hh hlo
    · intro u o r hc
      try dsimp only at *
      by_cases hu : u = t
      · subst hu; simp [upd_same] at hc
      · rw [upd_other _ _ _ _ hu] at hc; exact hi.snap u o r hc
    · intro u o ho
      try dsimp only at *
      by_cases hu : u = t
      · subst hu; simp [upd_same, PC.op] at ho; subst ho; exact hi.adm u op (by simp [h, PC.op])
      · rw [upd_other _ _ _ _ hu] at ho; exact hi.adm u o ho
  | noLock t op h hl =>
    refine ⟨?_, ?_, ?_, hi.outs, hi.tab, hi.good⟩
    · intro u o ho hh hlo
      try dsimp only at *
      by_cases hu : u = t
      · subst hu; simp [upd_same, PC.op] at ho; subst ho; rw [hl] at hlo; cases hlo
      · rw [upd_other _ _ _ _ hu] at ho hh; exact hi.holdW u o ho hh hlo
    · intro u o r hc
      try dsimp only at *
      by_cases hu : u = t
      · subst hu; simp [upd_same] at hc
      · rw [upd_other _ _ _ _ hu] at hc; exact hi.snap u o r hc
    · intro u o ho
      try dsimp only at *
      by_cases hu : u = t
      · subst hu; simp [upd_same, PC.op] at ho; subst ho; exact hi.adm u op (by simp [h, PC.op])
      · rw [upd_other _ _ _ _ hu] at ho; exact hi.adm u o ho
  | readBody t op h hro =>
    have ha := hi.adm t op (by simp [h, PC.op])
    have hl := log_step cfg hfix K hK st.hist st.tab t op ha hi.outs hi.tab hi.good
    refine ⟨?_, ?_, ?_, hl.1, ?_, hl.2.2⟩
    · intro u o ho hh hlo
      try dsimp only at *
      by_cases hu : u = t
      · subst hu; simp [upd_same, PC.op] at ho; subst ho
        exact hi.holdW u op (by simp [h, PC.op]) (by simp [h, PC.holds]) hlo
      · rw [upd_other _ _ _ _ hu] at ho hh; exact hi.holdW u o ho hh hlo
    · intro u o r hc
      try dsimp only at *
      by_cases hu : u = t
      · subst hu; simp [upd_same] at hc
      · rw [upd_other _ _ _ _ hu] at hc; exact hi.snap u o r hc
    · intro u o ho
      try dsimp only at *
      by_cases hu : u = t
      · subst hu; simp [upd_same, PC.op] at ho; subst ho; exact ha
      · rw [upd_other _ _ _ _ hu] at ho; exact hi.adm u o ho
    · have := hl.2.1
      rw [readOnly_mem cfg st.tab op hro] at this
      exact this
  | readPhase t op h hro =>
    refine ⟨?_, ?_, ?_, hi.outs, hi.tab, hi.good⟩
    · intro u o ho hh hlo
      try dsimp only at *
      by_cases hu : u = t
      · subst hu; simp [upd_same, PC.op] at ho; subst ho
        exact hi.holdW u op (by simp [h, PC.op]) (by simp [h, PC.holds]) hlo
      · rw [upd_other _ _ _ _ hu] at ho hh; exact hi.holdW u o ho hh hlo
    · intro u o r hc
      try dsimp only at *
      by_cases hu : u = t
      · subst hu; simp [upd_same] at hc
        obtain ⟨rfl, rfl⟩ := hc
        exact ⟨rfl, hro⟩
      · rw [upd_other _ _ _ _ hu] at hc; exact hi.snap u o r hc
    · intro u o ho
      try dsimp only at *
      by_cases hu : u = t
      · subst hu; simp [upd_same, PC.op] at ho; subst ho; exact hi.adm u op (by simp [h, PC.op])
      · rw [upd_other _ _ _ _ hu] at ho; exact hi.adm u o ho
  | writePhase t op r h =>
    have ha := hi.adm t op (by simp [h, PC.op])
    obtain ⟨hr, hro⟩ := hi.snap t op r h
    have hwt := hi.holdW t op (by simp [h, PC.op]) (by simp [h, PC.holds]) (hex op hro)
    have hl := log_step cfg hfix K hK st.hist st.tab t op ha hi.outs hi.tab hi.good
    rw [← hr] at hl
    refine ⟨?_, ?_, ?_, hl.1, hl.2.1, hl.2.2⟩
    · intro u o ho hh hlo
      try dsimp only at *
      by_cases hu : u = t
      · subst hu; exact hwt
      · rw [upd_other _ _ _ _ hu] at ho hh; exact hi.holdW u o ho hh hlo
    · intro u o r' hc
      try dsimp only at *
      by_cases hu : u = t
      · subst hu; simp [upd_same] at hc
      · -- another thread in its write section would also be the registered writer
        rw [upd_other _ _ _ _ hu] at hc
        obtain ⟨_, hro'⟩ := hi.snap u o r' hc
        have := hi.holdW u o (by simp [hc, PC.op]) (by simp [hc, PC.holds]) (hex o hro')
        rw [hwt] at this
        exact absurd (Option.some.inj this).symm hu
    · intro u o ho
      try dsimp only at *
      by_cases hu : u = t
      · subst hu; simp [upd_same, PC.op] at ho; subst ho; exact ha
      · rw [upd_other _ _ _ _ hu] at ho; exact hi.adm u o ho
  | release t op out h =>
    refine ⟨?_, ?_, ?_, ?_, hi.tab.trans (by simp [specOf, linOps_append]), by simpa [specOf, linOps_append] using hi.good⟩
    · intro u o ho hh hlo
      try dsimp only at *
      by_cases hu : u = t
      · subst hu; simp [upd_same, PC.holds] at hh
      · rw [upd_other _ _ _ _ hu] at ho hh
        have hw := hi.holdW u o ho hh hlo
        by_cases hl : lk op = .w
        · have := hi.holdW t op (by simp [h, PC.op]) (by simp [h, PC.holds]) hl
          rw [hw] at this
          exact absurd (Option.some.inj this) hu
        · simp [hl, hw]
    · intro u o r hc
      try dsimp only at *
      by_cases hu : u = t
      · subst hu; simp [upd_same] at hc
      · rw [upd_other _ _ _ _ hu] at hc; exact hi.snap u o r hc
    · intro u o ho
      try dsimp only at *
      by_cases hu : u = t
      · subst hu; simp [upd_same, PC.op] at ho
      · rw [upd_other _ _ _ _ hu] at ho; exact hi.adm u o ho
    · simpa [specOf, linOps_append, linOuts_append] using hi.outs

theorem minv_reach (cfg : Cfg) (hfix : cfg.memReplaceKeeps = true) (lk : Op → LockKind)
    (hex : ∀ op, op.readOnly = false → lk op = .w) (K : List Key) (hK : InjOn (ordKey cfg) K)
    (st : MSt) (hr : Reach (MStep cfg lk K) {} st) : MInv cfg lk K st := by
  induction hr with
  | refl => exact minv_init cfg lk K
  | tail _ hs ih => exact minv_step cfg hfix lk hex K hK _ _ ih hs

end PubModel.C06
