/-
C06 — facts about sequential runs of the reference map that the corollaries need:
operations on other keys do not touch a key, an error result changes nothing,
increments add up, a present key stays under Add/Emplace.
-/
import PubModel.C05.LemmasSpec
import PubModel.C05.LemmasMem

namespace PubModel.C06
open PubModel PubModel.C05

/-- could the operation change what key `k` holds? -/
def touches (k : Key) : Op → Bool
  | .clear => true
  | .add k' _ | .addClass k' _ _ | .setClass k' _ | .remove k' | .emplace k' _ | .replace k' _
  | .appendBytes k' _ | .setBytes k' _ | .set k' _ | .mutate k' _ => k' = k
  | _ => false

section
variable (cfg : Cfg) (s : Tab) (k : Key)

/-- **frame**: an operation that does not address `k` (and is not Clear) leaves `k` alone -/
theorem step_frame (op : Op) (h : touches k op = false) : (Spec.step cfg s op).1.get k = s.get k := by
  cases op <;> simp only [touches, decide_eq_false_iff_not] at h <;>
    simp only [Spec.step, Spec.addClass, Spec.update, Spec.upsert, Spec.walk]
  all_goals first
    | rfl
    | (have h' : k ≠ _ := fun e => h e.symm
       repeat' split
       all_goals first
         | rfl
         | exact get_modify_ne _ h'
         | exact get_append_ne _ h'
         | exact get_del_ne h')
    | (repeat' split) <;> rfl
    | cases h

/-- **an operation that reports an error has changed nothing** -/
theorem step_error_unchanged (op : Op) :
    (∀ r, (Spec.step cfg s op).2 = .res r → r ≠ .ok → (Spec.step cfg s op).1 = s) ∧
    (∀ saw r, (Spec.step cfg s op).2 = .mutated saw r → r ≠ .ok → (Spec.step cfg s op).1 = s) := by
  cases op <;> simp only [Spec.step, Spec.addClass, Spec.update, Spec.upsert, Spec.walk] <;>
    constructor <;> intros <;> (repeat' split at *) <;> simp_all

end

/-! ### increments -/

/-- the increment callback: always answers `put (g old)` -/
def incF (g : Bytes → Bytes) : Bytes → MutRes := fun b => .put (g b)

/-- successful increments among the tagged positions of a run -/
def incOk : List (Bool × Op) → List Out → Nat
  | (true, _) :: r, .mutated (some _) .ok :: outs => incOk r outs + 1
  | _ :: r, _ :: outs => incOk r outs
  | _, _ => 0

/-- `g` applied `n` times -/
def iter {α : Type} (g : α → α) : Nat → α → α
  | 0, a => a
  | n + 1, a => iter g n (g a)

theorem incs_add_up (cfg : Cfg) (g : Bytes → Bytes) (k : Key) (hk : keyOk cfg k = true)
    (tops : List (Bool × Op))
    (h : ∀ p ∈ tops, (p.1 = true → p.2 = .mutate k (incF g)) ∧ (p.1 = false → touches k p.2 = false))
    (s : Tab) (e : Entry) (hs : s.get k = some e) :
    ((Spec.run cfg s (tops.map (·.2))).1.get k).map (·.val) =
      some (iter g (incOk tops (Spec.run cfg s (tops.map (·.2))).2) e.val) ∧
    ((Spec.run cfg s (tops.map (·.2))).1.get k).map (·.cls) = some e.cls := by
  induction tops generalizing s e with
  | nil => simp [Spec.run, incOk, hs, iter]
  | cons p tops ih =>
    obtain ⟨tag, op⟩ := p
    have hp := h (tag, op) List.mem_cons_self
    have ih' := ih (fun q hq => h q (List.mem_cons_of_mem _ hq))
    simp only [List.map_cons, Spec.run]
    cases tag with
    | false =>
      have hf := step_frame cfg s k op (hp.2 rfl)
      have := ih' (Spec.step cfg s op).1 e (hf.trans hs)
      simpa [incOk] using this
    | true =>
      have hop := hp.1 rfl
      simp only at hop
      subst hop
      by_cases hv : cfg.valid e.val = true
      · have hst : Spec.step cfg s (.mutate k (incF g)) =
            (s.modify k (Spec.setVal (g e.val)), .mutated (some e.val) .ok) := by
          simp [Spec.step, hk, hs, hv, incF]
        have hg : (s.modify k (Spec.setVal (g e.val))).get k = some ⟨e.cls, g e.val⟩ := by
          rw [get_modify_self, hs]; rfl
        have := ih' _ _ hg
        rw [hst]
        simp only [incOk, iter]
        exact this
      · have hst : Spec.step cfg s (.mutate k (incF g)) = (s, .mutated none .badJson) := by
          simp [Spec.step, hk, hs, hv]
        have := ih' s e hs
        rw [hst]
        simpa [incOk] using this

/-! ### a present key stays under Add / Emplace and operations elsewhere -/

/-- an Add or Emplace on `k` -/
def isAddOrEmplace (k : Key) (op : Op) : Prop :=
  (∃ v, op = .add k v) ∨ (∃ c v, op = .addClass k c v) ∨ (∃ v, op = .emplace k v)

theorem present_stays_step (cfg : Cfg) (s : Tab) (k : Key) (hk : keyOk cfg k = true) (e : Entry)
    (hs : s.get k = some e) (op : Op) (h : touches k op = false ∨ isAddOrEmplace k op) :
    (Spec.step cfg s op).1.get k = some e ∧
    ((∃ v, op = .add k v) ∨ (∃ c v, op = .addClass k c v) → (Spec.step cfg s op).2 = .res .exists) := by
  rcases h with h | ⟨v, rfl⟩ | ⟨c, v, rfl⟩ | ⟨v, rfl⟩
  · refine ⟨(step_frame cfg s k op h).trans hs, ?_⟩
    rintro (⟨v, rfl⟩ | ⟨c, v, rfl⟩) <;> simp [touches] at h
  · simp [Spec.step, Spec.addClass, hk, hs]
  · simp [Spec.step, Spec.addClass, hk, hs]
  · simp [Spec.step, Spec.upsert, hk, hs, modify_id]

theorem present_stays_run (cfg : Cfg) (k : Key) (hk : keyOk cfg k = true) (ops : List Op)
    (h : ∀ op ∈ ops, touches k op = false ∨ isAddOrEmplace k op) (s : Tab) (e : Entry)
    (hs : s.get k = some e) :
    (Spec.run cfg s ops).1.get k = some e ∧
    ∀ p ∈ ops.zip (Spec.run cfg s ops).2,
      ((∃ v, p.1 = .add k v) ∨ (∃ c v, p.1 = .addClass k c v)) → p.2 = .res .exists := by
  induction ops generalizing s with
  | nil => simp [Spec.run, hs]
  | cons op ops ih =>
    have h1 := present_stays_step cfg s k hk e hs op (h op List.mem_cons_self)
    have ih' := ih (fun o ho => h o (List.mem_cons_of_mem _ ho)) _ h1.1
    simp only [Spec.run]
    refine ⟨ih'.1, ?_⟩
    intro p hp
    simp only [List.zip_cons_cons, List.mem_cons] at hp
    rcases hp with rfl | hp
    · exact h1.2
    · exact ih'.2 p hp

end PubModel.C06
