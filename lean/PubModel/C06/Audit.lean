import PubModel.C06.Theorems
open PubModel.C06
#print axioms mem_linearizable
#print axioms gen_mem_linearizable
#print axioms mem_writer_alone
#print axioms sql_mutate_serializable
#print axioms sql_busy_changes_nothing
#print axioms sql_one_reserved
#print axioms no_lost_increment
#print axioms add_succeeds_at_most_once_and_holds_value
#print axioms emplace_keeps_first
#print axioms failure_is_reported
#print axioms mem_append_under_rlock_loses_update
#print axioms exclusive_of_table
#print axioms step_frame
#print axioms gen_memLocking_exclusiveRMW
#print axioms gen_sqlMutateSeq
