/-
C06 — the SQLite transition system: invariant and its preservation.
-/
import PubModel.C06.LemmasHist

namespace PubModel.C06
open PubModel PubModel.C05

/-- the key, callback, mapped key and bytes of a transaction that has done its SELECT -/
def Conn.reading : Conn → Option (Key × (Bytes → MutRes) × Key × Bytes)
  | .txRead k f mk bs => some (k, f, mk, bs)
  | .txWrote k f mk bs _ => some (k, f, mk, bs)
  | _ => none

theorem Conn.reading_shared {c : Conn} {x} (h : c.reading = some x) : c.shared = true := by
  cases c <;> simp [Conn.reading, Conn.shared] at h ⊢

structure QInv (cfg : Cfg) (K : List Key) (st : QSt) : Prop where
  /-- what a transaction read is still what the database holds -/
  reads : ∀ t k f mk bs, (st.conn t).reading = some (k, f, mk, bs) →
    mapKey cfg k = some mk ∧ Sql.selectV st.db mk = some bs ∧ k ∈ K
  wrote : ∀ t k f mk bs nb, st.conn t = .txWrote k f mk bs nb → KV.mutFn cfg f bs = .ok nb
  begun : ∀ t k f mk, st.conn t = .txBegun k f mk → mapKey cfg k = some mk ∧ k ∈ K
  adm : ∀ t op, st.conn t = .auto op → Admissible K op
  outs : (specOf cfg st.hist).2 = linOuts st.hist
  db : st.db = repSql cfg (specOf cfg st.hist).1
  good : Good K (specOf cfg st.hist).1

theorem qinv_init (cfg : Cfg) (K : List Key) : QInv cfg K {} := by
  refine ⟨?_, ?_, ?_, ?_, rfl, rfl, Good.nil⟩ <;> intro t <;> simp [Conn.reading]

/-- the log part of the invariant after a linearization point whose effect is that of
    the whole operation run on the current database -/
theorem qlog_step (cfg : Cfg) (hfix : cfg.sqlNilGuard = true) (K : List Key) (hK : InjOn (ordKey cfg) K)
    (hist : List Ev) (db db' : Sql.Table) (t : Tid) (op : Op) (out : Out) (hk : ∀ k, op.key = some k → k ∈ K)
    (hstep : Sql.step cfg db op = (db', out))
    (houts : (specOf cfg hist).2 = linOuts hist) (hdb : db = repSql cfg (specOf cfg hist).1)
    (hgood : Good K (specOf cfg hist).1) :
    (specOf cfg (hist ++ [.lin t op out])).2 = linOuts (hist ++ [.lin t op out]) ∧
    db' = repSql cfg (specOf cfg (hist ++ [.lin t op out])).1 ∧
    Good K (specOf cfg (hist ++ [.lin t op out])).1 := by
  have href := sql_step_refines hfix hK hgood op hk
  rw [← hdb, hstep] at href
  simp only [specOf, linOps_append, linOuts_append, run_append] at *
  have h1 := congrArg Prod.fst href
  have h2 := congrArg Prod.snd href
  simp only at h1 h2
  refine ⟨by rw [houts, h2], h1, spec_step_good hgood op hk⟩

section
variable {cfg : Cfg} {K : List Key} {s : Tab} {k mk : Key} {f : Bytes → MutRes} {bs nb : Bytes}

theorem mapKey_some (h : mapKey cfg k = some mk) : mk = ordKey cfg k ∧ keyOk cfg k = true := by
  rw [mapKey_eq] at h
  by_cases hk : keyOk cfg k = true
  · simp [hk] at h; exact ⟨h.symm, hk⟩
  · simp [hk] at h

theorem sql_mutate_miss (hm : mapKey cfg k = some mk) (db : Sql.Table) (hsel : Sql.selectV db mk = none) :
    Sql.step cfg db (.mutate k f) = (db, .res .notFound) := by
  simp [Sql.step, KV.step, KV.onKey, hm, Sql.ops, hsel]

theorem sql_mutate_refused (hm : mapKey cfg k = some mk) (db : Sql.Table) (hsel : Sql.selectV db mk = some bs)
    (r : Res) (hf : KV.mutFn cfg f bs = .error r) :
    Sql.step cfg db (.mutate k f) = (db, refusedOut cfg bs r) := by
  simp [Sql.step, KV.step, KV.onKey, hm, Sql.ops, hsel, hf, refusedOut]

theorem mutFn_ok_valid (h : KV.mutFn cfg f bs = .ok nb) : cfg.valid bs = true := by
  unfold KV.mutFn at h
  by_cases hv : cfg.valid bs = true
  · exact hv
  · simp [hv] at h

theorem sql_mutate_commit (hK : InjOn (ordKey cfg) K) (hs : Good K s) (hk : k ∈ K)
    (hm : mapKey cfg k = some mk) (hsel : Sql.selectV (repSql cfg s) mk = some bs)
    (hf : KV.mutFn cfg f bs = .ok nb) :
    Sql.step cfg (repSql cfg s) (.mutate k f) = (Sql.setV mk (fun _ => nb) (repSql cfg s), .mutated (some bs) .ok) := by
  obtain ⟨rfl, _⟩ := mapKey_some hm
  have hget : (s.get k).isSome = true := by
    have := repSql_find hK hs hk
    unfold Sql.selectV at hsel
    rw [this] at hsel
    cases hg : s.get k <;> simp [hg] at hsel ⊢
  have hc := repSql_countP hK hs hk
  simp only [hget, if_true] at hc
  have hv := mutFn_ok_valid hf
  have hu : Sql.updateV (repSql cfg s) (ordKey cfg k) (some nb) =
      (Sql.setV (ordKey cfg k) (fun _ => nb) (repSql cfg s), .done 1) := by
    simp only [Sql.updateV, hc]
    simp
  simp only [Sql.step, KV.step, KV.onKey, hm, Sql.ops, hsel, hf, hu, Sql.execRes, Sql.sqlResError]
  simp [hv]

end

theorem invokeConn_cases (cfg : Cfg) (op : Op) :
    invokeConn cfg op = .auto op ∨ ∃ k f mk, op = .mutate k f ∧ mapKey cfg k = some mk ∧ invokeConn cfg op = .txBegun k f mk := by
  cases op <;> simp [invokeConn]
  rename_i k f
  cases h : mapKey cfg k with
  | none => simp
  | some mk => simp; exact ⟨k, f, ⟨rfl, rfl⟩, mk, h, rfl, rfl, rfl⟩

theorem qinv_step (cfg : Cfg) (hfix : cfg.sqlNilGuard = true) (K : List Key) (hK : InjOn (ordKey cfg) K)
    (st st' : QSt) (hi : QInv cfg K st) (hs : QStep cfg K st st') : QInv cfg K st' := by
  cases hs with
  | invoke t op h ha =>
    refine ⟨?_, ?_, ?_, ?_, ?_, hi.db.trans (by simp [specOf, linOps_append]), by simpa [specOf, linOps_append] using hi.good⟩
    · intro u k f mk bs hr
      try dsimp only at *
      by_cases hu : u = t
      · subst hu; rw [upd_same] at hr
        rcases invokeConn_cases cfg op with hc | ⟨k', f', mk', _, _, hc⟩ <;> rw [hc] at hr <;> simp [Conn.reading] at hr
      · rw [upd_other _ _ _ _ hu] at hr; exact hi.reads u k f mk bs hr
    · intro u k f mk bs nb hc
      try dsimp only at *
      by_cases hu : u = t
      · subst hu; rw [upd_same] at hc
        rcases invokeConn_cases cfg op with hc' | ⟨k', f', mk', _, _, hc'⟩ <;> rw [hc'] at hc <;> simp at hc
      · rw [upd_other _ _ _ _ hu] at hc; exact hi.wrote u k f mk bs nb hc
    · intro u k f mk hc
      try dsimp only at *
      by_cases hu : u = t
      · subst hu; rw [upd_same] at hc
        rcases invokeConn_cases cfg op with hc' | ⟨k', f', mk', hop, hmk, hc'⟩ <;> rw [hc'] at hc <;> simp at hc
        obtain ⟨rfl, rfl, rfl⟩ := hc
        subst hop
        exact ⟨hmk, ha.1 _ rfl⟩
      · rw [upd_other _ _ _ _ hu] at hc; exact hi.begun u k f mk hc
    · intro u o hc
      try dsimp only at *
      by_cases hu : u = t
      · subst hu; rw [upd_same] at hc
        rcases invokeConn_cases cfg op with hc' | ⟨k', f', mk', _, _, hc'⟩ <;> rw [hc'] at hc <;> simp at hc
        subst hc; exact ha
      · rw [upd_other _ _ _ _ hu] at hc; exact hi.adm u o hc
    · simpa [specOf, linOps_append, linOuts_append] using hi.outs
  | auto t op h hg =>
    have ha := hi.adm t op h
    have hl := qlog_step cfg hfix K hK st.hist st.db _ t op _ ha.1 rfl hi.outs hi.db hi.good
    refine ⟨?_, ?_, ?_, ?_, hl.1, hl.2.1, hl.2.2⟩
    · intro u k f mk bs hr
      try dsimp only at *
      by_cases hu : u = t
      · subst hu; rw [upd_same] at hr; simp [Conn.reading] at hr
      · rw [upd_other _ _ _ _ hu] at hr
        rcases hg with hro | hg
        · rw [readOnly_sql cfg st.db op hro]; exact hi.reads u k f mk bs hr
        · have := hg u hu
          rw [Conn.reading_shared hr] at this; cases this
    · intro u k f mk bs nb hc
      try dsimp only at *
      by_cases hu : u = t
      · subst hu; rw [upd_same] at hc; simp at hc
      · rw [upd_other _ _ _ _ hu] at hc; exact hi.wrote u k f mk bs nb hc
    · intro u k f mk hc
      try dsimp only at *
      by_cases hu : u = t
      · subst hu; rw [upd_same] at hc; simp at hc
      · rw [upd_other _ _ _ _ hu] at hc; exact hi.begun u k f mk hc
    · intro u o hc
      try dsimp only at *
      by_cases hu : u = t
      · subst hu; rw [upd_same] at hc; simp at hc
      · rw [upd_other _ _ _ _ hu] at hc; exact hi.adm u o hc
  | busy t op h hn =>
    refine ⟨?_, ?_, ?_, ?_, hi.outs, hi.db, hi.good⟩
    · intro u k f mk bs hr
      try dsimp only at *
      by_cases hu : u = t
      · subst hu; rw [upd_same] at hr; simp [Conn.reading] at hr
      · rw [upd_other _ _ _ _ hu] at hr; exact hi.reads u k f mk bs hr
    · intro u k f mk bs nb hc
      try dsimp only at *
      by_cases hu : u = t
      · subst hu; rw [upd_same] at hc; simp at hc
      · rw [upd_other _ _ _ _ hu] at hc; exact hi.wrote u k f mk bs nb hc
    · intro u k f mk hc
      try dsimp only at *
      by_cases hu : u = t
      · subst hu; rw [upd_same] at hc; simp at hc
      · rw [upd_other _ _ _ _ hu] at hc; exact hi.begun u k f mk hc
    · intro u o hc
      try dsimp only at *
      by_cases hu : u = t
      · subst hu; rw [upd_same] at hc; simp at hc
      · rw [upd_other _ _ _ _ hu] at hc; exact hi.adm u o hc
  | txSelectMiss t k f mk h hm =>
    obtain ⟨hmk, hk⟩ := hi.begun t k f mk h
    have hl := qlog_step cfg hfix K hK st.hist st.db st.db t (.mutate k f) (.res .notFound)
      (by intro k' hk'; simp [Op.key] at hk'; subst hk'; exact hk)
      (sql_mutate_miss hmk st.db hm) hi.outs hi.db hi.good
    refine ⟨?_, ?_, ?_, ?_, hl.1, hl.2.1, hl.2.2⟩
    · intro u k f mk bs hr
      try dsimp only at *
      by_cases hu : u = t
      · subst hu; rw [upd_same] at hr; simp [Conn.reading] at hr
      · rw [upd_other _ _ _ _ hu] at hr; exact hi.reads u k f mk bs hr
    · intro u k f mk bs nb hc
      try dsimp only at *
      by_cases hu : u = t
      · subst hu; rw [upd_same] at hc; simp at hc
      · rw [upd_other _ _ _ _ hu] at hc; exact hi.wrote u k f mk bs nb hc
    · intro u k f mk hc
      try dsimp only at *
      by_cases hu : u = t
      · subst hu; rw [upd_same] at hc; simp at hc
      · rw [upd_other _ _ _ _ hu] at hc; exact hi.begun u k f mk hc
    · intro u o hc
      try dsimp only at *
      by_cases hu : u = t
      · subst hu; rw [upd_same] at hc; simp at hc
      · rw [upd_other _ _ _ _ hu] at hc; exact hi.adm u o hc
  | txSelect t k f mk bs h hm =>
    obtain ⟨hmk, hk⟩ := hi.begun t k f mk h
    refine ⟨?_, ?_, ?_, ?_, hi.outs, hi.db, hi.good⟩
    · intro u k' f' mk' bs' hr
      try dsimp only at *
      by_cases hu : u = t
      · subst hu; rw [upd_same] at hr; simp [Conn.reading] at hr
        obtain ⟨rfl, rfl, rfl, rfl⟩ := hr
        exact ⟨hmk, hm, hk⟩
      · rw [upd_other _ _ _ _ hu] at hr; exact hi.reads u k' f' mk' bs' hr
    · intro u k f mk bs nb hc
      try dsimp only at *
      by_cases hu : u = t
      · subst hu; rw [upd_same] at hc; simp at hc
      · rw [upd_other _ _ _ _ hu] at hc; exact hi.wrote u k f mk bs nb hc
    · intro u k f mk hc
      try dsimp only at *
      by_cases hu : u = t
      · subst hu; rw [upd_same] at hc; simp at hc
      · rw [upd_other _ _ _ _ hu] at hc; exact hi.begun u k f mk hc
    · intro u o hc
      try dsimp only at *
      by_cases hu : u = t
      · subst hu; rw [upd_same] at hc; simp at hc
      · rw [upd_other _ _ _ _ hu] at hc; exact hi.adm u o hc
  | txRefuse t k f mk bs r h hf =>
    obtain ⟨hmk, hsel, hk⟩ := hi.reads t k f mk bs (by simp [h, Conn.reading])
    have hl := qlog_step cfg hfix K hK st.hist st.db st.db t (.mutate k f) (refusedOut cfg bs r)
      (by intro k' hk'; simp [Op.key] at hk'; subst hk'; exact hk)
      (sql_mutate_refused hmk st.db hsel r hf) hi.outs hi.db hi.good
    refine ⟨?_, ?_, ?_, ?_, hl.1, hl.2.1, hl.2.2⟩
    · intro u k f mk bs hr
      try dsimp only at *
      by_cases hu : u = t
      · subst hu; rw [upd_same] at hr; simp [Conn.reading] at hr
      · rw [upd_other _ _ _ _ hu] at hr; exact hi.reads u k f mk bs hr
    · intro u k f mk bs nb hc
      try dsimp only at *
      by_cases hu : u = t
      · subst hu; rw [upd_same] at hc; simp at hc
      · rw [upd_other _ _ _ _ hu] at hc; exact hi.wrote u k f mk bs nb hc
    · intro u k f mk hc
      try dsimp only at *
      by_cases hu : u = t
      · subst hu; rw [upd_same] at hc; simp at hc
      · rw [upd_other _ _ _ _ hu] at hc; exact hi.begun u k f mk hc
    · intro u o hc
      try dsimp only at *
      by_cases hu : u = t
      · subst hu; rw [upd_same] at hc; simp at hc
      · rw [upd_other _ _ _ _ hu] at hc; exact hi.adm u o hc
  | txUpdate t k f mk bs nb h hf hg =>
    have hrd := hi.reads t k f mk bs (by simp [h, Conn.reading])
    refine ⟨?_, ?_, ?_, ?_, hi.outs, hi.db, hi.good⟩
    · intro u k' f' mk' bs' hr
      try dsimp only at *
      by_cases hu : u = t
      · subst hu; rw [upd_same] at hr; simp [Conn.reading] at hr
        obtain ⟨rfl, rfl, rfl, rfl⟩ := hr
        exact hrd
      · rw [upd_other _ _ _ _ hu] at hr; exact hi.reads u k' f' mk' bs' hr
    · intro u k' f' mk' bs' nb' hc
      try dsimp only at *
      by_cases hu : u = t
      · subst hu; rw [upd_same] at hc; simp at hc
        obtain ⟨rfl, rfl, rfl, rfl, rfl⟩ := hc
        exact hf
      · rw [upd_other _ _ _ _ hu] at hc; exact hi.wrote u k' f' mk' bs' nb' hc
    · intro u k f mk hc
      try dsimp only at *
      by_cases hu : u = t
      · subst hu; rw [upd_same] at hc; simp at hc
      · rw [upd_other _ _ _ _ hu] at hc; exact hi.begun u k f mk hc
    · intro u o hc
      try dsimp only at *
      by_cases hu : u = t
      · subst hu; rw [upd_same] at hc; simp at hc
      · rw [upd_other _ _ _ _ hu] at hc; exact hi.adm u o hc
  | txCommit t k f mk bs nb h hg =>
    obtain ⟨hmk, hsel, hk⟩ := hi.reads t k f mk bs (by simp [h, Conn.reading])
    have hf := hi.wrote t k f mk bs nb h
    have hstep : Sql.step cfg st.db (.mutate k f) = (Sql.setV mk (fun _ => nb) st.db, .mutated (some bs) .ok) := by
      rw [hi.db] at hsel ⊢
      exact sql_mutate_commit hK hi.good hk hmk hsel hf
    have hl := qlog_step cfg hfix K hK st.hist st.db _ t (.mutate k f) _
      (by intro k' hk'; simp [Op.key] at hk'; subst hk'; exact hk) hstep hi.outs hi.db hi.good
    refine ⟨?_, ?_, ?_, ?_, hl.1, hl.2.1, hl.2.2⟩
    · intro u k f mk bs hr
      try dsimp only at *
      by_cases hu : u = t
      · subst hu; rw [upd_same] at hr; simp [Conn.reading] at hr
      · rw [upd_other _ _ _ _ hu] at hr
        have := hg u hu
        rw [Conn.reading_shared hr] at this; cases this
    · intro u k f mk bs nb hc
      try dsimp only at *
      by_cases hu : u = t
      · subst hu; rw [upd_same] at hc; simp at hc
      · rw [upd_other _ _ _ _ hu] at hc; exact hi.wrote u k f mk bs nb hc
    · intro u k f mk hc
      try dsimp only at *
      by_cases hu : u = t
      · subst hu; rw [upd_same] at hc; simp at hc
      · rw [upd_other _ _ _ _ hu] at hc; exact hi.begun u k f mk hc
    · intro u o hc
      try dsimp only at *
      by_cases hu : u = t
      · subst hu; rw [upd_same] at hc; simp at hc
      · rw [upd_other _ _ _ _ hu] at hc; exact hi.adm u o hc
  | ret t op out h =>
    refine ⟨?_, ?_, ?_, ?_, ?_, hi.db.trans (by simp [specOf, linOps_append]), by simpa [specOf, linOps_append] using hi.good⟩
    · intro u k f mk bs hr
      try dsimp only at *
      by_cases hu : u = t
      · subst hu; rw [upd_same] at hr; simp [Conn.reading] at hr
      · rw [upd_other _ _ _ _ hu] at hr; exact hi.reads u k f mk bs hr
    · intro u k f mk bs nb hc
      try dsimp only at *
      by_cases hu : u = t
      · subst hu; rw [upd_same] at hc; simp at hc
      · rw [upd_other _ _ _ _ hu] at hc; exact hi.wrote u k f mk bs nb hc
    · intro u k f mk hc
      try dsimp only at *
      by_cases hu : u = t
      · subst hu; rw [upd_same] at hc; simp at hc
      · rw [upd_other _ _ _ _ hu] at hc; exact hi.begun u k f mk hc
    · intro u o hc
      try dsimp only at *
      by_cases hu : u = t
      · subst hu; rw [upd_same] at hc; simp at hc
      · rw [upd_other _ _ _ _ hu] at hc; exact hi.adm u o hc
    · simpa [specOf, linOps_append, linOuts_append] using hi.outs

theorem qinv_reach (cfg : Cfg) (hfix : cfg.sqlNilGuard = true) (K : List Key) (hK : InjOn (ordKey cfg) K)
    (st : QSt) (hr : Reach (QStep cfg K) {} st) : QInv cfg K st := by
  induction hr with
  | refl => exact qinv_init cfg K
  | tail _ hs ih => exact qinv_step cfg hfix K hK _ _ ih hs


/-! ### SQL histories are well sequenced too -/

def Conn.phase : Conn → Phase
  | .idle => .idle
  | .auto op => .pending op
  | .txBegun k f _ | .txRead k f _ _ | .txWrote k f _ _ _ => .pending (.mutate k f)
  | .done op none => .pending op
  | .done op (some out) => .lined op out

theorem invokeConn_phase (cfg : Cfg) (op : Op) : (invokeConn cfg op).phase = .pending op := by
  rcases invokeConn_cases cfg op with h | ⟨k, f, mk, rfl, _, h⟩ <;> rw [h] <;> rfl

theorem qhist_step (cfg : Cfg) (K : List Key) (st st' : QSt)
    (hi : ∀ u, ThreadHist u st.hist (st.conn u).phase) (hs : QStep cfg K st st') :
    ∀ u, ThreadHist u st'.hist (st'.conn u).phase := by
  intro u
  cases hs with
  | invoke t op h ha =>
    dsimp only
    by_cases hu : u = t
    · subst hu; rw [upd_same, invokeConn_phase]; have := hi u; rw [h] at this; exact .inv _ _ this
    · rw [upd_other _ _ _ _ hu]; exact .other _ _ _ (hi u) (fun e => hu e.symm)
  | auto t op h hg =>
    dsimp only
    by_cases hu : u = t
    · subst hu; rw [upd_same]; have := hi u; rw [h] at this; exact .lin _ _ _ this
    · rw [upd_other _ _ _ _ hu]; exact .other _ _ _ (hi u) (fun e => hu e.symm)
  | busy t op h hn =>
    dsimp only
    by_cases hu : u = t
    · subst hu; rw [upd_same]
      have := hi u
      have hp : (st.conn u).phase = .pending op := by
        cases hc : st.conn u <;> rw [hc] at h <;> simp [Conn.op] at h
        · subst h; rfl
        · subst h; rfl
        · subst h; rfl
        · subst h; rfl
        · rename_i op' o
          subst h
          cases o with
          | none => rfl
          | some out => exact absurd hc (hn _)
      rw [hp] at this; exact this
    · rw [upd_other _ _ _ _ hu]; exact hi u
  | txSelectMiss t k f mk h hm =>
    dsimp only
    by_cases hu : u = t
    · subst hu; rw [upd_same]; have := hi u; rw [h] at this; exact .lin _ _ _ this
    · rw [upd_other _ _ _ _ hu]; exact .other _ _ _ (hi u) (fun e => hu e.symm)
  | txSelect t k f mk bs h hm =>
    dsimp only
    by_cases hu : u = t
    · subst hu; rw [upd_same]; have := hi u; rw [h] at this; exact this
    · rw [upd_other _ _ _ _ hu]; exact hi u
  | txRefuse t k f mk bs r h hf =>
    dsimp only
    by_cases hu : u = t
    · subst hu; rw [upd_same]; have := hi u; rw [h] at this; exact .lin _ _ _ this
    · rw [upd_other _ _ _ _ hu]; exact .other _ _ _ (hi u) (fun e => hu e.symm)
  | txUpdate t k f mk bs nb h hf hg =>
    dsimp only
    by_cases hu : u = t
    · subst hu; rw [upd_same]; have := hi u; rw [h] at this; exact this
    · rw [upd_other _ _ _ _ hu]; exact hi u
  | txCommit t k f mk bs nb h hg =>
    dsimp only
    by_cases hu : u = t
    · subst hu; rw [upd_same]; have := hi u; rw [h] at this; exact .lin _ _ _ this
    · rw [upd_other _ _ _ _ hu]; exact .other _ _ _ (hi u) (fun e => hu e.symm)
  | ret t op out h =>
    dsimp only
    by_cases hu : u = t
    · subst hu; rw [upd_same]; have := hi u; rw [h] at this
      cases out with
      | none => exact .retBusy _ _ this
      | some o => exact .ret _ _ _ this
    · rw [upd_other _ _ _ _ hu]; exact .other _ _ _ (hi u) (fun e => hu e.symm)

theorem qhist_reach (cfg : Cfg) (K : List Key) (st : QSt)
    (hr : Reach (QStep cfg K) {} st) : ∀ u, ThreadHist u st.hist (st.conn u).phase := by
  induction hr with
  | refl => intro u; exact .nil
  | tail _ hs ih => exact qhist_step cfg K _ _ ih hs

end PubModel.C06
