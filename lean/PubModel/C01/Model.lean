/-
C01 — proxied byte streams are transparent.  Every hop of the data path is a
*re-chunker*: it takes the byte stream as a list of chunks (writes, frames,
messages, replies) and hands it on as another list of chunks.  The hops:

  front conn → TLSHelloConn (bufio; C14)            `BR.read` (proved in C14)
  io.Copy                                            read ≤ 32 KiB, write fully
  legacy: tunnel.Write → handleWrite → net.Pipe      one RPC per write; pipe reads
          handleRead ← tunnel.Read                   reply ≤ requested size, into the caller's buffer
  siding: sideConn.Write → websocket → sideConn.Read frames of ≤ `chunk` bytes; message drain; text = EOF

Each hop is modelled as the code computes it; the theorems say that the
concatenation is preserved (or is a prefix, when a side stops early).
-/
import PubModel.Common.Hex

namespace PubModel.C01
open PubModel

/-! ### sideConn.Write: binary frames of at most `chunk` bytes -/

/-- the loop `for n < len(buf) { end := min(n+chunk, len); send buf[n:end]; n = end }` -/
def sideFrames (chunk : Nat) : Nat → Bytes → List Bytes
  | 0, _ => []
  | fuel + 1, buf =>
    if buf = [] then []
    else buf.take chunk :: sideFrames chunk fuel (buf.drop chunk)

def sideWrite (chunk : Nat) (buf : Bytes) : List Bytes := sideFrames chunk (buf.length + 1) buf

/-! ### sideConn.Read: drain the current message, skip empty ones, a text message is EOF -/

inductive WsMsg
  | binary (b : Bytes)
  | text
  deriving DecidableEq, Repr

structure SideR where
  cur : Option Bytes      -- current message's unread bytes (`curReader`), none = no reader
  msgs : List WsMsg       -- messages still to arrive
  deriving Repr

inductive ROut
  | data (b : Bytes)
  | eof
  | wait                  -- would block: no message has arrived yet
  deriving DecidableEq, Repr

/-- bytes the application will still receive -/
def pendingMsgs : List WsMsg → Bytes
  | [] => []
  | .text :: _ => []
  | .binary b :: ms => b ++ pendingMsgs ms

def SideR.pending (s : SideR) : Bytes := (s.cur.getD []) ++ pendingMsgs s.msgs

/-- `Read(buf)` with `len(buf) = k > 0`; structural on the message list -/
def sideReadMsgs (k : Nat) : List WsMsg → SideR × ROut
  | [] => (⟨none, []⟩, .wait)
  | .text :: ms => (⟨none, .text :: ms⟩, .eof)       -- EOF is sticky: the text frame stays the next message
  | .binary b :: ms =>
    if b = [] then sideReadMsgs k ms                   -- n == 0 at end of message: next reader
    else if b.length ≤ k then (⟨none, ms⟩, .data b)    -- message ends with this read
    else (⟨some (b.drop k), ms⟩, .data (b.take k))

def SideR.read (s : SideR) (k : Nat) : SideR × ROut :=
  match s.cur with
  | some c =>
    if c = [] then sideReadMsgs k s.msgs
    else if c.length ≤ k then (⟨none, s.msgs⟩, .data c)
    else (⟨some (c.drop k), s.msgs⟩, .data (c.take k))
  | none => sideReadMsgs k s.msgs

/-! ### legacy tunnel: one write RPC per Write; read replies into the caller's buffer -/

/-- `tunnel.Read(buf)` with `len(buf) = k`, given the reply body the peer sent.
    `checked = true` is the repaired tree (a reply longer than the buffer is an error);
    `false` is the pinned tree, which reports more bytes than the buffer holds. -/
inductive TROut
  | n (count : Nat) (data : Bytes)    -- returned count and what is in buf[:min count k]
  | err
  deriving DecidableEq, Repr

def tunnelRead (checked : Bool) (k : Nat) (reply : Bytes) : TROut :=
  if reply.length ≤ k then .n reply.length reply
  else if checked then .err
  else .n reply.length (reply.take k)

/-- `handleRead`: one `Read` of the session pipe with a buffer of `min maxRead clamp` bytes;
    the pipe hands over at most one pending write (`w`), at most the buffer size. -/
def handleReadReply (clamp maxRead : Nat) (w : Bytes) : Bytes := w.take (min maxRead clamp)

/-- a pipe / connection delivers a list of writes to successive reads of the given sizes:
    each read returns bytes of one write only -/
def pipeReads : List Bytes → List Nat → List Bytes
  | [], _ => []
  | _, [] => []
  | w :: ws, k :: ks =>
    if w = [] then pipeReads ws (k :: ks)
    else if w.length ≤ k then w :: pipeReads ws ks
    else w.take k :: pipeReads (w.drop k :: ws) ks
termination_by ws ks => (ks.length, ws.length)

end PubModel.C01
