/-
C01 — stream transparency.  Statement file.
-/
import PubModel.C01.Model
import PubModel.C14.Theorems
import PubModel.Gen.Stream

namespace PubModel.C01
open PubModel

/-! ### sideConn.Write -/

theorem sideFrames_flatten (chunk : Nat) (hc : 0 < chunk) (fuel : Nat) :
    ∀ buf : Bytes, buf.length < fuel → (sideFrames chunk fuel buf).flatten = buf := by
  induction fuel with
  | zero => intro buf hf; omega
  | succ fuel ih =>
    intro buf hf
    simp only [sideFrames]
    split
    · rename_i h; simp [h]
    · rename_i h
      have hpos : 0 < buf.length := List.length_pos_iff.mpr h
      have h1 : (buf.drop chunk).length = buf.length - chunk := List.length_drop
      have : (buf.drop chunk).length < fuel := by rw [h1]; omega
      simp [ih _ this, List.take_append_drop]

/-- **Every side write is delivered whole**: the frames, concatenated, are the buffer —
    for every chunk size > 0 (4096 in the source) and every buffer length. -/
theorem sideWrite_flatten (chunk : Nat) (hc : 0 < chunk) (buf : Bytes) :
    (sideWrite chunk buf).flatten = buf :=
  sideFrames_flatten chunk hc _ buf (Nat.lt_succ_self _)

theorem sideFrames_bounds (chunk : Nat) (hc : 0 < chunk) (fuel : Nat) (buf : Bytes) :
    ∀ f ∈ sideFrames chunk fuel buf, f ≠ [] ∧ f.length ≤ chunk := by
  induction fuel generalizing buf with
  | zero => simp [sideFrames]
  | succ fuel ih =>
    simp only [sideFrames]
    split
    · simp
    · rename_i h
      intro f hf
      simp at hf
      rcases hf with rfl | hf
      · constructor
        · intro he
          have hpos : 0 < buf.length := List.length_pos_iff.mpr h
          have h2 : (buf.take chunk).length = min chunk buf.length := List.length_take
          rw [he] at h2
          simp only [List.length_nil] at h2
          omega
        · have h2 : (buf.take chunk).length = min chunk buf.length := List.length_take
          omega
      · exact ih _ f hf

/-- frames are never empty and never exceed the chunk size -/
theorem sideWrite_bounds (chunk : Nat) (hc : 0 < chunk) (buf : Bytes) :
    ∀ f ∈ sideWrite chunk buf, f ≠ [] ∧ f.length ≤ chunk :=
  sideFrames_bounds chunk hc _ buf

/-! ### sideConn.Read -/

/-- what one read yields, as a predicate on (state before pending, result, state after pending) -/
def ReadOk (k : Nat) (before : Bytes) (out : ROut) (after : Bytes) : Prop :=
  match out with
  | .data b => b ≠ [] ∧ b.length ≤ k ∧ b ++ after = before
  | .eof => before = [] ∧ after = []
  | .wait => before = [] ∧ after = []

theorem take_ne_nil (b : Bytes) (k : Nat) (hb : b ≠ []) (hk : 0 < k) : b.take k ≠ [] := by
  intro he
  have hpos : 0 < b.length := List.length_pos_iff.mpr hb
  have h2 : (b.take k).length = min k b.length := List.length_take
  rw [he] at h2
  simp only [List.length_nil] at h2
  omega

theorem sideReadMsgs_stream (k : Nat) (hk : 0 < k) (ms : List WsMsg) :
    ReadOk k (pendingMsgs ms) (sideReadMsgs k ms).2 (sideReadMsgs k ms).1.pending := by
  induction ms with
  | nil => simp [sideReadMsgs, pendingMsgs, SideR.pending, ReadOk]
  | cons m ms ih =>
    cases m with
    | text => simp [sideReadMsgs, pendingMsgs, SideR.pending, ReadOk]
    | binary b =>
      by_cases hb : b = []
      · subst hb
        simpa [sideReadMsgs, pendingMsgs] using ih
      · by_cases hl : b.length ≤ k
        · simp [sideReadMsgs, hb, hl, ReadOk, SideR.pending, pendingMsgs]
        · simp only [sideReadMsgs, hb, hl, if_false, ReadOk, SideR.pending, pendingMsgs, Option.getD_some]
          refine ⟨take_ne_nil b k hb hk, ?_, ?_⟩
          · simp [List.length_take]; omega
          · rw [← List.append_assoc, List.take_append_drop]

/-- **Every side read continues the stream**: what it returns, followed by what is still
    pending, is what was pending; it never returns an empty slice as data; it reports the end
    of the stream (text frame) only when nothing is pending before it. -/
theorem sideRead_stream (s : SideR) (k : Nat) (hk : 0 < k) :
    ReadOk k s.pending (s.read k).2 (s.read k).1.pending := by
  unfold SideR.read
  cases hc : s.cur with
  | none =>
    have := sideReadMsgs_stream k hk s.msgs
    simpa [SideR.pending, hc] using this
  | some c =>
    by_cases he : c = []
    · subst he
      have := sideReadMsgs_stream k hk s.msgs
      simpa [SideR.pending, hc] using this
    · by_cases hl : c.length ≤ k
      · simp [he, hl, ReadOk, SideR.pending, hc]
      · simp only [he, hl, if_false, ReadOk, SideR.pending, hc, Option.getD_some]
        refine ⟨take_ne_nil c k he hk, ?_, ?_⟩
        · simp [List.length_take]; omega
        · rw [← List.append_assoc, List.take_append_drop]

/-- what the writer's frames look like to the reader: all binary -/
theorem pending_of_frames (frames : List Bytes) (rest : List WsMsg) :
    pendingMsgs (frames.map .binary ++ rest) = frames.flatten ++ pendingMsgs rest := by
  induction frames with
  | nil => simp
  | cons f fs ih => simp [pendingMsgs, ih, List.append_assoc]

/-- **Side mode end to end**: the bytes pending at the reader after a `Write(buf)` are the
    bytes pending before, followed by `buf` — any chunk size > 0. -/
theorem side_hop_transparent (chunk : Nat) (hc : 0 < chunk) (buf : Bytes) (earlier : List Bytes) :
    pendingMsgs ((earlier ++ sideWrite chunk buf).map .binary) = earlier.flatten ++ buf := by
  have := pending_of_frames (earlier ++ sideWrite chunk buf) []
  simp only [List.append_nil] at this
  rw [this]
  simp [pendingMsgs, sideWrite_flatten chunk hc]

/-! ### legacy tunnel -/

/-- **A read reply lands in the caller's buffer**: the repaired `tunnel.Read` never reports
    more bytes than the buffer holds, and what it reports is the reply. -/
theorem tunnelRead_sound (k : Nat) (reply : Bytes) :
    (reply.length ≤ k → tunnelRead true k reply = .n reply.length reply) ∧
    (k < reply.length → tunnelRead true k reply = .err) ∧
    (∀ c d, tunnelRead true k reply = .n c d → c ≤ k ∧ c = d.length ∧ d = reply) := by
  refine ⟨?_, ?_, ?_⟩
  · intro h; simp [tunnelRead, h]
  · intro h
    have : ¬ reply.length ≤ k := by omega
    simp [tunnelRead, this]
  · intro c d h
    by_cases hl : reply.length ≤ k
    · simp [tunnelRead, hl] at h
      obtain ⟨h1, h2⟩ := h
      subst h1; subst h2
      exact ⟨hl, rfl, rfl⟩
    · simp [tunnelRead, hl] at h

/-- the endpoint's reply to a read never exceeds what was asked for -/
theorem handleRead_le (clamp maxRead : Nat) (w : Bytes) :
    (handleReadReply clamp maxRead w).length ≤ maxRead ∧ (handleReadReply clamp maxRead w) <+: w := by
  unfold handleReadReply
  constructor
  · simp [List.length_take]; omega
  · exact List.take_prefix _ _

/-- hence an honest endpoint's reply always fits the caller's buffer -/
theorem honest_reply_fits (clamp k : Nat) (w : Bytes) :
    tunnelRead true k (handleReadReply clamp k w) = .n (handleReadReply clamp k w).length (handleReadReply clamp k w) := by
  have := (handleRead_le clamp k w).1
  simp [tunnelRead, this]

/-- the pinned `tunnel.Read` reports more bytes than the buffer holds for an oversized
    reply (io.Copy then slices `buf[0:n]` out of range) -/
theorem pinned_tunnelRead_overreports :
    tunnelRead false 4 [1, 2, 3, 4, 5, 6] = .n 6 [1, 2, 3, 4] := by decide

/-! ### pipes and connections: reads never cross a write, nothing is lost -/

theorem pipeReads_prefix (ws : List Bytes) (ks : List Nat) :
    (pipeReads ws ks).flatten <+: ws.flatten := by
  fun_induction pipeReads ws ks with
  | case1 => simp
  | case2 => simp
  | case3 ws k ks ih => simpa using ih
  | case4 w ws k ks hne hle ih =>
    simp only [List.flatten_cons]
    exact (List.prefix_append_right_inj w).mpr ih
  | case5 w ws k ks hne hle ih =>
    simp only [List.flatten_cons] at ih ⊢
    have : w ++ ws.flatten = w.take k ++ (w.drop k ++ ws.flatten) := by
      rw [← List.append_assoc, List.take_append_drop]
    rw [this]
    exact (List.prefix_append_right_inj _).mpr ih

/-! ### composition -/

/-- a hop that delivers a prefix after a hop that delivers a prefix delivers a prefix;
    with both complete the whole stream arrives -/
theorem hops_compose (a b c : Bytes) (h1 : b <+: a) (h2 : c <+: b) : c <+: a := h2.trans h1

/-- io.Copy over the bufio reader: the reads, concatenated, are a prefix of the pending stream -/
theorem copy_prefix (ks : List Nat) :
    ∀ (acc : List Bytes) (r : C14.BR),
      ∃ rest, (ks.foldl (fun (p : C14.BR × List Bytes) k => ((p.1.read k).1, p.2 ++ [(p.1.read k).2]))
        (r, acc)).2.flatten ++ rest = acc.flatten ++ r.pending := by
  induction ks with
  | nil => intro acc r; exact ⟨r.pending, rfl⟩
  | cons k ks ih =>
    intro acc r
    simp only [List.foldl_cons]
    obtain ⟨rest, hr⟩ := ih (acc ++ [(r.read k).2]) (r.read k).1
    refine ⟨rest, ?_⟩
    rw [hr]
    simp [List.append_assoc, C14.read_stream]

theorem flatMap_sideWrite_flatten (chunk : Nat) (hc : 0 < chunk) (cs : List Bytes) :
    (cs.flatMap (sideWrite chunk)).flatten = cs.flatten := by
  induction cs with
  | nil => rfl
  | cons c cs ih => simp [List.flatMap_cons, sideWrite_flatten chunk hc, ih]

/-- **Upstream, front to endpoint application, side modes**: whatever the segmentation of the
    client's bytes, the read sizes at the proxy (the bufio reader, C14) and at the application,
    the bytes the application reads are a prefix of the bytes the client wrote, starting with
    the first byte of the ClientHello. -/
theorem upstream_side_prefix (chunk : Nat) (hc : 0 < chunk)
    (r : C14.BR) (copyReads : List Nat) (appReads : List Nat) :
    (pipeReads ((copyReads.foldl (fun (p : C14.BR × List Bytes) k =>
        ((p.1.read k).1, p.2 ++ [(p.1.read k).2])) (r, [])).2.flatMap (sideWrite chunk)) appReads).flatten
      <+: r.pending := by
  refine (pipeReads_prefix _ _).trans ?_
  rw [flatMap_sideWrite_flatten chunk hc]
  obtain ⟨rest, hr⟩ := copy_prefix copyReads [] r
  exact ⟨rest, by simpa using hr⟩

/-- **Upstream, legacy (multiplexed) mode**: every chunk io.Copy reads from the peeked
    connection is one write RPC whose bytes the endpoint writes into the session pipe; the
    application's reads of that pipe are a prefix of what the client wrote, ClientHello first. -/
theorem upstream_legacy_prefix (r : C14.BR) (copyReads : List Nat) (appReads : List Nat) :
    (pipeReads (copyReads.foldl (fun (p : C14.BR × List Bytes) k =>
        ((p.1.read k).1, p.2 ++ [(p.1.read k).2])) (r, [])).2 appReads).flatten
      <+: r.pending := by
  refine (pipeReads_prefix _ _).trans ?_
  obtain ⟨rest, hr⟩ := copy_prefix copyReads [] r
  exact ⟨rest, by simpa using hr⟩

/-- what the client-side tunnel reads deliver, one read RPC per requested size: each reply is
    what `handleRead` took from the pipe, checked by `tunnelRead` -/
def legacyDown (clamp : Nat) (writes : List Bytes) (reqs : List Nat) : List Bytes :=
  pipeReads writes (reqs.map fun k => min k clamp)

/-- **Downstream, legacy mode**: whatever sizes io.Copy asks for and however the application
    splits its writes, the bytes delivered to the front connection are a prefix of what the
    application wrote — every reply fits the request (so `tunnel.Read` never errs on an honest
    endpoint) and replies never cross or lose a write. -/
theorem downstream_legacy_prefix (clamp : Nat) (writes : List Bytes) (reqs : List Nat) :
    (legacyDown clamp writes reqs).flatten <+: writes.flatten :=
  pipeReads_prefix _ _

/-- each reply of the legacy down path is at most the size requested for it -/
theorem pipeReads_sizes (ws : List Bytes) (ks : List Nat) :
    ∀ p ∈ (pipeReads ws ks).zip ks, p.1.length ≤ p.2 := by
  fun_induction pipeReads ws ks with
  | case1 => simp
  | case2 => simp
  | case3 ws k ks ih => exact ih
  | case4 w ws k ks hne hle ih =>
    intro p hp
    simp only [List.zip_cons_cons, List.mem_cons] at hp
    rcases hp with rfl | hp
    · exact hle
    · exact ih p hp
  | case5 w ws k ks hne hle ih =>
    intro p hp
    simp only [List.zip_cons_cons, List.mem_cons] at hp
    rcases hp with rfl | hp
    · have h2 : (w.take k).length = min k w.length := List.length_take
      simp only; omega
    · exact ih p hp

/-- **Downstream, side modes**: the application's writes, framed by `sideWrite` and drained by
    reads of any sizes at the proxy, arrive as a prefix of what was written. -/
theorem downstream_side_prefix (chunk : Nat) (hc : 0 < chunk) (writes : List Bytes) (reads : List Nat) :
    (pipeReads (writes.flatMap (sideWrite chunk)) reads).flatten <+: writes.flatten := by
  refine (pipeReads_prefix _ _).trans ?_
  rw [flatMap_sideWrite_flatten chunk hc]
  exact List.prefix_refl _

/-! ### the regenerated instance -/

theorem gen_side_chunk_pos : 0 < Gen.Stream.sideChunk := by decide
/-- the source's `tunnel.Read` refuses a reply longer than the caller's buffer -/
theorem gen_tunnel_read_checked : Gen.Stream.tunnelReadChecked = true := by decide

/-- `JoinConn` copies each direction with its own `io.Copy` over that direction's two connections:
    the composition theorems above treat a direction as a function of its own stream only, and this
    is the fact about the code that licenses it (a buffer shared by the two copy loops would let the
    bytes of one direction into the other) -/
theorem gen_join_private_buffers : Gen.Stream.joinPrivateBuffers = true := by decide

theorem sideWrite_gen (buf : Bytes) : (sideWrite Gen.Stream.sideChunk buf).flatten = buf :=
  sideWrite_flatten _ gen_side_chunk_pos buf

/-! ### non-vacuity -/

example : sideWrite 4 [1, 2, 3, 4, 5, 6, 7, 8, 9] = [[1, 2, 3, 4], [5, 6, 7, 8], [9]] := by decide
example : pipeReads [[1, 2, 3], [4]] [2, 5, 5] = [[1, 2], [3], [4]] := by
  simp [pipeReads]
example : (SideR.read ⟨none, [.binary [], .binary [7, 8, 9], .text]⟩ 2).2 = .data [7, 8] := by decide

end PubModel.C01
