import PubModel.C01.Theorems
open PubModel.C01
#print axioms sideWrite_flatten
#print axioms sideWrite_bounds
#print axioms sideRead_stream
#print axioms sideReadMsgs_stream
#print axioms side_hop_transparent
#print axioms tunnelRead_sound
#print axioms handleRead_le
#print axioms honest_reply_fits
#print axioms pinned_tunnelRead_overreports
#print axioms pipeReads_prefix
#print axioms copy_prefix
#print axioms upstream_side_prefix
#print axioms gen_side_chunk_pos
#print axioms gen_tunnel_read_checked
#print axioms gen_join_private_buffers
#print axioms sideWrite_gen
#print axioms upstream_legacy_prefix
#print axioms downstream_legacy_prefix
#print axioms downstream_side_prefix
#print axioms pipeReads_sizes
