/-
C05 — glue between the regenerated facts (`Gen.Pisces`) and the model: the
configuration the driver runs, and the comparison with the golden SQL texts.
Imported by the obligations and by the driver.
-/
import PubModel.C05.Model
import PubModel.C05.Golden
import PubModel.Gen.Pisces

namespace PubModel.C05
open PubModel.Gen

/-- the configuration that corresponds to the code as extracted -/
def genCfg (ordered : Bool) (h : Key → Key) (valid : Bytes → Bool) : Cfg :=
  { ordered := ordered, maxKeyLen := Pisces.maxKeyLen, h := h, valid := valid,
    memReplaceKeeps := Pisces.memReplaceKeeps, sqlNilGuard := Pisces.sqlNilGuard }

/-- methods whose regenerated SQL facts differ from the golden copy -/
def changedTexts : List String :=
  (Pisces.sqlite.filter (fun m => !(Golden.sqlite.contains m))).map (·.1) ++
  (Golden.sqlite.filter (fun m => (Pisces.sqlite.lookup m.1).isNone)).map (·.1)

/-- methods on which PostgreSQL's statements differ from SQLite's up to placeholders -/
def psqlDiffers : List String :=
  (Pisces.psqlNorm.filter (fun m => !(Pisces.sqlite.contains m))).map (·.1)

end PubModel.C05
