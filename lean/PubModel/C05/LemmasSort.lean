/-
C05 — lemmas on the bytewise order and on insertion sort.
-/
import PubModel.C05.Model

namespace PubModel.C05

/-! ### `ble` is a total order on byte strings -/

theorem ble_refl (a : Bytes) : ble a a = true := by
  induction a with
  | nil => rfl
  | cons x xs ih => simp [ble, ih]

theorem ble_total (a b : Bytes) : ble a b = true ∨ ble b a = true := by
  induction a generalizing b with
  | nil => left; rfl
  | cons x xs ih =>
    cases b with
    | nil => right; rfl
    | cons y ys =>
      simp only [ble, Bool.or_eq_true, Bool.and_eq_true, decide_eq_true_eq]
      rcases Nat.lt_trichotomy x.toNat y.toNat with h | h | h
      · left; left; exact h
      · rcases ih ys with h' | h'
        · left; right; exact ⟨h, h'⟩
        · right; right; exact ⟨h.symm, h'⟩
      · right; left; exact h

theorem ble_trans {a b c : Bytes} (h1 : ble a b = true) (h2 : ble b c = true) : ble a c = true := by
  induction a generalizing b c with
  | nil => rfl
  | cons x xs ih =>
    cases b with
    | nil => simp [ble] at h1
    | cons y ys =>
      cases c with
      | nil => simp [ble] at h2
      | cons z zs =>
        simp only [ble, Bool.or_eq_true, Bool.and_eq_true, decide_eq_true_eq] at h1 h2 ⊢
        rcases h1 with h1 | ⟨e1, h1⟩ <;> rcases h2 with h2 | ⟨e2, h2⟩
        · left; omega
        · left; omega
        · left; omega
        · right; exact ⟨by omega, ih h1 h2⟩

theorem ble_antisymm {a b : Bytes} (h1 : ble a b = true) (h2 : ble b a = true) : a = b := by
  induction a generalizing b with
  | nil =>
    cases b with
    | nil => rfl
    | cons y ys => simp [ble] at h2
  | cons x xs ih =>
    cases b with
    | nil => simp [ble] at h1
    | cons y ys =>
      simp only [ble, Bool.or_eq_true, Bool.and_eq_true, decide_eq_true_eq] at h1 h2
      rcases h1 with h1 | ⟨e1, h1⟩ <;> rcases h2 with h2 | ⟨e2, h2⟩
      · omega
      · omega
      · omega
      · have hx : x = y := UInt8.toNat_inj.mp e1
        rw [hx, ih h1 h2]

theorem leKey_total (d : Bool) (a b : Bytes) : leKey d a b = true ∨ leKey d b a = true := by
  cases d <;> simp only [leKey, if_true, if_false, Bool.false_eq_true]
  · exact ble_total a b
  · exact ble_total b a

theorem leKey_trans (d : Bool) {a b c : Bytes} (h1 : leKey d a b = true) (h2 : leKey d b c = true) :
    leKey d a c = true := by
  cases d <;> simp only [leKey, if_true, if_false, Bool.false_eq_true] at *
  · exact ble_trans h1 h2
  · exact ble_trans h2 h1

theorem leKey_antisymm (d : Bool) {a b : Bytes} (h1 : leKey d a b = true) (h2 : leKey d b a = true) : a = b := by
  cases d <;> simp only [leKey, if_true, if_false, Bool.false_eq_true] at *
  · exact ble_antisymm h1 h2
  · exact ble_antisymm h2 h1

/-! ### insertion sort -/

variable {α β : Type}

theorem mem_insertBy (le : α → α → Bool) (a x : α) (l : List α) :
    x ∈ insertBy le a l ↔ x = a ∨ x ∈ l := by
  induction l with
  | nil => simp [insertBy]
  | cons b l ih =>
    simp only [insertBy]
    split
    · simp
    · simp only [List.mem_cons, ih]
      constructor
      · rintro (h | h | h) <;> simp [h]
      · rintro (h | h | h) <;> simp [h]

theorem mem_isort (le : α → α → Bool) (x : α) (l : List α) : x ∈ isort le l ↔ x ∈ l := by
  induction l with
  | nil => simp [isort]
  | cons a l ih => simp [isort, mem_insertBy, ih]

theorem insertBy_perm (le : α → α → Bool) (a : α) (l : List α) : (insertBy le a l).Perm (a :: l) := by
  induction l with
  | nil => simp [insertBy]
  | cons b l ih =>
    simp only [insertBy]
    split
    · exact List.Perm.refl _
    · exact (List.Perm.cons b ih).trans (List.Perm.swap a b l)

theorem isort_perm (le : α → α → Bool) (l : List α) : (isort le l).Perm l := by
  induction l with
  | nil => exact List.Perm.refl _
  | cons a l ih => exact (insertBy_perm le a _).trans (List.Perm.cons a ih)

theorem length_isort (le : α → α → Bool) (l : List α) : (isort le l).length = l.length :=
  (isort_perm le l).length_eq

theorem insertBy_map (le : α → α → Bool) (le' : β → β → Bool) (g : α → β)
    (h : ∀ a b, le' (g a) (g b) = le a b) (a : α) (l : List α) :
    (insertBy le a l).map g = insertBy le' (g a) (l.map g) := by
  induction l with
  | nil => rfl
  | cons b l ih =>
    simp only [insertBy, List.map_cons, h]
    split
    · rfl
    · simp [ih]

/-- sorting commutes with a map that respects the comparison -/
theorem isort_map (le : α → α → Bool) (le' : β → β → Bool) (g : α → β)
    (h : ∀ a b, le' (g a) (g b) = le a b) (l : List α) :
    (isort le l).map g = isort le' (l.map g) := by
  induction l with
  | nil => rfl
  | cons a l ih => simp only [isort, List.map_cons, insertBy_map le le' g h, ih]

theorem pairwise_insertBy (le : α → α → Bool) (htot : ∀ a b, le a b = true ∨ le b a = true)
    (htr : ∀ a b c, le a b = true → le b c = true → le a c = true) (a : α) (l : List α)
    (hl : l.Pairwise (fun x y => le x y = true)) :
    (insertBy le a l).Pairwise (fun x y => le x y = true) := by
  induction l with
  | nil => simp [insertBy]
  | cons b l ih =>
    simp only [insertBy]
    have hb := List.pairwise_cons.mp hl
    split
    · rename_i hab
      refine List.pairwise_cons.mpr ⟨?_, hl⟩
      intro y hy
      rcases List.mem_cons.mp hy with rfl | hy
      · exact hab
      · exact htr _ _ _ hab (hb.1 y hy)
    · rename_i hab
      have hba : le b a = true := by
        rcases htot a b with h | h
        · exact absurd h hab
        · exact h
      refine List.pairwise_cons.mpr ⟨?_, ih hb.2⟩
      intro y hy
      rcases (mem_insertBy le a y l).mp hy with rfl | hy
      · exact hba
      · exact hb.1 y hy

/-- the output of `isort` is sorted -/
theorem pairwise_isort (le : α → α → Bool) (htot : ∀ a b, le a b = true ∨ le b a = true)
    (htr : ∀ a b c, le a b = true → le b c = true → le a c = true) (l : List α) :
    (isort le l).Pairwise (fun x y => le x y = true) := by
  induction l with
  | nil => simp [isort]
  | cons a l ih => exact pairwise_insertBy le htot htr a _ ih

/-- a sorted list is determined by its elements when the order is antisymmetric on them -/
theorem sorted_perm_eq (le : α → α → Bool)
    (hanti : ∀ a b, le a b = true → le b a = true → a = b) :
    ∀ (l₁ l₂ : List α), l₁.Perm l₂ → l₁.Pairwise (fun x y => le x y = true) →
      l₂.Pairwise (fun x y => le x y = true) → l₁ = l₂
  | [], l₂, hp, _, _ => by simpa using hp.symm.eq_nil
  | a :: l₁, [], hp, _, _ => by simpa using hp.eq_nil
  | a :: l₁, b :: l₂, hp, h1, h2 => by
    have h1' := List.pairwise_cons.mp h1
    have h2' := List.pairwise_cons.mp h2
    have hab : a = b := by
      have ha : a ∈ b :: l₂ := hp.subset (List.mem_cons_self)
      have hb : b ∈ a :: l₁ := hp.symm.subset (List.mem_cons_self)
      rcases List.mem_cons.mp ha with h | ha
      · exact h
      · rcases List.mem_cons.mp hb with h | hb
        · exact h.symm
        · exact hanti a b (h1'.1 b hb) (h2'.1 a ha)
    subst hab
    have := sorted_perm_eq le hanti l₁ l₂ (List.Perm.cons_inv hp) h1'.2 h2'.2
    rw [this]

/-- `isort` does not depend on the order in which its input lists the elements
    (a Go map is iterated in arbitrary order before `sort.Strings`) -/
theorem isort_perm_eq (le : α → α → Bool) (htot : ∀ a b, le a b = true ∨ le b a = true)
    (htr : ∀ a b c, le a b = true → le b c = true → le a c = true)
    (hanti : ∀ a b, le a b = true → le b a = true → a = b) (l₁ l₂ : List α) (hp : l₁.Perm l₂) :
    isort le l₁ = isort le l₂ :=
  sorted_perm_eq le hanti _ _ ((isort_perm le l₁).trans (hp.trans (isort_perm le l₂).symm))
    (pairwise_isort le htot htr l₁) (pairwise_isort le htot htr l₂)

end PubModel.C05
