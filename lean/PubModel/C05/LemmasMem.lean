/-
C05 — the memory backend refines Spec, operation by operation.
-/
import PubModel.C05.LemmasRefine

namespace PubModel.C05

section
variable {cfg : Cfg} {K : List Key} {s : Tab} {k : Key}

theorem spec_step_good (hs : Good K s) (op : Op) (hop : ∀ k, op.key = some k → k ∈ K) :
    Good K (Spec.step cfg s op).1 := by
  cases op <;> simp only [Spec.step, Spec.addClass, Spec.update, Spec.upsert, Spec.walk]
  all_goals first
    | exact hs
    | exact Good.nil
    | (split <;> exact hs)
    | (have hk := hop _ rfl
       repeat' split
       all_goals first
         | exact hs
         | exact hs.modify _
         | exact hs.del
         | (apply hs.append hk
            rename_i h
            cases hg : Tab.get s _ <;> simp_all))


theorem modify_id (s : Tab) (k : Key) : s.modify k id = s := by
  simp only [Tab.modify]
  conv => rhs; rw [← List.map_id s]
  apply List.map_congr_left
  intro p _
  by_cases h : p.1 = k
  · subst h; simp
  · simp [h]

theorem keyed_mem (f : Key → Tab × Out) (g : Tab × Out)
    (h : keyOk cfg k = true → f (ordKey cfg k) = (repMem cfg g.1, g.2)) :
    KV.onKey cfg (repMem cfg s) k f =
      (repMem cfg (if !keyOk cfg k then (s, Out.res .keyTooLong) else g).1,
       (if !keyOk cfg k then (s, Out.res .keyTooLong) else g).2) := by
  simp only [KV.onKey, mapKey_eq]
  by_cases hko : keyOk cfg k = true
  · simp [hko, h hko]
  · simp [hko]

theorem mem_step_refines (hkeep : cfg.memReplaceKeeps = true) (hK : InjOn (ordKey cfg) K) (hs : Good K s)
    (op : Op) (hop : ∀ k, op.key = some k → k ∈ K) (hr : op.InRange) :
    Mem.step cfg (repMem cfg s) op = (repMem cfg (Spec.step cfg s op).1, (Spec.step cfg s op).2) := by
  have hw := mem_walks hK hs true
  cases op with
  | add k v =>
    have hk := hop k rfl
    simp only [Mem.step, KV.step, Spec.step, Spec.addClass, hkeep]
    rw [keyed_mem]
    intro _
    simp only [Mem.ops, KV.res, repMem_get hK hs hk]
    cases hg : s.get k with
    | none => simp [repMem_put_new hK hs hk _ hg]
    | some e => simp
  | addClass k c v =>
    have hk := hop k rfl
    simp only [Mem.step, KV.step, Spec.step, Spec.addClass, hkeep]
    rw [keyed_mem]
    intro _
    simp only [Mem.ops, KV.res, repMem_get hK hs hk]
    cases hg : s.get k with
    | none => simp [repMem_put_new hK hs hk _ hg]
    | some e => simp
  | setClass k c =>
    have hk := hop k rfl
    simp only [Mem.step, KV.step, Spec.step, Spec.update, hkeep]
    rw [keyed_mem]
    intro _
    simp only [Mem.ops, KV.res, repMem_get hK hs hk]
    cases hg : s.get k with
    | none => simp
    | some e => simp [repMem_modify hK hs hk] <;> rfl
  | remove k =>
    have hk := hop k rfl
    simp only [Mem.step, KV.step, Spec.step, hkeep]
    rw [keyed_mem]
    intro _
    simp only [Mem.ops, KV.res, repMem_get hK hs hk]
    cases hg : s.get k with
    | none => simp
    | some e => simp [repMem_del hK hs hk]
  | get k =>
    have hk := hop k rfl
    simp only [Mem.step, KV.step, Spec.step, hkeep]
    rw [keyed_mem]
    intro _
    simp only [Mem.ops, repMem_get hK hs hk]
    cases hg : s.get k with
    | none => simp
    | some e => simp
  | has k =>
    have hk := hop k rfl
    simp only [Mem.step, KV.step, Spec.step, hkeep]
    rw [keyed_mem]
    intro _
    simp [Mem.ops, repMem_get hK hs hk]
  | emplace k v =>
    have hk := hop k rfl
    simp only [Mem.step, KV.step, Spec.step, Spec.upsert, hkeep]
    rw [keyed_mem]
    intro _
    simp only [Mem.ops, KV.res, repMem_get hK hs hk]
    cases hg : s.get k with
    | none => simp [repMem_put_new hK hs hk _ hg]
    | some e => simp [modify_id]
  | replace k v =>
    have hk := hop k rfl
    simp only [Mem.step, KV.step, Spec.step, Spec.upsert, hkeep]
    rw [keyed_mem]
    intro _
    simp only [Mem.ops, KV.res, repMem_get hK hs hk]
    cases hg : s.get k with
    | none => simp [repMem_put_new hK hs hk _ hg]
    | some e => simp [repMem_modify hK hs hk] <;> rfl
  | appendBytes k v =>
    have hk := hop k rfl
    simp only [Mem.step, KV.step, Spec.step, Spec.upsert, hkeep]
    rw [keyed_mem]
    intro _
    simp only [Mem.ops, KV.res, repMem_get hK hs hk]
    cases hg : s.get k with
    | none => simp [repMem_put_new hK hs hk _ hg]
    | some e => simp [repMem_modify hK hs hk] <;> rfl
  | setBytes k v =>
    have hk := hop k rfl
    simp only [Mem.step, KV.step, Spec.step, Spec.update, hkeep]
    rw [keyed_mem]
    intro _
    simp only [Mem.ops, KV.res, repMem_get hK hs hk]
    cases hg : s.get k with
    | none => simp
    | some e => simp [repMem_modify hK hs hk] <;> rfl
  | set k v =>
    have hk := hop k rfl
    simp only [Mem.step, KV.step, Spec.step, Spec.update, hkeep]
    rw [keyed_mem]
    intro _
    simp only [Mem.ops, KV.res, repMem_get hK hs hk]
    cases hg : s.get k with
    | none => simp
    | some e => simp [repMem_modify hK hs hk] <;> rfl
  | mutate k f =>
    have hk := hop k rfl
    simp only [Mem.step, KV.step, Spec.step, hkeep]
    rw [keyed_mem]
    intro _
    simp only [Mem.ops, repMem_get hK hs hk]
    cases hg : s.get k with
    | none => simp
    | some e =>
      by_cases hv : cfg.valid e.val = true
      · cases hf : f e.val <;> simp [KV.mutFn, hv, hf, repMem_modify hK hs hk] <;> rfl
      · simp [KV.mutFn, hv]
  | count => simp [Mem.step, KV.step, Spec.step, Mem.ops, repMem_length]
  | clear => simp [Mem.step, KV.step, Spec.step, Mem.ops, KV.res, repMem]
  | walk cb =>
    simp only [Mem.step, KV.step, Spec.step, Spec.walk, hkeep, hw.1, KV.walkOut, rep_vals]
    simp [window, isDesc]
  | walkClass c cb =>
    simp only [Mem.step, KV.step, Spec.step, Spec.walk, hkeep, hw.2.1, KV.walkOut, rep_vals]
    simp [window, isDesc]
  | walkPartial p cb =>
    simp only [Mem.step, KV.step, Spec.step, Spec.walk, hkeep, hw.2.2.1 p hr.1 hr.2, KV.walkOut, rep_vals]
    cases cfg.ordered <;> simp [isDesc]
  | walkPartialClass c p cb =>
    simp only [Mem.step, KV.step, Spec.step, Spec.walk, hkeep, hw.2.2.2 c p hr.1 hr.2, KV.walkOut, rep_vals]
    cases cfg.ordered <;> simp [isDesc]

end

end PubModel.C05
