/-
C05/C06 — the line protocol shared by the drivers: printing of results and dumps,
the contents digest, parsing of op lines.  Core Lean only; no theorem depends on it.
-/
import PubModel.C05.Model
import PubModel.C05.Json

namespace PubModel.C05.Lines
open PubModel PubModel.C05

def showRes : Res → String
  | .ok => "ok" | .exists => "exists" | .notFound => "notFound" | .keyTooLong => "keyTooLong"
  | .unordered => "unordered" | .failed => "failed" | .cancelled => "cancelled" | .badJson => "badJson"
  | .sqlNull => "sqlNull" | .multi => "multi" | .panic => "panic"

def showOut (valid : Bytes → Bool) : Out → String
  | .res r => showRes r
  | .got v => s!"ok:{Hex.encode v}:j={if valid v then 1 else 0}"
  | .has b => s!"ok:{b}"
  | .count n => s!"ok:{n}"
  | .mutated saw r =>
    let s := match saw with
      | some b => Hex.encode b
      | none => "none"
    s!"{showRes r}:saw={s}"
  | .walked vs r =>
    let xs := vs.map (fun p => s!"{Hex.encode p.1}={Hex.encode p.2}")
    s!"{showRes r}:[{",".intercalate xs}]"

def fnv1a (s : String) : UInt64 :=
  s.toUTF8.foldl (fun h b => (h ^^^ b.toUInt64) * 0x100000001b3) 0xcbf29ce484222325

def hex64 (n : UInt64) : String :=
  let ds := (List.range 16).map (fun i => Hex.digit ((n >>> (UInt64.ofNat (60 - 4 * i))).toNat % 16))
  String.ofList ds

def dumpTab (t : List (Key × Entry)) : String :=
  let es := isort (fun a b => ble a.1 b.1) t
  ";".intercalate (es.map (fun p => s!"{Hex.encode p.1}:{Hex.encode p.2.cls}:{Hex.encode p.2.val}"))

def dumpSpec (cfg : Cfg) (s : Tab) : String := dumpTab (s.map (fun p => (ordKey cfg p.1, p.2)))
def dumpSql (t : Sql.Table) : String := dumpTab (t.map (fun r => (r.k, ⟨r.c, r.v⟩)))

def parseV (s : String) : Option (Option Bytes) :=
  if s = "nil" then some none else (Hex.decode s).map some

def parseCb (s : String) : Option WalkCb :=
  if s = "-" then some (fun _ _ _ => .cont)
  else match s.splitOn ":" with
    | [j, how] =>
      match j.toNat?, how with
      | some j, "cancel" => some (fun i _ _ => if i = j then .cancel else .cont)
      | some j, "fail" => some (fun i _ _ => if i = j then .fail else .cont)
      | _, _ => none
    | _ => none

def parsePartial (ws : List String) : Option Partial := do
  let off ← kvNat ws "off"
  let n ← kvNat ws "n"
  let d ← kvNat ws "desc"
  pure ⟨off, n, d = 1⟩

/-- the increment callback of the concurrent runs: a decimal counter is bumped, anything else is refused -/
def incFn (bs : Bytes) : MutRes :=
  if bs.isEmpty || !bs.all (fun b => 0x30 ≤ b && b ≤ 0x39) then .fail
  else
    let n := bs.foldl (fun acc b => acc * 10 + (b.toNat - 48)) 0
    .put ((toString (n + 1)).toUTF8.toList)

def parseOp (name : String) (ws : List String) : Option Op :=
  let k := kvHex ws "k"
  let c := kvHex ws "c"
  let v := (kv ws "v").bind parseV
  let vb := v.bind id
  let cb := (kv ws "stop").bind parseCb
  match name with
  | "add" => do pure (.add (← k) (← vb))
  | "addClass" => do pure (.addClass (← k) (← c) (← vb))
  | "setClass" => do pure (.setClass (← k) (← c))
  | "remove" => do pure (.remove (← k))
  | "get" => do pure (.get (← k))
  | "has" => do pure (.has (← k))
  | "emplace" => do pure (.emplace (← k) (← vb))
  | "replace" => do pure (.replace (← k) (← vb))
  | "appendBytes" => do pure (.appendBytes (← k) (← v))
  | "setBytes" => do pure (.setBytes (← k) (← v))
  | "set" => do pure (.set (← k) (← vb))
  | "mutate" => do
    let k ← k
    match kv ws "mode" with
    | some "put" => do
      let nv ← vb
      pure (.mutate k (fun _ => .put nv))
    | some "inc" => pure (.mutate k incFn)
    | some "cancel" => pure (.mutate k (fun _ => .cancel))
    | some "fail" => pure (.mutate k (fun _ => .fail))
    | _ => none
  | "count" => some .count
  | "clear" => some .clear
  | "walk" => do pure (.walk (← cb))
  | "walkClass" => do pure (.walkClass (← c) (← cb))
  | "walkPartial" => do pure (.walkPartial (← parsePartial ws) (← cb))
  | "walkPartialClass" => do pure (.walkPartialClass (← c) (← parsePartial ws) (← cb))
  | _ => none

def hOf (tab : List (Key × Key)) (k : Key) : Key := (tab.lookup k).getD k

end PubModel.C05.Lines
