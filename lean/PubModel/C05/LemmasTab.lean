/-
C05 — association lists under an injective key map: the representation of a
Spec state in the memory backend (`repMem`) and in the SQL table (`repSql`),
and how every primitive commutes with it.
-/
import PubModel.C05.LemmasSort

namespace PubModel.C05

/-- `f` is injective on the key list `K` -/
def InjOn (f : Key → Key) (K : List Key) : Prop := ∀ a ∈ K, ∀ b ∈ K, f a = f b → a = b

/-- a Spec state whose keys are distinct and drawn from `K` -/
structure Good (K : List Key) (s : Tab) : Prop where
  nodup : (s.map (·.1)).Nodup
  sub : ∀ p ∈ s, p.1 ∈ K

/-- memory table holding the Spec state `s` -/
def repMem (cfg : Cfg) (s : Tab) : Tab := s.map (fun p => (ordKey cfg p.1, p.2))

/-- SQL table holding the Spec state `s` -/
def repSql (cfg : Cfg) (s : Tab) : Sql.Table := s.map (fun p => ⟨ordKey cfg p.1, p.2.cls, p.2.val⟩)

theorem mapKey_eq (cfg : Cfg) (k : Key) :
    mapKey cfg k = if keyOk cfg k then some (ordKey cfg k) else none := by
  unfold mapKey keyOk ordKey
  cases cfg.ordered <;> simp
  split <;> rename_i h
  · have : ¬ k.length ≤ cfg.maxKeyLen := by omega
    simp [this]
  · have : k.length ≤ cfg.maxKeyLen := by omega
    simp [this]

theorem get_nil (k : Key) : Tab.get [] k = none := rfl

theorem get_cons (q : Key × Entry) (s : Tab) (k : Key) :
    Tab.get (q :: s) k = if q.1 = k then some q.2 else Tab.get s k := by
  by_cases h : q.1 = k <;> simp [Tab.get, h]

theorem isSome_find?_eq_any {α : Type} (p : α → Bool) (l : List α) : (l.find? p).isSome = l.any p := by
  induction l with
  | nil => rfl
  | cons a l ih =>
    cases h : p a <;> simp [h, ih]

section
variable {f : Key → Key} {K : List Key} {s : Tab} {k : Key}

/-- on a good state, mapped keys coincide only when the keys do -/
theorem Good.inj (hK : InjOn f K) (hs : Good K s) (hk : k ∈ K) :
    ∀ p ∈ s, (f p.1 = f k ↔ p.1 = k) := by
  intro p hp
  constructor
  · exact hK _ (hs.sub p hp) _ hk
  · intro h; rw [h]

theorem get_of_mem (hs : (s.map (·.1)).Nodup) {p : Key × Entry} (hp : p ∈ s) : s.get p.1 = some p.2 := by
  induction s with
  | nil => cases hp
  | cons q s ih =>
    simp only [List.map_cons, List.nodup_cons] at hs
    rw [get_cons]
    rcases List.mem_cons.mp hp with rfl | hp'
    · simp
    · have hne : q.1 ≠ p.1 := by
        intro h
        exact hs.1 (h ▸ List.mem_map_of_mem hp')
      simp [hne, ih hs.2 hp']

theorem get_isSome_iff : (s.get k).isSome = true ↔ k ∈ s.map (·.1) := by
  induction s with
  | nil => simp [get_nil]
  | cons q s ih =>
    rw [get_cons]
    by_cases h : q.1 = k
    · simp [h]
    · have h' : ¬ k = q.1 := fun e => h e.symm
      simp [h, h', ih]

theorem get_eq_none_iff : s.get k = none ↔ k ∉ s.map (·.1) := by
  rw [← get_isSome_iff]
  cases s.get k <;> simp

end

theorem find?_congr' {α : Type} {p q : α → Bool} {l : List α} (h : ∀ x ∈ l, p x = q x) :
    l.find? p = l.find? q := by
  induction l with
  | nil => rfl
  | cons a l ih =>
    have ha := h a List.mem_cons_self
    have ih' := ih (fun x hx => h x (List.mem_cons_of_mem _ hx))
    simp only [List.find?_cons, ha, ih']

theorem any_congr' {α : Type} {p q : α → Bool} {l : List α} (h : ∀ x ∈ l, p x = q x) :
    l.any p = l.any q := by
  induction l with
  | nil => rfl
  | cons a l ih =>
    have ha := h a List.mem_cons_self
    have ih' := ih (fun x hx => h x (List.mem_cons_of_mem _ hx))
    simp only [List.any_cons, ha, ih']

section rep
variable {cfg : Cfg} {K : List Key} {s : Tab} {k : Key}

theorem repMem_get (hK : InjOn (ordKey cfg) K) (hs : Good K s) (hk : k ∈ K) :
    (repMem cfg s).get (ordKey cfg k) = s.get k := by
  have hinj := hs.inj hK hk
  simp only [repMem, Tab.get, List.find?_map, Option.map_map]
  have : s.find? ((fun p : Key × Entry => decide (p.1 = ordKey cfg k)) ∘ fun p => (ordKey cfg p.1, p.2)) =
      s.find? (fun p => decide (p.1 = k)) := by
    apply find?_congr'
    intro p hp
    have := hinj p hp
    simp [this]
  rw [this]
  rfl

theorem repMem_modify (hK : InjOn (ordKey cfg) K) (hs : Good K s) (hk : k ∈ K) (g : Entry → Entry) :
    (repMem cfg s).modify (ordKey cfg k) g = repMem cfg (s.modify k g) := by
  have hinj := hs.inj hK hk
  simp only [repMem, Tab.modify, List.map_map]
  apply List.map_congr_left
  intro p hp
  have := hinj p hp
  by_cases h : p.1 = k
  · simp [h]
  · have h' : ¬ ordKey cfg p.1 = ordKey cfg k := fun e => h (this.mp e)
    simp [h, h']

theorem repMem_del (hK : InjOn (ordKey cfg) K) (hs : Good K s) (hk : k ∈ K) :
    (repMem cfg s).del (ordKey cfg k) = repMem cfg (s.del k) := by
  have hinj := hs.inj hK hk
  simp only [repMem, Tab.del, List.filter_map]
  congr 1
  apply List.filter_congr
  intro p hp
  have := hinj p hp
  by_cases h : p.1 = k
  · simp [h]
  · have h' : ¬ ordKey cfg p.1 = ordKey cfg k := fun e => h (this.mp e)
    simp [h, h']

theorem repMem_append (e : Entry) : repMem cfg (s ++ [(k, e)]) = repMem cfg s ++ [(ordKey cfg k, e)] := by
  simp [repMem]

theorem repMem_put_new (hK : InjOn (ordKey cfg) K) (hs : Good K s) (hk : k ∈ K) (e : Entry)
    (hn : s.get k = none) : (repMem cfg s).put (ordKey cfg k) e = repMem cfg (s ++ [(k, e)]) := by
  simp [Tab.put, repMem_get hK hs hk, hn, repMem_append]

theorem repMem_length : (repMem cfg s).length = s.length := by simp [repMem]

/-! SQL table -/

theorem repSql_any (hK : InjOn (ordKey cfg) K) (hs : Good K s) (hk : k ∈ K) :
    (repSql cfg s).any (fun r => r.k = ordKey cfg k) = (s.get k).isSome := by
  have hinj := hs.inj hK hk
  simp only [repSql, Tab.get, List.any_map, Option.isSome_map]
  rw [isSome_find?_eq_any]
  apply any_congr'
  intro p hp
  have := hinj p hp
  simp [this]

theorem repSql_find (hK : InjOn (ordKey cfg) K) (hs : Good K s) (hk : k ∈ K) :
    ((repSql cfg s).find? (fun r => r.k = ordKey cfg k)).map (·.v) = (s.get k).map (·.val) := by
  have hinj := hs.inj hK hk
  simp only [repSql, Tab.get, List.find?_map, Option.map_map]
  have : s.find? ((fun r : Sql.Row => decide (r.k = ordKey cfg k)) ∘
        fun p : Key × Entry => (⟨ordKey cfg p.1, p.2.cls, p.2.val⟩ : Sql.Row)) =
      s.find? (fun p => decide (p.1 = k)) := by
    apply find?_congr'
    intro p hp
    have := hinj p hp
    simp [this]
  rw [this]
  rfl

theorem countP_le_one_of_nodup {s : Tab} (hs : (s.map (·.1)).Nodup) (k : Key) :
    s.countP (fun p => p.1 = k) = if (s.get k).isSome then 1 else 0 := by
  induction s with
  | nil => rfl
  | cons q s ih =>
    simp only [List.map_cons, List.nodup_cons] at hs
    have ih' := ih hs.2
    rw [get_cons, List.countP_cons]
    by_cases h : q.1 = k
    · have hn : Tab.get s k = none := by
        rw [get_eq_none_iff]; rw [← h]; exact hs.1
      rw [hn] at ih'
      simp [h, ih']
    · simp [h, ih']

theorem repSql_countP (hK : InjOn (ordKey cfg) K) (hs : Good K s) (hk : k ∈ K) :
    (repSql cfg s).countP (fun r => r.k = ordKey cfg k) = if (s.get k).isSome then 1 else 0 := by
  rw [← countP_le_one_of_nodup hs.nodup k]
  have hinj := hs.inj hK hk
  simp only [repSql, List.countP_map]
  apply List.countP_congr
  intro p hp
  have := hinj p hp
  simp [this]

theorem repSql_mapRows (hK : InjOn (ordKey cfg) K) (hs : Good K s) (hk : k ∈ K)
    (g : Entry → Entry) (g' : Sql.Row → Sql.Row)
    (hg : ∀ p : Key × Entry, g' ⟨ordKey cfg p.1, p.2.cls, p.2.val⟩ = ⟨ordKey cfg p.1, (g p.2).cls, (g p.2).val⟩) :
    (repSql cfg s).map (fun r => if r.k = ordKey cfg k then g' r else r) = repSql cfg (s.modify k g) := by
  have hinj := hs.inj hK hk
  simp only [repSql, Tab.modify, List.map_map]
  apply List.map_congr_left
  intro p hp
  have := hinj p hp
  by_cases h : p.1 = k
  · have := hg p
    rw [h] at this
    simp [h, this]
  · have h' : ¬ ordKey cfg p.1 = ordKey cfg k := fun e => h (this.mp e)
    simp [h, h']

theorem repSql_filter (hK : InjOn (ordKey cfg) K) (hs : Good K s) (hk : k ∈ K) :
    (repSql cfg s).filter (fun r => r.k ≠ ordKey cfg k) = repSql cfg (s.del k) := by
  have hinj := hs.inj hK hk
  simp only [repSql, Tab.del, List.filter_map]
  congr 1
  apply List.filter_congr
  intro p hp
  have := hinj p hp
  by_cases h : p.1 = k
  · simp [h]
  · have h' : ¬ ordKey cfg p.1 = ordKey cfg k := fun e => h (this.mp e)
    simp [h, h']

theorem repSql_append (e : Entry) :
    repSql cfg (s ++ [(k, e)]) = repSql cfg s ++ [⟨ordKey cfg k, e.cls, e.val⟩] := by
  simp [repSql]

end rep

/-! ### the invariant is preserved by the primitives -/

section good
variable {K : List Key} {s : Tab} {k : Key}

theorem modify_keys (g : Entry → Entry) : (s.modify k g).map (·.1) = s.map (·.1) := by
  simp only [Tab.modify, List.map_map]
  apply List.map_congr_left
  intro p _
  by_cases h : p.1 = k <;> simp [h]

theorem Good.modify (hs : Good K s) (g : Entry → Entry) : Good K (s.modify k g) := by
  refine ⟨by rw [modify_keys]; exact hs.nodup, ?_⟩
  intro p hp
  have : p.1 ∈ (s.modify k g).map (·.1) := List.mem_map_of_mem hp
  rw [modify_keys] at this
  obtain ⟨q, hq, e⟩ := List.mem_map.mp this
  rw [← e]; exact hs.sub q hq

theorem Good.del (hs : Good K s) : Good K (s.del k) := by
  refine ⟨?_, ?_⟩
  · simp only [Tab.del]
    exact (List.filter_sublist.map _).nodup hs.nodup
  · intro p hp
    exact hs.sub p (List.mem_filter.mp hp).1

theorem Good.append (hs : Good K s) (hk : k ∈ K) (e : Entry) (hn : s.get k = none) :
    Good K (s ++ [(k, e)]) := by
  refine ⟨?_, ?_⟩
  · simp only [List.map_append, List.map_cons, List.map_nil]
    rw [List.nodup_append]
    refine ⟨hs.nodup, by simp, ?_⟩
    intro a ha b hb
    simp only [List.mem_singleton] at hb
    subst hb
    intro e
    exact (get_eq_none_iff.mp hn) (e ▸ ha)
  · intro p hp
    rcases List.mem_append.mp hp with hp | hp
    · exact hs.sub p hp
    · simp only [List.mem_singleton] at hp
      subst hp; exact hk

theorem Good.nil : Good K [] := ⟨by simp, by simp⟩

end good

end PubModel.C05
