/-
C05 — per-operation refinement: the memory backend and the SQL backend, run on
the representation of a Spec state, answer what Spec answers and end in the
representation of Spec's next state.
-/
import PubModel.C05.LemmasTab

namespace PubModel.C05

/-! ### windows -/

theorem slice_eq {α : Type} (l : List α) (a b : Nat) :
    (l.take (min (a + b) l.length)).drop (min a l.length) = (l.drop a).take b := by
  rw [List.drop_take]
  by_cases ha : a ≤ l.length
  · rw [Nat.min_eq_left ha]
    by_cases hb : a + b ≤ l.length
    · rw [Nat.min_eq_left hb]; congr 1; omega
    · rw [Nat.min_eq_right (by omega)]
      rw [List.take_of_length_le (by simp), List.take_of_length_le (by simp; omega)]
  · rw [Nat.min_eq_right (by omega)]
    rw [List.drop_eq_nil_of_le (by omega), List.drop_eq_nil_of_le (by omega)]
    simp

theorem partialKeys_eq (p : Partial) (ks : List Key) (ho : p.off < 2 ^ 63) (hn : p.n < 2 ^ 63) :
    Mem.partialKeys p ks = some ((ks.drop p.off).take p.n) := by
  unfold Mem.partialKeys
  have h1 : p.off % 2 ^ 64 = p.off := Nat.mod_eq_of_lt (by omega)
  have h2 : (p.off + p.n) % 2 ^ 64 = p.off + p.n := Nat.mod_eq_of_lt (by omega)
  simp only [h1, h2]
  have e1 : (if p.off > ks.length then ks.length else p.off) = min p.off ks.length := by
    split <;> omega
  have e2 : (if p.off + p.n > ks.length then ks.length else p.off + p.n) = min (p.off + p.n) ks.length := by
    split <;> omega
  rw [e1, e2]
  have : ¬ (min p.off ks.length > min (p.off + p.n) ks.length) := by omega
  simp only [this, if_false]
  rw [slice_eq]

/-! ### `walkKeys` finds every entry it is asked for -/

theorem walkKeys_map (m : Tab) {α : Type} (L : List α) (g : α → Key) (e : α → Entry)
    (h : ∀ p ∈ L, m.get (g p) = some (e p)) :
    Mem.walkKeys m (L.map g) = some (L.map (fun p => (g p, e p))) := by
  induction L with
  | nil => rfl
  | cons a L ih =>
    have ha := h a List.mem_cons_self
    have ih' := ih (fun p hp => h p (List.mem_cons_of_mem _ hp))
    simp [Mem.walkKeys, ha, ih']


/-! ### walks of the memory backend -/

section memwalk
variable {cfg : Cfg} {K : List Key} {s : Tab}

def leP (cfg : Cfg) (desc : Bool) (a b : Key × Entry) : Bool := leKey desc (ordKey cfg a.1) (ordKey cfg b.1)

theorem entries_eq (c : Option Class) (desc : Bool) :
    Spec.entries cfg s c desc = isort (leP cfg desc) (s.filter (fun p => clsMatch c p.2)) := rfl

theorem mem_entries {c : Option Class} {desc : Bool} {p : Key × Entry} (hp : p ∈ Spec.entries cfg s c desc) :
    p ∈ s := by
  rw [entries_eq, mem_isort] at hp
  exact (List.mem_filter.mp hp).1

theorem mem_keys_rep : Mem.keys (repMem cfg s) = s.map (fun p => ordKey cfg p.1) := by
  simp [Mem.keys, repMem]

theorem mem_classKeys_rep (c : Class) :
    Mem.classKeys (repMem cfg s) c = (s.filter (fun p => clsMatch (some c) p.2)).map (fun p => ordKey cfg p.1) := by
  simp only [Mem.classKeys, repMem, List.filter_map, List.map_map, clsMatch]
  rfl

theorem sortKeys_rep (S : Tab) (desc : Bool) :
    Mem.sortKeys (S.map (fun p => ordKey cfg p.1)) desc = (isort (leP cfg desc) S).map (fun p => ordKey cfg p.1) := by
  unfold Mem.sortKeys
  exact (isort_map (leP cfg desc) (leKey desc) (fun p => ordKey cfg p.1) (fun _ _ => rfl) S).symm

theorem walkKeys_rep (hK : InjOn (ordKey cfg) K) (hs : Good K s) (W : Tab) (hW : ∀ p ∈ W, p ∈ s) :
    Mem.walkKeys (repMem cfg s) (W.map (fun p => ordKey cfg p.1)) = some (repMem cfg W) := by
  have := walkKeys_map (repMem cfg s) W (fun p => ordKey cfg p.1) (fun p => p.2) (by
    intro p hp
    rw [repMem_get hK hs (hs.sub p (hW p hp))]
    exact get_of_mem hs.nodup (hW p hp))
  rw [this]; rfl

theorem window_sub {α : Type} (p : Option Partial) (l : List α) : ∀ x ∈ window p l, x ∈ l := by
  intro x hx
  cases p with
  | none => exact hx
  | some p => exact List.mem_of_mem_drop (List.mem_of_mem_take hx)

/-- the four walk functions of the memory backend hand out Spec's entries -/
theorem mem_walks (hK : InjOn (ordKey cfg) K) (hs : Good K s) (keeps : Bool) :
    (Mem.ops keeps).walk (repMem cfg s) = (.ok, repMem cfg (Spec.entries cfg s none false)) ∧
    (∀ c, (Mem.ops keeps).walkClass (repMem cfg s) c = (.ok, repMem cfg (Spec.entries cfg s (some c) false))) ∧
    (∀ p, p.off < 2 ^ 63 → p.n < 2 ^ 63 → (Mem.ops keeps).walkPartial (repMem cfg s) p =
        (.ok, repMem cfg (window (some p) (Spec.entries cfg s none p.desc)))) ∧
    (∀ c p, p.off < 2 ^ 63 → p.n < 2 ^ 63 → (Mem.ops keeps).walkPartialClass (repMem cfg s) c p =
        (.ok, repMem cfg (window (some p) (Spec.entries cfg s (some c) p.desc)))) := by
  have hall : s.filter (fun p => clsMatch none p.2) = s := by simp [clsMatch]
  refine ⟨?_, ?_, ?_, ?_⟩
  · simp only [Mem.ops, mem_keys_rep]
    have := sortKeys_rep (cfg := cfg) s false
    rw [this, ← hall, ← entries_eq, hall, walkKeys_rep hK hs _ (fun p hp => mem_entries hp)]
    rfl
  · intro c
    simp only [Mem.ops, mem_classKeys_rep, sortKeys_rep, ← entries_eq]
    rw [walkKeys_rep hK hs _ (fun p hp => mem_entries hp)]
    rfl
  · intro p ho hn
    simp only [Mem.ops, mem_keys_rep]
    have := sortKeys_rep (cfg := cfg) s p.desc
    rw [this, ← hall, ← entries_eq, hall, partialKeys_eq p _ ho hn]
    simp only [Option.bind_some, ← List.map_drop, ← List.map_take, window]
    rw [walkKeys_rep hK hs _ (fun q hq => mem_entries (List.mem_of_mem_drop (List.mem_of_mem_take hq)))]
    rfl
  · intro c p ho hn
    simp only [Mem.ops, mem_classKeys_rep, sortKeys_rep, ← entries_eq]
    rw [partialKeys_eq p _ ho hn]
    simp only [Option.bind_some, ← List.map_drop, ← List.map_take, window]
    rw [walkKeys_rep hK hs _ (fun q hq => mem_entries (List.mem_of_mem_drop (List.mem_of_mem_take hq)))]
    rfl

theorem rep_vals (W : Tab) :
    (repMem cfg W).map (fun q => (q.2.cls, q.2.val)) = W.map (fun q => (q.2.cls, q.2.val)) := by
  simp [repMem]

end memwalk

end PubModel.C05
