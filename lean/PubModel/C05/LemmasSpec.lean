/-
C05 — facts about the reference map itself: look-ups after each primitive,
the callback loop, and the sortedness of the walk order.
-/
import PubModel.C05.LemmasRefine

namespace PubModel.C05

section
variable {s : Tab} {k k' : Key}

theorem get_modify_self (g : Entry → Entry) : (s.modify k g).get k = (s.get k).map g := by
  induction s with
  | nil => rfl
  | cons q s ih =>
    simp only [Tab.modify, List.map_cons] at ih ⊢
    rw [get_cons, get_cons]
    by_cases h : q.1 = k
    · simp [h]
    · simp [h, ih]

theorem get_modify_ne (g : Entry → Entry) (h : k' ≠ k) : (s.modify k g).get k' = s.get k' := by
  induction s with
  | nil => rfl
  | cons q s ih =>
    simp only [Tab.modify, List.map_cons] at ih ⊢
    rw [get_cons, get_cons]
    by_cases hq : q.1 = k
    · have hkk : ¬ k = k' := fun e => h e.symm
      simp [hq, ih, hkk]
    · simp [hq, ih]

theorem get_append_new (e : Entry) (hn : s.get k = none) : (s ++ [(k, e)]).get k = some e := by
  induction s with
  | nil => simp [get_cons]
  | cons q s ih =>
    rw [get_cons] at hn
    rw [List.cons_append, get_cons]
    by_cases h : q.1 = k
    · simp [h] at hn
    · simp only [h, if_false] at hn ⊢
      exact ih hn

theorem get_append_ne (e : Entry) (h : k' ≠ k) : (s ++ [(k, e)]).get k' = s.get k' := by
  induction s with
  | nil =>
    simp [get_cons, get_nil]
    intro e'; exact absurd e'.symm h
  | cons q s ih =>
    rw [List.cons_append, get_cons, get_cons, ih]

theorem get_del_self : (s.del k).get k = none := by
  rw [get_eq_none_iff]
  intro h
  obtain ⟨p, hp, e⟩ := List.mem_map.mp h
  have := (List.mem_filter.mp hp).2
  simp [e] at this

theorem get_del_ne (h : k' ≠ k) : (s.del k).get k' = s.get k' := by
  induction s with
  | nil => rfl
  | cons q s ih =>
    have ih' : Tab.get (Tab.del s k) k' = Tab.get s k' := ih
    have hd : Tab.del (q :: s) k = if q.1 = k then Tab.del s k else q :: Tab.del s k := by
      by_cases hq : q.1 = k <;> simp [Tab.del, hq]
    rw [hd]
    by_cases hq : q.1 = k
    · have hkk : ¬ k = k' := fun e => h e.symm
      simp [hq, get_cons, hkk, ih']
    · simp [hq, get_cons, ih']

end

/-! ### the callback loop -/

theorem visit_all (valid : Bytes → Bool) (cb : WalkCb) (l : List (Class × Bytes))
    (hv : ∀ x ∈ l, valid x.2 = true) (hc : ∀ i c v, cb i c v = .cont) (i : Nat) :
    visit valid cb i l = (l, .ok) := by
  induction l generalizing i with
  | nil => rfl
  | cons x l ih =>
    obtain ⟨c, v⟩ := x
    have hx := hv (c, v) List.mem_cons_self
    simp only at hx
    simp [visit, hx, hc, ih (fun y hy => hv y (List.mem_cons_of_mem _ hy))]

theorem visit_prefix (valid : Bytes → Bool) (cb : WalkCb) (l : List (Class × Bytes)) (i : Nat) :
    (visit valid cb i l).1 <+: l := by
  induction l generalizing i with
  | nil => simp [visit]
  | cons x l ih =>
    obtain ⟨c, v⟩ := x
    simp only [visit]
    split
    · exact List.nil_prefix
    · split
      · simpa using ih (i + 1)
      · simp
      · simp

/-! ### the walk order -/

/-- strictly before, in the direction asked for -/
def ltKey (desc : Bool) (a b : Bytes) : Prop := leKey desc a b = true ∧ a ≠ b

theorem entries_perm (cfg : Cfg) (s : Tab) (c : Option Class) (desc : Bool) :
    (Spec.entries cfg s c desc).Perm (s.filter (fun p => clsMatch c p.2)) :=
  isort_perm _ _

theorem entries_sorted (cfg : Cfg) (s : Tab) (c : Option Class) (desc : Bool)
    (hs : (s.map (fun p => ordKey cfg p.1)).Nodup) :
    (Spec.entries cfg s c desc).Pairwise (fun a b => ltKey desc (ordKey cfg a.1) (ordKey cfg b.1)) := by
  have hle : (Spec.entries cfg s c desc).Pairwise
      (fun a b => leKey desc (ordKey cfg a.1) (ordKey cfg b.1) = true) :=
    pairwise_isort (leP cfg desc) (fun a b => leKey_total desc _ _) (fun a b c h1 h2 => leKey_trans desc h1 h2) _
  have hnd : ((Spec.entries cfg s c desc).map (fun p => ordKey cfg p.1)).Nodup := by
    have hp := (entries_perm cfg s c desc).map (fun p => ordKey cfg p.1)
    rw [hp.nodup_iff]
    exact (List.filter_sublist.map _).nodup hs
  have hne : (Spec.entries cfg s c desc).Pairwise (fun a b => ordKey cfg a.1 ≠ ordKey cfg b.1) := by
    rw [List.Nodup, List.pairwise_map] at hnd
    exact hnd
  exact (hle.and hne).imp (fun h => h)

end PubModel.C05
