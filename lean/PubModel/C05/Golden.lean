/-
C05 — golden copy of the regenerated SQL facts: the statement texts (and bound
arguments) of `pisces/sqlite3_kv.go` that the hand-written `Sql` model was read
from.  A difference between `Gen.Pisces.sqlite` and this copy is reported by the
driver (`meta` line) and by the extractor's facts; it escalates the differential
run (the functions are hash-tracked) and is not a failure by itself.
-/
namespace PubModel.C05.Golden

def maxKeyLen : Nat := 255

/-- method, statement texts (` <- ` separates the fmt arguments), bound arguments per call, transaction calls -/
def sqlite : List (String × List String × List (List String) × List String) := [
  ("clear", ["delete from %s <- b.table"], [["b.db.X"]], []),
  ("add", ["insert into %s (k, c, v) values (?, ?, ?) <- b.table"], [["b.db.X", "k", "cls", "bs"]], []),
  ("get", ["select v from %s where k=? <- b.table"], [["b.db.Q1", "k"]], []),
  ("has", ["select 1 from %s where k=? <- b.table"], [["b.db.Q1", "k"]], []),
  ("set", ["update %s set v=? where k=? <- b.table"], [["b.db.X", "sqlBytes(bs)", "k"]], []),
  ("setClass", ["update %s set c=? where k=? <- b.table"], [["b.db.X", "cls", "k"]], []),
  ("mutate", ["select v from %s where k=? <- b.table", "update %s set v=? where k=? <- b.table"], [["tx.Q1", "k"], ["tx.X", "newBytes", "k"]], ["Begin", "Rollback", "Commit"]),
  ("remove", ["delete from %s where k=? <- b.table"], [["b.db.X", "k"]], []),
  ("emplace", ["insert into %s (k, v, c) values (?, ?, ?) on conflict (k) do nothing <- b.table"], [["b.db.X", "k", "bs", "cls"]], []),
  ("replace", ["insert into %s (k, v, c) values (?, ?, ?) on conflict (k) do update set v=excluded.v <- b.table"], [["b.db.X", "k", "bs", "cls"]], []),
  ("appendBytes", ["insert into %s (k, v, c) values (?, ?, ?) on conflict (k) do update set v = %s.v || excluded.v <- b.table, b.table"], [["b.db.X", "k", "sqlBytes(bs)", "\"\""]], []),
  ("walk", ["select k, c, v from %s order by k <- b.table"], [["b.db.Q"]], []),
  ("walkClass", ["select k, c, v from %s where c=? order by k <- b.table"], [["b.db.Q", "cls"]], []),
  ("walkPartial", ["select k, c, v from %s order by k %s limit %d offset %d <- b.table, sqlOrderStr(p.Desc), p.N, p.Offset"], [["b.db.Q"]], []),
  ("walkPartialClass", ["select k, c, v from %s where c=? order by k %s limit %d offset %d <- b.table, sqlOrderStr(p.Desc), p.N, p.Offset"], [["b.db.Q", "cls"]], []),
  ("count", ["select count(1) from %s <- b.table"], [["b.db.Q1"]], [])
]

/-- PostgreSQL differs from SQLite in one statement only (and in `$n` placeholders) -/
def psqlClear : List String := ["truncate table %s <- b.table"]

end PubModel.C05.Golden
