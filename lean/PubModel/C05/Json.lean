/-
C05 — `encoding/json`'s validity scanner (`json.Valid`, the `checkValid` pass
that `json.Unmarshal` runs first), used by the driver as the `valid` parameter
of the model.  The theorems quantify over `valid`; this file is only the
instance the differential run uses.  RFC 8259 grammar as Go's scanner reads it:
white space is space, tab, CR, LF; control bytes < 0x20 are refused inside
strings, any other byte is accepted there; escapes are `\" \\ \/ \b \f \n \r \t
\uXXXX`; numbers are `-?(0|[1-9][0-9]*)(\.[0-9]+)?([eE][+-]?[0-9]+)?`.
-/
import PubModel.Common.Hex

namespace PubModel.C05.Json

def isWs (b : UInt8) : Bool := b = 0x20 || b = 0x09 || b = 0x0a || b = 0x0d
def isDigit (b : UInt8) : Bool := 0x30 ≤ b && b ≤ 0x39
def isHex (b : UInt8) : Bool :=
  isDigit b || (0x61 ≤ b && b ≤ 0x66) || (0x41 ≤ b && b ≤ 0x46)

def skipWs (l : Bytes) : Bytes := l.dropWhile isWs

/-- after the opening quote: the rest after the closing quote -/
def str : Nat → Bytes → Option Bytes
  | 0, _ => none
  | _, [] => none
  | f + 1, b :: rest =>
    if b = 0x22 then some rest
    else if b = 0x5c then
      match rest with
      | [] => none
      | e :: r2 =>
        if e = 0x22 || e = 0x5c || e = 0x2f || e = 0x62 || e = 0x66 || e = 0x6e || e = 0x72 || e = 0x74 then str f r2
        else if e = 0x75 then
          match r2 with
          | a :: b :: c :: d :: r3 => if isHex a && isHex b && isHex c && isHex d then str f r3 else none
          | _ => none
        else none
    else if b < 0x20 then none
    else str f rest

def digits1 (l : Bytes) : Option Bytes :=
  match l with
  | d :: _ => if isDigit d then some (l.dropWhile isDigit) else none
  | [] => none

/-- a number starting at the head of `l` -/
def num (l : Bytes) : Option Bytes :=
  let l := match l with
    | b :: r => if b = 0x2d then r else l
    | [] => l
  let afterInt : Option Bytes :=
    match l with
    | d :: r => if d = 0x30 then some r else if isDigit d then some (r.dropWhile isDigit) else none
    | [] => none
  match afterInt with
  | none => none
  | some l =>
    let afterFrac : Option Bytes :=
      match l with
      | b :: r => if b = 0x2e then digits1 r else some l
      | [] => some l
    match afterFrac with
    | none => none
    | some l =>
      match l with
      | b :: r =>
        if b = 0x65 || b = 0x45 then
          let r := match r with
            | s :: r' => if s = 0x2b || s = 0x2d then r' else r
            | [] => r
          digits1 r
        else some l
      | [] => some l

def lit (w : Bytes) (l : Bytes) : Option Bytes :=
  if l.take w.length = w then some (l.drop w.length) else none

mutual
/-- a value at the head of `l` (after white space): the rest after it -/
def value : Nat → Bytes → Option Bytes
  | 0, _ => none
  | f + 1, l =>
    match skipWs l with
    | [] => none
    | b :: r =>
      if b = 0x7b then
        match skipWs r with
        | c :: r' => if c = 0x7d then some r' else members f (c :: r')
        | [] => none
      else if b = 0x5b then
        match skipWs r with
        | c :: r' => if c = 0x5d then some r' else elements f (c :: r')
        | [] => none
      else if b = 0x22 then str (r.length + 1) r
      else if b = 0x74 then lit [0x72, 0x75, 0x65] r
      else if b = 0x66 then lit [0x61, 0x6c, 0x73, 0x65] r
      else if b = 0x6e then lit [0x75, 0x6c, 0x6c] r
      else if b = 0x2d || isDigit b then num (b :: r)
      else none

def elements : Nat → Bytes → Option Bytes
  | 0, _ => none
  | f + 1, l =>
    match value f l with
    | none => none
    | some r =>
      match skipWs r with
      | c :: r' => if c = 0x2c then elements f r' else if c = 0x5d then some r' else none
      | [] => none

def members : Nat → Bytes → Option Bytes
  | 0, _ => none
  | f + 1, l =>
    match skipWs l with
    | q :: r =>
      if q = 0x22 then
        match str (r.length + 1) r with
        | none => none
        | some r =>
          match skipWs r with
          | c :: r' =>
            if c = 0x3a then
              match value f r' with
              | none => none
              | some r =>
                match skipWs r with
                | d :: r'' => if d = 0x2c then members f r'' else if d = 0x7d then some r'' else none
                | [] => none
            else none
          | [] => none
      else none
    | [] => none
end

/-- `json.Valid` -/
def valid (l : Bytes) : Bool :=
  match value (2 * l.length + 2) l with
  | some r => (skipWs r).isEmpty
  | none => false

end PubModel.C05.Json
