/-
C05 — property theorems.  Statement file; helper lemmas are in Lemmas*.lean.

Property: for any sequence of KV operations, the in-memory backend and the SQL
backend return the same results and leave the same contents as a simple
reference map from key to (class, value) …

`Spec` is that map (keyed by the user's key).  A backend files an entry under
`ordKey cfg k` (the key itself in an ordered store, `h k` in an unordered one);
`repMem cfg s` / `repSql cfg s` is the backend table that holds the Spec state
`s`.  The hypothesis on `h` is explicit: `InjOn (ordKey cfg) K` for a list `K`
containing the keys of the history (SHA-256 in the code).
-/
import PubModel.C05.LemmasSql
import PubModel.C05.LemmasSpec
import PubModel.C05.Obligations

namespace PubModel.C05

/-- keys used by a history -/
def histKeys (ops : List Op) : List Key := ops.filterMap Op.key

/-- every windowed walk of the history has offset and limit below 2^63 -/
def HistInRange (ops : List Op) : Prop := ∀ op ∈ ops, op.InRange

/-! ## refinement -/

/-- **The memory backend refines the reference map**: run on the table that
    represents the Spec state `s`, every operation answers what Spec answers and
    leaves the table that represents Spec's next state. -/
theorem mem_refines_spec (cfg : Cfg) (hfix : cfg.memReplaceKeeps = true) (K : List Key)
    (hK : InjOn (ordKey cfg) K) (s : Tab) (hs : Good K s) (op : Op)
    (hop : ∀ k, op.key = some k → k ∈ K) (hr : op.InRange) :
    (Mem.step cfg (repMem cfg s) op).2 = (Spec.step cfg s op).2 ∧
    (Mem.step cfg (repMem cfg s) op).1 = repMem cfg (Spec.step cfg s op).1 ∧
    Good K (Spec.step cfg s op).1 := by
  rw [mem_step_refines hfix hK hs op hop hr]
  exact ⟨rfl, rfl, spec_step_good hs op hop⟩

/-- **The SQL backend refines the reference map.**  (No range hypothesis: `limit n
    offset m` does not wrap.) -/
theorem sql_refines_spec (cfg : Cfg) (hfix : cfg.sqlNilGuard = true) (K : List Key)
    (hK : InjOn (ordKey cfg) K) (s : Tab) (hs : Good K s) (op : Op)
    (hop : ∀ k, op.key = some k → k ∈ K) :
    (Sql.step cfg (repSql cfg s) op).2 = (Spec.step cfg s op).2 ∧
    (Sql.step cfg (repSql cfg s) op).1 = repSql cfg (Spec.step cfg s op).1 ∧
    Good K (Spec.step cfg s op).1 := by
  rw [sql_step_refines hfix hK hs op hop]
  exact ⟨rfl, rfl, spec_step_good hs op hop⟩

/-- histories: same outputs, and the final memory table represents the final Spec state -/
theorem mem_run_refines (cfg : Cfg) (hfix : cfg.memReplaceKeeps = true) (K : List Key)
    (hK : InjOn (ordKey cfg) K) (ops : List Op) (hk : ∀ k ∈ histKeys ops, k ∈ K) (hr : HistInRange ops)
    (s : Tab) (hs : Good K s) :
    KV.run (Mem.ops cfg.memReplaceKeeps) cfg (repMem cfg s) ops =
      (repMem cfg (Spec.run cfg s ops).1, (Spec.run cfg s ops).2) := by
  induction ops generalizing s with
  | nil => rfl
  | cons op ops ih =>
    have hop : ∀ k, op.key = some k → k ∈ K := by
      intro k hk'
      apply hk
      simp [histKeys, hk']
    have h1 := mem_step_refines hfix hK hs op hop (hr op List.mem_cons_self)
    have hs' := spec_step_good (cfg := cfg) hs op hop
    have ih' := ih (fun k hk' => hk k (by
        simp only [histKeys, List.filterMap_cons] at hk' ⊢
        cases op.key <;> simp_all))
      (fun o ho => hr o (List.mem_cons_of_mem _ ho)) _ hs'
    simp only [KV.run, Spec.run]
    unfold Mem.step at h1
    rw [h1, ih']

theorem sql_run_refines (cfg : Cfg) (hfix : cfg.sqlNilGuard = true) (K : List Key)
    (hK : InjOn (ordKey cfg) K) (ops : List Op) (hk : ∀ k ∈ histKeys ops, k ∈ K)
    (s : Tab) (hs : Good K s) :
    KV.run (Sql.ops cfg.sqlNilGuard) cfg (repSql cfg s) ops =
      (repSql cfg (Spec.run cfg s ops).1, (Spec.run cfg s ops).2) := by
  induction ops generalizing s with
  | nil => rfl
  | cons op ops ih =>
    have hop : ∀ k, op.key = some k → k ∈ K := by
      intro k hk'
      apply hk
      simp [histKeys, hk']
    have h1 := sql_step_refines hfix hK hs op hop
    have hs' := spec_step_good (cfg := cfg) hs op hop
    have ih' := ih (fun k hk' => hk k (by
        simp only [histKeys, List.filterMap_cons] at hk' ⊢
        cases op.key <;> simp_all)) _ hs'
    simp only [KV.run, Spec.run]
    unfold Sql.step at h1
    rw [h1, ih']

/-- **Every backend implements the same abstract map**: from the empty store, for
    every history whose keys `h` keeps apart, memory and SQL return the same
    results as the reference map and end holding its contents. -/
theorem backends_agree (cfg : Cfg) (hm : cfg.memReplaceKeeps = true) (hq : cfg.sqlNilGuard = true)
    (ops : List Op) (hK : InjOn (ordKey cfg) (histKeys ops)) (hr : HistInRange ops) :
    (KV.run (Mem.ops cfg.memReplaceKeeps) cfg [] ops).2 = (Spec.run cfg [] ops).2 ∧
    (KV.run (Sql.ops cfg.sqlNilGuard) cfg [] ops).2 = (Spec.run cfg [] ops).2 ∧
    (KV.run (Mem.ops cfg.memReplaceKeeps) cfg [] ops).1 = repMem cfg (Spec.run cfg [] ops).1 ∧
    (KV.run (Sql.ops cfg.sqlNilGuard) cfg [] ops).1 = repSql cfg (Spec.run cfg [] ops).1 := by
  have h1 := mem_run_refines cfg hm _ hK ops (fun _ h => h) hr [] Good.nil
  have h2 := sql_run_refines cfg hq _ hK ops (fun _ h => h) [] Good.nil
  simp only [repMem, repSql, List.map_nil] at h1 h2
  rw [h1, h2]
  exact ⟨rfl, rfl, rfl, rfl⟩

/-- in an ordered store the table *is* the map: keys are kept verbatim -/
theorem ordered_rep_verbatim (cfg : Cfg) (ho : cfg.ordered = true) (s : Tab) :
    repMem cfg s = s ∧ repSql cfg s = s.map (fun p => ⟨p.1, p.2.cls, p.2.val⟩) := by
  simp [repMem, repSql, ordKey, ho]

/-- an ordered store needs no hypothesis on `h` -/
theorem ordered_injOn (cfg : Cfg) (ho : cfg.ordered = true) (K : List Key) : InjOn (ordKey cfg) K := by
  intro a _ b _ h
  simpa [ordKey, ho] using h

/-! ## the code before the two repairs did not refine the map (witnesses) -/

def cfgEx (ordered keeps guard : Bool) : Cfg :=
  { ordered := ordered, maxKeyLen := 255, h := fun k => k ++ [0], valid := fun b => b ≠ [],
    memReplaceKeeps := keeps, sqlNilGuard := guard }

/-- `AddClass k c v; Replace k v'` with `memKV.replace` as it was: the class is lost -/
theorem mem_replace_lost_class_unrepaired :
    let cfg := cfgEx true false true
    let ops := [Op.addClass [107] [99] [49], Op.replace [107] [50]]
    (KV.run (Mem.ops cfg.memReplaceKeeps) cfg [] ops).1 = [([107], ⟨[], [50]⟩)] ∧
    (Spec.run cfg [] ops).1 = [([107], ⟨[99], [50]⟩)] := by decide

/-- `AppendBytes k nil` with the SQL paths as they were: NOT NULL failure, nothing stored -/
theorem sql_nil_rejected_unrepaired :
    let cfg := cfgEx true true false
    let ops := [Op.appendBytes [107] none]
    KV.run (Sql.ops cfg.sqlNilGuard) cfg [] ops = ([], [.res .sqlNull]) ∧
    Spec.run cfg [] ops = ([([107], ⟨[], []⟩)], [.res .ok]) := by decide


/-! ## corollaries of the property statement

Stated on `Spec` in an arbitrary state (hence after any history); by
`backends_agree` the memory and SQL backends show the same results and contents. -/

section corollaries
variable (cfg : Cfg) (s : Tab) (k : Key)

/-- **add fails on an existing key and changes nothing** -/
theorem add_existing_noop (hk : keyOk cfg k = true) (h : (s.get k).isSome = true) (c : Class) (v : Bytes) :
    Spec.step cfg s (.add k v) = (s, .res .exists) ∧ Spec.step cfg s (.addClass k c v) = (s, .res .exists) := by
  simp [Spec.step, Spec.addClass, hk, h]

/-- **set / set-class / remove / mutate report not-found on a missing key** (and change nothing) -/
theorem missing_key_notFound (hk : keyOk cfg k = true) (h : s.get k = none) (c : Class) (v : Bytes)
    (v' : Option Bytes) (f : Bytes → MutRes) :
    Spec.step cfg s (.set k v) = (s, .res .notFound) ∧
    Spec.step cfg s (.setBytes k v') = (s, .res .notFound) ∧
    Spec.step cfg s (.setClass k c) = (s, .res .notFound) ∧
    Spec.step cfg s (.remove k) = (s, .res .notFound) ∧
    Spec.step cfg s (.mutate k f) = (s, .res .notFound) := by
  simp [Spec.step, Spec.update, hk, h]

/-- **emplace never overwrites**: on an existing key nothing changes; on a missing key
    the entry is created with class "" -/
theorem emplace_keeps_first (hk : keyOk cfg k = true) (v : Bytes) :
    (∀ e, s.get k = some e → Spec.step cfg s (.emplace k v) = (s, .res .ok)) ∧
    (s.get k = none → (Spec.step cfg s (.emplace k v)).2 = .res .ok ∧
        (Spec.step cfg s (.emplace k v)).1.get k = some ⟨[], v⟩) := by
  constructor
  · intro e he
    simp [Spec.step, Spec.upsert, hk, he, modify_id]
  · intro hn
    simp [Spec.step, Spec.upsert, hk, hn, get_append_new]

/-- **replace and append upsert; an existing entry keeps its class**; other keys are untouched -/
theorem replace_append_upsert_keep_class (hk : keyOk cfg k = true) (v : Bytes) (v' : Option Bytes) :
    (∀ e, s.get k = some e →
      (Spec.step cfg s (.replace k v)).1.get k = some ⟨e.cls, v⟩ ∧
      (Spec.step cfg s (.appendBytes k v')).1.get k = some ⟨e.cls, e.val ++ v'.getD []⟩) ∧
    (s.get k = none →
      (Spec.step cfg s (.replace k v)).1.get k = some ⟨[], v⟩ ∧
      (Spec.step cfg s (.appendBytes k v')).1.get k = some ⟨[], v'.getD []⟩) ∧
    (Spec.step cfg s (.replace k v)).2 = .res .ok ∧ (Spec.step cfg s (.appendBytes k v')).2 = .res .ok ∧
    (∀ k', k' ≠ k → (Spec.step cfg s (.replace k v)).1.get k' = s.get k' ∧
      (Spec.step cfg s (.appendBytes k v')).1.get k' = s.get k') := by
  refine ⟨?_, ?_, ?_, ?_, ?_⟩
  · intro e he
    simp [Spec.step, Spec.upsert, hk, he, get_modify_self, Spec.setVal, Spec.appVal]
  · intro hn
    simp [Spec.step, Spec.upsert, hk, hn, get_append_new]
  · cases hg : s.get k <;> simp [Spec.step, Spec.upsert, hk, hg]
  · cases hg : s.get k <;> simp [Spec.step, Spec.upsert, hk, hg]
  · intro k' hne
    cases hg : s.get k <;> simp [Spec.step, Spec.upsert, hk, hg, get_modify_ne _ hne, get_append_ne _ hne]

/-- **a failed or cancelled mutate changes nothing** (nor does one whose stored bytes do not decode) -/
theorem failed_or_cancelled_mutate_noop (f : Bytes → MutRes)
    (h : ∀ e, s.get k = some e → cfg.valid e.val = false ∨ f e.val = .cancel ∨ f e.val = .fail) :
    (Spec.step cfg s (.mutate k f)).1 = s := by
  simp only [Spec.step]
  split
  · rfl
  · cases hg : s.get k with
    | none => rfl
    | some e =>
      rcases h e hg with hv | hc | hf
      · simp [hv]
      · simp only [hc]; split <;> rfl
      · simp only [hf]; split <;> rfl

/-- a successful mutate stores what the callback returned, under the old class -/
theorem mutate_put (hk : keyOk cfg k = true) (f : Bytes → MutRes) (e : Entry) (v : Bytes)
    (he : s.get k = some e) (hv : cfg.valid e.val = true) (hf : f e.val = .put v) :
    (Spec.step cfg s (.mutate k f)).2 = .mutated (some e.val) .ok ∧
    (Spec.step cfg s (.mutate k f)).1.get k = some ⟨e.cls, v⟩ := by
  simp [Spec.step, hk, he, hv, hf, get_modify_self, Spec.setVal]

/-- **count / has / get agree with the map** -/
theorem count_has_get_agree (hk : keyOk cfg k = true) :
    Spec.step cfg s .count = (s, .count s.length) ∧
    Spec.step cfg s (.has k) = (s, .has (s.get k).isSome) ∧
    (∀ e, s.get k = some e → Spec.step cfg s (.get k) = (s, .got e.val)) ∧
    (s.get k = none → Spec.step cfg s (.get k) = (s, .res .notFound)) ∧
    (∀ k', (s.get k').isSome = true ↔ k' ∈ s.map (·.1)) ∧ s.length = (s.map (·.1)).length := by
  refine ⟨rfl, by simp [Spec.step, hk], ?_, ?_, fun _ => get_isSome_iff, by simp⟩
  · intro e he; simp [Spec.step, hk, he]
  · intro hn; simp [Spec.step, hk, hn]

/-- **walks visit exactly the live entries of the requested class, in the store's key
    order, ascending or descending as asked, within the window `[off, off+n)`**:
    `L` below has exactly the matching entries, each once, strictly sorted by the
    store's key; the walk hands `(L.drop off).take n` to the callback loop, which
    reports a prefix of it (all of it when every value decodes and the callback
    continues). -/
theorem walk_exact (c : Option Class) (p : Option Partial) (cb : WalkCb)
    (hs : (s.map (fun q => ordKey cfg q.1)).Nodup) (ho : p.isSome = true → cfg.ordered = true) :
    let L := Spec.entries cfg s c (isDesc p)
    let W := (window p L).map (fun q => (q.2.cls, q.2.val))
    (∀ q, q ∈ L ↔ q ∈ s ∧ clsMatch c q.2 = true) ∧
    L.length = (s.filter (fun q => clsMatch c q.2)).length ∧
    L.Pairwise (fun a b => ltKey (isDesc p) (ordKey cfg a.1) (ordKey cfg b.1)) ∧
    Spec.walk cfg s c p cb = (s, .walked (visit cfg.valid cb 0 W).1 (visit cfg.valid cb 0 W).2) ∧
    (visit cfg.valid cb 0 W).1 <+: W ∧
    ((∀ x ∈ W, cfg.valid x.2 = true) → (∀ i c v, cb i c v = .cont) → visit cfg.valid cb 0 W = (W, .ok)) := by
  refine ⟨?_, ?_, entries_sorted cfg s c _ hs, ?_, visit_prefix _ _ _ _, fun hv hc => visit_all _ _ _ hv hc 0⟩
  · intro q
    rw [entries_eq, mem_isort, List.mem_filter]
  · rw [entries_eq, length_isort]
  · unfold Spec.walk
    cases hp : p.isSome
    · simp
    · simp [ho hp]

/-- the four walk operations are `Spec.walk` with the class and window they name; the
    windowed ones are refused by unordered stores -/
theorem walk_ops (cb : WalkCb) (c : Class) (p : Partial) :
    Spec.step cfg s (.walk cb) = Spec.walk cfg s none none cb ∧
    Spec.step cfg s (.walkClass c cb) = Spec.walk cfg s (some c) none cb ∧
    Spec.step cfg s (.walkPartial p cb) = Spec.walk cfg s none (some p) cb ∧
    Spec.step cfg s (.walkPartialClass c p cb) = Spec.walk cfg s (some c) (some p) cb ∧
    (cfg.ordered = false → Spec.walk cfg s none (some p) cb = (s, .res .unordered) ∧
      Spec.walk cfg s (some c) (some p) cb = (s, .res .unordered)) := by
  refine ⟨rfl, rfl, rfl, rfl, ?_⟩
  intro h
  simp [Spec.walk, h]

/-- **ordered stores preserve keys verbatim and reject over-long keys; unordered stores
    accept any key** -/
theorem ordered_keys_verbatim_and_length_checked :
    (cfg.ordered = true → (mapKey cfg k = if k.length ≤ cfg.maxKeyLen then some k else none) ∧
        (keyOk cfg k = false → ∀ op, op.key = some k → Spec.step cfg s op = (s, .res .keyTooLong))) ∧
    (cfg.ordered = false → mapKey cfg k = some (cfg.h k) ∧ keyOk cfg k = true) := by
  constructor
  · intro ho
    constructor
    · simp only [mapKey, ho]
      by_cases h : k.length ≤ cfg.maxKeyLen
      · have : ¬ k.length > cfg.maxKeyLen := by omega
        simp [h, this]
      · have : k.length > cfg.maxKeyLen := by omega
        simp [h, this]
    · intro hk op hop
      cases op <;> simp only [Op.key, Option.some.injEq, reduceCtorEq] at hop <;> subst hop <;>
        simp [Spec.step, Spec.addClass, Spec.update, Spec.upsert, hk]
  · intro hu
    simp [mapKey, keyOk, hu]

end corollaries

/-- the corollaries hold for the real configuration: the regenerated facts satisfy the
    hypotheses of both refinement theorems and pin the key limit -/
theorem gen_backends_agree (ordered : Bool) (h : Key → Key) (valid : Bytes → Bool) (ops : List Op)
    (hK : InjOn (ordKey (genCfg ordered h valid)) (histKeys ops)) (hr : HistInRange ops) :
    let cfg := genCfg ordered h valid
    (KV.run (Mem.ops cfg.memReplaceKeeps) cfg [] ops).2 = (Spec.run cfg [] ops).2 ∧
    (KV.run (Sql.ops cfg.sqlNilGuard) cfg [] ops).2 = (Spec.run cfg [] ops).2 ∧
    (KV.run (Mem.ops cfg.memReplaceKeeps) cfg [] ops).1 = repMem cfg (Spec.run cfg [] ops).1 ∧
    (KV.run (Sql.ops cfg.sqlNilGuard) cfg [] ops).1 = repSql cfg (Spec.run cfg [] ops).1 :=
  backends_agree _ (gen_cfg_ok ordered h valid).1 (gen_cfg_ok ordered h valid).2.1 ops hK hr

/-- the memory walk does not depend on the order in which the Go map is iterated -/
theorem mem_sortKeys_perm (ks₁ ks₂ : List Key) (hp : ks₁.Perm ks₂) (desc : Bool) :
    Mem.sortKeys ks₁ desc = Mem.sortKeys ks₂ desc :=
  isort_perm_eq _ (fun a b => leKey_total desc a b) (fun _ _ _ h1 h2 => leKey_trans desc h1 h2)
    (fun _ _ h1 h2 => leKey_antisymm desc h1 h2) _ _ hp

/-! ## non-vacuity -/

/-- a history on an ordered store exercising add-on-existing, replace after AddClass,
    append on nil, a cancelled mutate and a descending window -/
example :
    let cfg := cfgEx true true true
    let ops : List Op := [.addClass [2] [9] [49], .add [1] [50], .add [2] [51], .replace [2] [52],
      .appendBytes [3] none, .appendBytes [3] (some [53]), .mutate [1] (fun _ => .cancel),
      .walkPartial ⟨1, 2, true⟩ (fun _ _ _ => .cont), .count]
    (Spec.run cfg [] ops).2 = [.res .ok, .res .ok, .res .exists, .res .ok, .res .ok, .res .ok,
        .mutated (some [50]) .ok, .walked [([9], [52]), ([], [50])] .ok, .count 3] ∧
    (KV.run (Mem.ops true) cfg [] ops).2 = (Spec.run cfg [] ops).2 ∧
    (KV.run (Sql.ops true) cfg [] ops).2 = (Spec.run cfg [] ops).2 := by decide

/-- the hypotheses of the corollaries are satisfiable: a two-entry map, an existing key,
    a missing key, a walk whose window is the second entry in descending order -/
example :
    let cfg := cfgEx true true true
    let s : Tab := [([2], ⟨[9], [49]⟩), ([1], ⟨[], [50]⟩)]
    keyOk cfg [1] = true ∧ (s.get [1]).isSome = true ∧ s.get [3] = none ∧
    (s.map (fun q => ordKey cfg q.1)).Nodup ∧
    Spec.step cfg s (.add [1] [51]) = (s, .res .exists) ∧
    Spec.step cfg s (.remove [3]) = (s, .res .notFound) ∧
    (Spec.step cfg s (.walkPartial ⟨1, 5, true⟩ (fun _ _ _ => .cont))).2 = .walked [([], [50])] .ok ∧
    (Spec.step cfg s (.walkClass [9] (fun _ _ _ => .cont))).2 = .walked [([9], [49])] .ok := by decide

/-- an unordered store refuses windows and files entries under `h k` -/
example :
    let cfg := cfgEx false true true
    (Spec.step cfg [] (.walkPartial ⟨0, 1, false⟩ (fun _ _ _ => .cont))).2 = .res .unordered ∧
    (Mem.step cfg [] (.add [7] [49])).1 = [([7, 0], ⟨[], [49]⟩)] ∧
    (Sql.step cfg [] (.add [7] [49])).1 = [⟨[7, 0], [], [49]⟩] := by decide

/-- the hypotheses of `backends_agree` are satisfiable on an unordered store -/
example : InjOn (ordKey (cfgEx false true true)) (histKeys [.add [1] [49], .add [2] [50], .get [1]]) ∧
    HistInRange [Op.walkPartial ⟨0, 2 ^ 63 - 1, false⟩ (fun _ _ _ => .cont)] := by
  constructor
  · intro a _ b _ h
    simpa [ordKey, cfgEx] using h
  · intro op hop
    simp only [List.mem_singleton] at hop
    subst hop
    simp [Op.InRange]

/-- `Good` states with a too-long key rejected and a 255-byte key accepted -/
example : keyOk (cfgEx true true true) (List.replicate 255 7) = true ∧
    keyOk (cfgEx true true true) (List.replicate 256 7) = false ∧
    keyOk (cfgEx false true true) (List.replicate 300 7) = true := by
  simp only [keyOk, cfgEx, List.length_replicate]
  decide

end PubModel.C05
