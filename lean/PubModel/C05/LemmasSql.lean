/-
C05 — the SQL backend refines Spec, operation by operation.
-/
import PubModel.C05.LemmasMem

namespace PubModel.C05

section
variable {cfg : Cfg} {K : List Key} {s : Tab} {k : Key}

theorem repSql_setV (hK : InjOn (ordKey cfg) K) (hs : Good K s) (hk : k ∈ K) (g : Bytes → Bytes) :
    Sql.setV (ordKey cfg k) g (repSql cfg s) = repSql cfg (s.modify k (fun e => { e with val := g e.val })) := by
  unfold Sql.setV
  exact repSql_mapRows hK hs hk _ (fun r => { r with v := g r.v }) (fun _ => rfl)

theorem repSql_setC (hK : InjOn (ordKey cfg) K) (hs : Good K s) (hk : k ∈ K) (c : Class) :
    (repSql cfg s).map (fun r => if r.k = ordKey cfg k then { r with c := c } else r) =
      repSql cfg (s.modify k (Spec.setCls c)) :=
  repSql_mapRows hK hs hk _ (fun r => { r with c := c }) (fun _ => rfl)

theorem repSql_length : (repSql cfg s).length = s.length := by simp [repSql]

theorem rowsOut_rep (W : Tab) : Sql.rowsOut (repSql cfg W) = (.ok, repMem cfg W) := by
  simp only [Sql.rowsOut, repSql, repMem, List.map_map]
  congr 1

theorem sql_select (c : Option Class) (desc : Bool) (p : Option Partial) :
    Sql.select (repSql cfg s) c desc (p.map (fun p => (p.n, p.off))) =
      repSql cfg (window p (Spec.entries cfg s c desc)) := by
  unfold Sql.select
  have h1 : (repSql cfg s).filter (Sql.whereC c) = repSql cfg (s.filter (fun p => clsMatch c p.2)) := by
    simp only [repSql, List.filter_map]
    congr 1
  have h2 : ∀ S : Tab, isort (fun a b : Sql.Row => leKey desc a.k b.k) (repSql cfg S) =
      repSql cfg (isort (leP cfg desc) S) := by
    intro S
    exact (isort_map (leP cfg desc) _ (fun p : Key × Entry => (⟨ordKey cfg p.1, p.2.cls, p.2.val⟩ : Sql.Row))
      (fun _ _ => rfl) S).symm
  rw [h1, h2, ← entries_eq]
  cases p with
  | none => rfl
  | some p => simp [Sql.limit, window, repSql, List.map_drop, List.map_take]

theorem keyed_sql (f : Key → Sql.Table × Out) (g : Tab × Out)
    (h : keyOk cfg k = true → f (ordKey cfg k) = (repSql cfg g.1, g.2)) :
    KV.onKey cfg (repSql cfg s) k f =
      (repSql cfg (if !keyOk cfg k then (s, Out.res .keyTooLong) else g).1,
       (if !keyOk cfg k then (s, Out.res .keyTooLong) else g).2) := by
  simp only [KV.onKey, mapKey_eq]
  by_cases hko : keyOk cfg k = true
  · simp [hko, h hko]
  · simp [hko]

theorem sql_insert (hK : InjOn (ordKey cfg) K) (hs : Good K s) (hk : k ∈ K) (c : Class) (v : Bytes)
    (oc : Sql.OnConflict) :
    Sql.insert (repSql cfg s) (ordKey cfg k) c (some v) oc =
      match s.get k with
      | none => (repSql cfg (s ++ [(k, ⟨c, v⟩)]), .done 1)
      | some _ =>
        match oc with
        | .abort => (repSql cfg s, .unique)
        | .doNothing => (repSql cfg s, .done 0)
        | .updateV => (repSql cfg (s.modify k (Spec.setVal v)), .done 1)
        | .appendV => (repSql cfg (s.modify k (Spec.appVal v)), .done 1) := by
  simp only [Sql.insert, repSql_any hK hs hk]
  cases hg : s.get k with
  | none => simp [repSql_append]
  | some e =>
    cases oc <;> simp [repSql_setV hK hs hk] <;> rfl

theorem sql_step_refines (hguard : cfg.sqlNilGuard = true) (hK : InjOn (ordKey cfg) K) (hs : Good K s)
    (op : Op) (hop : ∀ k, op.key = some k → k ∈ K) :
    Sql.step cfg (repSql cfg s) op = (repSql cfg (Spec.step cfg s op).1, (Spec.step cfg s op).2) := by
  cases op with
  | add k v =>
    have hk := hop k rfl
    simp only [Sql.step, KV.step, Spec.step, Spec.addClass, hguard]
    rw [keyed_sql]
    intro _
    simp only [Sql.ops, KV.res, Sql.execRes, sql_insert hK hs hk]
    cases hg : s.get k <;> simp
  | addClass k c v =>
    have hk := hop k rfl
    simp only [Sql.step, KV.step, Spec.step, Spec.addClass, hguard]
    rw [keyed_sql]
    intro _
    simp only [Sql.ops, KV.res, Sql.execRes, sql_insert hK hs hk]
    cases hg : s.get k <;> simp
  | setClass k c =>
    have hk := hop k rfl
    simp only [Sql.step, KV.step, Spec.step, Spec.update, hguard]
    rw [keyed_sql]
    intro _
    simp only [Sql.ops, KV.res, Sql.execRes, Sql.updateC, repSql_countP hK hs hk, repSql_setC hK hs hk]
    cases hg : s.get k with
    | none =>
      have : s.modify k (Spec.setCls c) = s := by
        simp only [Tab.modify]
        conv => rhs; rw [← List.map_id s]
        apply List.map_congr_left
        intro p hp
        have : p.1 ≠ k := by
          intro e
          have := get_of_mem hs.nodup hp
          rw [e, hg] at this
          cases this
        simp [this]
      simp [Sql.sqlResError, this]
    | some e => simp [Sql.sqlResError]
  | remove k =>
    have hk := hop k rfl
    simp only [Sql.step, KV.step, Spec.step, hguard]
    rw [keyed_sql]
    intro _
    simp only [Sql.ops, KV.res, Sql.execRes, Sql.deleteK, repSql_countP hK hs hk, repSql_filter hK hs hk]
    cases hg : s.get k with
    | none =>
      have : s.del k = s := by
        simp only [Tab.del]
        apply List.filter_eq_self.mpr
        intro p hp
        have : p.1 ≠ k := by
          intro e
          have := get_of_mem hs.nodup hp
          rw [e, hg] at this
          cases this
        simp [this]
      simp [Sql.sqlResError, this]
    | some e => simp [Sql.sqlResError]
  | get k =>
    have hk := hop k rfl
    simp only [Sql.step, KV.step, Spec.step, hguard]
    rw [keyed_sql]
    intro _
    simp only [Sql.ops, Sql.selectV, repSql_find hK hs hk]
    cases hg : s.get k <;> simp
  | has k =>
    have hk := hop k rfl
    simp only [Sql.step, KV.step, Spec.step, hguard]
    rw [keyed_sql]
    intro _
    simp [Sql.ops, Sql.select1, repSql_any hK hs hk]
  | emplace k v =>
    have hk := hop k rfl
    simp only [Sql.step, KV.step, Spec.step, Spec.upsert, hguard]
    rw [keyed_sql]
    intro _
    simp only [Sql.ops, KV.res, Sql.execRes, sql_insert hK hs hk]
    cases hg : s.get k <;> simp [modify_id]
  | replace k v =>
    have hk := hop k rfl
    simp only [Sql.step, KV.step, Spec.step, Spec.upsert, hguard]
    rw [keyed_sql]
    intro _
    simp only [Sql.ops, KV.res, Sql.execRes, sql_insert hK hs hk]
    cases hg : s.get k <;> simp
  | appendBytes k v =>
    have hk := hop k rfl
    simp only [Sql.step, KV.step, Spec.step, Spec.upsert, hguard]
    rw [keyed_sql]
    intro _
    simp only [Sql.ops, KV.res, Sql.execRes, Sql.bindBytes, if_true, sql_insert hK hs hk]
    cases hg : s.get k <;> simp
  | setBytes k v =>
    have hk := hop k rfl
    simp only [Sql.step, KV.step, Spec.step, Spec.update, hguard]
    rw [keyed_sql]
    intro _
    simp only [Sql.ops, KV.res, Sql.execRes, Sql.bindBytes, if_true, Sql.updateV, repSql_countP hK hs hk,
      repSql_setV hK hs hk]
    cases hg : s.get k <;> simp [Sql.sqlResError] <;> rfl
  | set k v =>
    have hk := hop k rfl
    simp only [Sql.step, KV.step, Spec.step, Spec.update, hguard]
    rw [keyed_sql]
    intro _
    simp only [Sql.ops, KV.res, Sql.execRes, Sql.bindBytes, if_true, Sql.updateV, repSql_countP hK hs hk,
      repSql_setV hK hs hk]
    cases hg : s.get k <;> simp [Sql.sqlResError] <;> rfl
  | mutate k f =>
    have hk := hop k rfl
    simp only [Sql.step, KV.step, Spec.step, hguard]
    rw [keyed_sql]
    intro _
    simp only [Sql.ops, Sql.selectV, repSql_find hK hs hk, Sql.execRes, Sql.updateV, repSql_countP hK hs hk,
      repSql_setV hK hs hk]
    cases hg : s.get k with
    | none => simp
    | some e =>
      by_cases hv : cfg.valid e.val = true
      · cases hf : f e.val <;> simp [KV.mutFn, hv, hf, Sql.sqlResError] <;> rfl
      · simp [KV.mutFn, hv]
  | count => simp [Sql.step, KV.step, Spec.step, Sql.ops, Sql.count, repSql_length]
  | clear => simp [Sql.step, KV.step, Spec.step, Sql.ops, KV.res, Sql.execRes, Sql.deleteAll, repSql]
  | walk cb =>
    have := sql_select (cfg := cfg) (s := s) none false none
    simp only [Option.map_none] at this
    simp only [Sql.step, KV.step, Spec.step, Spec.walk, Sql.ops, this, rowsOut_rep, KV.walkOut, rep_vals]
    simp [isDesc]
  | walkClass c cb =>
    have := sql_select (cfg := cfg) (s := s) (some c) false none
    simp only [Option.map_none] at this
    simp only [Sql.step, KV.step, Spec.step, Spec.walk, Sql.ops, this, rowsOut_rep, KV.walkOut, rep_vals]
    simp [isDesc]
  | walkPartial p cb =>
    have := sql_select (cfg := cfg) (s := s) none p.desc (some p)
    simp only [Option.map_some] at this
    simp only [Sql.step, KV.step, Spec.step, Spec.walk, Sql.ops, this, rowsOut_rep, KV.walkOut, rep_vals]
    cases cfg.ordered <;> simp [isDesc]
  | walkPartialClass c p cb =>
    have := sql_select (cfg := cfg) (s := s) (some c) p.desc (some p)
    simp only [Option.map_some] at this
    simp only [Sql.step, KV.step, Spec.step, Spec.walk, Sql.ops, this, rowsOut_rep, KV.walkOut, rep_vals]
    cases cfg.ordered <;> simp [isDesc]

end

end PubModel.C05
