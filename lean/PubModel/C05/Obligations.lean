/-
C05 — obligations that connect the *regenerated* facts (`Gen.Pisces`, rewritten
from /repo's source on every run) to the hypotheses of the refinement theorems.
All closed by `decide`.
-/
import PubModel.C05.Glue

namespace PubModel.C05
open PubModel.Gen

/-- ordered stores accept keys up to the length the model assumes -/
theorem gen_maxKeyLen : Pisces.maxKeyLen = Golden.maxKeyLen := by decide

/-- `kvMapKey` rejects exactly the keys longer than `MaxKeyLen` -/
theorem gen_keyLenTest :
    Pisces.keyLenLhs = "len(key)" ∧ Pisces.keyLenOp = ">" ∧ Pisces.keyLenLimit = Pisces.maxKeyLen := by decide

/-- hypothesis of `mem_refines_spec`: `memKV.replace` keeps the class of an existing entry -/
theorem gen_memReplaceKeeps : Pisces.memReplaceKeeps = true := by decide

/-- hypothesis of `sql_refines_spec`: a nil slice is bound as an empty blob, not as NULL -/
theorem gen_sqlNilGuard : Pisces.sqlNilGuard = true := by decide

/-- PostgreSQL is not run; its statements are those of SQLite up to `$n` placeholders,
    except `clear` (`truncate table`) -/
theorem gen_psql_eq_sqlite :
    Pisces.psqlNorm.filter (fun m => m.1 ≠ "clear") = Pisces.sqlite.filter (fun m => m.1 ≠ "clear") ∧
    (Pisces.psqlNorm.lookup "clear").map (·.1) = some Golden.psqlClear ∧
    Pisces.psqlNilGuard = Pisces.sqlNilGuard := by decide

/-- the function table has exactly the methods the model gives statements for -/
theorem gen_methods : Pisces.sqlite.map (·.1) = Golden.sqlite.map (·.1) := by decide

/-- `mutate` is the only method that opens a transaction, and it commits last -/
theorem gen_mutate_tx :
    (Pisces.sqlite.filter (fun m => m.2.2.2 ≠ [])).map (fun m => (m.1, m.2.2.2)) =
      [("mutate", ["Begin", "Rollback", "Commit"])] := by decide

/-- the configuration the theorems are instantiated with -/
theorem gen_cfg_ok (ordered : Bool) (h : Key → Key) (valid : Bytes → Bool) :
    (genCfg ordered h valid).memReplaceKeeps = true ∧ (genCfg ordered h valid).sqlNilGuard = true ∧
    (genCfg ordered h valid).maxKeyLen = 255 := by
  refine ⟨gen_memReplaceKeeps, gen_sqlNilGuard, ?_⟩
  exact gen_maxKeyLen

end PubModel.C05
