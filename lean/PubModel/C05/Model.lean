/-
C05 — pisces: every KV backend implements the same abstract map.

Three executable models over byte strings (core Lean only):

* `Spec`  : the reference map from *user* key to (class, value); an association
            list with the 18 API operations and their result classes.
* `Mem`   : the in-memory backend as coded in `pisces/mem_kv.go`, `mem_entry.go`
            (`memKV.*`, `memEntry`, `sortKeys`, `partialKeys`, `walkKeys`); the Go
            map is an association list with unique keys.
* `Sql`   : a small relational core (table = list of rows; `insert` with the
            three `on conflict` clauses, `update .. where k`, `delete`, `select`,
            `count`, `order by k [desc] limit n offset m`, `where c = ?`,
            rows-affected -> `sqlResError`) and every method of
            `pisces/sqlite3_kv.go` written as the statement(s) the Go code issues.

`KV.step` is `pisces/kv.go`: the layer shared by all backends (key mapping,
JSON decoding around callbacks, `ErrCancel`, `ErrUnordered`) over a table of
backend functions (`KVOps`).

Keys, classes and values are bytes.  Order is bytewise (`ble`).  An unordered
store maps keys through the parameter `h` (SHA-256 in the code).
A nil Go slice is `none`, an empty one `some []`.
-/
import PubModel.Common.Hex

namespace PubModel.C05

abbrev Key := Bytes
abbrev Class := Bytes

structure Entry where
  cls : Class
  val : Bytes
deriving DecidableEq, Repr

/-- result classes of an API call (errors canonicalised) -/
inductive Res
  | ok
  | exists        -- add on an existing key
  | notFound
  | keyTooLong    -- ordered store, len(key) > MaxKeyLen
  | unordered     -- WalkPartial* on an unordered store
  | failed        -- the caller's callback returned an error
  | cancelled     -- the caller's callback returned ErrCancel (internal; the KV layer turns it into ok)
  | badJson       -- stored bytes are not valid JSON where the KV layer decodes them
  | sqlNull       -- NOT NULL constraint: a nil slice reached SQL as NULL
  | multi         -- sqlResError: more than one row affected
  | panic         -- Go runtime panic (slice bounds, nil entry)
deriving DecidableEq, Repr

/-- what a walk callback answers -/
inductive Cb | cont | cancel | fail
deriving DecidableEq, Repr

/-- what a mutate callback answers -/
inductive MutRes
  | put (v : Bytes)
  | cancel
  | fail
deriving DecidableEq, Repr

structure Partial where
  off : Nat
  n : Nat
  desc : Bool
deriving DecidableEq, Repr

abbrev WalkCb := Nat → Class → Bytes → Cb

/-- the 18 operations of `pisces.KV` -/
inductive Op
  | add (k : Key) (v : Bytes)
  | addClass (k : Key) (c : Class) (v : Bytes)
  | setClass (k : Key) (c : Class)
  | remove (k : Key)
  | get (k : Key)
  | has (k : Key)
  | emplace (k : Key) (v : Bytes)
  | replace (k : Key) (v : Bytes)
  | appendBytes (k : Key) (v : Option Bytes)
  | setBytes (k : Key) (v : Option Bytes)
  | set (k : Key) (v : Bytes)
  | mutate (k : Key) (f : Bytes → MutRes)
  | count
  | clear
  | walk (cb : WalkCb)
  | walkClass (c : Class) (cb : WalkCb)
  | walkPartial (p : Partial) (cb : WalkCb)
  | walkPartialClass (c : Class) (p : Partial) (cb : WalkCb)

inductive Out
  | res (r : Res)
  | got (v : Bytes)
  | has (b : Bool)
  | count (n : Nat)
  | mutated (saw : Option Bytes) (r : Res)
  | walked (vs : List (Class × Bytes)) (r : Res)
deriving DecidableEq, Repr

/-- parameters of a store; the two booleans are regenerated facts about the code -/
structure Cfg where
  ordered : Bool
  maxKeyLen : Nat
  h : Key → Key
  valid : Bytes → Bool
  /-- `memKV.replace` updates the bytes of an existing entry (keeps its class) -/
  memReplaceKeeps : Bool := true
  /-- the SQL paths of `SetBytes`/`AppendBytes` map a nil slice to an empty one -/
  sqlNilGuard : Bool := true

/-! ## bytewise order and sorting -/

/-- `a <= b` bytewise (Go string comparison, SQLite BINARY collation) -/
def ble : Bytes → Bytes → Bool
  | [], _ => true
  | _ :: _, [] => false
  | a :: as, b :: bs => a.toNat < b.toNat || (a.toNat = b.toNat && ble as bs)

def leKey (desc : Bool) (a b : Bytes) : Bool := if desc then ble b a else ble a b

def insertBy {α : Type} (le : α → α → Bool) (a : α) : List α → List α
  | [] => [a]
  | b :: l => if le a b then a :: b :: l else b :: insertBy le a l

/-- insertion sort -/
def isort {α : Type} (le : α → α → Bool) : List α → List α
  | [] => []
  | a :: l => insertBy le a (isort le l)

/-! ## key mapping (`kvMapKey`) -/

def keyOk (cfg : Cfg) (k : Key) : Bool := !cfg.ordered || k.length ≤ cfg.maxKeyLen

/-- the key under which the store files the entry, and by which it orders walks -/
def ordKey (cfg : Cfg) (k : Key) : Key := if cfg.ordered then k else cfg.h k

/-- `kvMapKey`: `none` is the "too long" error -/
def mapKey (cfg : Cfg) (k : Key) : Option Key :=
  if !cfg.ordered then some (cfg.h k)
  else if k.length > cfg.maxKeyLen then none
  else some k

/-! ## association lists -/

abbrev Tab := List (Key × Entry)

namespace Tab
def get (t : Tab) (k : Key) : Option Entry := (t.find? (fun p => p.1 = k)).map (·.2)
def modify (t : Tab) (k : Key) (g : Entry → Entry) : Tab :=
  t.map (fun p => if p.1 = k then (p.1, g p.2) else p)
def del (t : Tab) (k : Key) : Tab := t.filter (fun p => p.1 ≠ k)
/-- Go `m[k] = e` -/
def put (t : Tab) (k : Key) (e : Entry) : Tab :=
  if (t.get k).isSome then t.modify k (fun _ => e) else t ++ [(k, e)]
end Tab

/-! ## the callback loop shared by every walk (`Iter.doWalk` under `KV.Walk*`) -/

/-- visit entries in order: decode (invalid JSON is an error), call back, stop on
    cancel (reported as ok by the KV layer) or failure -/
def visit (valid : Bytes → Bool) (cb : WalkCb) : Nat → List (Class × Bytes) → List (Class × Bytes) × Res
  | _, [] => ([], .ok)
  | i, (c, v) :: rest =>
    if !valid v then ([], .badJson)
    else match cb i c v with
      | .cont => let r := visit valid cb (i + 1) rest; ((c, v) :: r.1, r.2)
      | .cancel => ([(c, v)], .ok)
      | .fail => ([(c, v)], .failed)

def window (p : Option Partial) {α : Type} (l : List α) : List α :=
  match p with
  | none => l
  | some p => (l.drop p.off).take p.n

def isDesc (p : Option Partial) : Bool :=
  match p with
  | none => false
  | some p => p.desc

def clsMatch (c : Option Class) (e : Entry) : Bool :=
  match c with
  | none => true
  | some c => e.cls = c

/-! ## Spec: the reference map, keyed by the user's key -/

namespace Spec

def setVal (v : Bytes) (e : Entry) : Entry := { e with val := v }
def setCls (c : Class) (e : Entry) : Entry := { e with cls := c }
def appVal (v : Bytes) (e : Entry) : Entry := { e with val := e.val ++ v }

/-- live entries of the class, in the store's key order -/
def entries (cfg : Cfg) (s : Tab) (c : Option Class) (desc : Bool) : List (Key × Entry) :=
  isort (fun a b => leKey desc (ordKey cfg a.1) (ordKey cfg b.1)) (s.filter (fun p => clsMatch c p.2))

def walk (cfg : Cfg) (s : Tab) (c : Option Class) (p : Option Partial) (cb : WalkCb) : Tab × Out :=
  if p.isSome && !cfg.ordered then (s, .res .unordered)
  else
    let es := window p (entries cfg s c (isDesc p))
    let r := visit cfg.valid cb 0 (es.map (fun q => (q.2.cls, q.2.val)))
    (s, .walked r.1 r.2)

def addClass (cfg : Cfg) (s : Tab) (k : Key) (c : Class) (v : Bytes) : Tab × Out :=
  if !keyOk cfg k then (s, .res .keyTooLong)
  else if (s.get k).isSome then (s, .res .exists)
  else (s ++ [(k, ⟨c, v⟩)], .res .ok)

/-- update an existing entry, `notFound` otherwise -/
def update (cfg : Cfg) (s : Tab) (k : Key) (g : Entry → Entry) : Tab × Out :=
  if !keyOk cfg k then (s, .res .keyTooLong)
  else if (s.get k).isSome then (s.modify k g, .res .ok)
  else (s, .res .notFound)

/-- update an existing entry or insert a fresh one of class "" -/
def upsert (cfg : Cfg) (s : Tab) (k : Key) (g : Entry → Entry) (v : Bytes) : Tab × Out :=
  if !keyOk cfg k then (s, .res .keyTooLong)
  else if (s.get k).isSome then (s.modify k g, .res .ok)
  else (s ++ [(k, ⟨[], v⟩)], .res .ok)

def step (cfg : Cfg) (s : Tab) : Op → Tab × Out
  | .add k v => addClass cfg s k [] v
  | .addClass k c v => addClass cfg s k c v
  | .setClass k c => update cfg s k (setCls c)
  | .remove k =>
    if !keyOk cfg k then (s, .res .keyTooLong)
    else if (s.get k).isSome then (s.del k, .res .ok) else (s, .res .notFound)
  | .get k =>
    if !keyOk cfg k then (s, .res .keyTooLong)
    else match s.get k with
      | some e => (s, .got e.val)
      | none => (s, .res .notFound)
  | .has k =>
    if !keyOk cfg k then (s, .res .keyTooLong) else (s, .has (s.get k).isSome)
  | .emplace k v => upsert cfg s k id v
  | .replace k v => upsert cfg s k (setVal v) v
  | .appendBytes k v => upsert cfg s k (appVal (v.getD [])) (v.getD [])
  | .setBytes k v => update cfg s k (setVal (v.getD []))
  | .set k v => update cfg s k (setVal v)
  | .mutate k f =>
    if !keyOk cfg k then (s, .res .keyTooLong)
    else match s.get k with
      | none => (s, .res .notFound)
      | some e =>
        if !cfg.valid e.val then (s, .mutated none .badJson)
        else match f e.val with
          | .put v => (s.modify k (setVal v), .mutated (some e.val) .ok)
          | .cancel => (s, .mutated (some e.val) .ok)
          | .fail => (s, .mutated (some e.val) .failed)
  | .count => (s, .count s.length)
  | .clear => ([], .res .ok)
  | .walk cb => walk cfg s none none cb
  | .walkClass c cb => walk cfg s (some c) none cb
  | .walkPartial p cb => walk cfg s none (some p) cb
  | .walkPartialClass c p cb => walk cfg s (some c) (some p) cb

def run (cfg : Cfg) (s : Tab) : List Op → Tab × List Out
  | [] => (s, [])
  | op :: ops =>
    let r := step cfg s op
    let rs := run cfg r.1 ops
    (rs.1, r.2 :: rs.2)

end Spec

/-! ## `KVOps`: the function table every backend fills in -/

structure Ops (σ : Type) where
  clear : σ → σ × Res
  add : σ → Key → Class → Bytes → σ × Res
  get : σ → Key → Res × Bytes
  has : σ → Key → Res × Bool
  set : σ → Key → Option Bytes → σ × Res
  setClass : σ → Key → Class → σ × Res
  /-- the callback answers new bytes or an error class; the last component is what it was called with -/
  mutate : σ → Key → (Bytes → Except Res Bytes) → σ × Res × Option Bytes
  remove : σ → Key → σ × Res
  emplace : σ → Key → Class → Bytes → σ × Res
  replace : σ → Key → Class → Bytes → σ × Res
  append : σ → Key → Option Bytes → σ × Res
  /-- entries the walk hands to its callback, in order (callbacks do not touch the store) -/
  walk : σ → Res × List (Key × Entry)
  walkClass : σ → Class → Res × List (Key × Entry)
  walkPartial : σ → Partial → Res × List (Key × Entry)
  walkPartialClass : σ → Class → Partial → Res × List (Key × Entry)
  count : σ → Res × Nat

/-! ## `pisces/kv.go` -/

namespace KV

variable {σ : Type}

def onKey (cfg : Cfg) (s : σ) (k : Key) (f : Key → σ × Out) : σ × Out :=
  match mapKey cfg k with
  | none => (s, .res .keyTooLong)
  | some mk => f mk

def res (r : σ × Res) : σ × Out := (r.1, .res r.2)

/-- the wrapper `KV.Mutate` builds around the caller's function -/
def mutFn (cfg : Cfg) (f : Bytes → MutRes) (bs : Bytes) : Except Res Bytes :=
  if !cfg.valid bs then .error .badJson
  else match f bs with
    | .put v => .ok v
    | .cancel => .error .cancelled
    | .fail => .error .failed

def walkOut (cfg : Cfg) (s : σ) (cb : WalkCb) (r : Res × List (Key × Entry)) : σ × Out :=
  if r.1 ≠ .ok then (s, .res r.1)
  else
    let v := visit cfg.valid cb 0 (r.2.map (fun q => (q.2.cls, q.2.val)))
    (s, .walked v.1 v.2)

def step (ops : Ops σ) (cfg : Cfg) (s : σ) : Op → σ × Out
  | .add k v => onKey cfg s k fun mk => res (ops.add s mk [] v)
  | .addClass k c v => onKey cfg s k fun mk => res (ops.add s mk c v)
  | .setClass k c => onKey cfg s k fun mk => res (ops.setClass s mk c)
  | .remove k => onKey cfg s k fun mk => res (ops.remove s mk)
  | .get k => onKey cfg s k fun mk =>
      let r := ops.get s mk
      if r.1 = .ok then (s, .got r.2) else (s, .res r.1)
  | .has k => onKey cfg s k fun mk =>
      let r := ops.has s mk
      if r.1 = .ok then (s, .has r.2) else (s, .res r.1)
  | .emplace k v => onKey cfg s k fun mk => res (ops.emplace s mk [] v)
  | .replace k v => onKey cfg s k fun mk => res (ops.replace s mk [] v)
  | .appendBytes k v => onKey cfg s k fun mk => res (ops.append s mk v)
  | .setBytes k v => onKey cfg s k fun mk => res (ops.set s mk v)
  | .set k v => onKey cfg s k fun mk => res (ops.set s mk (some v))
  | .mutate k f => onKey cfg s k fun mk =>
      let r := ops.mutate s mk (mutFn cfg f)
      match r.2.2 with
      | none => (r.1, .res r.2.1)   -- the callback never ran
      | some bs =>
        let saw := if cfg.valid bs then some bs else none
        (r.1, .mutated saw (if r.2.1 = .cancelled then .ok else r.2.1))
  | .count =>
      let r := ops.count s
      if r.1 = .ok then (s, .count r.2) else (s, .res r.1)
  | .clear => res (ops.clear s)
  | .walk cb => walkOut cfg s cb (ops.walk s)
  | .walkClass c cb => walkOut cfg s cb (ops.walkClass s c)
  | .walkPartial p cb =>
      if !cfg.ordered then (s, .res .unordered) else walkOut cfg s cb (ops.walkPartial s p)
  | .walkPartialClass c p cb =>
      if !cfg.ordered then (s, .res .unordered) else walkOut cfg s cb (ops.walkPartialClass s c p)

def run (ops : Ops σ) (cfg : Cfg) (s : σ) : List Op → σ × List Out
  | [] => (s, [])
  | op :: rest =>
    let r := step ops cfg s op
    let rs := run ops cfg r.1 rest
    (rs.1, r.2 :: rs.2)

end KV

/-! ## Mem: `pisces/mem_kv.go` as coded -/

namespace Mem

abbrev St := Tab

def keys (m : St) : List Key := m.map (·.1)
def classKeys (m : St) (c : Class) : List Key := (m.filter (fun p => p.2.cls = c)).map (·.1)
def sortKeys (ks : List Key) (desc : Bool) : List Key := isort (leKey desc) ks

/-- `partialKeys`: uint64 arithmetic; `none` is the slice-bounds panic `keys[start:end]`, start > end -/
def partialKeys (p : Partial) (ks : List Key) : Option (List Key) :=
  let n := ks.length
  let start := p.off % 2 ^ 64
  let end_ := (start + p.n) % 2 ^ 64
  let start := if start > n then n else start
  let end_ := if end_ > n then n else end_
  if start > end_ then none else some ((ks.take end_).drop start)

/-- `walkKeys`: `none` is a nil `*memEntry` dereference -/
def walkKeys (m : St) : List Key → Option (List (Key × Entry))
  | [] => some []
  | k :: ks =>
    match m.get k with
    | none => none
    | some e => (walkKeys m ks).map (fun r => (k, e) :: r)

def walkRes (r : Option (List (Key × Entry))) : Res × List (Key × Entry) :=
  match r with
  | some es => (.ok, es)
  | none => (.panic, [])

def setBytes (v : Bytes) (e : Entry) : Entry := { e with val := v }

def ops (keeps : Bool) : Ops St where
  clear := fun _ => ([], .ok)
  add := fun m k c v => if (m.get k).isSome then (m, .exists) else (m.put k ⟨c, v⟩, .ok)
  get := fun m k => match m.get k with
    | none => (.notFound, [])
    | some e => (.ok, e.val)
  has := fun m k => (.ok, (m.get k).isSome)
  set := fun m k v => match m.get k with
    | none => (m, .notFound)
    | some _ => (m.modify k (setBytes (v.getD [])), .ok)
  setClass := fun m k c => match m.get k with
    | none => (m, .notFound)
    | some _ => (m.modify k (fun e => { e with cls := c }), .ok)
  mutate := fun m k f => match m.get k with
    | none => (m, .notFound, none)
    | some e => match f e.val with
      | .error r => (m, r, some e.val)
      | .ok v => (m.modify k (setBytes v), .ok, some e.val)
  remove := fun m k => if (m.get k).isSome then (m.del k, .ok) else (m, .notFound)
  emplace := fun m k c v => if (m.get k).isSome then (m, .ok) else (m.put k ⟨c, v⟩, .ok)
  replace := fun m k c v =>
    if keeps then
      match m.get k with
      | some _ => (m.modify k (setBytes v), .ok)
      | none => (m.put k ⟨c, v⟩, .ok)
    else (m.put k ⟨c, v⟩, .ok)
  append := fun m k v => match m.get k with
    | none => (m.put k ⟨[], v.getD []⟩, .ok)
    | some _ => (m.modify k (fun e => { e with val := e.val ++ v.getD [] }), .ok)
  walk := fun m => walkRes (walkKeys m (sortKeys (keys m) false))
  walkClass := fun m c => walkRes (walkKeys m (sortKeys (classKeys m c) false))
  walkPartial := fun m p => walkRes ((partialKeys p (sortKeys (keys m) p.desc)).bind (walkKeys m))
  walkPartialClass := fun m c p => walkRes ((partialKeys p (sortKeys (classKeys m c) p.desc)).bind (walkKeys m))
  count := fun m => (.ok, m.length)

def step (cfg : Cfg) : St → Op → St × Out := KV.step (ops cfg.memReplaceKeeps) cfg

end Mem

/-! ## Sql: a relational core and `pisces/sqlite3_kv.go` on top of it -/

namespace Sql

structure Row where
  k : Bytes
  c : Bytes
  v : Bytes
deriving DecidableEq, Repr

/-- table `(k text not null unique, c text not null, v blob not null)` -/
abbrev Table := List Row

inductive Exec
  | done (rowsAffected : Nat)
  | unique      -- UNIQUE constraint failed
  | notNull     -- NOT NULL constraint failed
deriving DecidableEq, Repr

inductive OnConflict
  | abort       -- plain insert
  | doNothing   -- on conflict (k) do nothing
  | updateV     -- on conflict (k) do update set v = excluded.v
  | appendV     -- on conflict (k) do update set v = t.v || excluded.v
deriving DecidableEq, Repr

def setV (k : Bytes) (g : Bytes → Bytes) (t : Table) : Table :=
  t.map (fun r => if r.k = k then { r with v := g r.v } else r)

/-- `insert into t (k, c, v) values (?, ?, ?) [on conflict (k) ...]`; NOT NULL is checked before UNIQUE -/
def insert (t : Table) (k c : Bytes) (v : Option Bytes) (oc : OnConflict) : Table × Exec :=
  match v with
  | none => (t, .notNull)
  | some v =>
    if t.any (fun r => r.k = k) then
      match oc with
      | .abort => (t, .unique)
      | .doNothing => (t, .done 0)
      | .updateV => (setV k (fun _ => v) t, .done 1)
      | .appendV => (setV k (fun old => old ++ v) t, .done 1)
    else (t ++ [⟨k, c, v⟩], .done 1)

/-- `update t set v=? where k=?` -/
def updateV (t : Table) (k : Bytes) (v : Option Bytes) : Table × Exec :=
  let n := t.countP (fun r => r.k = k)
  if n = 0 then (t, .done 0)
  else match v with
    | none => (t, .notNull)
    | some v => (setV k (fun _ => v) t, .done n)

/-- `update t set c=? where k=?` -/
def updateC (t : Table) (k c : Bytes) : Table × Exec :=
  (t.map (fun r => if r.k = k then { r with c := c } else r), .done (t.countP (fun r => r.k = k)))

/-- `delete from t where k=?` -/
def deleteK (t : Table) (k : Bytes) : Table × Exec :=
  (t.filter (fun r => r.k ≠ k), .done (t.countP (fun r => r.k = k)))

/-- `delete from t` -/
def deleteAll (t : Table) : Table × Exec := ([], .done t.length)

/-- `select v from t where k=?` (first row) -/
def selectV (t : Table) (k : Bytes) : Option Bytes := (t.find? (fun r => r.k = k)).map (·.v)

/-- `select 1 from t where k=?` returned a row -/
def select1 (t : Table) (k : Bytes) : Bool := t.any (fun r => r.k = k)

/-- `select count(1) from t` -/
def count (t : Table) : Nat := t.length

/-- `where c=?` (absent: every row) -/
def whereC (c : Option Bytes) (r : Row) : Bool :=
  match c with
  | none => true
  | some c => r.c = c

/-- `limit n offset m` (absent: every row) -/
def limit (lim : Option (Nat × Nat)) (rows : List Row) : List Row :=
  match lim with
  | none => rows
  | some (n, m) => (rows.drop m).take n

/-- `select k, c, v from t [where c=?] order by k [asc|desc] [limit n offset m]` -/
def select (t : Table) (c : Option Bytes) (desc : Bool) (lim : Option (Nat × Nat)) : List Row :=
  limit lim (isort (fun a b => leKey desc a.k b.k) (t.filter (whereC c)))

/-- `sqlResError` -/
def sqlResError : Nat → Res
  | 0 => .notFound
  | 1 => .ok
  | _ => .multi

def execRes (t0 : Table) (r : Table × Exec) (onDone : Nat → Res) : Table × Res :=
  match r.2 with
  | .done n => (r.1, onDone n)
  | .unique => (t0, .exists)
  | .notNull => (t0, .sqlNull)

/-- what the Go code binds for a `[]byte` argument -/
def bindBytes (guard : Bool) (v : Option Bytes) : Option Bytes :=
  if guard then some (v.getD []) else v

def rowsOut (rs : List Row) : Res × List (Key × Entry) := (.ok, rs.map (fun r => (r.k, ⟨r.c, r.v⟩)))

def ops (guard : Bool) : Ops Table where
  clear := fun t => execRes t (deleteAll t) (fun _ => .ok)
  add := fun t k c v => execRes t (insert t k c (some v) .abort) (fun _ => .ok)
  get := fun t k => match selectV t k with
    | none => (.notFound, [])
    | some v => (.ok, v)
  has := fun t k => (.ok, select1 t k)
  set := fun t k v => execRes t (updateV t k (bindBytes guard v)) sqlResError
  setClass := fun t k c => execRes t (updateC t k c) sqlResError
  mutate := fun t k f =>
    -- begin; select v; f; update; commit (sequential reading; C06 has the concurrent one)
    match selectV t k with
    | none => (t, .notFound, none)
    | some bs => match f bs with
      | .error r => (t, r, some bs)
      | .ok nb =>
        let r := execRes t (updateV t k (some nb)) sqlResError
        if r.2 = .ok then (r.1, .ok, some bs) else (t, r.2, some bs)
  remove := fun t k => execRes t (deleteK t k) sqlResError
  emplace := fun t k c v => execRes t (insert t k c (some v) .doNothing) (fun _ => .ok)
  replace := fun t k c v => execRes t (insert t k c (some v) .updateV) (fun _ => .ok)
  append := fun t k v => execRes t (insert t k [] (bindBytes guard v) .appendV) (fun _ => .ok)
  walk := fun t => rowsOut (select t none false none)
  walkClass := fun t c => rowsOut (select t (some c) false none)
  walkPartial := fun t p => rowsOut (select t none p.desc (some (p.n, p.off)))
  walkPartialClass := fun t c p => rowsOut (select t (some c) p.desc (some (p.n, p.off)))
  count := fun t => (.ok, count t)

def step (cfg : Cfg) : Table → Op → Table × Out := KV.step (ops cfg.sqlNilGuard) cfg

end Sql

/-! ## preconditions used by the theorems -/

/-- the key an operation addresses -/
def Op.key : Op → Option Key
  | .add k _ | .addClass k _ _ | .setClass k _ | .remove k | .get k | .has k | .emplace k _
  | .replace k _ | .appendBytes k _ | .setBytes k _ | .set k _ | .mutate k _ => some k
  | _ => none

/-- offsets and limits below 2^63, as in the property's quantifier -/
def Op.InRange : Op → Prop
  | .walkPartial p _ | .walkPartialClass _ p _ => p.off < 2 ^ 63 ∧ p.n < 2 ^ 63
  | _ => True

end PubModel.C05
