/-
C16 — the passcode record as a state machine: ghost counters over a history
and the invariant that ties them to the stored record.
-/
import PubModel.C16.Model

namespace PubModel.C16

/-- what an observer of the API results can count: refused attempts that
    reached the check, and accepted attempts, since the last successful issue -/
structure Ghost where
  wrongs : Nat
  accepts : Nat
  deriving DecidableEq, Repr

def gstep (g : Ghost) : POp → POut → Ghost
  | .issue _ _ _, .ok => ⟨0, 0⟩
  | .setup _ _ _, .ok => { g with accepts := g.accepts + 1 }
  | .setup _ _ _, .unauthorized => { g with wrongs := g.wrongs + 1 }
  | _, _ => g

/-- a history with the ghost counters before each operation -/
def grun (cfg : Cfg) : Option Role → Ghost → List POp → List (Option Role × Ghost × POp × POut)
  | _, _, [] => []
  | st, g, op :: ops =>
    let r := pstep cfg st op
    (st, g, op, r.2) :: grun cfg r.1 (gstep g op r.2) ops

/-- the stored counter and flag are the observer's counts -/
def Inv (st : Option Role) (g : Ghost) : Prop :=
  g.accepts ≤ 1 ∧
  ∀ r pc, st = some r → r.passCode = some pc →
    pc.tried = g.wrongs + g.accepts ∧ (pc.consumed = true ↔ g.accepts = 1)

theorem inv_init (g : Ghost) (h : g.accepts ≤ 1) : Inv none g := ⟨h, by intro r pc h; cases h⟩

theorem mutate_ok_keep (st : Option Role) (f : Role → Role) :
    mutate st (fun r => (f r, .ok)) = match st with
      | none => (none, .notFound)
      | some r => (some (f r), .ok) := by
  cases st <;> rfl

/-- when `checkPassCode` accepts -/
theorem checkPassCode_none (m : Nat) (claim : Bytes) (pco : Option PassCode) (now : Int) :
    checkPassCode m claim pco now = none ↔
      ∃ pc, pco = some pc ∧ claim ≠ [] ∧ pc.tried ≤ m ∧ pc.consumed = false ∧
        pc.valid ≤ now ∧ now ≤ pc.expire ∧ pc.code = claim := by
  unfold checkPassCode
  cases pco with
  | none =>
    by_cases hc : claim.isEmpty <;> simp [hc]
  | some pc =>
    constructor
    · intro h
      by_cases hc : claim.isEmpty
      · simp [hc] at h
      by_cases h1 : pc.tried > m
      · simp [hc, h1] at h
      by_cases h2 : pc.consumed = true
      · simp [hc, h1, h2] at h
      by_cases h3 : now < pc.valid
      · simp [hc, h1, h2, h3] at h
      by_cases h4 : now > pc.expire
      · simp [hc, h1, h2, h3, h4] at h
      by_cases h5 : pc.code = claim
      · exact ⟨pc, rfl, fun e => hc (by simp [e]), by omega, by simpa using h2, by omega, by omega, h5⟩
      · simp [hc, h1, h2, h3, h4, h5] at h
    · rintro ⟨pc', hpc, hne, ht, hcons, hv, he, hcode⟩
      cases hpc
      have hc : claim.isEmpty = false := by
        cases claim with
        | nil => exact absurd rfl hne
        | cons a as => rfl
      have h1 : ¬ pc.tried > m := by omega
      have h3 : ¬ now < pc.valid := by omega
      have h4 : ¬ now > pc.expire := by omega
      simp [hc, h1, hcons, h3, h4, hcode]

theorem bumpTried_passCode (r : Role) :
    (bumpTried r).passCode = r.passCode.map (fun pc => { pc with tried := pc.tried + 1 }) := by
  unfold bumpTried
  cases h : r.passCode <;> simp [h]

/-- what an accepted `SetupWithCode` implies about the record it found -/
theorem setup_ok (cfg : Cfg) (st : Option Role) (claim : Bytes) (now : Int) (id : Nat)
    (h : (setupWithCode cfg st claim now id).2 = .ok) :
    ∃ r pc, st = some r ∧ r.disabled = false ∧ r.passCode = some pc ∧ pc.code = claim ∧
      claim ≠ [] ∧ pc.valid ≤ now ∧ now ≤ pc.expire ∧ pc.consumed = false ∧
      pc.tried + 1 ≤ cfg.maxTries ∧
      (setupWithCode cfg st claim now id).1 =
        some { r with identity := some id,
                      passCode := some { pc with tried := pc.tried + 1, consumed := true } } := by
  cases st with
  | none => simp [setupWithCode] at h
  | some r =>
    unfold setupWithCode at h ⊢
    cases hd : r.disabled with
    | true => simp [hd] at h
    | false =>
      simp only [hd, Bool.false_eq_true, if_false] at h ⊢
      cases hc : checkPassCode cfg.maxTries claim (bumpTried r).passCode now with
      | some e => simp [hc] at h
      | none =>
        obtain ⟨pc1, hpc1, hne, ht, hcons, hv, he, hcode⟩ := (checkPassCode_none _ _ _ _).mp hc
        rw [bumpTried_passCode] at hpc1
        cases hp0 : r.passCode with
        | none => simp [hp0] at hpc1
        | some pc =>
          simp [hp0] at hpc1
          subst hpc1
          refine ⟨r, pc, rfl, hd, hp0, hcode, hne, hv, he, hcons, ht, ?_⟩
          simp [acceptRole, bumpTried, hp0]

/-- a refused `SetupWithCode` stores the incremented counter (repaired code) and nothing else -/
theorem setup_unauth (cfg : Cfg) (hp : cfg.persistTries = true) (st : Option Role) (claim : Bytes)
    (now : Int) (id : Nat) (h : (setupWithCode cfg st claim now id).2 = .unauthorized) :
    ∃ r, st = some r ∧ (setupWithCode cfg st claim now id).1 = some (bumpTried r) := by
  cases st with
  | none => simp [setupWithCode] at h
  | some r =>
    refine ⟨r, rfl, ?_⟩
    unfold setupWithCode at h ⊢
    cases hd : r.disabled with
    | true => simp [hd] at h
    | false =>
      simp only [hd, Bool.false_eq_true, if_false] at h ⊢
      cases hc : checkPassCode cfg.maxTries claim (bumpTried r).passCode now with
      | none => simp [hc] at h
      | some e => simp [hp]

/-- any other result of `SetupWithCode` leaves the record as it was -/
theorem setup_other (cfg : Cfg) (st : Option Role) (claim : Bytes) (now : Int) (id : Nat)
    (h1 : (setupWithCode cfg st claim now id).2 ≠ .ok)
    (h2 : (setupWithCode cfg st claim now id).2 ≠ .unauthorized) :
    (setupWithCode cfg st claim now id).1 = st := by
  cases st with
  | none => simp [setupWithCode]
  | some r =>
    unfold setupWithCode at h1 h2 ⊢
    cases hd : r.disabled with
    | true => simp [hd]
    | false =>
      simp only [hd, Bool.false_eq_true, if_false] at h1 h2 ⊢
      cases hc : checkPassCode cfg.maxTries claim (bumpTried r).passCode now with
      | none => simp [hc] at h1
      | some e => simp [hc] at h2

/-- the invariant is preserved by every operation of the API (repaired code) -/
theorem inv_step (cfg : Cfg) (hp : cfg.persistTries = true) (st : Option Role) (g : Ghost)
    (op : POp) (hinv : Inv st g) :
    Inv (pstep cfg st op).1 (gstep g op (pstep cfg st op).2) := by
  obtain ⟨hacc, hrec⟩ := hinv
  cases op with
  | create =>
    cases st with
    | none =>
      refine ⟨hacc, ?_⟩
      intro r pc hr hpc
      simp [pstep] at hr
      subst hr
      simp at hpc
    | some r0 => exact ⟨hacc, by simpa [pstep, gstep] using hrec⟩
  | remove =>
    refine ⟨by cases st <;> simpa [pstep, gstep] using hacc, ?_⟩
    intro r pc hr
    cases st <;> simp [pstep] at hr
  | disable =>
    cases st with
    | none => exact ⟨hacc, by intro r pc hr; simp [pstep, mutate] at hr⟩
    | some r0 =>
      refine ⟨hacc, ?_⟩
      intro r pc hr hpc
      simp [pstep, mutate] at hr
      subst hr
      exact hrec r0 pc rfl hpc
  | enable =>
    cases st with
    | none => exact ⟨hacc, by intro r pc hr; simp [pstep, mutate] at hr⟩
    | some r0 =>
      refine ⟨hacc, ?_⟩
      intro r pc hr hpc
      simp [pstep, mutate] at hr
      subst hr
      exact hrec r0 pc rfl hpc
  | issue now code expiry =>
    cases st with
    | none => exact ⟨hacc, by intro r pc hr; simp [pstep, mutate] at hr⟩
    | some r0 =>
      cases hd : r0.disabled with
      | true =>
        have e : pstep cfg (some r0) (.issue now code expiry) = (some r0, .invalidArg) := by
          simp [pstep, mutate, hd]
        rw [e]
        exact ⟨hacc, hrec⟩
      | false =>
        have e : pstep cfg (some r0) (.issue now code expiry) =
            (some { r0 with passCode := some ⟨code, now - cfg.bufferNs, now + clamp0 expiry, false, 0⟩ }, .ok) := by
          simp [pstep, mutate, hd]
        rw [e]
        refine ⟨by simp [gstep], ?_⟩
        intro r pc hr hpc
        simp at hr
        subst hr
        simp at hpc
        subst hpc
        simp [gstep]
  | setup claim now id =>
    show Inv (setupWithCode cfg st claim now id).1 (gstep g (.setup claim now id) (setupWithCode cfg st claim now id).2)
    cases hout : (setupWithCode cfg st claim now id).2 with
    | ok =>
      obtain ⟨r0, pc0, hst, _, hpc0, _, _, _, _, hcons, _, hnew⟩ := setup_ok cfg st claim now id hout
      have h0 := hrec r0 pc0 hst hpc0
      have hz : g.accepts = 0 := by
        have : ¬ (g.accepts = 1) := fun e => by
          have := h0.2.mpr e
          simp [hcons] at this
        omega
      rw [hnew]
      refine ⟨by simp [gstep, hz], ?_⟩
      intro r pc hr hpc
      simp at hr
      subst hr
      simp at hpc
      subst hpc
      simp [gstep, hz, h0.1]
    | unauthorized =>
      obtain ⟨r0, hst, hnew⟩ := setup_unauth cfg hp st claim now id hout
      rw [hnew]
      refine ⟨by simpa [gstep] using hacc, ?_⟩
      intro r pc hr hpc
      simp at hr
      subst hr
      unfold bumpTried at hpc
      cases hp0 : r0.passCode with
      | none => simp [hp0] at hpc
      | some pc0 =>
        simp [hp0] at hpc
        subst hpc
        have h0 := hrec r0 pc0 hst hp0
        simp only [gstep]
        refine ⟨?_, h0.2⟩
        have := h0.1
        show pc0.tried + 1 = g.wrongs + 1 + g.accepts
        omega
    | notFound =>
      rw [setup_other cfg st claim now id (by simp [hout]) (by simp [hout])]
      exact ⟨hacc, hrec⟩
    | exists_ =>
      rw [setup_other cfg st claim now id (by simp [hout]) (by simp [hout])]
      exact ⟨hacc, hrec⟩
    | invalidArg =>
      rw [setup_other cfg st claim now id (by simp [hout]) (by simp [hout])]
      exact ⟨hacc, hrec⟩

/-- the invariant holds before every operation of a history -/
theorem inv_run (cfg : Cfg) (hp : cfg.persistTries = true) :
    ∀ (ops : List POp) (st : Option Role) (g : Ghost), Inv st g →
      ∀ e ∈ grun cfg st g ops, Inv e.1 e.2.1
  | [], _, _, _, e, he => by simp [grun] at he
  | op :: ops, st, g, hinv, e, he => by
    simp only [grun, List.mem_cons] at he
    rcases he with rfl | he
    · exact hinv
    · exact inv_run cfg hp ops _ _ (inv_step cfg hp st g op hinv) e he

/-- each entry of a history records the result of its own operation -/
theorem grun_out (cfg : Cfg) :
    ∀ (ops : List POp) (st : Option Role) (g : Ghost),
      ∀ e ∈ grun cfg st g ops, e.2.2.2 = (pstep cfg e.1 e.2.2.1).2
  | [], _, _, e, he => by simp [grun] at he
  | op :: ops, st, g, e, he => by
    simp only [grun, List.mem_cons] at he
    rcases he with rfl | he
    · rfl
    · exact grun_out cfg ops _ _ e he

end PubModel.C16
