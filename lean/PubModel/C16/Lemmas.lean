/-
C16 — helper lemmas for the signer, session and time-token theorems.
-/
import PubModel.C16.Model
import PubModel.C16.LemmasCodec

namespace PubModel.C16

/-- every MAC value has the length `Check` splits off -/
def MacLen (C : Crypto) (n : Nat) : Prop := ∀ k d, (C.mac k d).length = n

theorem check_sign (C : Crypto) (n : Nat) (hm : MacLen C n) (k d : Bytes) :
    check C n k (sign C k d) = some d := by
  unfold check sign
  have hl : (d ++ C.mac k d).length = d.length + n := by simp [hm k d]
  rw [hl]
  have : ¬ (d.length + n < n) := by omega
  simp only [this, if_false, Nat.add_sub_cancel]
  simp

theorem check_some (C : Crypto) (n : Nat) (k t d : Bytes) (h : check C n k t = some d) :
    t = sign C k d := by
  unfold check at h
  split at h
  · simp at h
  · simp only at h
    split at h
    · rename_i heq
      simp at h
      subst h
      unfold sign
      rw [← heq, List.take_append_drop]
    · simp at h

theorem checkHex_signHex (C : Crypto) (cfg : Cfg) (hm : MacLen C cfg.macSize) (k d : Bytes) :
    checkHex C cfg k (signHex C k d) = some d := by
  unfold checkHex signHex
  rw [hexDecode_encode]
  simp [check_sign C _ hm]

theorem checkHex_some (C : Crypto) (cfg : Cfg) (hc : cfg.hexCanonical = true) (k s d : Bytes)
    (h : checkHex C cfg k s = some d) : s = signHex C k d := by
  unfold checkHex at h
  cases hd : hexDecodeGo s with
  | none => simp [hd] at h
  | some bs =>
    simp only [hd, hc, Bool.true_and] at h
    split at h
    · simp at h
    · rename_i hne
      simp at hne
      have := check_some C _ k bs d h
      unfold signHex
      rw [← this, hne]

/-- without the re-encoding comparison `CheckHex` still returns only genuinely
    signed *bytes*; what is lost is the uniqueness of the text -/
theorem checkHex_some_bytes (C : Crypto) (cfg : Cfg) (k s d : Bytes)
    (h : checkHex C cfg k s = some d) : hexDecodeGo s = some (sign C k d) := by
  unfold checkHex at h
  cases hd : hexDecodeGo s with
  | none => simp [hd] at h
  | some bs =>
    simp only [hd] at h
    split at h
    · simp at h
    · rw [check_some C _ k bs d h]

theorem leTime_length (x : Int) : (leTime x).length = 8 := rfl

theorem readU64_leTime (e : Int) (he : InI64 e) (rest : Bytes) :
    toI64 (readU64 (leTime e ++ rest)) = e := by
  unfold leTime
  rw [fromLE_le64 _ (ofI64_lt e), toI64_ofI64 e he]

theorem leTime_readU64 (bs : Bytes) (h : 8 ≤ bs.length) :
    leTime (toI64 (readU64 bs)) ++ bs.drop 8 = bs := by
  unfold leTime
  rw [ofI64_toI64 _ (readU64_lt bs)]
  exact le64_readU64 bs h

theorem drop8_leTime (e : Int) (d : Bytes) : List.drop 8 (leTime e ++ d) = d := by
  have : (8 : Nat) = (leTime e).length := rfl
  rw [this, List.drop_left]

end PubModel.C16
