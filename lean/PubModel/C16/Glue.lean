/-
C16 — glue between the regenerated facts (`Gen.Creds`, rewritten from /repo's
source on every run) and the model's configuration.  Imported by the
obligations and by the driver.
-/
import PubModel.C16.Model
import PubModel.Gen.Creds

namespace PubModel.C16
open PubModel.Gen

/-- ASCII text of a regenerated string constant -/
def strBytes (s : String) : Bytes := s.toList.map (fun c => u8 c.toNat)

/-- the configuration the working tree has -/
def genCfg : Cfg where
  macSize := Creds.macSize
  tsLen := Creds.timestampLen
  hexCanonical := Creds.hexCanonical
  b64Canonical := Creds.b64Canonical
  persistTries := Creds.persistTries
  maxTries := Creds.triesRejectFrom - 1
  graceNs := -Creds.jwtIssuedShiftNs
  weekNs := Creds.gateDefaultLifetimeNs
  bufferNs := Creds.passCodeBufferNs
  algRS256 := strBytes Creds.AlgRS256
  rsaKeyType := strBytes Creds.rsaKeyType
  selfIss := strBytes Creds.Self
  algHS256 := strBytes Creds.AlgHS256
  defaultTyp := strBytes Creds.DefaultType

end PubModel.C16
