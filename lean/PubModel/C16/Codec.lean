/-
C16 — byte-level codecs used by the credential code, as the Go standard
library implements them (text is a byte string, as a Go `string` is):

* `hexEncode` = `hex.EncodeToString` (lower case), `hexDecodeGo` =
  `hex.DecodeString` (accepts both cases, odd length is an error);
* `b64Encode` = `base64.RawURLEncoding.EncodeToString`, `b64DecodeGo` =
  `base64.RawURLEncoding.DecodeString` in its default, non-strict mode:
  `\r` and `\n` are skipped wherever they occur and the unused low bits of a
  final partial quantum are ignored;
* little-endian 64-bit integers (`binary.LittleEndian.PutUint64/Uint64`) and
  the `int64(...)` reinterpretation.

Core Lean only.  (A private copy: `Common/Bytes` of DESIGN.md section 4 does
not exist yet; these definitions and lemmas can move there unchanged.)
-/
import PubModel.Common.Hex

namespace PubModel.C16

/-- a byte from a number (mod 256); kept opaque to `simp` so that arithmetic
    stays in `Nat` -/
def u8 (n : Nat) : UInt8 := UInt8.ofNat n

theorem toNat_u8 (n : Nat) : (u8 n).toNat = n % 256 := by
  simp [u8]

theorem u8_toNat (b : UInt8) : u8 b.toNat = b := by
  simp [u8]

/-! ### hex -/

def hexDigit (n : Nat) : UInt8 :=
  if n < 10 then u8 (48 + n) else u8 (87 + n)

/-- value of a hex digit as `encoding/hex` reads it: `0-9`, `a-f` and `A-F` -/
def nibbleGo (c : UInt8) : Option Nat :=
  if 48 ≤ c.toNat ∧ c.toNat ≤ 57 then some (c.toNat - 48)
  else if 97 ≤ c.toNat ∧ c.toNat ≤ 102 then some (c.toNat - 87)
  else if 65 ≤ c.toNat ∧ c.toNat ≤ 70 then some (c.toNat - 55)
  else none

def isUpperHex (c : UInt8) : Bool := 65 ≤ c.toNat && c.toNat ≤ 70

def hexEncode : Bytes → Bytes
  | [] => []
  | b :: bs => hexDigit (b.toNat / 16) :: hexDigit (b.toNat % 16) :: hexEncode bs

def hexDecodeGo : Bytes → Option Bytes
  | [] => some []
  | [_] => none
  | a :: b :: rest =>
    match nibbleGo a, nibbleGo b, hexDecodeGo rest with
    | some x, some y, some r => some (u8 (x * 16 + y) :: r)
    | _, _, _ => none

/-- text without upper-case hex letters -/
def HexStrict (s : Bytes) : Prop := ∀ c ∈ s, isUpperHex c = false

/-! ### base64url, raw (no padding) -/

def b64Char (n : Nat) : UInt8 :=
  if n < 26 then u8 (65 + n)
  else if n < 52 then u8 (71 + n)      -- 'a' = 97 = 71 + 26
  else if n < 62 then u8 (n - 4)       -- '0' = 48 = 52 - 4
  else if n = 62 then 45                        -- '-'
  else 95                                       -- '_'

def b64Val (c : UInt8) : Option Nat :=
  if 65 ≤ c.toNat ∧ c.toNat ≤ 90 then some (c.toNat - 65)
  else if 97 ≤ c.toNat ∧ c.toNat ≤ 122 then some (c.toNat - 71)
  else if 48 ≤ c.toNat ∧ c.toNat ≤ 57 then some (c.toNat + 4)
  else if c.toNat = 45 then some 62
  else if c.toNat = 95 then some 63
  else none

def b64Encode : Bytes → Bytes
  | a :: b :: c :: rest =>
    b64Char (a.toNat / 4) :: b64Char (a.toNat % 4 * 16 + b.toNat / 16) ::
      b64Char (b.toNat % 16 * 4 + c.toNat / 64) :: b64Char (c.toNat % 64) :: b64Encode rest
  | [a, b] =>
    [b64Char (a.toNat / 4), b64Char (a.toNat % 4 * 16 + b.toNat / 16), b64Char (b.toNat % 16 * 4)]
  | [a] => [b64Char (a.toNat / 4), b64Char (a.toNat % 4 * 16)]
  | [] => []

/-- `decodeQuantum` over text from which `\r`, `\n` have been removed; the
    low bits of the last value of a partial quantum are dropped unchecked -/
def b64DecodeCore : Bytes → Option Bytes
  | c0 :: c1 :: c2 :: c3 :: rest =>
    match b64Val c0, b64Val c1, b64Val c2, b64Val c3, b64DecodeCore rest with
    | some v0, some v1, some v2, some v3, some r =>
      some (u8 (v0 * 4 + v1 / 16) :: u8 (v1 % 16 * 16 + v2 / 4) ::
        u8 (v2 % 4 * 64 + v3) :: r)
    | _, _, _, _, _ => none
  | [c0, c1, c2] =>
    match b64Val c0, b64Val c1, b64Val c2 with
    | some v0, some v1, some v2 =>
      some [u8 (v0 * 4 + v1 / 16), u8 (v1 % 16 * 16 + v2 / 4)]
    | _, _, _ => none
  | [c0, c1] =>
    match b64Val c0, b64Val c1 with
    | some v0, some v1 => some [u8 (v0 * 4 + v1 / 16)]
    | _, _ => none
  | [_] => none
  | [] => some []

def isNewline (c : UInt8) : Bool := c.toNat = 10 || c.toNat = 13

def b64DecodeGo (s : Bytes) : Option Bytes := b64DecodeCore (s.filter (fun c => !isNewline c))

/-- the unused low bits of a final partial quantum are zero -/
def b64TailZero : Bytes → Bool
  | _ :: _ :: _ :: _ :: rest => b64TailZero rest
  | [_, _, c2] => match b64Val c2 with | some v => v % 4 = 0 | none => true
  | [_, c1] => match b64Val c1 with | some v => v % 16 = 0 | none => true
  | _ => true

/-- canonical text: no skipped characters and zero trailing bits -/
def B64Strict (s : Bytes) : Prop := (∀ c ∈ s, isNewline c = false) ∧ b64TailZero s = true

/-! ### integers -/

/-- `binary.LittleEndian.PutUint64` of `n mod 2^64` -/
def le64 (n : Nat) : Bytes :=
  [u8 n, u8 (n / 2^8), u8 (n / 2^16), u8 (n / 2^24),
   u8 (n / 2^32), u8 (n / 2^40), u8 (n / 2^48), u8 (n / 2^56)]

/-- `binary.LittleEndian.Uint64` on the first eight bytes (missing bytes read as 0;
    callers check the length first, as the Go code does) -/
def fromLE : Bytes → Nat
  | [] => 0
  | b :: bs => b.toNat + 256 * fromLE bs

def readU64 (bs : Bytes) : Nat := fromLE (bs.take 8)

/-- `int64(x)` for a 64-bit pattern -/
def toI64 (v : Nat) : Int := if v < 2^63 then (v : Int) else (v : Int) - 2^64

/-- `uint64(x)` for an `int64` -/
def ofI64 (x : Int) : Nat := (x % 2^64).toNat

/-- the 8 bytes written for a nanosecond count -/
def leTime (x : Int) : Bytes := le64 (ofI64 x)

def InI64 (x : Int) : Prop := -(2^63 : Int) ≤ x ∧ x < 2^63

end PubModel.C16
