/-
C16 — model of the credential code: `signer` (Signer, Sessions, TimeSigner,
RSATimeSigner, challenge), `jwt` (Decode, Verify, HS256, CheckTime,
CheckClaimSet), `identity` (RS256 verifier, key validity, VerifySelfToken),
`signin/authgate` (Gate) and the registration passcode of `roles`.

Cryptography is a *parameter* (`Crypto`): the MAC, the hash and the signature
verification are arbitrary functions; nothing about them is assumed by an
axiom.  JSON field decoding is a parameter as well (`Json`).  The model
mirrors the Go code branch by branch; the three places where the pinned tree
differs from the repaired tree are switches of `Cfg`, whose values are
regenerated from the source on every run (`Gen/Creds.lean`).

Times are integers in nanoseconds since the Unix epoch (`time.Time` compared
with `Before/After`, i.e. on the wall clock); JWT `iat`/`exp` and key
validity bounds are in seconds, as stored.
-/
import PubModel.C16.Codec

namespace PubModel.C16

/-- the cryptographic primitives, as parameters -/
structure Crypto where
  /-- `hmac.New(sha256.New, key)` over the data -/
  mac : Bytes → Bytes → Bytes
  /-- `sha256.Sum256` -/
  sha : Bytes → Bytes
  /-- `rsa.VerifyPKCS1v15(pub, SHA256, digest, sig) == nil` for the key material `pub` -/
  verifySig : Bytes → Bytes → Bytes → Bool
  /-- `rsautil.ParsePublicKey` succeeds -/
  keyParses : Bytes → Bool

/-- what is read from the source on every run -/
structure Cfg where
  /-- `sha256.Size`, the length `Signer.Check` splits off -/
  macSize : Nat
  /-- `timestampLen` -/
  tsLen : Nat
  /-- `CheckHex` compares the re-encoded bytes with the presented text -/
  hexCanonical : Bool
  /-- `decodeSegmentBytes` compares the re-encoded bytes with the presented text -/
  b64Canonical : Bool
  /-- `SetupWithCode` stores the incremented attempt counter when the check fails -/
  persistTries : Bool
  /-- `passCodeMaxTries` -/
  maxTries : Nat
  /-- the grace subtracted from `iat` in `CheckTime`, nanoseconds -/
  graceNs : Int
  /-- `timeutil.Week`, the default session lifetime of the gate -/
  weekNs : Int
  /-- the minute `NewPassCode` back-dates `Valid` by -/
  bufferNs : Int
  /-- `jwt.AlgRS256` and `identity.rsaKeyType` -/
  algRS256 : Bytes
  rsaKeyType : Bytes
  /-- `identity.Self` -/
  selfIss : Bytes
  /-- `jwt.AlgHS256`, `jwt.DefaultType`: what `NewHS256` pins -/
  algHS256 : Bytes
  defaultTyp : Bytes

/-! ### Signer -/

/-- `Signer.Sign`: data followed by its MAC -/
def sign (C : Crypto) (k d : Bytes) : Bytes := d ++ C.mac k d

/-- `Signer.Check` -/
def check (C : Crypto) (n : Nat) (k t : Bytes) : Option Bytes :=
  if t.length < n then none
  else
    let d := t.take (t.length - n)
    if t.drop (t.length - n) = C.mac k d then some d else none

/-- `Signer.SignHex` -/
def signHex (C : Crypto) (k d : Bytes) : Bytes := hexEncode (sign C k d)

/-- `Signer.CheckHex` -/
def checkHex (C : Crypto) (cfg : Cfg) (k s : Bytes) : Option Bytes :=
  match hexDecodeGo s with
  | none => none
  | some bs =>
    if cfg.hexCanonical && hexEncode bs != s then none
    else check C cfg.macSize k bs

/-! ### Sessions and the gate -/

structure Sessions where
  key : Bytes
  ttl : Int

/-- the lifetime actually granted -/
def capTTL (max ttl : Int) : Int := if ttl ≤ 0 ∨ ttl > max then max else ttl

/-- `Sessions.New`: token text and expiry instant -/
def Sessions.new (C : Crypto) (s : Sessions) (now : Int) (data : Bytes) (ttl : Int) : Bytes × Int :=
  let exp := now + capTTL s.ttl ttl
  (signHex C s.key (leTime exp ++ data), exp)

/-- `Sessions.Check`: payload and time left -/
def Sessions.check (C : Crypto) (cfg : Cfg) (s : Sessions) (now : Int) (tok : Bytes) :
    Option (Bytes × Int) :=
  match checkHex C cfg s.key tok with
  | none => none
  | some bs =>
    if bs.length < cfg.tsLen then none
    else
      let exp := toI64 (readU64 bs)
      if now < exp then some (bs.drop cfg.tsLen, exp - now) else none

def refreshTTL (ttl : Int) : Int := if ttl ≤ 0 then 0 else ttl / 5

/-- `authgate.New`: lifetime of the sessions object the gate builds -/
def gateLifetime (cfg : Cfg) (life : Int) : Int := if life ≤ 0 then cfg.weekNs else life

structure CredsInfo where
  valid : Bool
  user : Bytes
  needRefresh : Bool
  deriving DecidableEq, Repr

/-- `Gate.CheckToken` with the default `check` function -/
def gateCheck (C : Crypto) (cfg : Cfg) (s : Sessions) (now : Int) (tok : Bytes) : CredsInfo :=
  match s.check C cfg now tok with
  | none => ⟨false, [], false⟩
  | some (user, left) => ⟨true, user, left < refreshTTL s.ttl⟩

/-! ### time tokens -/

def absI (w : Int) : Int := if w < 0 then -w else w

/-- `inWindow`: strictly inside `(now - w, now + w)` -/
def inWindow (t now w : Int) : Bool := decide (now - w < t) && decide (t < now + w)

/-- `TimeSigner.Token` -/
def timeToken (C : Crypto) (k : Bytes) (now : Int) : Bytes := signHex C k (leTime now)

/-- `TimeSigner.Check` (the window is stored as its absolute value) -/
def timeCheck (C : Crypto) (cfg : Cfg) (k : Bytes) (w now : Int) (tok : Bytes) : Bool :=
  match checkHex C cfg k tok with
  | none => false
  | some bs =>
    if bs.length ≠ cfg.tsLen then false
    else inWindow (toI64 (readU64 bs)) now (absI w)

structure RSABlock where
  data : Bytes
  hash : Bytes
  sig : Bytes

/-- `RSATimeSigner.Check` -/
def rsaTimeCheck (C : Crypto) (pub : Bytes) (w now : Int) (b : RSABlock) : Bool :=
  if b.data.length < 8 then false
  else if !inWindow (toI64 (readU64 b.data)) now (absI w) then false
  else if C.sha b.data ≠ b.hash then false
  else C.verifySig pub b.hash b.sig

inductive ChalOut
  | ok | invalid | future | expired
  deriving DecidableEq, Repr

/-- the zero `time.Time` (January 1, year 1), which `timeutil.Time(nil)` returns -/
def zeroTimeNs : Int := -62135596800 * 1000000000

/-- `Signer.CheckChallenge`; `chalT` is the `T` field json.Unmarshal leaves in
    the challenge (`none` = nil).  A JSON error is not looked at by the Go code
    once the MAC is right. -/
def checkChallenge (C : Crypto) (cfg : Cfg) (chalT : Bytes → Option Int) (k bs : Bytes)
    (now w : Int) : ChalOut :=
  match check C cfg.macSize k bs with
  | none => .invalid
  | some d =>
    let t := (chalT d).getD zeroTimeNs
    if now < t then .future
    else if now > t + w then .expired
    else .ok

/-! ### JWT -/

def dot : UInt8 := 46

/-- `strings.Split`/`strings.FieldsFunc` core: cut at every byte satisfying `p` -/
def splitBy (p : UInt8 → Bool) : Bytes → List Bytes
  | [] => [[]]
  | b :: bs =>
    if p b then [] :: splitBy p bs
    else
      match splitBy p bs with
      | [] => [[b]]
      | x :: xs => (b :: x) :: xs

/-- `strings.Split(token, ".")` -/
def splitDot (s : Bytes) : List Bytes := splitBy (fun c => c == dot) s

structure Header where
  alg : Bytes
  typ : Bytes
  kid : Bytes
  deriving DecidableEq, Repr

structure Claims where
  iss : Bytes
  scope : Bytes
  aud : Bytes
  typ : Bytes
  sub : Bytes
  exp : Int
  iat : Int
  deriving DecidableEq, Repr

/-- JSON field decoding, as a parameter -/
structure Json where
  header : Bytes → Option Header
  claims : Bytes → Option Claims

structure Token where
  header : Header
  claims : Claims
  payload : Bytes
  sig : Bytes
  deriving DecidableEq, Repr

/-- `decodeSegmentBytes` -/
def decodeSeg (cfg : Cfg) (s : Bytes) : Option Bytes :=
  match b64DecodeGo s with
  | none => none
  | some b => if cfg.b64Canonical && b64Encode b != s then none else some b

/-- `jwt.Decode` -/
def jwtDecode (cfg : Cfg) (J : Json) (tok : Bytes) : Option Token :=
  match splitDot tok with
  | [h, c, s] =>
    match (decodeSeg cfg h).bind J.header with
    | none => none
    | some hdr =>
      match decodeSeg cfg s with
      | none => none
      | some sg =>
        match (decodeSeg cfg c).bind J.claims with
        | none => none
        | some cl => some ⟨hdr, cl, tok.take (h.length + 1 + c.length), sg⟩
  | _ => none

/-- `checkHeader` -/
def checkHeader (got want : Header) : Bool :=
  got.kid == want.kid && got.alg == want.alg && got.typ == want.typ

/-- `HS256.Verify` -/
def hs256Verify (C : Crypto) (k : Bytes) (pin : Header) (t : Token) : Bool :=
  checkHeader t.header pin && C.mac k t.payload == t.sig

inductive TimeOut
  | ok | future | expired
  deriving DecidableEq, Repr

def sec : Int := 1000000000

/-- `CheckTime`: `iat - grace < now ≤ exp` -/
def checkTime (cfg : Cfg) (cl : Claims) (now : Int) : TimeOut :=
  if ¬ (cl.iat * sec - cfg.graceNs < now) then .future
  else if now > cl.exp * sec then .expired
  else .ok

structure PubKey where
  id : Bytes
  typ : Bytes
  key : Bytes
  notAfter : Int
  notBefore : Int
  deriving DecidableEq, Repr

/-- `FindPublicKey`: first key with that id -/
def findKey (keys : List PubKey) (kid : Bytes) : Option PubKey := keys.find? (fun k => k.id == kid)

/-- `publicKeyValid` -/
def keyValid (k : PubKey) (now : Int) : Bool :=
  !(decide (k.notBefore > 0) && decide (now < k.notBefore * sec)) && !decide (now > k.notAfter * sec)

/-- `jwtVerifier.Verify` -/
def rs256Verify (C : Crypto) (cfg : Cfg) (keys : List PubKey) (t : Token) (now : Int) : Bool :=
  if t.header.alg ≠ cfg.algRS256 then false
  else
    match findKey keys t.header.kid with
    | none => false
    | some k =>
      if k.typ ≠ cfg.rsaKeyType then false
      else if !keyValid k now then false
      else if !C.keyParses k.key then false
      else C.verifySig k.key (C.sha t.payload) t.sig

inductive JwtOut
  | decodeErr | verifyErr | timeErr | claimErr
  | ok (t : Token)
  deriving DecidableEq, Repr

/-- `DecodeAndVerify` with a verifier given as a predicate on the decoded token -/
def decodeAndVerify (cfg : Cfg) (J : Json) (verify : Token → Int → Bool) (tok : Bytes) (now : Int) :
    JwtOut :=
  match jwtDecode cfg J tok with
  | none => .decodeErr
  | some t =>
    if !verify t now then .verifyErr
    else if checkTime cfg t.claims now ≠ .ok then .timeErr
    else .ok t

def jwtHS256 (C : Crypto) (cfg : Cfg) (J : Json) (k : Bytes) (pin : Header) (tok : Bytes) (now : Int) :
    JwtOut :=
  decodeAndVerify cfg J (fun t _ => hs256Verify C k pin t) tok now

/-- the header `NewHS256(key, kid)` pins -/
def hs256Pin (cfg : Cfg) (kid : Bytes) : Header := ⟨cfg.algHS256, cfg.defaultTyp, kid⟩

def jwtRS256 (C : Crypto) (cfg : Cfg) (J : Json) (keys : List PubKey) (tok : Bytes) (now : Int) :
    JwtOut :=
  decodeAndVerify cfg J (fun t n => rs256Verify C cfg keys t n) tok now

/-- ASCII white space as `strings.Fields` sees it -/
def isSpace (c : UInt8) : Bool := c.toNat == 32 || (decide (9 ≤ c.toNat) && decide (c.toNat ≤ 13))

/-- `strings.Fields` (on ASCII text) -/
def fields (s : Bytes) : List Bytes := (splitBy isSpace s).filter (fun f => !f.isEmpty)

/-- `CheckClaimSet` (`none` = nil pointer) -/
def checkClaimSet (claims tmpl : Option Claims) : Bool :=
  match claims with
  | none => false
  | some c =>
    match tmpl with
    | none => true
    | some t =>
      (t.iss.isEmpty || c.iss == t.iss) && (t.aud.isEmpty || c.aud == t.aud) &&
      (t.typ.isEmpty || c.typ == t.typ) && (t.sub.isEmpty || c.sub == t.sub) &&
      (t.scope.isEmpty || (fields t.scope).all (fun s => (fields c.scope).contains s))

/-- `identity.VerifySelfToken` -/
def verifySelfToken (C : Crypto) (cfg : Cfg) (J : Json) (keys : List PubKey) (tok user host : Bytes)
    (now : Int) : JwtOut :=
  match jwtRS256 C cfg J keys tok now with
  | .ok t =>
    if checkClaimSet (some t.claims) (some ⟨cfg.selfIss, [], host, [], user, 0, 0⟩) then .ok t
    else .claimErr
  | e => e

/-! ### registration passcode (roles) -/

structure PassCode where
  code : Bytes
  valid : Int
  expire : Int
  consumed : Bool
  tried : Nat
  deriving DecidableEq, Repr

structure Role where
  disabled : Bool
  identity : Option Nat
  passCode : Option PassCode
  deriving DecidableEq, Repr

inductive PcReason
  | empty | noCode | tooMany | consumed | notYet | expired | incorrect
  deriving DecidableEq, Repr

/-- `checkPassCode`; `none` = accepted.  (`Valid`/`Expire` are never nil in a
    stored passcode: `NewPassCode` always sets both.) -/
def checkPassCode (maxTries : Nat) (claim : Bytes) (pc : Option PassCode) (now : Int) : Option PcReason :=
  if claim.isEmpty then some .empty
  else
    match pc with
    | none => some .noCode
    | some c =>
      if c.tried > maxTries then some .tooMany
      else if c.consumed then some .consumed
      else if now < c.valid then some .notYet
      else if now > c.expire then some .expired
      else if c.code ≠ claim then some .incorrect
      else none

inductive POut
  | ok | notFound | exists_ | invalidArg | unauthorized
  deriving DecidableEq, Repr

/-- `pisces.KV.Mutate`: the new value is stored only when the callback returns no error -/
def mutate (st : Option Role) (f : Role → Role × POut) : Option Role × POut :=
  match st with
  | none => (none, .notFound)
  | some r =>
    match f r with
    | (r', .ok) => (some r', .ok)
    | (_, e) => (some r, e)

inductive POp
  | create | remove | disable | enable
  /-- `SetPassCodeExpiry(expiry); NewPassCode(name, now)` where the random digits came out as `code` -/
  | issue (now : Int) (code : Bytes) (expiry : Int)
  /-- `SetupWithCode(name, identity #id, claim, now)` -/
  | setup (claim : Bytes) (now : Int) (id : Nat)
  deriving DecidableEq, Repr

def bumpTried (r : Role) : Role :=
  match r.passCode with
  | none => r
  | some pc => { r with passCode := some { pc with tried := pc.tried + 1 } }

/-- what a successful `SetupWithCode` stores: the identity, and the passcode marked consumed -/
def acceptRole (r1 : Role) (id : Nat) : Role :=
  { r1 with identity := some id,
            passCode := r1.passCode.map (fun pc => { pc with consumed := true }) }

/-- `SetupWithCode` on the stored role.  The callback increments the counter,
    then checks.  In the pinned tree a failed check makes the callback return
    the error, so `Mutate` stores nothing (`persistTries = false`); in the
    repaired tree the callback records the error, returns nil, and the
    incremented counter is stored. -/
def setupWithCode (cfg : Cfg) (st : Option Role) (claim : Bytes) (now : Int) (id : Nat) :
    Option Role × POut :=
  match st with
  | none => (none, .notFound)
  | some r =>
    if r.disabled then (some r, .invalidArg)
    else
      match checkPassCode cfg.maxTries claim (bumpTried r).passCode now with
      | some _ => (some (if cfg.persistTries then bumpTried r else r), .unauthorized)
      | none => (some (acceptRole (bumpTried r) id), .ok)

def clamp0 (d : Int) : Int := if d < 0 then 0 else d

/-- one operation of the `Roles` API on the record of one role -/
def pstep (cfg : Cfg) (st : Option Role) : POp → Option Role × POut
  | .create =>
    match st with
    | none => (some ⟨false, none, none⟩, .ok)
    | some r => (some r, .exists_)
  | .remove =>
    match st with
    | none => (none, .notFound)
    | some _ => (none, .ok)
  | .disable => mutate st (fun r => ({ r with disabled := true }, .ok))
  | .enable => mutate st (fun r => ({ r with disabled := false }, .ok))
  | .issue now code expiry =>
    mutate st (fun r =>
      if r.disabled then (r, .invalidArg)
      else ({ r with passCode := some ⟨code, now - cfg.bufferNs, now + clamp0 expiry, false, 0⟩ }, .ok))
  | .setup claim now id => setupWithCode cfg st claim now id

/-- a history: states before each operation and the results -/
def prun (cfg : Cfg) : Option Role → List POp → List (Option Role × POp × POut)
  | _, [] => []
  | st, op :: ops => (st, op, (pstep cfg st op).2) :: prun cfg (pstep cfg st op).1 ops

def pfinal (cfg : Cfg) : Option Role → List POp → Option Role
  | st, [] => st
  | st, op :: ops => pfinal cfg (pstep cfg st op).1 ops

end PubModel.C16
