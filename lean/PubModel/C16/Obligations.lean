/-
C16 — obligations that connect the *regenerated* facts (`Gen.Creds`, rewritten
from /repo's source on every run) to the hypotheses of the generic theorems.
All closed by `decide`.
-/
import PubModel.C16.Glue

namespace PubModel.C16
open PubModel.Gen

/-- the timestamp inside sessions and time tokens is one little-endian uint64 -/
theorem gen_tsLen : genCfg.tsLen = 8 := by decide

/-- `Check` splits off exactly one HMAC-SHA256 value -/
theorem gen_macSize : genCfg.macSize = 32 := by decide

/-- `Check` refuses only texts strictly shorter than a MAC (the empty payload is signable) -/
theorem gen_checkLen : Creds.checkLenOp = "<" := by decide

/-- `CheckHex` compares the re-encoded bytes with the presented text -/
theorem gen_hexCanonical : genCfg.hexCanonical = true := by decide

/-- JWT segments are compared with their re-encoding -/
theorem gen_b64Canonical : genCfg.b64Canonical = true := by decide

/-- a refused passcode attempt is counted in the stored record -/
theorem gen_persistTries : genCfg.persistTries = true := by decide

/-- at most ten refused attempts can precede an acceptance -/
theorem gen_maxTries : genCfg.maxTries ≤ 11 := by decide

/-- the grace is subtracted from `iat`, not added -/
theorem gen_grace : 0 ≤ genCfg.graceNs := by decide

/-- the passcode window is back-dated, not post-dated -/
theorem gen_buffer : 0 ≤ genCfg.bufferNs := by decide

/-- `checkHeader` pins algorithm, type and key id -/
theorem gen_headerPinned :
    (["Alg", "KeyID", "Typ"].all fun f => Creds.headerPinned.contains f) = true := by decide

/-- The model treats verification as a function of (key, token): `check`,
    `checkHex`, `Sessions.check`, `timeCheck`, `hs256Verify` take no state.
    That is the code's behaviour under concurrent use only if the shared
    `Signer`/`HS256` objects keep no hash state that calls mutate; the MAC must
    be built per call.  (What concurrent verification actually does is covered
    by execution — the harness's `conc` stream — not by a theorem.) -/
theorem gen_verifierStateless : Creds.verifierHoldsHashState = false := by decide

/-- The passcode machine (`pstep`, `prun`, `passcode_accept`) treats every
    operation on a role record as one atomic step.  That is the code's
    behaviour under overlapping requests only if each mutation is ONE
    `KV.Mutate` (atomic in every backend: C05/C06), not a load followed by a
    store.  (What overlapping calls actually do is covered by execution — the
    harness pauses calls inside the store's Get/Set/Mutate — not by a theorem.) -/
theorem gen_rolesMutateAtomic : Creds.rolesMutateAtomic = true := by decide

end PubModel.C16
