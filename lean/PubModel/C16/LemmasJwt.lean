/-
C16 — helper lemmas for the JWT theorems: splitting at dots, segment
decoding, the shape of `Decode`.
-/
import PubModel.C16.Lemmas

namespace PubModel.C16

/-! ### splitting -/

theorem splitBy_ne_nil (p : UInt8 → Bool) : ∀ s, splitBy p s ≠ []
  | [] => by simp [splitBy]
  | b :: bs => by
    unfold splitBy
    split
    · simp
    · split <;> simp

theorem splitBy_cons_false (p : UInt8 → Bool) (b : UInt8) (bs x : Bytes) (xs : List Bytes)
    (h : p b = false) (hs : splitBy p bs = x :: xs) :
    splitBy p (b :: bs) = (b :: x) :: xs := by
  rw [splitBy]; simp [h, hs]

theorem splitBy_cons_true (p : UInt8 → Bool) (b : UInt8) (bs : Bytes) (h : p b = true) :
    splitBy p (b :: bs) = [] :: splitBy p bs := by
  rw [splitBy]; simp [h]

/-- joining with a separator byte -/
def joinWith (x : UInt8) : List Bytes → Bytes
  | [] => []
  | [a] => a
  | a :: b :: rest => a ++ x :: joinWith x (b :: rest)

theorem splitBy_parts_clean (p : UInt8 → Bool) : ∀ s part, part ∈ splitBy p s → ∀ c ∈ part, p c = false
  | [], part, h, c, hc => by
    simp [splitBy] at h; subst h; simp at hc
  | b :: bs, part, h, c, hc => by
    unfold splitBy at h
    split at h
    · simp only [List.mem_cons] at h
      rcases h with rfl | h
      · simp at hc
      · exact splitBy_parts_clean p bs part h c hc
    · rename_i hb
      cases hs : splitBy p bs with
      | nil => exact absurd hs (splitBy_ne_nil p bs)
      | cons x xs =>
        simp only [hs, List.mem_cons] at h
        rcases h with rfl | h
        · simp only [List.mem_cons] at hc
          rcases hc with rfl | hc
          · simpa using hb
          · exact splitBy_parts_clean p bs x (by simp [hs]) c hc
        · exact splitBy_parts_clean p bs part (by simp [hs, h]) c hc

/-- `strings.Split` is inverted by `strings.Join` -/
theorem joinWith_splitDot : ∀ s, joinWith dot (splitDot s) = s
  | [] => by simp [splitDot, splitBy, joinWith]
  | b :: bs => by
    have ih := joinWith_splitDot bs
    unfold splitDot at ih ⊢
    unfold splitBy
    split
    · rename_i hb
      have hb' : b = dot := by simpa using hb
      cases hs : splitBy (fun c => c == dot) bs with
      | nil => exact absurd hs (splitBy_ne_nil _ bs)
      | cons x xs =>
        rw [hs] at ih
        simp only [joinWith, List.nil_append, ih, hb']
    · cases hs : splitBy (fun c => c == dot) bs with
      | nil => exact absurd hs (splitBy_ne_nil _ bs)
      | cons x xs =>
        rw [hs] at ih
        simp only
        cases xs with
        | nil => simp only [joinWith] at ih ⊢; rw [ih]
        | cons y ys => simp only [joinWith, List.cons_append] at ih ⊢; rw [ih]

theorem splitDot_clean (s : Bytes) (hs : dot ∉ s) : splitDot s = [s] := by
  induction s with
  | nil => simp [splitDot, splitBy]
  | cons b bs ih =>
    have hb : b ≠ dot := fun h => hs (by simp [h])
    have hbs : dot ∉ bs := fun h => hs (by simp [h])
    have := ih hbs
    unfold splitDot at this ⊢
    rw [splitBy_cons_false _ _ _ _ _ (by simp [hb]) this]

theorem splitDot_append (a rest : Bytes) (ha : dot ∉ a) :
    splitDot (a ++ dot :: rest) = a :: splitDot rest := by
  induction a with
  | nil =>
    unfold splitDot
    simp only [List.nil_append]
    rw [splitBy_cons_true _ _ _ (by simp)]
  | cons b bs ih =>
    have hb : b ≠ dot := fun h => ha (by simp [h])
    have hbs : dot ∉ bs := fun h => ha (by simp [h])
    have := ih hbs
    unfold splitDot at this ⊢
    simp only [List.cons_append]
    rw [splitBy_cons_false _ _ _ _ _ (by simp [hb]) this]

/-- a text splits into exactly three segments iff it is `h.c.s` with dot-free segments -/
theorem splitDot_three (tok h c s : Bytes) :
    splitDot tok = [h, c, s] ↔
      tok = h ++ dot :: (c ++ dot :: s) ∧ dot ∉ h ∧ dot ∉ c ∧ dot ∉ s := by
  constructor
  · intro hs
    have hj := joinWith_splitDot tok
    rw [hs] at hj
    have clean : ∀ part, part ∈ [h, c, s] → dot ∉ part := by
      intro part hp hd
      have := splitBy_parts_clean (fun c => c == dot) tok part (by unfold splitDot at hs; rw [hs]; exact hp) dot hd
      simp at this
    refine ⟨?_, clean h (by simp), clean c (by simp), clean s (by simp)⟩
    simpa [joinWith] using hj.symm
  · rintro ⟨rfl, hh, hc, hs⟩
    rw [splitDot_append _ _ hh, splitDot_append _ _ hc, splitDot_clean _ hs]

/-! ### segments -/

theorem b64Char_ne_dot (n : Nat) (h : n < 64) : b64Char n ≠ dot := by
  intro e
  have := congrArg UInt8.toNat e
  unfold b64Char at this
  have hd : dot.toNat = 46 := rfl
  rw [hd] at this
  repeat' split at this
  all_goals first
    | (rw [toNat_u8] at this; omega)
    | (revert this; decide)

theorem b64Encode_no_dot : ∀ (b : Bytes), dot ∉ b64Encode b
  | a :: b :: c :: rest => by
    have ha := a.toNat_lt; have hb := b.toNat_lt; have hc := c.toNat_lt
    simp only [b64Encode, List.mem_cons, not_or]
    exact ⟨(b64Char_ne_dot _ (by omega)).symm, (b64Char_ne_dot _ (by omega)).symm,
      (b64Char_ne_dot _ (by omega)).symm, (b64Char_ne_dot _ (by omega)).symm, b64Encode_no_dot rest⟩
  | [a, b] => by
    have ha := a.toNat_lt; have hb := b.toNat_lt
    simp only [b64Encode, List.mem_cons, List.not_mem_nil, or_false, not_or]
    exact ⟨(b64Char_ne_dot _ (by omega)).symm, (b64Char_ne_dot _ (by omega)).symm,
      (b64Char_ne_dot _ (by omega)).symm⟩
  | [a] => by
    have ha := a.toNat_lt
    simp only [b64Encode, List.mem_cons, List.not_mem_nil, or_false, not_or]
    exact ⟨(b64Char_ne_dot _ (by omega)).symm, (b64Char_ne_dot _ (by omega)).symm⟩
  | [] => by simp [b64Encode]

theorem decodeSeg_encode (cfg : Cfg) (b : Bytes) : decodeSeg cfg (b64Encode b) = some b := by
  unfold decodeSeg
  rw [b64Decode_encode]
  simp

theorem decodeSeg_canonical (cfg : Cfg) (hb : cfg.b64Canonical = true) (s b : Bytes)
    (h : decodeSeg cfg s = some b) : s = b64Encode b := by
  unfold decodeSeg at h
  cases hd : b64DecodeGo s with
  | none => simp [hd] at h
  | some x =>
    simp only [hd, hb, Bool.true_and] at h
    split at h
    · simp at h
    · rename_i hne
      simp at hne h
      rw [← h, hne]

theorem take_payload (h c rest : Bytes) :
    (h ++ dot :: (c ++ dot :: rest)).take (h.length + 1 + c.length) = h ++ dot :: c := by
  have e : h ++ dot :: (c ++ dot :: rest) = (h ++ dot :: c) ++ (dot :: rest) := by simp
  have l : h.length + 1 + c.length = (h ++ dot :: c).length := by simp; omega
  rw [e, l, List.take_left]

/-- the shape of a successful `Decode` -/
theorem jwtDecode_some (cfg : Cfg) (J : Json) (tok : Bytes) (t : Token) :
    jwtDecode cfg J tok = some t ↔
      ∃ h c s, tok = h ++ dot :: (c ++ dot :: s) ∧ dot ∉ h ∧ dot ∉ c ∧ dot ∉ s ∧
        (decodeSeg cfg h).bind J.header = some t.header ∧
        (decodeSeg cfg c).bind J.claims = some t.claims ∧
        decodeSeg cfg s = some t.sig ∧ t.payload = h ++ dot :: c := by
  constructor
  · intro hd
    unfold jwtDecode at hd
    split at hd
    · rename_i h c s hsplit
      have hs := (splitDot_three tok h c s).mp hsplit
      cases hh : (decodeSeg cfg h).bind J.header with
      | none => simp [hh] at hd
      | some hdr =>
        cases hg : decodeSeg cfg s with
        | none => simp [hh, hg] at hd
        | some sg =>
          cases hc : (decodeSeg cfg c).bind J.claims with
          | none => simp [hh, hg, hc] at hd
          | some cl =>
            simp only [hh, hg, hc, Option.some.injEq] at hd
            subst hd
            refine ⟨h, c, s, hs.1, hs.2.1, hs.2.2.1, hs.2.2.2, hh, hc, hg, ?_⟩
            simp only
            rw [hs.1, take_payload]
    · simp at hd
  · rintro ⟨h, c, s, rfl, hh, hc, hs, e1, e2, e3, e4⟩
    unfold jwtDecode
    rw [(splitDot_three _ h c s).mpr ⟨rfl, hh, hc, hs⟩]
    simp only [e1, e2, e3, take_payload]
    obtain ⟨a, b, p, q⟩ := t
    simp only at e4
    simp [e4]

end PubModel.C16
