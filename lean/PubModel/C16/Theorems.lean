/-
C16 — property theorems.  Statement file; helper lemmas are in Lemmas*.lean.

Property: a signed blob, session, time token or JWT verifies only if it is
bit-for-bit what was issued under the same key, and verification returns
exactly the signed payload; sessions are rejected from their expiry instant
on, lifetimes are capped, time tokens are accepted only strictly inside the
window, JWT time and claim checks reject expired, future-issued or mismatching
tokens; a registration passcode is accepted only inside its validity window,
at most once, and no longer once more than ten wrong codes have been tried.

Every "verifies only if genuine" clause is an `iff` with the *canonical
signing*: an accepted text **is** `encode (payload ++ mac key payload)`.  A
bit flip, truncation, extension or re-encoding of an issued token that still
verified would therefore be the canonical signing of the payload it returns;
that nobody without the key can produce that text is the (trusted, unproved)
unforgeability of HMAC/RSA.  No property of `mac`, `sha`, `verifySig` other
than the MAC length is assumed anywhere.
-/
import PubModel.C16.LemmasJwt
import PubModel.C16.LemmasPass
import PubModel.C16.Obligations

namespace PubModel.C16

/-! ## Signer -/

/-- **`Check` accepts exactly the canonical signings** and returns the signed payload. -/
theorem check_iff_canonical (C : Crypto) (n : Nat) (hm : MacLen C n) (k t d : Bytes) :
    check C n k t = some d ↔ t = sign C k d :=
  ⟨check_some C n k t d, fun h => h ▸ check_sign C n hm k d⟩

/-- **`CheckHex` accepts exactly the lower-case hex of the canonical signing**
    (repaired code: the re-encoded bytes are compared with the presented text). -/
theorem checkHex_iff_canonical (C : Crypto) (cfg : Cfg) (hm : MacLen C cfg.macSize)
    (hc : cfg.hexCanonical = true) (k s d : Bytes) :
    checkHex C cfg k s = some d ↔ s = signHex C k d :=
  ⟨checkHex_some C cfg hc k s d, fun h => h ▸ checkHex_signHex C cfg hm k d⟩

/-- every mutation of an issued token that is still accepted is the issued
    token (hence: every bit flip, proper prefix and extension is rejected) -/
theorem checkHex_mutation_rejected (C : Crypto) (cfg : Cfg) (hm : MacLen C cfg.macSize)
    (hc : cfg.hexCanonical = true) (k d s : Bytes) (hne : s ≠ signHex C k d) :
    checkHex C cfg k s ≠ some d := fun h =>
  hne ((checkHex_iff_canonical C cfg hm hc k s d).mp h)


/-! ## Sessions -/

/-- **A session verifies iff it is the canonical signing of `expiry ++ payload`
    and the clock is strictly before the expiry instant**; the payload returned
    is the payload signed, the time left is `expiry - now`. -/
theorem session_check (C : Crypto) (cfg : Cfg) (hm : MacLen C cfg.macSize)
    (hc : cfg.hexCanonical = true) (ht : cfg.tsLen = 8) (s : Sessions) (now : Int)
    (tok d : Bytes) (left : Int) :
    s.check C cfg now tok = some (d, left) ↔
      ∃ e, InI64 e ∧ tok = signHex C s.key (leTime e ++ d) ∧ now < e ∧ left = e - now := by
  constructor
  · intro h
    unfold Sessions.check at h
    cases hx : checkHex C cfg s.key tok with
    | none => simp [hx] at h
    | some bs =>
      simp only [hx, ht] at h
      split at h
      · simp at h
      · rename_i hlen
        split at h
        · rename_i hnow
          simp at h
          refine ⟨toI64 (readU64 bs), toI64_in _ (readU64_lt bs), ?_, hnow, h.2.symm⟩
          have := checkHex_some C cfg hc s.key tok bs hx
          rw [this, ← h.1, leTime_readU64 bs (by omega)]
        · simp at h
  · rintro ⟨e, he, rfl, hnow, rfl⟩
    unfold Sessions.check
    rw [checkHex_signHex C cfg hm]
    simp only [ht, List.length_append, leTime_length]
    rw [readU64_leTime e he]
    have : ¬ (8 + d.length < 8) := by omega
    simp [this, hnow, drop8_leTime]

/-- **Rejected from the expiry instant on**: whatever the text, once `now`
    has reached the expiry written into an issued session, `Check` refuses it. -/
theorem session_rejected_from_expiry (C : Crypto) (cfg : Cfg) (hm : MacLen C cfg.macSize)
    (ht : cfg.tsLen = 8) (s : Sessions) (e : Int) (he : InI64 e) (d : Bytes) (now : Int)
    (hnow : e ≤ now) :
    s.check C cfg now (signHex C s.key (leTime e ++ d)) = none := by
  unfold Sessions.check
  rw [checkHex_signHex C cfg hm]
  simp only [ht, List.length_append, leTime_length]
  rw [readU64_leTime e he]
  have : ¬ (8 + d.length < 8) := by omega
  have h2 : ¬ (now < e) := by omega
  simp [this, h2]

/-- **Requested lifetimes are capped**: the expiry is `now` plus the requested
    lifetime when that is positive and at most the configured maximum, and
    `now` plus the maximum otherwise; it never exceeds `now + max`. -/
theorem session_ttl_capped (C : Crypto) (s : Sessions) (now : Int) (d : Bytes) (ttl : Int) :
    (s.new C now d ttl).2 = now + (if ttl ≤ 0 ∨ ttl > s.ttl then s.ttl else ttl) ∧
    (s.new C now d ttl).2 ≤ now + s.ttl := by
  unfold Sessions.new capTTL
  constructor
  · rfl
  · simp only
    split <;> omega

/-- an issued session verifies, with its payload, exactly until its expiry -/
theorem session_new_check (C : Crypto) (cfg : Cfg) (hm : MacLen C cfg.macSize)
    (hc : cfg.hexCanonical = true) (ht : cfg.tsLen = 8) (s : Sessions) (now0 : Int) (d : Bytes)
    (ttl : Int) (hr : InI64 (s.new C now0 d ttl).2) (now : Int) :
    s.check C cfg now (s.new C now0 d ttl).1 =
      if now < (s.new C now0 d ttl).2 then some (d, (s.new C now0 d ttl).2 - now) else none := by
  split
  · rename_i h
    exact (session_check C cfg hm hc ht s now _ d _).mpr ⟨_, hr, rfl, h, rfl⟩
  · rename_i h
    exact session_rejected_from_expiry C cfg hm ht s _ hr d now (by omega)

/-- the gate reports a user only for a session that verifies -/
theorem gate_valid_iff (C : Crypto) (cfg : Cfg) (s : Sessions) (now : Int) (tok : Bytes) :
    (gateCheck C cfg s now tok).valid = true ↔ (s.check C cfg now tok).isSome = true := by
  unfold gateCheck
  cases h : s.check C cfg now tok with
  | none => simp
  | some p => obtain ⟨u, l⟩ := p; simp

/-! ## Time tokens -/

/-- **A time token verifies iff it is the canonical signing of a timestamp
    strictly inside the window** `(now - |w|, now + |w|)`. -/
theorem timetoken_window (C : Crypto) (cfg : Cfg) (hm : MacLen C cfg.macSize)
    (hc : cfg.hexCanonical = true) (ht : cfg.tsLen = 8) (k : Bytes) (w now : Int) (tok : Bytes) :
    timeCheck C cfg k w now tok = true ↔
      ∃ t, InI64 t ∧ tok = signHex C k (leTime t) ∧ now - absI w < t ∧ t < now + absI w := by
  constructor
  · intro h
    unfold timeCheck at h
    cases hx : checkHex C cfg k tok with
    | none => simp [hx] at h
    | some bs =>
      simp only [hx, ht] at h
      split at h
      · simp at h
      · rename_i hlen
        have hlen : bs.length = 8 := by simpa using hlen
        unfold inWindow at h
        simp at h
        refine ⟨toI64 (readU64 bs), toI64_in _ (readU64_lt bs), ?_, h.1, h.2⟩
        have e := checkHex_some C cfg hc k tok bs hx
        have hd : bs.drop 8 = [] := by
          apply List.drop_eq_nil_of_le; omega
        have := leTime_readU64 bs (by omega)
        rw [hd, List.append_nil] at this
        rw [e, this]
  · rintro ⟨t, ht64, rfl, h1, h2⟩
    unfold timeCheck
    rw [checkHex_signHex C cfg hm]
    have := readU64_leTime t ht64 []
    simp only [List.append_nil] at this
    simp [ht, leTime_length, this, inWindow, h1, h2]

/-- the window is open at both ends: a token exactly `|w|` old or `|w|` ahead is refused -/
theorem timetoken_boundary_rejected (C : Crypto) (cfg : Cfg) (hm : MacLen C cfg.macSize)
    (ht : cfg.tsLen = 8) (k : Bytes) (w now t : Int) (h64 : InI64 t)
    (hb : t = now - absI w ∨ t = now + absI w) :
    timeCheck C cfg k w now (timeToken C k t) = false := by
  unfold timeCheck timeToken
  rw [checkHex_signHex C cfg hm]
  have := readU64_leTime t h64 []
  simp only [List.append_nil] at this
  simp only [ht, leTime_length, this, inWindow]
  rcases hb with rfl | rfl <;> simp

/-- **RSA time block**: accepted iff the timestamp is strictly inside the
    window, the hash is the hash of the data and the signature verifies over it. -/
theorem rsatime_iff (C : Crypto) (pub : Bytes) (w now : Int) (b : RSABlock) :
    rsaTimeCheck C pub w now b = true ↔
      8 ≤ b.data.length ∧ now - absI w < toI64 (readU64 b.data) ∧
      toI64 (readU64 b.data) < now + absI w ∧ b.hash = C.sha b.data ∧
      C.verifySig pub (C.sha b.data) b.sig = true := by
  unfold rsaTimeCheck inWindow
  constructor
  · intro h
    split at h
    · simp at h
    · split at h
      · simp at h
      · split at h
        · simp at h
        · rename_i h1 h2 h3
          simp at h2 h3
          refine ⟨by omega, h2.1, h2.2, h3.symm, ?_⟩
          rw [h3]; exact h
  · rintro ⟨h1, h2, h3, h4, h5⟩
    have : ¬ (b.data.length < 8) := by omega
    simp [this, h2, h3, h4, h5]

/-- **Challenge window**: a challenge is accepted iff it is the canonical
    signing of its JSON text and `T ≤ now ≤ T + w`. -/
theorem challenge_iff (C : Crypto) (cfg : Cfg) (hm : MacLen C cfg.macSize)
    (chalT : Bytes → Option Int) (k bs : Bytes) (now w : Int) :
    checkChallenge C cfg chalT k bs now w = .ok ↔
      ∃ d, bs = sign C k d ∧ (chalT d).getD zeroTimeNs ≤ now ∧ now ≤ (chalT d).getD zeroTimeNs + w := by
  unfold checkChallenge
  constructor
  · intro h
    cases hx : check C cfg.macSize k bs with
    | none => simp [hx] at h
    | some d =>
      simp only [hx] at h
      refine ⟨d, check_some C _ k bs d hx, ?_⟩
      split at h
      · simp at h
      · split at h
        · simp at h
        · omega
  · rintro ⟨d, rfl, h1, h2⟩
    rw [check_sign C _ hm]
    have a : ¬ (now < (chalT d).getD zeroTimeNs) := by omega
    have b : ¬ (now > (chalT d).getD zeroTimeNs + w) := by omega
    simp [a, b]


/-! ## JWT -/

/-- **`CheckTime`**: accepted iff `iat - grace < now ≤ exp` (the code accepts the
    expiry second itself; the property fixes the expiry instant only for sessions). -/
theorem checkTime_iff (cfg : Cfg) (cl : Claims) (now : Int) :
    checkTime cfg cl now = .ok ↔ cl.iat * sec - cfg.graceNs < now ∧ now ≤ cl.exp * sec := by
  unfold checkTime
  constructor
  · intro h
    split at h
    · simp at h
    · split at h
      · simp at h
      · omega
  · rintro ⟨h1, h2⟩
    have a : ¬ ¬ (cl.iat * sec - cfg.graceNs < now) := by omega
    have b : ¬ (now > cl.exp * sec) := by omega
    simp [b, h1]

/-- `DecodeAndVerify` with any verifier: accepted iff the text is
    `h.c.base64url(sig)` *canonically encoded*, the two JSON segments decode to
    the returned header and claims, the payload handed to the verifier is the
    raw text `h.c`, the verifier accepts and the time check passes. -/
theorem decodeAndVerify_iff (cfg : Cfg) (hb : cfg.b64Canonical = true) (J : Json)
    (verify : Token → Int → Bool) (tok : Bytes) (now : Int) (t : Token) :
    decodeAndVerify cfg J verify tok now = .ok t ↔
      ∃ h c, tok = h ++ dot :: (c ++ dot :: b64Encode t.sig) ∧ dot ∉ h ∧ dot ∉ c ∧
        (decodeSeg cfg h).bind J.header = some t.header ∧
        (decodeSeg cfg c).bind J.claims = some t.claims ∧
        t.payload = h ++ dot :: c ∧ verify t now = true ∧ checkTime cfg t.claims now = .ok := by
  unfold decodeAndVerify
  constructor
  · intro h
    cases hd : jwtDecode cfg J tok with
    | none => simp [hd] at h
    | some t' =>
      simp only [hd] at h
      split at h
      · simp at h
      · rename_i hv
        split at h
        · simp at h
        · rename_i hct
          simp at h
          subst h
          obtain ⟨hh, c, s, e, n1, n2, _, e1, e2, e3, e4⟩ := (jwtDecode_some cfg J tok t').mp hd
          have := decodeSeg_canonical cfg hb s t'.sig e3
          subst this
          exact ⟨hh, c, e, n1, n2, e1, e2, e4, by simpa using hv, by simpa using hct⟩
  · rintro ⟨h, c, e, n1, n2, e1, e2, e4, hv, hct⟩
    have hd : jwtDecode cfg J tok = some t :=
      (jwtDecode_some cfg J tok t).mpr
        ⟨h, c, b64Encode t.sig, e, n1, n2, b64Encode_no_dot _, e1, e2, decodeSeg_encode cfg _, e4⟩
    simp [hd, hv, hct]

theorem hs256Verify_iff (C : Crypto) (k : Bytes) (pin : Header) (t : Token) :
    hs256Verify C k pin t = true ↔ t.header = pin ∧ t.sig = C.mac k t.payload := by
  unfold hs256Verify checkHeader
  obtain ⟨⟨a, ty, kid⟩, cl, p, s⟩ := t
  obtain ⟨a', ty', kid'⟩ := pin
  simp only [Bool.and_eq_true, beq_iff_eq, Header.mk.injEq]
  constructor
  · rintro ⟨⟨⟨h1, h2⟩, h3⟩, h4⟩; exact ⟨⟨h2, h3, h1⟩, h4.symm⟩
  · rintro ⟨⟨h2, h3, h1⟩, h4⟩; exact ⟨⟨⟨h1, h2⟩, h3⟩, h4.symm⟩

/-- **An HS256 token verifies iff** it is `h.c.base64url(mac key (h.c))`
    canonically encoded, its header is exactly the pinned header (alg, typ,
    kid), and `iat - grace < now ≤ exp`; what is returned is what was signed. -/
theorem jwt_verify_iff (C : Crypto) (cfg : Cfg) (hb : cfg.b64Canonical = true) (J : Json)
    (k : Bytes) (pin : Header) (tok : Bytes) (now : Int) (t : Token) :
    jwtHS256 C cfg J k pin tok now = .ok t ↔
      ∃ h c, tok = h ++ dot :: (c ++ dot :: b64Encode (C.mac k (h ++ dot :: c))) ∧
        dot ∉ h ∧ dot ∉ c ∧
        (decodeSeg cfg h).bind J.header = some pin ∧ t.header = pin ∧
        (decodeSeg cfg c).bind J.claims = some t.claims ∧
        t.payload = h ++ dot :: c ∧ t.sig = C.mac k (h ++ dot :: c) ∧
        t.claims.iat * sec - cfg.graceNs < now ∧ now ≤ t.claims.exp * sec := by
  unfold jwtHS256
  rw [decodeAndVerify_iff cfg hb]
  constructor
  · rintro ⟨h, c, e, n1, n2, e1, e2, e4, hv, hct⟩
    obtain ⟨hp, hs⟩ := (hs256Verify_iff C k pin t).mp hv
    obtain ⟨t1, t2⟩ := (checkTime_iff cfg _ now).mp hct
    rw [e4] at hs
    exact ⟨h, c, by rw [e, hs], n1, n2, by rw [← hp]; exact e1, hp, e2, e4, hs, t1, t2⟩
  · rintro ⟨h, c, e, n1, n2, e1, hp, e2, e4, hs, t1, t2⟩
    refine ⟨h, c, by rw [e, hs], n1, n2, by rw [hp]; exact e1, e2, e4, ?_, (checkTime_iff cfg _ now).mpr ⟨t1, t2⟩⟩
    exact (hs256Verify_iff C k pin t).mpr ⟨hp, by rw [e4]; exact hs⟩

/-- a token that differs from the canonical text of what it would return is refused -/
theorem jwt_mutation_rejected (C : Crypto) (cfg : Cfg) (hb : cfg.b64Canonical = true) (J : Json)
    (k : Bytes) (pin : Header) (tok : Bytes) (now : Int) (t : Token)
    (hne : tok ≠ t.payload ++ dot :: b64Encode (C.mac k t.payload)) :
    jwtHS256 C cfg J k pin tok now ≠ .ok t := by
  intro h
  obtain ⟨hh, c, e, _, _, _, _, _, e4, _, _, _⟩ := (jwt_verify_iff C cfg hb J k pin tok now t).mp h
  apply hne
  rw [e, e4]
  simp

theorem findKey_some (keys : List PubKey) (kid : Bytes) (k : PubKey) (h : findKey keys kid = some k) :
    k ∈ keys ∧ k.id = kid := by
  unfold findKey at h
  exact ⟨List.mem_of_find?_eq_some h, by simpa using List.find?_some h⟩

/-- **RS256 key rules**: the verifier accepts iff the header says RS256, the
    identity has a key with the token's key id (the first such key), that key
    has the RSA key type, is valid at the verification instant
    (`notBefore ≤ now` when set, `now ≤ notAfter`), parses, and the signature
    verifies under it over the hash of the raw `h.c` text. -/
theorem rs256_key_rules (C : Crypto) (cfg : Cfg) (keys : List PubKey) (t : Token) (now : Int) :
    rs256Verify C cfg keys t now = true ↔
      t.header.alg = cfg.algRS256 ∧
      ∃ k, findKey keys t.header.kid = some k ∧ k ∈ keys ∧ k.id = t.header.kid ∧
        k.typ = cfg.rsaKeyType ∧ (k.notBefore > 0 → k.notBefore * sec ≤ now) ∧
        now ≤ k.notAfter * sec ∧ C.keyParses k.key = true ∧
        C.verifySig k.key (C.sha t.payload) t.sig = true := by
  unfold rs256Verify
  constructor
  · intro h
    split at h
    · simp at h
    · rename_i halg
      cases hk : findKey keys t.header.kid with
      | none => simp [hk] at h
      | some k =>
        simp only [hk] at h
        split at h
        · simp at h
        · rename_i htyp
          split at h
          · simp at h
          · rename_i hval
            split at h
            · simp at h
            · rename_i hparse
              obtain ⟨hm, hid⟩ := findKey_some keys _ k hk
              unfold keyValid at hval
              simp at hval halg htyp hparse
              refine ⟨halg, k, rfl, hm, hid, htyp, ?_, by omega, hparse, h⟩
              intro hpos
              have := hval.1 hpos
              omega
  · rintro ⟨halg, k, hk, _, _, htyp, hnb, hna, hparse, hsig⟩
    have hval : keyValid k now = true := by
      unfold keyValid
      simp
      refine ⟨?_, by omega⟩
      by_cases hpos : k.notBefore > 0
      · exact Or.inr (hnb hpos)
      · exact Or.inl (by omega)
    simp [halg, hk, htyp, hval, hparse, hsig]

/-- **An RS256 token verifies iff** it is `h.c.base64url(sig)` canonically
    encoded, the key rules hold for the returned header and signature, and
    the time check passes.  With a deterministic signature scheme (`hu`:
    the only signature that verifies is `sigOf`), the text is the unique
    canonical signing of `h.c`. -/
theorem jwt_rs256_iff (C : Crypto) (cfg : Cfg) (hb : cfg.b64Canonical = true) (J : Json)
    (keys : List PubKey) (tok : Bytes) (now : Int) (t : Token) :
    jwtRS256 C cfg J keys tok now = .ok t ↔
      ∃ h c, tok = h ++ dot :: (c ++ dot :: b64Encode t.sig) ∧ dot ∉ h ∧ dot ∉ c ∧
        (decodeSeg cfg h).bind J.header = some t.header ∧
        (decodeSeg cfg c).bind J.claims = some t.claims ∧
        t.payload = h ++ dot :: c ∧ rs256Verify C cfg keys t now = true ∧
        t.claims.iat * sec - cfg.graceNs < now ∧ now ≤ t.claims.exp * sec := by
  unfold jwtRS256
  rw [decodeAndVerify_iff cfg hb]
  constructor
  · rintro ⟨h, c, e, n1, n2, e1, e2, e4, hv, hct⟩
    obtain ⟨t1, t2⟩ := (checkTime_iff cfg _ now).mp hct
    exact ⟨h, c, e, n1, n2, e1, e2, e4, hv, t1, t2⟩
  · rintro ⟨h, c, e, n1, n2, e1, e2, e4, hv, t1, t2⟩
    exact ⟨h, c, e, n1, n2, e1, e2, e4, hv, (checkTime_iff cfg _ now).mpr ⟨t1, t2⟩⟩

theorem jwt_rs256_canonical (C : Crypto) (cfg : Cfg) (hb : cfg.b64Canonical = true) (J : Json)
    (keys : List PubKey) (tok : Bytes) (now : Int) (t : Token) (sigOf : Bytes → Bytes → Bytes)
    (hu : ∀ key d s, C.verifySig key d s = true → s = sigOf key d)
    (h : jwtRS256 C cfg J keys tok now = .ok t) :
    ∃ k, findKey keys t.header.kid = some k ∧
      tok = t.payload ++ dot :: b64Encode (sigOf k.key (C.sha t.payload)) := by
  obtain ⟨hh, c, e, _, _, _, _, e4, hv, _, _⟩ := (jwt_rs256_iff C cfg hb J keys tok now t).mp h
  obtain ⟨_, k, hk, _, _, _, _, _, _, hsig⟩ := (rs256_key_rules C cfg keys t now).mp hv
  refine ⟨k, hk, ?_⟩
  rw [← hu _ _ _ hsig, e, e4]
  simp

/-- **Claim checks**: accepted iff every non-empty template field equals the
    claim and every scope of the template is among the claim's scopes. -/
theorem claims_check (c t : Claims) :
    checkClaimSet (some c) (some t) = true ↔
      (t.iss ≠ [] → c.iss = t.iss) ∧ (t.aud ≠ [] → c.aud = t.aud) ∧
      (t.typ ≠ [] → c.typ = t.typ) ∧ (t.sub ≠ [] → c.sub = t.sub) ∧
      (t.scope ≠ [] → ∀ s ∈ fields t.scope, s ∈ fields c.scope) := by
  unfold checkClaimSet
  simp only [Bool.and_eq_true, Bool.or_eq_true, List.isEmpty_iff, beq_iff_eq, List.all_eq_true,
    List.contains_iff_mem]
  constructor
  · rintro ⟨⟨⟨⟨h1, h2⟩, h3⟩, h4⟩, h5⟩
    exact ⟨fun n => h1.resolve_left n, fun n => h2.resolve_left n, fun n => h3.resolve_left n,
      fun n => h4.resolve_left n, fun n => h5.resolve_left n⟩
  · rintro ⟨h1, h2, h3, h4, h5⟩
    have em : ∀ (x : Bytes), x = [] ∨ x ≠ [] := fun x => by cases x <;> simp
    exact ⟨⟨⟨⟨(em t.iss).imp_right h1, (em t.aud).imp_right h2⟩, (em t.typ).imp_right h3⟩,
      (em t.sub).imp_right h4⟩, (em t.scope).imp_right h5⟩

/-- missing claims are refused; a missing template accepts anything present -/
theorem claims_check_nil (c : Claims) (t : Option Claims) :
    checkClaimSet none t = false ∧ checkClaimSet (some c) none = true := ⟨rfl, rfl⟩

/-- **Self token**: accepted only if the RS256 token verifies, the issuer is the
    self marker and subject/audience equal the (non-empty) user and host. -/
theorem selftoken_only_if (C : Crypto) (cfg : Cfg) (J : Json) (keys : List PubKey)
    (tok user host : Bytes) (now : Int) (t : Token)
    (h : verifySelfToken C cfg J keys tok user host now = .ok t) :
    jwtRS256 C cfg J keys tok now = .ok t ∧ (cfg.selfIss ≠ [] → t.claims.iss = cfg.selfIss) ∧
      (user ≠ [] → t.claims.sub = user) ∧ (host ≠ [] → t.claims.aud = host) := by
  unfold verifySelfToken at h
  cases hj : jwtRS256 C cfg J keys tok now with
  | ok t' =>
    simp only [hj] at h
    split at h
    · rename_i hc
      simp at h
      subst h
      obtain ⟨h1, h2, _, h4, _⟩ := (claims_check _ _).mp hc
      exact ⟨rfl, h1, h4, h2⟩
    · simp at h
  | decodeErr => simp [hj] at h
  | verifyErr => simp [hj] at h
  | timeErr => simp [hj] at h
  | claimErr => simp [hj] at h

/-! ## Registration passcode -/

/-- **A passcode is accepted only inside its validity window, only while not
    consumed, only with the stored code, only for an enabled role, and only
    while fewer than `maxTries` attempts on this code have been refused; and
    at most one attempt per issued code is ever accepted.**  `g` are the
    observer's counters (refused attempts that reached the check / accepted
    attempts since the last successful `NewPassCode`), before the operation. -/
theorem passcode_accept (cfg : Cfg) (hp : cfg.persistTries = true) (ops : List POp)
    (st : Option Role) (g : Ghost) (hinv : Inv st g) :
    ∀ e ∈ grun cfg st g ops,
      e.2.1.accepts ≤ 1 ∧
      ∀ claim now id, e.2.2.1 = .setup claim now id → e.2.2.2 = .ok →
        ∃ r pc, e.1 = some r ∧ r.disabled = false ∧ r.passCode = some pc ∧ pc.code = claim ∧
          pc.valid ≤ now ∧ now ≤ pc.expire ∧ pc.consumed = false ∧
          e.2.1.accepts = 0 ∧ e.2.1.wrongs + 1 ≤ cfg.maxTries := by
  intro e he
  have hi := inv_run cfg hp ops st g hinv e he
  have ho := grun_out cfg ops st g e he
  refine ⟨hi.1, ?_⟩
  intro claim now id hop hok
  rw [hop] at ho
  rw [ho] at hok
  obtain ⟨r, pc, hst, hd, hpc, hcode, _, hv, hx, hcons, htr, _⟩ := setup_ok cfg e.1 claim now id hok
  have h0 := hi.2 r pc hst hpc
  have hz : e.2.1.accepts = 0 := by
    have : ¬ (e.2.1.accepts = 1) := fun e1 => by
      have := h0.2.mpr e1
      simp [hcons] at this
    have := hi.1
    omega
  exact ⟨r, pc, hst, hd, hpc, hcode, hv, hx, hcons, hz, by have := h0.1; omega⟩

/-- from the empty store: never more than one acceptance per issued code, and
    never an acceptance once `maxTries` attempts have been refused -/
theorem passcode_accept_from_start (cfg : Cfg) (hp : cfg.persistTries = true) (ops : List POp) :
    ∀ e ∈ grun cfg none ⟨0, 0⟩ ops,
      e.2.1.accepts ≤ 1 ∧
      ∀ claim now id, e.2.2.1 = .setup claim now id → e.2.2.2 = .ok →
        e.2.1.accepts = 0 ∧ e.2.1.wrongs < cfg.maxTries := by
  intro e he
  obtain ⟨h1, h2⟩ := passcode_accept cfg hp ops none ⟨0, 0⟩ (inv_init _ (by simp)) e he
  refine ⟨h1, ?_⟩
  intro claim now id hop hok
  obtain ⟨_, _, _, _, _, _, _, _, _, hz, hw⟩ := h2 claim now id hop hok
  exact ⟨hz, by omega⟩

/-- the validity window `NewPassCode` writes: from `buffer` before the issue
    instant to `expiry` (not negative) after it -/
theorem passcode_window (cfg : Cfg) (r : Role) (hd : r.disabled = false) (now : Int) (code : Bytes)
    (expiry : Int) :
    pstep cfg (some r) (.issue now code expiry) =
      (some { r with passCode := some ⟨code, now - cfg.bufferNs, now + clamp0 expiry, false, 0⟩ }, .ok) := by
  simp [pstep, mutate, hd]

/-! ## The regenerated configuration

The generic theorems, instantiated with the configuration read from the
working tree; the hypotheses are the `decide` obligations of `Obligations.lean`,
so these statements stop checking the moment the source stops satisfying them. -/

theorem gen_check_iff (C : Crypto) (hm : MacLen C 32) (k t d : Bytes) :
    check C genCfg.macSize k t = some d ↔ t = sign C k d :=
  check_iff_canonical C _ (by rw [gen_macSize]; exact hm) k t d

theorem gen_checkHex_iff (C : Crypto) (hm : MacLen C 32) (k s d : Bytes) :
    checkHex C genCfg k s = some d ↔ s = signHex C k d :=
  checkHex_iff_canonical C genCfg (by rw [gen_macSize]; exact hm) gen_hexCanonical k s d

theorem gen_session_check (C : Crypto) (hm : MacLen C 32) (s : Sessions) (now : Int)
    (tok d : Bytes) (left : Int) :
    s.check C genCfg now tok = some (d, left) ↔
      ∃ e, InI64 e ∧ tok = signHex C s.key (leTime e ++ d) ∧ now < e ∧ left = e - now :=
  session_check C genCfg (by rw [gen_macSize]; exact hm) gen_hexCanonical gen_tsLen s now tok d left

theorem gen_timetoken_window (C : Crypto) (hm : MacLen C 32) (k : Bytes) (w now : Int) (tok : Bytes) :
    timeCheck C genCfg k w now tok = true ↔
      ∃ t, InI64 t ∧ tok = signHex C k (leTime t) ∧ now - absI w < t ∧ t < now + absI w :=
  timetoken_window C genCfg (by rw [gen_macSize]; exact hm) gen_hexCanonical gen_tsLen k w now tok

theorem gen_jwt_verify_iff (C : Crypto) (J : Json) (k : Bytes) (pin : Header) (tok : Bytes)
    (now : Int) (t : Token) :
    jwtHS256 C genCfg J k pin tok now = .ok t ↔
      ∃ h c, tok = h ++ dot :: (c ++ dot :: b64Encode (C.mac k (h ++ dot :: c))) ∧
        dot ∉ h ∧ dot ∉ c ∧
        (decodeSeg genCfg h).bind J.header = some pin ∧ t.header = pin ∧
        (decodeSeg genCfg c).bind J.claims = some t.claims ∧
        t.payload = h ++ dot :: c ∧ t.sig = C.mac k (h ++ dot :: c) ∧
        t.claims.iat * sec - genCfg.graceNs < now ∧ now ≤ t.claims.exp * sec :=
  jwt_verify_iff C genCfg gen_b64Canonical J k pin tok now t

/-- with the source's limit: an acceptance is preceded by at most ten refused attempts on that code -/
theorem gen_passcode_accept (ops : List POp) :
    ∀ e ∈ grun genCfg none ⟨0, 0⟩ ops,
      e.2.1.accepts ≤ 1 ∧
      ∀ claim now id, e.2.2.1 = .setup claim now id → e.2.2.2 = .ok →
        e.2.1.accepts = 0 ∧ e.2.1.wrongs ≤ 10 := by
  intro e he
  obtain ⟨h1, h2⟩ := passcode_accept_from_start genCfg gen_persistTries ops e he
  refine ⟨h1, ?_⟩
  intro claim now id hop hok
  obtain ⟨hz, hw⟩ := h2 claim now id hop hok
  have := gen_maxTries
  exact ⟨hz, by omega⟩

/-! ## Non-vacuity, and the pinned tree

`toyC` is an arbitrary concrete instance of the parameters (nothing depends on
it being cryptographically meaningful); `cfgRepaired` has the three
comparisons/persistence the repaired source has, `cfgPinned` is the tree as
first read.  For `cfgPinned` the three `iff`s are *false*; the witnesses are
kept as theorems. -/

def toyC : Crypto where
  mac := fun k d => List.replicate 32 (u8 ((k.headD 0).toNat + k.length + 3 * d.length))
  sha := fun d => [u8 d.length, 7]
  verifySig := fun k d s => s == k ++ d
  keyParses := fun _ => true

def cfgRepaired : Cfg where
  macSize := 32
  tsLen := 8
  hexCanonical := true
  b64Canonical := true
  persistTries := true
  maxTries := 10
  graceNs := 300000000000
  weekNs := 604800000000000
  bufferNs := 60000000000
  algRS256 := [82, 83, 50, 53, 54]
  rsaKeyType := [115, 115, 104, 45, 114, 115, 97]
  selfIss := [46]
  algHS256 := [72, 83, 50, 53, 54]
  defaultTyp := [74, 87, 84]

def cfgPinned : Cfg :=
  { cfgRepaired with hexCanonical := false, b64Canonical := false, persistTries := false }

theorem toy_macLen : MacLen toyC 32 := by intro k d; simp [toyC]

-- check_iff_canonical / checkHex_iff_canonical: both sides inhabited
example : check toyC 32 [1] (sign toyC [1] [7, 8]) = some [7, 8] := by decide
example : check toyC 32 [1] (sign toyC [1] []) = some [] := by decide
example : check toyC 32 [1] ((sign toyC [1] [7, 8]).dropLast) = none := by decide
example : checkHex toyC cfgRepaired [1] (signHex toyC [1] [0xab]) = some [0xab] := by decide

/-- the signing of `[0xab]` with its first two characters in upper case -/
def upperAB : Bytes := [65, 66] ++ (signHex toyC [] [0xab]).drop 2

/-- **pinned tree**: `CheckHex` accepts a text that is not the canonical signing
    (one bit of one character flipped: `a` → `A`) -/
theorem checkHex_noncanonical_pinned :
    checkHex toyC cfgPinned [] upperAB = some [0xab] ∧ upperAB ≠ signHex toyC [] [0xab] := by decide

example : checkHex toyC cfgRepaired [] upperAB = none := by decide

-- sessions: issued at 1000 for 50 ns; verifies until 1049, refused from 1050 on
def toySess : Sessions := ⟨[9], 100⟩
example : (toySess.new toyC 1000 [5] 50).2 = 1050 := by decide
example : (toySess.new toyC 1000 [5] 500).2 = 1100 := by decide
example : (toySess.new toyC 1000 [5] 0).2 = 1100 := by decide
example : toySess.check toyC cfgRepaired 1049 (toySess.new toyC 1000 [5] 50).1 = some ([5], 1) := by decide
example : toySess.check toyC cfgRepaired 1050 (toySess.new toyC 1000 [5] 50).1 = none := by decide

-- time tokens: window 10 around 1000 is open at both ends
example : timeCheck toyC cfgRepaired [3] 10 1009 (timeToken toyC [3] 1000) = true := by decide
example : timeCheck toyC cfgRepaired [3] 10 1010 (timeToken toyC [3] 1000) = false := by decide
example : timeCheck toyC cfgRepaired [3] (-10) 990 (timeToken toyC [3] 1000) = false := by decide
example : timeCheck toyC cfgRepaired [3] 10 991 (timeToken toyC [3] 1000) = true := by decide

-- JWT
def toyHdr : Header := ⟨cfgRepaired.algHS256, cfgRepaired.defaultTyp, [107]⟩
def toyJ : Json where
  header := fun b => if b = [1] then some toyHdr else none
  claims := fun b => if b = [2] then some ⟨[], [], [], [], [], 100, 50⟩ else none
def toyH : Bytes := b64Encode [1]
def toyCl : Bytes := b64Encode [2]
def toyTok : Bytes := toyH ++ dot :: (toyCl ++ dot :: b64Encode (toyC.mac [4] (toyH ++ dot :: toyCl)))

def toyT : Token :=
  ⟨toyHdr, ⟨[], [], [], [], [], 100, 50⟩, toyH ++ dot :: toyCl, toyC.mac [4] (toyH ++ dot :: toyCl)⟩

example : jwtHS256 toyC cfgRepaired toyJ [4] toyHdr toyTok (60 * sec) = .ok toyT := by decide
example : jwtHS256 toyC cfgRepaired toyJ [4] toyHdr toyTok (100 * sec) ≠ .timeErr := by decide
example : jwtHS256 toyC cfgRepaired toyJ [4] toyHdr toyTok (100 * sec + 1) = .timeErr := by decide
example : jwtHS256 toyC cfgRepaired toyJ [4] toyHdr toyTok ((50 - 300) * sec) = .timeErr := by decide
example : jwtHS256 toyC cfgRepaired toyJ [4] { toyHdr with typ := [] } toyTok (60 * sec) = .verifyErr := by decide
example : jwtHS256 toyC cfgRepaired toyJ [5] toyHdr toyTok (60 * sec) = .verifyErr := by decide

/-- **pinned tree**: a token followed by a line feed verifies, and so does one
    whose last signature character carries non-zero unused bits -/
theorem jwt_noncanonical_pinned :
    jwtHS256 toyC cfgPinned toyJ [4] toyHdr (toyTok ++ [10]) (60 * sec) = .ok toyT ∧
    jwtHS256 toyC cfgPinned toyJ [4] toyHdr (toyTok.dropLast ++ [82]) (60 * sec) = .ok toyT ∧
    toyTok.dropLast ++ [82] ≠ toyTok := by decide

example : jwtHS256 toyC cfgRepaired toyJ [4] toyHdr (toyTok ++ [10]) (60 * sec) = .decodeErr := by decide
example : jwtHS256 toyC cfgRepaired toyJ [4] toyHdr (toyTok.dropLast ++ [82]) (60 * sec) = .decodeErr := by decide

-- RS256 key rules
def toyKey : PubKey := ⟨[107], cfgRepaired.rsaKeyType, [1, 2], 200, 10⟩
def toyRsTok : Token :=
  ⟨⟨cfgRepaired.algRS256, [], [107]⟩, ⟨[], [], [], [], [], 100, 50⟩, [9], [1, 2] ++ toyC.sha [9]⟩
example : rs256Verify toyC cfgRepaired [toyKey] toyRsTok (10 * sec) = true := by decide
example : rs256Verify toyC cfgRepaired [toyKey] toyRsTok (10 * sec - 1) = false := by decide
example : rs256Verify toyC cfgRepaired [toyKey] toyRsTok (200 * sec + 1) = false := by decide
example : rs256Verify toyC cfgRepaired [{ toyKey with id := [108] }] toyRsTok (50 * sec) = false := by decide
example : rs256Verify toyC cfgRepaired [{ toyKey with typ := [] }] toyRsTok (50 * sec) = false := by decide

-- claims
example : checkClaimSet (some ⟨[1], [97, 32, 98], [2], [], [3], 0, 0⟩) (some ⟨[1], [98], [], [], [3], 0, 0⟩) = true := by
  decide
example : checkClaimSet (some ⟨[1], [97, 32, 98], [2], [], [3], 0, 0⟩) (some ⟨[], [99], [], [], [], 0, 0⟩) = false := by
  decide

-- passcode
def hist30 : List POp :=
  [.create, .issue 0 [49] 600] ++ List.replicate 30 (POp.setup [119] 5 1) ++ [.setup [49] 5 1]

/-- **pinned tree**: after thirty wrong codes the right one is still accepted
    (the incremented counter is dropped with the failed `Mutate`) -/
theorem passcode_unbounded_pinned :
    (prun cfgPinned none hist30).getLast?.map (·.2.2) = some .ok := by decide

example : (prun cfgRepaired none hist30).getLast?.map (·.2.2) = some .unauthorized := by decide

/-- ten refused attempts still allow the right code... -/
example : (prun cfgRepaired none ([.create, .issue 0 [49] 600] ++ List.replicate 9 (POp.setup [119] 5 1) ++
    [.setup [49] 5 1, .setup [49] 6 2])).map (·.2.2) =
    [.ok, .ok] ++ List.replicate 9 .unauthorized ++ [.ok, .unauthorized] := by decide

/-- ...inside the window only: one nanosecond after `Expire` and one before `Valid` are refused -/
example : (prun cfgRepaired none [.create, .issue 100000000000 [49] 600, .setup [49] 100000000601 1,
    .setup [49] 39999999999 1, .setup [49] 40000000000 1]).map (·.2.2) =
    [.ok, .ok, .unauthorized, .unauthorized, .ok] := by decide

end PubModel.C16
