/-
C16 — lemmas about the codecs: round trips and canonicality.
-/
import PubModel.C16.Codec

namespace PubModel.C16

/-! ### hex -/

theorem nibbleGo_hexDigit (n : Nat) (h : n < 16) : nibbleGo (hexDigit n) = some n := by
  unfold hexDigit nibbleGo
  split
  · have e : (48 + n) % 256 = 48 + n := by omega
    simp only [toNat_u8, e]
    rw [if_pos (by omega)]
    congr 1; omega
  · have e : (87 + n) % 256 = 87 + n := by omega
    simp only [toNat_u8, e]
    rw [if_neg (by omega), if_pos (by omega)]
    congr 1; omega

theorem hexDigit_of_nibble (c : UInt8) (n : Nat) (h : nibbleGo c = some n)
    (hu : isUpperHex c = false) : hexDigit n = c := by
  unfold nibbleGo at h
  unfold isUpperHex at hu
  have hlt := c.toNat_lt
  apply UInt8.toNat_inj.mp
  unfold hexDigit
  simp at hu
  split at h
  · simp at h; subst h
    split <;> simp [toNat_u8] <;> omega
  · split at h
    · simp at h; subst h
      split <;> simp [toNat_u8] <;> omega
    · split at h
      · omega
      · simp at h

theorem nibbleGo_lt (c : UInt8) (n : Nat) (h : nibbleGo c = some n) : n < 16 := by
  unfold nibbleGo at h
  split at h
  · simp at h; omega
  · split at h
    · simp at h; omega
    · split at h
      · simp at h; omega
      · simp at h

theorem byte_div_mod (b : UInt8) : u8 (b.toNat / 16 * 16 + b.toNat % 16) = b := by
  rw [Nat.div_add_mod']
  exact u8_toNat b

/-- `hex.DecodeString (hex.EncodeToString b) = b` -/
theorem hexDecode_encode (b : Bytes) : hexDecodeGo (hexEncode b) = some b := by
  induction b with
  | nil => rfl
  | cons x xs ih =>
    have hx := x.toNat_lt
    simp only [hexEncode, hexDecodeGo]
    rw [nibbleGo_hexDigit _ (by omega), nibbleGo_hexDigit _ (Nat.mod_lt _ (by decide)), ih]
    simp [byte_div_mod]

/-- canonicality: a text without upper-case letters that decodes is the
    encoding of what it decodes to -/
theorem hex_canonical : ∀ (s b : Bytes), hexDecodeGo s = some b → HexStrict s → s = hexEncode b
  | [], b, h, _ => by simp [hexDecodeGo] at h; subst h; rfl
  | [_], b, h, _ => by simp [hexDecodeGo] at h
  | c0 :: c1 :: rest, b, h, hs => by
    simp only [hexDecodeGo] at h
    cases h0 : nibbleGo c0 with
    | none => simp [h0] at h
    | some x =>
      cases h1 : nibbleGo c1 with
      | none => simp [h0, h1] at h
      | some y =>
        cases hr : hexDecodeGo rest with
        | none => simp [h0, h1, hr] at h
        | some r =>
          simp [h0, h1, hr] at h
          subst h
          have hx := nibbleGo_lt _ _ h0
          have hy := nibbleGo_lt _ _ h1
          have ih := hex_canonical rest r hr (fun c hc => hs c (by simp [hc]))
          have e0 := hexDigit_of_nibble c0 x h0 (hs c0 (by simp))
          have e1 := hexDigit_of_nibble c1 y h1 (hs c1 (by simp))
          simp only [hexEncode, toNat_u8]
          have hd : (x * 16 + y) % 256 / 16 = x := by omega
          have hm : (x * 16 + y) % 256 % 16 = y := by omega
          rw [hd, hm, e0, e1, ← ih]

theorem hexEncode_strict (b : Bytes) : HexStrict (hexEncode b) := by
  induction b with
  | nil => intro c hc; simp [hexEncode] at hc
  | cons x xs ih =>
    intro c hc
    simp only [hexEncode, List.mem_cons] at hc
    have hx := x.toNat_lt
    have key : ∀ n, n < 16 → isUpperHex (hexDigit n) = false := by
      intro n hn
      unfold isUpperHex hexDigit
      split <;> simp [toNat_u8] <;> omega
    rcases hc with rfl | rfl | hc
    · exact key _ (by omega)
    · exact key _ (Nat.mod_lt _ (by decide))
    · exact ih c hc

theorem hexEncode_length (b : Bytes) : (hexEncode b).length = 2 * b.length := by
  induction b with
  | nil => rfl
  | cons x xs ih => simp [hexEncode, ih]; omega

theorem hexEncode_inj : ∀ (a b : Bytes), hexEncode a = hexEncode b → a = b := by
  intro a b h
  have := congrArg hexDecodeGo h
  simpa [hexDecode_encode] using this


/-! ### base64url -/

theorem b64Val_b64Char (n : Nat) (h : n < 64) : b64Val (b64Char n) = some n := by
  unfold b64Char
  split
  · have e : (65 + n) % 256 = 65 + n := by omega
    unfold b64Val; simp only [toNat_u8, e]
    rw [if_pos (by omega)]; congr 1; omega
  · split
    · have e : (71 + n) % 256 = 71 + n := by omega
      unfold b64Val; simp only [toNat_u8, e]
      rw [if_neg (by omega), if_pos (by omega)]; congr 1; omega
    · split
      · have e : (n - 4) % 256 = n - 4 := by omega
        unfold b64Val; simp only [toNat_u8, e]
        rw [if_neg (by omega), if_neg (by omega), if_pos (by omega)]; congr 1; omega
      · split
        · subst n; decide
        · have : n = 63 := by omega
          subst n; decide

theorem b64Val_lt (c : UInt8) (n : Nat) (h : b64Val c = some n) : n < 64 := by
  unfold b64Val at h
  repeat' split at h
  all_goals (simp at h; try omega)

theorem b64Char_of_val (c : UInt8) (n : Nat) (h : b64Val c = some n) : b64Char n = c := by
  have hlt := c.toNat_lt
  apply UInt8.toNat_inj.mp
  unfold b64Val at h
  unfold b64Char
  split at h
  · simp at h; subst h
    rw [if_pos (by omega), toNat_u8]; omega
  · split at h
    · simp at h; subst h
      rw [if_neg (by omega), if_pos (by omega), toNat_u8]; omega
    · split at h
      · simp at h; subst h
        rw [if_neg (by omega), if_neg (by omega), if_pos (by omega), toNat_u8]; omega
      · split at h
        · simp at h; subst h
          rw [if_neg (by omega), if_neg (by omega), if_neg (by omega), if_pos rfl]
          rename_i h45; rw [h45]; rfl
        · split at h
          · simp at h; subst h
            rw [if_neg (by omega), if_neg (by omega), if_neg (by omega), if_neg (by omega)]
            rename_i h95; rw [h95]; rfl
          · simp at h

theorem b64Char_not_newline (n : Nat) (h : n < 64) : isNewline (b64Char n) = false := by
  unfold isNewline b64Char
  repeat' split
  all_goals first
    | (simp only [toNat_u8]; simp; omega)
    | decide

theorem b64Encode_no_newline : ∀ (b : Bytes) c, c ∈ b64Encode b → isNewline c = false
  | a :: b :: c :: rest, x, hx => by
    have ha := a.toNat_lt; have hb := b.toNat_lt; have hc := c.toNat_lt
    simp only [b64Encode, List.mem_cons] at hx
    rcases hx with rfl | rfl | rfl | rfl | hx
    · exact b64Char_not_newline _ (by omega)
    · exact b64Char_not_newline _ (by omega)
    · exact b64Char_not_newline _ (by omega)
    · exact b64Char_not_newline _ (by omega)
    · exact b64Encode_no_newline rest x hx
  | [a, b], x, hx => by
    have ha := a.toNat_lt; have hb := b.toNat_lt
    simp only [b64Encode, List.mem_cons, List.not_mem_nil, or_false] at hx
    rcases hx with rfl | rfl | rfl
    · exact b64Char_not_newline _ (by omega)
    · exact b64Char_not_newline _ (by omega)
    · exact b64Char_not_newline _ (by omega)
  | [a], x, hx => by
    have ha := a.toNat_lt
    simp only [b64Encode, List.mem_cons, List.not_mem_nil, or_false] at hx
    rcases hx with rfl | rfl
    · exact b64Char_not_newline _ (by omega)
    · exact b64Char_not_newline _ (by omega)
  | [], x, hx => by simp [b64Encode] at hx

theorem b64Core_encode : ∀ (b : Bytes), b64DecodeCore (b64Encode b) = some b
  | a :: b :: c :: rest => by
    have ha := a.toNat_lt; have hb := b.toNat_lt; have hc := c.toNat_lt
    simp only [b64Encode, b64DecodeCore]
    rw [b64Val_b64Char _ (by omega), b64Val_b64Char _ (by omega), b64Val_b64Char _ (by omega),
      b64Val_b64Char _ (by omega), b64Core_encode rest]
    have e0 : a.toNat / 4 * 4 + (a.toNat % 4 * 16 + b.toNat / 16) / 16 = a.toNat := by omega
    have e1 : (a.toNat % 4 * 16 + b.toNat / 16) % 16 * 16 + (b.toNat % 16 * 4 + c.toNat / 64) / 4
        = b.toNat := by omega
    have e2 : (b.toNat % 16 * 4 + c.toNat / 64) % 4 * 64 + c.toNat % 64 = c.toNat := by omega
    simp only [e0, e1, e2, u8_toNat]
  | [a, b] => by
    have ha := a.toNat_lt; have hb := b.toNat_lt
    simp only [b64Encode, b64DecodeCore]
    rw [b64Val_b64Char _ (by omega), b64Val_b64Char _ (by omega), b64Val_b64Char _ (by omega)]
    have e0 : a.toNat / 4 * 4 + (a.toNat % 4 * 16 + b.toNat / 16) / 16 = a.toNat := by omega
    have e1 : (a.toNat % 4 * 16 + b.toNat / 16) % 16 * 16 + (b.toNat % 16 * 4) / 4
        = b.toNat := by omega
    simp only [e0, e1, u8_toNat]
  | [a] => by
    have ha := a.toNat_lt
    simp only [b64Encode, b64DecodeCore]
    rw [b64Val_b64Char _ (by omega), b64Val_b64Char _ (by omega)]
    have e0 : a.toNat / 4 * 4 + (a.toNat % 4 * 16) / 16 = a.toNat := by omega
    simp only [e0, u8_toNat]
  | [] => rfl

theorem filter_no_newline (s : Bytes) (h : ∀ c ∈ s, isNewline c = false) :
    s.filter (fun c => !isNewline c) = s := by
  apply List.filter_eq_self.mpr
  intro a ha
  simp [h a ha]

/-- `DecodeString (EncodeToString b) = b` for `base64.RawURLEncoding` -/
theorem b64Decode_encode (b : Bytes) : b64DecodeGo (b64Encode b) = some b := by
  unfold b64DecodeGo
  rw [filter_no_newline _ (b64Encode_no_newline b), b64Core_encode]

/-- canonicality on newline-free text -/
theorem b64Core_canonical : ∀ (s b : Bytes), b64DecodeCore s = some b → b64TailZero s = true →
    s = b64Encode b
  | c0 :: c1 :: c2 :: c3 :: rest, out, h, hz => by
    simp only [b64DecodeCore] at h
    cases h0 : b64Val c0 <;> simp only [h0] at h <;> try simp at h
    cases h1 : b64Val c1 <;> simp only [h1] at h <;> try simp at h
    cases h2 : b64Val c2 <;> simp only [h2] at h <;> try simp at h
    cases h3 : b64Val c3 <;> simp only [h3] at h <;> try simp at h
    cases hr : b64DecodeCore rest <;> simp only [hr] at h <;> try simp at h
    rename_i v0 v1 v2 v3 r
    subst h
    have l0 := b64Val_lt _ _ h0; have l1 := b64Val_lt _ _ h1
    have l2 := b64Val_lt _ _ h2; have l3 := b64Val_lt _ _ h3
    have ih := b64Core_canonical rest r hr (by simpa [b64TailZero] using hz)
    simp only [b64Encode, toNat_u8]
    have e0 : (v0 * 4 + v1 / 16) % 256 / 4 = v0 := by omega
    have e1 : (v0 * 4 + v1 / 16) % 256 % 4 * 16 + (v1 % 16 * 16 + v2 / 4) % 256 / 16 = v1 := by omega
    have e2 : (v1 % 16 * 16 + v2 / 4) % 256 % 16 * 4 + (v2 % 4 * 64 + v3) % 256 / 64 = v2 := by omega
    have e3 : (v2 % 4 * 64 + v3) % 256 % 64 = v3 := by omega
    rw [e0, e1, e2, e3, b64Char_of_val _ _ h0, b64Char_of_val _ _ h1, b64Char_of_val _ _ h2,
      b64Char_of_val _ _ h3, ← ih]
  | [c0, c1, c2], out, h, hz => by
    simp only [b64DecodeCore] at h
    cases h0 : b64Val c0 <;> simp only [h0] at h <;> try simp at h
    cases h1 : b64Val c1 <;> simp only [h1] at h <;> try simp at h
    cases h2 : b64Val c2 <;> simp only [h2] at h <;> try simp at h
    rename_i v0 v1 v2
    subst h
    have l0 := b64Val_lt _ _ h0; have l1 := b64Val_lt _ _ h1; have l2 := b64Val_lt _ _ h2
    have hz2 : v2 % 4 = 0 := by simpa [b64TailZero, h2] using hz
    simp only [b64Encode, toNat_u8]
    have e0 : (v0 * 4 + v1 / 16) % 256 / 4 = v0 := by omega
    have e1 : (v0 * 4 + v1 / 16) % 256 % 4 * 16 + (v1 % 16 * 16 + v2 / 4) % 256 / 16 = v1 := by omega
    have e2 : (v1 % 16 * 16 + v2 / 4) % 256 % 16 * 4 = v2 := by omega
    rw [e0, e1, e2, b64Char_of_val _ _ h0, b64Char_of_val _ _ h1, b64Char_of_val _ _ h2]
  | [c0, c1], out, h, hz => by
    simp only [b64DecodeCore] at h
    cases h0 : b64Val c0 <;> simp only [h0] at h <;> try simp at h
    cases h1 : b64Val c1 <;> simp only [h1] at h <;> try simp at h
    rename_i v0 v1
    subst h
    have l0 := b64Val_lt _ _ h0; have l1 := b64Val_lt _ _ h1
    have hz1 : v1 % 16 = 0 := by simpa [b64TailZero, h1] using hz
    simp only [b64Encode, toNat_u8]
    have e0 : (v0 * 4 + v1 / 16) % 256 / 4 = v0 := by omega
    have e1 : (v0 * 4 + v1 / 16) % 256 % 4 * 16 = v1 := by omega
    rw [e0, e1, b64Char_of_val _ _ h0, b64Char_of_val _ _ h1]
  | [_], out, h, _ => by simp [b64DecodeCore] at h
  | [], out, h, _ => by simp [b64DecodeCore] at h; subst h; rfl

/-- canonicality: text without `\r`/`\n` and with zero trailing bits that
    decodes is the encoding of what it decodes to -/
theorem b64_canonical (s b : Bytes) (h : b64DecodeGo s = some b) (hs : B64Strict s) :
    s = b64Encode b := by
  unfold b64DecodeGo at h
  rw [filter_no_newline _ hs.1] at h
  exact b64Core_canonical s b h hs.2

theorem b64Encode_inj (a b : Bytes) (h : b64Encode a = b64Encode b) : a = b := by
  have := congrArg b64DecodeGo h
  simpa [b64Decode_encode] using this

/-! ### integers -/

theorem fromLE_le64 (n : Nat) (h : n < 2^64) (rest : Bytes) : readU64 (le64 n ++ rest) = n := by
  simp only [readU64, le64, List.cons_append, List.nil_append, List.take, fromLE, toNat_u8]
  omega

theorem le64_length (n : Nat) : (le64 n).length = 8 := rfl

theorem toI64_ofI64 (x : Int) (h : InI64 x) : toI64 (ofI64 x) = x := by
  unfold toI64 ofI64
  unfold InI64 at h
  split <;> omega

theorem ofI64_lt (x : Int) : ofI64 x < 2^64 := by
  unfold ofI64; omega

theorem toI64_in (v : Nat) (h : v < 2^64) : InI64 (toI64 v) := by
  unfold toI64 InI64; split <;> omega

theorem ofI64_toI64 (v : Nat) (h : v < 2^64) : ofI64 (toI64 v) = v := by
  unfold toI64 ofI64; split <;> omega

theorem fromLE_lt : ∀ (bs : Bytes), fromLE bs < 256 ^ bs.length
  | [] => by simp [fromLE]
  | b :: bs => by
    have := fromLE_lt bs
    have hb := b.toNat_lt
    simp only [fromLE, List.length_cons, Nat.pow_succ]
    omega

theorem readU64_lt (bs : Bytes) : readU64 bs < 2^64 := by
  unfold readU64
  have h := fromLE_lt (bs.take 8)
  have hl : (bs.take 8).length ≤ 8 := by simp [List.length_take]; omega
  have : 256 ^ (bs.take 8).length ≤ 256 ^ 8 := Nat.pow_le_pow_right (by decide) hl
  have e : (256:Nat) ^ 8 = 2 ^ 64 := by decide
  omega


theorem le64_fromLE8 (b0 b1 b2 b3 b4 b5 b6 b7 : UInt8) :
    le64 (fromLE [b0, b1, b2, b3, b4, b5, b6, b7]) = [b0, b1, b2, b3, b4, b5, b6, b7] := by
  have h0 := b0.toNat_lt; have h1 := b1.toNat_lt; have h2 := b2.toNat_lt; have h3 := b3.toNat_lt
  have h4 := b4.toNat_lt; have h5 := b5.toNat_lt; have h6 := b6.toNat_lt; have h7 := b7.toNat_lt
  simp only [le64, fromLE]
  have e : ∀ (n : Nat) (b : UInt8), n % 256 = b.toNat → u8 n = b := by
    intro n b h
    apply UInt8.toNat_inj.mp
    rw [toNat_u8, h]
  rw [e _ b0 (by omega), e _ b1 (by omega), e _ b2 (by omega), e _ b3 (by omega),
    e _ b4 (by omega), e _ b5 (by omega), e _ b6 (by omega), e _ b7 (by omega)]

theorem le64_readU64 : ∀ (bs : Bytes), 8 ≤ bs.length → le64 (readU64 bs) ++ bs.drop 8 = bs
  | b0 :: b1 :: b2 :: b3 :: b4 :: b5 :: b6 :: b7 :: rest, _ => by
    simp only [readU64, List.take, List.drop]
    rw [le64_fromLE8]
    simp
  | [], h | [_], h | [_, _], h | [_, _, _], h | [_, _, _, _], h | [_, _, _, _, _], h
  | [_, _, _, _, _, _], h | [_, _, _, _, _, _, _], h => by simp at h
end PubModel.C16
