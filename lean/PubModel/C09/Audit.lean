import PubModel.C09.Theorems
open PubModel.C07 PubModel.C09
#print axioms pinned_toJSON_neg_float
#print axioms pinned_toJSON_hex
#print axioms pinned_toJSON_octal
#print axioms fixed_toJSON_examples
#print axioms gen_signed_float
#print axioms gen_int_conv
#print axioms gen_cfg_ok
