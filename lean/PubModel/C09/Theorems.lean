/-
C09 — property theorems (first layer: pinned witnesses).  The model is shared
with C07 (`PubModel/C07/*`).
-/
import PubModel.C07.Demo
import PubModel.C07.Obligations

namespace PubModel.C09
open PubModel.C07

/-! ### the pinned tree violates the property: concrete witnesses -/

/-- pinned: `-1.5` is accepted and `-null` is emitted, which is not JSON -/
theorem pinned_toJSON_neg_float :
    toJSON pinnedCfg demoLeaf (str "-1.5") = .ok (str "-null") ∧ isJson (str "-null") = false := by decide

/-- pinned: Go-style integers are emitted verbatim, which is not JSON -/
theorem pinned_toJSON_hex :
    toJSON pinnedCfg demoLeaf (str "0x10") = .ok (str "0x10") ∧ isJson (str "0x10") = false := by decide
theorem pinned_toJSON_octal :
    toJSON pinnedCfg demoLeaf (str "007") = .ok (str "007") ∧ isJson (str "007") = false := by decide

/-- repaired: they denote their Go value -/
theorem fixed_toJSON_examples :
    toJSON fixedCfg demoLeaf (str "-1.5") = .ok (str "-1.5") ∧
    toJSON fixedCfg demoLeaf (str "0x10") = .ok (str "16") ∧
    toJSON fixedCfg demoLeaf (str "007") = .ok (str "7") ∧
    toJSON fixedCfg demoLeaf (str "089") = .err "" := by decide

end PubModel.C09
