/-
C09 — property theorems.  The model is shared with C07 (`PubModel/C07/*`).

Property: whenever JSONx accepts an input, the JSON it emits is valid and
denotes the value the input denotes (plain JSON: what a standard parser reads;
extensions: their documented value); Unmarshal/ReadFile report trailing content.

`RV` (PubModel/C07/Surface.lean) is the surface tree of a document: every
rendering of a JSON value under JSONx surface choices is `r.toks` for some `r`
(sign, decimal/hex/octal integer literal, any float literal, raw or Go-escaped
string literal, bare or quoted key, trailing comma, dotted identifier list);
white space, comments and newline separators are gone at this level (lexer,
comment remover, semicolon inserter).  `r.val` is the documented meaning and
`emit` the canonical JSON text of a meaning.
-/
import PubModel.C07.Theorems
import PubModel.C07.LemmasJson
import PubModel.C07.LemmasSound
import PubModel.C07.LemmasTokens

namespace PubModel.C09
open PubModel.C07

section
variable {φ : Type} (cfg : Cfg) (hcfg : CfgOK cfg) (L : Leaf φ)
include hcfg

/-- **toJSON_denotes, rendered documents** (the direction "every rendering is accepted
    with its meaning"; kept under its old name): for every surface tree `r` whose leaves the
    delegated functions accept, `ToJSON` succeeds and emits the canonical JSON text of the
    documented meaning of `r` — Go-style integers by their Go value (`go_integer_denotes`),
    floats as `strconv.ParseFloat` reads them, strings as `strconv.Unquote` reads them, bare
    keys as their spelling, dotted identifier lists as arrays of strings; the sign `+` is
    dropped and `-` kept.  The converse, for every accepted input, is `toJSON_denotes`. -/
theorem toJSON_denotes_partial (r : RV) (j : JV (Num φ)) (hv : r.val L = some j) (hw : r.WF)
    (rest : List Tok) (hf : FollowOK rest) :
    toJSONToks cfg L (plain (r.toks ++ rest)) = .ok (emit L j) :=
  parse_render cfg hcfg L r j hv hw rest hf

/-- **toJSON_denotes**: *whenever* JSONx accepts an input — any character string — the
    parser's token stream of that input is the token stream of a surface tree `r` followed
    by what ToJSON leaves unread, and the emitted text is the canonical JSON text of the
    documented meaning of `r`.  (Induction over the parser with the invariant "no error so
    far", `toJSONToks_sound`; the lexer, semicolon inserter, keyworder and comment remover
    enter through `tokens`.) -/
theorem toJSON_denotes (cs : Chars) (out : Chars) (h : toJSON cfg L cs = .ok out) :
    ∃ (r : RV) (j : JV (Num φ)) (rest : List Tok),
      (tokens cfg cs).map (·.tok) = r.toks ++ rest ∧ r.WF ∧ r.val L = some j ∧ out = emit L j :=
  toJSONToks_sound cfg hcfg L (tokens cfg cs) out h

/-- the same for `Unmarshal`: the text handed to `encoding/json` is the canonical JSON
    text of the meaning of the surface tree that was read -/
theorem unmarshal_denotes (cs : Chars) (out : Chars) (h : unmarshal cfg L cs = .ok out) :
    ∃ (r : RV) (j : JV (Num φ)) (rest : List Tok),
      (tokens cfg cs).map (·.tok) = r.toks ++ rest ∧ r.WF ∧ r.val L = some j ∧ out = emit L j :=
  unmarshalToks_sound cfg hcfg L (tokens cfg cs) out h

/-- **toJSON_valid_accepted**: *whenever* JSONx accepts an input, what it emits is an
    RFC 8259 JSON text, under the contracts of `encoding/json`'s leaf encoders (`JsonLeaf`).
    Every float token the lexer makes starts with a digit (`tokens_floatDigit`), which is
    the domain on which the float contract is stated. -/
theorem toJSON_valid_accepted (hL : JsonLeaf L) (cs : Chars) (out : Chars) (h : toJSON cfg L cs = .ok out) :
    JsonText out := by
  obtain ⟨r, j, rest, htoks, _, hv, hout⟩ := toJSON_denotes cfg hcfg L cs out h
  have hfl : r.FloatLits := by
    apply floatLits_of_toks
    intro t ht
    have hmem : t ∈ (tokens cfg cs).map (·.tok) := by rw [htoks]; simp [ht]
    obtain ⟨x, hx, rfl⟩ := List.mem_map.1 hmem
    exact tokens_floatDigit cfg cs x hx
  rw [hout]
  exact emit_jsonText L hL.str_ok j (val_valid L hL r j hfl hv)

/-- **toJSON_valid**: the emitted text is an RFC 8259 JSON text (`JsonText`: the grammar
    of RFC 8259 sections 2-7 over the decidable number and string grammars), for every
    rendered document, under the contracts of `encoding/json`'s leaf encoders
    (`JsonLeaf`: a marshalled string is a JSON string, a marshalled non-negative
    float64 an unsigned JSON number — validated by the harness on every run).
    Integers are emitted as the decimal numeral of their Go value, which is a JSON
    number (`natChars_json`); the sign is `-` or nothing. -/
theorem toJSON_valid (hL : JsonLeaf L) (r : RV) (j : JV (Num φ)) (hv : r.val L = some j) (hw : r.WF)
    (hfl : r.FloatLits) (rest : List Tok) (hf : FollowOK rest) :
    ∃ out, toJSONToks cfg L (plain (r.toks ++ rest)) = .ok out ∧ JsonText out :=
  ⟨emit L j, parse_render cfg hcfg L r j hv hw rest hf,
    emit_jsonText L hL.str_ok j (val_valid L hL r j hfl hv)⟩

/-- **Trailing content is an error**: a complete value followed by a token that is
    neither a separator nor end of file makes Unmarshal/ReadFile fail ... -/
theorem unmarshal_rejects_trailing (r : RV) (j : JV (Num φ)) (hv : r.val L = some j) (hw : r.WF)
    (t : Tok) (more : List Tok) (h1 : t.ty ≠ .semi) (h2 : t.ty ≠ .eof) (h3 : t ≠ tokOp '.') :
    unmarshalToks cfg L (plain (r.toks ++ t :: more)) = .err "more" := by
  have hs : (r.val L).isSome = true := by simp [hv]
  have hn : r.size ≤ (plain (r.toks ++ t :: more)).length + 2 := by
    have := RV.size_le r; simp [plain]; omega
  have hf : FollowOK (t :: more) := by simpa [FollowOK] using h3
  have hp := parseValue_render cfg hcfg L r hs hw _ hf _ hn
  have he := encodeValue_ast cfg hcfg L r j hv
  simp only [unmarshalToks, decodeToks, init_plain, hp]
  simp [he, PS.see, h1, h2]

/-- ... and so does anything but end of file after the one separator Decode skips -/
theorem unmarshal_rejects_trailing_after_separator (r : RV) (j : JV (Num φ)) (hv : r.val L = some j)
    (hw : r.WF) (l : Chars) (t : Tok) (more : List Tok) (h2 : t.ty ≠ .eof) :
    unmarshalToks cfg L (plain (r.toks ++ ⟨.semi, l⟩ :: t :: more)) = .err "more" := by
  have hs : (r.val L).isSome = true := by simp [hv]
  have hn : r.size ≤ (plain (r.toks ++ ⟨.semi, l⟩ :: t :: more)).length + 2 := by
    have := RV.size_le r; simp [plain]; omega
  have hf : FollowOK (⟨.semi, l⟩ :: t :: more) := by simp [FollowOK, tokOp]
  have hp := parseValue_render cfg hcfg L r hs hw _ hf _ hn
  have he := encodeValue_ast cfg hcfg L r j hv
  simp only [unmarshalToks, decodeToks, init_plain, hp]
  simp [he, PS.see, h2]

/-- a malformed Go-style integer (`089`, `0x`) is reported, not emitted -/
theorem toJSON_rejects_malformed_integer (lit : Chars) (h : goInt lit = none) (rest : List Tok) :
    toJSONToks cfg L (plain (⟨.int, lit⟩ :: rest)) = .err "" := by
  have hlen : (plain (⟨.int, lit⟩ :: rest)).length + 2 = (rest.length + 2) + 1 := by simp [plain]
  have hp : parseValue cfg L ((rest.length + 2) + 1) (mkPS (⟨.int, lit⟩ :: rest)) =
      (.basic none .int lit false, mkPS rest) := by
    rw [parseValue]; simp
  simp only [toJSONToks, init_plain, hlen, hp]
  simp [encodeValue, encodeBasic, hcfg.intConv, h]

end

section
variable {φ : Type} (L : Leaf φ)

/-- **Go-style integers denote their Go value** (`big.Int.SetString(lit, 0)`), under either sign -/
theorem go_integer_denotes (lead : Option Char) (lit : Chars) (n : Nat) (h : goInt lit = some n) :
    (RV.int lead lit).val L = some (.num (isNeg lead) (.int n)) := by
  simp [RV.val, h]

example : goInt (str "0x10") = some 16 ∧ goInt (str "007") = some 7 ∧ goInt (str "0xdeadBEEF") = some 3735928559 ∧
    goInt (str "0") = some 0 ∧ goInt (str "00") = some 0 ∧ goInt (str "18446744073709551616") = some 18446744073709551616 ∧
    goInt (str "089") = none ∧ goInt (str "0x") = none := by decide

/-- the other literal forms `big.Int.SetString(lit, 0)` understands — binary and `0o` octal
    prefixes, upper-case prefix letters, `_` separators — are modelled too (the leaf
    contract is checked on them on every run) ... -/
example : goInt (str "0b101") = some 5 ∧ goInt (str "0B1") = some 1 ∧ goInt (str "0o17") = some 15 ∧
    goInt (str "0X1f") = some 31 ∧ goInt (str "1_000") = some 1000 ∧ goInt (str "0x_1") = some 1 ∧
    goInt (str "0_7") = some 7 ∧ goInt (str "0b2") = none ∧ goInt (str "1__0") = none ∧ goInt (str "_1") = none ∧
    goInt (str "1_") = none ∧ goInt (str "0_") = none ∧ goInt (str "12a") = none := by decide

/-- ... but `LexNumber` never makes such a token: an integer token is decimal digits or
    `0x` + hex digits, so `0b1`, `0o7`, `0X1`, `1_000`, `0x_1` are an integer token
    followed by an identifier, and `Unmarshal` reports the trailing token -/
theorem int_token_forms :
    lexNumber fixedCfg.expSigns (str "0b1") = (⟨.int, str "0"⟩, str "b1") ∧
    lexNumber fixedCfg.expSigns (str "0o7") = (⟨.int, str "0"⟩, str "o7") ∧
    lexNumber fixedCfg.expSigns (str "0X1") = (⟨.int, str "0"⟩, str "X1") ∧
    lexNumber fixedCfg.expSigns (str "1_000") = (⟨.int, str "1"⟩, str "_000") ∧
    lexNumber fixedCfg.expSigns (str "0x_1") = (⟨.int, str "0x"⟩, str "_1") ∧
    toJSON fixedCfg demoLeaf (str "0b1") = .ok (str "0") ∧
    unmarshal fixedCfg demoLeaf (str "0b1") = .err "more" ∧
    unmarshal fixedCfg demoLeaf (str "1_000") = .err "more" ∧
    toJSON fixedCfg demoLeaf (str "0x_1") = .err "" := by decide

/-! ### plain JSON keeps its standard meaning -/

mutual
/-- a surface tree that uses no extension: RFC 8259 numbers with at most a `-`,
    quoted keys, no trailing comma, no identifier list -/
def Plain : RV → Prop
  | .int lead lit => (lead = none ∨ lead = some '-') ∧ isJsonUNum lit = true ∧ isIntLit lit = true
  | .flt lead lit => (lead = none ∨ lead = some '-') ∧ isJsonUNum lit = true
  | .arr xs => PlainL xs
  | .obj kvs => PlainO kvs
  | .idents _ _ => False
  | _ => True
def PlainL : RL → Prop
  | .nil => True
  | .single v => Plain v
  | .cons v t => Plain v ∧ PlainL t ∧ t ≠ .nil
def PlainO : RO → Prop
  | .nil => True
  | .single k v => (∃ lit, k = .quoted lit) ∧ Plain v
  | .cons k v t => (∃ lit, k = .quoted lit) ∧ Plain v ∧ PlainO t ∧ t ≠ .nil
end

mutual
/-- the standard reading of a plain tree: integer literals are decimal -/
def stdVal : RV → Option (JV (Num φ))
  | .null => some .null
  | .tru => some (.bool true)
  | .fls => some (.bool false)
  | .int lead lit => some (.num (isNeg lead) (.int (decVal lit)))
  | .flt lead lit => (L.parseFloat lit).map fun f => .num (isNeg lead) (.flt f)
  | .str lit => (L.unquote lit).map .str
  | .arr xs => (stdValL xs).map .arr
  | .obj kvs => (stdValO kvs).map .obj
  | .idents _ _ => none
def stdValL : RL → Option (JL (Num φ))
  | .nil => some .nil
  | .single v => (stdVal v).map fun j => .cons j .nil
  | .cons v t =>
    match stdVal v, stdValL t with
    | some j, some js => some (.cons j js)
    | _, _ => none
def stdValO : RO → Option (JO (Num φ))
  | .nil => some .nil
  | .single k v =>
    match keyVal L k, stdVal v with
    | some kb, some j => some (.cons kb j .nil)
    | _, _ => none
  | .cons k v t =>
    match keyVal L k, stdVal v, stdValO t with
    | some kb, some j, some js => some (.cons kb j js)
    | _, _, _ => none
end

mutual
/-- **plain_json_agrees**: on a document that is plain JSON the documented JSONx
    meaning is the standard one — in particular an RFC 8259 integer is never
    misread as octal or hex.  (That `strconv.Unquote` and a JSON parser read a string
    literal both accept alike is a contract of the `unquote` leaf, validated by the
    harness on RFC 8259 texts.) -/
theorem plain_json_agrees : ∀ (r : RV), Plain r → r.val L = stdVal L r
  | .null, _ => rfl
  | .tru, _ => rfl
  | .fls, _ => rfl
  | .int lead lit, h => by simp [RV.val, stdVal, goInt_json lit h.2.1 h.2.2]
  | .flt _ _, _ => rfl
  | .str _, _ => rfl
  | .arr xs, h => by simp [RV.val, stdVal, plain_json_agreesL xs h]
  | .obj kvs, h => by simp [RV.val, stdVal, plain_json_agreesO kvs h]
  | .idents _ _, h => absurd h (by simp [Plain])
theorem plain_json_agreesL : ∀ (xs : RL), PlainL xs → xs.val L = stdValL L xs
  | .nil, _ => rfl
  | .single v, h => by simp [RL.val, stdValL, plain_json_agrees v h]
  | .cons v t, h => by
    have h1 := plain_json_agrees v h.1
    have h2 := plain_json_agreesL t h.2.1
    simp only [RL.val, stdValL, h1, h2]
    cases stdVal L v <;> cases stdValL L t <;> rfl
theorem plain_json_agreesO : ∀ (kvs : RO), PlainO kvs → kvs.val L = stdValO L kvs
  | .nil, _ => rfl
  | .single k v, h => by
    have h1 := plain_json_agrees v h.2
    simp only [RO.val, stdValO, h1]
    cases keyVal L k <;> cases stdVal L v <;> rfl
  | .cons k v t, h => by
    have h1 := plain_json_agrees v h.2.1
    have h2 := plain_json_agreesO t h.2.2.1
    simp only [RO.val, stdValO, h1, h2]
    cases keyVal L k <;> cases stdVal L v <;> cases stdValO L t <;> rfl
end

end

/-! ### non-vacuity -/

/-- `{"a": [1, -2.5e+3, "x"], "b": {}}` as a plain tree -/
def plainTree : RV :=
  .obj (.cons (.quoted (str "\"a\"")) (.arr (.cons (.int none (str "1")) (.cons (.flt (some '-') (str "2.5e+3"))
      (.single (.str (str "\"x\""))))))
    (.single (.quoted (str "\"b\"")) (.obj .nil)))

example : Plain plainTree := by
  simp [plainTree, Plain, PlainO, PlainL]
  decide

example : toJSONToks fixedCfg demoLeaf (plain (plainTree.toks ++ [eofTok])) =
    .ok (str "{\"a\":[1,-2.5e+3,\"x\"],\"b\":{}}") := by decide

example : unmarshalToks fixedCfg demoLeaf (plain (plainTree.toks ++ [tokOp ',', eofTok])) = .err "more" := by decide
example : unmarshal fixedCfg demoLeaf (str "{a: 1} 2") = .err "more" ∧
    unmarshal fixedCfg demoLeaf (str "{a: 1}\n// done\n") = .ok (str "{\"a\":1}") := by decide

/-- a leaf instance that satisfies the `encoding/json` contracts (every string is
    marshalled as `"s"`, floats keep their literal) -/
def constLeaf : Leaf Chars where
  unquote lit := some (identBytes lit)
  quote bs := bytesChars bs
  jsonStr _ := str "\"s\""
  parseFloat lit := if isJsonUNum lit then some lit else none
  jsonFloat lit := lit
  fmtFloat _ _ lit := lit

theorem constLeaf_json : JsonLeaf constLeaf where
  str_ok _ := by show isJsonStr (str "\"s\"") = true; decide
  float_ok lit f _ h := by
    by_cases hl : isJsonUNum lit = true
    · simp [constLeaf, hl] at h; subst h; exact hl
    · simp [constLeaf, hl] at h

example : plainTree.FloatLits ∧ demoTree.FloatLits := by
  simp [plainTree, demoTree, RV.FloatLits, RO.FloatLits, RL.FloatLits]
  decide

example : ∃ out, toJSONToks fixedCfg constLeaf (plain (demoTree.toks ++ [eofTok])) = .ok out ∧ JsonText out :=
  toJSON_valid fixedCfg fixedCfg_ok constLeaf constLeaf_json demoTree _ rfl
    (by simp [demoTree, RV.WF, RO.WF, RL.WF, leadOK])
    (by simp [demoTree, RV.FloatLits, RO.FloatLits, RL.FloatLits]; decide) _ (by simp [FollowOK, tokOp, eofTok])

/-- `toJSON_denotes` and `toJSON_valid_accepted` applied to an accepted text with comments,
    newlines, a bare key, a hex integer and a trailing comma -/
example : ∃ (r : RV) (j : JV (Num Chars)) (rest : List Tok),
    (tokens fixedCfg (str "{a: -0x10, // c\n \"b\": [1.5e+3,],}")).map (·.tok) = r.toks ++ rest ∧ r.WF ∧
    r.val demoLeaf = some j ∧ str "{\"a\":-16,\"b\":[1.5e+3]}" = emit demoLeaf j :=
  toJSON_denotes fixedCfg fixedCfg_ok demoLeaf _ _ (by decide)

example : JsonText (str "{\"s\":-16,\"s\":[1.5e+3]}") :=
  toJSON_valid_accepted fixedCfg fixedCfg_ok constLeaf constLeaf_json
    (str "{a: -0x10, // c\n `b`: [1.5e+3,],}") _ (by decide)

/-! ### the pinned tree violates the property: concrete witnesses -/

/-- pinned: `-1.5` is accepted and `-null` is emitted, which is not JSON -/
theorem pinned_toJSON_neg_float :
    toJSON pinnedCfg demoLeaf (str "-1.5") = .ok (str "-null") ∧ isJson (str "-null") = false := by decide

/-- pinned: Go-style integers are emitted verbatim, which is not JSON -/
theorem pinned_toJSON_hex :
    toJSON pinnedCfg demoLeaf (str "0x10") = .ok (str "0x10") ∧ isJson (str "0x10") = false := by decide
theorem pinned_toJSON_octal :
    toJSON pinnedCfg demoLeaf (str "007") = .ok (str "007") ∧ isJson (str "007") = false := by decide

/-- repaired: they denote their Go value, malformed ones are reported -/
theorem fixed_toJSON_examples :
    toJSON fixedCfg demoLeaf (str "-1.5") = .ok (str "-1.5") ∧
    toJSON fixedCfg demoLeaf (str "0x10") = .ok (str "16") ∧
    toJSON fixedCfg demoLeaf (str "007") = .ok (str "7") ∧
    toJSON fixedCfg demoLeaf (str "089") = .err "" ∧
    isJson (str "[-1.5]") = true := by decide

end PubModel.C09
