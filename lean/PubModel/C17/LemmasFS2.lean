/-
C17 — what an extraction changes in the file system: only paths at or below the
destination, plus missing ancestors of the destination created as directories.
-/
import PubModel.C17.LemmasFS

namespace PubModel.C17

/-- every path whose state differs between `fs` and `fs'` is at or below `D`, or is
    an ancestor of `D` that did not exist and now is a directory -/
def ChgUnder (D : List Seg) (fs fs' : FS) : Prop :=
  ∀ q, stat fs' q ≠ stat fs q → D <+: q ∨ (q <+: D ∧ stat fs q = none ∧ isDirAt fs' q = true)

theorem chg_refl (D : List Seg) (fs : FS) : ChgUnder D fs fs := by
  intro q h; exact absurd rfl h

theorem chg_trans (D : List Seg) (a b c : FS) (h1 : ChgUnder D a b) (h2 : ChgUnder D b c) :
    ChgUnder D a c := by
  intro q hq
  by_cases hab : stat b q = stat a q
  · have hcb : stat c q ≠ stat b q := by rw [hab]; exact hq
    rcases h2 q hcb with h | ⟨hp, hn, hd⟩
    · exact Or.inl h
    · exact Or.inr ⟨hp, by rw [← hab]; exact hn, hd⟩
  · rcases h1 q hab with h | ⟨hp, hn, hd⟩
    · exact Or.inl h
    · by_cases hcb : stat c q = stat b q
      · refine Or.inr ⟨hp, hn, ?_⟩
        unfold isDirAt at hd ⊢; rw [hcb]; exact hd
      · rcases h2 q hcb with h | ⟨_, hn2, _⟩
        · exact Or.inl h
        · unfold isDirAt at hd; rw [hn2] at hd; simp at hd

theorem lookup_map_replace (p q : List Seg) (n : Node) : ∀ (fs : FS),
    List.lookup q (fs.map (fun e => if e.1 = p then (p, n) else e)) =
      if q = p then (List.lookup p fs).map (fun _ => n) else List.lookup q fs := by
  intro fs
  induction fs with
  | nil => simp
  | cons e rest ih =>
    obtain ⟨k, m⟩ := e
    by_cases hk : k = p
    · subst hk
      simp only [List.map_cons, if_true]
      rw [lookup_cons_eq, ih]
      by_cases hq : q = k
      · subst hq; simp [lookup_cons_eq]
      · simp [hq, lookup_cons_eq]
    · simp only [List.map_cons, hk, if_false]
      rw [lookup_cons_eq, ih]
      by_cases hq : q = k
      · subst hq
        have : q ≠ p := hk
        simp [this, lookup_cons_eq]
      · by_cases hqp : q = p
        · subst hqp
          have : q ≠ k := hq
          simp [lookup_cons_eq, this]
        · simp [hq, hqp, lookup_cons_eq]

/-- `setNode` changes the state of its path only -/
theorem stat_setNode_other (fs : FS) (p q : List Seg) (n : Node) (h : q ≠ p) :
    stat (setNode fs p n) q = stat fs q := by
  unfold stat
  by_cases hq : q = []
  · simp [hq]
  · simp only [hq, if_false]
    unfold setNode
    split
    · rw [lookup_map_replace]; simp [h]
    · rw [List.lookup_append]
      cases hl : List.lookup q fs with
      | some x => rfl
      | none => simp [lookup_cons_eq, h]

theorem stat_append_single (fs : FS) (p q : List Seg) (n : Node) (h : q ≠ p) :
    stat (fs ++ [(p, n)]) q = stat fs q := by
  unfold stat
  by_cases hq : q = []
  · simp [hq]
  · simp only [hq, if_false]
    rw [List.lookup_append]
    cases hl : List.lookup q fs with
    | some x => rfl
    | none => simp [lookup_cons_eq, h]

theorem prefix_concat_ne (base q : List Seg) (s : Seg) (h : base ++ [s] <+: q) : q ≠ base := by
  intro e
  have := h.length_le
  rw [e] at this
  simp at this
  omega

/-- what `MkdirAll` changes: paths between `base` and `base ++ rest` that did not
    exist, and they become directories -/
theorem mkdirFrom_chg (perm : Nat) : ∀ (rest base : List Seg) (fs fs' : FS),
    mkdirFrom fs base rest perm = some fs' →
    ∀ q, stat fs' q ≠ stat fs q →
      (base <+: q ∧ q <+: base ++ rest ∧ q ≠ base) ∧ stat fs q = none ∧ isDirAt fs' q = true := by
  intro rest
  induction rest with
  | nil =>
    intro base fs fs' h q hq
    simp [mkdirFrom] at h
    subst h; exact absurd rfl hq
  | cons s rest ih =>
    intro base fs fs' h q hq
    unfold mkdirFrom at h
    have hassoc : base ++ [s] ++ rest = base ++ s :: rest := by simp
    cases hs : stat fs (base ++ [s]) with
    | some n =>
      cases n with
      | file _ _ => simp [hs] at h
      | dir _ =>
        simp only [hs] at h
        obtain ⟨⟨h1, h2, _⟩, h4, h5⟩ := ih (base ++ [s]) fs fs' h q hq
        refine ⟨⟨(List.prefix_append base [s]).trans h1, by rw [← hassoc]; exact h2, prefix_concat_ne base q s h1⟩, h4, h5⟩
    | none =>
      simp only [hs] at h
      by_cases hq1 : stat fs' q = stat (fs ++ [(base ++ [s], Node.dir perm)]) q
      · -- the change is the appended directory itself
        have hqb : q = base ++ [s] := by
          apply Classical.byContradiction
          intro hne
          apply hq
          rw [hq1, stat_append_single _ _ _ _ hne]
        subst hqb
        refine ⟨⟨List.prefix_append base [s], ?_, ?_⟩, hs, ?_⟩
        · rw [← hassoc]; exact List.prefix_append _ _
        · intro e
          have := congrArg List.length e
          simp at this
        · unfold isDirAt
          rw [hq1]
          have hnn : base ++ [s] ≠ [] := by simp
          have hl : List.lookup (base ++ [s]) fs = none := by simpa [stat, hnn] using hs
          simp [stat, hnn, List.lookup_append, hl, lookup_cons_eq]
      · obtain ⟨⟨h1, h2, _⟩, h4, h5⟩ := ih (base ++ [s]) _ fs' h q hq1
        refine ⟨⟨(List.prefix_append base [s]).trans h1, by rw [← hassoc]; exact h2, prefix_concat_ne base q s h1⟩, ?_, h5⟩
        have hne : q ≠ base ++ [s] := by
          intro e
          subst e
          have hnn : base ++ [s] ≠ [] := by simp
          have hl : List.lookup (base ++ [s]) fs = none := by simpa [stat, hnn] using hs
          simp [stat, hnn, List.lookup_append, hl, lookup_cons_eq] at h4
        rw [← stat_append_single fs (base ++ [s]) q (Node.dir perm) hne]
        exact h4

/-- `MkdirAll(p)` for a path at or below `D`, or above it, changes as `ChgUnder D` allows -/
theorem mkdirAll_chg (D p : List Seg) (perm : Nat) (fs fs' : FS)
    (hp : ∃ R, D ++ R = p ∨ p <+: D) (h : mkdirAll fs p perm = some fs') : ChgUnder D fs fs' := by
  intro q hq
  obtain ⟨⟨_, h2, _⟩, h4, h5⟩ := mkdirFrom_chg perm p [] fs fs' h q hq
  simp only [List.nil_append] at h2
  obtain ⟨R, hR | hR⟩ := hp
  · subst hR
    rcases List.prefix_or_prefix_of_prefix h2 (List.prefix_append D R) with h | h
    · exact Or.inr ⟨h, h4, h5⟩
    · exact Or.inl h
  · exact Or.inr ⟨h2.trans hR, h4, h5⟩

theorem createChmod_chg (fs fs' : FS) (p : List Seg) (perm : Nat) (c : Bytes)
    (h : createChmod fs p perm c = some fs') : ∀ q, stat fs' q ≠ stat fs q → q = p := by
  intro q hq
  apply Classical.byContradiction
  intro hne
  apply hq
  unfold createChmod at h
  split at h
  · simp at h
  · split at h
    · simp at h
    · simp only [Option.some.injEq] at h
      subst h
      exact stat_setNode_other fs p q _ hne

theorem createKeep_chg (fs fs' : FS) (p : List Seg) (perm : Nat) (c : Bytes)
    (h : createKeep fs p perm c = some fs') : ∀ q, stat fs' q ≠ stat fs q → q = p := by
  intro q hq
  apply Classical.byContradiction
  intro hne
  apply hq
  unfold createKeep at h
  split at h
  · simp at h
  · split at h
    · simp at h
    · simp only [Option.some.injEq] at h
      subst h
      exact stat_setNode_other fs p q _ hne
    · simp only [Option.some.injEq] at h
      subst h
      exact stat_setNode_other fs p q _ hne

theorem chg_of_single (D p : List Seg) (fs fs' : FS) (hD : D <+: p)
    (h : ∀ q, stat fs' q ≠ stat fs q → q = p) : ChgUnder D fs fs' := by
  intro q hq
  rw [h q hq]
  exact Or.inl hD

theorem removeAll_chg (D : List Seg) (fs : FS) : ChgUnder D fs (removeAll fs D) := by
  intro q hq
  apply Classical.byContradiction
  intro hn
  apply hq
  have hnot : ¬ D <+: q := fun h => hn (Or.inl h)
  have hb : D.isPrefixOf q = false := by
    cases hb : D.isPrefixOf q with
    | false => rfl
    | true => exact absurd (List.isPrefixOf_iff_prefix.mp hb) hnot
  unfold stat removeAll
  by_cases hq0 : q = []
  · simp [hq0]
  · simp only [hq0, if_false]
    rw [lookup_filter_key (fun k => !D.isPrefixOf k) q fs]
    simp [hb]

theorem runEntries_chg {ε : Type} (D : List Seg) (f : FS → ε → Except XErr FS)
    (hf : ∀ fs e fs', f fs e = .ok fs' → ChgUnder D fs fs') :
    ∀ (es : List ε) (fs : FS) (i : Nat), ChgUnder D fs (runEntries f fs es i).1 := by
  intro es
  induction es with
  | nil => intro fs i; exact chg_refl D fs
  | cons e rest ih =>
    intro fs i
    unfold runEntries
    cases hfe : f fs e with
    | error x => exact chg_refl D fs
    | ok fs' => exact chg_trans D fs fs' _ (hf fs e fs' hfe) (ih fs' (i + 1))

theorem dropLast_under (D R : List Seg) : ∃ R', D ++ R' = (D ++ R).dropLast ∨ (D ++ R).dropLast <+: D := by
  by_cases hR : R = []
  · subst hR
    exact ⟨[], Or.inr (by simpa using List.dropLast_prefix D)⟩
  · obtain ⟨s, hs⟩ := exists_concat R hR
    refine ⟨R.dropLast, Or.inl ?_⟩
    rw [hs, ← List.append_assoc, List.dropLast_concat, List.dropLast_concat]

end PubModel.C17
