/-
C17 — the round trip, entry by entry.
-/
import PubModel.C17.LemmasRT

namespace PubModel.C17

/-- what the round trip needs of the file system the archive is extracted into:
    the destination `D` is not the root, nothing exists at or below it (it was
    cleared), every proper ancestor of it is a directory -/
structure Base (D : List Seg) (base : FS) : Prop where
  ne : D ≠ []
  empty : ∀ q, D <+: q → List.lookup q base = none
  anc : ∀ pre, pre <+: D → pre ≠ D → isDirAt base pre = true

theorem stat_ancestors (D : List Seg) (base : FS) (hb : Base D base) (t₁ : Tree) (r : List Seg)
    (hanc : ∀ pre, pre <+: r → pre ≠ r → ∃ perm, List.lookup pre t₁ = some (.dir perm)) :
    ∀ pre, pre <+: D ++ r → pre ≠ D ++ r → isDirAt (base ++ shift D t₁) pre = true := by
  intro pre hp hne
  by_cases hD : D <+: pre
  · obtain ⟨pre', rfl⟩ := hD
    have hp' : pre' <+: r := (List.prefix_append_right_inj D).mp hp
    have hne' : pre' ≠ r := fun e => hne (by rw [e])
    obtain ⟨perm, hl⟩ := hanc pre' hp' hne'
    have hnn : D ++ pre' ≠ [] := by
      intro e; exact hb.ne (List.append_eq_nil_iff.mp e).1
    unfold isDirAt stat
    simp only [hnn, if_false]
    rw [lookup_append_none _ _ _ (hb.empty _ (List.prefix_append D pre')), lookup_shift, hl]
  · have hpD : pre <+: D := by
      rcases List.prefix_or_prefix_of_prefix hp (List.prefix_append D r) with h | h
      · exact h
      · exact absurd h hD
    have : pre ≠ D := fun e => hD (by rw [e]; exact List.prefix_refl _)
    exact isDirAt_append _ _ _ (hb.anc pre hpD this)

theorem stat_new (D : List Seg) (base : FS) (hb : Base D base) (t₁ : Tree) (r : List Seg)
    (hnew : List.lookup r t₁ = none) : stat (base ++ shift D t₁) (D ++ r) = none := by
  have hnn : D ++ r ≠ [] := by
    intro e; exact hb.ne (List.append_eq_nil_iff.mp e).1
  unfold stat
  simp only [hnn, if_false]
  rw [lookup_append_none _ _ _ (hb.empty _ (List.prefix_append D r)), lookup_shift, hnew]

/-- **one entry of a `ZipDir` archive**: extracting it appends exactly the item,
    at its place below the destination, with its mode and content -/
theorem unzipEntry_zip (dir : Bytes) (base : FS) (hb : Base (clean dir).segs base)
    (t₁ : Tree) (x : List Seg × Node) (hx : entryOK t₁ x = true) :
    unzipEntry true dir (base ++ shift (clean dir).segs t₁) (zipEntryOf x) =
      .ok (base ++ shift (clean dir).segs t₁ ++ [((clean dir).segs ++ x.1, x.2)]) := by
  obtain ⟨hp, hnew, hanc, hroot⟩ := entryOK_facts t₁ x hx
  obtain ⟨r, n⟩ := x
  simp only at hp hnew hanc hroot ⊢
  generalize hD : (clean dir).segs = D at hb ⊢
  have hnn : D ++ r ≠ [] := by
    intro e; exact hb.ne (List.append_eq_nil_iff.mp e).1
  obtain ⟨s, hs⟩ := exists_concat (D ++ r) hnn
  have hdirs := stat_ancestors D base hb t₁ r hanc
  have hnone := stat_new D base hb t₁ r hnew
  have hpre : ∀ p, p <+: (D ++ r).dropLast → p ≠ [] →
      isDirAt (base ++ shift D t₁) ([] ++ p) = true := by
    intro p hpp _
    simp only [List.nil_append]
    exact hdirs p (hpp.trans (List.dropLast_prefix _)) (prefix_dropLast_ne p _ hpp hnn)
  cases n with
  | dir perm =>
    obtain ⟨t, ht1, ht2⟩ := target_of_zipEntry dir r hp true
    simp only [if_true] at ht1
    rw [hD] at ht2
    simp only [unzipEntry, zipEntryOf, ht1, ZEntry.isDir, Bool.true_or, if_true, ht2, mkdirAll]
    have hlast := mkdirFrom_last (base ++ shift D t₁) perm s (D ++ r).dropLast [] hpre
      (by simpa [← hs] using hnone)
    rw [hs, hlast]
    simp
  | file perm c =>
    have hr : r ≠ [] := by
      intro e; have := hroot e; simp [isDirNode] at this
    obtain ⟨t, ht1, ht2⟩ := target_of_zipEntry dir r hp false
    simp only [Bool.false_eq_true, if_false] at ht1
    rw [hD] at ht2
    have hnd : endsWithSep (relName r) = false := by
      simp only [relName, hr, if_false]
      exact joinSegs_not_endsWithSep r hr hp
    have hmk := mkdirFrom_exists (base ++ shift D t₁) 448 (D ++ r).dropLast [] hpre
    have hpar : isDirAt (base ++ shift D t₁) (D ++ r).dropLast = true :=
      hdirs _ (List.dropLast_prefix _) (prefix_dropLast_ne _ _ (List.prefix_refl _) hnn)
    have hl : List.lookup (D ++ r) (base ++ shift D t₁) = none := by
      simpa [stat, hnn] using hnone
    simp only [unzipEntry, zipEntryOf, ht1, ZEntry.isDir, hnd, Bool.or_self, Bool.false_eq_true, if_false,
      dirOf, ht2, mkdirAll, hmk, createChmod, hpar, Bool.not_true, hnone, setNode_new _ _ _ hl]

/-- the whole archive, from any point of the walk on -/
theorem runEntries_zip (dir : Bytes) (base : FS) (hb : Base (clean dir).segs base) :
    ∀ (rest t₁ : Tree) (i : Nat), treeOKFrom t₁ rest = true →
      runEntries (unzipEntry true dir) (base ++ shift (clean dir).segs t₁) (zipDir rest) i =
        (base ++ shift (clean dir).segs (t₁ ++ rest), none) := by
  intro rest
  induction rest with
  | nil => intro t₁ i _; simp [zipDir, runEntries]
  | cons x rest ih =>
    intro t₁ i h
    simp only [treeOKFrom, Bool.and_eq_true] at h
    have hstep := unzipEntry_zip dir base hb t₁ x h.1
    simp only [zipDir, List.map_cons, runEntries, hstep]
    have := ih (t₁ ++ [x]) (i + 1) h.2
    simp only [shift_append, zipDir] at this ⊢
    simpa [shift, List.append_assoc] using this

/-- what is below `D` in `base ++ shift D t`, relative to `D`, is `t` -/
theorem subtree_shift (D : List Seg) (base : FS) (hempty : ∀ q, D <+: q → List.lookup q base = none)
    (t : Tree) : subtree (base ++ shift D t) D = t := by
  unfold subtree
  rw [List.filterMap_append]
  have h1 : base.filterMap (fun e => if D.isPrefixOf e.1 then some (e.1.drop D.length, e.2) else none) = [] := by
    rw [List.filterMap_eq_nil_iff]
    intro e he
    have hk : ¬ D <+: e.1 := by
      intro hpre
      have := hempty e.1 hpre
      rw [List.lookup_eq_none_iff] at this
      have := this e he
      simp at this
    have : D.isPrefixOf e.1 = false := by
      cases hb : D.isPrefixOf e.1 with
      | false => rfl
      | true => exact absurd (List.isPrefixOf_iff_prefix.mp hb) hk
    simp [this]
  rw [h1, List.nil_append]
  induction t with
  | nil => rfl
  | cons e rest ih =>
    have : D.isPrefixOf (D ++ e.1) = true := List.isPrefixOf_iff_prefix.mpr (List.prefix_append D e.1)
    simp only [shift, List.map_cons, List.filterMap_cons, this, if_true, List.drop_left] at ih ⊢
    rw [ih]

/-- `RemoveAll(D)` leaves a base for the round trip when the ancestors of `D` are directories -/
theorem base_of_removeAll (D : List Seg) (fs : FS) (hne : D ≠ [])
    (hanc : ∀ pre, pre <+: D → pre ≠ D → isDirAt fs pre = true) : Base D (removeAll fs D) := by
  refine ⟨hne, ?_, ?_⟩
  · intro q hq
    unfold removeAll
    rw [lookup_filter_key (fun k => !D.isPrefixOf k) q fs]
    have : D.isPrefixOf q = true := List.isPrefixOf_iff_prefix.mpr hq
    simp [this]
  · intro pre hp hn
    have hnot : D.isPrefixOf pre = false := by
      cases hb : D.isPrefixOf pre with
      | false => rfl
      | true =>
        have h2 := List.isPrefixOf_iff_prefix.mp hb
        have := List.IsPrefix.length_le hp
        have := List.IsPrefix.length_le h2
        have hlen : pre.length = D.length := by omega
        exact absurd (List.IsPrefix.eq_of_length hp hlen) hn
    have := hanc pre hp hn
    unfold isDirAt stat at this ⊢
    unfold removeAll
    rw [lookup_filter_key (fun k => !D.isPrefixOf k) pre fs]
    simpa [hnot] using this

end PubModel.C17
