/-
C17 — model of `ziputil.UnzipDir`, `dock.writeTarToDir`, `ziputil.ZipDir`,
`ziputil.ZipFile` and `tarutil.TarZipFile` (names only for the last one).

* `unzipTarget g dir name`, `untarTarget g dir name`: the destination path the Go
  code computes for an entry, `none` when the entry is refused.  `g` says whether
  the function refuses `!filepath.IsLocal(name)` before it joins; it is a
  *regenerated fact* (`Gen.C17Facts`, read from the AST of the working tree), so
  that the same model describes the code before and after the repair.
* a small file-system model (`FS`: absolute segment list -> directory | file),
  with `os.MkdirAll`, `os.Create`+`Chmod`+copy, `os.OpenFile(O_CREATE|O_TRUNC)`,
  `os.RemoveAll`, all under umask 0;
* `unzipDir`, `untarDir`: the extraction loops over a list of entries, stopping
  at the first error (the state reached so far is kept, as on a real disk);
* `zipDir`, `zipFile`: the entries the library's own producers emit for a tree.

Core Lean only.
-/
import PubModel.C17.Path

namespace PubModel.C17

/-! ### destinations -/

/-- `UnzipDir`: `name := filepath.Join(dir, f.Name)`, after the refusal branch when present -/
def unzipTarget (g : Bool) (dir name : Bytes) : Option CPath :=
  if g && !isLocal name then none else some (joinC dir name)

/-- `writeTarToDir`: `dest := filepath.Join(destDir, filepath.FromSlash(header.Name))`
    (`FromSlash` is the identity for `/`-separated paths) -/
def untarTarget (g : Bool) (dir name : Bytes) : Option CPath :=
  if g && !isLocal name then none else some (joinC dir name)

/-! ### file system -/

inductive Node where
  | dir (perm : Nat)
  | file (perm : Nat) (content : Bytes)
deriving DecidableEq, Repr

/-- absolute path (segments from the root) -> node; the root itself is implicit -/
abbrev FS := List (List Seg × Node)

def stat (fs : FS) (p : List Seg) : Option Node :=
  if p = [] then some (.dir 493) else fs.lookup p

def setNode (fs : FS) (p : List Seg) (n : Node) : FS :=
  if (fs.lookup p).isSome then fs.map (fun e => if e.1 = p then (p, n) else e)
  else fs ++ [(p, n)]

/-- `os.MkdirAll(base/rest, perm)` given that `base` is an existing directory:
    walks down, creating what is missing with `perm`; fails on a non-directory. -/
def mkdirFrom (fs : FS) (base : List Seg) : List Seg → Nat → Option FS
  | [], _ => some fs
  | s :: rest, perm =>
    match stat fs (base ++ [s]) with
    | some (.dir _) => mkdirFrom fs (base ++ [s]) rest perm
    | some (.file _ _) => none
    | none => mkdirFrom (fs ++ [(base ++ [s], .dir perm)]) (base ++ [s]) rest perm

def mkdirAll (fs : FS) (p : List Seg) (perm : Nat) : Option FS := mkdirFrom fs [] p perm

def isDirAt (fs : FS) (p : List Seg) : Bool :=
  match stat fs p with
  | some (.dir _) => true
  | _ => false

/-- `os.Create(p)`; `Chmod(perm)`; copy `content`; `Close`.  The parent must be a
    directory; a directory at `p` is an error; an existing file is truncated. -/
def createChmod (fs : FS) (p : List Seg) (perm : Nat) (content : Bytes) : Option FS :=
  if !isDirAt fs p.dropLast then none else
  match stat fs p with
  | some (.dir _) => none
  | _ => some (setNode fs p (.file perm content))

/-- `os.OpenFile(p, O_RDWR|O_CREATE|O_TRUNC, perm)`; copy; `Sync`: an existing file
    keeps its permission bits. -/
def createKeep (fs : FS) (p : List Seg) (perm : Nat) (content : Bytes) : Option FS :=
  if !isDirAt fs p.dropLast then none else
  match stat fs p with
  | some (.dir _) => none
  | some (.file old _) => some (setNode fs p (.file old content))
  | none => some (setNode fs p (.file perm content))

/-- `os.RemoveAll(d)` -/
def removeAll (fs : FS) (d : List Seg) : FS :=
  fs.filter (fun e => !d.isPrefixOf e.1)

/-! ### extraction -/

inductive XErr where
  | refused      -- the entry name is not local
  | os           -- a file-system call failed (collision with a file / directory)
  | unsupported  -- tar entry that is neither a regular file nor a directory
deriving DecidableEq, Repr

/-- one zip entry as `UnzipDir` sees it -/
structure ZEntry where
  name : Bytes
  dirFlag : Bool      -- the header's mode has the directory bit
  perm : Nat
  content : Bytes
deriving DecidableEq, Repr

def endsWithSep (b : Bytes) : Bool := b.getLast? = some sep

/-- `zip.FileHeader.Mode().IsDir()`: directory bit, or a name ending in `/` -/
def ZEntry.isDir (e : ZEntry) : Bool := e.dirFlag || endsWithSep e.name

def unzipEntry (g : Bool) (dir : Bytes) (fs : FS) (e : ZEntry) : Except XErr FS :=
  match unzipTarget g dir e.name with
  | none => .error .refused
  | some t =>
    if e.isDir then
      match mkdirAll fs t.segs e.perm with
      | some fs' => .ok fs'
      | none => .error .os
    else
      match mkdirAll fs (dirOf t).segs 448 with
      | none => .error .os
      | some fs1 =>
        match createChmod fs1 t.segs e.perm e.content with
        | some fs2 => .ok fs2
        | none => .error .os

/-- a loop that keeps the state reached when an entry fails; the index of the
    failing entry is reported -/
def runEntries {ε : Type} (f : FS → ε → Except XErr FS) : FS → List ε → Nat → FS × Option (Nat × XErr)
  | fs, [], _ => (fs, none)
  | fs, e :: rest, i =>
    match f fs e with
    | .ok fs' => runEntries f fs' rest (i + 1)
    | .error x => (fs, some (i, x))

/-- `UnzipDir(dir, r, clear)` -/
def unzipDir (g : Bool) (dir : Bytes) (clear : Bool) (fs : FS) (es : List ZEntry) :
    FS × Option (Nat × XErr) :=
  let fs0 := if clear then removeAll fs (clean dir).segs else fs
  runEntries (unzipEntry g dir) fs0 es 0

inductive TKind where
  | reg | dir | other
deriving DecidableEq, Repr

/-- one tar entry as `tar.Reader.Next` reports it (a regular-file header whose name
    ends in `/` stays a regular file; `Join` drops the slash) -/
structure TEntry where
  name : Bytes
  kind : TKind
  perm : Nat
  content : Bytes
deriving DecidableEq, Repr

/-- `dir := filepath.Dir(dest); if dir != "" && dir != "." { os.MkdirAll(dir, 0700) }`:
    a cleaned `Dir` is never empty; `.` is the empty relative path -/
def tarParent (fs : FS) (t : CPath) : Option FS :=
  if !(dirOf t).rooted && (dirOf t).segs.isEmpty then some fs else mkdirAll fs (dirOf t).segs 448

def untarEntry (g : Bool) (dir : Bytes) (fs : FS) (e : TEntry) : Except XErr FS :=
  match untarTarget g dir e.name with
  | none => .error .refused
  | some t =>
    match e.kind with
    | .reg =>
      match tarParent fs t with
      | none => .error .os
      | some fs1 =>
        match createKeep fs1 t.segs e.perm e.content with
        | some fs2 => .ok fs2
        | none => .error .os
    | .dir =>
      match mkdirAll fs t.segs e.perm with
      | some fs' => .ok fs'
      | none => .error .os
    | .other => .error .unsupported

/-- `writeTarToDir(r, destDir)` -/
def untarDir (g : Bool) (dir : Bytes) (fs : FS) (es : List TEntry) : FS × Option (Nat × XErr) :=
  runEntries (untarEntry g dir) fs es 0

/-! ### `dock.writeFirstFileAs` (`Cont.CopyOutFile`) -/

inductive FFRes where
  | ok (fs : FS)
  | osErr
  | notFound
deriving DecidableEq, Repr

/-- `writeFirstFileAs(r, file)`: the content of the first regular-file entry goes to
    `file` itself, whatever name the entry carries; other entries are skipped -/
def firstFileAs (fs : FS) (dest : Bytes) : List TEntry → FFRes
  | [] => .notFound
  | e :: rest =>
    if e.kind = .reg then
      match createKeep fs (clean dest).segs e.perm e.content with
      | some fs' => .ok fs'
      | none => .osErr
    else firstFileAs fs dest rest

/-! ### the library's own producers -/

/-- a directory tree as `filepath.Walk` meets it: relative segment list -> node,
    the root `[]` first, every directory before what it contains -/
abbrev Tree := List (List Seg × Node)

/-- `filepath.Rel(dir, p)` for a path below `dir`: `.` for the root itself -/
def relName (rel : List Seg) : Bytes := if rel = [] then dot else joinSegs rel

/-- the header `ZipDir` writes for one walked item; `keepMode = false` models a
    producer that drops the permission bits (never the case for the code as read) -/
def zipEntryOf (x : List Seg × Node) : ZEntry :=
  match x.2 with
  | .dir perm => ⟨relName x.1 ++ [sep], true, perm, []⟩
  | .file perm content => ⟨relName x.1, false, perm, content⟩

/-- `ZipDir(dir, w)` -/
def zipDir (t : Tree) : List ZEntry := t.map zipEntryOf

/-- `ZipFile(file, w)`: one entry named by the base name -/
def zipFile (base : Seg) (perm : Nat) (content : Bytes) : List ZEntry := [⟨base, false, perm, content⟩]

/-- the part of a file system below `d`, relative to `d` (the tree that was extracted) -/
def subtree (fs : FS) (d : List Seg) : Tree :=
  fs.filterMap (fun e => if d.isPrefixOf e.1 then some (e.1.drop d.length, e.2) else none)

/-! ### trees in walk order (hypothesis of the round trip; the driver evaluates it on
    the trees the harness builds with `filepath.Walk` order) -/

def isDirNode : Node → Bool
  | .dir _ => true
  | .file _ _ => false

/-- an item may follow the items `t₁`: real path elements, not there yet, every
    proper ancestor is an earlier directory; the root is a directory -/
def entryOK (t₁ : Tree) (x : List Seg × Node) : Bool :=
  x.1.all (fun s => decide (Plain s)) && (t₁.lookup x.1).isNone &&
  (List.range x.1.length).all (fun k =>
    match t₁.lookup (x.1.take k) with
    | some (.dir _) => true
    | _ => false) &&
  (!x.1.isEmpty || isDirNode x.2)

def treeOKFrom (t₁ : Tree) : Tree → Bool
  | [] => true
  | x :: rest => entryOK t₁ x && treeOKFrom (t₁ ++ [x]) rest

/-- a tree as `filepath.Walk` lists it: the root directory `[]` first, every item
    after the directory that contains it, no path twice, real path elements only -/
def treeOK (t : Tree) : Bool := treeOKFrom [] t

/-- the tree `t` placed below the absolute directory `D` -/
def shift (D : List Seg) (t : Tree) : FS := t.map (fun e => (D ++ e.1, e.2))

/-! ### `tarutil.TarZipFile`: name of the tar header written for a zip entry -/

/-- `name := f.Name; if dir != "" { name = path.Join(dir, name) }` after the refusal branch -/
def tarZipName (g : Bool) (dir name : Bytes) : Option Bytes :=
  if g && !isLocal name then none
  else if dir = [] then some name else some (join dir name)

end PubModel.C17
