/-
C17 — lemmas about the path library: `split`, the segment-stack fold, locality.
-/
import PubModel.C17.Model

namespace PubModel.C17

theorem split_ne_nil (p : Bytes) : split p ≠ [] := by
  cases p with
  | nil => simp [split]
  | cons c cs =>
    unfold split
    split
    · simp
    · split <;> simp

theorem split_append_sep (a b : Bytes) : split (a ++ sep :: b) = split a ++ split b := by
  induction a with
  | nil => simp [split]
  | cons c cs ih =>
    by_cases hc : c = sep
    · simp [split, hc, ih]
    · have hne := split_ne_nil cs
      cases hs : split cs with
      | nil => exact absurd hs hne
      | cons s ss =>
        simp only [List.cons_append, split, hc, if_false, ih, hs]

/-- no segment contains a separator -/
theorem split_no_sep (p : Bytes) : ∀ s ∈ split p, sep ∉ s := by
  induction p with
  | nil => simp [split]
  | cons c cs ih =>
    by_cases hc : c = sep
    · simp only [split, hc, if_true]
      intro s hs
      cases hs with
      | head => simp
      | tail _ h => exact ih s h
    · have hne := split_ne_nil cs
      cases hs : split cs with
      | nil => exact absurd hs hne
      | cons s ss =>
        simp only [split, hc, if_false, hs]
        intro x hx
        rw [hs] at ih
        cases hx with
        | head =>
          intro hmem
          cases hmem with
          | head => exact hc rfl
          | tail _ h => exact ih s (List.mem_cons_self) h
        | tail _ h => exact ih x (List.mem_cons_of_mem _ h)

theorem cleanFold_append (r : Bool) (st : List Seg) (a b : List Seg) :
    cleanFold r st (a ++ b) = cleanFold r (cleanFold r st a) b := by
  simp [cleanFold, List.foldl_append]

theorem cleanFold_cons (r : Bool) (st : List Seg) (s : Seg) (rest : List Seg) :
    cleanFold r st (s :: rest) = cleanFold r (cleanStep r st s) rest := rfl

theorem cleanFold_nil (r : Bool) (st : List Seg) : cleanFold r st [] = st := rfl

theorem dotdot_ne_nil : dotdot ≠ [] := by decide
theorem dotdot_ne_dot : dotdot ≠ dot := by decide
theorem dot_ne_nil : dot ≠ [] := by decide

@[simp] theorem cleanStep_empty (r : Bool) (st : List Seg) : cleanStep r st [] = st := by
  simp [cleanStep]
@[simp] theorem cleanStep_dot (r : Bool) (st : List Seg) : cleanStep r st dot = st := by
  simp [cleanStep, dot_ne_nil]
@[simp] theorem cleanStep_dotdot_nil (r : Bool) :
    cleanStep r [] dotdot = if r then [] else [dotdot] := by
  simp [cleanStep, dotdot_ne_nil, dotdot_ne_dot]
@[simp] theorem cleanStep_dotdot_cons (r : Bool) (t : Seg) (st : List Seg) :
    cleanStep r (t :: st) dotdot = if t = dotdot then dotdot :: t :: st else st := by
  simp [cleanStep, dotdot_ne_nil, dotdot_ne_dot]
theorem cleanStep_real (r : Bool) (st : List Seg) (s : Seg)
    (h1 : s ≠ []) (h2 : s ≠ dot) (h3 : s ≠ dotdot) : cleanStep r st s = s :: st := by
  simp [cleanStep, h1, h2, h3]

/-- the four kinds of segment -/
theorem seg_cases (s : Seg) : s = [] ∨ s = dot ∨ s = dotdot ∨ (s ≠ [] ∧ s ≠ dot ∧ s ≠ dotdot) := by
  by_cases h1 : s = []
  · exact Or.inl h1
  · by_cases h2 : s = dot
    · exact Or.inr (Or.inl h2)
    · by_cases h3 : s = dotdot
      · exact Or.inr (Or.inr (Or.inl h3))
      · exact Or.inr (Or.inr (Or.inr ⟨h1, h2, h3⟩))

/-- once a `..` is on the stack of a relative walk it stays there -/
theorem cleanStep_keeps_dotdot (st : List Seg) (s : Seg) (h : dotdot ∈ st) :
    dotdot ∈ cleanStep false st s := by
  rcases seg_cases s with h1 | h1 | h1 | ⟨h1, h2, h3⟩
  · subst h1; simpa using h
  · subst h1; simpa using h
  · subst h1
    cases st with
    | nil => simp at h
    | cons t st' =>
      rw [cleanStep_dotdot_cons]
      split
      · simp
      · rename_i ht
        cases h with
        | head => exact absurd rfl ht
        | tail _ h' => exact h'
  · rw [cleanStep_real _ _ _ h1 h2 h3]; exact List.mem_cons_of_mem _ h

theorem cleanFold_keeps_dotdot (segs : List Seg) : ∀ (st : List Seg), dotdot ∈ st →
    dotdot ∈ cleanFold false st segs := by
  induction segs with
  | nil => intro st h; exact h
  | cons s rest ih =>
    intro st h
    rw [cleanFold_cons]
    exact ih _ (cleanStep_keeps_dotdot st s h)

/-- a step that does not produce `..` acts on the top part of the stack only -/
theorem cleanStep_frame (r : Bool) (S D : List Seg) (s : Seg)
    (hS : dotdot ∉ S) (h : dotdot ∉ cleanStep false S s) :
    cleanStep r (S ++ D) s = cleanStep false S s ++ D ∧ dotdot ∉ cleanStep false S s := by
  refine ⟨?_, h⟩
  rcases seg_cases s with h1 | h1 | h1 | ⟨h1, h2, h3⟩
  · subst h1; simp
  · subst h1; simp
  · subst h1
    cases S with
    | nil => simp at h
    | cons t S' =>
      have ht : t ≠ dotdot := by
        intro e; apply hS; rw [e]; exact List.mem_cons_self
      simp [ht]
  · simp [cleanStep_real _ _ _ h1 h2 h3]

/-- **frame lemma**: a relative walk that never steps above its start acts on top
    of any stack, rooted or not, exactly as on the empty stack -/
theorem cleanFold_frame (r : Bool) (D : List Seg) (segs : List Seg) : ∀ (S : List Seg),
    dotdot ∉ S → dotdot ∉ cleanFold false S segs →
    cleanFold r (S ++ D) segs = cleanFold false S segs ++ D := by
  induction segs with
  | nil => intro S _ _; rfl
  | cons s rest ih =>
    intro S hS h
    rw [cleanFold_cons] at h ⊢
    have hstep : dotdot ∉ cleanStep false S s := by
      intro hm
      exact h (cleanFold_keeps_dotdot rest _ hm)
    have hf := cleanStep_frame r S D s hS hstep
    rw [cleanFold_cons, hf.1]
    exact ih _ hstep h

/-- what is on the stack was there before, is a `..`, or is a real element of the input -/
theorem cleanFold_mem (r : Bool) (segs : List Seg) : ∀ (S : List Seg) (x : Seg),
    x ∈ cleanFold r S segs → x ∈ S ∨ x = dotdot ∨ (x ∈ segs ∧ x ≠ [] ∧ x ≠ dot ∧ x ≠ dotdot) := by
  induction segs with
  | nil => intro S x h; exact Or.inl h
  | cons s rest ih =>
    intro S x h
    rw [cleanFold_cons] at h
    rcases ih _ x h with h' | h' | h'
    · -- x in cleanStep r S s
      rcases seg_cases s with h1 | h1 | h1 | ⟨h1, h2, h3⟩
      · subst h1; simp at h'; exact Or.inl h'
      · subst h1; simp at h'; exact Or.inl h'
      · subst h1
        cases S with
        | nil =>
          cases r <;> simp at h'
          exact Or.inr (Or.inl h')
        | cons t S' =>
          rw [cleanStep_dotdot_cons] at h'
          split at h'
          · cases h' with
            | head => exact Or.inr (Or.inl rfl)
            | tail _ h'' => exact Or.inl h''
          · exact Or.inl (List.mem_cons_of_mem _ h')
      · rw [cleanStep_real _ _ _ h1 h2 h3] at h'
        cases h' with
        | head => exact Or.inr (Or.inr ⟨List.mem_cons_self, h1, h2, h3⟩)
        | tail _ h'' => exact Or.inl h''
    · exact Or.inr (Or.inl h')
    · exact Or.inr (Or.inr ⟨List.mem_cons_of_mem _ h'.1, h'.2⟩)

/-- a walk over the segments of a string that leaves no `..` leaves real elements only -/
theorem cleanFold_plain (p : Bytes) (h : dotdot ∉ cleanFold false [] (split p)) :
    ∀ s ∈ cleanFold false [] (split p), Plain s := by
  intro s hs
  rcases cleanFold_mem false (split p) [] s hs with h' | h' | h'
  · simp at h'
  · rw [h'] at hs; exact absurd hs h
  · exact ⟨h'.2.1, h'.2.2.1, h'.2.2.2, split_no_sep p s h'.1⟩

/-- the independent reading of "escapes" agrees with the stack walk -/
theorem escapesFrom_iff (segs : List Seg) : ∀ (S : List Seg), dotdot ∉ S →
    (escapesFrom S.length segs = true ↔ dotdot ∈ cleanFold false S segs) := by
  induction segs with
  | nil => intro S hS; simp [escapesFrom, cleanFold_nil, hS]
  | cons s rest ih =>
    intro S hS
    rw [cleanFold_cons]
    rcases seg_cases s with h1 | h1 | h1 | ⟨h1, h2, h3⟩
    · subst h1; simp only [escapesFrom, if_true, cleanStep_empty]; exact ih S hS
    · subst h1; simp only [escapesFrom, dot_ne_nil, if_false, if_true, cleanStep_dot]; exact ih S hS
    · subst h1
      cases S with
      | nil =>
        simp only [escapesFrom, dotdot_ne_nil, dotdot_ne_dot, if_false, if_true, List.length_nil,
          true_iff, cleanStep_dotdot_nil, Bool.false_eq_true]
        exact cleanFold_keeps_dotdot rest _ List.mem_cons_self
      | cons t S' =>
        have ht : t ≠ dotdot := by
          intro e; apply hS; rw [e]; exact List.mem_cons_self
        simp only [escapesFrom, dotdot_ne_nil, dotdot_ne_dot, if_false, if_true, List.length_cons,
          cleanStep_dotdot_cons, ht]
        exact ih S' (fun hm => hS (List.mem_cons_of_mem _ hm))
    · rw [cleanStep_real _ _ _ h1 h2 h3]
      simp only [escapesFrom, h1, h2, h3, if_false]
      have hn : dotdot ∉ s :: S := by
        intro hm
        cases hm with
        | head => exact h3 rfl
        | tail _ h' => exact hS h'
      have := ih (s :: S) hn
      simpa using this

theorem escapes_iff (name : Bytes) :
    escapes name = true ↔ dotdot ∈ cleanFold false [] (split name) := by
  have := escapesFrom_iff (split name) [] (by simp)
  simpa [escapes] using this

theorem isAbs_append (dir rest : Bytes) (h : dir ≠ []) : isAbs (dir ++ rest) = isAbs dir := by
  cases dir with
  | nil => exact absurd rfl h
  | cons c cs => simp [isAbs]

/-- **join under the base**: for a local name, the join is the cleaned base followed
    by the cleaned name, whose elements are all real -/
theorem joinC_local (dir name : Bytes) (h : isLocal name = true) :
    (joinC dir name).rooted = (clean dir).rooted ∧
    (joinC dir name).segs = (clean dir).segs ++ (cleanFold false [] (split name)).reverse ∧
    ∀ s ∈ (cleanFold false [] (split name)).reverse, Plain s := by
  simp only [isLocal, Bool.and_eq_true, Bool.not_eq_true', List.contains_eq_mem,
    decide_eq_false_iff_not] at h
  obtain ⟨⟨habs, hne⟩, hdd⟩ := h
  have hdd' : dotdot ∉ cleanFold false [] (split name) := by simpa using hdd
  have hplain : ∀ s ∈ (cleanFold false [] (split name)).reverse, Plain s := by
    intro s hs
    exact cleanFold_plain name hdd' s (List.mem_reverse.mp hs)
  refine ⟨?_, ?_, hplain⟩
  · unfold joinC
    split
    · rename_i hd; subst hd
      simp only [clean, habs]
      simp [isAbs]
    · rename_i hd; simp [clean, isAbs_append dir _ hd]
  · unfold joinC
    split
    · rename_i hd; subst hd
      simp only [clean, habs]
      simp [isAbs, split, cleanFold]
    · rename_i hd
      simp only [clean, isAbs_append dir _ hd, split_append_sep, cleanFold_append]
      have := cleanFold_frame (isAbs dir) (cleanFold (isAbs dir) [] (split dir)) (split name) []
        (by simp) hdd'
      simp only [List.nil_append] at this
      rw [this, List.reverse_append]

end PubModel.C17
