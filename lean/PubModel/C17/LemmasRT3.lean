/-
C17 — round trip of a `ZipFile` archive (one entry, no directory entry: the
destination is created by `MkdirAll(filepath.Dir(name), 0700)`).
-/
import PubModel.C17.LemmasRT2

namespace PubModel.C17

theorem unzip_zipFile (dir : Bytes) (B : FS) (hb : Base (clean dir).segs B)
    (base : Seg) (perm : Nat) (c : Bytes) (hp : Plain base) :
    unzipEntry true dir B ⟨base, false, perm, c⟩ =
      .ok (B ++ shift (clean dir).segs [([], .dir 448), ([base], .file perm c)]) := by
  have hpl : ∀ s ∈ [base], Plain s := by intro s hs; simp at hs; rw [hs]; exact hp
  obtain ⟨t, ht1, ht2⟩ := target_of_zipEntry dir [base] hpl false
  have hrel : relName [base] = base := by simp [relName, joinSegs]
  simp only [Bool.false_eq_true, if_false, hrel] at ht1
  generalize hD : (clean dir).segs = D at hb ht2 ⊢
  have hnd : endsWithSep base = false := by
    have := joinSegs_not_endsWithSep [base] (by simp) hpl
    simpa [joinSegs] using this
  obtain ⟨s, hs⟩ := exists_concat D hb.ne
  have hDnone : stat B D = none := by
    simp [stat, hb.ne, hb.empty D (List.prefix_refl D)]
  have hmk := mkdirFrom_last B 448 s D.dropLast []
    (by
      intro p hpp _
      simp only [List.nil_append]
      exact hb.anc p (hpp.trans (List.dropLast_prefix _)) (prefix_dropLast_ne p D hpp hb.ne))
    (by simpa [← hs] using hDnone)
  simp only [List.nil_append, ← hs] at hmk
  have hdl : (D ++ [base]).dropLast = D := List.dropLast_concat
  have hne1 : D ++ [base] ≠ [] := by simp
  have hne2 : D ++ [base] ≠ D := by
    intro e; have := congrArg List.length e; simp at this
  have hl1 : List.lookup D B = none := hb.empty D (List.prefix_refl D)
  have hl2 : List.lookup (D ++ [base]) B = none := hb.empty _ (List.prefix_append D [base])
  have hpar : isDirAt (B ++ [(D, Node.dir 448)]) D = true := by
    simp [isDirAt, stat, hb.ne, List.lookup_append, hl1, lookup_cons_eq]
  have hnone : stat (B ++ [(D, Node.dir 448)]) (D ++ [base]) = none := by
    simp [stat, hne1, List.lookup_append, hl2, lookup_cons_eq, hne2]
  have hl3 : List.lookup (D ++ [base]) (B ++ [(D, Node.dir 448)]) = none := by
    simpa [stat, hne1] using hnone
  simp only [unzipEntry, ht1, ZEntry.isDir, hnd, Bool.or_self, Bool.false_eq_true, if_false, dirOf, ht2,
    hdl, mkdirAll, hmk, createChmod, hpar, Bool.not_true, hnone, setNode_new _ _ _ hl3]
  simp [shift]

end PubModel.C17
