/-
C17 — one extracted entry changes the file system only as `ChgUnder` allows.
-/
import PubModel.C17.LemmasFS2

namespace PubModel.C17

theorem target_segs (dir name : Bytes) (t : CPath) (h : unzipTarget true dir name = some t) :
    ∃ R, t.segs = (clean dir).segs ++ R := by
  unfold unzipTarget at h
  by_cases hl : isLocal name = true
  · simp only [hl, Bool.not_true, Bool.and_false, Bool.false_eq_true, if_false, Option.some.injEq] at h
    subst h
    exact ⟨_, (joinC_local dir name hl).2.1⟩
  · simp [hl] at h

theorem unzipEntry_chg (dir : Bytes) (fs fs' : FS) (e : ZEntry)
    (h : unzipEntry true dir fs e = .ok fs') : ChgUnder (clean dir).segs fs fs' := by
  unfold unzipEntry at h
  cases ht : unzipTarget true dir e.name with
  | none => simp [ht] at h
  | some t =>
    obtain ⟨R, hR⟩ := target_segs dir e.name t ht
    simp only [ht] at h
    by_cases hd : e.isDir = true
    · simp only [hd, if_true] at h
      cases hm : mkdirAll fs t.segs e.perm with
      | none => simp [hm] at h
      | some fs1 =>
        simp only [hm, Except.ok.injEq] at h
        subst h
        exact mkdirAll_chg _ _ _ _ _ ⟨R, Or.inl hR.symm⟩ hm
    · simp only [hd, Bool.false_eq_true, if_false] at h
      cases hm : mkdirAll fs (dirOf t).segs 448 with
      | none => simp [hm] at h
      | some fs1 =>
        simp only [hm] at h
        cases hc : createChmod fs1 t.segs e.perm e.content with
        | none => simp [hc] at h
        | some fs2 =>
          simp only [hc, Except.ok.injEq] at h
          subst h
          have h1 : ChgUnder (clean dir).segs fs fs1 := by
            apply mkdirAll_chg _ _ _ _ _ _ hm
            simp only [dirOf, hR]
            exact dropLast_under _ R
          have h2 : ChgUnder (clean dir).segs fs1 fs2 :=
            chg_of_single _ t.segs _ _ (by rw [hR]; exact List.prefix_append _ _) (createChmod_chg _ _ _ _ _ hc)
          exact chg_trans _ _ _ _ h1 h2

theorem untarEntry_chg (dir : Bytes) (fs fs' : FS) (e : TEntry)
    (h : untarEntry true dir fs e = .ok fs') : ChgUnder (clean dir).segs fs fs' := by
  unfold untarEntry at h
  cases ht : untarTarget true dir e.name with
  | none => simp [ht] at h
  | some t =>
    obtain ⟨R, hR⟩ := target_segs dir e.name t ht
    simp only [ht] at h
    cases hk : e.kind with
    | other => simp [hk] at h
    | dir =>
      simp only [hk] at h
      cases hm : mkdirAll fs t.segs e.perm with
      | none => simp [hm] at h
      | some fs1 =>
        simp only [hm, Except.ok.injEq] at h
        subst h
        exact mkdirAll_chg _ _ _ _ _ ⟨R, Or.inl hR.symm⟩ hm
    | reg =>
      simp only [hk] at h
      cases hm : tarParent fs t with
      | none => simp [hm] at h
      | some fs1 =>
        simp only [hm] at h
        have h1 : ChgUnder (clean dir).segs fs fs1 := by
          unfold tarParent at hm
          split at hm
          · simp only [Option.some.injEq] at hm; subst hm; exact chg_refl _ _
          · apply mkdirAll_chg _ _ _ _ _ _ hm
            simp only [dirOf, hR]
            exact dropLast_under _ R
        cases hc : createKeep fs1 t.segs e.perm e.content with
        | none => simp [hc] at h
        | some fs2 =>
          simp only [hc, Except.ok.injEq] at h
          subst h
          have h2 : ChgUnder (clean dir).segs fs1 fs2 :=
            chg_of_single _ t.segs _ _ (by rw [hR]; exact List.prefix_append _ _) (createKeep_chg _ _ _ _ _ hc)
          exact chg_trans _ _ _ _ h1 h2

end PubModel.C17
