/-
C17 — path library: Go's `filepath.Clean`, `filepath.Join`, `filepath.IsLocal`,
`filepath.Dir` on `/`-separated byte strings (Unix flavour), defined through a
segment-stack fold.  Core Lean only; private to C17 (C12 has its own).

A path string is a `Bytes`.  `split` cuts it at every `/` (so `"a//b"` has the
segments `a`, ``, `b`), `cleanFold` walks the segments with a stack:
empty and `.` segments are skipped, `..` pops a real segment, is dropped at the
root of a rooted path, and is pushed when there is nothing to pop in a relative
path.  The stack is kept with its top at the head (`rev`), the cleaned path is
the reversed stack.  `render` prints a cleaned path as Go does (`/` + joined
segments, `.` for the empty relative path).
-/
import PubModel.Common.Hex

namespace PubModel.C17

abbrev Seg := Bytes

def sep : UInt8 := 47   -- '/'
def dotB : UInt8 := 46  -- '.'

def dot : Seg := [dotB]
def dotdot : Seg := [dotB, dotB]

/-- `strings.Split(p, "/")`: never empty, `split "" = [""]`. -/
def split : Bytes → List Seg
  | [] => [[]]
  | c :: cs =>
    if c = sep then [] :: split cs
    else match split cs with
      | [] => [[c]]
      | s :: ss => (c :: s) :: ss

/-- one step of the lexical walk of `Clean`; the stack has its top at the head -/
def cleanStep (rooted : Bool) (st : List Seg) (s : Seg) : List Seg :=
  if s = [] then st
  else if s = dot then st
  else if s = dotdot then
    match st with
    | [] => if rooted then [] else [dotdot]
    | t :: st' => if t = dotdot then dotdot :: t :: st' else st'
  else s :: st

/-- the stack after walking `segs` from the stack `st` -/
def cleanFold (rooted : Bool) (st : List Seg) (segs : List Seg) : List Seg :=
  segs.foldl (cleanStep rooted) st

/-- a cleaned path: rooted or not, and its segments (root first) -/
structure CPath where
  rooted : Bool
  segs : List Seg
deriving DecidableEq, Repr

def isAbs (p : Bytes) : Bool := p.head? = some sep

/-- `filepath.Clean` -/
def clean (p : Bytes) : CPath :=
  ⟨isAbs p, (cleanFold (isAbs p) [] (split p)).reverse⟩

def joinSegs : List Seg → Bytes
  | [] => []
  | [s] => s
  | s :: rest => s ++ sep :: joinSegs rest

/-- the string Go returns for a cleaned path -/
def render (c : CPath) : Bytes :=
  if c.rooted then sep :: joinSegs c.segs
  else if c.segs = [] then dot
  else joinSegs c.segs

def cleanB (p : Bytes) : Bytes := render (clean p)

/-- `filepath.Join(dir, name)` as a cleaned path (for the case that not both are empty) -/
def joinC (dir name : Bytes) : CPath :=
  if dir = [] then clean name else clean (dir ++ sep :: name)

/-- `filepath.Join(dir, name)` as a string: the first non-empty element on, joined
    with `/`, cleaned; the empty string when both are empty. -/
def join (dir name : Bytes) : Bytes :=
  if dir = [] ∧ name = [] then [] else render (joinC dir name)

/-- `filepath.IsLocal` (Unix): not absolute, not empty, and the lexical walk never
    steps above the starting directory (the cleaned form does not start with `..`). -/
def isLocal (p : Bytes) : Bool :=
  !isAbs p && !p.isEmpty && !(cleanFold false [] (split p)).contains dotdot

/-- `filepath.Dir` of a cleaned path -/
def dirOf (c : CPath) : CPath := ⟨c.rooted, c.segs.dropLast⟩

/-- a real path element: not empty, not `.`, not `..`, no separator inside -/
def Plain (s : Seg) : Prop := s ≠ [] ∧ s ≠ dot ∧ s ≠ dotdot ∧ sep ∉ s

instance (s : Seg) : Decidable (Plain s) := by unfold Plain; exact inferInstance

/-- **Containment, segment-wise**: `t` is `d` followed by real path elements only. -/
def Under (d t : CPath) : Prop :=
  t.rooted = d.rooted ∧ ∃ r : List Seg, t.segs = d.segs ++ r ∧ ∀ s ∈ r, Plain s

/-- executable form of `Under` -/
def underB (d t : CPath) : Bool :=
  t.rooted == d.rooted && d.segs.isPrefixOf t.segs &&
    (t.segs.drop d.segs.length).all (fun s => decide (Plain s))

/-- Independent reading of "the name has a `..` that escapes": walking the name
    from depth `d`, some `..` is met at depth 0. -/
def escapesFrom : Nat → List Seg → Bool
  | _, [] => false
  | d, s :: rest =>
    if s = [] then escapesFrom d rest
    else if s = dot then escapesFrom d rest
    else if s = dotdot then
      match d with
      | 0 => true
      | d' + 1 => escapesFrom d' rest
    else escapesFrom (d + 1) rest

def escapes (name : Bytes) : Bool := escapesFrom 0 (split name)

end PubModel.C17
