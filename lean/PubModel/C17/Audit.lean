import PubModel.C17.Theorems
open PubModel.C17
#print axioms unzip_contained
#print axioms untar_contained
#print axioms hostile_refused
#print axioms hostile_refused_or_confined
#print axioms refused_only_hostile
#print axioms unguarded_escapes
#print axioms gen_unzip_guarded
#print axioms gen_untar_guarded
#print axioms gen_tarzip_guarded
#print axioms gen_writes_use_joined
#print axioms gen_modes_kept
#print axioms zip_roundtrip
#print axioms zip_entries_accepted
#print axioms unzip_writes_contained
#print axioms untar_writes_contained
#print axioms tarzip_contained
#print axioms tarzip_hostile_refused
#print axioms zipfile_roundtrip
#print axioms firstfile_writes_only_dest
#print axioms gen_firstfile_dest_only
