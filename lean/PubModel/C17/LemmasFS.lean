/-
C17 — lemmas about the file-system model: look-ups, `setNode`, `mkdirFrom`.
-/
import PubModel.C17.Lemmas

namespace PubModel.C17

theorem lookup_cons_eq (fs : FS) (p q : List Seg) (n : Node) :
    List.lookup q ((p, n) :: fs) = if q = p then some n else List.lookup q fs := by
  rw [List.lookup_cons]
  by_cases h : q = p
  · simp [h]
  · have : (q == p) = false := by simpa using h
    simp [this, h]

theorem lookup_append_none (a b : FS) (q : List Seg) (h : List.lookup q a = none) :
    List.lookup q (a ++ b) = List.lookup q b := by
  rw [List.lookup_append, h]; rfl

theorem lookup_append_some (a b : FS) (q : List Seg) (n : Node) (h : List.lookup q a = some n) :
    List.lookup q (a ++ b) = some n := by
  rw [List.lookup_append, h]; rfl

/-- a file system extended at the end keeps what it had -/
theorem isDirAt_append (a b : FS) (q : List Seg) (h : isDirAt a q = true) : isDirAt (a ++ b) q = true := by
  unfold isDirAt stat at h ⊢
  by_cases hq : q = []
  · simp [hq]
  · simp only [hq, if_false] at h ⊢
    cases hl : List.lookup q a with
    | none => simp [hl] at h
    | some n => rw [lookup_append_some a b q n hl]; simpa [hl] using h

theorem setNode_new (fs : FS) (p : List Seg) (n : Node) (h : List.lookup p fs = none) :
    setNode fs p n = fs ++ [(p, n)] := by
  simp [setNode, h]

theorem isDirAt_nil (fs : FS) : isDirAt fs [] = true := by simp [isDirAt, stat]

/-- `MkdirAll` of a path whose elements all exist as directories changes nothing -/
theorem mkdirFrom_exists (fs : FS) (perm : Nat) : ∀ (rest base : List Seg),
    (∀ pre, pre <+: rest → pre ≠ [] → isDirAt fs (base ++ pre) = true) →
    mkdirFrom fs base rest perm = some fs := by
  intro rest
  induction rest with
  | nil => intro base _; rfl
  | cons s rest ih =>
    intro base h
    have h1 := h [s] (by simp) (by simp)
    unfold mkdirFrom
    unfold isDirAt at h1
    cases hs : stat fs (base ++ [s]) with
    | none => simp [hs] at h1
    | some n =>
      cases n with
      | file _ _ => simp [hs] at h1
      | dir _ =>
        simp only
        apply ih
        intro pre hp hne
        have := h (s :: pre) (by simpa using hp) (by simp)
        simpa using this

/-- `MkdirAll` of a path of which exactly the last element is missing creates it -/
theorem mkdirFrom_last (fs : FS) (perm : Nat) (s : Seg) : ∀ (pre base : List Seg),
    (∀ p, p <+: pre → p ≠ [] → isDirAt fs (base ++ p) = true) →
    stat fs (base ++ pre ++ [s]) = none →
    mkdirFrom fs base (pre ++ [s]) perm = some (fs ++ [(base ++ pre ++ [s], .dir perm)]) := by
  intro pre
  induction pre with
  | nil =>
    intro base _ hn
    simp only [List.append_nil] at hn
    simp [mkdirFrom, hn]
  | cons a pre ih =>
    intro base h hn
    have h1 := h [a] (by simp) (by simp)
    simp only [List.cons_append]
    unfold mkdirFrom
    unfold isDirAt at h1
    cases hs : stat fs (base ++ [a]) with
    | none => simp [hs] at h1
    | some n =>
      cases n with
      | file _ _ => simp [hs] at h1
      | dir _ =>
        simp only
        have := ih (base ++ [a])
          (by
            intro p hp hne
            have := h (a :: p) (by simpa using hp) (by simp)
            simpa using this)
          (by simpa using hn)
        simpa using this

/-- every non-empty list is its `dropLast` followed by one element -/
theorem exists_concat (l : List Seg) (h : l ≠ []) : ∃ s, l = l.dropLast ++ [s] := by
  refine ⟨l.getLast h, ?_⟩
  exact (List.dropLast_concat_getLast h).symm

theorem prefix_dropLast_ne (p l : List Seg) (hp : p <+: l.dropLast) (hl : l ≠ []) : p ≠ l := by
  intro e
  have h1 := hp.length_le
  rw [e] at h1
  simp at h1
  have : 0 < l.length := List.length_pos_iff.mpr hl
  omega

/-- look-up in a file system filtered by a predicate on the path -/
theorem lookup_filter_key (P : List Seg → Bool) (q : List Seg) : ∀ (fs : FS),
    List.lookup q (fs.filter (fun e => P e.1)) = if P q then List.lookup q fs else none := by
  intro fs
  induction fs with
  | nil => simp
  | cons e rest ih =>
    obtain ⟨k, n⟩ := e
    by_cases hk : P k = true
    · simp only [List.filter_cons, hk, if_true]
      rw [lookup_cons_eq, lookup_cons_eq, ih]
      by_cases hq : q = k
      · subst hq; simp [hk]
      · simp [hq]
    · have hk' : P k = false := by simpa using hk
      simp only [List.filter_cons, hk', Bool.false_eq_true, if_false]
      rw [ih, lookup_cons_eq]
      by_cases hq : q = k
      · subst hq; simp [hk']
      · simp [hq]

end PubModel.C17
