/-
C17 — obligations that connect the *regenerated* facts (`Gen.C17Facts`, read from
the AST of /repo's working tree on every run) to the hypotheses of the theorems:
the containment theorems are about extractors that refuse non-local names before
joining (`guard = true`), the round-trip theorem about producers that record the
mode of every item.  All closed by `decide`.
-/
import PubModel.C17.Model
import PubModel.Gen.C17Facts

namespace PubModel.C17
open PubModel.Gen

/-- `UnzipDir` has the refusal branch, in front of the join and of every file-system call -/
theorem gen_unzip_guarded : C17Facts.unzipGuard = true := by decide

/-- `writeTarToDir` has the refusal branch -/
theorem gen_untar_guarded : C17Facts.untarGuard = true := by decide

/-- `TarZipFile` has the refusal branch -/
theorem gen_tarzip_guarded : C17Facts.tarZipGuard = true := by decide

/-- the file-system calls of both extraction loops take the joined path (or its `Dir`) only -/
theorem gen_writes_use_joined : C17Facts.unzipWritesJoined = true ∧ C17Facts.untarWritesJoined = true := by decide

/-- `ZipDir`/`ZipFile` record the mode of what they archive, `UnzipDir` applies it -/
theorem gen_modes_kept : C17Facts.zipDirKeepsMode = true ∧ C17Facts.zipFileKeepsMode = true ∧
    C17Facts.unzipAppliesMode = true := by decide

/-- `writeFirstFileAs` hands the `file` parameter itself to `createFile` -/
theorem gen_firstfile_dest_only : C17Facts.firstFileWritesDestOnly = true := by decide

end PubModel.C17
