/-
C17 — lemmas for the round trip `unzipDir (zipDir t) = t`.
-/
import PubModel.C17.LemmasFS

namespace PubModel.C17

/-! ### names written by `ZipDir` -/

theorem split_nosep (s : Seg) (h : sep ∉ s) : split s = [s] := by
  induction s with
  | nil => rfl
  | cons c cs ih =>
    have hc : c ≠ sep := by intro e; apply h; rw [e]; exact List.mem_cons_self
    have hcs : sep ∉ cs := fun hm => h (List.mem_cons_of_mem _ hm)
    simp [split, hc, ih hcs]

theorem joinSegs_cons_cons (s s' : Seg) (rest : List Seg) :
    joinSegs (s :: s' :: rest) = s ++ sep :: joinSegs (s' :: rest) := rfl

theorem split_joinSegs : ∀ (r : List Seg), r ≠ [] → (∀ s ∈ r, sep ∉ s) → split (joinSegs r) = r := by
  intro r
  induction r with
  | nil => intro h; exact absurd rfl h
  | cons s rest ih =>
    intro _ hs
    cases rest with
    | nil => simpa [joinSegs] using split_nosep s (hs s List.mem_cons_self)
    | cons s' rest' =>
      rw [joinSegs_cons_cons, split_append_sep, split_nosep s (hs s List.mem_cons_self),
        ih (by simp) (fun x hx => hs x (List.mem_cons_of_mem _ hx))]
      rfl

theorem cleanFold_plain_list (b : Bool) : ∀ (r st : List Seg), (∀ s ∈ r, Plain s) →
    cleanFold b st r = r.reverse ++ st := by
  intro r
  induction r with
  | nil => intro st _; rfl
  | cons s rest ih =>
    intro st h
    have hs := h s List.mem_cons_self
    rw [cleanFold_cons, cleanStep_real b st s hs.1 hs.2.1 hs.2.2.1,
      ih _ (fun x hx => h x (List.mem_cons_of_mem _ hx))]
    simp

theorem joinSegs_ne_nil (s : Seg) (rest : List Seg) (hs : s ≠ []) : joinSegs (s :: rest) ≠ [] := by
  cases rest with
  | nil => simpa [joinSegs] using hs
  | cons s' r' => rw [joinSegs_cons_cons]; cases s <;> simp at hs ⊢

theorem joinSegs_head (s : Seg) (rest : List Seg) (hs : s ≠ []) :
    (joinSegs (s :: rest)).head? = s.head? := by
  cases s with
  | nil => exact absurd rfl hs
  | cons c cs =>
    cases rest with
    | nil => rfl
    | cons s' r' => rw [joinSegs_cons_cons]; rfl

theorem plain_head_ne_sep (s : Seg) (h : Plain s) : s.head? ≠ some sep := by
  cases s with
  | nil => simp
  | cons c cs =>
    intro e
    simp at e
    apply h.2.2.2
    rw [e]
    exact List.mem_cons_self

/-- no name of a real element list ends in a separator -/
theorem joinSegs_getLast_ne : ∀ (r : List Seg), r ≠ [] → (∀ s ∈ r, Plain s) →
    (joinSegs r).getLast? ≠ some sep := by
  intro r
  induction r with
  | nil => intro h; exact absurd rfl h
  | cons s rest ih =>
    intro _ hp
    have hs := hp s List.mem_cons_self
    cases rest with
    | nil =>
      simp only [joinSegs]
      intro hl
      exact hs.2.2.2 (List.mem_of_getLast? hl)
    | cons s' r' =>
      have hrec := ih (by simp) (fun x hx => hp x (List.mem_cons_of_mem _ hx))
      have hne := joinSegs_ne_nil s' r' (hp s' (by simp)).1
      rw [joinSegs_cons_cons, List.getLast?_append]
      have : (sep :: joinSegs (s' :: r')).getLast? = (joinSegs (s' :: r')).getLast? := by
        cases hj : joinSegs (s' :: r') with
        | nil => exact absurd hj hne
        | cons a l => simp [List.getLast?_cons_cons]
      rw [this]
      cases hj : (joinSegs (s' :: r')).getLast? with
      | none =>
        have := List.getLast?_eq_none_iff.mp hj
        exact absurd this hne
      | some c =>
        rw [hj] at hrec
        simpa using hrec

theorem joinSegs_not_endsWithSep (r : List Seg) (hr : r ≠ []) (hp : ∀ s ∈ r, Plain s) :
    endsWithSep (joinSegs r) = false :=
  decide_eq_false (joinSegs_getLast_ne r hr hp)

/-- the walk of the name of a relative element list is that list -/
theorem fold_relName (r : List Seg) (hp : ∀ s ∈ r, Plain s) :
    cleanFold false [] (split (relName r)) = r.reverse ∧
    cleanFold false [] (split (relName r ++ [sep])) = r.reverse := by
  have hsep : ∀ s ∈ r, sep ∉ s := fun s hs => (hp s hs).2.2.2
  by_cases hr : r = []
  · subst hr
    refine ⟨by decide, by decide⟩
  · have h1 : split (relName r) = r := by
      simp only [relName, hr, if_false]
      exact split_joinSegs r hr hsep
    have h2 : split (relName r ++ [sep]) = r ++ [[]] := by
      rw [split_append_sep, h1]; rfl
    refine ⟨?_, ?_⟩
    · rw [h1, cleanFold_plain_list false r [] hp]; simp
    · rw [h2, cleanFold_append, cleanFold_plain_list false r [] hp]
      simp [cleanFold_cons, cleanFold_nil]

theorem relName_head (r : List Seg) (hp : ∀ s ∈ r, Plain s) :
    isAbs (relName r) = false ∧ isAbs (relName r ++ [sep]) = false ∧ relName r ≠ [] := by
  by_cases hr : r = []
  · subst hr; refine ⟨by decide, by decide, by decide⟩
  · cases r with
    | nil => exact absurd rfl hr
    | cons s rest =>
      have hs := hp s List.mem_cons_self
      have hne := joinSegs_ne_nil s rest hs.1
      have hh := joinSegs_head s rest hs.1
      have hns := plain_head_ne_sep s hs
      simp only [relName, if_false, List.cons_ne_nil, isAbs]
      refine ⟨?_, ?_, hne⟩
      · rw [hh]; simpa using hns
      · cases hj : joinSegs (s :: rest) with
        | nil => exact absurd hj hne
        | cons a l =>
          rw [hj] at hh
          simp only [List.head?_cons] at hh
          rw [← hh] at hns
          simpa using hns

/-- **destination of an entry written by `ZipDir`**: the cleaned destination
    directory followed by the relative path of the item -/
theorem target_of_zipEntry (dir : Bytes) (r : List Seg) (hp : ∀ s ∈ r, Plain s) (slash : Bool) :
    ∃ t, unzipTarget true dir (if slash then relName r ++ [sep] else relName r) = some t ∧
      t.segs = (clean dir).segs ++ r := by
  obtain ⟨f1, f2⟩ := fold_relName r hp
  obtain ⟨a1, a2, hne⟩ := relName_head r hp
  have hnodd : dotdot ∉ r.reverse := by
    intro hm
    exact (hp dotdot (List.mem_reverse.mp hm)).2.2.1 rfl
  cases slash with
  | false =>
    have hl : isLocal (relName r) = true := by
      have : (relName r).isEmpty = false := by simpa using hne
      simp [isLocal, a1, this, f1, hnodd]
    refine ⟨joinC dir (relName r), by simp [unzipTarget, hl], ?_⟩
    have := (joinC_local dir (relName r) hl).2.1
    rw [this, f1]; simp
  | true =>
    have hl : isLocal (relName r ++ [sep]) = true := by
      simp [isLocal, a2, f2, hnodd]
    refine ⟨joinC dir (relName r ++ [sep]), by simp [unzipTarget, hl], ?_⟩
    have := (joinC_local dir (relName r ++ [sep]) hl).2.1
    rw [this, f2]; simp

/-! ### trees in walk order -/

theorem shift_append (D : List Seg) (a b : Tree) : shift D (a ++ b) = shift D a ++ shift D b := by
  simp [shift]

theorem lookup_shift (D : List Seg) (r : List Seg) : ∀ (t : Tree),
    List.lookup (D ++ r) (shift D t) = List.lookup r t := by
  intro t
  induction t with
  | nil => rfl
  | cons e rest ih =>
    obtain ⟨k, n⟩ := e
    simp only [shift, List.map_cons] at ih ⊢
    rw [lookup_cons_eq, lookup_cons_eq, ih]
    by_cases h : r = k
    · simp [h]
    · have : D ++ r ≠ D ++ k := fun e => h (List.append_cancel_left e)
      simp [h, this]

theorem lookup_shift_outside (D q : List Seg) (h : ¬ D <+: q) : ∀ (t : Tree),
    List.lookup q (shift D t) = none := by
  intro t
  induction t with
  | nil => rfl
  | cons e rest ih =>
    obtain ⟨k, n⟩ := e
    simp only [shift, List.map_cons] at ih ⊢
    rw [lookup_cons_eq, ih]
    have : q ≠ D ++ k := by
      intro e; apply h; rw [e]; exact List.prefix_append D k
    simp [this]

/-- the facts `entryOK` packs -/
theorem entryOK_facts (t₁ : Tree) (x : List Seg × Node) (h : entryOK t₁ x = true) :
    (∀ s ∈ x.1, Plain s) ∧ List.lookup x.1 t₁ = none ∧
    (∀ pre, pre <+: x.1 → pre ≠ x.1 → ∃ perm, List.lookup pre t₁ = some (.dir perm)) ∧
    (x.1 = [] → isDirNode x.2 = true) := by
  simp only [entryOK, Bool.and_eq_true, List.all_eq_true, decide_eq_true_eq, Option.isNone_iff_eq_none,
    List.mem_range, Bool.or_eq_true, Bool.not_eq_true', List.isEmpty_eq_false_iff] at h
  obtain ⟨⟨⟨h1, h2⟩, h3⟩, h4⟩ := h
  refine ⟨h1, h2, ?_, ?_⟩
  · intro pre hp hne
    have hlen : pre.length < x.1.length := by
      have := hp.length_le
      rcases Nat.lt_or_ge pre.length x.1.length with hlt | hge
      · exact hlt
      · exfalso; apply hne
        have := List.prefix_iff_eq_take.mp hp
        rw [this, List.take_of_length_le hge]
    have := h3 pre.length hlen
    rw [← List.prefix_iff_eq_take.mp hp] at this
    cases hl : List.lookup pre t₁ with
    | none => simp [hl] at this
    | some n =>
      cases n with
      | dir perm => exact ⟨perm, rfl⟩
      | file _ _ => simp [hl] at this
  · intro he
    rcases h4 with h4 | h4
    · exact absurd he h4
    · exact h4

end PubModel.C17
