/-
C17 — property theorems.  Statement file; helper lemmas are in Lemmas*.lean.

Property: extracting any zip archive into a directory, or unpacking any tar
stream copied out of a container, creates or modifies files only beneath the
destination directory, whatever entry names the archive contains; hostile
entries are refused or confined, never followed.  Archives produced by the
library's own ZipDir/ZipFile extract to the original tree.

`unzipTarget g`, `untarTarget g`: `g` is the regenerated fact "the function
refuses `!filepath.IsLocal(name)` before it joins" (`Obligations.lean` ties it to
the working tree).  The theorems are about `g = true`; for `g = false` (the code
before the repair) the negation is kept below with a concrete witness.
-/
import PubModel.C17.Lemmas
import PubModel.C17.Obligations

namespace PubModel.C17
open PubModel.Gen

/-- ASCII string literal as bytes (reducible by `decide`) -/
private def b (s : String) : Bytes := s.toList.map (fun c => UInt8.ofNat c.toNat)

/-- **A destination computed by `UnzipDir` is under `dir`, segment-wise**: it is the
    cleaned `dir` followed by real path elements only (no `..`, no `.`, no empty
    element, no separator), for every `dir` and every entry name. -/
theorem unzip_contained (dir name : Bytes) (p : CPath)
    (h : unzipTarget true dir name = some p) : Under (clean dir) p := by
  unfold unzipTarget at h
  by_cases hl : isLocal name = true
  · simp only [hl, Bool.not_true, Bool.and_false, Bool.false_eq_true, if_false, Option.some.injEq] at h
    subst h
    obtain ⟨h1, h2, h3⟩ := joinC_local dir name hl
    exact ⟨h1, _, h2, h3⟩
  · simp [hl] at h

/-- **Same for `writeTarToDir`.** -/
theorem untar_contained (dir name : Bytes) (p : CPath)
    (h : untarTarget true dir name = some p) : Under (clean dir) p :=
  unzip_contained dir name p h

/-- **Hostile names are refused**: an absolute name, and a name in which some `..`
    is applied at depth 0 of the lexical walk (at any position, after any number of
    real elements, `.` or empty elements), never gets a destination. -/
theorem hostile_refused (dir name : Bytes) (h : isAbs name = true ∨ escapes name = true) :
    unzipTarget true dir name = none ∧ untarTarget true dir name = none := by
  have hl : isLocal name = false := by
    rcases h with h | h
    · simp [isLocal, h]
    · have := (escapes_iff name).mp h
      simp [isLocal, this]
  simp [unzipTarget, untarTarget, hl]

/-- ... and whatever is not refused is confined (the two cases of the property). -/
theorem hostile_refused_or_confined (dir name : Bytes) :
    unzipTarget true dir name = none ∨ ∃ p, unzipTarget true dir name = some p ∧ Under (clean dir) p := by
  cases h : unzipTarget true dir name with
  | none => exact Or.inl rfl
  | some p => exact Or.inr ⟨p, rfl, unzip_contained dir name p h⟩

/-- **Only hostile names are refused** (legitimate archives keep working): a refused
    name is absolute, empty, or has an escaping `..`. -/
theorem refused_only_hostile (dir name : Bytes) (h : unzipTarget true dir name = none) :
    isAbs name = true ∨ name = [] ∨ escapes name = true := by
  unfold unzipTarget at h
  by_cases hl : isLocal name = true
  · simp [hl] at h
  · by_cases ha : isAbs name = true
    · exact Or.inl ha
    · by_cases he : name = []
      · exact Or.inr (Or.inl he)
      · refine Or.inr (Or.inr ?_)
        rw [escapes_iff]
        simp only [isLocal, Bool.and_eq_true, Bool.not_eq_true', List.contains_eq_mem,
          decide_eq_false_iff_not, not_and] at hl
        have ha' : isAbs name = false := by simpa using ha
        have he' : name.isEmpty = false := by simpa using he
        have := hl ⟨ha', he'⟩
        simpa using this

/-- the names `ZipDir` writes are never refused: `./`, `a/`, `a/b` ... -/
theorem plain_names_accepted (segs : List Seg) (hp : ∀ s ∈ segs, Plain s) :
    escapesFrom 0 segs = false := by
  have key : ∀ (l : List Seg) (d : Nat), (∀ s ∈ l, Plain s) → escapesFrom d l = false := by
    intro l
    induction l with
    | nil => intro d _; rfl
    | cons s rest ih =>
      intro d hp
      have hs := hp s List.mem_cons_self
      unfold escapesFrom
      simp only [hs.1, hs.2.1, hs.2.2.1, if_false]
      exact ih (d + 1) (fun x hx => hp x (List.mem_cons_of_mem _ hx))
  exact key segs 0 hp

/-- **The code before the repair violates the property** (kept as the negation, with
    the witness the harness also finds): without the refusal branch the entry
    `../evil.txt` gets a destination beside the destination directory. -/
theorem unguarded_escapes :
    ∃ dir name p, unzipTarget false dir name = some p ∧ untarTarget false dir name = some p ∧
      ¬ Under (clean dir) p := by
  refine ⟨b "/w/sandbox/dest", b "../evil.txt", ⟨true, [b "w", b "sandbox", b "evil.txt"]⟩, by decide, by decide, ?_⟩
  intro h
  obtain ⟨_, r, hr, _⟩ := h
  have : (clean (b "/w/sandbox/dest")).segs = [b "w", b "sandbox", b "dest"] := by decide
  rw [this] at hr
  simp at hr
  exact absurd hr.1 (by decide)

/-! ### non-vacuity -/

/-- a nested name with an inner `..` is accepted and lands below the destination -/
example : unzipTarget true (b "/w/sandbox/dest") (b "a/../b//c/./d.txt") =
    some ⟨true, [b "w", b "sandbox", b "dest", b "b", b "c", b "d.txt"]⟩ := by decide
example : Under (clean (b "/w/sandbox/dest")) ⟨true, [b "w", b "sandbox", b "dest", b "b", b "c", b "d.txt"]⟩ :=
  unzip_contained _ (b "a/../b//c/./d.txt") _ (by decide)
/-- the root entry `./` of every `ZipDir` archive and directory entries are accepted -/
example : unzipTarget true (b "/w/dest") (b "./") = some ⟨true, [b "w", b "dest"]⟩ := by decide
example : unzipTarget true (b "/w/dest") (b "sub/") = some ⟨true, [b "w", b "dest", b "sub"]⟩ := by decide
/-- hostile names of each class -/
example : isAbs (b "/etc/passwd") = true := by decide
example : escapes (b "a/b/../../../evil") = true := by decide
example : escapes (b "a/./..//../evil") = true := by decide
example : escapes (b "a/../b") = false := by decide
example : unzipTarget true (b "/w/dest") (b "a/b/../../../evil") = none := by decide
example : untarTarget true (b "/w/dest") (b "/etc/passwd") = none := by decide
example : unzipTarget true (b "rel/dest") (b "..") = none := by decide
/-- `..a` and `...` are ordinary names -/
example : unzipTarget true (b "/w/dest") (b "..a/...") = some ⟨true, [b "w", b "dest", b "..a", b "..."]⟩ := by decide

end PubModel.C17
