/-
C17 — property theorems.  Statement file; helper lemmas are in Lemmas*.lean.

Property: extracting any zip archive into a directory, or unpacking any tar
stream copied out of a container, creates or modifies files only beneath the
destination directory, whatever entry names the archive contains; hostile
entries are refused or confined, never followed.  Archives produced by the
library's own ZipDir/ZipFile extract to the original tree.

`unzipTarget g`, `untarTarget g`: `g` is the regenerated fact "the function
refuses `!filepath.IsLocal(name)` before it joins" (`Obligations.lean` ties it to
the working tree).  The theorems are about `g = true`; for `g = false` (the code
before the repair) the negation is kept below with a concrete witness.
-/
import PubModel.C17.LemmasRT3
import PubModel.C17.LemmasFS3
import PubModel.C17.Obligations

namespace PubModel.C17
open PubModel.Gen

/-- ASCII string literal as bytes (reducible by `decide`) -/
private def b (s : String) : Bytes := s.toList.map (fun c => UInt8.ofNat c.toNat)

/-- **A destination computed by `UnzipDir` is under `dir`, segment-wise**: it is the
    cleaned `dir` followed by real path elements only (no `..`, no `.`, no empty
    element, no separator), for every `dir` and every entry name. -/
theorem unzip_contained (dir name : Bytes) (p : CPath)
    (h : unzipTarget true dir name = some p) : Under (clean dir) p := by
  unfold unzipTarget at h
  by_cases hl : isLocal name = true
  · simp only [hl, Bool.not_true, Bool.and_false, Bool.false_eq_true, if_false, Option.some.injEq] at h
    subst h
    obtain ⟨h1, h2, h3⟩ := joinC_local dir name hl
    exact ⟨h1, _, h2, h3⟩
  · simp [hl] at h

/-- **Same for `writeTarToDir`.** -/
theorem untar_contained (dir name : Bytes) (p : CPath)
    (h : untarTarget true dir name = some p) : Under (clean dir) p :=
  unzip_contained dir name p h

/-- **Hostile names are refused**: an absolute name, and a name in which some `..`
    is applied at depth 0 of the lexical walk (at any position, after any number of
    real elements, `.` or empty elements), never gets a destination. -/
theorem hostile_refused (dir name : Bytes) (h : isAbs name = true ∨ escapes name = true) :
    unzipTarget true dir name = none ∧ untarTarget true dir name = none := by
  have hl : isLocal name = false := by
    rcases h with h | h
    · simp [isLocal, h]
    · have := (escapes_iff name).mp h
      simp [isLocal, this]
  simp [unzipTarget, untarTarget, hl]

/-- ... and whatever is not refused is confined (the two cases of the property). -/
theorem hostile_refused_or_confined (dir name : Bytes) :
    unzipTarget true dir name = none ∨ ∃ p, unzipTarget true dir name = some p ∧ Under (clean dir) p := by
  cases h : unzipTarget true dir name with
  | none => exact Or.inl rfl
  | some p => exact Or.inr ⟨p, rfl, unzip_contained dir name p h⟩

/-- **Only hostile names are refused** (legitimate archives keep working): a refused
    name is absolute, empty, or has an escaping `..`. -/
theorem refused_only_hostile (dir name : Bytes) (h : unzipTarget true dir name = none) :
    isAbs name = true ∨ name = [] ∨ escapes name = true := by
  unfold unzipTarget at h
  by_cases hl : isLocal name = true
  · simp [hl] at h
  · by_cases ha : isAbs name = true
    · exact Or.inl ha
    · by_cases he : name = []
      · exact Or.inr (Or.inl he)
      · refine Or.inr (Or.inr ?_)
        rw [escapes_iff]
        simp only [isLocal, Bool.and_eq_true, Bool.not_eq_true', List.contains_eq_mem,
          decide_eq_false_iff_not, not_and] at hl
        have ha' : isAbs name = false := by simpa using ha
        have he' : name.isEmpty = false := by simpa using he
        have := hl ⟨ha', he'⟩
        simpa using this

/-- the names `ZipDir` writes are never refused: `./`, `a/`, `a/b` ... -/
theorem plain_names_accepted (segs : List Seg) (hp : ∀ s ∈ segs, Plain s) :
    escapesFrom 0 segs = false := by
  have key : ∀ (l : List Seg) (d : Nat), (∀ s ∈ l, Plain s) → escapesFrom d l = false := by
    intro l
    induction l with
    | nil => intro d _; rfl
    | cons s rest ih =>
      intro d hp
      have hs := hp s List.mem_cons_self
      unfold escapesFrom
      simp only [hs.1, hs.2.1, hs.2.2.1, if_false]
      exact ih (d + 1) (fun x hx => hp x (List.mem_cons_of_mem _ hx))
  exact key segs 0 hp

/-- **The code before the repair violates the property** (kept as the negation, with
    the witness the harness also finds): without the refusal branch the entry
    `../evil.txt` gets a destination beside the destination directory. -/
theorem unguarded_escapes :
    ∃ dir name p, unzipTarget false dir name = some p ∧ untarTarget false dir name = some p ∧
      ¬ Under (clean dir) p := by
  refine ⟨b "/w/sandbox/dest", b "../evil.txt", ⟨true, [b "w", b "sandbox", b "evil.txt"]⟩, by decide, by decide, ?_⟩
  intro h
  obtain ⟨_, r, hr, _⟩ := h
  have : (clean (b "/w/sandbox/dest")).segs = [b "w", b "sandbox", b "dest"] := by decide
  rw [this] at hr
  simp at hr
  exact absurd hr.1 (by decide)

/-- **Extraction writes only beneath the destination** (file-system level, for every
    archive, every pre-existing file system, also when the extraction stops with an
    error, with and without `clear`): a path whose state differs afterwards is at or
    below the cleaned destination, or is an ancestor of it that did not exist and was
    created as a directory by `MkdirAll`.  Nothing else is created, changed or removed. -/
theorem unzip_writes_contained (dir : Bytes) (clear : Bool) (fs : FS) (es : List ZEntry) :
    ChgUnder (clean dir).segs fs (unzipDir true dir clear fs es).1 := by
  unfold unzipDir
  have hrun := fun fs0 => runEntries_chg (clean dir).segs (unzipEntry true dir)
    (fun fs e fs' h => unzipEntry_chg dir fs fs' e h) es fs0 0
  cases clear with
  | false => simpa using hrun fs
  | true =>
    simp only [if_true]
    exact chg_trans _ _ _ _ (removeAll_chg _ fs) (hrun _)

/-- **Same for `writeTarToDir`.** -/
theorem untar_writes_contained (dir : Bytes) (fs : FS) (es : List TEntry) :
    ChgUnder (clean dir).segs fs (untarDir true dir fs es).1 := by
  unfold untarDir
  exact runEntries_chg (clean dir).segs (untarEntry true dir)
    (fun fs e fs' h => untarEntry_chg dir fs fs' e h) es fs 0

/-- in particular a sibling of the destination is never touched -/
theorem unzip_sibling_untouched (dir : Bytes) (clear : Bool) (fs : FS) (es : List ZEntry) (q : List Seg)
    (h1 : ¬ (clean dir).segs <+: q) (h2 : ¬ q <+: (clean dir).segs) :
    stat (unzipDir true dir clear fs es).1 q = stat fs q := by
  apply Classical.byContradiction
  intro hne
  rcases unzip_writes_contained dir clear fs es q hne with h | ⟨h, _, _⟩
  · exact h1 h
  · exact h2 h

/-- **`TarZipFile` names**: a hostile zip entry name is refused; an accepted one is
    re-encoded as a tar header name that is the cleaned target directory followed by
    real path elements. -/
theorem tarzip_contained (dir name n : Bytes) (hd : dir ≠ []) (h : tarZipName true dir name = some n) :
    ∃ p, n = render p ∧ Under (clean dir) p := by
  unfold tarZipName at h
  by_cases hl : isLocal name = true
  · simp only [hl, Bool.not_true, Bool.and_false, Bool.false_eq_true, if_false, hd, Option.some.injEq] at h
    refine ⟨joinC dir name, ?_, unzip_contained dir name _ (by simp [unzipTarget, hl])⟩
    rw [← h]
    simp [join, hd]
  · simp [hl] at h

theorem tarzip_hostile_refused (dir name : Bytes) (h : isAbs name = true ∨ escapes name = true) :
    tarZipName true dir name = none := by
  have := (hostile_refused dir name h).1
  unfold unzipTarget at this
  unfold tarZipName
  by_cases hl : isLocal name = true
  · simp [hl] at this
  · simp [hl]

/-- **`writeFirstFileAs` writes the named file only**: whatever entry names the daemon
    sends, the only path whose state changes is the destination file itself. -/
theorem firstfile_writes_only_dest (fs : FS) (dest : Bytes) (es : List TEntry) (fs' : FS)
    (h : firstFileAs fs dest es = .ok fs') :
    ∀ q, stat fs' q ≠ stat fs q → q = (clean dest).segs := by
  induction es with
  | nil => simp [firstFileAs] at h
  | cons e rest ih =>
    unfold firstFileAs at h
    by_cases hk : e.kind = .reg
    · simp only [hk, if_true] at h
      cases hc : createKeep fs (clean dest).segs e.perm e.content with
      | none => simp [hc] at h
      | some fs1 =>
        simp only [hc, FFRes.ok.injEq] at h
        subst h
        exact createKeep_chg _ _ _ _ _ hc
    · simp only [hk, if_false] at h
      exact ih h

/-- **Round trip**: extracting (with `clear`) the archive `ZipDir` writes for a tree
    reproduces the tree below the destination: same relative paths, in the same
    order, same contents, same permission bits (umask 0).  `treeOK t` says that `t`
    is listed as `filepath.Walk` lists a tree (root directory first, every item after
    the directory containing it, no path twice, real path elements); the file system
    may hold anything, provided the proper ancestors of the destination are
    directories and the destination is not the root. -/
theorem zip_roundtrip (dir : Bytes) (fs : FS) (t : Tree)
    (hD : (clean dir).segs ≠ [])
    (hanc : ∀ pre, pre <+: (clean dir).segs → pre ≠ (clean dir).segs → isDirAt fs pre = true)
    (ht : treeOK t = true) :
    (unzipDir true dir true fs (zipDir t)).2 = none ∧
    subtree (unzipDir true dir true fs (zipDir t)).1 (clean dir).segs = t := by
  have hb := base_of_removeAll (clean dir).segs fs hD hanc
  have hrun := runEntries_zip dir (removeAll fs (clean dir).segs) hb t [] 0 ht
  simp only [shift, List.map_nil, List.append_nil, List.nil_append] at hrun
  simp only [unzipDir, if_true, hrun]
  exact ⟨trivial, subtree_shift _ _ hb.empty t⟩

/-- **Round trip of `ZipFile`**: the one-entry archive extracts to the file, with its
    name, mode and content, below a destination created with mode 0700. -/
theorem zipfile_roundtrip (dir : Bytes) (fs : FS) (base : Seg) (perm : Nat) (c : Bytes)
    (hp : Plain base) (hD : (clean dir).segs ≠ [])
    (hanc : ∀ pre, pre <+: (clean dir).segs → pre ≠ (clean dir).segs → isDirAt fs pre = true) :
    (unzipDir true dir true fs (zipFile base perm c)).2 = none ∧
    subtree (unzipDir true dir true fs (zipFile base perm c)).1 (clean dir).segs =
      [([], .dir 448), ([base], .file perm c)] := by
  have hb := base_of_removeAll (clean dir).segs fs hD hanc
  have hstep := unzip_zipFile dir _ hb base perm c hp
  simp only [unzipDir, if_true, zipFile, runEntries, hstep]
  exact ⟨trivial, subtree_shift _ _ hb.empty _⟩

/-- **No entry of a `ZipDir` archive is refused, none lands outside**: every
    destination is the cleaned destination directory followed by the item's path. -/
theorem zip_entries_accepted (dir : Bytes) (t₁ : Tree) (x : List Seg × Node) (hx : entryOK t₁ x = true) :
    ∃ p, unzipTarget true dir (zipEntryOf x).name = some p ∧ p.segs = (clean dir).segs ++ x.1 := by
  obtain ⟨hp, _, _, _⟩ := entryOK_facts t₁ x hx
  obtain ⟨r, n⟩ := x
  cases n with
  | dir perm => simpa [zipEntryOf] using target_of_zipEntry dir r hp true
  | file perm c => simpa [zipEntryOf] using target_of_zipEntry dir r hp false

/-! ### non-vacuity -/

/-- a nested name with an inner `..` is accepted and lands below the destination -/
example : unzipTarget true (b "/w/sandbox/dest") (b "a/../b//c/./d.txt") =
    some ⟨true, [b "w", b "sandbox", b "dest", b "b", b "c", b "d.txt"]⟩ := by decide
example : Under (clean (b "/w/sandbox/dest")) ⟨true, [b "w", b "sandbox", b "dest", b "b", b "c", b "d.txt"]⟩ :=
  unzip_contained _ (b "a/../b//c/./d.txt") _ (by decide)
/-- the root entry `./` of every `ZipDir` archive and directory entries are accepted -/
example : unzipTarget true (b "/w/dest") (b "./") = some ⟨true, [b "w", b "dest"]⟩ := by decide
example : unzipTarget true (b "/w/dest") (b "sub/") = some ⟨true, [b "w", b "dest", b "sub"]⟩ := by decide
/-- hostile names of each class -/
example : isAbs (b "/etc/passwd") = true := by decide
example : escapes (b "a/b/../../../evil") = true := by decide
example : escapes (b "a/./..//../evil") = true := by decide
example : escapes (b "a/../b") = false := by decide
example : unzipTarget true (b "/w/dest") (b "a/b/../../../evil") = none := by decide
example : untarTarget true (b "/w/dest") (b "/etc/passwd") = none := by decide
example : unzipTarget true (b "rel/dest") (b "..") = none := by decide
/-- `..a` and `...` are ordinary names -/
example : unzipTarget true (b "/w/dest") (b "..a/...") = some ⟨true, [b "w", b "dest", b "..a", b "..."]⟩ := by decide


/-- a tree with a nested directory, an empty directory, files of different modes -/
private def exTree : Tree :=
  [([], .dir 0o750), ([b "a"], .file 0o644 (b "hello")), ([b "sub"], .dir 0o711),
   ([b "sub", b "x.sh"], .file 0o755 (b "#!")), ([b "sub", b "deep"], .dir 0o700),
   ([b "sub", b "deep", b "..z"], .file 0o400 []), ([b "void"], .dir 0o777)]
private def exFS : FS := [([b "w"], .dir 0o755), ([b "w", b "dest"], .dir 0o700), ([b "w", b "dest", b "stale"], .file 0o600 (b "x"))]

example : treeOK exTree = true := by decide
example : (zipDir exTree).map (·.name) =
    [b "./", b "a", b "sub/", b "sub/x.sh", b "sub/deep/", b "sub/deep/..z", b "void/"] := by decide
example : subtree (unzipDir true (b "/w/dest") true exFS (zipDir exTree)).1 [b "w", b "dest"] = exTree :=
  (zip_roundtrip (b "/w/dest") exFS exTree (by decide)
    (by
      intro pre hp hne
      have : pre = [] ∨ pre = [b "w"] := by
        have h : (clean (b "/w/dest")).segs = [b "w", b "dest"] := by decide
        rw [h] at hp hne
        rcases List.prefix_cons_iff.mp hp with h1 | ⟨t1, rfl, h1⟩
        · exact Or.inl h1
        · rcases List.prefix_cons_iff.mp h1 with h2 | ⟨t2, rfl, h2⟩
          · exact Or.inr (by rw [h2])
          · have : t2 = [] := List.prefix_nil.mp h2
            subst this; exact absurd rfl hne
      rcases this with rfl | rfl <;> decide)
    (by decide)).2
/-- a hostile archive against a populated file system: the first entry is extracted,
    the second refused, the sibling file keeps its content -/
example : unzipDir true (b "/w/dest") false
    [([b "w"], .dir 0o755), ([b "w", b "sib.txt"], .file 0o644 (b "mine"))]
    [⟨b "ok/f", false, 0o600, b "1"⟩, ⟨b "ok/../../sib.txt", false, 0o666, b "evil"⟩, ⟨b "late", false, 0o600, []⟩] =
    ([([b "w"], .dir 0o755), ([b "w", b "sib.txt"], .file 0o644 (b "mine")), ([b "w", b "dest"], .dir 0o700),
      ([b "w", b "dest", b "ok"], .dir 0o700), ([b "w", b "dest", b "ok", b "f"], .file 0o600 (b "1"))],
     some (1, .refused)) := by decide
/-- a daemon that names its only entry `../escaped.txt`: the content still goes to the destination file -/
example : firstFileAs [([b "w"], .dir 0o755)] (b "/w/out.txt") [⟨b "d", .dir, 0o755, []⟩, ⟨b "../escaped.txt", .reg, 0o600, b "x"⟩] =
    .ok [([b "w"], .dir 0o755), ([b "w", b "out.txt"], .file 0o600 (b "x"))] := by decide
/-- a listing that is not in walk order (child before its directory) is not `treeOK` -/
example : treeOK [([], .dir 0o755), ([b "d", b "f"], .file 0o644 []), ([b "d"], .dir 0o755)] = false := by decide

end PubModel.C17
