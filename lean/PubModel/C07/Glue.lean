/-
C07/C09 — glue: the configuration regenerated from /repo.
-/
import PubModel.C07.Model
import PubModel.Gen.JsonxVal

namespace PubModel.C07

/-- the model instance that corresponds to the working tree -/
def genCfg : Cfg := PubModel.Gen.JsonxVal.cfg

end PubModel.C07
