/-
C09 — every float token the lexer produces starts with a digit (so the `encoding/json`
leaf contract for floats applies to every accepted input).
-/
import PubModel.C07.LemmasJson
import PubModel.C07.LemmasSound

namespace PubModel.C07

/-- a float token starts with a digit -/
def FloatDigit (t : Tok) : Prop := t.ty = .float → headIs isDigit t.lit = true

theorem lexNumber_floatDigit (signs : List Char) (c : Char) (r : Chars) (hc : isDigit c = true) :
    FloatDigit (lexNumber signs (c :: r)).1 := by
  intro _
  simp only [lexNumber]
  split <;> simp [headIs, hc]

theorem lexOne_floatDigit (cfg : Cfg) (cs : Chars) : FloatDigit (lexOne cfg cs).1.tok := by
  cases cs with
  | nil => intro h; simp [lexOne, eofTok] at h
  | cons c r =>
    simp only [lexOne]
    by_cases h1 : c = '\n'
    · simp only [h1, ↓reduceIte]; intro h; simp at h
    · simp only [h1, ↓reduceIte]
      by_cases h2 : c = '"'
      · simp only [h2, ↓reduceIte]; intro h; simp [lexString] at h
      · simp only [h2, ↓reduceIte]
        by_cases h3 : c = '`'
        · simp only [h3, ↓reduceIte]; intro h; simp only [lexRawString] at h; split at h <;> simp at h
        · simp only [h3, ↓reduceIte]
          by_cases h4 : isDigit c = true
          · simp only [h4, ↓reduceIte]; exact lexNumber_floatDigit _ c r h4
          · simp only [h4, Bool.false_eq_true, ↓reduceIte]
            by_cases h5 : isIdentLetter c = true
            · simp only [h5, ↓reduceIte]; intro h; simp [lexIdent] at h
            · simp only [h5, Bool.false_eq_true, ↓reduceIte]
              by_cases h6 : c ∈ cfg.operators
              · simp only [h6, ↓reduceIte]; intro h; simp at h
              · simp only [h6, ↓reduceIte]
                by_cases h7 : c = '/'
                · simp only [h7, ↓reduceIte]
                  split
                  · intro h; simp at h
                  · split <;> (intro h; simp at h)
                · simp only [h7, ↓reduceIte]
                  split <;> (intro h; simp at h)

theorem lexAll_floatDigit (cfg : Cfg) : ∀ (n : Nat) (cs : Chars), ∀ t ∈ lexAll cfg n cs, FloatDigit t.tok
  | 0, _, t, h => by simp [lexAll] at h; subst h; intro h; simp [eofTok] at h
  | n+1, cs, t, h => by
    simp only [lexAll] at h
    split at h
    · simp at h; subst h; intro h; simp [eofTok] at h
    · simp only [List.mem_cons] at h
      rcases h with h | h
      · subst h; exact lexOne_floatDigit cfg _
      · exact lexAll_floatDigit cfg n _ t h

theorem semiInsert_floatDigit : ∀ (ts : List RTok) (ins : Bool), (∀ t ∈ ts, FloatDigit t.tok) →
    ∀ t ∈ semiInsert ins ts, FloatDigit t.tok
  | [], _, _, t, h => by simp [semiInsert] at h
  | x :: ts, ins, hall, t, h => by
    have hx := hall x (by simp)
    have ih := fun i => semiInsert_floatDigit ts i (fun y hy => hall y (by simp [hy]))
    have hsemi : ∀ (l : Chars) (e : List String), FloatDigit (⟨⟨.semi, l⟩, e⟩ : RTok).tok := by
      intro l e h; simp at h
    simp only [semiInsert] at h
    split at h
    · simp only [List.mem_cons] at h; rcases h with h | h
      · subst h; exact hx
      · exact ih _ t h
    · simp only [List.mem_cons] at h; rcases h with h | h
      · subst h; exact hx
      · exact ih _ t h
    · split at h
      · simp only [List.mem_cons, List.not_mem_nil, or_false] at h
        rcases h with h | h
        · subst h; exact hsemi _ _
        · subst h; intro h'; rename_i heof _; simp [heof] at h'
      · simp at h; subst h; exact hx
    · split at h
      · simp only [List.mem_cons] at h; rcases h with h | h
        · subst h; exact hsemi _ _
        · exact ih _ t h
      · exact ih _ t h
    · simp only [List.mem_cons] at h; rcases h with h | h
      · subst h; exact hx
      · exact ih _ t h
    · simp only [List.mem_cons] at h; rcases h with h | h
      · subst h; exact hx
      · exact ih _ t h

theorem keyworder_floatDigit (kws : List Chars) (ts : List RTok) (hall : ∀ t ∈ ts, FloatDigit t.tok) :
    ∀ t ∈ keyworder kws ts, FloatDigit t.tok := by
  intro t h
  simp only [keyworder, List.mem_map] at h
  obtain ⟨x, hx, rfl⟩ := h
  split
  · intro h; simp at h
  · exact hall x hx

theorem dropComments_floatDigit : ∀ (ts : List RTok) (carry : List String), (∀ t ∈ ts, FloatDigit t.tok) →
    ∀ t ∈ dropComments carry ts, FloatDigit t.tok
  | [], _, _, t, h => by simp [dropComments] at h
  | x :: ts, carry, hall, t, h => by
    have ih := fun c => dropComments_floatDigit ts c (fun y hy => hall y (by simp [hy]))
    simp only [dropComments] at h
    split at h
    · exact ih _ t h
    · simp only [List.mem_cons] at h; rcases h with h | h
      · subst h; exact hall x (by simp)
      · exact ih _ t h

/-- every float token of the parser's token stream starts with a digit -/
theorem tokens_floatDigit (cfg : Cfg) (cs : Chars) : ∀ t ∈ tokens cfg cs, FloatDigit t.tok := by
  simp only [tokens]
  exact dropComments_floatDigit _ _ (keyworder_floatDigit _ _ (semiInsert_floatDigit _ _ (lexAll_floatDigit cfg _ _)))

mutual
theorem floatLits_of_toks : ∀ (r : RV), (∀ t ∈ r.toks, FloatDigit t) → r.FloatLits
  | .null, _ => trivial
  | .tru, _ => trivial
  | .fls, _ => trivial
  | .int _ _, _ => trivial
  | .flt lead lit, h => by
    have := h ⟨.float, lit⟩ (by cases lead <;> simp [RV.toks, leadToks])
    exact this rfl
  | .str _, _ => trivial
  | .arr xs, h => floatLits_of_toksL xs (fun t ht => h t (by simp [RV.toks, ht]))
  | .obj kvs, h => floatLits_of_toksO kvs (fun t ht => h t (by simp [RV.toks, ht]))
  | .idents _ _, _ => trivial
theorem floatLits_of_toksL : ∀ (xs : RL), (∀ t ∈ xs.toks, FloatDigit t) → xs.FloatLits
  | .nil, _ => trivial
  | .single v, h => floatLits_of_toks v (fun t ht => h t (by simpa [RL.toks] using ht))
  | .cons v r, h => ⟨floatLits_of_toks v (fun t ht => h t (by simp [RL.toks, ht])),
      floatLits_of_toksL r (fun t ht => h t (by simp [RL.toks, ht]))⟩
theorem floatLits_of_toksO : ∀ (kvs : RO), (∀ t ∈ kvs.toks, FloatDigit t) → kvs.FloatLits
  | .nil, _ => trivial
  | .single _ v, h => floatLits_of_toks v (fun t ht => h t (by simp [RO.toks, ht]))
  | .cons _ v r, h => ⟨floatLits_of_toks v (fun t ht => h t (by simp [RO.toks, ht])),
      floatLits_of_toksO r (fun t ht => h t (by simp [RO.toks, ht]))⟩
end

end PubModel.C07
